(* Well-formedness of the parse trees the interpreter produces, for grammars in the class of the
   refinement theorem without separators: proved on the reference semantics and transported by
   C01_refinement_partial. *)
From TxV Require Import Core.Base Model.PegSyntax Model.Peg Model.Spec Model.Build
     Proofs.BuildProofs Proofs.SpecProofs Proofs.SpecSepProofs.
Require Import Lia.

(* trees laid out left to right inside [lo, hi], each well formed *)
Fixpoint lay (lo hi : nat) (l : list tree) : Prop :=
  match l with
  | [] => lo <= hi
  | t :: l' => wf_tree t = true /\ lo <= tpos t /\ lay (tend t) hi l'
  end.

Lemma lay_le l : forall lo hi, lay lo hi l -> lo <= hi.
Proof.
  induction l as [|t l IH]; intros lo hi H; [exact H|].
  destruct H as [W [A B]]. pose proof (wf_tree_nonempty _ W). specialize (IH _ _ B). lia.
Qed.

Lemma lay_app a : forall lo mid hi b, lay lo mid a -> lay mid hi b -> lay lo hi (a ++ b).
Proof.
  induction a as [|t a IH]; intros lo mid hi b Ha Hb; cbn [app].
  - cbn in Ha. destruct b as [|u b]; [cbn in *; lia|]. destruct Hb as [W [A B]]. split; [exact W|]. split; [lia | exact B].
  - destruct Ha as [W [A B]]. split; [exact W|]. split; [exact A|]. apply (IH _ mid); assumption.
Qed.

Lemma lay_lo l lo lo' hi : lay lo hi l -> lo' <= lo -> lay lo' hi l.
Proof. destruct l as [|t l]; cbn; intros H L; [lia|]. destruct H as [W [A B]]. split; [exact W|]. split; [lia | exact B]. Qed.

Lemma lay_hi l : forall lo hi hi', lay lo hi l -> hi <= hi' -> lay lo hi' l.
Proof.
  induction l as [|t l IH]; intros lo hi hi' H L; [cbn in *; lia|].
  destruct H as [W [A B]]. split; [exact W|]. split; [exact A|]. apply (IH _ hi); assumption.
Qed.

Lemma wf_NT_cons n t u l :
  wf_tree (NT n (u :: l)) = true -> wf_tree t = true -> tend t <= tpos u -> wf_tree (NT n (t :: u :: l)) = true.
Proof.
  intros H W A. cbn [wf_tree forallb] in H |- *.
  change (ordered (t :: u :: l)) with (Nat.leb (tend t) (tpos u) && ordered (u :: l))%bool.
  apply andb_true_iff in H as [H1 H2]. cbn [andb] in H1. rewrite W, H1, H2. cbn [andb].
  rewrite andb_true_r. apply Nat.leb_le. exact A.
Qed.

(* a non-empty laid-out list makes a well-formed NonTerminal inside the same interval *)
Lemma lay_NT n t l lo hi :
  lay lo hi (t :: l) -> wf_tree (NT n (t :: l)) = true /\ lo <= tpos (NT n (t :: l)) /\ tend (NT n (t :: l)) <= hi.
Proof.
  revert t lo. induction l as [|u l IH]; intros t lo H.
  - destruct H as [W [A B]]. cbn in B. cbn [wf_tree forallb ordered]. rewrite W. cbn [andb].
    split; [reflexivity|]. rewrite tpos_NT, tend_single. split; lia.
  - destruct H as [W [A B]]. destruct (IH u (tend t) B) as [W' [A' B']].
    rewrite tpos_NT in *. rewrite tend_cons.
    split; [|split; [exact A | exact B']].
    apply wf_NT_cons; assumption.
Qed.

Lemma lay_T nid p len sp : 0 < len -> lay p (p + len) [T nid p len sp].
Proof.
  intro H. cbn [lay wf_tree tpos tend]. split; [apply Nat.ltb_lt; exact H|]. split; lia.
Qed.

Section Wf.
Variable g : grammar.
Variable input : list N.
Variable orc : nat -> nat -> option nat.
Variable pf : nat.
Hypothesis Hcm : g_comments g = None.
Hypothesis Horc : orc_pos orc.
Hypothesis Hwf : forall nid nd, get_node g nid = Some nd -> node_ok g (prodb g pf) nd = true.
Hypothesis Hnosep : forall nid nd, get_node g nid = Some nd -> n_sep nd = None.

(* nodes other than the top node and EOF *)
Definition inner (nid : nat) : Prop :=
  nid <> g_top g /\ match get_node g nid with Some nd => n_kind nd <> KEOF | None => False end.
Hypothesis Hinner : forall nid nd, get_node g nid = Some nd -> nid <> g_top g -> forall c, In c (n_kids nd) -> inner c.

Notation sparser := (nat -> bool -> sctx -> nat -> sres) (only parsing).

Definition wfP (srec : sparser) : Prop :=
  forall nid psq x p ts p', inner nid -> srec nid psq x p = SOk ts p' ->
    p <= p' /\ lay p p' (erase_all ts) /\
    (forall k, prodb g k nid = true -> erase_all ts <> [] /\ p < p').

Lemma sseq_wf srec psq x kids : wfP srec -> (forall c, In c kids -> inner c) ->
  forall acc p0 p ts p', lay p0 p (erase_all acc) -> sseq srec psq x kids acc p = SOk ts p' ->
    p <= p' /\ lay p0 p' (erase_all ts) /\ (exists rest, erase_all ts = erase_all acc ++ rest) /\
    (forall k, existsb (prodb g k) kids = true -> erase_all ts <> [] /\ p < p').
Proof.
  intros HP. induction kids as [|c kids IH]; intros Hin acc p0 p ts p' Hl H; cbn [sseq] in H.
  - inversion H; subst. split; [lia|]. split; [exact Hl|]. split; [exists []; rewrite app_nil_r; reflexivity|].
    intros k X; discriminate.
  - destruct (srec c psq x p) as [ts1 p1| |] eqn:E; try discriminate.
    destruct (HP c psq x p ts1 p1 (Hin c (or_introl eq_refl)) E) as [L1 [Y1 Pr1]].
    assert (Hl1 : lay p0 p1 (erase_all (acc ++ ts1))) by (rewrite erase_all_app; apply (lay_app _ p0 p); assumption).
    destruct (IH (fun c' Hc' => Hin c' (or_intror Hc')) (acc ++ ts1) p0 p1 ts p' Hl1 H) as [L2 [Y2 [[rest Er] Pr2]]].
    split; [lia|]. split; [exact Y2|]. split.
    + exists (erase_all ts1 ++ rest). rewrite Er, erase_all_app, app_assoc. reflexivity.
    + intros k Hk. cbn [existsb] in Hk. apply orb_true_iff in Hk as [Hk|Hk].
      * destruct (Pr1 k Hk) as [N1 Lt]. split; [|lia]. rewrite Er, erase_all_app. intro X.
        apply app_eq_nil in X as [X _]. apply app_eq_nil in X as [_ X]. contradiction.
      * destruct (Pr2 k Hk) as [N2 Lt]. split; [exact N2 | lia].
Qed.

Lemma schoice_wf srec x kids : wfP srec -> (forall c, In c kids -> inner c) ->
  (forall c, In c kids -> prodb g pf c = true) ->
  forall p ts p', schoice srec x kids p = SOk ts p' -> p < p' /\ lay p p' (erase_all ts) /\ erase_all ts <> [].
Proof.
  intros HP. induction kids as [|c kids IH]; intros Hin Hpr p ts p' H; cbn [schoice] in H; [discriminate|].
  destruct (srec c false x p) as [ts1 p1| |] eqn:E; try discriminate.
  - inversion H; subst. destruct (HP c false x p ts p' (Hin c (or_introl eq_refl)) E) as [L1 [Y1 Pr1]].
    destruct (Pr1 pf (Hpr c (or_introl eq_refl))) as [N Lt]. split; [exact Lt|]. split; [exact Y1 | exact N].
  - apply IH; [intros c' Hc'; apply Hin; right; exact Hc' | intros c' Hc'; apply Hpr; right; exact Hc' | exact H].
Qed.

Lemma srep_wf srec e plus x : wfP srec -> inner e -> prodb g pf e = true ->
  forall k first acc p0 p ts p', lay p0 p (erase_all acc) -> srep false srec e None plus x k first acc p = SOk ts p' ->
    p <= p' /\ lay p0 p' (erase_all ts) /\
    ((ts = acc /\ p' = p) \/ (erase_all ts <> [] /\ p < p')) /\
    ((plus && first)%bool = true -> erase_all ts <> [] /\ p < p').
Proof.
  intros HP Hie Hpe. induction k as [|k IH]; intros first acc p0 p ts p' Hl H; [discriminate|].
  cbn [srep] in H. cbn [app] in H.
  destruct (srec e false x p) as [ts1 p1| |] eqn:E; try discriminate.
  - destruct (HP e false x p ts1 p1 Hie E) as [L1 [Y1 Pr1]]. destruct (Pr1 pf Hpe) as [N1 Lt1].
    assert (Hb : Nat.ltb p p1 = true) by (apply Nat.ltb_lt; exact Lt1). rewrite Hb in H.
    assert (Hl1 : lay p0 p1 (erase_all (acc ++ ts1))) by (rewrite erase_all_app; apply (lay_app _ p0 p); assumption).
    destruct (IH false (acc ++ ts1) p0 p1 ts p' Hl1 H) as [L2 [Y2 [D2 _]]].
    assert (Hne : erase_all ts <> [] /\ p < p').
    { destruct D2 as [[-> ->]|[A B]].
      - split; [|exact Lt1]. rewrite erase_all_app. intro X. apply app_eq_nil in X as [_ X]. contradiction.
      - split; [exact A | lia]. }
    split; [lia|]. split; [exact Y2|]. split; [right; exact Hne | intros _; exact Hne].
  - destruct (plus && first)%bool; [discriminate|]. inversion H; subst.
    split; [lia|]. split; [exact Hl|]. split; [left; split; reflexivity | intro X; discriminate].
Qed.

Lemma seval_wf : forall f, wfP (seval g input orc false f).
Proof.
  induction f as [|f IH]; intros nid psq x p ts p' [Hnt Hk] H; [discriminate|].
  cbn [seval] in H. destruct (get_node g nid) as [nd|] eqn:En; [|discriminate].
  pose proof (Hwf _ _ En) as Hok. unfold node_ok in Hok.
  apply andb_true_iff in Hok as [Hok Hkind]. apply andb_true_iff in Hok as [Hok Hkids].
  assert (Hin : forall c, In c (n_kids nd) -> inner c) by (apply (Hinner nid nd En Hnt)).
  destruct (is_match_kind (n_kind nd)) eqn:Em.
  - (* terminals *)
    set (p1 := if x_skip x then sws input x p else p) in *.
    assert (Hp1 : p <= p1) by (subst p1; destruct (x_skip x); [apply skip_ws_from_ge | lia]).
    assert (Hs : skip g input (seval g input orc false f) f x p = Some p1).
    { unfold skip. rewrite Hcm. subst p1. destruct (x_skip x); [destruct (x_incmt x); reflexivity | reflexivity]. }
    rewrite Hs in H. clear Hs.
    assert (HT : forall ts0 p2, term_match input orc nid (n_kind nd) psq p1 = SOk ts0 p2 ->
                   p1 < p2 /\ lay p1 p2 (erase_all ts0) /\ erase_all ts0 <> []).
    { intros ts0 p2 HM. destruct (n_kind nd) as [| | | | | | | | | |t o|o] eqn:Ek; try discriminate.
      - exfalso. apply Hk. reflexivity.
      - assert (Hlen : 0 < length t) by (destruct t; [discriminate | cbn; lia]).
        cbn [term_match] in HM.
        assert (X : ts0 = [ST nid p1 (length t) psq] /\ p2 = p1 + length t).
        { destruct o as [o|]; [destruct (orc o p1) | destruct (is_prefix t (skipn p1 input))]; inversion HM; split; reflexivity. }
        destruct X as [-> ->]. change (erase_all [ST nid p1 (length t) psq]) with [T nid p1 (length t) psq].
        split; [lia|]. split; [apply lay_T; exact Hlen | discriminate].
      - cbn [term_match] in HM. destruct (orc o p1) as [len|] eqn:Eo; [|discriminate]. inversion HM; subst.
        pose proof (Horc _ _ _ Eo) as Hlen. change (erase_all [ST nid p1 len false]) with [T nid p1 len false].
        split; [lia|]. split; [apply lay_T; exact Hlen | discriminate]. }
    destruct (term_match input orc nid (n_kind nd) psq p1) as [ts0 p2| |] eqn:EM; try discriminate.
    destruct (HT ts0 p2 eq_refl) as [Lt [Y N]]. inversion H; subst.
    destruct (n_suppress nd) eqn:Hsup.
    + split; [lia|]. split; [cbn; lia|]. intros k Hkp. destruct k as [|k]; [rewrite prodb_0 in Hkp; discriminate|].
      rewrite (prodb_S g k nid nd En) in Hkp. unfold prod_nd in Hkp. rewrite Hsup in Hkp. discriminate.
    + split; [lia|]. split; [apply (lay_lo _ p1); assumption|]. intros _ _. split; [exact N | lia].
  - (* non-terminals *)
    assert (HB : forall ts0 p2, sbody false (seval g input orc false f) f nd x p = SOk ts0 p2 ->
              p <= p2 /\ lay p p2 (erase_all ts0) /\
              (forall k, prod_nd (prodb g k) nd = true -> erase_all ts0 <> [] /\ p < p2) /\
              (live_root nd = true -> erase_all ts0 = [] -> ts0 = [] /\ (n_kind nd = KOpt \/ n_kind nd = KStar))).
    { intros ts0 p2 HS. unfold sbody in HS. pose proof (Hnosep _ _ En) as Hns.
      destruct (n_kind nd) eqn:Ek; try discriminate.
      - (* KSeq *)
        destruct (sseq_wf _ true (ctx_enter nd x) (n_kids nd) IH Hin [] p p ts0 p2 (le_n _) HS) as [L [Y [_ Pr]]].
        split; [exact L|]. split; [exact Y|]. split.
        + intros k Hp. unfold prod_nd in Hp. rewrite Ek in Hp. apply andb_true_iff in Hp as [_ Hp]. apply (Pr k Hp).
        + intros Hr X. exfalso. rewrite Hr in Hkind. unfold prod_nd in Hkind. rewrite Ek in Hkind.
          apply andb_true_iff in Hkind as [_ Hp]. destruct (Pr pf Hp) as [N _]. contradiction.
      - (* KChoice *)
        apply andb_true_iff in Hkind as [Hall _].
        assert (Hpr : forall c, In c (n_kids nd) -> prodb g pf c = true) by (rewrite forallb_forall in Hall; exact Hall).
        destruct (schoice_wf _ (ctx_enter nd x) (n_kids nd) IH Hin Hpr p ts0 p2 HS) as [Lt [Y N]].
        split; [lia|]. split; [exact Y|]. split; [intros _ _; split; [exact N | exact Lt]|]. intros _ X. contradiction.
      - (* KOpt *)
        destruct (n_kids nd) as [|e rest] eqn:Ekids; [discriminate|].
        destruct (seval g input orc false f e false x p) as [ts1 p1| |] eqn:E; try discriminate.
        + inversion HS; subst. destruct (IH e false x p ts0 p2 (Hin e (or_introl eq_refl)) E) as [L [Y Pr]].
          split; [exact L|]. split; [exact Y|]. split.
          * intros k Hp. unfold prod_nd in Hp. rewrite Ek, andb_false_r in Hp. discriminate.
          * intros Hr X. exfalso. rewrite Hr in Hkind. destruct (Pr pf Hkind) as [N _]. contradiction.
        + inversion HS; subst. split; [lia|]. split; [cbn; lia|]. split.
          * intros k Hp. unfold prod_nd in Hp. rewrite Ek, andb_false_r in Hp. discriminate.
          * intros _ _. split; [reflexivity | left; reflexivity].
      - (* KStar *)
        destruct (n_kids nd) as [|e rest] eqn:Ekids; [discriminate|]. rewrite Hns in HS.
        destruct (srep_wf _ e false (ctx_eol nd x) IH (Hin e (or_introl eq_refl)) Hkind f true [] p p ts0 p2 (le_n _) HS) as [L [Y [D _]]].
        split; [exact L|]. split; [exact Y|]. split.
        + intros k Hp. unfold prod_nd in Hp. rewrite Ek, andb_false_r in Hp. discriminate.
        + intros _ X. destruct D as [[-> _]|[N _]]; [split; [reflexivity | right; reflexivity] | contradiction].
      - (* KPlus *)
        destruct (n_kids nd) as [|e rest] eqn:Ekids; [discriminate|]. rewrite Hns in HS.
        destruct (srep_wf _ e true (ctx_eol nd x) IH (Hin e (or_introl eq_refl)) Hkind f true [] p p ts0 p2 (le_n _) HS) as [L [Y [_ Pf]]].
        destruct (Pf eq_refl) as [N Lt].
        split; [exact L|]. split; [exact Y|]. split; [intros _ _; split; assumption|]. intros _ X. contradiction.
      - (* KAnd *)
        apply negb_true_iff in Hkind.
        destruct (sseq (seval g input orc false f) false x (n_kids nd) [] p); try discriminate. inversion HS; subst.
        split; [lia|]. split; [cbn; lia|]. split.
        + intros k Hp. unfold prod_nd in Hp. rewrite Ek, andb_false_r in Hp. discriminate.
        + intro X. rewrite Hkind in X. discriminate.
      - (* KNot *)
        apply negb_true_iff in Hkind.
        destruct (sseq (seval g input orc false f) false x (n_kids nd) [] p); try discriminate. inversion HS; subst.
        split; [lia|]. split; [cbn; lia|]. split.
        + intros k Hp. unfold prod_nd in Hp. rewrite Ek, andb_false_r in Hp. discriminate.
        + intro X. rewrite Hkind in X. discriminate.
      - (* KEmpty *)
        apply negb_true_iff in Hkind. inversion HS; subst.
        split; [lia|]. split; [cbn; lia|]. split.
        + intros k Hp. unfold prod_nd in Hp. rewrite Ek, andb_false_r in Hp. discriminate.
        + intro X. rewrite Hkind in X. discriminate. }
    destruct (sbody false (seval g input orc false f) f nd x p) as [ts0 p2| |] eqn:EB; try discriminate.
    destruct (HB ts0 p2 eq_refl) as [L [Y [Pr Hroot]]]. inversion H; subst. clear H.
    unfold wrap. destruct (n_suppress nd) eqn:Hsup.
    + split; [exact L|]. split; [cbn; exact L|]. intros k Hkp. destruct k as [|k]; [rewrite prodb_0 in Hkp; discriminate|].
      rewrite (prodb_S g k nid nd En) in Hkp. unfold prod_nd in Hkp. rewrite Hsup in Hkp. discriminate.
    + destruct (n_root nd) eqn:Er.
      * assert (Hlive : live_root nd = true) by (unfold live_root; rewrite Er, Hsup; reflexivity).
        destruct (erase_all ts0) as [|t0 l0] eqn:Ee.
        -- destruct (Hroot Hlive eq_refl) as [-> Hk2].
           assert (Ew : match n_kind nd with KOpt | KStar => @nil stree | _ => [SNT nid []] end = []) by (destruct Hk2 as [-> | ->]; reflexivity).
           replace (match n_kind nd, @nil stree with KOpt, [] | KStar, [] => [] | _, _ => [SNT nid []] end) with (@nil stree)
             by (destruct Hk2 as [-> | ->]; reflexivity).
           split; [exact L|]. split; [cbn; exact L|]. intros k Hkp. destruct k as [|k]; [rewrite prodb_0 in Hkp; discriminate|].
           rewrite (prodb_S g k nid nd En) in Hkp. destruct (Pr k Hkp) as [N _]. contradiction.
        -- assert (Hts : ts0 <> []) by (intro X; subst ts0; discriminate).
           assert (Ew : match n_kind nd, ts0 with KOpt, [] | KStar, [] => [] | _, _ => [SNT nid ts0] end = [SNT nid ts0]).
           { destruct ts0; [congruence|]. destruct (n_kind nd); reflexivity. }
           rewrite Ew. unfold erase_all at 1 2. cbn [flat_map]. rewrite erase_SNT, app_nil_r, Ee.
           destruct (lay_NT nid t0 l0 p p' Y) as [W [A B]].
           split; [exact L|]. split; [split; [exact W|]; split; [exact A | cbn; exact B]|].
           intros k Hkp. destruct k as [|k]; [rewrite prodb_0 in Hkp; discriminate|].
           rewrite (prodb_S g k nid nd En) in Hkp. destruct (Pr k Hkp) as [_ Lt]. split; [discriminate | exact Lt].
      * split; [exact L|]. split; [exact Y|]. intros k Hkp. destruct k as [|k]; [rewrite prodb_0 in Hkp; discriminate|].
        rewrite (prodb_S g k nid nd En) in Hkp. apply (Pr k Hkp).
Qed.
End Wf.

(* ---------------------------------------------------------------- the decidable grammar condition *)
Definition is_eof_node (g : grammar) (nid : nat) : bool :=
  match get_node g nid with Some nd => match n_kind nd with KEOF => true | _ => false end | None => false end.
Definition innerb (g : grammar) (nid : nat) : bool :=
  negb (Nat.eqb nid (g_top g)) &&
  match get_node g nid with Some nd => match n_kind nd with KEOF => false | _ => true end | None => false end.
(* EOF occurs only as the second child of the top node, and nothing refers to the top node *)
Definition eof_ok (g : grammar) : bool :=
  forallb (fun i => Nat.eqb i (g_top g) ||
                    match get_node g i with Some nd => forallb (innerb g) (n_kids nd) | None => true end)
          (seq 0 (length (g_nodes g))) &&
  match get_node g (g_top g) with
  | Some nd =>
    match n_kind nd, n_kids nd with
    | KSeq, [rt; ef] => innerb g rt && is_eof_node g ef && n_root nd && negb (n_suppress nd)
    | _, _ => false
    end
  | None => false
  end.

Lemma innerb_inner g nid : innerb g nid = true -> inner g nid.
Proof.
  unfold innerb, inner. intro H. apply andb_true_iff in H as [A B]. apply negb_true_iff in A. apply Nat.eqb_neq in A.
  split; [exact A|]. destruct (get_node g nid) as [nd|]; [|discriminate]. destruct (n_kind nd); try discriminate; intro X; discriminate.
Qed.

Lemma prodb_eof g k nid : is_eof_node g nid = true -> prodb g k nid = false.
Proof.
  unfold is_eof_node. destruct (get_node g nid) as [nd|] eqn:En; [|discriminate]. intro H.
  destruct k as [|k]; [apply prodb_0|]. rewrite (prodb_S g k nid nd En). unfold prod_nd.
  destruct (n_kind nd); try discriminate. apply andb_false_r.
Qed.

(* For grammars in the class without separators, with EOF only under the top node, and a non-empty-match
   oracle: whenever the interpreter accepts, its result is the top NonTerminal and the subtree textX builds
   the model from (parse_tree[0]) is a well-formed tree. *)
Theorem run_wf g pf c orc fuel input r :
  wfg g pf = true -> nosep g = true -> eof_ok g = true -> orc_pos orc ->
  run g c orc false fuel input = Parsed r ->
  exists t rest, r = RTree (NT (g_top g) (t :: rest)) /\ wf_tree t = true.
Proof.
  intros Hwfg Hns Heof Horc Hrun.
  destruct (wfg_parts g pf Hwfg) as [Hnodes [Hcm Htop]].
  pose proof (refinement g pf c orc fuel input Hwfg Horc) as HR. rewrite Hrun in HR.
  destruct HR as [ts [p [Es [Htree _]]]]. specialize (Htree Hns).
  assert (Hnosep : forall nid nd, get_node g nid = Some nd -> n_sep nd = None).
  { intros nid nd En. unfold nosep in Hns. rewrite forallb_forall in Hns. unfold get_node in En. apply nth_error_In in En.
    specialize (Hns nd En). destruct (n_sep nd); [discriminate | reflexivity]. }
  unfold eof_ok in Heof. apply andb_true_iff in Heof as [Hall Htopk].
  assert (Hinner : forall nid nd, get_node g nid = Some nd -> nid <> g_top g -> forall c0, In c0 (n_kids nd) -> inner g c0).
  { intros nid nd En Hne c0 Hc. rewrite forallb_forall in Hall.
    assert (Hi : In nid (seq 0 (length (g_nodes g)))).
    { apply in_seq. unfold get_node in En. assert (nth_error (g_nodes g) nid <> None) by congruence. apply nth_error_Some in H. lia. }
    specialize (Hall nid Hi). apply orb_true_iff in Hall as [X|X]; [apply Nat.eqb_eq in X; contradiction|].
    rewrite En in X. rewrite forallb_forall in X. apply innerb_inner. apply X. exact Hc. }
  destruct (get_node g (g_top g)) as [nd|] eqn:En; [|discriminate].
  destruct (n_kind nd) eqn:Ek; try discriminate.
  destruct (n_kids nd) as [|rt [|ef [|]]] eqn:Ekids; try discriminate.
  apply andb_true_iff in Htopk as [Htopk Hsup]. apply andb_true_iff in Htopk as [Htopk Hroot].
  apply andb_true_iff in Htopk as [Hrt Hef]. apply negb_true_iff in Hsup.
  (* the root rule is productive *)
  pose proof (Hnodes _ _ En) as Hok. unfold node_ok in Hok. apply andb_true_iff in Hok as [_ Hkind]. rewrite Ek in Hkind.
  assert (Hlive : live_root nd = true) by (unfold live_root; rewrite Hroot, Hsup; reflexivity).
  rewrite Hlive in Hkind. unfold prod_nd in Hkind. rewrite Ek, Ekids, Hsup in Hkind. cbn [negb andb existsb] in Hkind.
  rewrite (prodb_eof g pf ef Hef) in Hkind. rewrite orb_false_r in Hkind.
  (* open the reference evaluation at the top node *)
  unfold spec_run in Es. destruct fuel as [|f]; [discriminate|].
  cbn [seval] in Es. rewrite En, Ek in Es. cbn [is_match_kind] in Es. unfold sbody in Es. rewrite Ek, Ekids in Es.
  cbn [sseq] in Es.
  destruct (seval g input orc false f rt true (ctx_enter nd (init_ctx c)) 0) as [ts1 p1| |] eqn:E1; try discriminate.
  destruct (seval_wf g input orc pf Hcm Horc Hnodes Hnosep Hinner f rt true _ 0 ts1 p1 (innerb_inner g rt Hrt) E1) as [_ [Y Pr]].
  destruct (Pr pf Hkind) as [N _].
  destruct (seval g input orc false f ef true (ctx_enter nd (init_ctx c)) p1) as [ts2 p2| |] eqn:E2; try discriminate.
  inversion Es; subst ts p. clear Es.
  unfold wrap in Htree. rewrite Hsup, Hroot, Ek in Htree.
  unfold erase_all in Htree at 1. cbn [flat_map] in Htree. rewrite erase_SNT, app_nil_r in Htree.
  cbn [app] in Htree. rewrite erase_all_app in Htree.
  destruct (erase_all ts1) as [|t1 l1] eqn:Ee1; [contradiction|]. destruct Y as [W _].
  exists t1, (l1 ++ erase_all ts2). split; [|exact W].
  destruct r as [|t|l].
  - discriminate.
  - cbn [flatten] in Htree. inversion Htree. reflexivity.
  - exfalso. destruct l as [|a l]; [discriminate|].
    assert (Hrt2 : root_top g = true).
    { unfold root_top. rewrite En, Hroot, Ek. reflexivity. }
    destruct (run_shape g c orc (S f) input (RList (a :: l)) Hrt2 Hrun eq_refl) as [t E]. discriminate.
Qed.

Lemma wf_boundary_refuted :
  exists g c orc fuel input t rest,
    wfg g 24 = true /\ nosep g = false /\ eof_ok g = true /\
    run g c orc false fuel input = Parsed (RTree (NT (g_top g) (t :: rest))) /\ wf_tree t = false.
Proof.
  exists g_trailsep, c_default, (fun _ _ => None), 50, [120;44;98]%N.
  eexists. eexists. vm_compute. repeat split.
Qed.

Lemma run_wf_nonvacuous :
  wfg g_items 24 = true /\ nosep g_items = true /\ eof_ok g_items = true /\
  accepts (run g_items c_default (orc_of t_items) false 60 in_items) = true.
Proof. vm_compute. repeat split. Qed.
