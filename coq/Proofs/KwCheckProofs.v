(* Soundness of the decidable per-case checks of Model/Kw.v: when the harness evaluates them to
   [true] on the dumped tables / oracle tables / texts of a case, the hypotheses of the theorems
   hold for the oracles [orc_of table], hence their conclusions. *)
From TxV Require Import Core.Base Model.PegSyntax Model.Peg Model.KwDefs Gen.SrcKw Model.Kw
     Proofs.PegCongr Proofs.KwProofs.

(* ---------------------------------------------------------------- rows of a harness table *)
Fixpoint row_get (row : list (nat * nat)) (p : nat) : option nat :=
  match row with
  | [] => None
  | (p', l) :: row' => if Nat.eqb p p' then Some l else row_get row' p
  end.

Lemma orc_of_row tbl o p : orc_of tbl o p = row_get (orc_row tbl o) p.
Proof.
  unfold orc_of, orc_row. induction tbl as [|[[o' p'] l] tbl IH]; [reflexivity|].
  cbn [flat_map fst snd]. rewrite (Nat.eqb_sym o' o). destruct (Nat.eqb o o'); cbn [andb app row_get].
  - destruct (Nat.eqb p p'); [reflexivity | exact IH].
  - exact IH.
Qed.

Lemma forall2b_eq {A} (f : A -> A -> bool) :
  (forall x y, f x y = true -> x = y) -> forall a b, forall2b f a b = true -> a = b.
Proof.
  intros Hf a. induction a as [|x a IH]; intros [|y b] H; try discriminate; [reflexivity|].
  cbn [forall2b] in H. apply andb_true_iff in H as [H1 H2]. rewrite (Hf x y H1), (IH b H2). reflexivity.
Qed.

Lemma row_eqb_eq a b : row_eqb a b = true -> a = b.
Proof.
  apply forall2b_eq. intros [x1 x2] [y1 y2] H. cbn [fst snd] in H.
  apply andb_true_iff in H as [H1 H2]. apply Nat.eqb_eq in H1, H2. congruence.
Qed.

Lemma forall2b_Forall2 {A B} (f : A -> B -> bool) (R : A -> B -> Prop) :
  (forall x y, f x y = true -> R x y) -> forall a b, forall2b f a b = true -> Forall2 R a b.
Proof.
  intros Hf a. induction a as [|x a IH]; intros [|y b] H; try discriminate; [constructor|].
  cbn [forall2b] in H. apply andb_true_iff in H as [H1 H2]. constructor; [apply Hf, H1 | apply IH, H2].
Qed.

Lemma memN_false c l : memN c l = false -> ~ In c l.
Proof.
  intros H Hin. unfold memN in H. assert (E : existsb (N.eqb c) l = true).
  { apply existsb_exists. exists c. split; [exact Hin | apply N.eqb_refl]. }
  congruence.
Qed.

Lemma char_okb_ok U a b : char_okb U a b = true -> char_ok U a b.
Proof.
  unfold char_okb, char_ok. intro H. apply orb_true_iff in H as [H|H].
  - left. apply N.eqb_eq, H.
  - right. apply andb_true_iff in H as [Ha Hb]. apply negb_true_iff in Ha, Hb.
    split; apply memN_false; assumption.
Qed.

Lemma kind_oids_In g nid nd o :
  get_node g nid = Some nd -> kind_oid (n_kind nd) = Some o -> In o (kind_oids g).
Proof.
  intros Hn Ho. unfold kind_oids. apply in_flat_map. exists nd.
  split; [eapply nth_error_In; exact Hn | rewrite Ho; left; reflexivity].
Qed.

(* ---------------------------------------------------------------- C20 *)
Theorem c20_hyp_sound lower g cfg tbl tbl' s s' memo fuel :
  c20_hyp_b lower g cfg tbl tbl' s s' = true ->
  run g cfg (orc_of tbl') memo fuel s' = run g cfg (orc_of tbl) memo fuel s.
Proof.
  unfold c20_hyp_b. intro H.
  apply andb_true_iff in H as [H Hor]. apply andb_true_iff in H as [H _].
  apply andb_true_iff in H as [Hall Hws].
  apply terminal_congruence.
  - eapply forall2b_Forall2; [|exact Hws]. intros x y. apply char_okb_ok.
  - intros nid nd o Hn Ho p. rewrite !orc_of_row.
    rewrite forallb_forall in Hor. specialize (Hor o (kind_oids_In g nid nd o Hn Ho)).
    rewrite (row_eqb_eq _ _ Hor). reflexivity.
  - apply all_str_icase_exact, Hall.
Qed.

(* ---------------------------------------------------------------- C21 *)
Lemma forall2b_nth {A B} (f : A -> B -> bool) : forall l l', forall2b f l l' = true ->
  forall i, match nth_error l i, nth_error l' i with
            | Some x, Some y => f x y = true
            | None, None => True
            | _, _ => False
            end.
Proof.
  induction l as [|x l IH]; intros [|y l'] H i; try discriminate.
  - destruct i; exact I.
  - cbn [forall2b] in H. apply andb_true_iff in H as [H1 H2].
    destruct i as [|i]; cbn [nth_error]; [exact H1 | apply IH, H2].
Qed.

Lemma row_get_expected (f : nat -> option nat) : forall n a p,
  row_get (flat_map (fun q => match f q with Some l => [(q, l)] | None => [] end) (seq a n)) p
  = if (Nat.leb a p && Nat.ltb p (a + n))%bool then f p else None.
Proof.
  induction n as [|n IH]; intros a p; cbn [seq flat_map].
  - replace (Nat.ltb p (a + 0)) with (Nat.ltb p a) by (f_equal; lia).
    destruct (Nat.leb_spec a p), (Nat.ltb_spec p a); try reflexivity; lia.
  - assert (Hrest : row_get (flat_map (fun q => match f q with Some l => [(q, l)] | None => [] end) (seq (S a) n)) p
                    = if Nat.eqb p a then None
                      else if (Nat.leb a p && Nat.ltb p (a + S n))%bool then f p else None).
    { rewrite IH. destruct (Nat.eqb_spec p a) as [Hpa|Hne].
      - rewrite Hpa. destruct (Nat.leb_spec (S a) a); [lia | reflexivity].
      - destruct (Nat.leb_spec (S a) p), (Nat.leb_spec a p), (Nat.ltb_spec p (S a + n)), (Nat.ltb_spec p (a + S n));
          try reflexivity; lia. }
    destruct (f a) as [l|] eqn:Fa; cbn [app row_get].
    + rewrite Hrest. destruct (Nat.eqb_spec p a) as [Hpa|Hne]; [|reflexivity]. rewrite Hpa.
      destruct (Nat.leb_spec a a), (Nat.ltb_spec a (a + S n)); try lia. cbn [andb]. symmetry. exact Fa.
    + rewrite Hrest. destruct (Nat.eqb_spec p a) as [Hpa|Hne]; [|reflexivity]. rewrite Hpa.
      destruct (Nat.leb_spec a a), (Nat.ltb_spec a (a + S n)); try lia. cbn [andb]. symmetry. exact Fa.
Qed.

Lemma expected_row_sound f input tbl o :
  (forall p, length input < p -> f p = None) ->
  row_eqb (orc_row tbl o) (expected_row f input) = true ->
  forall p, orc_of tbl o p = f p.
Proof.
  intros Hout H p. rewrite orc_of_row, (row_eqb_eq _ _ H). unfold expected_row, positions.
  rewrite row_get_expected. cbn [Nat.leb andb plus].
  destruct (Nat.ltb_spec p (S (length input))); [reflexivity | symmetry; apply Hout; lia].
Qed.

Lemma lit_prefix_beyond lower ic t (input : list N) p :
  t <> [] -> length input < p -> lit_prefix lower ic t (skipn p input) = false.
Proof.
  intros Hne Hp. rewrite skipn_all2 by lia. destruct t; [congruence | reflexivity].
Qed.

Lemma kind_nonmatch_eqb_eq k k' : kind_nonmatch_eqb k k' = true -> k' = k.
Proof. destruct k, k'; cbn; intro H; try discriminate; reflexivity. Qed.

Lemma opt_eqb_eq {A} (f : A -> A -> bool) : (forall x y, f x y = true -> y = x) ->
  forall a b, opt_eqb f a b = true -> b = a.
Proof. intros Hf [x|] [y|] H; try discriminate; [rewrite (Hf x y H)|]; reflexivity. Qed.

Lemma bool_eqb_eq a b : Bool.eqb a b = true -> b = a.
Proof. destruct a, b; cbn; intro H; try discriminate; reflexivity. Qed.

Lemma node_eqb_eq a b : node_eqb a b = true -> b = a.
Proof.
  unfold node_eqb. intro H. repeat (apply andb_true_iff in H as [H ?]).
  destruct a as [k1 kids1 sep1 eol1 rule1 root1 sup1 ws1 sk1], b as [k2 kids2 sep2 eol2 rule2 root2 sup2 ws2 sk2].
  cbn [n_kind n_kids n_sep n_eolterm n_rule n_root n_suppress n_ws n_skipws] in *.
  f_equal.
  - apply kind_nonmatch_eqb_eq; assumption.
  - symmetry. eapply forall2b_eq; [|eassumption]. intros x y E. apply Nat.eqb_eq, E.
  - eapply opt_eqb_eq; [|eassumption]. intros x y E. symmetry. apply Nat.eqb_eq, E.
  - apply bool_eqb_eq; assumption.
  - symmetry. apply str_eqb_eq; assumption.
  - apply bool_eqb_eq; assumption.
  - apply bool_eqb_eq; assumption.
  - eapply opt_eqb_eq; [|eassumption]. intros x y E. symmetry. apply str_eqb_eq, E.
  - eapply opt_eqb_eq; [|eassumption]. intros x y E. apply bool_eqb_eq, E.
Qed.

Theorem kw_case_sound wordc digitc lower input tbl tbl' g g' cfg memo fuel :
  (forall a b, lower a = lower b -> wordc a = wordc b) ->
  kw_case_ok wordc digitc lower input tbl tbl' g g' = true ->
  no_glue_ok wordc digitc lower input g = true ->
  run g' cfg (orc_of tbl') memo fuel input
  = foutcome (kw_supf g g') (run g cfg (orc_of tbl) memo fuel input).
Proof.
  intros Hwl Hok Hglue. unfold kw_case_ok in Hok.
  apply andb_true_iff in Hok as [Hok Hcm]. apply andb_true_iff in Hok as [Hnodes Htop].
  apply (autokwd_same_model wordc digitc lower); [exact Hwl | | ].
  - split; [|split].
    + intro nid. pose proof (forall2b_nth _ _ _ Hnodes nid) as Hn. unfold get_node.
      destruct (nth_error (g_nodes g) nid) as [nd|], (nth_error (g_nodes g') nid) as [nd'|]; try exact Hn.
      destruct (is_match_kind (n_kind nd)) eqn:Em; [|apply node_eqb_eq, Hn].
      apply andb_true_iff in Hn as [Hs Hk]. split; [apply bool_eqb_eq in Hs; congruence|].
      unfold kw_pair_ok in Hk. unfold kw_kind_spec.
      destruct (n_kind nd) as [| | | | | | | | | |t oid|o]; try discriminate;
        destruct (n_kind nd') as [| | | | | | | | | |t' oid'|o']; try discriminate.
      * exact I.
      * apply andb_true_iff in Hk as [Ht Ho]. apply str_eqb_eq in Ht. subst t'.
        destruct oid as [o|], oid' as [o'|]; try discriminate; [|reflexivity].
        split; [reflexivity|]. intro p. rewrite !orc_of_row, (row_eqb_eq _ _ Ho). reflexivity.
      * apply andb_true_iff in Hk as [Hk Hplain]. apply andb_true_iff in Hk as [Hkw Hrow].
        destruct (kw_like_all_word wordc digitc t Hkw) as [_ Hne].
        assert (Hsp : kw_like wordc digitc t = true /\
                      (forall p, orc_of tbl' o' p = kw_match wordc lower (oid_icase oid) t input p)).
        { split; [exact Hkw|]. apply (expected_row_sound _ input); [|exact Hrow].
          intros p Hp. unfold kw_match. rewrite lit_prefix_beyond by assumption. reflexivity. }
        destruct oid as [o|]; (split; [exact (proj1 Hsp)|]); (split; [exact (proj2 Hsp)|]); [|exact I].
        apply (expected_row_sound _ input); [|exact Hplain].
        intros p Hp. unfold str_match. rewrite lit_prefix_beyond by assumption. reflexivity.
      * intro p. rewrite !orc_of_row, (row_eqb_eq _ _ Hk). reflexivity.
    + symmetry. eapply opt_eqb_eq; [|exact Hcm]. intros x y E. apply Nat.eqb_eq in E. congruence.
    + apply Nat.eqb_eq, Htop.
  - intros nid nd t oid Hn Hk Hkw p Hp. unfold no_glue_ok in Hglue. rewrite forallb_forall in Hglue.
    specialize (Hglue nd (nth_error_In _ _ Hn)). rewrite Hk, Hkw in Hglue. rewrite forallb_forall in Hglue.
    destruct (kw_like_all_word wordc digitc t Hkw) as [_ Hne].
    destruct (Nat.ltb_spec (length input) p) as [Hlt|Hle].
    + rewrite lit_prefix_beyond in Hp by assumption. discriminate.
    + assert (Hin : In p (positions input)) by (unfold positions; apply in_seq; lia).
      specialize (Hglue p Hin). rewrite Hp in Hglue. cbn [negb orb] in Hglue.
      apply negb_true_iff in Hglue. exact Hglue.
Qed.
