(* C02 — end to end on the models: Peg.v parse -> Build.v object holds, for every attribute, the matched values. *)
From Coq Require Import Lia.
From TxV Require Import Core.Base Model.PegSyntax Model.Peg Model.Build Proofs.BuildProofs Model.MultBuild Proofs.MultBuildProofs.
From TxV Require Model.MultBase Gen.SrcMult Model.Mult Model.MultPeg Proofs.MultProofs Proofs.MultFlowProofs Proofs.MultPegProofs.
From TxV Require Proofs.PegProofs Proofs.PegMemo.

Lemma get_init auto a l : get_val a (init_attrs auto l) = option_map (init_attr auto) (find_attr a l).
Proof.
  induction l as [|x l IH]; [reflexivity|]. cbn [init_attrs map get_val find_attr].
  destruct (str_eqb a (a_name x)); [reflexivity | exact IH].
Qed.

Lemma find_attr_in a l ma : find_attr a l = Some ma -> In ma l.
Proof.
  induction l as [|x l IH]; cbn [find_attr]; [discriminate|].
  destruct (str_eqb a (a_name x)); [intro H; inversion H; left; reflexivity | intro H; right; apply IH, H].
Qed.

Section End2End.
Variable g : grammar.
Variable mm : list ninfo.
Variable input : list N.
Variable grp : nat -> nat -> option (nat * nat).
Variable auto use_grp : bool.
Variable attr_id : list N -> nat.
Variable orc : nat -> nat -> option nat.
Notation pn := (pnode g mm input grp auto use_grp).
Notation tv := (tvals g mm input grp auto use_grp).
Notation conv0 := (fun _ : tree => Mult.SNone).
Notation tn := (MultPeg.tree_nodes g mm attr_id conv0).
Notation evs := (map (Mult.node_ev SrcMult.src_sep_mode)).
Notation prs := (parse g input orc false).

Hypothesis Htab : asg_table_okb g mm = true.

(* a single-valued attribute collects at most one value *)
Lemma tv_le1 ma kids : wgt g mm attr_id conv0 (attr_id (a_name ma)) kids <= 1 -> length (tv ma kids) <= 1.
Proof.
  induction kids as [|k kids IH]; intro H; [cbn; lia|].
  rewrite wgt_cons in H. cbn [tvals flat_map]. fold (tv ma kids). rewrite app_length.
  destruct k as [|nid ks]; [cbn [kid_vals length]; apply IH; lia|]. cbn [kid_vals].
  destruct (info mm nid) as [a o| | |] eqn:Ei; try (cbn [length]; apply IH; lia).
  destruct (str_eqb (a_name ma) a) eqn:E; [|cbn [length]; apply IH; lia].
  apply str_eqb_eq in E. subst a.
  destruct (asg_kid_event g mm attr_id conv0 Htab nid ks (a_name ma) o Ei) as [op [vals [Hfit Hev]]].
  assert (Hk : wgt g mm attr_id conv0 (attr_id (a_name ma)) [NT nid ks] = match op with MultBase.OpPlain | MultBase.OpBool => 1 | _ => 2 end).
  { unfold wgt. cbn [flat_map]. rewrite app_nil_r, Hev. unfold Mult.weight, Mult.ev_weight. cbn. rewrite Nat.eqb_refl.
    destruct op; reflexivity. }
  assert (Hrest : tv ma kids = []) by (apply (wgt0_tvals g mm input grp auto use_grp attr_id conv0 Htab); destruct op; lia).
  rewrite Hrest. cbn [length]. rewrite Nat.add_0_r.
  destruct o; try (destruct op; try contradiction; lia).
  - destruct ks; cbn; lia.
  - cbn; lia.
Qed.

(* ---------------------------------------------------------------- rule level, memoization off *)
Theorem parsed_object_values b nid fuel psq s kids s' cls attrs top cls' p e vals top' :
  MultPeg.den g mm attr_id true b nid = true -> Mult.grammar_ok b = true ->
  prs fuel nid psq s = Ok (RTree (NT nid kids)) s' ->
  info mm nid = IRule RCommon cls attrs ->
  mult_agreesb attr_id b attrs = true ->
  forallb (asg_placed mm true) kids = true ->
  pn (NT nid kids) top = BOk (VObj cls' p e vals, top') ->
  forall ma, find_attr (a_name ma) attrs = Some ma ->
    get_val (a_name ma) vals = Some (expected_val auto ma (tv ma kids))
    /\ (is_many (a_mult ma) = true <-> 2 <= Mult.maxcount (attr_id (a_name ma)) b)
    /\ (is_many (a_mult ma) = false -> length (tv ma kids) <= 1).
Proof.
  intros Hd Hg Hp Hi Hmu Hok Hb.
  pose proof (MultPegProofs.peg_result_is_trace g mm attr_id conv0 input orc b nid fuel psq s _ s' Hd Hp) as Hem.
  cbn [MultPeg.top_nodes] in Hem.
  assert (Hagree : forall ma, find_attr (a_name ma) attrs = Some ma ->
            is_many (a_mult ma) = Mult.is_list (Mult.infer b (attr_id (a_name ma)))).
  { intros ma Hma. unfold mult_agreesb in Hmu. rewrite forallb_forall in Hmu.
    specialize (Hmu ma (find_attr_in _ _ _ Hma)). apply Bool.eqb_prop in Hmu. exact Hmu. }
  assert (Hscalar : forall ma, find_attr (a_name ma) attrs = Some ma -> is_many (a_mult ma) = false ->
            wgt g mm attr_id conv0 (attr_id (a_name ma)) kids <= 1).
  { intros ma Hma Hm. rewrite (Hagree ma Hma) in Hm.
    assert (Hmc : Mult.maxcount (attr_id (a_name ma)) b <= 1).
    { destruct (le_lt_dec 2 (Mult.maxcount (attr_id (a_name ma)) b)) as [L|L]; [|lia].
      apply MultProofs.infer_list_iff in L. congruence. }
    pose proof (MultFlowProofs.emits_weight (attr_id (a_name ma)) b _ Hem) as Hw.
    unfold wgt. unfold Mult.cap2 in Hw. lia. }
  assert (Hmany : forall ma, find_attr (a_name ma) attrs = Some ma -> is_many (a_mult ma) = true ->
            forall ev, In ev (evs (flat_map tn kids)) -> Mult.ev_attr ev = attr_id (a_name ma) -> Mult.ev_op ev <> MultBase.OpBool).
  { intros ma Hma Hm ev Hin Ha Hb'. rewrite (Hagree ma Hma) in Hm.
    apply (MultFlowProofs.list_attr_not_bool b _ Hg Hm).
    pose proof (MultFlowProofs.emits_events b _ Hem) as Hev. rewrite Forall_forall in Hev.
    destruct (Hev ev Hin) as [Hasg _]. rewrite Ha, Hb' in Hasg. apply MultFlowProofs.in_ops_of, Hasg. }
  intros ma Hma. split; [|split].
  - eapply (object_values g mm input grp auto use_grp attr_id conv0 Htab attrs kids Hscalar Hmany); try eassumption.
    intros ma0 Hma0. rewrite get_init, Hma0. reflexivity.
  - rewrite (Hagree ma Hma). apply MultProofs.infer_list_iff.
  - intro Hm. apply tv_le1, (Hscalar ma Hma Hm).
Qed.

(* no 'Multiple assignments': a semantic error while the object is built stems from a nested object or the name check *)
Theorem parsed_object_no_mult_assign b nid fuel psq s kids s' cls attrs top :
  MultPeg.den g mm attr_id true b nid = true -> Mult.grammar_ok b = true ->
  prs fuel nid psq s = Ok (RTree (NT nid kids)) s' ->
  info mm nid = IRule RCommon cls attrs ->
  mult_agreesb attr_id b attrs = true ->
  forallb (asg_placed mm true) kids = true ->
  pn (NT nid kids) top = BErr ESem ->
  (exists k c', In k kids /\ pn k (Some c') = BErr ESem /\
     (not_asg mm k = true \/ exists n' ks a o k0 c'', k = NT n' ks /\ info mm n' = IAsgn a o /\ In k0 ks /\ pn k0 (Some c'') = BErr ESem))
  \/ (exists c1, each_loop pn kids (Some (mkCur cls attrs (tpos (NT nid kids)) (tend (NT nid kids)) (init_attrs auto attrs))) = BOk (Some c1)
                 /\ name_ok (c_vals c1) = false).
Proof.
  intros Hd Hg Hp Hi Hmu Hok Hb.
  pose proof (MultPegProofs.peg_result_is_trace g mm attr_id conv0 input orc b nid fuel psq s _ s' Hd Hp) as Hem.
  cbn [MultPeg.top_nodes] in Hem.
  assert (Hagree : forall ma, find_attr (a_name ma) attrs = Some ma ->
            is_many (a_mult ma) = Mult.is_list (Mult.infer b (attr_id (a_name ma)))).
  { intros ma Hma. unfold mult_agreesb in Hmu. rewrite forallb_forall in Hmu.
    specialize (Hmu ma (find_attr_in _ _ _ Hma)). apply Bool.eqb_prop in Hmu. exact Hmu. }
  assert (Hscalar : forall ma, find_attr (a_name ma) attrs = Some ma -> is_many (a_mult ma) = false ->
            wgt g mm attr_id conv0 (attr_id (a_name ma)) kids <= 1).
  { intros ma Hma Hm. rewrite (Hagree ma Hma) in Hm.
    assert (Hmc : Mult.maxcount (attr_id (a_name ma)) b <= 1).
    { destruct (le_lt_dec 2 (Mult.maxcount (attr_id (a_name ma)) b)) as [L|L]; [|lia].
      apply MultProofs.infer_list_iff in L. congruence. }
    pose proof (MultFlowProofs.emits_weight (attr_id (a_name ma)) b _ Hem) as Hw.
    unfold wgt. unfold Mult.cap2 in Hw. lia. }
  assert (Hmany : forall ma, find_attr (a_name ma) attrs = Some ma -> is_many (a_mult ma) = true ->
            forall ev, In ev (evs (flat_map tn kids)) -> Mult.ev_attr ev = attr_id (a_name ma) -> Mult.ev_op ev <> MultBase.OpBool).
  { intros ma Hma Hm ev Hin Ha Hb'. rewrite (Hagree ma Hma) in Hm.
    apply (MultFlowProofs.list_attr_not_bool b _ Hg Hm).
    pose proof (MultFlowProofs.emits_events b _ Hem) as Hev. rewrite Forall_forall in Hev.
    destruct (Hev ev Hin) as [Hasg _]. rewrite Ha, Hb' in Hasg. apply MultFlowProofs.in_ops_of, Hasg. }
  eapply (object_no_mult_assign g mm input grp auto use_grp attr_id conv0 Htab attrs kids Hscalar Hmany); try eassumption.
  intros ma0 Hma0. rewrite get_init, Hma0. reflexivity.
Qed.

(* ---------------------------------------------------------------- whole run *)

(* the parser model's top: Sequence(root rule, EOF) *)
Definition top_okb (nid : nat) : bool :=
  match get_node g (g_top g) with
  | Some nt =>
    match n_kind nt, n_kids nt with
    | KSeq, [r; eo] => Nat.eqb r nid && n_root nt && negb (n_suppress nt) &&
                       match get_node g eo with Some ne => match n_kind ne with KEOF => true | _ => false end | None => false end
    | _, _ => false
    end
  | None => false
  end.

Lemma den_top_node b nid : MultPeg.den g mm attr_id true b nid = true ->
  exists nd, get_node g nid = Some nd /\ n_root nd = true /\ n_suppress nd = false /\ is_match_kind (n_kind nd) = false.
Proof.
  intro H. destruct b; cbn [MultPeg.den] in H; destruct (get_node g nid) as [nd|]; try discriminate; exists nd;
    try (cbn [negb andb] in H; discriminate);
    repeat (apply andb_true_iff in H; destruct H as [H ?]);
    repeat match goal with
           | K : (_ && _)%bool = true |- _ => apply andb_true_iff in K; destruct K
           | K : negb _ = true |- _ => apply negb_true_iff in K
           | K : MultPeg.kind_eqb _ _ = true |- _ => apply MultPegProofs.kind_eqb_eq in K
           end;
    (split; [reflexivity|]); (split; [assumption|]); (split; [assumption|]);
    match goal with K : n_kind nd = _ |- _ => rewrite K; reflexivity end.
Qed.

Lemma root_result f nid nd psq s r s' :
  get_node g nid = Some nd -> n_root nd = true -> is_match_kind (n_kind nd) = false ->
  prs f nid psq s = Ok r s' -> Peg.truthy r = true -> exists ks, r = RTree (NT nid ks).
Proof.
  intros Hn Hr Hm Hp Ht. destruct f as [|f]; [discriminate|].
  destruct (MultPegProofs.prs_nonmatch g input orc f nid psq s nd r s' Hn Hm Hp) as [rb [s1 [Hb ->]]].
  pose proof (MultPegProofs.body_shape _ _ _ _ _ _ Hb) as Hl.
  unfold post in *. rewrite Hr in *. cbn [andb] in *.
  set (r1 := if (n_suppress nd || head_is_none rb)%bool then RNone else rb) in *.
  assert (Hl1 : MultPegProofs.listy r1) by (unfold r1; destruct (n_suppress nd || head_is_none rb)%bool; [left; reflexivity | exact Hl]).
  assert (Hnp : is_ptnode r1 = false) by (destruct Hl1 as [E | [l E]]; rewrite E; reflexivity).
  rewrite Hnp in *. cbn [negb] in *. rewrite andb_true_r in *.
  destruct (Peg.truthy r1) eqn:E; [eauto | rewrite E in Ht; discriminate].
Qed.

Lemma term_not_obj n p l cls p' e vals : term_value g mm input grp use_grp n p l <> BOk (VObj cls p' e vals).
Proof.
  unfold term_value. destruct use_grp; [|discriminate].
  destruct (get_node g n) as [nd|]; [|discriminate].
  destruct (n_kind nd); try discriminate. destruct (info mm n) as [| |r gr|]; try discriminate.
  destruct gr as [|[|?]]; try discriminate.
  destruct (grp oid p) as [[gs gl]|]; [discriminate|]. destruct (is_base5 (rule_of g n)); discriminate.
Qed.

Theorem run_object_values_nomemo b nid cfg fuel r cls attrs cls' p e vals :
  MultPeg.den g mm attr_id true b nid = true -> Mult.grammar_ok b = true -> top_okb nid = true ->
  info mm nid = IRule RCommon cls attrs -> mult_agreesb attr_id b attrs = true ->
  run g cfg orc false fuel input = Parsed r ->
  (forall tp t rest, r = RTree (NT tp (t :: rest)) -> asg_placed mm false t = true) ->
  build g mm input grp auto use_grp r = BOk (VObj cls' p e vals) ->
  exists kids tp rest, r = RTree (NT tp (NT nid kids :: rest)) /\
  forall ma, find_attr (a_name ma) attrs = Some ma ->
    get_val (a_name ma) vals = Some (expected_val auto ma (tv ma kids))
    /\ (is_many (a_mult ma) = true <-> 2 <= Mult.maxcount (attr_id (a_name ma)) b)
    /\ (is_many (a_mult ma) = false -> length (tv ma kids) <= 1).
Proof.
  intros Hd Hg Htop Hi Hmu Hrun Hok Hb.
  unfold build in Hb. destruct r as [|[|tp [|t rest]]|]; try discriminate.
  unfold run in Hrun. destruct (prs fuel (g_top g) false (init_st cfg)) as [r0 s0|s0|w] eqn:Ep; try discriminate.
  inversion Hrun; subst r0. clear Hrun.
  unfold top_okb in Htop. destruct (get_node g (g_top g)) as [nt|] eqn:Ent; [|discriminate].
  destruct (n_kind nt) eqn:Ekt; try discriminate. destruct (n_kids nt) as [|rid [|eo [|? ?]]] eqn:Ekids; try discriminate.
  repeat (apply andb_true_iff in Htop; destruct Htop as [Htop ?]).
  apply Nat.eqb_eq in Htop. subst rid. rename H into Heo, H0 into Hsup, H1 into Hroot. apply negb_true_iff in Hsup.
  destruct (get_node g eo) as [ne|] eqn:Ene; [|discriminate]. destruct (n_kind ne) eqn:Eke; try discriminate.
  destruct fuel as [|f]; [discriminate|].
  assert (Hmk : is_match_kind (n_kind nt) = false) by (rewrite Ekt; reflexivity).
  destruct (MultPegProofs.prs_nonmatch g input orc f _ _ _ nt _ _ Ent Hmk Ep) as [rb [s1 [Hbody Hpost]]].
  unfold body in Hbody. rewrite Ekt, Ekids in Hbody. cbn [seq_loop] in Hbody.
  destruct (prs f nid true (enter_ws nt (init_st cfg))) as [r1 sa|sa|w] eqn:E1; try discriminate.
  destruct (prs f eo true sa) as [r2 sb|sb|w] eqn:E2; try discriminate.
  (* the EOF result is a terminal or None *)
  assert (H2 : r2 = RNone \/ exists n2 p2 l2 sp2, r2 = RTree (T n2 p2 l2 sp2)).
  { destruct f as [|f']; [discriminate|]. rewrite MultPegProofs.prs_S, Ene, Eke in E2. cbn [is_match_kind] in E2.
    destruct (match_pre g input (prs f') f' sa) as [? sm|sm|w]; try discriminate.
    unfold term_parse in E2. destruct (Nat.eqb (length input) (pos sm)); [|discriminate].
    inversion E2. destruct (n_suppress ne); [left; reflexivity | right; eauto]. }
  destruct (den_top_node b nid Hd) as [nd [Hn [Hr [Hs Hm]]]].
  destruct (Peg.truthy r1) eqn:Et1.
  - destruct (root_result f nid nd true _ r1 sa Hn Hr Hm E1 Et1) as [ks ->].
    assert (Ht : t = NT nid ks).
    { cbn [app] in Hbody.
      assert (Hrb : exists tl, rb = RList (RTree (NT nid ks) :: tl)).
      { destruct (Peg.truthy r2); cbn [app] in Hbody; inversion Hbody; eauto. }
      destruct Hrb as [tl ->]. unfold post in Hpost. rewrite Hroot, Hsup in Hpost. cbn in Hpost. inversion Hpost. reflexivity. }
    subst t. exists ks, tp, rest. split; [reflexivity|].
    destruct (pn (NT nid ks) None) as [[v top']|er] eqn:Epn; [|discriminate]. inversion Hb; subst v.
    eapply parsed_object_values; try eassumption.
    pose proof (Hok tp (NT nid ks) rest eq_refl) as Hpl. cbn [asg_placed] in Hpl. unfold info in Hi. rewrite Hi in Hpl. exact Hpl.
  - (* the rule matched nothing: the first child of the top NonTerminal is not the rule's tree *)
    exfalso. cbn [app] in Hbody.
    destruct H2 as [-> | [n2 [p2 [l2 [sp2 ->]]]]]; cbn in Hbody; inversion Hbody; subst rb;
      unfold post in Hpost; rewrite Hroot, Hsup in Hpost; cbn in Hpost; inversion Hpost; subst.
    cbn [pnode] in Hb. destruct (term_value g mm input grp use_grp n2 p2 l2) as [v|er] eqn:Etv; [|discriminate].
    inversion Hb; subst v. exact (term_not_obj _ _ _ _ _ _ _ Etv).
Qed.

(* memoization on: for context-constant parser models the memoized run is the un-memoized one (C19) *)
Theorem run_object_values memo b nid cfg fuel r cls attrs cls' p e vals :
  (memo = true -> PegProofs.ctx_constant g = true /\ PegMemo.not_aborted (run g cfg orc false fuel input)) ->
  MultPeg.den g mm attr_id true b nid = true -> Mult.grammar_ok b = true -> top_okb nid = true ->
  info mm nid = IRule RCommon cls attrs -> mult_agreesb attr_id b attrs = true ->
  run g cfg orc memo fuel input = Parsed r ->
  (forall tp t rest, r = RTree (NT tp (t :: rest)) -> asg_placed mm false t = true) ->
  build g mm input grp auto use_grp r = BOk (VObj cls' p e vals) ->
  exists kids tp rest, r = RTree (NT tp (NT nid kids :: rest)) /\
  forall ma, find_attr (a_name ma) attrs = Some ma ->
    get_val (a_name ma) vals = Some (expected_val auto ma (tv ma kids))
    /\ (is_many (a_mult ma) = true <-> 2 <= Mult.maxcount (attr_id (a_name ma)) b)
    /\ (is_many (a_mult ma) = false -> length (tv ma kids) <= 1).
Proof.
  intros Hmemo Hd Hg Htop Hi Hmu Hrun Hok Hb.
  destruct memo.
  - destruct (Hmemo eq_refl) as [Hc Hna]. rewrite (PegMemo.memo_safe g input orc Hc cfg fuel Hna) in Hrun.
    eapply run_object_values_nomemo; eassumption.
  - eapply run_object_values_nomemo; eassumption.
Qed.

End End2End.
