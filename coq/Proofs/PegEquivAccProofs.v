(* Soundness of the equivalence checker Model/PegEquiv.v in WEAK mode, for ACCEPTANCE only.

   Proofs/PegEquivProofs.v relates the two interpreter runs by state EQUALITY, which gives equal error
   positions but cannot see through differences that only change the failure bookkeeping (parser.nm): an
   ordered choice of two regex matches registers the failure of its first alternative, a single equivalent
   regex does not.  Here the two runs start from, and end in, states equal UP TO nm ([eqn]); the conclusion
   is equal acceptance (not equal error positions).  The extra rule (weak mode): an ordered choice of two
   regex matches o1, o2 against one regex match o3, under the explicit oracle hypothesis [orc_alts]
   (o3 matches like o1 where o1 matches, else like o2) and non-emptiness of o1, o2.  That rule re-runs
   Match.parse's whitespace/comment skipping for the second alternative and relies on the comment-position
   cache, which is consulted only when skipws is on: the theorem assumes [c_skipws cfg = true]. *)
From TxV Require Import Core.Base Model.PegSyntax Model.Peg Proofs.PegProofs Proofs.PegMemo Model.PegEquiv
  Proofs.PegEquivProofs.

(* ---------------------------------------------------------------- states up to nm *)
Definition eqn (s1 s2 : st) : Prop := set_nm None s1 = set_nm None s2.
Definition eqxn (s1 s2 : st) : Prop := set_nm None (set_pos 0 s1) = set_nm None (set_pos 0 s2).
(* the whitespace context of a state *)
Definition ctx3 (s1 s2 : st) : Prop := ws s1 = ws s2 /\ skipws s1 = skipws s2 /\ in_cmt s1 = in_cmt s2.

Ltac st_crush :=
  intros;
  repeat match goal with s : st |- _ => destruct s end;
  unfold eqn, eqxn, ctx3, set_nm, set_pos, set_in_cmt, set_cpos in *; simpl in *;
  repeat match goal with
         | H : mkSt _ _ _ _ _ _ _ _ _ = mkSt _ _ _ _ _ _ _ _ _ |- _ => inversion H; clear H
         end; subst; repeat split; try reflexivity; try assumption.

Lemma eqn_refl s : eqn s s.
Proof. reflexivity. Qed.
Lemma eqn_sym s1 s2 : eqn s1 s2 -> eqn s2 s1.
Proof. unfold eqn. intro H. symmetry. exact H. Qed.
Lemma eqn_trans s1 s2 s3 : eqn s1 s2 -> eqn s2 s3 -> eqn s1 s3.
Proof. unfold eqn. intros A B. rewrite A. exact B. Qed.
Lemma eqxn_refl s : eqxn s s.
Proof. reflexivity. Qed.
Lemma eqn_eqxn s1 s2 : eqn s1 s2 -> eqxn s1 s2.
Proof. st_crush. Qed.
Lemma eqn_pos s1 s2 : eqn s1 s2 -> pos s1 = pos s2.
Proof. st_crush. Qed.
Lemma eqn_ctx s1 s2 : eqn s1 s2 -> ctx3 s1 s2.
Proof. st_crush. Qed.
Lemma eqn_cpos s1 s2 : eqn s1 s2 -> cpos s1 = cpos s2.
Proof. st_crush. Qed.
Lemma eqn_set_pos p s1 s2 : eqn s1 s2 -> eqn (set_pos p s1) (set_pos p s2).
Proof. st_crush. Qed.
Lemma eqxn_set_pos p s1 s2 : eqxn s1 s2 -> eqn (set_pos p s1) (set_pos p s2).
Proof. st_crush. Qed.
Lemma eqxn_set_pos_l p s1 s2 : eqxn s1 s2 -> eqxn (set_pos p s1) s2.
Proof. st_crush. Qed.
Lemma eqxn_set_pos_r p s1 s2 : eqxn s1 s2 -> eqxn s1 (set_pos p s2).
Proof. st_crush. Qed.
Lemma eqxn_pos_eqn s1 s2 : eqxn s1 s2 -> pos s1 = pos s2 -> eqn s1 s2.
Proof. st_crush. Qed.
Lemma eqn_set_in_cmt b s1 s2 : eqn s1 s2 -> eqn (set_in_cmt b s1) (set_in_cmt b s2).
Proof. st_crush. Qed.
Lemma eqn_set_cpos c s1 s2 : eqn s1 s2 -> eqn (set_cpos c s1) (set_cpos c s2).
Proof. st_crush. Qed.
Lemma eqn_reg_fail p q s1 s2 : eqn s1 s2 -> eqn (reg_fail p s1) (reg_fail q s2).
Proof.
  intro H. destruct s1, s2. unfold eqn, reg_fail, set_nm in *. simpl in *. inversion H; subst.
  destruct nm, nm0; simpl; repeat match goal with |- context [if ?b then _ else _] => destruct b end; reflexivity.
Qed.
Lemma reg_fail_eqn p s : eqn (reg_fail p s) s.
Proof.
  destruct s. unfold eqn, reg_fail, set_nm. simpl.
  destruct nm; simpl; [|reflexivity]. destruct in_cmt; [reflexivity|]. destruct (Nat.ltb n p); reflexivity.
Qed.
Lemma ctx3_refl s : ctx3 s s.
Proof. repeat split. Qed.
Lemma ctx3_trans s1 s2 s3 : ctx3 s1 s2 -> ctx3 s2 s3 -> ctx3 s1 s3.
Proof. intros (A & B & C) (D & E & F). repeat split; congruence. Qed.
Lemma ctx3_sym s1 s2 : ctx3 s1 s2 -> ctx3 s2 s1.
Proof. intros (A & B & C). repeat split; congruence. Qed.
Lemma ctx3_set_pos p s : ctx3 (set_pos p s) s.
Proof. repeat split. Qed.
Lemma ctx3_reg_fail p s : ctx3 (reg_fail p s) s.
Proof. apply eqn_ctx. apply reg_fail_eqn. Qed.
Lemma ctx3_set_cpos c s : ctx3 (set_cpos c s) s.
Proof. repeat split. Qed.

Lemma eqn_maybe_skip_ws input s1 s2 : eqn s1 s2 -> eqn (maybe_skip_ws input s1) (maybe_skip_ws input s2).
Proof.
  intro H. unfold maybe_skip_ws, do_skip_ws. destruct (eqn_ctx _ _ H) as (W & K & _). rewrite K, W, (eqn_pos _ _ H).
  destruct (skipws s2); [apply eqn_set_pos|]; exact H.
Qed.
Lemma ctx3_maybe_skip_ws input s : ctx3 (maybe_skip_ws input s) s.
Proof. unfold maybe_skip_ws, do_skip_ws. destruct (skipws s); [apply ctx3_set_pos | apply ctx3_refl]. Qed.

(* ---------------------------------------------------------------- the simulation *)
Section SoundW.
Variables g1 g2 : grammar.
Variable ne : list nat.
Variable alts : list (nat * nat * nat).
Variable R : list (nat * nat * bool).
Variable input : list N.
Variable orc : nat -> nat -> option nat.
Hypothesis Hne : forall o p, In o ne -> orc o p <> Some 0.
(* the oracle hypothesis on regex triples: o3 matches like o1 where o1 matches, else like o2 *)
Hypothesis Halt : forall o1 o2 o3 p, In (o1, o2, o3) alts ->
  orc o3 p = match orc o1 p with Some l => Some l | None => orc o2 p end.

Notation P1 := (parse g1 input orc false).
Notation P2 := (parse g2 input orc false).

(* related outcomes of a pair (i, j) started in states s, s' equal up to nm *)
Definition orelW (i j : nat) (c : bool) (s s' : st) (o1 o2 : out) : Prop :=
  o1 = Abort 0 \/ o2 = Abort 0 \/
  match o1, o2 with
  | Ok r1 s1, Ok r2 s2 =>
    eqn s1 s2 /\ ctx3 s1 s /\ vrel c r1 r2 /\ (forall d, efree g1 d i = true -> fnn r1)
    /\ (forall d, efree g2 d j = true -> fnn r2) /\ (forall d, atrue g1 ne d i = true -> truthy r1 = true)
  | Fail s1, Fail s2 =>
    eqxn s1 s2 /\ ctx3 s1 s /\ (nonterminal g1 i = true -> pos s1 = pos s) /\ (nonterminal g2 j = true -> pos s2 = pos s')
  | Abort _, Abort _ => True
  | _, _ => False
  end.

Definition simW (fa fb : nat) : Prop :=
  forall i j c, In (i, j, c) R -> forall psq1 psq2 s s', eqn s s' -> skipws s = true ->
  orelW i j c s s' (P1 fa i psq1 s) (P2 fb j psq2 s').

Definition sem_okW (p : nat * nat * bool) : Prop :=
  match p with
  | (i, j, c) => forall fa fb psq1 psq2 s s', eqn s s' -> skipws s = true ->
                 orelW i j c s s' (P1 fa i psq1 s) (P2 fb j psq2 s')
  end.

Hypothesis HR : forall p, In p R -> local_ok g1 g2 ne true alts R p = true \/ sem_okW p.
Hypothesis HF : frame_ok g1 g2 R = true.

Lemma orelW_weaken i j c s s' o1 o2 : orelW i j c s s' o1 o2 -> orelW i j false s s' o1 o2.
Proof.
  intros [H|[H|H]]; [left; exact H | right; left; exact H | right; right].
  destruct o1, o2; try exact H. destruct H as (A & A' & B & C & D & E).
  split; [exact A|]. split; [exact A'|]. split; [eapply vrel_weaken; exact B|]. split; [exact C|]. split; [exact D | exact E].
Qed.

Section StepW.
Variable n : nat.
Hypothesis IH : forall fa fb, fa + fb <= n -> simW fa fb.

Lemma kid_anyW fa fb i j : fa + fb <= n -> pin_any R i j = true ->
  forall psq1 psq2 s s', eqn s s' -> skipws s = true -> orelW i j false s s' (P1 fa i psq1 s) (P2 fb j psq2 s').
Proof.
  intros L H psq1 psq2 s s' E K. apply (pin_any_In R) in H as [c H]. eapply orelW_weaken. apply (IH fa fb L i j c H); assumption.
Qed.

Lemma kid_strongW fa fb i j : fa + fb <= n -> pin_strong R i j = true ->
  forall psq1 psq2 s s', eqn s s' -> skipws s = true -> orelW i j true s s' (P1 fa i psq1 s) (P2 fb j psq2 s').
Proof. intros L H psq1 psq2 s s' E K. apply (pin_strong_In R) in H. apply (IH fa fb L i j true H); assumption. Qed.

Lemma skipws_ctx s1 s : ctx3 s1 s -> skipws s = true -> skipws s1 = true.
Proof. intros (_ & A & _) B. congruence. Qed.

(* ---------------- sequences *)
Definition srelW (s : st) (a1 a2 : list res) (Q : Prop) (o1 o2 : out) : Prop :=
  o1 = Abort 0 \/ o2 = Abort 0 \/
  match o1, o2 with
  | Ok r1 s1, Ok r2 s2 =>
    eqn s1 s2 /\ ctx3 s1 s /\ exists d1 d2, r1 = RList (a1 ++ d1) /\ r2 = RList (a2 ++ d2) /\ accrel d1 d2 /\ (Q -> d1 <> [])
  | Fail s1, Fail s2 => eqxn s1 s2 /\ ctx3 s1 s
  | Abort _, Abort _ => True
  | _, _ => False
  end.

Lemma srelW_shift s0 s a1 a2 e1 e2 (Q Q' : Prop) o1 o2 :
  accrel e1 e2 -> (Q -> e1 <> [] \/ Q') -> ctx3 s0 s -> srelW s0 (a1 ++ e1) (a2 ++ e2) Q' o1 o2 -> srelW s a1 a2 Q o1 o2.
Proof.
  intros E HQ CT [H|[H|H]]; [left; exact H | right; left; exact H | right; right].
  destruct o1, o2; try exact H.
  - destruct H as (A & A' & d1 & d2 & B & C & D & F). split; [exact A|]. split; [eapply ctx3_trans; eassumption|].
    exists (e1 ++ d1), (e2 ++ d2).
    split; [rewrite app_assoc; exact B | split; [rewrite app_assoc; exact C | split; [apply accrel_app; assumption|]]].
    intros q X. apply app_eq_nil in X as [X1 X2]. destruct (HQ q) as [N|N]; [contradiction | apply (F N X2)].
  - destruct H as (A & A'). split; [exact A | eapply ctx3_trans; eassumption].
Qed.

Lemma srelW_done s s' a1 a2 (Q : Prop) : eqn s s' -> ~ Q -> srelW s a1 a2 Q (Ok (RList a1) s) (Ok (RList a2) s').
Proof.
  intros E NQ. right; right. split; [exact E|]. split; [apply ctx3_refl|]. exists [], []. rewrite !app_nil_r.
  split; [reflexivity | split; [reflexivity | split; [apply accrel_nil | intro q; contradiction]]].
Qed.

Notation anyT := (anyT g1 ne).

Lemma seq_headW fa fb x y t1 t2 psq1 psq2 a1 a2 s s' :
  fa + fb <= n -> pin_any R x y = true -> eqn s s' -> skipws s = true ->
  (forall b1 b2 z z', eqn z z' -> skipws z = true ->
     srelW z b1 b2 (anyT t1) (seq_loop (P1 fa) psq1 t1 b1 z) (seq_loop (P2 fb) psq2 t2 b2 z')) ->
  srelW s a1 a2 (anyT (x :: t1)) (seq_loop (P1 fa) psq1 (x :: t1) a1 s) (seq_loop (P2 fb) psq2 (y :: t2) a2 s').
Proof.
  intros L H E K Kt. pose proof (kid_anyW fa fb x y L H psq1 psq2 s s' E K) as O. cbn [seq_loop].
  destruct O as [O|[O|O]]; [rewrite O; left; reflexivity | rewrite O; right; left; reflexivity |].
  destruct (P1 fa x psq1 s) as [r1 s1|s1|w1], (P2 fb y psq2 s') as [r2 s2|s2|w2]; try contradiction.
  - destruct O as (E1 & C1 & V & _ & _ & AT). rewrite !push_app.
    eapply srelW_shift; [eapply accrel_push; exact V | | exact C1 | apply Kt; [exact E1 | apply (skipws_ctx _ _ C1 K)]].
    intro q. apply (anyT_cons g1 ne) in q as [[d q]|q]; [left | right; exact q].
    rewrite (AT d q). discriminate.
  - right; right. split; apply O.
  - right; right. exact I.
Qed.

Lemma seq_zipW l1 : forall l2, zip_in R false l1 l2 = true -> forall fa fb, fa + fb <= n ->
  forall psq1 psq2 a1 a2 s s', eqn s s' -> skipws s = true ->
  srelW s a1 a2 (anyT l1) (seq_loop (P1 fa) psq1 l1 a1 s) (seq_loop (P2 fb) psq2 l2 a2 s').
Proof.
  induction l1 as [|x t1 IHl]; intros [|y t2] Z fa fb L psq1 psq2 a1 a2 s s' E K; simpl in Z; try discriminate.
  - apply srelW_done; [exact E | apply anyT_nil].
  - apply andb_true_iff in Z as [Z1 Z2]. apply seq_headW; try assumption.
    intros b1 b2 z z' Ez Kz. apply IHl; assumption.
Qed.

(* ---------------- `x (s x')*` against `e+[t]` *)
Definition lrelW (s0 : st) (b2 : list res) (o1 o2 : out) : Prop :=
  o1 = Abort 0 \/ o2 = Abort 0 \/
  match o1, o2 with
  | Ok r1 s1, Ok r2 s2 =>
    eqn s1 s2 /\ ctx3 s1 s0 /\
    exists c1 c2, r1 = RList c1 /\ r2 = RList c2 /\ accok c1 /\ accok c2 /\ (b2 <> [] -> c2 <> [])
  | Abort _, Abort _ => True
  | _, _ => False
  end.

Lemma lrelW_mono s0 s b2 b2' o1 o2 : b2' <> [] -> ctx3 s0 s -> lrelW s0 b2' o1 o2 -> lrelW s b2 o1 o2.
Proof.
  intros N CT [H|[H|H]]; [left; exact H | right; left; exact H | right; right].
  destruct o1, o2; try exact H. destruct H as (A & A' & c1 & c2 & B & C & D & E & F). split; [exact A|].
  split; [eapply ctx3_trans; eassumption|].
  exists c1, c2. repeat split; try assumption. intros _. apply F. exact N.
Qed.

Lemma sep_loopW q qn s x' e t fa1 fb :
  fa1 + fb <= n -> get_node g1 q = Some qn -> n_kind qn = KSeq -> plain qn = true -> n_suppress qn = false ->
  n_kids qn = [s; x'] -> pin_any R s t = true -> pin_any R x' e = true -> atrue g1 ne EDEPTH x' = true ->
  forall k1 k2 f1 b1 b2 z z', eqn z z' -> skipws z = true -> accok b1 -> accok b2 ->
  lrelW z b2 (rep_loop (P1 fa1) q None false k1 f1 b1 z) (rep_loop (P2 fb) e (Some t) true k2 false b2 z').
Proof.
  intros L Gq Kq Plq Suq Kiq Hs Hx Hat. induction k1 as [|k1 IHk]; intros k2 f1 b1 b2 z z' Ez Kz B1 B2; [left; reflexivity|].
  destruct k2 as [|k2]; [right; left; reflexivity|].
  rewrite !rep_loop_S. unfold elemf at 1. rewrite <- (eqn_pos _ _ Ez).
  destruct fa1 as [|fa2]; [left; reflexivity|].
  pose proof (seq_node_cases g1 input orc fa2 q qn false z Gq Kq Plq Suq) as C. rewrite Kiq in C. cbn [seq_loop] in C.
  assert (L2 : fa2 + fb <= n) by lia.
  pose proof (kid_anyW fa2 fb s t L2 Hs true false z z' Ez Kz) as O.
  destruct O as [O|[O|O]].
  - rewrite O in C. rewrite C. left; reflexivity.
  - rewrite O. right; left; reflexivity.
  - destruct (P1 fa2 s true z) as [sr1 s1|s1|w1], (P2 fb t false z') as [sr2 s2|s2|w2]; try contradiction.
    + destruct O as (E & CT & V & _). unfold elemf.
      pose proof (kid_anyW fa2 fb x' e L2 Hx true false s1 s2 E (skipws_ctx _ _ CT Kz)) as O2.
      destruct O2 as [O2|[O2|O2]].
      * rewrite O2 in C. rewrite C. left; reflexivity.
      * rewrite O2. right; left; reflexivity.
      * destruct (P1 fa2 x' true s1) as [r1 s3|s3|w1'], (P2 fb e false s2) as [r2 s3'|s3'|w2']; try contradiction.
        -- destruct O2 as (E2 & CT2 & V2 & _ & _ & AT).
           assert (T1 : truthy r1 = true) by (apply (AT EDEPTH Hat)).
           pose proof V2 as (G1 & G2 & TT & _). assert (T2 : truthy r2 = true) by congruence.
           rewrite T1 in C. rewrite T2.
           assert (AQ : accok ((if truthy sr1 then [] ++ [sr1] else []) ++ [r1])).
           { apply Forall_app. split; [apply (accok_push [] sr1 false sr2); [constructor | exact V]|].
             constructor; [split; [exact T1 | apply G1; exact T1] | constructor]. }
           assert (NQ : (if truthy sr1 then [] ++ [sr1] else []) ++ [r1] <> []).
           { intro X. apply app_eq_nil in X as [_ X]. discriminate. }
           pose proof (post_list_tt q qn _ Suq AQ NQ) as TV.
           destruct ((if truthy sr1 then [] ++ [sr1] else []) ++ [r1]) as [|y ys] eqn:EZ; [congruence|].
           rewrite C. destruct TV as [TV1 TV2]. rewrite TV1.
           assert (CT3 : ctx3 s3 z) by (eapply ctx3_trans; eassumption).
           eapply lrelW_mono; [| exact CT3 | apply IHk].
           ++ intro X. apply app_eq_nil in X as [_ X]. discriminate.
           ++ exact E2.
           ++ apply (skipws_ctx _ _ CT3 Kz).
           ++ apply Forall_app. split; [exact B1 | constructor; [split; assumption | constructor]].
           ++ apply Forall_app. split; [apply (accok_push2 b2 sr2 false sr1); assumption|].
              constructor; [split; [exact T2 | apply G2; exact T2] | constructor].
        -- rewrite C. cbn [andb]. destruct O2 as (E2 & CT2 & _).
           right; right. split; [apply eqxn_set_pos; apply eqxn_set_pos_l; apply eqxn_set_pos_l; exact E2|].
           split; [eapply ctx3_trans; [apply ctx3_set_pos|]; eapply ctx3_trans; [apply ctx3_set_pos|];
                   eapply ctx3_trans; [apply ctx3_set_pos|]; eapply ctx3_trans; eassumption|].
           eexists; eexists. split; [reflexivity|]. split; [reflexivity|].
           split; [exact B1|]. split; [apply (accok_push2 b2 sr2 false sr1); assumption|].
           intro N. destruct (truthy sr2); [|exact N]. intro X. apply app_eq_nil in X as [_ X]. discriminate.
        -- rewrite C. right; right. exact I.
    + rewrite C. cbn [andb]. destruct O as (E & CT & _).
      right; right. split; [apply eqxn_set_pos; apply eqxn_set_pos_l; apply eqxn_set_pos_l; exact E|].
      split; [eapply ctx3_trans; [apply ctx3_set_pos|]; eapply ctx3_trans; [apply ctx3_set_pos|];
              eapply ctx3_trans; [apply ctx3_set_pos|]; exact CT|].
      exists b1, b2. repeat split; try assumption. intro N; exact N.
    + rewrite C. right; right. exact I.
Qed.

Definition rrelW (s0 : st) (a1 : list res) (o1 o2 : out) : Prop :=
  o1 = Abort 0 \/ o2 = Abort 0 \/
  match o1, o2 with
  | Ok r1 s1, Ok r2 s2 =>
    eqn s1 s2 /\ ctx3 s1 s0 /\
    exists d1 d2, r1 = RList (a1 ++ d1) /\ r2 = RList d2 /\ accok d1 /\ accok d2 /\ d1 <> [] /\ d2 <> []
  | Fail s1, Fail s2 => eqxn s1 s2 /\ ctx3 s1 s0
  | Abort _, Abort _ => True
  | _, _ => False
  end.

Lemma sepform_coreW x st s x' e t fa fb k2 psq1 a1 z z' :
  fa + fb <= n -> star_sep g1 st = Some (s, x') ->
  pin_any R x e = true -> pin_any R x' e = true -> pin_any R s t = true ->
  atrue g1 ne EDEPTH x = true -> atrue g1 ne EDEPTH x' = true -> eqn z z' -> skipws z = true ->
  rrelW z a1 (seq_loop (P1 fa) psq1 [x; st] a1 z) (rep_loop (P2 fb) e (Some t) true k2 true [] z').
Proof.
  intros L SS Hx Hx' Hs Ax Ax' Ez Kz.
  destruct (star_sep_node g1 st s x' SS) as (stn & q & Gst & Kst & Plst & Sust & Kist & Sest & SK).
  destruct (seq_kids_node g1 q _ SK) as (qn & Gq & Kq & Plq & Suq & Kiq).
  destruct k2 as [|k2]; [right; left; reflexivity|]. rewrite rep_loop_S. unfold elemf. cbn [seq_loop].
  pose proof (kid_anyW fa fb x e L Hx psq1 false z z' Ez Kz) as O.
  destruct O as [O|[O|O]]; [rewrite O; left; reflexivity | rewrite O; right; left; reflexivity |].
  destruct (P1 fa x psq1 z) as [r1 s1|s1|w1], (P2 fb e false z') as [r2 s2|s2|w2]; try contradiction.
  - destruct O as (E & CT & V & _ & _ & AT). assert (T1 : truthy r1 = true) by (apply (AT EDEPTH Ax)).
    pose proof V as (G1 & G2 & TT & _). assert (T2 : truthy r2 = true) by congruence. rewrite T1, T2.
    destruct fa as [|fa1]; [left; reflexivity|].
    rewrite (parse_nonmatch g1 input orc fa1 st stn psq1 s1 Gst) by (rewrite Kst; reflexivity).
    rewrite (body_rep (P1 fa1) fa1 stn q s1 (or_introl Kst) Plst Kist). rewrite Kst, Sest.
    assert (L1 : fa1 + fb <= n) by lia.
    assert (B2 : accok ([] ++ [r2])) by (constructor; [split; [exact T2 | apply G2; exact T2] | constructor]).
    pose proof (sep_loopW q qn s x' e t fa1 fb L1 Gq Kq Plq Suq Kiq Hs Hx' Ax' fa1 k2 true [] ([] ++ [r2]) s1 s2
                          E (skipws_ctx _ _ CT Kz) (Forall_nil _) B2) as Z.
    destruct Z as [Z|[Z|Z]]; [rewrite Z; left; reflexivity | rewrite Z; right; left; reflexivity |].
    destruct (rep_loop (P1 fa1) q None false fa1 true [] s1) as [v1 s3|s3|w1'],
             (rep_loop (P2 fb) e (Some t) true k2 false ([] ++ [r2]) s2) as [v2 s3'|s3'|w2']; try contradiction.
    + destruct Z as (E2 & CT2 & c1 & c2 & E3 & E4 & C1 & C2 & N2). subst v1 v2. right; right.
      split; [exact E2|]. split; [eapply ctx3_trans; eassumption|].
      assert (A1 : accok [r1]) by (constructor; [split; [exact T1 | apply G1; exact T1] | constructor]).
      destruct c1 as [|y ys].
      * rewrite post_nil, Sust. cbn [truthy]. exists [r1], c2.
        repeat split; try assumption; try discriminate. apply N2. discriminate.
      * pose proof (post_list_tt st stn (y :: ys) Sust C1) as TV. assert (NZ : y :: ys <> []) by discriminate.
        specialize (TV NZ). destruct TV as [TV1 TV2]. rewrite TV1.
        exists ([r1] ++ [post st stn (RList (y :: ys))]), c2. rewrite app_assoc.
        repeat split; try assumption; try discriminate.
        -- constructor; [split; [exact T1 | apply G1; exact T1] | constructor; [split; assumption | constructor]].
        -- apply N2. discriminate.
    + right; right. exact I.
  - cbn [andb]. destruct O as (E & CT & _). right; right. split; [apply eqxn_set_pos_r; exact E | exact CT].
  - right; right. exact I.
Qed.

Lemma sepform_seqW fa fb x st t1 y t2 psq1 psq2 a1 a2 z z' :
  fa + fb <= n -> sepform g1 g2 ne R x (st :: t1) y = true -> eqn z z' -> skipws z = true ->
  (forall b1 b2 u u', eqn u u' -> skipws u = true ->
     srelW u b1 b2 (anyT t1) (seq_loop (P1 fa) psq1 t1 b1 u) (seq_loop (P2 fb) psq2 t2 b2 u')) ->
  srelW z a1 a2 (anyT (x :: st :: t1)) (seq_loop (P1 fa) psq1 (x :: st :: t1) a1 z) (seq_loop (P2 fb) psq2 (y :: t2) a2 z').
Proof.
  intros L SF Ez Kz K. unfold sepform in SF.
  destruct (star_sep g1 st) as [[s0 x']|] eqn:SS; [|discriminate].
  destruct (plus_sep g2 y) as [[e t]|] eqn:PS; [|discriminate].
  apply andb_true_iff in SF as [SF Ax']. apply andb_true_iff in SF as [SF Ax].
  apply andb_true_iff in SF as [SF Hs]. apply andb_true_iff in SF as [Hx Hx'].
  destruct (plus_sep_node g2 y e t PS) as (yn & Gy & Ky & Ply & Suy & Kiy & Sey).
  change (x :: st :: t1) with ([x; st] ++ t1) at 2. rewrite seq_loop_app.
  destruct fb as [|fb]; [right; left; reflexivity|].
  set (S1 := seq_loop (P1 fa) psq1 [x; st] a1 z).
  cbn [seq_loop].
  rewrite (parse_nonmatch g2 input orc fb y yn psq2 z' Gy) by (rewrite Ky; reflexivity).
  rewrite (body_rep (P2 fb) fb yn e z' (or_intror Ky) Ply Kiy). rewrite Ky, Sey.
  unfold S1. clear S1.
  assert (L1 : fa + fb <= n) by lia.
  pose proof (sepform_coreW x st s0 x' e t fa fb fb psq1 a1 z z' L1 SS Hx Hx' Hs Ax Ax' Ez Kz) as Z.
  destruct Z as [Z|[Z|Z]]; [rewrite Z; left; reflexivity | rewrite Z; right; left; reflexivity |].
  destruct (seq_loop (P1 fa) psq1 [x; st] a1 z) as [r1 s1|s1|w1],
           (rep_loop (P2 fb) e (Some t) true fb true [] z') as [r2 s2|s2|w2]; try contradiction.
  - destruct Z as (E & CT & d1 & d2 & E1 & E2 & D1 & D2 & N1 & N2). subst r1 r2.
    pose proof (post_list_tt y yn d2 Suy D2 N2) as [TV1 TV2]. rewrite TV1.
    eapply srelW_shift with (e1 := d1) (e2 := [post y yn (RList d2)]) (Q' := anyT t1).
    + repeat split; try assumption.
      * constructor; [split; assumption | constructor].
      * intro X. contradiction.
      * discriminate.
    + intros _. left. exact N1.
    + exact CT.
    + apply K; [exact E | apply (skipws_ctx _ _ CT Kz)].
  - destruct Z as (E & CT). right; right. split; [apply eqxn_set_pos_r; exact E | exact CT].
  - right; right. exact I.
Qed.

Lemma seq_align_simW m : forall l1 l2 fa fb, fa + fb <= n -> seq_align g1 g2 ne R m l1 l2 = true ->
  forall psq1 psq2 a1 a2 s s', eqn s s' -> skipws s = true ->
  srelW s a1 a2 (anyT l1) (seq_loop (P1 fa) psq1 l1 a1 s) (seq_loop (P2 fb) psq2 l2 a2 s').
Proof.
  induction m as [|m IHm]; intros l1 l2 fa fb L A psq1 psq2 a1 a2 s s' Es Ks; [discriminate|].
  cbn [seq_align] in A. destruct l1 as [|x t1], l2 as [|y t2]; try discriminate.
  - apply srelW_done; [exact Es | apply anyT_nil].
  - apply orb_true_iff in A as [A|A]; [apply orb_true_iff in A as [A|A]; [apply orb_true_iff in A as [A|A]|]|].
    + apply andb_true_iff in A as [A1 A2]. apply seq_headW; try assumption.
      intros b1 b2 z z' Ez Kz. apply IHm; assumption.
    + apply andb_true_iff in A as [A1 A2]. destruct t1 as [|st t1]; [discriminate A1|]. cbn [tl] in A2.
      apply sepform_seqW; try assumption. intros b1 b2 z z' Ez Kz. apply IHm; assumption.
    + destruct (seq_kids g2 y) as [ks|] eqn:SK; [|discriminate].
      apply andb_true_iff in A as [A A3]. apply andb_true_iff in A as [A1 A2].
      destruct (seq_kids_node g2 y ks SK) as (nd & G & K & Pl & Su & Ki).
      assert (QS : anyT (x :: t1) -> anyT (firstn (length ks) (x :: t1)) \/ anyT (skipn (length ks) (x :: t1))).
      { intro q. apply (anyT_app g1 ne). rewrite firstn_skipn. exact q. }
      assert (EQ : seq_loop (P1 fa) psq1 (x :: t1) a1 s =
                   seq_loop (P1 fa) psq1 (firstn (length ks) (x :: t1) ++ skipn (length ks) (x :: t1)) a1 s)
        by (rewrite firstn_skipn; reflexivity).
      rewrite EQ. clear EQ. rewrite seq_loop_app.
      cbn [seq_loop]. destruct fb as [|fb]; [right; left; reflexivity|].
      assert (L' : fa + fb <= n) by lia.
      pose proof (seq_zipW _ _ A2 fa fb L' psq1 true a1 [] s s' Es Ks) as Z.
      pose proof (seq_node_cases g2 input orc fb y nd psq2 s' G K Pl Su) as C. rewrite Ki in C.
      destruct Z as [Z|[Z|Z]].
      * rewrite Z. left; reflexivity.
      * rewrite Z in C. rewrite C. right; left; reflexivity.
      * destruct (seq_loop (P1 fa) psq1 (firstn (length ks) (x :: t1)) a1 s) as [r1 s1|s1|w1],
                 (seq_loop (P2 fb) true ks [] s') as [r2 s2|s2|w2]; try contradiction.
        -- destruct Z as (E & CT & d1 & d2 & E1 & E2 & D & F). subst r1 r2. cbn [app] in C. rewrite C.
           assert (L2 : fa + S fb <= n) by lia.
           destruct d2 as [|v d2].
           ++ cbn [truthy]. eapply srelW_shift with (e1 := d1) (e2 := []) (Q' := anyT (skipn (length ks) (x :: t1))).
              ** exact D.
              ** intro q. destruct (QS q) as [q1|q2]; [left; apply F; exact q1 | right; exact q2].
              ** exact CT.
              ** rewrite app_nil_r. apply IHm; try assumption. apply (skipws_ctx _ _ CT Ks).
           ++ pose proof (post_list_tt y nd (v :: d2) Su (proj1 (proj2 D))) as T.
              assert (N : v :: d2 <> []) by discriminate. specialize (T N).
              destruct T as [T1 T2]. rewrite T1.
              eapply srelW_shift with (e1 := d1) (e2 := [post y nd (RList (v :: d2))])
                                      (Q' := anyT (skipn (length ks) (x :: t1))).
              ** destruct D as (D1 & D2 & D3). repeat split.
                 --- exact D1.
                 --- constructor; [split; assumption | constructor].
                 --- intro H. apply D3 in H. discriminate.
                 --- discriminate.
              ** intro q. destruct (QS q) as [q1|q2]; [left; apply F; exact q1 | right; exact q2].
              ** exact CT.
              ** apply IHm; try assumption. apply (skipws_ctx _ _ CT Ks).
        -- rewrite C. destruct Z as (E & CT). right; right.
           split; [apply eqxn_set_pos_r; apply eqxn_set_pos_r; exact E | exact CT].
        -- rewrite C. right; right. exact I.
    + destruct (seq_kids g1 x) as [ks|] eqn:SK; [|discriminate].
      apply andb_true_iff in A as [A A3]. apply andb_true_iff in A as [A1 A2].
      destruct (seq_kids_node g1 x ks SK) as (nd & G & K & Pl & Su & Ki).
      assert (EQ : seq_loop (P2 fb) psq2 (y :: t2) a2 s' =
                   seq_loop (P2 fb) psq2 (firstn (length ks) (y :: t2) ++ skipn (length ks) (y :: t2)) a2 s')
        by (rewrite firstn_skipn; reflexivity).
      rewrite EQ. clear EQ. rewrite seq_loop_app.
      cbn [seq_loop]. destruct fa as [|fa]; [left; reflexivity|].
      assert (L' : fa + fb <= n) by lia.
      pose proof (seq_zipW _ _ A2 fa fb L' true psq2 [] a2 s s' Es Ks) as Z.
      pose proof (seq_node_cases g1 input orc fa x nd psq1 s G K Pl Su) as C. rewrite Ki in C.
      assert (QX : anyT (x :: t1) -> anyT ks \/ anyT t1).
      { intro q. apply (anyT_cons g1 ne) in q as [[d q]|q]; [left | right; exact q].
        rewrite <- Ki. apply (atrue_seq0 g1 ne d x nd G K q). }
      destruct Z as [Z|[Z|Z]].
      * rewrite Z in C. rewrite C. left; reflexivity.
      * rewrite Z. right; left; reflexivity.
      * destruct (seq_loop (P1 fa) true ks [] s) as [r1 s1|s1|w1],
                 (seq_loop (P2 fb) psq2 (firstn (length ks) (y :: t2)) a2 s') as [r2 s2|s2|w2]; try contradiction.
        -- destruct Z as (E & CT & d1 & d2 & E1 & E2 & D & F). subst r1 r2. cbn [app] in C. rewrite C.
           assert (L2 : S fa + fb <= n) by lia.
           destruct d1 as [|v d1].
           ++ cbn [truthy]. eapply srelW_shift with (e1 := []) (e2 := d2) (Q' := anyT t1).
              ** exact D.
              ** intro q. destruct (QX q) as [q1|q2]; [exfalso; apply (F q1); reflexivity | right; exact q2].
              ** exact CT.
              ** rewrite app_nil_r. apply IHm; try assumption. apply (skipws_ctx _ _ CT Ks).
           ++ pose proof (post_list_tt x nd (v :: d1) Su (proj1 D)) as T.
              assert (N : v :: d1 <> []) by discriminate. specialize (T N).
              destruct T as [T1 T2]. rewrite T1.
              eapply srelW_shift with (e1 := [post x nd (RList (v :: d1))]) (e2 := d2) (Q' := anyT t1).
              ** destruct D as (D1 & D2 & D3). repeat split.
                 --- constructor; [split; assumption | constructor].
                 --- exact D2.
                 --- discriminate.
                 --- intro H. apply D3 in H. discriminate.
              ** intros _. left. discriminate.
              ** exact CT.
              ** apply IHm; try assumption. apply (skipws_ctx _ _ CT Ks).
        -- rewrite C. destruct Z as (E & CT). right; right.
           split; [apply eqxn_set_pos_l; apply eqxn_set_pos_l; exact E|].
           eapply ctx3_trans; [apply ctx3_set_pos|]. eapply ctx3_trans; [apply ctx3_set_pos|]. exact CT.
        -- rewrite C. right; right. exact I.
Qed.

(* ---------------- ordered choice *)
Definition crelW (s : st) (o1 o2 : out) : Prop :=
  o1 = Abort 0 \/ o2 = Abort 0 \/
  match o1, o2 with
  | Ok r1 s1, Ok r2 s2 => eqn s1 s2 /\ ctx3 s1 s /\ ((r1 = RNone /\ r2 = RNone) \/ (tt r1 /\ tt r2))
  | Abort _, Abort _ => True
  | _, _ => False
  end.

Lemma crelW_ctx s0 s o1 o2 : ctx3 s0 s -> crelW s0 o1 o2 -> crelW s o1 o2.
Proof.
  intros CT [H|[H|H]]; [left; exact H | right; left; exact H | right; right].
  destruct o1, o2; try exact H. destruct H as (A & B & C). split; [exact A|]. split; [eapply ctx3_trans; eassumption | exact C].
Qed.

Lemma choice_simW l1 : forall l2, zip_in R true l1 l2 = true ->
  forallb (efree g1 EDEPTH) l1 = true -> forallb (efree g2 EDEPTH) l2 = true ->
  forall fa fb, fa + fb <= n -> forall cp s s', eqn s s' -> skipws s = true ->
  crelW s (choice_loop (P1 fa) cp l1 s) (choice_loop (P2 fb) cp l2 s').
Proof.
  induction l1 as [|x t1 IHl]; intros [|y t2] Z F1 F2 fa fb L cp s s' Es Ks; simpl in Z; try discriminate.
  - right; right. split; [exact Es|]. split; [apply ctx3_refl | left; split; reflexivity].
  - apply andb_true_iff in Z as [Z1 Z2]. cbn [forallb] in F1, F2.
    apply andb_true_iff in F1 as [F1 F1']. apply andb_true_iff in F2 as [F2 F2'].
    pose proof (kid_strongW fa fb x y L Z1 false false s s' Es Ks) as O. cbn [choice_loop].
    destruct O as [O|[O|O]]; [rewrite O; left; reflexivity | rewrite O; right; left; reflexivity |].
    destruct (P1 fa x false s) as [r1 s1|s1|w1], (P2 fb y false s') as [r2 s2|s2|w2]; try contradiction.
    + destruct O as (E & CT & V & N1 & N2 & AT). destruct V as (G1 & G2 & T & Nn). specialize (Nn eq_refl).
      rewrite <- Nn. destruct (is_none r1) eqn:I1.
      * eapply crelW_ctx; [exact CT|]. apply IHl; try assumption. apply (skipws_ctx _ _ CT Ks).
      * right; right. split; [exact E|]. split; [exact CT | right]. split; apply fnn_tt; try assumption.
        -- apply (N1 EDEPTH F1). -- apply (N2 EDEPTH F2). -- congruence.
    + destruct O as (E & CT & _).
      eapply crelW_ctx; [eapply ctx3_trans; [apply ctx3_set_pos | exact CT]|].
      apply IHl; try assumption; [apply eqxn_set_pos; exact E|].
      apply (skipws_ctx (set_pos cp s1) s); [eapply ctx3_trans; [apply ctx3_set_pos | exact CT] | exact Ks].
    + right; right. exact I.
Qed.

(* ---------------- repetitions *)
Definition sep_relW (sp1 sp2 : option nat) : Prop :=
  match sp1, sp2 with
  | None, None => True
  | Some x, Some y => pin_any R x y = true
  | _, _ => False
  end.

Lemma rep_simW e1 e2 sp1 sp2 plus fa fb : fa + fb <= n -> pin_any R e1 e2 = true -> sep_relW sp1 sp2 ->
  forall k1 k2 first a1 a2 s s', eqn s s' -> skipws s = true ->
  srelW s a1 a2 (first = true /\ plus = true /\ exists d, atrue g1 ne d e1 = true)
        (rep_loop (P1 fa) e1 sp1 plus k1 first a1 s) (rep_loop (P2 fb) e2 sp2 plus k2 first a2 s').
Proof.
  intros L He Hs. induction k1 as [|k1 IHk]; intros k2 first a1 a2 s s' Es Ks; [left; reflexivity|].
  destruct k2 as [|k2]; [right; left; reflexivity|].
  assert (EL : forall cp b1 b2 z z', eqn z z' -> skipws z = true ->
    srelW z b1 b2 (first = true /\ plus = true /\ exists d, atrue g1 ne d e1 = true)
          (elemf (P1 fa) e1 sp1 plus k1 first cp b1 z) (elemf (P2 fb) e2 sp2 plus k2 first cp b2 z')).
  { intros cp b1 b2 z z' Ez Kz. unfold elemf.
    pose proof (kid_anyW fa fb e1 e2 L He false false z z' Ez Kz) as O.
    destruct O as [O|[O|O]]; [rewrite O; left; reflexivity | rewrite O; right; left; reflexivity |].
    destruct (P1 fa e1 false z) as [r1 s2|s2|w1], (P2 fb e2 false z') as [r2 s2'|s2'|w2]; try contradiction.
    - destruct O as (E & CT & V & _ & _ & AT). pose proof V as (G1 & G2 & T & _). rewrite <- T.
      destruct (truthy r1) eqn:T1.
      + eapply srelW_shift with (e1 := [r1]) (e2 := [r2]); [| | exact CT | apply IHk; [exact E | apply (skipws_ctx _ _ CT Kz)]].
        * pose proof (accrel_push r1 r2 false V) as AP. rewrite <- T, T1 in AP. exact AP.
        * intros _. left. discriminate.
      + eapply srelW_shift with (e1 := []) (e2 := []) (Q' := False); [apply accrel_nil | | exact CT |].
        * intros (_ & _ & d & q). specialize (AT d q). congruence.
        * rewrite !app_nil_r. apply srelW_done; [exact E | tauto].
    - destruct O as (E & CT & _). destruct (plus && first)%bool eqn:PF.
      + right; right. split; [apply eqxn_set_pos_l; apply eqxn_set_pos_r; exact E|].
        eapply ctx3_trans; [apply ctx3_set_pos | exact CT].
      + eapply srelW_shift with (e1 := []) (e2 := []) (Q' := False);
          [apply accrel_nil | | eapply ctx3_trans; [apply (ctx3_set_pos cp) | exact CT] |].
        * intros (F1 & F2 & _). subst. discriminate.
        * rewrite !app_nil_r. apply srelW_done; [apply eqxn_set_pos; exact E | tauto].
    - right; right. exact I. }
  rewrite !rep_loop_S. rewrite <- (eqn_pos _ _ Es). destruct sp1 as [x|], sp2 as [y|]; try contradiction.
  - destruct first; [apply EL; assumption|].
    pose proof (kid_anyW fa fb x y L Hs false false s s' Es Ks) as O.
    destruct O as [O|[O|O]]; [rewrite O; left; reflexivity | rewrite O; right; left; reflexivity |].
    destruct (P1 fa x false s) as [r1 s1|s1|w1], (P2 fb y false s') as [r2 s2|s2|w2]; try contradiction.
    + destruct O as (E & CT & V & _). rewrite !push_app.
      eapply srelW_shift; [eapply accrel_push; exact V | | exact CT | apply EL; [exact E | apply (skipws_ctx _ _ CT Ks)]].
      intros (F1 & _). discriminate.
    + destruct O as (E & CT & _). cbn [andb]. rewrite andb_false_r.
      eapply srelW_shift with (e1 := []) (e2 := []) (Q' := False);
        [apply accrel_nil | | eapply ctx3_trans; [apply (ctx3_set_pos (pos s)) | exact CT] |].
      * intros (F1 & _). discriminate.
      * rewrite !app_nil_r. apply srelW_done; [apply eqxn_set_pos; exact E | tauto].
    + right; right. exact I.
  - apply EL; assumption.
Qed.

(* ---------------- comments and terminals *)
Definition mrelW (s : st) (o1 o2 : out) : Prop :=
  o1 = Abort 0 \/ o2 = Abort 0 \/
  match o1, o2 with
  | Ok _ s1, Ok _ s2 => eqn s1 s2 /\ ctx3 s1 s
  | Abort _, Abort _ => True
  | _, _ => False
  end.

Lemma mrelW_ctx s0 s o1 o2 : ctx3 s0 s -> mrelW s0 o1 o2 -> mrelW s o1 o2.
Proof.
  intros CT [H|[H|H]]; [left; exact H | right; left; exact H | right; right].
  destruct o1, o2; try exact H. destruct H as (A & B). split; [exact A | eapply ctx3_trans; eassumption].
Qed.

Lemma cmt_simW cm1 cm2 fa fb : fa + fb <= n -> pin_any R cm1 cm2 = true ->
  nonterminal g1 cm1 = true -> nonterminal g2 cm2 = true ->
  forall k1 k2 s s', eqn s s' -> skipws s = true ->
  mrelW s (cmt_loop input (P1 fa) cm1 k1 s) (cmt_loop input (P2 fb) cm2 k2 s').
Proof.
  intros L H N1 N2. induction k1 as [|k1 IHk]; intros k2 s s' Es Ks; [left; reflexivity|].
  destruct k2 as [|k2]; [right; left; reflexivity|]. cbn [cmt_loop].
  pose proof (kid_anyW fa fb cm1 cm2 L H false false s s' Es Ks) as O.
  destruct O as [O|[O|O]]; [rewrite O; left; reflexivity | rewrite O; right; left; reflexivity |].
  destruct (P1 fa cm1 false s) as [r1 s1|s1|w1], (P2 fb cm2 false s') as [r2 s2|s2|w2]; try contradiction.
  - destruct O as (E & CT & _).
    eapply mrelW_ctx; [eapply ctx3_trans; [apply ctx3_maybe_skip_ws | exact CT]|].
    apply IHk; [apply eqn_maybe_skip_ws; exact E|].
    apply (skipws_ctx (maybe_skip_ws input s1) s); [eapply ctx3_trans; [apply ctx3_maybe_skip_ws | exact CT] | exact Ks].
  - destruct O as (E & CT & Q1 & Q2). right; right. split; [|exact CT].
    apply eqxn_pos_eqn; [exact E|]. rewrite (Q1 N1), (Q2 N2). apply eqn_pos; exact Es.
  - right; right. exact I.
Qed.

Lemma eqn_upd_cpos k a b : eqn a b ->
  eqn (set_cpos (upd k (pos a) (cpos a)) a) (set_cpos (upd k (pos b) (cpos b)) b).
Proof. intro H. rewrite (eqn_pos _ _ H), (eqn_cpos _ _ H). apply eqn_set_cpos. exact H. Qed.

Lemma match_pre_simW fa fb k1 k2 s s' : fa + fb <= n -> eqn s s' -> skipws s = true ->
  mrelW s (match_pre g1 input (P1 fa) k1 s) (match_pre g2 input (P2 fb) k2 s').
Proof.
  intros L Es Ks. unfold match_pre.
  pose proof (eqn_maybe_skip_ws input s s' Es) as E1.
  pose proof (ctx3_maybe_skip_ws input s) as C1.
  destruct (eqn_ctx _ _ E1) as (W1 & K1 & I1).
  rewrite <- K1, <- (eqn_pos _ _ E1), <- (eqn_cpos _ _ E1), <- I1.
  set (z := maybe_skip_ws input s) in *. set (z' := maybe_skip_ws input s') in *.
  destruct (if skipws z then lookup (pos z) (cpos z) else None).
  { right; right. split; [apply eqn_set_pos; exact E1 | eapply ctx3_trans; [apply ctx3_set_pos | exact C1]]. }
  destruct (in_cmt z) eqn:IC; [right; right; split; assumption|].
  assert (Kz : skipws z = true) by (apply (skipws_ctx _ _ C1 Ks)).
  unfold parse_comments. pose proof HF as HF'. unfold frame_ok in HF'. apply andb_true_iff in HF' as [_ HC].
  destruct (g_comments g1) as [c1|], (g_comments g2) as [c2|]; try discriminate.
  - apply andb_true_iff in HC as [HC N2]. apply andb_true_iff in HC as [HC N1].
    pose proof (cmt_simW c1 c2 fa fb L HC N1 N2 k1 k2 (set_in_cmt true z) (set_in_cmt true z')
                         (eqn_set_in_cmt true _ _ E1) Kz) as M.
    destruct M as [M|[M|M]]; [rewrite M; left; reflexivity | rewrite M; right; left; reflexivity |].
    destruct (cmt_loop input (P1 fa) c1 k1 _) as [r1 t1|t1|w1], (cmt_loop input (P2 fb) c2 k2 _) as [r2 t2|t2|w2];
      try contradiction.
    + destruct M as (E & CT). right; right. split.
      * apply (eqn_upd_cpos (pos z) (set_in_cmt false t1) (set_in_cmt false t2)). apply eqn_set_in_cmt. exact E.
      * destruct CT as (A & B & _). destruct C1 as (A1 & B1 & D1). repeat split; simpl.
        -- rewrite A. exact A1. -- rewrite B. exact B1. -- rewrite <- D1. symmetry. exact IC.
    + right; right. exact I.
  - right; right. split.
    + apply (eqn_upd_cpos (pos z) (set_in_cmt false (set_in_cmt true z)) (set_in_cmt false (set_in_cmt true z'))).
      apply eqn_set_in_cmt. apply eqn_set_in_cmt. exact E1.
    + destruct C1 as (A1 & B1 & D1). repeat split; simpl; try assumption. rewrite <- D1. symmetry. exact IC.
Qed.

(* Match.parse's skipping, run again from the state a failed first alternative leaves behind, hits the
   comment-position cache (skipws on) and ends where the first run ended *)
Lemma lookup_upd k v m : lookup k (upd k v m) = Some v.
Proof.
  induction m as [|[k' v'] m IHm]; simpl; [rewrite Nat.eqb_refl; reflexivity|].
  destruct (Nat.eqb k k') eqn:E; simpl; [rewrite Nat.eqb_refl; reflexivity | rewrite E; exact IHm].
Qed.

Lemma eqn_back p a b sA p' : pos sA = p' -> eqn (set_pos p' (set_pos a (set_pos b (reg_fail p sA)))) sA.
Proof.
  intro H. destruct sA. simpl in H. subst. unfold eqn, reg_fail, set_pos, set_nm. simpl.
  destruct nm; simpl; [|reflexivity]. destruct in_cmt; [reflexivity|]. destruct (Nat.ltb n0 p); reflexivity.
Qed.

Lemma reg_fail_fields p s : ws (reg_fail p s) = ws s /\ skipws (reg_fail p s) = skipws s /\
  in_cmt (reg_fail p s) = in_cmt s /\ cpos (reg_fail p s) = cpos s /\ pos (reg_fail p s) = pos s.
Proof.
  pose proof (reg_fail_eqn p s) as E. destruct (eqn_ctx _ _ E) as (A & B & C).
  repeat split; try assumption; [apply eqn_cpos | apply eqn_pos]; exact E.
Qed.

Lemma match_pre_again g rec k z r sA p :
  skipws z = true -> ctx3 sA z -> match_pre g input rec k z = Ok r sA ->
  exists sC, match_pre g input rec k (set_pos (pos z) (reg_fail p sA)) = Ok RNone sC /\ eqn sC sA.
Proof.
  intros Kz (CW & CK & CI) H.
  destruct (reg_fail_fields p sA) as (RW & RK & RI & RC & RP).
  remember (set_pos (pos z) (reg_fail p sA)) as zB eqn:EzB.
  assert (ZK : skipws zB = true) by (subst zB; cbn [skipws set_pos]; congruence).
  assert (ZW : ws zB = ws z) by (subst zB; cbn [ws set_pos]; congruence).
  assert (ZP : pos zB = pos z) by (subst zB; reflexivity).
  assert (ZC : cpos zB = cpos sA) by (subst zB; cbn [cpos set_pos]; congruence).
  assert (ZI : in_cmt zB = in_cmt z) by (subst zB; cbn [in_cmt set_pos]; congruence).
  set (q := skip_ws_from (ws z) (skipn (pos z) input) (pos z)).
  assert (M1 : maybe_skip_ws input z = set_pos q z).
  { unfold maybe_skip_ws, do_skip_ws. rewrite Kz. reflexivity. }
  assert (M2 : maybe_skip_ws input zB = set_pos q zB).
  { unfold maybe_skip_ws, do_skip_ws. rewrite ZK, ZW, ZP. reflexivity. }
  unfold match_pre in *. rewrite M1 in H. rewrite M2. clear M1 M2.
  cbn [skipws pos cpos in_cmt set_pos] in *. rewrite Kz in H. rewrite ZK, ZC, ZI.
  destruct (lookup q (cpos z)) as [p'|] eqn:LK.
  - inversion H; subst sA. cbn [cpos set_pos]. rewrite LK.
    eexists. split; [reflexivity|]. rewrite EzB. apply eqn_back. reflexivity.
  - destruct (in_cmt z) eqn:IC.
    + inversion H; subst sA. cbn [cpos set_pos]. rewrite LK.
      eexists. split; [reflexivity|]. rewrite EzB.
      apply (eqn_trans _ (set_pos q (set_pos q (set_pos (pos z) (reg_fail p (set_pos q z)))))); [reflexivity|].
      apply eqn_back. reflexivity.
    + destruct (parse_comments g input rec k (set_pos q z)) as [r2 s2|s2|w] eqn:PC; try discriminate.
      inversion H; subst sA. cbn [cpos set_cpos]. rewrite lookup_upd.
      eexists. split; [reflexivity|]. rewrite EzB. apply eqn_back. reflexivity.
Qed.

(* ---------------- whole nodes *)
Definition brelW (s : st) (a b : node) (Q : Prop) (o1 o2 : out) : Prop :=
  o1 = Abort 0 \/ o2 = Abort 0 \/
  match o1, o2 with
  | Ok r1 s1, Ok r2 s2 =>
    eqn s1 s2 /\ ctx3 s1 s /\
    ((r1 = RNone /\ r2 = RNone /\ ~ Q)
     \/ (r1 = RList [RNone] /\ r2 = RList [RNone] /\ ~ Q)
     \/ (r1 = RList [] /\ r2 = RList [] /\ starlike a /\ starlike b /\ ~ Q)
     \/ (exists d1 d2, r1 = RList d1 /\ r2 = RList d2 /\ accok d1 /\ accok d2 /\ d1 <> [] /\ d2 <> []))
  | Fail s1, Fail s2 => eqxn s1 s2 /\ ctx3 s1 s
  | Abort _, Abort _ => True
  | _, _ => False
  end.

(* the value part of a finished non-terminal pair *)
Lemma finish_vals i j c a b (Q : Prop) r1 r2 :
  get_node g1 i = Some a -> get_node g2 j = Some b -> n_suppress a = n_suppress b ->
  ((exists d, atrue g1 ne d i = true) -> Q) ->
  ((r1 = RNone /\ r2 = RNone /\ ~ Q)
   \/ (r1 = RList [RNone] /\ r2 = RList [RNone] /\ ~ Q)
   \/ (r1 = RList [] /\ r2 = RList [] /\ starlike a /\ starlike b /\ ~ Q)
   \/ (exists d1 d2, r1 = RList d1 /\ r2 = RList d2 /\ accok d1 /\ accok d2 /\ d1 <> [] /\ d2 <> [])) ->
  vrel c (post i a r1) (post j b r2) /\ (forall d, efree g1 d i = true -> fnn (post i a r1))
  /\ (forall d, efree g2 d j = true -> fnn (post j b r2))
  /\ (forall d, atrue g1 ne d i = true -> truthy (post i a r1) = true).
Proof.
  intros G1 G2 Su HQ B.
  assert (NA : ~ Q -> forall d, atrue g1 ne d i = true -> truthy RNone = true).
  { intros NQ d q. exfalso. apply NQ. apply HQ. exists d. exact q. }
  destruct B as [(E1 & E2 & NQ)|[(E1 & E2 & NQ)|[(E1 & E2 & K1 & K2 & NQ)|(d1 & d2 & E1 & E2 & A1 & A2 & N1 & N2)]]];
    subst r1 r2.
  - rewrite !post_none. split; [apply vrel_none|]. split; [intros; apply fnn_none|]. split; [intros; apply fnn_none|].
    apply NA; exact NQ.
  - rewrite !post_optnone. split; [apply vrel_none|]. split; [intros; apply fnn_none|].
    split; [intros; apply fnn_none|]. apply NA; exact NQ.
  - rewrite !post_nil. rewrite <- Su. destruct (n_suppress a) eqn:Sa.
    + split; [apply vrel_none|]. split; [intros; apply fnn_none|]. split; [intros; apply fnn_none|].
      apply NA; exact NQ.
    + split; [apply vrel_nil|]. split; [|split].
      * intros d Ef. rewrite (efree_starlike g1 d i a G1 K1 Ef) in Sa. discriminate.
      * intros d Ef. rewrite (efree_starlike g2 d j b G2 K2 Ef) in Su. discriminate.
      * intros d q. exfalso. apply NQ. apply HQ. exists d. exact q.
  - destruct (n_suppress a) eqn:Sa.
    + rewrite (post_suppress i a _ Sa), (post_suppress j b _ (eq_sym Su)).
      split; [apply vrel_none|]. split; [intros; apply fnn_none|]. split; [intros; apply fnn_none|].
      intros d q. rewrite (atrue_unsup ne g1 d i a G1 q) in Sa. discriminate.
    + pose proof (post_list_tt i a d1 Sa A1 N1) as T1.
      pose proof (post_list_tt j b d2 (eq_sym Su) A2 N2) as T2.
      split; [apply vrel_tt; assumption|]. split; [intros; apply fnn_of_tt; assumption|].
      split; [intros; apply fnn_of_tt; assumption|]. intros _ _. apply T1.
Qed.

Lemma finishW i j c a b (Q : Prop) fa fb psq1 psq2 s s' :
  get_node g1 i = Some a -> get_node g2 j = Some b ->
  is_match_kind (n_kind a) = false -> is_match_kind (n_kind b) = false ->
  n_suppress a = n_suppress b -> eqn s s' ->
  ((exists d, atrue g1 ne d i = true) -> Q) ->
  brelW s a b Q (body (P1 fa) fa a s) (body (P2 fb) fb b s') ->
  orelW i j c s s' (P1 (S fa) i psq1 s) (P2 (S fb) j psq2 s').
Proof.
  intros G1 G2 M1 M2 Su Es HQ B.
  rewrite (parse_nonmatch g1 input orc fa i a psq1 s G1 M1), (parse_nonmatch g2 input orc fb j b psq2 s' G2 M2).
  destruct B as [B|[B|B]]; [rewrite B; left; reflexivity | rewrite B; right; left; reflexivity |].
  destruct (body (P1 fa) fa a s) as [r1 s1|s1|w1], (body (P2 fb) fb b s') as [r2 s2|s2|w2]; try contradiction.
  - right; right. destruct B as (E & CT & B). split; [exact E|]. split; [exact CT|].
    apply (finish_vals i j c a b Q r1 r2 G1 G2 Su HQ B).
  - destruct B as (E & CT). right; right. split; [apply eqxn_set_pos_l; apply eqxn_set_pos_r; exact E|].
    split; [eapply ctx3_trans; [apply ctx3_set_pos | exact CT]|]. split; intros _; apply pos_set_pos.
  - right; right. exact I.
Qed.

Definition trelW (s : st) (o1 o2 : out) : Prop :=
  match o1, o2 with
  | Ok r1 s1, Ok r2 s2 => eqn s1 s2 /\ ctx3 s1 s /\ ((r1 = RNone /\ r2 = RNone) \/ (tt r1 /\ tt r2))
  | Fail s1, Fail s2 => eqn s1 s2 /\ ctx3 s1 s
  | Abort _, Abort _ => True
  | _, _ => False
  end.

Lemma nm_raise_eq p s : nm_raise p s = Fail (reg_fail p s).
Proof. reflexivity. Qed.

Lemma term_relW k i j psq1 psq2 s1 s2 : eqn s1 s2 ->
  trelW s1 (term_parse input orc i k psq1 s1) (term_parse input orc j k psq2 s2).
Proof.
  intro E. destruct k; simpl; try exact I; rewrite <- (eqn_pos _ _ E).
  - destruct (Nat.eqb (length input) (pos s1)); simpl.
    + split; [exact E|]. split; [apply ctx3_refl | right; split; apply tt_T].
    + split; [apply eqn_reg_fail; exact E | apply ctx3_reg_fail].
  - destruct (match oid with Some o => match orc o (pos s1) with Some _ => true | None => false end
                           | None => is_prefix s (skipn (pos s1) input) end); simpl.
    + split; [apply eqn_set_pos; exact E|]. split; [apply ctx3_set_pos | right; split; apply tt_T].
    + split; [apply eqn_reg_fail; exact E | apply ctx3_reg_fail].
  - destruct (orc oid (pos s1)) as [len|]; simpl.
    + destruct (Nat.eqb len 0); simpl.
      * split; [exact E|]. split; [apply ctx3_refl | left; split; reflexivity].
      * split; [apply eqn_set_pos; exact E|]. split; [apply ctx3_set_pos | right; split; apply tt_T].
    + split; [apply eqn_reg_fail; exact E | apply ctx3_reg_fail].
Qed.

Lemma step_termW i j c a b fa fb psq1 psq2 s s' :
  fa + fb <= n -> get_node g1 i = Some a -> get_node g2 j = Some b ->
  is_match_kind (n_kind a) = true -> n_kind a = n_kind b -> n_suppress a = n_suppress b ->
  eqn s s' -> skipws s = true ->
  orelW i j c s s' (P1 (S fa) i psq1 s) (P2 (S fb) j psq2 s').
Proof.
  intros L G1 G2 M K Su Es Ks.
  assert (M2 : is_match_kind (n_kind b) = true) by (rewrite <- K; exact M).
  rewrite (parse_match g1 input orc fa i a psq1 s G1 M), (parse_match g2 input orc fb j b psq2 s' G2 M2).
  pose proof (match_pre_simW fa fb fa fb s s' L Es Ks) as Z.
  destruct Z as [Z|[Z|Z]]; [rewrite Z; left; reflexivity | rewrite Z; right; left; reflexivity |].
  destruct (match_pre g1 input (P1 fa) fa s) as [r1 s1|s1|w1], (match_pre g2 input (P2 fb) fb s') as [r2 s2|s2|w2];
    try contradiction.
  - destruct Z as (E & CT). rewrite <- K. pose proof (term_relW (n_kind a) i j psq1 psq2 s1 s2 E) as T.
    pose proof (term_atrue g1 ne input orc Hne i a psq1 s1 G1) as TA.
    destruct (term_parse input orc i (n_kind a) psq1 s1) as [v1 t1|t1|x1],
             (term_parse input orc j (n_kind a) psq2 s2) as [v2 t2|t2|x2]; try contradiction.
    + right; right. destruct T as (E2 & CT2 & T). split; [exact E2|]. split; [eapply ctx3_trans; eassumption|].
      rewrite <- Su. destruct (n_suppress a) eqn:Sa.
      * split; [apply vrel_none|]. split; [intros; apply fnn_none|]. split; [intros; apply fnn_none|].
        intros d q. rewrite (atrue_unsup ne g1 d i a G1 q) in Sa. discriminate.
      * destruct T as [[E1 E3]|[T1 T2]].
        -- subst. split; [apply vrel_none|]. split; [intros; apply fnn_none|]. split; [intros; apply fnn_none|].
           intros d q. apply (TA d RNone t1 q eq_refl).
        -- split; [apply vrel_tt; assumption|]. split; [intros; apply fnn_of_tt; assumption|].
           split; [intros; apply fnn_of_tt; assumption|]. intros _ _. apply T1.
    + right; right. destruct T as (E2 & CT2). split; [apply eqn_eqxn; exact E2|].
      split; [eapply ctx3_trans; eassumption|].
      unfold nonterminal. rewrite G1, G2, M, M2. split; discriminate.
    + right; right. exact I.
  - right; right. exact I.
Qed.

(* ---------------- an ordered choice of two regex matches against one regex match (weak mode) *)
Lemma regex_oid_node g k o : regex_oid g k = Some o ->
  exists nd, get_node g k = Some nd /\ n_kind nd = KRegex o /\ n_suppress nd = false.
Proof.
  unfold regex_oid. destruct (get_node g k) as [nd|]; [|discriminate].
  destruct (n_kind nd) eqn:K; try discriminate.
  destruct (plain nd); simpl; [|discriminate]. destruct (n_suppress nd) eqn:Su; simpl; [discriminate|].
  intro H. inversion H; subst. exists nd. repeat split; assumption.
Qed.

Lemma eqxn_reg_fail_l p s1 s2 : eqxn s1 s2 -> eqxn (reg_fail p s1) s2.
Proof.
  intro H. destruct s1, s2. unfold eqxn, reg_fail, set_nm, set_pos in *. simpl in *. inversion H; subst.
  destruct nm; simpl; [|reflexivity]. destruct in_cmt0; [reflexivity|]. destruct (Nat.ltb n0 p); reflexivity.
Qed.

Lemma eqxn_reg_fail_r p s1 s2 : eqxn s1 s2 -> eqxn s1 (reg_fail p s2).
Proof.
  intro H. destruct s1, s2. unfold eqxn, reg_fail, set_nm, set_pos in *. simpl in *. inversion H; subst.
  destruct nm0; simpl; [|reflexivity]. destruct in_cmt0; [reflexivity|]. destruct (Nat.ltb n0 p); reflexivity.
Qed.
Lemma eqxn_sym s1 s2 : eqxn s1 s2 -> eqxn s2 s1.
Proof. unfold eqxn. intro H. symmetry. exact H. Qed.
Lemma eqxn_trans s1 s2 s3 : eqxn s1 s2 -> eqxn s2 s3 -> eqxn s1 s3.
Proof. unfold eqxn. intros A B. rewrite A. exact B. Qed.

Lemma in_ne o : existsb (Nat.eqb o) ne = true -> In o ne.
Proof. intro H. apply existsb_exists in H as [x [I E]]. apply Nat.eqb_eq in E. subst. exact I. Qed.

Lemma in_alts_In o1 o2 o3 : in_alts alts o1 o2 o3 = true -> In (o1, o2, o3) alts.
Proof.
  unfold in_alts. rewrite existsb_exists. intros [[[a b] c] [I E]].
  apply andb_true_iff in E as [E E3]. apply andb_true_iff in E as [E1 E2].
  apply Nat.eqb_eq in E1. apply Nat.eqb_eq in E2. apply Nat.eqb_eq in E3. subst. exact I.
Qed.

Lemma term_regex nid o psq s :
  term_parse input orc nid (KRegex o) psq s =
  match orc o (pos s) with
  | Some len => if Nat.eqb len 0 then Ok RNone s else Ok (RTree (T nid (pos s) len false)) (set_pos (pos s + len) s)
  | None => Fail (reg_fail (pos s) s)
  end.
Proof. reflexivity. Qed.

(* the outcome of the pair once a regex matched with a non-zero length at related states *)
Lemma regex_hit i j c a b k len t1 t2 s s' psq :
  get_node g1 i = Some a -> get_node g2 j = Some b -> n_suppress a = n_suppress b -> n_kind a = KChoice ->
  eqn t1 t2 -> ctx3 t1 s -> Nat.eqb len 0 = false ->
  orelW i j c s s'
    (Ok (post i a (RList [RTree (T k (pos t1) len false)])) (set_pos (pos t1 + len) t1))
    (Ok (if n_suppress b then RNone else RTree (T j (pos t1) len psq)) (set_pos (pos t1 + len) t2)).
Proof.
  intros G1 G2 Su Ka E CT NZ. right; right. split; [apply eqn_set_pos; exact E|].
  split; [eapply ctx3_trans; [apply ctx3_set_pos | exact CT]|].
  rewrite <- Su. destruct (n_suppress a) eqn:Sa.
  - rewrite (post_suppress i a _ Sa). split; [apply vrel_none|]. split; [intros; apply fnn_none|].
    split; [intros; apply fnn_none|]. intros d q. rewrite (atrue_unsup ne g1 d i a G1 q) in Sa. discriminate.
  - assert (T1 : tt (post i a (RList [RTree (T k (pos t1) len false)]))).
    { apply post_list_tt; [exact Sa | apply accok1; apply tt_T | discriminate]. }
    split; [apply vrel_tt; [exact T1 | apply tt_T]|]. split; [intros; apply fnn_of_tt; exact T1|].
    split; [intros; apply fnn_of_tt; apply tt_T|]. intros _ _. apply T1.
Qed.

Lemma step_choice_regex i j c a b o3 fa fb psq1 psq2 s s' :
  fa + fb <= n -> get_node g1 i = Some a -> get_node g2 j = Some b ->
  n_kind a = KChoice -> n_kind b = KRegex o3 -> plain a = true -> n_suppress a = n_suppress b ->
  choice_regex g1 ne alts a o3 = true -> eqn s s' -> skipws s = true ->
  orelW i j c s s' (P1 (S fa) i psq1 s) (P2 (S fb) j psq2 s').
Proof.
  intros L G1 G2 Ka Kb Pa Su CR Es Ks. unfold choice_regex in CR.
  destruct (n_kids a) as [|k1 [|k2 [|? ?]]] eqn:Kia; try discriminate.
  destruct (regex_oid g1 k1) as [o1|] eqn:R1; [|discriminate]. destruct (regex_oid g1 k2) as [o2|] eqn:R2; [|discriminate].
  apply andb_true_iff in CR as [CR NE2]. apply andb_true_iff in CR as [AL NE1].
  apply in_alts_In in AL. apply in_ne in NE1. apply in_ne in NE2.
  destruct (regex_oid_node g1 k1 o1 R1) as (n1 & Gk1 & Kk1 & Sk1).
  destruct (regex_oid_node g1 k2 o2 R2) as (n2 & Gk2 & Kk2 & Sk2).
  assert (Ma : is_match_kind (n_kind a) = false) by (rewrite Ka; reflexivity).
  assert (Mb : is_match_kind (n_kind b) = true) by (rewrite Kb; reflexivity).
  assert (M1 : is_match_kind (n_kind n1) = true) by (rewrite Kk1; reflexivity).
  assert (M2 : is_match_kind (n_kind n2) = true) by (rewrite Kk2; reflexivity).
  rewrite (parse_nonmatch g1 input orc fa i a psq1 s G1 Ma), (body_choice _ _ _ _ Ka Pa), Kia.
  rewrite (parse_match g2 input orc fb j b psq2 s' G2 Mb), Kb.
  cbn [choice_loop]. destruct fa as [|fa]; [left; reflexivity|].
  rewrite (parse_match g1 input orc fa k1 n1 false s Gk1 M1), Kk1, Sk1.
  assert (L' : fa + fb <= n) by lia.
  pose proof (match_pre_simW fa fb fa fb s s' L' Es Ks) as Z.
  destruct (match_pre g1 input (P1 fa) fa s) as [r1 sA|sA|w1] eqn:MP1.
  2:{ destruct Z as [Z|[Z|Z]]; [discriminate | rewrite Z; right; left; reflexivity |].
      destruct (match_pre g2 input (P2 fb) fb s'); contradiction. }
  2:{ destruct Z as [Z|[Z|Z]]; [inversion Z; subst; left; reflexivity | rewrite Z; right; left; reflexivity |].
      destruct (match_pre g2 input (P2 fb) fb s') as [? ?|?|?]; try contradiction. right; right. exact I. }
  destruct Z as [Z|[Z|Z]]; [discriminate | rewrite Z; right; left; reflexivity |].
  destruct (match_pre g2 input (P2 fb) fb s') as [r2 sA'|sA'|w2]; try contradiction.
  destruct Z as (EA & CTA). rewrite !term_regex. rewrite <- (eqn_pos _ _ EA).
  rewrite (Halt o1 o2 o3 (pos sA) AL).
  destruct (orc o1 (pos sA)) as [len|] eqn:O1.
  - destruct (Nat.eqb len 0) eqn:NZ.
    { apply Nat.eqb_eq in NZ. subst len. exfalso. apply (Hne o1 (pos sA) NE1 O1). }
    cbn [is_none]. apply (regex_hit i j c a b k1 len sA sA' s s' false G1 G2 Su Ka EA CTA NZ).
  - (* the first alternative fails; the second one re-runs Match.parse's skipping *)
    rewrite (parse_match g1 input orc fa k2 n2 false _ Gk2 M2), Kk2, Sk2.
    destruct (match_pre_again g1 (P1 fa) fa s r1 sA (pos sA) Ks CTA MP1) as (sC & MP2 & EC).
    rewrite MP2. rewrite term_regex. rewrite (eqn_pos _ _ EC).
    destruct (orc o2 (pos sA)) as [len|] eqn:O2.
    + destruct (Nat.eqb len 0) eqn:NZ.
      { apply Nat.eqb_eq in NZ. subst len. exfalso. apply (Hne o2 (pos sA) NE2 O2). }
      cbn [is_none]. rewrite <- (eqn_pos _ _ EC).
      apply (regex_hit i j c a b k2 len sC sA' s s' false G1 G2 Su Ka).
      * eapply eqn_trans; eassumption.
      * eapply ctx3_trans; [apply eqn_ctx; exact EC | exact CTA].
      * exact NZ.
    + cbn [choice_loop is_none]. right; right.
      split.
      * apply eqxn_set_pos_l. apply eqxn_reg_fail_l. apply eqxn_set_pos_l. apply eqxn_reg_fail_l.
        apply eqn_eqxn. apply eqn_sym. apply eqn_sym. eapply eqn_trans; [exact EC|].
        eapply eqn_trans; [exact EA|]. apply eqn_sym. apply reg_fail_eqn.
      * split.
        -- eapply ctx3_trans; [apply ctx3_set_pos|]. eapply ctx3_trans; [apply ctx3_reg_fail|].
           eapply ctx3_trans; [apply ctx3_set_pos|]. eapply ctx3_trans; [apply ctx3_reg_fail|].
           eapply ctx3_trans; [apply eqn_ctx; exact EC | exact CTA].
        -- split; [intros _; apply pos_set_pos|]. unfold nonterminal. rewrite G2, Mb. discriminate.
Qed.

(* ---------------- one regex match against an ordered choice of two regex matches of the SECOND grammar,
   each possibly under a unit wrapper sequence (weak mode) *)
Lemma match_pre_again2 g rec k z r sA rec' k' zB :
  skipws z = true -> ctx3 sA z -> match_pre g input rec k z = Ok r sA ->
  eqxn zB sA -> pos zB = pos z ->
  exists sC, match_pre g input rec' k' zB = Ok RNone sC /\ eqn sC sA.
Proof.
  intros Kz (CW & CK & CI) H EX ZP.
  assert (ZF : ws zB = ws sA /\ skipws zB = skipws sA /\ in_cmt zB = in_cmt sA /\ cpos zB = cpos sA).
  { clear - EX. destruct zB, sA. unfold eqxn, set_nm, set_pos in EX. simpl in *. inversion EX; subst. repeat split. }
  destruct ZF as (ZW0 & ZK0 & ZI0 & ZC).
  assert (ZK : skipws zB = true) by congruence.
  assert (ZW : ws zB = ws z) by congruence.
  assert (ZI : in_cmt zB = in_cmt z) by congruence.
  assert (BACK : forall q, eqn (set_pos (pos sA) (set_pos q zB)) sA).
  { clear - EX. intro q. destruct zB, sA. unfold eqxn, eqn, set_nm, set_pos in *. simpl in *. inversion EX; subst. reflexivity. }
  set (q := skip_ws_from (ws z) (skipn (pos z) input) (pos z)).
  assert (M1 : maybe_skip_ws input z = set_pos q z).
  { unfold maybe_skip_ws, do_skip_ws. rewrite Kz. reflexivity. }
  assert (M2 : maybe_skip_ws input zB = set_pos q zB).
  { unfold maybe_skip_ws, do_skip_ws. rewrite ZK, ZW, ZP. reflexivity. }
  unfold match_pre in *. rewrite M1 in H. rewrite M2. clear M1 M2.
  cbn [skipws pos cpos in_cmt set_pos] in *. rewrite Kz in H. rewrite ZK, ZC, ZI.
  destruct (lookup q (cpos z)) as [p'|] eqn:LK.
  - inversion H; subst sA. cbn [cpos set_pos]. rewrite LK.
    eexists. split; [reflexivity|]. apply (BACK q).
  - destruct (in_cmt z) eqn:IC.
    + inversion H; subst sA. cbn [cpos set_pos]. rewrite LK.
      eexists. split; [reflexivity|]. apply (BACK q).
    + destruct (parse_comments g input rec k (set_pos q z)) as [r2 s2|s2|w] eqn:PC; try discriminate.
      inversion H; subst sA. cbn [cpos set_cpos]. rewrite lookup_upd.
      eexists. split; [reflexivity|]. apply (BACK q).
Qed.

(* what one alternative (a regex match, possibly wrapped) returns, in terms of Match.parse's skipping *)
Definition alt_res (z : st) (o : nat) (mp res : out) : Prop :=
  match mp with
  | Ok _ sA =>
    match orc o (pos sA) with
    | Some len => Nat.eqb len 0 = false -> exists v, tt v /\ res = Ok v (set_pos (pos sA + len) sA)
    | None => exists sF, res = Fail sF /\ eqxn sF sA
    end
  | Fail sF => True
  | Abort w => res = Abort w
  end.

Lemma alt_shape k o : regex_alt g2 k = Some o ->
  forall fk z, P2 fk k false z = Abort 0 \/
  exists fm, fm < fk /\ alt_res z o (match_pre g2 input (P2 fm) fm z) (P2 fk k false z).
Proof.
  unfold regex_alt. intros RA fk z. destruct (regex_oid g2 k) as [o'|] eqn:RO.
  - inversion RA; subst o'. destruct (regex_oid_node g2 k o RO) as (nd & G & K & Su).
    destruct fk as [|f]; [left; reflexivity|]. right. exists f. split; [lia|].
    rewrite (parse_match g2 input orc f k nd false z G) by (rewrite K; reflexivity). rewrite K, Su.
    unfold alt_res. destruct (match_pre g2 input (P2 f) f z) as [r sA|sF|w]; [|exact I|reflexivity].
    rewrite term_regex. destruct (orc o (pos sA)) as [len|].
    + intro NZ. rewrite NZ. eexists. split; [apply tt_T | reflexivity].
    + eexists. split; [reflexivity|]. apply eqxn_reg_fail_l. apply eqxn_refl.
  - destruct (unit_kid g2 k) as [y|] eqn:U; [|discriminate].
    unfold unit_kid in U. destruct (seq_kids g2 k) as [[|y' [|? ?]]|] eqn:SK; try discriminate.
    inversion U; subst y'. destruct (seq_kids_node g2 k [y] SK) as (nd & G & K & Pl & Su & Ki).
    destruct (regex_oid_node g2 y o RA) as (ny & Gy & Ky & Suy).
    destruct fk as [|f]; [left; reflexivity|].
    pose proof (seq_node_cases g2 input orc f k nd false z G K Pl Su) as C. rewrite Ki in C. cbn [seq_loop] in C.
    destruct f as [|f]; [left; exact C|]. right. exists f. split; [lia|].
    rewrite (parse_match g2 input orc f y ny true z Gy) in C by (rewrite Ky; reflexivity). rewrite Ky, Suy in C.
    unfold alt_res. destruct (match_pre g2 input (P2 f) f z) as [r sA|sF|w]; [|exact I|exact C].
    rewrite term_regex in C. destruct (orc o (pos sA)) as [len|].
    + intro NZ. rewrite NZ in C. cbn [truthy app] in C. rewrite C.
      eexists. split; [|reflexivity]. apply post_list_tt; [exact Su | apply accok1; apply tt_T | discriminate].
    + eexists. split; [exact C|]. apply eqxn_set_pos_l. apply eqxn_set_pos_l. apply eqxn_reg_fail_l. apply eqxn_refl.
Qed.

Lemma regex_hit_r i j c a b v len t1 t2 s s' psq :
  get_node g1 i = Some a -> get_node g2 j = Some b -> n_suppress a = n_suppress b ->
  eqn t1 t2 -> ctx3 t1 s -> tt v ->
  orelW i j c s s'
    (Ok (if n_suppress a then RNone else RTree (T i (pos t1) len psq)) (set_pos (pos t1 + len) t1))
    (Ok (post j b (RList [v])) (set_pos (pos t1 + len) t2)).
Proof.
  intros G1 G2 Su E CT TV. right; right. split; [apply eqn_set_pos; exact E|].
  split; [eapply ctx3_trans; [apply ctx3_set_pos | exact CT]|].
  destruct (n_suppress a) eqn:Sa.
  - rewrite (post_suppress j b _ (eq_sym Su)). split; [apply vrel_none|]. split; [intros; apply fnn_none|].
    split; [intros; apply fnn_none|]. intros d q. rewrite (atrue_unsup ne g1 d i a G1 q) in Sa. discriminate.
  - assert (T2 : tt (post j b (RList [v]))).
    { apply post_list_tt; [symmetry; exact Su | apply accok1; exact TV | discriminate]. }
    split; [apply vrel_tt; [apply tt_T | exact T2]|]. split; [intros; apply fnn_of_tt; apply tt_T|].
    split; [intros; apply fnn_of_tt; exact T2|]. intros _ _. reflexivity.
Qed.

Lemma step_regex_choice_r i j c a b o3 fa fb psq1 psq2 s s' :
  fa + fb <= n -> get_node g1 i = Some a -> get_node g2 j = Some b ->
  n_kind a = KRegex o3 -> n_kind b = KChoice -> plain b = true -> n_suppress a = n_suppress b ->
  regex_choice_r g2 ne alts o3 b = true -> eqn s s' -> skipws s = true ->
  orelW i j c s s' (P1 (S fa) i psq1 s) (P2 (S fb) j psq2 s').
Proof.
  intros L G1 G2 Ka Kb Pb Su CR Es Ks. unfold regex_choice_r in CR.
  destruct (n_kids b) as [|k1 [|k2 [|? ?]]] eqn:Kib; try discriminate.
  destruct (regex_alt g2 k1) as [o1|] eqn:R1; [|discriminate]. destruct (regex_alt g2 k2) as [o2|] eqn:R2; [|discriminate].
  apply andb_true_iff in CR as [CR NE2]. apply andb_true_iff in CR as [AL NE1].
  apply in_alts_In in AL. apply in_ne in NE1. apply in_ne in NE2.
  assert (Ma : is_match_kind (n_kind a) = true) by (rewrite Ka; reflexivity).
  assert (Mb : is_match_kind (n_kind b) = false) by (rewrite Kb; reflexivity).
  assert (Ks' : skipws s' = true) by (destruct (eqn_ctx _ _ Es) as (_ & K & _); congruence).
  rewrite (parse_match g1 input orc fa i a psq1 s G1 Ma), Ka.
  rewrite (parse_nonmatch g2 input orc fb j b psq2 s' G2 Mb), (body_choice _ _ _ _ Kb Pb), Kib.
  cbn [choice_loop].
  destruct (alt_shape k1 o1 R1 fb s') as [A1|(fm1 & Lm1 & A1)]; [rewrite A1; right; left; reflexivity|].
  assert (L1 : fa + fm1 <= n) by lia.
  pose proof (match_pre_simW fa fm1 fa fm1 s s' L1 Es Ks) as Z. unfold alt_res in A1.
  destruct (match_pre g2 input (P2 fm1) fm1 s') as [r2 sA'|sA'|w2] eqn:MP2.
  2:{ destruct Z as [Z|[Z|Z]]; [rewrite Z; left; reflexivity | discriminate |].
      destruct (match_pre g1 input (P1 fa) fa s); contradiction. }
  2:{ rewrite A1. destruct Z as [Z|[Z|Z]]; [rewrite Z; left; reflexivity | inversion Z; subst; right; left; reflexivity |].
      destruct (match_pre g1 input (P1 fa) fa s) as [? ?|?|?]; try contradiction. right; right. exact I. }
  destruct Z as [Z|[Z|Z]]; [rewrite Z; left; reflexivity | discriminate |].
  destruct (match_pre g1 input (P1 fa) fa s) as [r1 sA|sA|w1]; try contradiction.
  destruct Z as (EA & CTA). rewrite term_regex. rewrite (Halt o1 o2 o3 (pos sA) AL).
  rewrite <- (eqn_pos _ _ EA) in A1.
  assert (CTA' : ctx3 sA' s') by (eapply ctx3_trans; [apply ctx3_sym; apply eqn_ctx; exact EA|];
                                  eapply ctx3_trans; [exact CTA | apply eqn_ctx; exact Es]).
  destruct (orc o1 (pos sA)) as [len|] eqn:O1.
  - destruct (Nat.eqb len 0) eqn:NZ.
    { apply Nat.eqb_eq in NZ. subst len. exfalso. apply (Hne o1 (pos sA) NE1 O1). }
    destruct (A1 eq_refl) as (v & TV & RES). rewrite RES. repeat (rewrite (tt_not_none v (proj1 TV)); cbv beta iota).
    apply (regex_hit_r i j c a b v len sA sA' s s' false G1 G2 Su EA CTA TV).
  - destruct A1 as (sF & RES & EXF). rewrite RES.
    destruct (alt_shape k2 o2 R2 fb (set_pos (pos s') sF)) as [A2|(fm2 & Lm2 & A2)]; [rewrite A2; right; left; reflexivity|].
    destruct (match_pre_again2 g2 (P2 fm1) fm1 s' r2 sA' (P2 fm2) fm2 (set_pos (pos s') sF) Ks' CTA' MP2
                               (eqxn_set_pos_l _ _ _ EXF) eq_refl) as (sC & MPC & EC).
    unfold alt_res in A2. rewrite MPC in A2. rewrite (eqn_pos _ _ EC), <- (eqn_pos _ _ EA) in A2.
    destruct (orc o2 (pos sA)) as [len|] eqn:O2.
    + destruct (Nat.eqb len 0) eqn:NZ.
      { apply Nat.eqb_eq in NZ. subst len. exfalso. apply (Hne o2 (pos sA) NE2 O2). }
      destruct (A2 eq_refl) as (v & TV & RES2). rewrite RES2. repeat (rewrite (tt_not_none v (proj1 TV)); cbv beta iota).
      apply (regex_hit_r i j c a b v len sA sC s s' false G1 G2 Su); try assumption.
      eapply eqn_trans; [exact EA | apply eqn_sym; exact EC].
    + destruct A2 as (sF2 & RES2 & EXF2). rewrite RES2. cbn [choice_loop is_none]. right; right.
      split.
      * apply eqxn_reg_fail_l. apply eqxn_set_pos_r. apply eqxn_reg_fail_r. apply eqxn_set_pos_r.
        apply (eqxn_trans _ sC); [apply eqn_eqxn; eapply eqn_trans; [exact EA | apply eqn_sym; exact EC]|].
        apply eqxn_sym. exact EXF2.
      * split; [eapply ctx3_trans; [apply ctx3_reg_fail | exact CTA]|].
        split; [unfold nonterminal; rewrite G1, Ma; discriminate | intros _; apply pos_set_pos].
Qed.

Lemma step_structW i j c a b fa fb psq1 psq2 s s' :
  fa + fb <= n -> get_node g1 i = Some a -> get_node g2 j = Some b -> struct_ok g1 g2 ne true alts R a b = true ->
  eqn s s' -> skipws s = true ->
  orelW i j c s s' (P1 (S fa) i psq1 s) (P2 (S fb) j psq2 s').
Proof.
  intros L G1 G2 H Es Ks. unfold struct_ok in H.
  apply andb_true_iff in H as [H HK]. apply andb_true_iff in H as [H Su]. apply andb_true_iff in H as [Pa Pb].
  apply eqb_prop in Su.
  destruct (n_kind a) eqn:Ka; destruct (n_kind b) eqn:Kb; try discriminate HK.
  - (* KSeq, KSeq *)
    apply (finishW i j c a b (anyT (n_kids a)) fa fb psq1 psq2 s s' G1 G2); try (rewrite ?Ka, ?Kb; reflexivity); try assumption.
    { intros [d q]. apply (atrue_seq0 g1 ne d i a G1 Ka q). }
    rewrite (body_seq _ _ _ _ Ka Pa), (body_seq _ _ _ _ Kb Pb).
    pose proof (seq_align_simW _ _ _ fa fb L HK true true [] [] s s' Es Ks) as Z.
    destruct Z as [Z|[Z|Z]]; [rewrite Z; left; reflexivity | rewrite Z; right; left; reflexivity |].
    destruct (seq_loop (P1 fa) true (n_kids a) [] s) as [r1 s1|s1|w1],
             (seq_loop (P2 fb) true (n_kids b) [] s') as [r2 s2|s2|w2]; try contradiction.
    + destruct Z as (E & CT & d1 & d2 & E1 & E2 & D & F). cbn [app] in E1, E2. subst r1 r2.
      destruct D as (D1 & D2 & D3). right; right.
      destruct d1 as [|v1 d1], d2 as [|v2 d2].
      * split; [exact E|]. split; [exact CT | left]. split; [reflexivity|]. split; [reflexivity|].
        intro q. apply (F q). reflexivity.
      * exfalso. assert (X : v2 :: d2 = []) by (apply D3; reflexivity). discriminate.
      * exfalso. assert (X : v1 :: d1 = []) by (apply D3; reflexivity). discriminate.
      * split; [exact E|]. split; [exact CT|]. right; right; right. exists (v1 :: d1), (v2 :: d2).
        repeat split; try assumption; discriminate.
    + destruct Z as (E & CT). right; right.
      split; [apply eqxn_set_pos_l; apply eqxn_set_pos_r; exact E | eapply ctx3_trans; [apply ctx3_set_pos | exact CT]].
    + right; right. exact I.
  - (* KSeq, KPlus: x (s x')* against e+[t] *)
    destruct (n_kids a) as [|x [|st [|? ?]]] eqn:Kia; try discriminate HK.
    destruct (n_kids b) as [|e [|? ?]] eqn:Kib; try discriminate HK.
    destruct (n_sep b) as [t|] eqn:Seb; [|discriminate HK].
    destruct (star_sep g1 st) as [[s0 x']|] eqn:SS; [|discriminate HK].
    apply andb_true_iff in HK as [HK Ax']. apply andb_true_iff in HK as [HK Ax].
    apply andb_true_iff in HK as [HK Hs]. apply andb_true_iff in HK as [Hx Hx'].
    apply (finishW i j c a b True fa fb psq1 psq2 s s' G1 G2); try (rewrite ?Ka, ?Kb; reflexivity); try assumption;
      try (intros _; exact I).
    rewrite (body_seq _ _ _ _ Ka Pa). rewrite (body_rep (P2 fb) fb b e s' (or_intror Kb) Pb Kib). rewrite Kia, Kb, Seb.
    pose proof (sepform_coreW x st s0 x' e t fa fb fb true [] s s' L SS Hx Hx' Hs Ax Ax' Es Ks) as Z.
    destruct Z as [Z|[Z|Z]]; [rewrite Z; left; reflexivity | rewrite Z; right; left; reflexivity |].
    destruct (seq_loop (P1 fa) true [x; st] [] s) as [r1 s1|s1|w1],
             (rep_loop (P2 fb) e (Some t) true fb true [] s') as [r2 s2|s2|w2]; try contradiction.
    + destruct Z as (E & CT & d1 & d2 & E1 & E2 & D1 & D2 & N1 & N2). cbn [app] in E1. subst r1 r2.
      right; right. destruct d1 as [|v1 d1]; [congruence|].
      split; [exact E|]. split; [exact CT|]. right; right; right. exists (v1 :: d1), d2.
      repeat split; try assumption; discriminate.
    + destruct Z as (E & CT). right; right.
      split; [apply eqxn_set_pos_l; exact E | eapply ctx3_trans; [apply ctx3_set_pos | exact CT]].
    + right; right. exact I.
  - (* KChoice, KChoice *)
    apply andb_true_iff in HK as [HK C2]. apply andb_true_iff in HK as [HK C1].
    apply (finishW i j c a b True fa fb psq1 psq2 s s' G1 G2); try (rewrite ?Ka, ?Kb; reflexivity); try assumption;
      try (intros _; exact I).
    rewrite (body_choice _ _ _ _ Ka Pa), (body_choice _ _ _ _ Kb Pb). rewrite <- (eqn_pos _ _ Es).
    pose proof (choice_simW _ _ HK C1 C2 fa fb L (pos s) s s' Es Ks) as Z.
    destruct Z as [Z|[Z|Z]]; [rewrite Z; left; reflexivity | rewrite Z; right; left; reflexivity |].
    destruct (choice_loop (P1 fa) (pos s) (n_kids a) s) as [r1 s1|s1|w1],
             (choice_loop (P2 fb) (pos s) (n_kids b) s') as [r2 s2|s2|w2]; try contradiction.
    + destruct Z as (E & CT & [[E1 E2]|[T1 T2]]).
      * subst r1 r2. cbn [is_none]. right; right.
        split; [apply eqn_eqxn; apply eqn_reg_fail; exact E | eapply ctx3_trans; [apply ctx3_reg_fail | exact CT]].
      * rewrite (tt_not_none _ (proj1 T1)), (tt_not_none _ (proj1 T2)). right; right.
        split; [exact E|]. split; [exact CT|]. right; right; right. exists [r1], [r2].
        repeat split; try (apply accok1; assumption); discriminate.
    + right; right. exact I.
  - (* KChoice, KRegex: weak mode *)
    apply (step_choice_regex i j c a b oid fa fb psq1 psq2 s s' L G1 G2 Ka Kb Pa Su HK Es Ks).
  - (* KOpt *)
    destruct (n_kids a) as [|x [|? ?]] eqn:Kia; try discriminate HK.
    destruct (n_kids b) as [|y [|? ?]] eqn:Kib; try discriminate HK.
    apply andb_true_iff in HK as [HK C2]. apply andb_true_iff in HK as [HK C1].
    unfold cho_ok in C1, C2. rewrite Kia in C1. rewrite Kib in C2. cbn [forallb] in C1, C2.
    rewrite andb_true_r in C1, C2.
    apply (finishW i j c a b False fa fb psq1 psq2 s s' G1 G2); try (rewrite ?Ka, ?Kb; reflexivity); try assumption.
    { intros [d q]. apply (atrue_kind_false g1 ne d i a G1 (or_introl Ka) q). }
    unfold body. rewrite Ka, Kb, Kia, Kib. rewrite <- (eqn_pos _ _ Es).
    pose proof (kid_strongW fa fb x y L HK false false s s' Es Ks) as O.
    destruct O as [O|[O|O]]; [rewrite O; left; reflexivity | rewrite O; right; left; reflexivity |].
    destruct (P1 fa x false s) as [r1 s1|s1|w1], (P2 fb y false s') as [r2 s2|s2|w2]; try contradiction.
    + destruct O as (E & CT & V & N1 & N2 & AT). destruct V as (Gd1 & Gd2 & T & Nn). specialize (Nn eq_refl).
      right; right. split; [exact E|]. split; [exact CT|]. destruct (is_none r1) eqn:I1.
      * right; left. destruct r1; try discriminate. destruct r2; try discriminate.
        split; [reflexivity|]. split; [reflexivity|]. intro F; exact F.
      * right; right; right. exists [r1], [r2].
        assert (T1 : tt r1) by (apply fnn_tt; [apply (N1 EDEPTH C1) | assumption | assumption]).
        assert (T2 : tt r2) by (apply fnn_tt; [apply (N2 EDEPTH C2) | assumption | congruence]).
        repeat split; try (apply accok1; assumption); discriminate.
    + destruct O as (E & CT & _). right; right.
      split; [apply eqxn_set_pos; exact E|]. split; [eapply ctx3_trans; [apply ctx3_set_pos | exact CT]|].
      left. split; [reflexivity|]. split; [reflexivity|]. intro F; exact F.
    + right; right. exact I.
  - (* KStar *)
    destruct (n_kids a) as [|x [|? ?]] eqn:Kia; try discriminate HK.
    destruct (n_kids b) as [|y [|? ?]] eqn:Kib; try discriminate HK.
    apply andb_true_iff in HK as [HK HS].
    apply (finishW i j c a b False fa fb psq1 psq2 s s' G1 G2); try (rewrite ?Ka, ?Kb; reflexivity); try assumption.
    { intros [d q]. apply (atrue_kind_false g1 ne d i a G1 (or_intror Ka) q). }
    rewrite (body_rep (P1 fa) fa a x s (or_introl Ka) Pa Kia), (body_rep (P2 fb) fb b y s' (or_introl Kb) Pb Kib).
    rewrite Ka, Kb.
    assert (SR : sep_relW (n_sep a) (n_sep b)).
    { unfold sep_ok in HS. unfold sep_relW. destruct (n_sep a), (n_sep b); try discriminate; auto. }
    pose proof (rep_simW x y (n_sep a) (n_sep b) false fa fb L HK SR fa fb true [] [] s s' Es Ks) as Z.
    destruct Z as [Z|[Z|Z]]; [rewrite Z; left; reflexivity | rewrite Z; right; left; reflexivity |].
    destruct (rep_loop (P1 fa) x (n_sep a) false fa true [] s) as [r1 s1|s1|w1],
             (rep_loop (P2 fb) y (n_sep b) false fb true [] s') as [r2 s2|s2|w2]; try contradiction.
    + destruct Z as (E & CT & d1 & d2 & E1 & E2 & D & _). cbn [app] in E1, E2. subst r1 r2.
      destruct D as (D1 & D2 & D3). right; right. split; [exact E|]. split; [exact CT|].
      destruct d1 as [|v1 d1], d2 as [|v2 d2].
      * right; right; left. repeat split; try (left; assumption). intro F; exact F.
      * exfalso. assert (X : v2 :: d2 = []) by (apply D3; reflexivity). discriminate.
      * exfalso. assert (X : v1 :: d1 = []) by (apply D3; reflexivity). discriminate.
      * right; right; right. exists (v1 :: d1), (v2 :: d2). repeat split; try assumption; discriminate.
    + right; right. exact Z.
    + right; right. exact I.
  - (* KPlus *)
    destruct (n_kids a) as [|x [|? ?]] eqn:Kia; try discriminate HK.
    destruct (n_kids b) as [|y [|? ?]] eqn:Kib; try discriminate HK.
    apply andb_true_iff in HK as [HK HS].
    apply (finishW i j c a b (exists d, atrue g1 ne d x = true) fa fb psq1 psq2 s s' G1 G2);
      try (rewrite ?Ka, ?Kb; reflexivity); try assumption.
    { intros [d q]. apply (atrue_plus g1 ne d i a x G1 Ka Kia q). }
    rewrite (body_rep (P1 fa) fa a x s (or_intror Ka) Pa Kia), (body_rep (P2 fb) fb b y s' (or_intror Kb) Pb Kib).
    rewrite Ka, Kb.
    assert (SR : sep_relW (n_sep a) (n_sep b)).
    { unfold sep_ok in HS. unfold sep_relW. destruct (n_sep a), (n_sep b); try discriminate; auto. }
    pose proof (rep_simW x y (n_sep a) (n_sep b) true fa fb L HK SR fa fb true [] [] s s' Es Ks) as Z.
    destruct Z as [Z|[Z|Z]]; [rewrite Z; left; reflexivity | rewrite Z; right; left; reflexivity |].
    destruct (rep_loop (P1 fa) x (n_sep a) true fa true [] s) as [r1 s1|s1|w1],
             (rep_loop (P2 fb) y (n_sep b) true fb true [] s') as [r2 s2|s2|w2]; try contradiction.
    + destruct Z as (E & CT & d1 & d2 & E1 & E2 & D & F). cbn [app] in E1, E2. subst r1 r2.
      destruct D as (D1 & D2 & D3). right; right. split; [exact E|]. split; [exact CT|].
      destruct d1 as [|v1 d1], d2 as [|v2 d2].
      * right; right; left. repeat split; try (right; assumption).
        intro q. apply F; [|reflexivity]. split; [reflexivity|]. split; [reflexivity | exact q].
      * exfalso. assert (X : v2 :: d2 = []) by (apply D3; reflexivity). discriminate.
      * exfalso. assert (X : v1 :: d1 = []) by (apply D3; reflexivity). discriminate.
      * right; right; right. exists (v1 :: d1), (v2 :: d2). repeat split; try assumption; discriminate.
    + right; right. exact Z.
    + right; right. exact I.
  - (* KEOF *)
    apply (step_termW i j c a b fa fb psq1 psq2 s s' L G1 G2); try assumption; rewrite ?Ka, ?Kb; reflexivity.
  - (* KStr *)
    destruct (term_eqb_eq _ _ HK) as [E _].
    apply (step_termW i j c a b fa fb psq1 psq2 s s' L G1 G2); try assumption; rewrite ?Ka, ?Kb; try reflexivity; exact E.
  - (* KRegex, KChoice: weak mode *)
    apply (step_regex_choice_r i j c a b oid fa fb psq1 psq2 s s' L G1 G2 Ka Kb Pb Su HK Es Ks).
  - (* KRegex *)
    destruct (term_eqb_eq _ _ HK) as [E _].
    apply (step_termW i j c a b fa fb psq1 psq2 s s' L G1 G2); try assumption; rewrite ?Ka, ?Kb; try reflexivity; exact E.
Qed.

Lemma step_unwrapW i j c y fa fb psq1 psq2 s s' :
  S fa + fb <= n -> unit_kid g2 j = Some y -> pin_any R i y = true ->
  (negb c || efree g1 EDEPTH i)%bool = true -> eqn s s' -> skipws s = true ->
  orelW i j c s s' (P1 (S fa) i psq1 s) (P2 (S fb) j psq2 s').
Proof.
  intros L U H Hc Es Ks. unfold unit_kid in U. destruct (seq_kids g2 j) as [[|y' [|? ?]]|] eqn:SK; try discriminate.
  inversion U; subst y'. destruct (seq_kids_node g2 j [y] SK) as (nd & G & K & Pl & Su & Ki).
  pose proof (seq_node_cases g2 input orc fb j nd psq2 s' G K Pl Su) as C. rewrite Ki in C. cbn [seq_loop] in C.
  pose proof (kid_anyW (S fa) fb i y L H psq1 true s s' Es Ks) as O.
  destruct O as [O|[O|O]]; [left; exact O | rewrite O in C; right; left; exact C |].
  destruct (P1 (S fa) i psq1 s) as [r1 s1|s1|w1], (P2 fb y true s') as [r2 s2|s2|w2]; try contradiction.
  - destruct O as (E & CT & V & N1 & N2 & AT). destruct V as (Gd1 & Gd2 & T & _). right; right.
    destruct (truthy r2) eqn:T2; cbn [app] in C; rewrite C.
    + assert (TT : tt (post j nd (RList [r2]))).
      { apply post_list_tt; [exact Su | apply accok1; split; [exact T2 | apply Gd2; exact T2] | discriminate]. }
      split; [exact E|]. split; [exact CT|]. split.
      * split; [exact Gd1|]. split; [apply tt_good; exact TT|]. split; [destruct TT; congruence|].
        intros _. rewrite (tt_not_none r1 T), (tt_not_none _ (proj1 TT)). reflexivity.
      * split; [exact N1 | split; [intros; apply fnn_of_tt; exact TT | exact AT]].
    + split; [exact E|]. split; [exact CT|]. split.
      * split; [exact Gd1|]. split; [apply good_falsy; reflexivity|]. split; [exact T|].
        intro Ec. subst c. cbn [negb orb] in Hc. rewrite (N1 EDEPTH Hc T). reflexivity.
      * split; [exact N1 | split; [intros; apply fnn_none | exact AT]].
  - rewrite C. destruct O as (E & CT & Q1 & Q2). right; right.
    split; [apply eqxn_set_pos_r; apply eqxn_set_pos_r; exact E|]. split; [exact CT|].
    split; [exact Q1 | intros _; apply pos_set_pos].
  - rewrite C. right; right. exact I.
Qed.

Lemma step_unwrap_lW i j c x fa fb psq1 psq2 s s' :
  fa + S fb <= n -> unit_kid g1 i = Some x -> pin_any R x j = true ->
  (negb c || efree g2 EDEPTH j)%bool = true -> eqn s s' -> skipws s = true ->
  orelW i j c s s' (P1 (S fa) i psq1 s) (P2 (S fb) j psq2 s').
Proof.
  intros L U H Hc Es Ks. unfold unit_kid in U. destruct (seq_kids g1 i) as [[|x' [|? ?]]|] eqn:SK; try discriminate.
  inversion U; subst x'. destruct (seq_kids_node g1 i [x] SK) as (nd & G & K & Pl & Su & Ki).
  pose proof (seq_node_cases g1 input orc fa i nd psq1 s G K Pl Su) as C. rewrite Ki in C. cbn [seq_loop] in C.
  pose proof (kid_anyW fa (S fb) x j L H true psq2 s s' Es Ks) as O.
  destruct O as [O|[O|O]]; [rewrite O in C; left; exact C | right; left; exact O |].
  destruct (P1 fa x true s) as [r1 s1|s1|w1], (P2 (S fb) j psq2 s') as [r2 s2|s2|w2]; try contradiction.
  - destruct O as (E & CT & V & N1 & N2 & AT). destruct V as (Gd1 & Gd2 & T & _). right; right.
    destruct (truthy r1) eqn:T1; cbn [app] in C; rewrite C.
    + assert (TT : tt (post i nd (RList [r1]))).
      { apply post_list_tt; [exact Su | apply accok1; split; [exact T1 | apply Gd1; exact T1] | discriminate]. }
      split; [exact E|]. split; [exact CT|]. split.
      * split; [apply tt_good; exact TT|]. split; [exact Gd2|]. split; [destruct TT; congruence|].
        intros _. rewrite (tt_not_none _ (proj1 TT)), (tt_not_none r2 (eq_sym T)). reflexivity.
      * split; [intros; apply fnn_of_tt; exact TT|]. split; [exact N2 | intros _ _; apply TT].
    + split; [exact E|]. split; [exact CT|]. split.
      * split; [apply good_falsy; reflexivity|]. split; [exact Gd2|]. split; [exact T|].
        intro Ec. subst c. cbn [negb orb] in Hc. rewrite (N2 EDEPTH Hc (eq_sym T)). reflexivity.
      * split; [intros; apply fnn_none|]. split; [exact N2|].
        intros d q. destruct (atrue_seq0 g1 ne d i nd G K q) as [d' q']. rewrite Ki in q'. cbn [existsb] in q'.
        rewrite orb_false_r in q'. specialize (AT d' q'). congruence.
  - rewrite C. destruct O as (E & CT & Q1 & Q2). right; right.
    split; [apply eqxn_set_pos_l; apply eqxn_set_pos_l; exact E|].
    split; [eapply ctx3_trans; [apply ctx3_set_pos|]; eapply ctx3_trans; [apply ctx3_set_pos | exact CT]|].
    split; [intros _; apply pos_set_pos | exact Q2].
  - rewrite C. right; right. exact I.
Qed.

Lemma stepW fa fb : fa + fb <= S n -> simW fa fb.
Proof.
  intros L i j c HIn psq1 psq2 s s' Es Ks. destruct (HR _ HIn) as [Hl|Hs]; [|apply Hs; assumption].
  destruct fa as [|fa]; [left; reflexivity|]. destruct fb as [|fb]; [right; left; reflexivity|].
  unfold local_ok in Hl. destruct (get_node g1 i) as [a|] eqn:G1; [|discriminate].
  destruct (get_node g2 j) as [b|] eqn:G2; [|discriminate].
  apply orb_true_iff in Hl as [Hl|Hl]; [apply orb_true_iff in Hl as [Hl|Hl]|].
  - apply (step_structW i j c a b); try assumption. lia.
  - destruct (unit_kid g2 j) as [y|] eqn:U; [|discriminate]. apply andb_true_iff in Hl as [H1 H2].
    apply (step_unwrapW i j c y); try assumption. lia.
  - destruct (unit_kid g1 i) as [x|] eqn:U; [|discriminate]. apply andb_true_iff in Hl as [H1 H2].
    apply (step_unwrap_lW i j c x); try assumption. lia.
Qed.

End StepW.

Lemma sim_allW n : forall fa fb, fa + fb <= n -> simW fa fb.
Proof.
  induction n as [|n IHn]; intros fa fb L.
  - assert (fa = 0) by lia. subst. intros i j c _ psq1 psq2 s s' _ _. left. reflexivity.
  - apply (stepW n IHn). exact L.
Qed.

(* outcomes of whole runs: acceptance only *)
Definition outcome_acc (o1 o2 : outcome) : Prop :=
  o1 = Aborted 0 \/ o2 = Aborted 0 \/
  match o1, o2 with
  | Parsed _, Parsed _ => True
  | SyntaxErr _, SyntaxErr _ => True
  | Aborted _, Aborted _ => True
  | _, _ => False
  end.

Lemma run_relW cfg f1 f2 : c_skipws cfg = true ->
  outcome_acc (run g1 cfg orc false f1 input) (run g2 cfg orc false f2 input).
Proof.
  intro SK. unfold run. pose proof HF as F. unfold frame_ok in F. apply andb_true_iff in F as [F _].
  apply (pin_any_In R) in F as [c F].
  pose proof (sim_allW (f1 + f2) f1 f2 (le_n _) _ _ _ F false false (init_st cfg) (init_st cfg) (eqn_refl _) SK) as O.
  destruct O as [O|[O|O]]; [rewrite O; left; reflexivity | rewrite O; right; left; reflexivity |].
  destruct (P1 f1 (g_top g1) false (init_st cfg)) as [r1 s1|s1|w1],
           (P2 f2 (g_top g2) false (init_st cfg)) as [r2 s2|s2|w2]; try contradiction;
    right; right; exact I.
Qed.

End SoundW.

(* ---------------------------------------------------------------- the checker, weak mode *)
Definition orc_alts (alts : list (nat * nat * nat)) (orc : nat -> nat -> option nat) : Prop :=
  forall o1 o2 o3 p, In (o1, o2, o3) alts ->
  orc o3 p = match orc o1 p with Some l => Some l | None => orc o2 p end.

Theorem rel_sound_acc g1 g2 ne alts R input orc :
  orc_nonempty ne orc -> orc_alts alts orc ->
  frame_ok g1 g2 R = true ->
  (forall p, In p R -> local_ok g1 g2 ne true alts R p = true \/ sem_okW g1 g2 ne input orc p) ->
  forall cfg f1 f2, c_skipws cfg = true ->
  outcome_acc (run g1 cfg orc false f1 input) (run g2 cfg orc false f2 input).
Proof. intros Hne Halt HF HR cfg f1 f2 SK. apply (run_relW g1 g2 ne alts R input orc Hne Halt HR HF cfg f1 f2 SK). Qed.

Theorem diffs_sound_acc ne alts seeds g1 g2 :
  peg_equiv_diffs_acc ne alts seeds g1 g2 = [] ->
  forall input orc, orc_nonempty ne orc -> orc_alts alts orc ->
  forall cfg f1 f2, c_skipws cfg = true ->
  run g1 cfg orc false f1 input <> Aborted 0 -> run g2 cfg orc false f2 input <> Aborted 0 ->
  accepts (run g1 cfg orc false f1 input) = accepts (run g2 cfg orc false f2 input).
Proof.
  unfold peg_equiv_diffs_acc, peg_equiv_diffs_gen. intros H input orc Hne Halt cfg f1 f2 SK A1 A2.
  apply app_eq_nil in H as [H1 H2].
  assert (O : outcome_acc (run g1 cfg orc false f1 input) (run g2 cfg orc false f2 input)).
  { apply (rel_sound_acc g1 g2 ne alts (reach_all g1 g2 seeds) input orc Hne Halt); [| |exact SK].
    - destruct (frame_ok g1 g2 (reach_all g1 g2 seeds)); [reflexivity | discriminate].
    - intros p HIn. left. pose proof (filter_nil _ _ H2 p HIn) as E. cbv beta in E.
      destruct (local_ok g1 g2 ne true alts (reach_all g1 g2 seeds) p); [reflexivity | simpl in E; discriminate]. }
  destruct O as [O|[O|O]]; [contradiction | contradiction |].
  destruct (run g1 cfg orc false f1 input), (run g2 cfg orc false f2 input); try contradiction; reflexivity.
Qed.

(* ---------------------------------------------------------------- small witnesses *)
(* Model: /r0/ | /r1/   against   Model: /r2/   where r2 matches like r0, else like r1 *)
Definition g_c1 : grammar :=
  mkGrammar [mk KSeq [1; 4] true; mk KChoice [2; 3] true; mk (KRegex 0) [] false; mk (KRegex 1) [] false;
             mk KEOF [] false] 0 None.
Definition g_c2 : grammar := mkGrammar [mk KSeq [1; 2] true; mk (KRegex 2) [] true; mk KEOF [] false] 0 None.
Definition orc_ex (o p : nat) : option nat :=
  match o with 0 => None | _ => if Nat.eqb p 0 then Some 1 else None end.

Lemma witness_alts :
  orc_nonempty [0; 1] orc_ex /\ orc_alts [(0, 1, 2)] orc_ex /\
  peg_equiv_diffs_acc [0; 1] [(0, 1, 2)] [] g_c1 g_c2 = [] /\
  peg_equiv_diffs [0; 1] [] g_c1 g_c2 <> [] /\
  accepts (run g_c1 cfg0 orc_ex false 30 [98]%N) = true /\ accepts (run g_c2 cfg0 orc_ex false 30 [98]%N) = true /\
  accepts (run g_c1 cfg0 orc_ex false 30 [98; 98]%N) = false /\ accepts (run g_c2 cfg0 orc_ex false 30 [98; 98]%N) = false.
Proof.
  split; [|split].
  - intros o p _ H. unfold orc_ex in H. destruct o; [discriminate|]. destruct (Nat.eqb p 0); discriminate.
  - intros o1 o2 o3 p [H|[]]. inversion H; subst. reflexivity.
  - vm_compute. repeat split. discriminate.
Qed.

(* `(x ',')* x` and `x+[',']` differ AS NODES (after "x," the first fails, the second succeeds on "x"), although
   the two grammars reject "x," alike: the checker rightly reports the pair; it can only be equal in context *)
Definition g_t1 : grammar :=
  mkGrammar [mk KSeq [1; 6] true; mk KSeq [2; 4] true; mk KStar [3] false; mk KSeq [4; 5] false;
             mk (KStr [120]%N None) [] false; mk (KStr [44]%N None) [] false; mk KEOF [] false] 0 None.
Definition g_t2 : grammar :=
  mkGrammar [mk KSeq [1; 4] true; mkNode KPlus [2] (Some 3) false [] true false None None; mk (KStr [120]%N None) [] false;
             mk (KStr [44]%N None) [] false; mk KEOF [] false] 0 None.

Definition is_fail (o : out) : bool := match o with Fail _ => true | _ => false end.
Definition ok_pos (o : out) : option nat := match o with Ok _ s => Some (pos s) | _ => None end.

Lemma tail_form_differs :
  peg_equiv_diffs_acc [] [] [] g_t1 g_t2 <> [] /\
  is_fail (parse g_t1 [120; 44]%N no_orc false 40 1 false (init_st cfg0)) = true /\
  ok_pos (parse g_t2 [120; 44]%N no_orc false 40 1 false (init_st cfg0)) = Some 1 /\
  accepts (run g_t1 cfg0 no_orc false 40 [120; 44]%N) = false /\ accepts (run g_t2 cfg0 no_orc false 40 [120; 44]%N) = false /\
  accepts (run g_t1 cfg0 no_orc false 40 [120; 44; 120]%N) = true /\ accepts (run g_t2 cfg0 no_orc false 40 [120; 44; 120]%N) = true.
Proof. vm_compute. repeat split. discriminate. Qed.

(* Model: /r2/   against   Model: w=/r0/ | /r1/   (first alternative under a unit wrapper, choice on the second grammar) *)
Definition g_c3 : grammar :=
  mkGrammar [mk KSeq [1; 5] true; mk KChoice [2; 4] true; mk KSeq [3] true; mk (KRegex 0) [] false; mk (KRegex 1) [] false;
             mk KEOF [] false] 0 None.

Lemma witness_alts_r :
  peg_equiv_diffs_acc [0; 1] [(0, 1, 2)] [] g_c2 g_c3 = [] /\
  peg_equiv_diffs [0; 1] [] g_c2 g_c3 <> [] /\
  accepts (run g_c2 cfg0 orc_ex false 30 [98]%N) = true /\ accepts (run g_c3 cfg0 orc_ex false 30 [98]%N) = true /\
  accepts (run g_c2 cfg0 orc_ex false 30 [98; 98]%N) = false /\ accepts (run g_c3 cfg0 orc_ex false 30 [98; 98]%N) = false.
Proof. vm_compute. repeat split. discriminate. Qed.
