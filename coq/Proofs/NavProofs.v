(* C05 — proofs about Model/Nav.v *)
From TxV Require Import Core.Base Model.Nav.

(* ------------------------------------------------------------------ induction on object trees *)
Section ObjInd.
  Variable P : obj -> Prop.
  Hypothesis HPrim : forall k t, P (Prim k t).
  Hypothesis HRef : forall t, P (Ref t).
  Hypothesis HNode : forall id c slots,
    Forall (fun mvs : ameta * list obj => Forall P (snd mvs)) slots -> P (Node id c slots).

  Fixpoint obj_ind' (o : obj) : P o :=
    match o with
    | Prim k t => HPrim k t
    | Ref t => HRef t
    | Node id c slots =>
        HNode id c slots
          ((fix slots_ind (ss : list (ameta * list obj))
              : Forall (fun mvs : ameta * list obj => Forall P (snd mvs)) ss :=
              match ss with
              | [] => Forall_nil _
              | mvs :: ss' =>
                  Forall_cons mvs
                    ((fix vals_ind (vs : list obj) : Forall P vs :=
                        match vs with
                        | [] => Forall_nil _
                        | v :: vs' => Forall_cons v (obj_ind' v) (vals_ind vs')
                        end) (snd mvs))
                    (slots_ind ss')
              end) slots)
    end.
End ObjInd.

(* ------------------------------------------------------------------ list facts *)
Notation ids l := (map obj_id l).

Lemma NoDup_app_iff {A} (a b : list A) :
  NoDup (a ++ b) <-> NoDup a /\ NoDup b /\ (forall x, In x a -> In x b -> False).
Proof.
  induction a as [|y a IH]; simpl.
  - split; [intro H; repeat split; [constructor | assumption | intros x []] | intros [_ [H _]]; assumption].
  - split.
    + intro H. inversion H as [|y' l' Hy Hab]; subst. apply IH in Hab as [Ha [Hb Hd]].
      repeat split.
      * constructor; [intro Hin; apply Hy; apply in_or_app; left; assumption | assumption].
      * assumption.
      * intros x [Hx|Hx] Hxb; [subst; apply Hy; apply in_or_app; right; assumption | eapply Hd; eauto].
    + intros [Ha [Hb Hd]]. inversion Ha as [|y' l' Hy Ha']; subst. constructor.
      * intro Hin. apply in_app_or in Hin as [Hin|Hin]; [contradiction | eapply Hd; [left; reflexivity | exact Hin]].
      * apply IH. repeat split; [assumption | assumption | intros x Hx Hxb; eapply Hd; [right; exact Hx | exact Hxb]].
Qed.

Lemma filter_ids_incl (sel : obj -> bool) l x : In x (ids (filter sel l)) -> In x (ids l).
Proof.
  intro H. apply in_map_iff in H as [o [E Ho]]. apply filter_In in Ho as [Ho _].
  apply in_map_iff. exists o. split; assumption.
Qed.

Lemma mem_N_false x l : ~ In x l -> mem_N x l = false.
Proof.
  intro H. unfold mem_N. destruct (existsb (N.eqb x) l) eqn:E; [|reflexivity].
  apply existsb_exists in E as [y [Hy Ey]]. apply N.eqb_eq in Ey. subst. contradiction.
Qed.

Lemma mem_N_true x l : In x l -> mem_N x l = true.
Proof.
  intro H. unfold mem_N. apply existsb_exists. exists x. split; [assumption | apply N.eqb_refl].
Qed.

(* ------------------------------------------------------------------ unfolding the walk *)
Definition wval (sf : obj -> bool) (cf : bool) (v : obj) : list obj := if sf v then walk sf cf v else [].
Definition wslot (sf : obj -> bool) (cf : bool) (mvs : ameta * list obj) : list obj :=
  if acont (fst mvs) then
    if amany (fst mvs) then flat_map (wval sf cf) (snd mvs)
    else match snd mvs with [] => [] | v :: _ => wval sf cf v end
  else [].
Definition below (sf : obj -> bool) (cf : bool) (slots : list (ameta * list obj)) : list obj :=
  flat_map (wslot sf cf) slots.

Lemma walk_node sf cf id c slots :
  walk sf cf (Node id c slots) =
  if cf then below sf cf slots ++ [Node id c slots] else Node id c slots :: below sf cf slots.
Proof. reflexivity. Qed.

Lemma wslot_vals sf cf m vs :
  wslot sf cf (m, vs) = if acont m then flat_map (wval sf cf) (slot_vals m vs) else [].
Proof.
  unfold wslot, slot_vals; simpl. destruct (acont m); [|reflexivity].
  destruct (amany m); [reflexivity|]. destruct vs as [|v vs]; simpl; [reflexivity|].
  rewrite app_nil_r. reflexivity.
Qed.

(* ------------------------------------------------------------------ follow = filter of the walk *)
Definition ext (sel : obj -> bool) (st : state) (l : list obj) : state :=
  (fst st ++ filter sel l, rev (ids (filter sel l)) ++ snd st).

Definition ok (l : list obj) (st : state) : Prop :=
  NoDup (ids l) /\ forall x, In x (ids l) -> ~ In x (snd st).

Lemma ext_nil sel st : ext sel st [] = st.
Proof. unfold ext; simpl. rewrite app_nil_r. destruct st; reflexivity. Qed.

Lemma ext_app sel st l1 l2 : ext sel (ext sel st l1) l2 = ext sel st (l1 ++ l2).
Proof.
  unfold ext; simpl. rewrite filter_app, map_app, rev_app_distr, !app_assoc. reflexivity.
Qed.

Lemma ext_one sel st o :
  ext sel st [o] = if sel o then collect o (obj_id o) st else st.
Proof.
  unfold ext, collect; simpl. destruct (sel o); simpl.
  - reflexivity.
  - rewrite app_nil_r. destruct st; reflexivity.
Qed.

Lemma ok_app_l l1 l2 st : ok (l1 ++ l2) st -> ok l1 st.
Proof.
  intros [Hn Hd]. rewrite map_app in Hn. apply NoDup_app_iff in Hn as [Ha [_ _]].
  split; [assumption|]. intros x Hx. apply Hd. rewrite map_app. apply in_or_app; left; assumption.
Qed.

Lemma ok_app_r sel l1 l2 st : ok (l1 ++ l2) st -> ok l2 (ext sel st l1).
Proof.
  intros [Hn Hd]. rewrite map_app in Hn. apply NoDup_app_iff in Hn as [_ [Hb Hdis]].
  split; [assumption|]. intros x Hx Hin. unfold ext in Hin; simpl in Hin.
  apply in_app_or in Hin as [Hin|Hin].
  - apply in_rev in Hin. apply filter_ids_incl in Hin. eapply Hdis; eauto.
  - eapply Hd; [|exact Hin]. rewrite map_app. apply in_or_app; right; assumption.
Qed.

Section FollowWalk.
  Variables sel sf : obj -> bool.
  Variable cf : bool.

  Definition follow_ok (v : obj) : Prop :=
    forall st, ok (walk sf cf v) st -> follow sel sf cf v st = ext sel st (walk sf cf v).

  Lemma follow_elems_walk vs :
    Forall follow_ok vs ->
    forall st, ok (flat_map (wval sf cf) vs) st ->
    follow_elems (follow sel sf cf) sf vs st = ext sel st (flat_map (wval sf cf) vs).
  Proof.
    induction 1 as [|v vs Hv Hvs IH]; intros st Hok; simpl.
    - symmetry; apply ext_nil.
    - simpl in Hok. rewrite <- ext_app. rewrite <- IH by (eapply ok_app_r; exact Hok).
      f_equal. apply ok_app_l in Hok. unfold wval in *. destruct (sf v).
      + apply Hv; assumption.
      + symmetry; apply ext_nil.
  Qed.

  Lemma follow_attrs_walk slots :
    Forall (fun mvs : ameta * list obj => Forall follow_ok (snd mvs)) slots ->
    forall st, ok (below sf cf slots) st ->
    follow_attrs (follow sel sf cf) sf slots st = ext sel st (below sf cf slots).
  Proof.
    induction 1 as [|[m vs] slots Hm Hs IH]; intros st Hok; simpl.
    - symmetry; apply ext_nil.
    - unfold below in Hok; simpl in Hok. fold (below sf cf slots) in Hok.
      unfold below; simpl. fold (below sf cf slots).
      rewrite <- ext_app. rewrite <- IH by (eapply ok_app_r; exact Hok).
      f_equal. apply ok_app_l in Hok. unfold wslot in *; simpl in *.
      destruct (acont m); [|symmetry; apply ext_nil].
      destruct (amany m).
      + apply follow_elems_walk; assumption.
      + destruct vs as [|v vs']; [symmetry; apply ext_nil|].
        inversion Hm as [|v0 l0 Hv _]; subst. unfold wval in *. destruct (sf v).
        * apply Hv; assumption.
        * symmetry; apply ext_nil.
  Qed.

End FollowWalk.

Lemma follow_walk sel sf cf : forall o, follow_ok sel sf cf o.
Proof.
  induction o as [k t|t|id c slots IH] using obj_ind'; intros st Hok.
  - simpl. symmetry; apply ext_nil.
  - simpl. symmetry; apply ext_nil.
  - cbn [follow]. rewrite walk_node in *.
    assert (Hid : mem_N id (snd st) = false).
    { apply mem_N_false. destruct Hok as [_ Hd]. apply Hd. destruct cf.
      - rewrite map_app. apply in_or_app; right; simpl; left; reflexivity.
      - simpl; left; reflexivity. }
    rewrite Hid. destruct cf; simpl.
    + (* children first *)
      rewrite (follow_attrs_walk sel sf true slots IH st (ok_app_l _ _ _ Hok)).
      rewrite <- ext_app. rewrite ext_one. reflexivity.
    + change (Node id c slots :: below sf false slots) with ([Node id c slots] ++ below sf false slots) in *.
      rewrite <- ext_app.
      rewrite <- (follow_attrs_walk sel sf false slots IH _ (ok_app_r sel _ _ _ Hok)).
      rewrite ext_one. simpl. destruct (sel (Node id c slots)); reflexivity.
Qed.

Theorem get_children_walk sel sf cf root :
  NoDup (ids (walk sf cf root)) ->
  get_children sel root cf sf = filter sel (walk sf cf root).
Proof.
  intro Hn. unfold get_children. rewrite follow_walk.
  - reflexivity.
  - split; [assumption | intros x _ []].
Qed.

(* ------------------------------------------------------------------ membership in the walk *)
Lemma slot_vals_incl m vs v : In v (slot_vals m vs) -> In v vs.
Proof.
  unfold slot_vals. destruct (amany m); [auto|]. destruct vs as [|w vs]; simpl; [auto|].
  intros [->|[]]. left; reflexivity.
Qed.

Lemma IH_get (P : obj -> Prop) slots m vs v :
  Forall (fun mvs : ameta * list obj => Forall P (snd mvs)) slots ->
  In (m, vs) slots -> In v (slot_vals m vs) -> P v.
Proof.
  intros HF Hs Hv. rewrite Forall_forall in HF. specialize (HF _ Hs). simpl in HF.
  rewrite Forall_forall in HF. apply HF. eapply slot_vals_incl; exact Hv.
Qed.

Lemma in_below sf cf slots x :
  In x (below sf cf slots) <->
  exists m vs v, In (m, vs) slots /\ acont m = true /\ In v (slot_vals m vs) /\ sf v = true /\ In x (walk sf cf v).
Proof.
  unfold below. rewrite in_flat_map. split.
  - intros [[m vs] [Hin Hx]]. rewrite wslot_vals in Hx. destruct (acont m) eqn:Hc; [|contradiction].
    apply in_flat_map in Hx as [v [Hv Hx]]. unfold wval in Hx. destruct (sf v) eqn:Hs; [|contradiction].
    exists m, vs, v. auto.
  - intros [m [vs [v [H1 [H2 [H3 [H4 H5]]]]]]]. exists (m, vs). split; [assumption|].
    rewrite wslot_vals, H2. apply in_flat_map. exists v. split; [assumption|]. unfold wval. rewrite H4. assumption.
Qed.

Lemma in_walk_node sf cf id c slots x :
  In x (walk sf cf (Node id c slots)) <-> x = Node id c slots \/ In x (below sf cf slots).
Proof.
  rewrite walk_node. destruct cf.
  - rewrite in_app_iff. simpl. split; [intros [H|[H|[]]]; auto | intros [H|H]; auto].
  - simpl. split; intros [H|H]; auto.
Qed.

Lemma self_in_walk sf cf o : is_node o = true -> In o (walk sf cf o).
Proof. destruct o; simpl; try discriminate. intros _. apply in_walk_node. left; reflexivity. Qed.

Lemma walk_only_nodes sf cf o x : In x (walk sf cf o) -> is_node x = true.
Proof.
  revert x. induction o as [k t|t|id c slots IH] using obj_ind'; intros x Hx; try contradiction.
  apply in_walk_node in Hx as [->|Hx]; [reflexivity|].
  apply in_below in Hx as [m [vs [v [H1 [H2 [H3 [H4 H5]]]]]]].
  exact (IH_get _ _ _ _ _ IH H1 H3 x H5).
Qed.

Lemma walk_child sf cf o p c :
  In p (walk sf cf o) -> cont_child p c -> sf c = true -> In c (walk sf cf o).
Proof.
  revert p c. induction o as [k t|t|id cl slots IH] using obj_ind'; intros p c Hp Hc Hs; try contradiction.
  apply in_walk_node. right. apply in_below.
  apply in_walk_node in Hp as [->|Hp].
  - destruct Hc as [Hn [m [vs [H1 [H2 H3]]]]]. simpl in H1.
    exists m, vs, c. repeat split; try assumption. apply self_in_walk; assumption.
  - apply in_below in Hp as [m [vs [v [H1 [H2 [H3 [H4 H5]]]]]]].
    exists m, vs, v. repeat split; try assumption.
    exact (IH_get _ _ _ _ _ IH H1 H3 p c H5 Hc Hs).
Qed.

Lemma reach_under sf o v x :
  is_node o = true -> cont_child o v -> sf v = true -> reach sf v x -> reach sf o x.
Proof.
  intros Ho Hc Hs Hr. induction Hr as [Hv|p c Hr IH Hpc Hsc].
  - eapply reach_step; [apply reach_root; assumption | exact Hc | exact Hs].
  - eapply reach_step; [exact IH | exact Hpc | exact Hsc].
Qed.

Lemma walk_reach sf cf o x : In x (walk sf cf o) -> reach sf o x.
Proof.
  revert x. induction o as [k t|t|id c slots IH] using obj_ind'; intros x Hx; try contradiction.
  apply in_walk_node in Hx as [->|Hx]; [apply reach_root; reflexivity|].
  apply in_below in Hx as [m [vs [v [H1 [H2 [H3 [H4 H5]]]]]]].
  assert (Hv : is_node v = true) by (destruct v; try contradiction; reflexivity).
  apply (reach_under sf (Node id c slots) v x).
  - reflexivity.
  - split; [assumption|]. exists m, vs. simpl. auto.
  - assumption.
  - exact (IH_get _ _ _ _ _ IH H1 H3 x H5).
Qed.

Lemma reach_walk sf cf o x : reach sf o x -> In x (walk sf cf o).
Proof.
  induction 1 as [Ho|p c Hr IH Hc Hs].
  - apply self_in_walk; assumption.
  - eapply walk_child; eassumption.
Qed.

Theorem walk_iff_reach sf cf o x : In x (walk sf cf o) <-> reach sf o x.
Proof. split; [apply walk_reach | apply reach_walk]. Qed.

(* ------------------------------------------------------------------ distinct identities are inherited by every pruned walk *)
Notation allf := (fun _ : obj => true).

Lemma reach_true sf o x : reach sf o x -> reach allf o x.
Proof. induction 1 as [Ho|p c Hr IH Hc Hs]; [apply reach_root; assumption | eapply reach_step; eauto]. Qed.

Lemma walk_incl_nodes sf cf o x : In x (walk sf cf o) -> In x (nodes o).
Proof. intro H. apply walk_reach in H. apply reach_true in H. apply (reach_walk allf false). exact H. Qed.

Lemma map_flat_map {A B C} (f : B -> C) (g : A -> list B) l :
  map f (flat_map g l) = flat_map (fun x => map f (g x)) l.
Proof. induction l as [|a l IH]; simpl; [reflexivity|]. rewrite map_app, IH. reflexivity. Qed.

Lemma NoDup_flat_map_sub {A B} (f g : A -> list B) (l : list A) :
  (forall a, In a l -> NoDup (g a) -> NoDup (f a)) ->
  (forall a x, In a l -> In x (f a) -> In x (g a)) ->
  NoDup (flat_map g l) -> NoDup (flat_map f l).
Proof.
  induction l as [|a l IH]; simpl; intros H1 H2 Hn; [constructor|].
  apply NoDup_app_iff in Hn as [Ha [Hb Hd]]. apply NoDup_app_iff. repeat split.
  - apply H1; [left; reflexivity | assumption].
  - apply IH; [intros b Hb'; apply H1; right; assumption | intros b x Hb'; apply H2; right; assumption | assumption].
  - intros x Hx Hy. apply (Hd x).
    + apply H2; [left; reflexivity | assumption].
    + apply in_flat_map in Hy as [b [Hb1 Hb2]]. apply in_flat_map. exists b. split; [assumption|].
      apply H2; [right; assumption | assumption].
Qed.

Lemma wval_incl sf cf v x : In x (wval sf cf v) -> In x (wval allf false v).
Proof.
  unfold wval. destruct (sf v); [|contradiction]. intro H. apply walk_incl_nodes in H. exact H.
Qed.

Lemma wslot_incl sf cf s x : In x (wslot sf cf s) -> In x (wslot allf false s).
Proof.
  destruct s as [m vs]. rewrite !wslot_vals. destruct (acont m); [|auto].
  rewrite !in_flat_map. intros [v [Hv Hx]]. exists v. split; [assumption | eapply wval_incl; exact Hx].
Qed.

Lemma below_incl sf cf slots x : In x (below sf cf slots) -> In x (below allf false slots).
Proof.
  unfold below. rewrite !in_flat_map. intros [s [Hs Hx]]. exists s. split; [assumption | eapply wslot_incl; exact Hx].
Qed.

Lemma ids_incl (l1 l2 : list obj) :
  (forall x, In x l1 -> In x l2) -> forall i, In i (ids l1) -> In i (ids l2).
Proof.
  intros H i Hi. apply in_map_iff in Hi as [o [E Ho]]. apply in_map_iff. exists o. split; [assumption | apply H; assumption].
Qed.

Lemma nodes_node id c slots : nodes (Node id c slots) = Node id c slots :: below allf false slots.
Proof. reflexivity. Qed.

Lemma walk_nodup sf cf o : uniq o -> NoDup (ids (walk sf cf o)).
Proof.
  unfold uniq.
  induction o as [k t|t|id c slots IH] using obj_ind'; intro Hn; try (simpl; constructor).
  rewrite nodes_node in Hn. simpl in Hn. inversion Hn as [|i l Hnot Hb]; subst.
  assert (C1 : NoDup (ids (below sf cf slots))).
  { unfold below in *. rewrite map_flat_map in *.
    apply (NoDup_flat_map_sub _ (fun s => ids (wslot allf false s))); [| |assumption].
    - intros [m vs] Hs. rewrite !wslot_vals. destruct (acont m); [|intros _; constructor].
      rewrite !map_flat_map.
      apply NoDup_flat_map_sub.
      + intros v Hv. unfold wval. destruct (sf v); [|intros _; constructor].
        exact (IH_get _ _ _ _ _ IH Hs Hv).
      + intros v x Hv. apply ids_incl. intros y. apply wval_incl.
    - intros s x Hs. apply ids_incl. intros y. apply wslot_incl. }
  assert (C2 : ~ In id (ids (below sf cf slots))).
  { intro H. apply Hnot. revert H. apply ids_incl. intros y. apply below_incl. }
  rewrite walk_node. destruct cf.
  - rewrite map_app. apply NoDup_app_iff. repeat split; [assumption | constructor; [intros [] | constructor] |].
    intros x Hx [<-|[]]. contradiction.
  - simpl. constructor; assumption.
Qed.

Theorem get_children_uniq sel sf cf root :
  uniq root -> get_children sel root cf sf = filter sel (walk sf cf root).
Proof. intro H. apply get_children_walk. apply walk_nodup. exact H. Qed.

Lemma NoDup_ids_filter (sel : obj -> bool) l : NoDup (ids l) -> NoDup (ids (filter sel l)).
Proof.
  induction l as [|o l IH]; simpl; intro H; [constructor|]. inversion H as [|i l' Hnot Hl]; subst.
  destruct (sel o); simpl; [constructor; [intro Hin; apply Hnot; eapply filter_ids_incl; exact Hin | auto] | auto].
Qed.

(* exactly the reachable selected objects, each once *)
Theorem get_children_exact sel sf cf root :
  uniq root ->
  NoDup (ids (get_children sel root cf sf)) /\
  forall o, In o (get_children sel root cf sf) <-> reach sf root o /\ sel o = true.
Proof.
  intro H. rewrite get_children_uniq by assumption. split.
  - apply NoDup_ids_filter. apply walk_nodup. assumption.
  - intro o. rewrite filter_In, walk_iff_reach. reflexivity.
Qed.

(* ------------------------------------------------------------------ the heap built by process_node *)
Definition bslot (st : list N) (mvs : ameta * list obj) : heap :=
  if acont (fst mvs) then
    if amany (fst mvs) then flat_map (build st) (snd mvs)
    else match snd mvs with [] => [] | v :: _ => build st v end
  else [].

Lemma build_node stack id c slots :
  build stack (Node id c slots) =
  (id, {| hcls := c; hparent := parent_attr stack slots |}) :: flat_map (bslot (id :: stack)) slots.
Proof. reflexivity. Qed.

Lemma bslot_vals st m vs :
  bslot st (m, vs) = if acont m then flat_map (build st) (slot_vals m vs) else [].
Proof.
  unfold bslot, slot_vals; simpl. destruct (acont m); [|reflexivity].
  destruct (amany m); [reflexivity|]. destruct vs as [|v vs]; simpl; [reflexivity|].
  rewrite app_nil_r. reflexivity.
Qed.

Lemma in_hbelow st slots e :
  In e (flat_map (bslot st) slots) <->
  exists m vs v, In (m, vs) slots /\ acont m = true /\ In v (slot_vals m vs) /\ In e (build st v).
Proof.
  rewrite in_flat_map. split.
  - intros [[m vs] [Hin He]]. rewrite bslot_vals in He. destruct (acont m) eqn:Hc; [|contradiction].
    apply in_flat_map in He as [v [Hv He]]. exists m, vs, v. auto.
  - intros [m [vs [v [H1 [H2 [H3 H4]]]]]]. exists (m, vs). split; [assumption|].
    rewrite bslot_vals, H2. apply in_flat_map. exists v. auto.
Qed.

Lemma flat_map_Forall_eq {A B} (f g : A -> list B) l :
  Forall (fun x => f x = g x) l -> flat_map f l = flat_map g l.
Proof. induction 1 as [|a l Ha Hl IH]; simpl; [reflexivity|]. rewrite Ha, IH. reflexivity. Qed.

Lemma build_keys o : forall stack, map fst (build stack o) = ids (nodes o).
Proof.
  induction o as [k t|t|id c slots IH] using obj_ind'; intro stack; try reflexivity.
  rewrite build_node, nodes_node. simpl. f_equal.
  unfold below. rewrite !map_flat_map. apply flat_map_Forall_eq.
  rewrite Forall_forall. intros [m vs] Hs.
  rewrite bslot_vals, wslot_vals. destruct (acont m); [|reflexivity].
  rewrite !map_flat_map. apply flat_map_Forall_eq. rewrite Forall_forall. intros v Hv.
  unfold wval. exact (IH_get _ _ _ _ _ IH Hs Hv (id :: stack)).
Qed.

Lemma lookup_In (h : heap) k v : NoDup (map fst h) -> In (k, v) h -> lookup k h = Some v.
Proof.
  induction h as [|[k' v'] h IH]; simpl; intros Hn Hin; [contradiction|].
  inversion Hn as [|x l Hnot Hn']; subst. destruct Hin as [E|Hin].
  - inversion E; subst. rewrite N.eqb_refl. reflexivity.
  - destruct (N.eqb k' k) eqn:E.
    + apply N.eqb_eq in E. subst. exfalso. apply Hnot. apply in_map_iff. exists (k, v). split; [reflexivity | assumption].
    + apply IH; assumption.
Qed.

(* the entry of a contained object: class and the container as parent *)
Lemma build_entry_child o : forall stack p c,
  In p (nodes o) -> cont_child p c -> find_slot s_parent (obj_slots c) = None ->
  In (obj_id c, {| hcls := obj_cls c; hparent := Some (PObj (obj_id p)) |}) (build stack o).
Proof.
  induction o as [k t|t|id cl slots IH] using obj_ind'; intros stack p c Hp Hc Hf; try contradiction.
  rewrite build_node. right. apply in_hbelow.
  rewrite nodes_node in Hp. destruct Hp as [<-|Hp].
  - destruct Hc as [Hn [m [vs [H1 [H2 H3]]]]]. simpl in H1.
    exists m, vs, c. repeat split; try assumption.
    destruct c as [k t|t|cid ccl cslots]; try discriminate.
    rewrite build_node. left. simpl in *. unfold parent_attr. rewrite Hf. reflexivity.
  - apply in_below in Hp as [m [vs [v [H1 [H2 [H3 [_ H5]]]]]]].
    exists m, vs, v. repeat split; try assumption.
    exact (IH_get _ _ _ _ _ IH H1 H3 (id :: stack) p c H5 Hc Hf).
Qed.

Lemma build_entry_cls o : forall stack n,
  In n (nodes o) -> exists hp, In (obj_id n, {| hcls := obj_cls n; hparent := hp |}) (build stack o).
Proof.
  induction o as [k t|t|id cl slots IH] using obj_ind'; intros stack n Hn; try contradiction.
  rewrite nodes_node in Hn. rewrite build_node. destruct Hn as [<-|Hn].
  - eexists. left. reflexivity.
  - apply in_below in Hn as [m [vs [v [H1 [H2 [H3 [_ H5]]]]]]].
    destruct (IH_get _ _ _ _ _ IH H1 H3 (id :: stack) n H5) as [hp Hin].
    exists hp. right. apply in_hbelow. exists m, vs, v. auto.
Qed.

Lemma no_parent_attr_slots root n :
  no_parent_attr root = true -> In n (nodes root) -> find_slot s_parent (obj_slots n) = None.
Proof.
  unfold no_parent_attr. rewrite forallb_forall. intros H Hn. specialize (H _ Hn).
  destruct (find_slot s_parent (obj_slots n)); [discriminate | reflexivity].
Qed.

Lemma nodes_child o p c : In p (nodes o) -> cont_child p c -> In c (nodes o).
Proof. intros Hp Hc. unfold nodes in *. eapply walk_child; eauto. Qed.

Lemma last_cons (p o : obj) l : last (p :: l) o = last l p.
Proof.
  revert p o. induction l as [|q l IH]; intros p o; [reflexivity|].
  change (last (p :: q :: l) o) with (last (q :: l) o). rewrite (IH q o), (IH q p). reflexivity.
Qed.

Section Heap.
  Variable root : obj.
  Hypothesis Hroot : is_node root = true.
  Hypothesis Huniq : uniq root.
  Hypothesis Hnp : no_parent_attr root = true.

  Lemma heap_keys_nodup : NoDup (map fst (heap_of root)).
  Proof. unfold heap_of. rewrite build_keys. exact Huniq. Qed.

  Lemma heap_root :
    lookup (obj_id root) (heap_of root) = Some {| hcls := obj_cls root; hparent := None |}.
  Proof.
    destruct root as [k t|t|id c slots] eqn:E; try discriminate.
    unfold heap_of. rewrite build_node. simpl. rewrite N.eqb_refl.
    assert (Hf : find_slot s_parent slots = None).
    { apply (no_parent_attr_slots (Node id c slots) (Node id c slots) Hnp). apply self_in_walk. reflexivity. }
    unfold parent_attr. rewrite Hf. reflexivity.
  Qed.

  Lemma heap_child p c :
    In p (nodes root) -> cont_child p c ->
    lookup (obj_id c) (heap_of root) = Some {| hcls := obj_cls c; hparent := Some (PObj (obj_id p)) |}.
  Proof.
    intros Hp Hc. apply lookup_In; [apply heap_keys_nodup|].
    apply build_entry_child; try assumption.
    apply (no_parent_attr_slots root); [assumption | eapply nodes_child; eauto].
  Qed.

  Lemma heap_cls n :
    In n (nodes root) -> exists hp, lookup (obj_id n) (heap_of root) = Some {| hcls := obj_cls n; hparent := hp |}.
  Proof.
    intro Hn. destruct (build_entry_cls root [] n Hn) as [hp Hin]. exists hp.
    apply lookup_In; [apply heap_keys_nodup | exact Hin].
  Qed.

  (* a chain of containers from o up to the root stays inside the tree *)
  Lemma chain_in_nodes l : forall o, up_chain o l -> last l o = root -> In o (nodes root).
  Proof.
    induction l as [|p l IH]; intros o Hc Hl.
    - simpl in Hl. subst o. apply self_in_walk. assumption.
    - destruct Hc as [Hpo Hc]. apply (nodes_child root p o); [|assumption].
      apply IH; [assumption|]. rewrite last_cons in Hl. assumption.
  Qed.

  Theorem get_model_root l : forall o fuel,
    up_chain o l -> last l o = root -> length l < fuel ->
    get_model (heap_of root) fuel (obj_id o) = GObj (obj_id root).
  Proof.
    induction l as [|p l IH]; intros o fuel Hc Hl Hf.
    - simpl in Hl. subst o. destruct fuel as [|f]; [inversion Hf|]. simpl. rewrite heap_root. reflexivity.
    - destruct fuel as [|f]; [inversion Hf|]. destruct Hc as [Hpo Hc].
      rewrite last_cons in Hl.
      assert (Hp : In p (nodes root)) by (apply (chain_in_nodes l); assumption).
      simpl. rewrite (heap_child p o Hp Hpo). simpl.
      apply IH; [assumption | assumption | simpl in Hf; apply Nat.succ_lt_mono; assumption].
  Qed.

  Theorem parent_of_type_nearest typ l : forall o fuel,
    up_chain o l -> last l o = root -> length l < fuel ->
    get_parent_of_type (heap_of root) fuel typ (obj_id o) = pres_of (find (cls_is typ) l).
  Proof.
    induction l as [|p l IH]; intros o fuel Hc Hl Hf.
    - simpl in Hl. subst o. destruct fuel as [|f]; [inversion Hf|]. simpl. rewrite heap_root. reflexivity.
    - destruct fuel as [|f]; [inversion Hf|]. destruct Hc as [Hpo Hc].
      rewrite last_cons in Hl.
      assert (Hp : In p (nodes root)) by (apply (chain_in_nodes l); assumption).
      simpl. rewrite (heap_child p o Hp Hpo). simpl.
      destruct (heap_cls p Hp) as [hp Hlk]. rewrite Hlk. simpl.
      unfold cls_is at 1. destruct (str_eqb (obj_cls p) typ); [reflexivity|].
      apply IH; [assumption | assumption | simpl in Hf; apply Nat.succ_lt_mono; assumption].
  Qed.
End Heap.

(* ------------------------------------------------------------------ every object has a chain of containers up to the root *)
Lemma flat_map_length_ge {A B} (f : A -> list B) l a : In a l -> length (f a) <= length (flat_map f l).
Proof.
  induction l as [|b l IH]; simpl; intros H; [contradiction|]. rewrite app_length.
  destruct H as [->|H]; [lia | specialize (IH H); lia].
Qed.

Lemma below_length sf cf slots m vs v :
  In (m, vs) slots -> acont m = true -> In v (slot_vals m vs) -> sf v = true ->
  length (walk sf cf v) <= length (below sf cf slots).
Proof.
  intros H1 H2 H3 H4. unfold below.
  apply Nat.le_trans with (length (wslot sf cf (m, vs))).
  - rewrite wslot_vals, H2.
    apply Nat.le_trans with (length (wval sf cf v)).
    + unfold wval. rewrite H4. apply le_n.
    + apply (flat_map_length_ge (wval sf cf)). assumption.
  - apply (flat_map_length_ge (wslot sf cf)). assumption.
Qed.

Lemma up_chain_snoc l : forall x o, up_chain x l -> cont_child o (last l x) -> up_chain x (l ++ [o]).
Proof.
  induction l as [|a l IH]; intros x o H Hc; simpl in *.
  - split; [assumption | exact I].
  - destruct H as [H1 H2]. split; [assumption|]. apply IH; [assumption|].
    change (cont_child o (last (a :: l) x)) in Hc. rewrite last_cons in Hc. assumption.
Qed.

Lemma chain_exists o : forall x, In x (nodes o) ->
  exists l, up_chain x l /\ last l x = o /\ length l < length (nodes o).
Proof.
  induction o as [k t|t|id c slots IH] using obj_ind'; intros x Hx; try contradiction.
  rewrite nodes_node in *. destruct Hx as [<-|Hx].
  - exists []. simpl. repeat split. lia.
  - apply in_below in Hx as [m [vs [v [H1 [H2 [H3 [H4 H5]]]]]]].
    destruct (IH_get _ _ _ _ _ IH H1 H3 x H5) as [l [Hc [Hl Hlen]]].
    exists (l ++ [Node id c slots]). repeat split.
    + apply up_chain_snoc; [assumption|]. rewrite Hl. split.
      * destruct v; try contradiction; reflexivity.
      * exists m, vs. simpl. auto.
    + apply last_last.
    + rewrite app_length. simpl.
      pose proof (below_length allf false slots m vs v H1 H2 H3 eq_refl) as Hle.
      unfold nodes in Hlen. lia.
Qed.

Lemma nodes_root_is_node root o : In o (nodes root) -> is_node root = true.
Proof. destruct root; simpl; try contradiction. reflexivity. Qed.

Theorem get_model_every_object root o fuel :
  uniq root -> no_parent_attr root = true -> In o (nodes root) -> length (nodes root) <= fuel ->
  get_model (heap_of root) fuel (obj_id o) = GObj (obj_id root).
Proof.
  intros Hu Hnp Ho Hf. destruct (chain_exists root o Ho) as [l [Hc [Hl Hlen]]].
  apply (get_model_root root (nodes_root_is_node root o Ho) Hu Hnp l); [assumption | assumption | lia].
Qed.

Theorem parent_of_type_every_object root o :
  uniq root -> no_parent_attr root = true -> In o (nodes root) ->
  exists l, up_chain o l /\ last l o = root /\
    forall typ fuel, length (nodes root) <= fuel ->
      get_parent_of_type (heap_of root) fuel typ (obj_id o) = pres_of (find (cls_is typ) l).
Proof.
  intros Hu Hnp Ho. destruct (chain_exists root o Ho) as [l [Hc [Hl Hlen]]].
  exists l. repeat split; try assumption. intros typ fuel Hf.
  apply (parent_of_type_nearest root (nodes_root_is_node root o Ho) Hu Hnp typ l); [assumption | assumption | lia].
Qed.

Theorem parent_links root :
  is_node root = true -> uniq root -> no_parent_attr root = true ->
  lookup (obj_id root) (heap_of root) = Some {| hcls := obj_cls root; hparent := None |} /\
  forall p c, In p (nodes root) -> cont_child p c ->
    lookup (obj_id c) (heap_of root) = Some {| hcls := obj_cls c; hparent := Some (PObj (obj_id p)) |}.
Proof.
  intros Hr Hu Hnp. split; [apply heap_root; assumption | intros p c; apply heap_child; assumption].
Qed.

(* ------------------------------------------------------------------ references are irrelevant *)
Definition st_strip (st : state) : state := (map strip (fst st), snd st).

Definition sslot (mvs : ameta * list obj) : ameta * list obj :=
  (fst mvs, if acont (fst mvs) then map strip (snd mvs) else []).

Lemma strip_node id c slots : strip (Node id c slots) = Node id c (map sslot slots).
Proof. reflexivity. Qed.

Section Strip.
  Variables sel sf : obj -> bool.
  Variable cf : bool.
  Hypothesis Hsel : forall x, sel (strip x) = sel x.
  Hypothesis Hsf : forall x, sf (strip x) = sf x.

  Definition strip_ok (v : obj) : Prop :=
    forall st, follow sel sf cf (strip v) (st_strip st) = st_strip (follow sel sf cf v st).

  Lemma strip_elems vs :
    Forall strip_ok vs ->
    forall st, follow_elems (follow sel sf cf) sf (map strip vs) (st_strip st)
               = st_strip (follow_elems (follow sel sf cf) sf vs st).
  Proof.
    induction 1 as [|v vs Hv Hvs IH]; intro st; simpl; [reflexivity|].
    rewrite Hsf. destruct (sf v); [rewrite Hv|]; apply IH.
  Qed.

  Lemma strip_attrs slots :
    Forall (fun mvs : ameta * list obj => Forall strip_ok (snd mvs)) slots ->
    forall st, follow_attrs (follow sel sf cf) sf (map sslot slots) (st_strip st)
               = st_strip (follow_attrs (follow sel sf cf) sf slots st).
  Proof.
    induction 1 as [|[m vs] slots Hm Hs IH]; intro st; simpl; [reflexivity|].
    simpl in Hm. destruct (acont m); [|apply IH].
    destruct (amany m).
    - rewrite strip_elems by assumption. apply IH.
    - destruct vs as [|v vs']; simpl; [apply IH|].
      inversion Hm as [|v0 l0 Hv _]; subst. rewrite Hsf. destruct (sf v); [rewrite Hv|]; apply IH.
  Qed.

  Lemma collect_strip o id st : collect (strip o) id (st_strip st) = st_strip (collect o id st).
  Proof. unfold collect, st_strip; simpl. rewrite map_app. reflexivity. Qed.

  Lemma follow_strip : forall o, strip_ok o.
  Proof.
    induction o as [k t|t|id c slots IH] using obj_ind'; intro st; try reflexivity.
    rewrite strip_node. cbn [follow]. rewrite <- strip_node. rewrite Hsel.
    change (snd (st_strip st)) with (snd st).
    destruct (mem_N id (snd st)); [reflexivity|].
    destruct (negb cf && sel (Node id c slots))%bool; destruct (cf && sel (Node id c slots))%bool;
      rewrite ?collect_strip, (strip_attrs slots IH), ?collect_strip; reflexivity.
  Qed.

  Theorem get_children_strip root :
    get_children sel (strip root) cf sf = map strip (get_children sel root cf sf).
  Proof.
    unfold get_children. change (@nil obj, @nil N) with (st_strip ([], [])) at 1.
    rewrite follow_strip. reflexivity.
  Qed.
End Strip.

Lemma strip_id o : obj_id (strip o) = obj_id o.
Proof. destruct o; reflexivity. Qed.

Lemma strip_head o : head_of (strip o) = head_of o.
Proof. destruct o; reflexivity. Qed.

(* two models that differ only in their reference attributes give the same objects *)
Theorem refs_irrelevant (p q : head -> bool) cf r1 r2 :
  strip r1 = strip r2 ->
  map head_of (get_children (fun o => p (head_of o)) r1 cf (fun o => q (head_of o))) =
  map head_of (get_children (fun o => p (head_of o)) r2 cf (fun o => q (head_of o))).
Proof.
  intro E.
  assert (H : forall r, map head_of (get_children (fun o => p (head_of o)) r cf (fun o => q (head_of o)))
                        = map head_of (get_children (fun o => p (head_of o)) (strip r) cf (fun o => q (head_of o)))).
  { intro r. rewrite get_children_strip by (intro x; rewrite strip_head; reflexivity).
    rewrite map_map. apply map_ext. intro a. symmetry; apply strip_head. }
  rewrite (H r1), (H r2), E. reflexivity.
Qed.

(* ------------------------------------------------------------------ order: containers before (after) their contents *)
Lemma flat_map_split {A B} (f : A -> list B) l a :
  In a l -> exists l1 l2, flat_map f l = l1 ++ f a ++ l2.
Proof.
  intro H. apply in_split in H as [x1 [x2 ->]]. rewrite flat_map_app. simpl.
  exists (flat_map f x1), (flat_map f x2). reflexivity.
Qed.

Lemma walk_split sf cf o : forall a,
  In a (walk sf cf o) -> exists l1 l2, walk sf cf o = l1 ++ walk sf cf a ++ l2.
Proof.
  induction o as [k t|t|id c slots IH] using obj_ind'; intros a Ha; try contradiction.
  apply in_walk_node in Ha as [->|Ha].
  - exists [], []. rewrite app_nil_r. reflexivity.
  - apply in_below in Ha as [m [vs [v [H1 [H2 [H3 [H4 H5]]]]]]].
    destruct (IH_get _ _ _ _ _ IH H1 H3 a H5) as [l1 [l2 E]].
    destruct (flat_map_split (wslot sf cf) slots (m, vs) H1) as [p1 [p2 Ep]].
    destruct (flat_map_split (wval sf cf) (slot_vals m vs) v H3) as [q1 [q2 Eq]].
    assert (Eb : below sf cf slots = (p1 ++ q1 ++ l1) ++ walk sf cf a ++ (l2 ++ q2 ++ p2)).
    { unfold below. rewrite Ep, wslot_vals, H2, Eq. unfold wval. rewrite H4, E.
      repeat rewrite <- app_assoc. reflexivity. }
    rewrite walk_node, Eb. destruct cf.
    + exists (p1 ++ q1 ++ l1), ((l2 ++ q2 ++ p2) ++ [Node id c slots]).
      repeat rewrite <- app_assoc. reflexivity.
    + exists (Node id c slots :: p1 ++ q1 ++ l1), (l2 ++ q2 ++ p2). reflexivity.
Qed.

Theorem children_order sel sf cf root a b :
  uniq root -> reach sf a b -> a <> b ->
  In a (get_children sel root cf sf) -> In b (get_children sel root cf sf) ->
  exists l1 l2 l3,
    get_children sel root cf sf =
    if cf then l1 ++ b :: l2 ++ a :: l3 else l1 ++ a :: l2 ++ b :: l3.
Proof.
  intros Hu Hr Hne Ha Hb. rewrite get_children_uniq in * by assumption.
  apply filter_In in Ha as [Ha Hsa]. apply filter_In in Hb as [_ Hsb].
  destruct (walk_split sf cf root a Ha) as [L1 [L2 E]].
  pose proof (walk_only_nodes _ _ _ _ Ha) as Hn.
  destruct a as [k t|t|id c slots]; try discriminate.
  apply (reach_walk sf cf) in Hr. apply in_walk_node in Hr as [Hr|Hr]; [congruence|].
  apply in_split in Hr as [m1 [m2 Em]].
  rewrite E, walk_node, Em. destruct cf.
  - exists (filter sel L1 ++ filter sel m1), (filter sel m2), (filter sel L2).
    repeat (rewrite filter_app; simpl). rewrite Hsa, Hsb.
    repeat (rewrite <- app_assoc; simpl). reflexivity.
  - exists (filter sel L1), (filter sel m1), (filter sel m2 ++ filter sel L2).
    repeat (rewrite filter_app; simpl). rewrite Hsa, Hsb.
    repeat (rewrite <- app_assoc; simpl). reflexivity.
Qed.

(* ------------------------------------------------------------------ decidable hypotheses, example tree *)
From TxV Require Import Model.NavRun.

Lemma nodup_N_sound l : nodup_N l = true -> NoDup l.
Proof.
  induction l as [|x l IH]; simpl; intro H; [constructor|].
  apply andb_true_iff in H as [H1 H2]. constructor; [|auto].
  intro Hin. apply mem_N_true in Hin. rewrite Hin in H1. discriminate.
Qed.

Lemma uniq_b_sound root : uniq_b root = true -> uniq root.
Proof. apply nodup_N_sound. Qed.

Definition mk_attr (n : list N) (c m : bool) : ameta := {| aname := n; acont := c; amany := m |}.

Local Open Scope N_scope.
(* M{things=[A{inner=I, up->M}, B{kids=[A], name="b"}]} *)
Definition ex_tree : obj :=
  Node 0 [77] [
    (mk_attr [116] true true,
     [ Node 1 [65] [ (mk_attr [105] true false, [Node 2 [73] []]); (mk_attr [117] false false, [Ref 0]) ];
       Node 3 [66] [ (mk_attr [107] true true, [Node 4 [65] []]); (mk_attr [110] true false, [Prim 0 [98]]) ] ]) ].

(* the root rule has an attribute called `parent` *)
Definition ex_parent_attr : obj :=
  Node 0 [77] [ (mk_attr s_parent true false, [Prim 1 [53]]); (mk_attr [107] true true, [Node 1 [65] []]) ].
Local Close Scope N_scope.

(* ------------------------------------------------------------------ order for arbitrary containment descendants *)
Lemma flat_map_incl {A B} (f g : A -> list B) l x :
  (forall a y, In y (f a) -> In y (g a)) -> In x (flat_map f l) -> In x (flat_map g l).
Proof.
  intros H Hx. apply in_flat_map in Hx as [a [Ha Hy]]. apply in_flat_map. exists a. split; [assumption | apply H; assumption].
Qed.

(* the pruned walk and the full pre-order split around the subtree of a walked object, and whatever
   the pruned walk has outside that subtree lies outside it in the full walk as well *)
Lemma walk_split2 sf cf o : forall a,
  In a (walk sf cf o) ->
  exists L1 L2 M1 M2,
    walk sf cf o = L1 ++ walk sf cf a ++ L2 /\
    nodes o = M1 ++ nodes a ++ M2 /\
    (forall x, In x (L1 ++ L2) -> In x (M1 ++ M2)).
Proof.
  induction o as [k t|t|id c slots IH] using obj_ind'; intros a Ha; try contradiction.
  apply in_walk_node in Ha as [->|Ha].
  - exists [], [], [], []. rewrite !app_nil_r. repeat split. intros x [].
  - apply in_below in Ha as [m [vs [v [H1 [H2 [H3 [H4 H5]]]]]]].
    destruct (IH_get _ _ _ _ _ IH H1 H3 a H5) as [l1 [l2 [m1 [m2 [E [En Hi]]]]]].
    apply in_split in H1 as [x1 [x2 Es]]. apply in_split in H3 as [y1 [y2 Ev]].
    set (P1 := flat_map (wslot sf cf) x1). set (P2 := flat_map (wslot sf cf) x2).
    set (Q1 := flat_map (wval sf cf) y1). set (Q2 := flat_map (wval sf cf) y2).
    set (P1' := flat_map (wslot allf false) x1). set (P2' := flat_map (wslot allf false) x2).
    set (Q1' := flat_map (wval allf false) y1). set (Q2' := flat_map (wval allf false) y2).
    assert (Eb : below sf cf slots = (P1 ++ Q1 ++ l1) ++ walk sf cf a ++ (l2 ++ Q2 ++ P2)).
    { unfold below. rewrite Es, flat_map_app. simpl. rewrite wslot_vals, H2, Ev, flat_map_app. simpl.
      unfold wval at 2. rewrite H4, E. unfold P1, P2, Q1, Q2. repeat rewrite <- app_assoc. reflexivity. }
    assert (Eb' : below allf false slots = (P1' ++ Q1' ++ m1) ++ nodes a ++ (m2 ++ Q2' ++ P2')).
    { unfold below. rewrite Es, flat_map_app. simpl. rewrite wslot_vals, H2, Ev, flat_map_app. simpl.
      unfold wval at 2. cbn beta iota. change (walk allf false v) with (nodes v). rewrite En.
      unfold P1', P2', Q1', Q2'. repeat rewrite <- app_assoc. reflexivity. }
    assert (IP1 : forall x, In x P1 -> In x P1') by (intros x; apply flat_map_incl; intros s y; apply wslot_incl).
    assert (IP2 : forall x, In x P2 -> In x P2') by (intros x; apply flat_map_incl; intros s y; apply wslot_incl).
    assert (IQ1 : forall x, In x Q1 -> In x Q1') by (intros x; apply flat_map_incl; intros s y; apply wval_incl).
    assert (IQ2 : forall x, In x Q2 -> In x Q2') by (intros x; apply flat_map_incl; intros s y; apply wval_incl).
    assert (Hl : forall x, In x l1 \/ In x l2 -> In x m1 \/ In x m2).
    { intros x Hx. apply in_app_or. apply Hi. apply in_or_app. exact Hx. }
    rewrite walk_node, nodes_node, Eb, Eb'. destruct cf.
    + exists (P1 ++ Q1 ++ l1), ((l2 ++ Q2 ++ P2) ++ [Node id c slots]),
             (Node id c slots :: P1' ++ Q1' ++ m1), (m2 ++ Q2' ++ P2').
      split; [repeat rewrite <- app_assoc; reflexivity|]. split; [reflexivity|].
      intros x Hx. repeat (rewrite in_app_iff in Hx || simpl in Hx).
      repeat (rewrite in_app_iff || simpl).
      destruct Hx as [[H|[H|H]]|[[H|[H|H]]|[H|[]]]]; auto 10.
      * destruct (Hl x (or_introl H)); auto 10.
      * destruct (Hl x (or_intror H)); auto 10.
    + exists (Node id c slots :: P1 ++ Q1 ++ l1), (l2 ++ Q2 ++ P2),
             (Node id c slots :: P1' ++ Q1' ++ m1), (m2 ++ Q2' ++ P2').
      split; [reflexivity|]. split; [reflexivity|].
      intros x Hx. repeat (rewrite in_app_iff in Hx || simpl in Hx).
      repeat (rewrite in_app_iff || simpl).
      destruct Hx as [[H|[H|[H|H]]]|[H|[H|H]]]; auto 10.
      * destruct (Hl x (or_introl H)); auto 10.
      * destruct (Hl x (or_intror H)); auto 10.
Qed.

(* in a tree with distinct identities, a walked object that lies in the subtree of a walked object a
   is reached from a through followed links *)
Lemma walked_descendant_reached sf cf root a b :
  uniq root -> In a (walk sf cf root) -> In b (walk sf cf root) -> In b (nodes a) -> reach sf a b.
Proof.
  intros Hu Ha Hb Hd. destruct (walk_split2 sf cf root a Ha) as [L1 [L2 [M1 [M2 [E [En Hi]]]]]].
  rewrite E in Hb. apply in_app_or in Hb as [Hb|Hb]; [|apply in_app_or in Hb as [Hb|Hb]].
  - exfalso. unfold uniq in Hu. rewrite En, map_app, map_app in Hu.
    assert (Hm : In b (M1 ++ M2)) by (apply Hi; apply in_or_app; left; assumption).
    apply NoDup_app_iff in Hu as [_ [Hu2 Hd1]]. apply NoDup_app_iff in Hu2 as [_ [_ Hd2]].
    apply in_app_or in Hm as [Hm|Hm].
    + apply (Hd1 (obj_id b)); [apply in_map; assumption | apply in_or_app; left; apply in_map; assumption].
    + apply (Hd2 (obj_id b)); apply in_map; assumption.
  - apply (walk_reach sf cf). assumption.
  - exfalso. unfold uniq in Hu. rewrite En, map_app, map_app in Hu.
    assert (Hm : In b (M1 ++ M2)) by (apply Hi; apply in_or_app; right; assumption).
    apply NoDup_app_iff in Hu as [_ [Hu2 Hd1]]. apply NoDup_app_iff in Hu2 as [_ [_ Hd2]].
    apply in_app_or in Hm as [Hm|Hm].
    + apply (Hd1 (obj_id b)); [apply in_map; assumption | apply in_or_app; left; apply in_map; assumption].
    + apply (Hd2 (obj_id b)); apply in_map; assumption.
Qed.

Theorem children_order_desc sel sf cf root a b :
  uniq root -> In b (nodes a) -> a <> b ->
  In a (get_children sel root cf sf) -> In b (get_children sel root cf sf) ->
  exists l1 l2 l3,
    get_children sel root cf sf =
    if cf then l1 ++ b :: l2 ++ a :: l3 else l1 ++ a :: l2 ++ b :: l3.
Proof.
  intros Hu Hd Hne Ha Hb. apply children_order; try assumption.
  rewrite get_children_uniq in Ha, Hb by assumption.
  apply filter_In in Ha as [Ha _]. apply filter_In in Hb as [Hb _].
  eapply walked_descendant_reached; eassumption.
Qed.
