(* C05 — proofs about Model/Nav.v *)
From TxV Require Import Core.Base Model.Nav.

(* ------------------------------------------------------------------ induction on object trees *)
Section ObjInd.
  Variable P : obj -> Prop.
  Hypothesis HPrim : forall k t, P (Prim k t).
  Hypothesis HRef : forall t, P (Ref t).
  Hypothesis HNode : forall id c slots,
    Forall (fun mvs : ameta * list obj => Forall P (snd mvs)) slots -> P (Node id c slots).

  Fixpoint obj_ind' (o : obj) : P o :=
    match o with
    | Prim k t => HPrim k t
    | Ref t => HRef t
    | Node id c slots =>
        HNode id c slots
          ((fix slots_ind (ss : list (ameta * list obj))
              : Forall (fun mvs : ameta * list obj => Forall P (snd mvs)) ss :=
              match ss with
              | [] => Forall_nil _
              | mvs :: ss' =>
                  Forall_cons mvs
                    ((fix vals_ind (vs : list obj) : Forall P vs :=
                        match vs with
                        | [] => Forall_nil _
                        | v :: vs' => Forall_cons v (obj_ind' v) (vals_ind vs')
                        end) (snd mvs))
                    (slots_ind ss')
              end) slots)
    end.
End ObjInd.

(* ------------------------------------------------------------------ list facts *)
Notation ids l := (map obj_id l).

Lemma NoDup_app_iff {A} (a b : list A) :
  NoDup (a ++ b) <-> NoDup a /\ NoDup b /\ (forall x, In x a -> In x b -> False).
Proof.
  induction a as [|y a IH]; simpl.
  - split; [intro H; repeat split; [constructor | assumption | intros x []] | intros [_ [H _]]; assumption].
  - split.
    + intro H. inversion H as [|y' l' Hy Hab]; subst. apply IH in Hab as [Ha [Hb Hd]].
      repeat split.
      * constructor; [intro Hin; apply Hy; apply in_or_app; left; assumption | assumption].
      * assumption.
      * intros x [Hx|Hx] Hxb; [subst; apply Hy; apply in_or_app; right; assumption | eapply Hd; eauto].
    + intros [Ha [Hb Hd]]. inversion Ha as [|y' l' Hy Ha']; subst. constructor.
      * intro Hin. apply in_app_or in Hin as [Hin|Hin]; [contradiction | eapply Hd; [left; reflexivity | exact Hin]].
      * apply IH. repeat split; [assumption | assumption | intros x Hx Hxb; eapply Hd; [right; exact Hx | exact Hxb]].
Qed.

Lemma filter_ids_incl (sel : obj -> bool) l x : In x (ids (filter sel l)) -> In x (ids l).
Proof.
  intro H. apply in_map_iff in H as [o [E Ho]]. apply filter_In in Ho as [Ho _].
  apply in_map_iff. exists o. split; assumption.
Qed.

Lemma mem_N_false x l : ~ In x l -> mem_N x l = false.
Proof.
  intro H. unfold mem_N. destruct (existsb (N.eqb x) l) eqn:E; [|reflexivity].
  apply existsb_exists in E as [y [Hy Ey]]. apply N.eqb_eq in Ey. subst. contradiction.
Qed.

Lemma mem_N_true x l : In x l -> mem_N x l = true.
Proof.
  intro H. unfold mem_N. apply existsb_exists. exists x. split; [assumption | apply N.eqb_refl].
Qed.

(* ------------------------------------------------------------------ unfolding the walk *)
Definition wval (sf : obj -> bool) (cf : bool) (v : obj) : list obj := if sf v then walk sf cf v else [].
Definition wslot (sf : obj -> bool) (cf : bool) (mvs : ameta * list obj) : list obj :=
  if acont (fst mvs) then
    if amany (fst mvs) then flat_map (wval sf cf) (snd mvs)
    else match snd mvs with [] => [] | v :: _ => wval sf cf v end
  else [].
Definition below (sf : obj -> bool) (cf : bool) (slots : list (ameta * list obj)) : list obj :=
  flat_map (wslot sf cf) slots.

Lemma walk_node sf cf id c slots :
  walk sf cf (Node id c slots) =
  if cf then below sf cf slots ++ [Node id c slots] else Node id c slots :: below sf cf slots.
Proof. reflexivity. Qed.

Lemma wslot_vals sf cf m vs :
  wslot sf cf (m, vs) = if acont m then flat_map (wval sf cf) (slot_vals m vs) else [].
Proof.
  unfold wslot, slot_vals; simpl. destruct (acont m); [|reflexivity].
  destruct (amany m); [reflexivity|]. destruct vs as [|v vs]; simpl; [reflexivity|].
  rewrite app_nil_r. reflexivity.
Qed.

(* ------------------------------------------------------------------ follow = filter of the walk *)
Definition ext (sel : obj -> bool) (st : state) (l : list obj) : state :=
  (fst st ++ filter sel l, rev (ids (filter sel l)) ++ snd st).

Definition ok (l : list obj) (st : state) : Prop :=
  NoDup (ids l) /\ forall x, In x (ids l) -> ~ In x (snd st).

Lemma ext_nil sel st : ext sel st [] = st.
Proof. unfold ext; simpl. rewrite app_nil_r. destruct st; reflexivity. Qed.

Lemma ext_app sel st l1 l2 : ext sel (ext sel st l1) l2 = ext sel st (l1 ++ l2).
Proof.
  unfold ext; simpl. rewrite filter_app, map_app, rev_app_distr, !app_assoc. reflexivity.
Qed.

Lemma ext_one sel st o :
  ext sel st [o] = if sel o then collect o (obj_id o) st else st.
Proof.
  unfold ext, collect; simpl. destruct (sel o); simpl.
  - reflexivity.
  - rewrite app_nil_r. destruct st; reflexivity.
Qed.

Lemma ok_app_l l1 l2 st : ok (l1 ++ l2) st -> ok l1 st.
Proof.
  intros [Hn Hd]. rewrite map_app in Hn. apply NoDup_app_iff in Hn as [Ha [_ _]].
  split; [assumption|]. intros x Hx. apply Hd. rewrite map_app. apply in_or_app; left; assumption.
Qed.

Lemma ok_app_r sel l1 l2 st : ok (l1 ++ l2) st -> ok l2 (ext sel st l1).
Proof.
  intros [Hn Hd]. rewrite map_app in Hn. apply NoDup_app_iff in Hn as [_ [Hb Hdis]].
  split; [assumption|]. intros x Hx Hin. unfold ext in Hin; simpl in Hin.
  apply in_app_or in Hin as [Hin|Hin].
  - apply in_rev in Hin. apply filter_ids_incl in Hin. eapply Hdis; eauto.
  - eapply Hd; [|exact Hin]. rewrite map_app. apply in_or_app; right; assumption.
Qed.

Section FollowWalk.
  Variables sel sf : obj -> bool.
  Variable cf : bool.

  Definition follow_ok (v : obj) : Prop :=
    forall st, ok (walk sf cf v) st -> follow sel sf cf v st = ext sel st (walk sf cf v).

  Lemma follow_elems_walk vs :
    Forall follow_ok vs ->
    forall st, ok (flat_map (wval sf cf) vs) st ->
    follow_elems (follow sel sf cf) sf vs st = ext sel st (flat_map (wval sf cf) vs).
  Proof.
    induction 1 as [|v vs Hv Hvs IH]; intros st Hok; simpl.
    - symmetry; apply ext_nil.
    - simpl in Hok. rewrite <- ext_app. rewrite <- IH by (eapply ok_app_r; exact Hok).
      f_equal. apply ok_app_l in Hok. unfold wval in *. destruct (sf v).
      + apply Hv; assumption.
      + symmetry; apply ext_nil.
  Qed.

  Lemma follow_attrs_walk slots :
    Forall (fun mvs : ameta * list obj => Forall follow_ok (snd mvs)) slots ->
    forall st, ok (below sf cf slots) st ->
    follow_attrs (follow sel sf cf) sf slots st = ext sel st (below sf cf slots).
  Proof.
    induction 1 as [|[m vs] slots Hm Hs IH]; intros st Hok; simpl.
    - symmetry; apply ext_nil.
    - unfold below in Hok; simpl in Hok. fold (below sf cf slots) in Hok.
      unfold below; simpl. fold (below sf cf slots).
      rewrite <- ext_app. rewrite <- IH by (eapply ok_app_r; exact Hok).
      f_equal. apply ok_app_l in Hok. unfold wslot in *; simpl in *.
      destruct (acont m); [|symmetry; apply ext_nil].
      destruct (amany m).
      + apply follow_elems_walk; assumption.
      + destruct vs as [|v vs']; [symmetry; apply ext_nil|].
        inversion Hm as [|v0 l0 Hv _]; subst. unfold wval in *. destruct (sf v).
        * apply Hv; assumption.
        * symmetry; apply ext_nil.
  Qed.

End FollowWalk.

Lemma follow_walk sel sf cf : forall o, follow_ok sel sf cf o.
Proof.
  induction o as [k t|t|id c slots IH] using obj_ind'; intros st Hok.
  - simpl. symmetry; apply ext_nil.
  - simpl. symmetry; apply ext_nil.
  - cbn [follow]. rewrite walk_node in *.
    assert (Hid : mem_N id (snd st) = false).
    { apply mem_N_false. destruct Hok as [_ Hd]. apply Hd. destruct cf.
      - rewrite map_app. apply in_or_app; right; simpl; left; reflexivity.
      - simpl; left; reflexivity. }
    rewrite Hid. destruct cf; simpl.
    + (* children first *)
      rewrite (follow_attrs_walk sel sf true slots IH st (ok_app_l _ _ _ Hok)).
      rewrite <- ext_app. rewrite ext_one. reflexivity.
    + change (Node id c slots :: below sf false slots) with ([Node id c slots] ++ below sf false slots) in *.
      rewrite <- ext_app.
      rewrite <- (follow_attrs_walk sel sf false slots IH _ (ok_app_r sel _ _ _ Hok)).
      rewrite ext_one. simpl. destruct (sel (Node id c slots)); reflexivity.
Qed.

Theorem get_children_walk sel sf cf root :
  NoDup (ids (walk sf cf root)) ->
  get_children sel root cf sf = filter sel (walk sf cf root).
Proof.
  intro Hn. unfold get_children. rewrite follow_walk.
  - reflexivity.
  - split; [assumption | intros x _ []].
Qed.
