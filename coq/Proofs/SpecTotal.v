(* The refinement theorem without the "if the interpreter terminates" proviso: tables in the class wfg
   never crash the interpreter (no Abort 1), and for terminating tables (Proofs/PegTerm.v) a computable
   fuel suffices (no Abort 0). *)
From TxV Require Import Proofs.PegFuel Proofs.PegTerm.
From TxV Require Import Core.Base Model.PegSyntax Model.Peg Model.Spec Model.Build
     Proofs.SpecProofs Proofs.SpecSepProofs.
Require Import Lia.

Section NoCrash.
Variable g : grammar.
Variable input : list N.
Variable orc : nat -> nat -> option nat.
Variable pf : nat.
Hypothesis Hcm : g_comments g = None.
Hypothesis Hwf : forall nid nd, get_node g nid = Some nd -> node_ok g (prodb g pf) nd = true.

Notation parser := (nat -> bool -> st -> out) (only parsing).
Definition nocrash (rec : parser) : Prop := forall nid psq s w, valid g nid -> rec nid psq s = Abort w -> w = 0.

Lemma seq_loop_nc rec psq kids : nocrash rec -> Forall (valid g) kids ->
  forall acc s w, seq_loop rec psq kids acc s = Abort w -> w = 0.
Proof.
  intros Hr. induction kids as [|c kids IH]; intros Hv acc s w H; cbn [seq_loop] in H; [discriminate|].
  inversion Hv as [|? ? Hc Hv']; subst.
  destruct (rec c psq s) as [r s1|s1|w1] eqn:E; try discriminate.
  - apply (IH Hv' _ _ _ H).
  - inversion H; subst. apply (Hr c psq s w Hc E).
Qed.

Lemma choice_loop_nc rec cp kids : nocrash rec -> Forall (valid g) kids ->
  forall s w, choice_loop rec cp kids s = Abort w -> w = 0.
Proof.
  intros Hr. induction kids as [|c kids IH]; intros Hv s w H; cbn [choice_loop] in H; [discriminate|].
  inversion Hv as [|? ? Hc Hv']; subst.
  destruct (rec c false s) as [r s1|s1|w1] eqn:E.
  - destruct (is_none r); [apply (IH Hv' _ _ H) | discriminate].
  - apply (IH Hv' _ _ H).
  - inversion H; subst. apply (Hr c false s w Hc E).
Qed.

Lemma rep_loop_nc rec e sep plus : nocrash rec -> valid g e -> (forall sp, sep = Some sp -> valid g sp) ->
  forall k first acc s w, rep_loop rec e sep plus k first acc s = Abort w -> w = 0.
Proof.
  intros Hr He Hs. induction k as [|k IH]; intros first acc s w H; [inversion H; reflexivity|].
  rewrite rep_loop_S in H.
  assert (Hel : forall c acc1 s1, rep_elem rec e sep plus k first c acc1 s1 = Abort w -> w = 0).
  { intros c acc1 s1 X. unfold rep_elem in X. destruct (rec e false s1) as [r s2|s2|w1] eqn:E.
    - destruct (truthy r); [apply (IH _ _ _ _ X) | discriminate].
    - destruct (plus && first)%bool; discriminate.
    - inversion X; subst. apply (Hr e false s1 w He E). }
  destruct sep as [sp|]; [|apply (Hel _ _ _ H)].
  destruct first; [apply (Hel _ _ _ H)|].
  destruct (rec sp false s) as [sr s1|s1|w1] eqn:E.
  - apply (Hel _ _ _ H).
  - destruct (plus && false)%bool; discriminate.
  - inversion H; subst. apply (Hr sp false s w (Hs sp eq_refl) E).
Qed.

Lemma parse_nc : forall f, nocrash (parse g input orc false f).
Proof.
  induction f as [|f IH]; intros nid psq s w Hv H; [inversion H; reflexivity|].
  cbn [parse] in H. destruct (get_node g nid) as [nd|] eqn:En.
  2:{ exfalso. unfold get_node in En. apply nth_error_None in En. unfold valid in Hv. lia. }
  pose proof (Hwf _ _ En) as Hok. unfold node_ok in Hok.
  apply andb_true_iff in Hok as [Hok Hkind]. apply andb_true_iff in Hok as [Hok Hkids].
  apply andb_true_iff in Hok as [Hok _]. apply andb_true_iff in Hok as [Hsepok _].
  assert (Hval : Forall (valid g) (n_kids nd)).
  { apply Forall_forall. intros c Hc. rewrite forallb_forall in Hkids. specialize (Hkids c Hc). apply Nat.ltb_lt in Hkids. exact Hkids. }
  destruct (is_match_kind (n_kind nd)) eqn:Em.
  - assert (HT : forall s0 w0, match term_parse input orc nid (n_kind nd) psq s0 with
                               | Ok r s2 => Ok (if n_suppress nd then RNone else r) s2
                               | o => o end = Abort w0 -> False).
    { intros s0 w0 X. destruct (n_kind nd) as [| | | | | | | | | |t o|o]; try discriminate; cbn [term_parse] in X.
      - destruct (Nat.eqb (length input) (pos s0)); discriminate.
      - destruct o as [o|]; [destruct (orc o (pos s0))|]; try discriminate.
        destruct (is_prefix t (skipn (pos s0) input)); discriminate.
      - destruct (orc o (pos s0)) as [l|]; [destruct (Nat.eqb l 0)|]; discriminate. }
    unfold match_pre, parse_comments in H. rewrite Hcm in H. cbv zeta in H.
    destruct (if skipws (maybe_skip_ws input s) then lookup (pos (maybe_skip_ws input s)) (cpos (maybe_skip_ws input s)) else None) as [q|].
    + exfalso. apply (HT _ _ H).
    + destruct (in_cmt (maybe_skip_ws input s)); exfalso; apply (HT _ _ H).
  - cbv iota in H.
    assert (HB : forall w0, body (parse g input orc false f) f nd s = Abort w0 -> w0 = 0).
    { intros w0 X. unfold body in X. destruct (n_kind nd) eqn:Ek; try discriminate.
      - destruct (seq_loop (parse g input orc false f) true (n_kids nd) [] (enter_ws nd s)) as [r s1|s1|w1] eqn:E; try discriminate.
        + destruct r as [| |[|]]; discriminate.
        + inversion X; subst. apply (seq_loop_nc _ _ _ IH Hval _ _ _ E).
      - destruct (choice_loop (parse g input orc false f) (pos s) (n_kids nd) (enter_ws nd s)) as [r s1|s1|w1] eqn:E; try discriminate.
        + destruct (is_none r); discriminate.
        + inversion X; subst. apply (choice_loop_nc _ _ _ IH Hval _ _ E).
      - destruct (n_kids nd) as [|e rest]; [discriminate|]. inversion Hval; subst.
        destruct (parse g input orc false f e false s) as [r s1|s1|w1] eqn:E; try discriminate.
        inversion X; subst. apply (IH e false s w0); assumption.
      - destruct (n_kids nd) as [|e rest]; [discriminate|]. inversion Hval; subst.
        destruct (rep_loop (parse g input orc false f) e (n_sep nd) false f true [] (enter_eol nd s)) as [r s1|s1|w1] eqn:E; try discriminate.
        inversion X; subst. apply (rep_loop_nc _ e (n_sep nd) false IH) in E; [exact E | assumption|].
        intros sp Es. unfold sep_ok in Hsepok. rewrite Es, Ek in Hsepok. apply Nat.ltb_lt in Hsepok. exact Hsepok.
      - destruct (n_kids nd) as [|e rest]; [discriminate|]. inversion Hval; subst.
        destruct (rep_loop (parse g input orc false f) e (n_sep nd) true f true [] (enter_eol nd s)) as [r s1|s1|w1] eqn:E; try discriminate.
        inversion X; subst. apply (rep_loop_nc _ e (n_sep nd) true IH) in E; [exact E | assumption|].
        intros sp Es. unfold sep_ok in Hsepok. rewrite Es, Ek in Hsepok. apply Nat.ltb_lt in Hsepok. exact Hsepok.
      - destruct (seq_loop (parse g input orc false f) false (n_kids nd) [] s) as [r s1|s1|w1] eqn:E; try discriminate.
        inversion X; subst. apply (seq_loop_nc _ _ _ IH Hval _ _ _ E).
      - destruct (seq_loop (parse g input orc false f) false (n_kids nd) [] s) as [r s1|s1|w1] eqn:E; try discriminate.
        inversion X; subst. apply (seq_loop_nc _ _ _ IH Hval _ _ _ E). }
    destruct (body (parse g input orc false f) f nd s) as [r s1|s1|w1] eqn:Eb; try discriminate.
    inversion H; subst. apply HB. reflexivity.
Qed.
End NoCrash.

Lemma wfg_no_crash g pf c orc fuel input w :
  wfg g pf = true -> run g c orc false fuel input = Aborted w -> w = 0.
Proof.
  intros Hwf H. destruct (wfg_parts g pf Hwf) as [Hnodes [Hcm Htop]].
  unfold run in H. destruct (parse g input orc false fuel (g_top g) false (init_st c)) as [r s|s|w1] eqn:E; try discriminate.
  inversion H; subst. apply (parse_nc g input orc pf Hcm Hnodes fuel (g_top g) false (init_st c) w Htop E).
Qed.

(* C01_refinement_total: for tables in the class that pass the termination analysis (both decidable),
   a sane non-empty-match oracle and any fuel from the computable bound on, the interpreter returns a
   verdict, and it is the verdict of the documented semantics, with the tree clauses of the partial theorem *)
Theorem refinement_total g pf c orc input f :
  wfg g pf = true -> terminating none_nullable g = true -> orc_sane g input orc -> Spec.orc_pos orc ->
  fuel_bound none_nullable g input <= f ->
  (exists r ts p, run g c orc false f input = Parsed r /\ spec_run g c orc f input = SOk ts p /\
                  (nosep g = true -> erase_all ts = flatten r) /\
                  exists tsq, spec_run_q g c orc f input = SOk tsq p /\ erase_all tsq = flatten r) \/
  (exists e, run g c orc false f input = SyntaxErr e /\ spec_run g c orc f input = SFail).
Proof.
  intros Hwf Ht Hs Hp L.
  pose proof (run_terminates_pos g c orc false input f Ht Hs Hp L) as NA.
  pose proof (refinement g pf c orc f input Hwf Hp) as HR.
  destruct (run g c orc false f input) as [r|e|w] eqn:E.
  - left. destruct HR as [ts [p [Es [Hn Hq]]]]. exists r, ts, p. repeat split; assumption.
  - right. exists e. split; [reflexivity | exact HR].
  - exfalso. apply NA. f_equal. apply (wfg_no_crash g pf c orc f input w Hwf E).
Qed.

(* non-vacuity: the rich grammar of the partial theorem satisfies every hypothesis *)
Lemma rich_orc_facts : orc_sane g_rich in_rich (orc_of t_rich) /\ Spec.orc_pos (orc_of t_rich).
Proof.
  assert (H : forall o p l, orc_of t_rich o p = Some l -> p + l <= 8 /\ 0 < l).
  { intros o p l E. unfold orc_of, t_rich in E.
    repeat match type of E with
           | (if ?b then _ else _) = _ => destruct b eqn:?
           end; try discriminate;
    inversion E; subst;
    repeat match goal with
           | X : (_ && _)%bool = true |- _ => apply andb_true_iff in X as [? ?]
           | X : Nat.eqb _ _ = true |- _ => apply Nat.eqb_eq in X; subst
           end; lia. }
  split; [split|].
  - intros o p l E. apply (H o p l E).
  - intros nid nd t o p x Hn Hk.
    do 19 (destruct nid as [|nid]; [cbn in Hn; inversion Hn; subst; discriminate|]).
    unfold get_node in Hn. cbn in Hn. destruct nid; discriminate.
  - intros o p l E. apply (H o p l E).
Qed.

Lemma rich_total_nonvacuous :
  wfg g_rich 24 = true /\ terminating none_nullable g_rich = true /\
  orc_sane g_rich in_rich (orc_of t_rich) /\ Spec.orc_pos (orc_of t_rich) /\
  fuel_bound none_nullable g_rich in_rich = 106 /\
  accepts (run g_rich c_default (orc_of t_rich) false 106 in_rich) = true.
Proof.
  destruct rich_orc_facts as [A B].
  split; [vm_compute; reflexivity|]. split; [vm_compute; reflexivity|]. split; [exact A|]. split; [exact B|].
  split; vm_compute; reflexivity.
Qed.

(* ---------------------------------------------------------------- boundaries of the widened class *)
(* Model: xs+=A[eolterm] 'end'; A[ws=' ']: 'a';  on "a a\nend": a rule-level ws inside an eolterm repetition is
   restored wrongly (the newline-stripped effective set becomes the real one), the newline before 'end' is
   no longer skipped *)
Definition g_eolws : grammar := (mkGrammar [mkNode KSeq [1;6] None false [77;111;100;101;108]%N true false None None;
  mkNode KSeq [2;5] None false [77;111;100;101;108]%N true false None None;
  mkNode KPlus [3] None true [95;95;97;115;103;110;95;111;110;101;111;114;109;111;114;101]%N true false None None;
  mkNode KSeq [4] None false [65]%N true false (Some [32]%N) None;
  mkNode (KStr [97]%N None) [] None false []%N false false None None;
  mkNode (KStr [101;110;100]%N None) [] None false []%N false false None None;
  mkNode KEOF [] None false [69;79;70]%N false false None None] 0 None).
Lemma refuted_eolws :
  wfg g_eolws 24 = false /\ eol_ws_ok g_eolws = false /\
  saccepts (spec_run g_eolws c_default (fun _ _ => None) 50 [97;32;97;10;101;110;100]%N) = true /\
  run g_eolws c_default (fun _ _ => None) false 50 [97;32;97;10;101;110;100]%N = SyntaxErr 3.
Proof. vm_compute. repeat split. Qed.

(* the same repetition without the rule-level ws is inside the class and agrees *)
Definition g_eol : grammar := (mkGrammar [mkNode KSeq [1;6] None false [77;111;100;101;108]%N true false None None;
  mkNode KSeq [2;5] None false [77;111;100;101;108]%N true false None None;
  mkNode KPlus [3] None true [95;95;97;115;103;110;95;111;110;101;111;114;109;111;114;101]%N true false None None;
  mkNode KSeq [4] None false [65]%N true false None None;
  mkNode (KStr [97]%N None) [] None false []%N false false None None;
  mkNode (KStr [101;110;100]%N None) [] None false []%N false false None None;
  mkNode KEOF [] None false [69;79;70]%N false false None None] 0 None).
Lemma eol_in_class :
  wfg g_eol 24 = true /\
  accepts (run g_eol c_default (fun _ _ => None) false 50 [97;32;97;10;101;110;100]%N) = true /\
  accepts (run g_eol c_default (fun _ _ => None) false 50 [97;10;97;10;101;110;100]%N) = false.
Proof. vm_compute. repeat split. Qed.

(* Model: a=A 'x'; A: &'x';  on "x": a predicate as a rule body - the rule matches the empty string *)
Definition g_predroot : grammar := (mkGrammar [mkNode KSeq [1;6] None false [77;111;100;101;108]%N true false None None;
  mkNode KSeq [2;5] None false [77;111;100;101;108]%N true false None None;
  mkNode KSeq [3] None false [95;95;97;115;103;110;95;112;108;97;105;110]%N true false None None;
  mkNode KAnd [4] None false [65]%N true false None None;
  mkNode (KStr [120]%N None) [] None false []%N false false None None;
  mkNode (KStr [120]%N None) [] None false []%N false false None None;
  mkNode KEOF [] None false [69;79;70]%N false false None None] 0 None).
Lemma refuted_predroot :
  wfg g_predroot 24 = false /\
  run_tree (run g_predroot c_default (fun _ _ => None) false 50 [120]%N) = [NT 0 [NT 1 [T 5 0 1 true]; T 6 1 0 true]] /\
  spec_tree (spec_run g_predroot c_default (fun _ _ => None) 50 [120]%N) =
    [NT 0 [NT 1 [NT 2 [NT 3 []]; T 5 0 1 true]; T 6 1 0 true]].
Proof. vm_compute. repeat split. Qed.
