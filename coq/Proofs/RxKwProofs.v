(* Cross-validation: the hand-written keyword matcher of the C21 model (Model/Kw.v, kw_match: literal then word
   boundary, positions by index) agrees with the semantics Model/Rx.v gives to the keyword pattern `<literal>\b`
   as the regex translator emits it (rx_kw), for every literal, input, position, word classification of the
   non-ASCII code points and both settings of IGNORECASE (ASCII folding).  Model/Kw.v is imported read-only. *)
From TxV Require Import Core.Base Model.Rx Proofs.RxProofs Proofs.RxLibProofs Model.Kw.
Require Import Lia.

Lemma lit_pre_kw E : forall t s, lit_pre E t s = lit_prefix lower_ascii (e_ignorecase E) t s.
Proof.
  induction t as [|x t IH]; intros s; [reflexivity|]. destruct s as [|c s']; [reflexivity|].
  cbn [lit_pre lit_prefix]. rewrite IH. f_equal.
  unfold chr_eq, ceq. destruct (e_ignorecase E); cbn [andb].
  - destruct (N.eqb_spec c x) as [->|Hne]; cbn [orb]; [rewrite N.eqb_refl; reflexivity | apply N.eqb_sym].
  - rewrite orb_false_r. apply N.eqb_sym.
Qed.

Lemma firstn_add {A} (p k : nat) : forall l : list A, firstn (p + k) l = firstn p l ++ firstn k (skipn p l).
Proof. induction p as [|p IH]; intros l; [reflexivity|]. destruct l as [|x l]; [destruct k; reflexivity|]. cbn. rewrite IH. reflexivity. Qed.

Lemma skipn_add {A} (p k : nat) : forall l : list A, skipn k (skipn p l) = skipn (p + k) l.
Proof. induction p as [|p IH]; intros l; [reflexivity|]. destruct l as [|x l]; [destruct k; reflexivity|]. cbn. apply IH. Qed.

Lemma skipn_hd {A} (q : nat) : forall l : list A,
  skipn q l = match nth_error l q with Some c => c :: skipn (S q) l | None => [] end.
Proof.
  induction q as [|q IH]; intros l; destruct l as [|x l]; try reflexivity. cbn [skipn nth_error]. apply IH.
Qed.

Lemma rev_firstn_S {A} (q : nat) : forall l : list A,
  rev (firstn (S q) l) = match nth_error l q with Some c => c :: rev (firstn q l) | None => rev (firstn q l) end.
Proof.
  induction q as [|q IH]; intros l.
  - destruct l as [|x l]; reflexivity.
  - destruct l as [|x l]; [reflexivity|].
    change (firstn (S (S q)) (x :: l)) with (x :: firstn (S q) l). cbn [rev nth_error]. rewrite IH.
    destruct (nth_error l q); reflexivity.
Qed.

(* the word boundary of Rx on the state after q characters = Kw's index-based boundary at q *)
Lemma boundary_kw E input q : q <= length input ->
  word_boundary E (rev (firstn q input), skipn q input) = boundary (is_word E) input q.
Proof.
  intros Hq. unfold word_boundary, boundary. cbn [fst snd]. f_equal.
  - destruct q as [|q']; [reflexivity|]. unfold word_before, word_at. rewrite rev_firstn_S.
    destruct (nth_error input q') eqn:Hn; [reflexivity|]. apply nth_error_None in Hn. lia.
  - unfold word_at. rewrite skipn_hd. destruct (nth_error input q); reflexivity.
Qed.

Lemma lit_prefix_len lower icase : forall t s, lit_prefix lower icase t s = true -> length t <= length s.
Proof.
  induction t as [|x t IH]; intros s H; [cbn; lia|]. destruct s as [|c s']; [discriminate|].
  cbn [lit_prefix] in H. apply andb_true_iff in H as [_ H]. specialize (IH _ H). cbn [length]. lia.
Qed.

Theorem rx_kw_agrees_with_kw_match E t input p : p <= length input ->
  rx_match E (rx_kw t) (rev (firstn p input)) (skipn p input)
  = kw_match (is_word E) lower_ascii (e_ignorecase E) t input p.
Proof.
  intros Hp. rewrite rx_match_kw. unfold kw_match. rewrite lit_pre_kw.
  destruct (lit_prefix lower_ascii (e_ignorecase E) t (skipn p input)) eqn:Hl; [|reflexivity].
  cbn [andb]. apply lit_prefix_len in Hl. rewrite skipn_length in Hl.
  rewrite <- rev_app_distr, <- firstn_add, skipn_add. rewrite boundary_kw by lia. reflexivity.
Qed.
Print Assumptions rx_kw_agrees_with_kw_match.
