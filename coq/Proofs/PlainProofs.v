(* C07 — proofs about Model/Plain.v *)
From TxV Require Import Core.Base Model.PlainDefs Gen.SrcPlain Model.Plain.

(* the translated dispatch table is the documented one: one match -> it, several -> error, none -> None *)
Lemma dispatch_spec : forall cands,
  dispatch plain_dispatch cands =
  match cands with [] => PNone | [pn] => POne (fst pn) | _ :: _ :: _ => PNotUnique end.
Proof. intros [|a [|b r]]; reflexivity. Qed.
