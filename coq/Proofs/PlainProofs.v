(* C07 — proofs about Model/Plain.v *)
From TxV Require Import Core.Base Model.PlainDefs Gen.SrcPlain Model.Plain.
Require Import Lia.

(* ------------------------------------------------------------------ small list facts *)
Lemma mem_nat_In x l : mem_nat x l = true <-> In x l.
Proof.
  unfold mem_nat. rewrite existsb_exists. split.
  - intros [y [Hy E]]. apply Nat.eqb_eq in E. subst. exact Hy.
  - intro H. exists x. split; [exact H | apply Nat.eqb_refl].
Qed.

Lemma mem_nat_false x l : mem_nat x l = false <-> ~ In x l.
Proof.
  split.
  - intros E H. apply mem_nat_In in H. congruence.
  - intro H. destruct (mem_nat x l) eqn:E; [|reflexivity]. apply mem_nat_In in E. contradiction.
Qed.

Lemma filter_len_le {A} (p q : A -> bool) l :
  (forall x, In x l -> p x = true -> q x = true) -> length (filter p l) <= length (filter q l).
Proof.
  induction l as [|a l IH]; intro H; simpl; [lia|].
  assert (IH' : length (filter p l) <= length (filter q l)).
  { apply IH. intros x Hx. apply H. right; exact Hx. }
  destruct (p a) eqn:Ep.
  - rewrite (H a (or_introl eq_refl) Ep). simpl. lia.
  - destruct (q a); simpl; lia.
Qed.

Lemma filter_len_lt {A} (p q : A -> bool) l a :
  In a l -> q a = true -> p a = false ->
  (forall x, In x l -> p x = true -> q x = true) -> length (filter p l) < length (filter q l).
Proof.
  induction l as [|b l IH]; intros Hin Hq Hp H; simpl; [contradiction|].
  assert (Hle : length (filter p l) <= length (filter q l)).
  { apply filter_len_le. intros x Hx. apply H. right; exact Hx. }
  destruct Hin as [->|Hin].
  - rewrite Hp, Hq. simpl. lia.
  - assert (IH' : length (filter p l) < length (filter q l)).
    { apply IH; try assumption. intros x Hx. apply H. right; exact Hx. }
    destruct (p b) eqn:Ep.
    + rewrite (H b (or_introl eq_refl) Ep). simpl. lia.
    + destruct (q b); simpl; lia.
Qed.

(* ------------------------------------------------------------------ conformance *)
Section ConfProofs.
  Variable classes : list cls.
  Variable dc : list nat.
  Notation inh := (inh classes).
  Notation local := (local classes dc).
  Notation n := (length classes).

  (* declarative conformance: some class reachable from the target over _tx_inh_by edges passes one of
     the three direct tests (its name is OBJECT / the object is an instance of it / same fqn) *)
  Inductive Reach : nat -> nat -> Prop :=
  | ReachRefl c : Reach c c
  | ReachStep c d e : In d (inh c) -> Reach d e -> Reach c e.

  Definition Conforms (t : nat) : Prop := exists c, Reach t c /\ local c = true.

  Inductive Conf : nat -> Prop :=
  | CLocal c : local c = true -> Conf c
  | CStep c d : In d (inh c) -> Conf d -> Conf c.

  Lemma Conf_Conforms t : Conf t <-> Conforms t.
  Proof.
    split.
    - induction 1 as [c H|c d Hd _ [e [He Hl]]].
      + exists c. split; [constructor | exact H].
      + exists e. split; [econstructor; eassumption | exact Hl].
    - intros [c [Hr Hl]]. induction Hr as [c|c d e Hd _ IH].
      + apply CLocal; exact Hl.
      + eapply CStep; [exact Hd | apply IH; exact Hl].
  Qed.

  Definition dfs_go (f : nat) : list nat -> list nat -> option (bool * list nat) :=
    fix go (v : list nat) (l : list nat) : option (bool * list nat) :=
      match l with
      | [] => Some (false, v)
      | d :: r =>
        if mem_nat d v then go v r
        else match dfs classes dc f v d with
             | None => None
             | Some (true, v') => Some (true, v')
             | Some (false, v') => go v' r
             end
      end.

  Lemma dfs_S f v c :
    dfs classes dc (S f) v c = if local c then Some (true, v) else dfs_go f (c :: v) (inh c).
  Proof. reflexivity. Qed.

  (* what a finished, unsuccessful search leaves in `visited` *)
  Definition closed_from (v v' : list nat) : Prop :=
    forall x, In x v' -> ~ In x v -> local x = false /\ incl (inh x) v'.

  Lemma dfs_inv : forall f v c b v', dfs classes dc f v c = Some (b, v') ->
    (b = true -> Conf c) /\
    (b = false -> incl v v' /\ In c v' /\ closed_from v v').
  Proof.
    induction f as [|f IHf]; intros v c b v' H; [discriminate|].
    assert (Hgo : forall l v0 b0 v0', dfs_go f v0 l = Some (b0, v0') ->
              (b0 = true -> exists d, In d l /\ Conf d) /\
              (b0 = false -> incl v0 v0' /\ incl l v0' /\ closed_from v0 v0')).
    { induction l as [|d r IHl]; intros v0 b0 v0' Hg; simpl in Hg.
      - inversion Hg; subst. split; [discriminate|]. intros _.
        split; [apply incl_refl|]. split; [intros x []|]. intros x Hx Hnx. contradiction.
      - destruct (mem_nat d v0) eqn:Em.
        + apply IHl in Hg. destruct Hg as [Ht Hf]. split.
          * intro E. destruct (Ht E) as [d' [Hd' Hc]]. exists d'. split; [right; exact Hd' | exact Hc].
          * intro E. destruct (Hf E) as [Hi [Hr Hcl]]. split; [exact Hi|]. split; [|exact Hcl].
            intros x [<-|Hx]; [apply Hi; apply mem_nat_In; exact Em | apply Hr; exact Hx].
        + destruct (dfs classes dc f v0 d) as [[[|] v1]|] eqn:Ed; [| |discriminate].
          * inversion Hg; subst. split; [|discriminate]. intros _.
            exists d. split; [left; reflexivity|]. apply (IHf _ _ _ _ Ed). reflexivity.
          * destruct (proj2 (IHf _ _ _ _ Ed) eq_refl) as [Hi1 [Hd1 Hcl1]].
            apply IHl in Hg. destruct Hg as [Ht Hf]. split.
            -- intro E. destruct (Ht E) as [d' [Hd' Hc]]. exists d'. split; [right; exact Hd' | exact Hc].
            -- intro E. destruct (Hf E) as [Hi2 [Hr Hcl2]].
               split; [intros x Hx; apply Hi2, Hi1, Hx|].
               split; [intros x [<-|Hx]; [apply Hi2, Hd1 | apply Hr, Hx]|].
               intros x Hx Hnx. destruct (mem_nat x v1) eqn:Ex.
               ++ apply mem_nat_In in Ex. destruct (Hcl1 x Ex Hnx) as [Hl Hs].
                  split; [exact Hl|]. intros y Hy. apply Hi2, Hs, Hy.
               ++ apply mem_nat_false in Ex. apply Hcl2; assumption. }
    rewrite dfs_S in H. destruct (local c) eqn:El.
    - inversion H; subst. split; [|discriminate]. intros _. apply CLocal; exact El.
    - apply Hgo in H. destruct H as [Ht Hf]. split.
      + intro E. destruct (Ht E) as [d [Hd Hc]]. eapply CStep; eassumption.
      + intro E. destruct (Hf E) as [Hi [Hr Hcl]].
        split; [intros x Hx; apply Hi; right; exact Hx|].
        split; [apply Hi; left; reflexivity|].
        intros x Hx Hnx. destruct (Nat.eq_dec x c) as [->|Hne].
        * split; [exact El | exact Hr].
        * apply Hcl; [exact Hx|]. intros [E'|Hin]; [apply Hne; symmetry; exact E' | apply Hnx; exact Hin].
  Qed.

  Lemma closed_no_conf S :
    (forall x, In x S -> local x = false /\ incl (inh x) S) -> forall c, Conf c -> ~ In c S.
  Proof.
    intros Hcl c Hc. induction Hc as [c Hl|c d Hd _ IH]; intro Hin.
    - destruct (Hcl c Hin) as [E _]. congruence.
    - destruct (Hcl c Hin) as [_ Hs]. apply IH. apply Hs. exact Hd.
  Qed.

  Lemma dfs_top_sound fuel t v' : dfs classes dc fuel [] t = Some (true, v') -> Conf t.
  Proof. intro H. apply (dfs_inv _ _ _ _ _ H). reflexivity. Qed.

  Lemma dfs_top_complete fuel t v' : dfs classes dc fuel [] t = Some (false, v') -> ~ Conf t.
  Proof.
    intros H Hc. destruct (proj2 (dfs_inv _ _ _ _ _ H) eq_refl) as [_ [Hin Hcl]].
    apply (closed_no_conf v') with (c := t); [|exact Hc|exact Hin].
    intros x Hx. apply Hcl; [exact Hx | intros []].
  Qed.

  (* ---- the search never runs out of fuel on a well-formed table *)
  Definition unv (v : list nat) : nat := length (filter (fun x => negb (mem_nat x v)) (seq 0 n)).

  Lemma unv_incl v v' : incl v v' -> unv v' <= unv v.
  Proof.
    intro Hi. apply filter_len_le. intros x _ Hx.
    apply negb_true_iff in Hx. apply negb_true_iff. apply mem_nat_false. apply mem_nat_false in Hx.
    intro H. apply Hx, Hi, H.
  Qed.

  Lemma unv_cons c v : c < n -> ~ In c v -> unv (c :: v) < unv v.
  Proof.
    intros Hc Hn. apply filter_len_lt with (a := c).
    - apply in_seq. lia.
    - apply negb_true_iff. apply mem_nat_false. exact Hn.
    - apply negb_false_iff. apply mem_nat_In. left; reflexivity.
    - intros x _ Hx. apply negb_true_iff in Hx. apply negb_true_iff. apply mem_nat_false.
      apply mem_nat_false in Hx. intro H. apply Hx. right; exact H.
  Qed.

  Hypothesis Hwf : wf_classes classes = true.

  Lemma inh_bound c d : In d (inh c) -> d < n.
  Proof.
    unfold Plain.inh. destruct (nth_error classes c) as [k|] eqn:E; [|intros []].
    intro Hd. apply nth_error_In in E. unfold wf_classes in Hwf.
    rewrite forallb_forall in Hwf. specialize (Hwf k E). rewrite forallb_forall in Hwf.
    apply Nat.ltb_lt. apply Hwf. exact Hd.
  Qed.

  Lemma dfs_total : forall f v c, c < n -> ~ In c v -> unv v <= f -> dfs classes dc f v c <> None.
  Proof.
    induction f as [|f IHf]; intros v c Hc Hn Hu.
    - pose proof (unv_cons c v Hc Hn). lia.
    - assert (Hgo : forall l v0, (forall d, In d l -> d < n) -> unv v0 <= f -> dfs_go f v0 l <> None).
      { induction l as [|d r IHl]; intros v0 Hl Hu0; simpl; [discriminate|].
        destruct (mem_nat d v0) eqn:Em.
        - apply IHl; [intros x Hx; apply Hl; right; exact Hx | exact Hu0].
        - apply mem_nat_false in Em.
          destruct (dfs classes dc f v0 d) as [[[|] v1]|] eqn:Ed.
          + discriminate.
          + destruct (proj2 (dfs_inv _ _ _ _ _ Ed) eq_refl) as [Hi _].
            apply IHl; [intros x Hx; apply Hl; right; exact Hx|].
            pose proof (unv_incl _ _ Hi). lia.
          + exfalso. apply (IHf v0 d); [apply Hl; left; reflexivity | exact Em | exact Hu0 | exact Ed]. }
      rewrite dfs_S. destruct (local c); [discriminate|].
      apply Hgo; [intros d Hd; eapply inh_bound; exact Hd|].
      pose proof (unv_cons c v Hc Hn). lia.
  Qed.

  Lemma filter_all {A} (p : A -> bool) (l : list A) : (forall x, p x = true) -> filter p l = l.
  Proof. intro H. induction l as [|a l IH]; cbn [filter]; [reflexivity | rewrite H, IH; reflexivity]. Qed.

  Lemma unv_nil : unv [] = n.
  Proof. unfold unv. rewrite filter_all; [apply seq_length | reflexivity]. Qed.

  Lemma conforms_opt_total t : conforms_opt classes dc t <> None.
  Proof.
    unfold conforms_opt. destruct (lt_dec t n) as [Hlt|Hge].
    - destruct (dfs classes dc (S n) [] t) as [[b v]|] eqn:E; [discriminate|].
      exfalso. apply (dfs_total (S n) [] t Hlt); [intros [] | rewrite unv_nil; lia | exact E].
    - rewrite dfs_S. destruct (local t); [discriminate|].
      unfold Plain.inh. rewrite (proj2 (nth_error_None classes t)); [simpl; discriminate | lia].
  Qed.

  Lemma conforms_spec t : conforms classes dc t = true <-> Conforms t.
  Proof.
    rewrite <- Conf_Conforms. unfold conforms. pose proof (conforms_opt_total t) as Ht.
    unfold conforms_opt in *. destruct (dfs classes dc (S n) [] t) as [[[|] v]|] eqn:E.
    - split; [intros _; eapply dfs_top_sound; exact E | reflexivity].
    - split; [discriminate | intro Hc; exfalso; eapply dfs_top_complete; eassumption].
    - contradiction.
  Qed.
End ConfProofs.

(* ------------------------------------------------------------------ dispatch, selector *)
(* the translated dispatch table is the documented one: one match -> it, several -> error, none -> None *)
Lemma dispatch_spec : forall cands,
  dispatch plain_dispatch cands =
  match cands with [] => PNone | [pn] => POne (fst pn) | _ :: _ :: _ => PNotUnique end.
Proof. intros [|a [|b r]]; reflexivity. Qed.

(* ------------------------------------------------------------------ get_children *)
(* d is the object reached from n by following the child indices p *)
Inductive at_path : node -> list nat -> node -> Prop :=
| AtHere n : at_path n [] n
| AtKid c nm ks i k p d : nth_error ks i = Some k -> at_path k p d -> at_path (Node c nm ks) (i :: p) d.

Section NodeInd.
  Variable P : node -> Prop.
  Hypothesis H : forall c nm ks, Forall P ks -> P (Node c nm ks).
  Fixpoint node_ind2 (n : node) : P n :=
    match n with
    | Node c nm ks =>
      H c nm ks ((fix go (l : list node) : Forall P l :=
                    match l with
                    | [] => Forall_nil P
                    | k :: r => Forall_cons k (node_ind2 k) (go r)
                    end) ks)
    end.
End NodeInd.

Lemma at_path_fun n p d1 : at_path n p d1 -> forall d2, at_path n p d2 -> d1 = d2.
Proof.
  induction 1 as [n|c nm ks i k p d Hk _ IH]; intros d2 H2; inversion H2; subst; [reflexivity|].
  apply IH. congruence.
Qed.

Section Collect.
  Variable sel : node -> bool.

  Definition collect_kids : nat -> list node -> list (list nat * node) :=
    fix go (i : nat) (l : list node) : list (list nat * node) :=
      match l with
      | [] => []
      | k :: r => map (fun pn => (i :: fst pn, snd pn)) (collect sel k) ++ go (S i) r
      end.

  Lemma collect_unfold c nm ks :
    collect sel (Node c nm ks) =
    (if sel (Node c nm ks) then [([], Node c nm ks)] else []) ++ collect_kids 0 ks.
  Proof. reflexivity. Qed.

  Lemma collect_kids_In : forall ks i p d,
    In (p, d) (collect_kids i ks) <->
    exists j k p', p = (i + j) :: p' /\ nth_error ks j = Some k /\ In (p', d) (collect sel k).
  Proof.
    induction ks as [|k0 r IH]; intros i p d; simpl.
    - split; [intros [] | intros [j [k [p' [_ [Hn _]]]]]; destruct j; discriminate].
    - rewrite in_app_iff. split.
      + intros [Hin|Hin].
        * apply in_map_iff in Hin. destruct Hin as [[p0 d0] [E Hin]]. simpl in E. inversion E; subst.
          exists 0, k0, p0. split; [f_equal; lia|]. split; [reflexivity | exact Hin].
        * apply IH in Hin. destruct Hin as [j [k [p' [E [Hn Hin]]]]].
          exists (S j), k, p'. split; [rewrite E; f_equal; lia|]. split; assumption.
      + intros [j [k [p' [E [Hn Hin]]]]]. destruct j as [|j].
        * simpl in Hn. inversion Hn; subst. left. apply in_map_iff. exists (p', d).
          split; [simpl; f_equal; f_equal; lia | exact Hin].
        * right. apply IH. exists j, k, p'. split; [subst; f_equal; lia|]. split; assumption.
  Qed.

  Lemma collect_spec : forall n p d, In (p, d) (collect sel n) <-> at_path n p d /\ sel d = true.
  Proof.
    intro n. induction n as [c nm ks HF] using node_ind2. intros p d.
    rewrite collect_unfold, in_app_iff, collect_kids_In. rewrite Forall_forall in HF. split.
    - intros [Hin|[j [k [p' [E [Hn Hin]]]]]].
      + destruct (sel (Node c nm ks)) eqn:Es; [|destruct Hin]. destruct Hin as [Hin|[]].
        inversion Hin; subst. split; [constructor | exact Es].
      + simpl in E. subst. apply (HF k (nth_error_In _ _ Hn)) in Hin. destruct Hin as [Ha Hs].
        split; [econstructor; eassumption | exact Hs].
    - intros [Ha Hs]. inversion Ha; subst.
      + left. rewrite Hs. left; reflexivity.
      + right. exists i, k, p0. split; [reflexivity|]. split; [assumption|].
        apply (HF k); [eapply nth_error_In; eassumption|]. split; assumption.
  Qed.

  Lemma NoDup_app_intro {A} (l1 l2 : list A) :
    NoDup l1 -> NoDup l2 -> (forall x, In x l1 -> ~ In x l2) -> NoDup (l1 ++ l2).
  Proof.
    induction l1 as [|a l1 IH]; intros H1 H2 Hd; simpl; [exact H2|].
    inversion H1; subst. constructor.
    - rewrite in_app_iff. intros [Hin|Hin]; [contradiction | apply (Hd a); [left; reflexivity | exact Hin]].
    - apply IH; [assumption | assumption | intros x Hx; apply Hd; right; exact Hx].
  Qed.

  Lemma NoDup_map_cons (i : nat) (l : list (list nat)) : NoDup l -> NoDup (map (cons i) l).
  Proof.
    induction 1 as [|a l Hn _ IH]; simpl; constructor; [|exact IH].
    intro Hin. apply in_map_iff in Hin. destruct Hin as [x [E Hx]]. inversion E; subst. contradiction.
  Qed.

  Lemma collect_kids_paths ks i p :
    In p (map fst (collect_kids i ks)) -> exists j p', p = j :: p' /\ i <= j.
  Proof.
    intro Hin. apply in_map_iff in Hin. destruct Hin as [[p0 d] [E Hin]]. simpl in E. subst p0.
    apply collect_kids_In in Hin. destruct Hin as [j [k [p' [E _]]]]. exists (i + j), p'. split; [exact E | lia].
  Qed.

  Lemma collect_kids_NoDup : forall ks i,
    Forall (fun k => NoDup (map fst (collect sel k))) ks -> NoDup (map fst (collect_kids i ks)).
  Proof.
    induction ks as [|k0 r IH]; intros i HF; simpl; [constructor|].
    inversion HF; subst. rewrite map_app, map_map. simpl.
    rewrite <- (map_map fst (cons i)). apply NoDup_app_intro.
    - apply NoDup_map_cons. assumption.
    - apply IH. assumption.
    - intros x Hx Hx2. apply in_map_iff in Hx. destruct Hx as [q [E _]]. subst x.
      apply collect_kids_paths in Hx2. destruct Hx2 as [j [p' [E Hle]]]. inversion E; subst. lia.
  Qed.

  Lemma collect_NoDup : forall n, NoDup (map fst (collect sel n)).
  Proof.
    intro n. induction n as [c nm ks HF] using node_ind2.
    rewrite collect_unfold, map_app. apply NoDup_app_intro.
    - destruct (sel (Node c nm ks)); simpl; [constructor; [intros [] | constructor] | constructor].
    - apply collect_kids_NoDup. exact HF.
    - intros x Hx Hx2. apply collect_kids_paths in Hx2. destruct Hx2 as [j [p' [E _]]]. subst x.
      destruct (sel (Node c nm ks)); simpl in Hx; [destruct Hx as [Hx|[]]; discriminate | contradiction].
  Qed.
End Collect.

(* ------------------------------------------------------------------ PlainName and resolve_one_step *)
Section Resolve.
  Variable classes : list cls.
  Hypothesis Hwf : wf_classes classes = true.
  Variable root : node.

  (* the candidate set of the property: an object contained in the model (the root included) whose
     name is the reference text and whose class conforms to the target *)
  Definition Cand (n : list N) (t : nat) (p : list nat) (d : node) : Prop :=
    at_path root p d /\ nname_of d = NameStr n /\ Conforms classes (direct_of classes (ncls_of d)) t.

  Definition NoCand n t : Prop := forall p d, ~ Cand n t p d.
  Definition UniqueCand n t p : Prop := exists d, Cand n t p d /\ forall p' d', Cand n t p' d' -> p' = p.
  Definition ManyCand n t : Prop := exists p1 d1 p2 d2, p1 <> p2 /\ Cand n t p1 d1 /\ Cand n t p2 d2.

  Lemma selector_spec n t d :
    selector classes n t d = true <-> nname_of d = NameStr n /\ Conforms classes (direct_of classes (ncls_of d)) t.
  Proof.
    unfold selector, selector_conj. cbn [forallb]. rewrite !andb_true_iff, (conforms_spec classes _ Hwf).
    unfold has_name, name_eq. destruct (nname_of d) as [|s|].
    - split; [intros [E _]; discriminate | intros [E _]; discriminate].
    - rewrite str_eqb_eq. split.
      + intros [_ [-> [Hc _]]]. split; [reflexivity | exact Hc].
      + intros [E Hc]. inversion E; subst. repeat split; assumption.
    - split; [intros [_ [E _]]; discriminate | intros [E _]; discriminate].
  Qed.

  Lemma candidates_spec n t p d : In (p, d) (candidates classes root n t) <-> Cand n t p d.
  Proof.
    unfold candidates, Cand. rewrite collect_spec, selector_spec. tauto.
  Qed.

  Lemma candidates_cases n t :
    match candidates classes root n t with
    | [] => NoCand n t
    | [(p, d)] => Cand n t p d /\ forall p' d', Cand n t p' d' -> p' = p
    | (p1, d1) :: (p2, d2) :: _ => p1 <> p2 /\ Cand n t p1 d1 /\ Cand n t p2 d2
    end.
  Proof.
    pose proof (candidates_spec n t) as Hs.
    pose proof (collect_NoDup (selector classes n t) root) as Hnd. fold (candidates classes root n t) in Hnd.
    destruct (candidates classes root n t) as [|[p1 d1] [|[p2 d2] r]].
    - intros p d Hc. apply Hs in Hc. destruct Hc.
    - split; [apply Hs; left; reflexivity|]. intros p' d' Hc. apply Hs in Hc.
      destruct Hc as [Hc|[]]. inversion Hc; reflexivity.
    - split; [|split; apply Hs; [left; reflexivity | right; left; reflexivity]].
      simpl in Hnd. inversion Hnd as [|x l Hn _]; subst. intro E. apply Hn. left. symmetry; exact E.
  Qed.

  (* the three situations exclude each other *)
  Lemma unique_not_none n t p : UniqueCand n t p -> ~ NoCand n t.
  Proof. intros [d [Hc _]] Hn. exact (Hn p d Hc). Qed.
  Lemma unique_not_many n t p : UniqueCand n t p -> ~ ManyCand n t.
  Proof.
    intros [d [_ Hu]] [p1 [d1 [p2 [d2 [Hne [H1 H2]]]]]]. apply Hne.
    rewrite (Hu _ _ H1), (Hu _ _ H2). reflexivity.
  Qed.
  Lemma unique_same n t p q : UniqueCand n t p -> UniqueCand n t q -> p = q.
  Proof. intros [d [Hc _]] [_ [_ Hu]]. exact (Hu _ _ Hc). Qed.
  Lemma many_not_none n t : ManyCand n t -> ~ NoCand n t.
  Proof. intros [p1 [d1 [_ [_ [_ [H1 _]]]]]] Hn. exact (Hn p1 d1 H1). Qed.

  Lemma plain_name_cases n t :
    match plain_name classes root n t with
    | PNone => NoCand n t
    | POne p => UniqueCand n t p
    | PNotUnique => ManyCand n t
    | PIndexError => False
    end.
  Proof.
    unfold plain_name. rewrite dispatch_spec. pose proof (candidates_cases n t) as Hc.
    destruct (candidates classes root n t) as [|[p1 d1] [|[p2 d2] r]].
    - exact Hc.
    - exists d1. exact Hc.
    - exists p1, d1, p2, d2. exact Hc.
  Qed.

  Lemma cand_trichotomy n t : (exists p, UniqueCand n t p) \/ ManyCand n t \/ NoCand n t.
  Proof.
    pose proof (plain_name_cases n t) as H. destruct (plain_name classes root n t) as [|p| |].
    - right; right; exact H.
    - left; exists p; exact H.
    - right; left; exact H.
    - contradiction.
  Qed.

  Variable b : builtins.

  (* metamodel.builtins has an entry under the reference text and its type conforms *)
  Definition BuiltinOk (n : list N) (t : nat) : Prop :=
    exists o, blookup n b = Some o /\ Conforms classes o t.

  Lemma resolve_ref_cases r :
    match resolve_ref classes root b r with
    | Resolved p => UniqueCand (rname r) (rcls r) p
    | ErrNotUnique n => n = rname r /\ ManyCand (rname r) (rcls r)
    | Builtin k => k = rname r /\ NoCand (rname r) (rcls r) /\ BuiltinOk (rname r) (rcls r)
    | ErrUnknown n t => n = rname r /\ t = rcls r /\ NoCand (rname r) (rcls r) /\ ~ BuiltinOk (rname r) (rcls r)
    | ErrIndex => False
    end.
  Proof.
    unfold resolve_ref. pose proof (plain_name_cases (rname r) (rcls r)) as Hp.
    destruct (plain_name classes root (rname r) (rcls r)) as [|p| |].
    - destruct (blookup (rname r) b) as [o|] eqn:Eb.
      + destruct (conforms classes o (rcls r)) eqn:Ec.
        * split; [reflexivity|]. split; [exact Hp|]. exists o. split; [exact Eb|].
          apply (conforms_spec classes o Hwf). exact Ec.
        * split; [reflexivity|]. split; [reflexivity|]. split; [exact Hp|].
          intros [o' [E Hc]]. rewrite Eb in E. inversion E; subst.
          apply (conforms_spec classes o' Hwf) in Hc. congruence.
      + split; [reflexivity|]. split; [reflexivity|]. split; [exact Hp|].
        intros [o' [E _]]. rewrite Eb in E. discriminate.
    - exact Hp.
    - split; [reflexivity | exact Hp].
    - exact Hp.
  Qed.

  Theorem resolved_iff r p :
    resolve_ref classes root b r = Resolved p <-> UniqueCand (rname r) (rcls r) p.
  Proof.
    pose proof (resolve_ref_cases r) as H. split.
    - intro E. rewrite E in H. exact H.
    - intro Hu. destruct (resolve_ref classes root b r) as [q|k|n|n t|].
      + f_equal. eapply unique_same; eassumption.
      + destruct H as [_ [Hn _]]. exfalso. eapply unique_not_none; eassumption.
      + destruct H as [_ Hm]. exfalso. eapply unique_not_many; eassumption.
      + destruct H as [_ [_ [Hn _]]]. exfalso. eapply unique_not_none; eassumption.
      + contradiction.
  Qed.

  Theorem not_unique_iff r n :
    resolve_ref classes root b r = ErrNotUnique n <-> n = rname r /\ ManyCand (rname r) (rcls r).
  Proof.
    pose proof (resolve_ref_cases r) as H. split.
    - intro E. rewrite E in H. exact H.
    - intros [-> Hm]. destruct (resolve_ref classes root b r) as [q|k|n|n t|].
      + exfalso. eapply unique_not_many; eassumption.
      + destruct H as [_ [Hn _]]. exfalso. eapply many_not_none; eassumption.
      + destruct H as [-> _]. reflexivity.
      + destruct H as [_ [_ [Hn _]]]. exfalso. eapply many_not_none; eassumption.
      + contradiction.
  Qed.

  Theorem builtin_iff r k :
    resolve_ref classes root b r = Builtin k <->
    k = rname r /\ NoCand (rname r) (rcls r) /\ BuiltinOk (rname r) (rcls r).
  Proof.
    pose proof (resolve_ref_cases r) as H. split.
    - intro E. rewrite E in H. exact H.
    - intros [-> [Hn Hb]]. destruct (resolve_ref classes root b r) as [q|k|n|n t|].
      + exfalso. eapply unique_not_none; eassumption.
      + destruct H as [-> _]. reflexivity.
      + destruct H as [_ Hm]. exfalso. eapply many_not_none; eassumption.
      + destruct H as [_ [_ [_ Hnb]]]. contradiction.
      + contradiction.
  Qed.

  Theorem unknown_iff r n t :
    resolve_ref classes root b r = ErrUnknown n t <->
    n = rname r /\ t = rcls r /\ NoCand (rname r) (rcls r) /\ ~ BuiltinOk (rname r) (rcls r).
  Proof.
    pose proof (resolve_ref_cases r) as H. split.
    - intro E. rewrite E in H. exact H.
    - intros [-> [-> [Hn Hnb]]]. destruct (resolve_ref classes root b r) as [q|k|n|n t|].
      + exfalso. eapply unique_not_none; eassumption.
      + destruct H as [_ [_ Hb]]. contradiction.
      + destruct H as [_ Hm]. exfalso. eapply many_not_none; eassumption.
      + destruct H as [-> [-> _]]. reflexivity.
      + contradiction.
  Qed.

  Theorem never_index_error r : resolve_ref classes root b r <> ErrIndex.
  Proof. pose proof (resolve_ref_cases r) as H. intro E. rewrite E in H. exact H. Qed.

  (* ---- loading: textual order, first failure wins *)
  Lemma load_from_ok : forall rs i acc ts,
    load_from classes root b i rs acc = LoadOk ts <->
    Forall (fun r => is_error (resolve_ref classes root b r) = false) rs /\
    ts = rev acc ++ map (resolve_ref classes root b) rs.
  Proof.
    induction rs as [|r rs IH]; intros i acc ts; simpl.
    - rewrite app_nil_r. split.
      + intro E. inversion E; subst. split; [constructor | reflexivity].
      + intros [_ ->]. reflexivity.
    - destruct (is_error (resolve_ref classes root b r)) eqn:Ee.
      + split; [discriminate|]. intros [HF _]. inversion HF; subst. congruence.
      + rewrite IH. simpl. rewrite <- app_assoc. simpl. split.
        * intros [HF ->]. split; [constructor; assumption | reflexivity].
        * intros [HF ->]. inversion HF; subst. split; [assumption | reflexivity].
  Qed.

  Lemma load_from_err : forall rs i acc j e,
    load_from classes root b i rs acc = LoadErr j e <->
    exists pre r post, rs = pre ++ r :: post /\ j = i + length pre /\
      Forall (fun r => is_error (resolve_ref classes root b r) = false) pre /\
      resolve_ref classes root b r = e /\ is_error e = true.
  Proof.
    induction rs as [|r rs IH]; intros i acc j e; simpl.
    - split; [discriminate|]. intros [pre [r [post [E _]]]]. destruct pre; discriminate.
    - destruct (is_error (resolve_ref classes root b r)) eqn:Ee.
      + split.
        * intro E. inversion E; subst. exists [], r, rs. simpl.
          split; [reflexivity|]. split; [lia|]. split; [constructor|]. split; [reflexivity | exact Ee].
        * intros [pre [r0 [post [E [Hj [HF [Hr He]]]]]]]. destruct pre as [|x pre]; simpl in E; inversion E; subst.
          -- simpl. f_equal. lia.
          -- inversion HF; subst. congruence.
      + rewrite IH. split.
        * intros [pre [r0 [post [E [Hj [HF [Hr He]]]]]]]. exists (r :: pre), r0, post. subst. simpl.
          split; [reflexivity|]. split; [lia|]. split; [constructor; assumption|]. split; [reflexivity | exact He].
        * intros [pre [r0 [post [E [Hj [HF [Hr He]]]]]]]. destruct pre as [|x pre]; simpl in E; inversion E; subst.
          -- congruence.
          -- inversion HF; subst. exists pre, r0, post. simpl in *.
             split; [reflexivity|]. split; [lia|]. split; [assumption|]. split; [reflexivity | exact He].
  Qed.
End Resolve.

(* ------------------------------------------------------------------ error texts *)
Definition q34 : list N := [34]%N.
Lemma unknown_text classes n t :
  error_text classes (ErrUnknown n t) =
  ([85;110;107;110;111;119;110;32;111;98;106;101;99;116;32]%N ++ q34 ++ n ++ q34 ++
   [32;111;102;32;99;108;97;115;115;32]%N ++ q34 ++ class_name classes t ++ q34,
   Some [85;110;107;110;111;119;110;32;111;98;106;101;99;116]%N).
Proof.
  unfold error_text, render, unknown_msg, unknown_err_type, q34. cbn [flat_map].
  rewrite !app_nil_r. reflexivity.
Qed.

Lemma notunique_text classes n :
  error_text classes (ErrNotUnique n) =
  ([110;97;109;101;32]%N ++ n ++ [32;105;115;32;110;111;116;32;117;110;105;113;117;101;46]%N, None).
Proof. unfold error_text, render, notunique_msg. cbn [flat_map]. rewrite !app_nil_r. reflexivity. Qed.

(* ------------------------------------------------------------------ several loaded models *)
(* the outcome for a reference of model i does not depend on the other loaded models *)
Lemma same_model_only classes world world' i b r :
  nth i world empty_model = nth i world' empty_model ->
  resolve_in classes world i b r = resolve_in classes world' i b r.
Proof. unfold resolve_in. intros ->. reflexivity. Qed.

(* an object of another loaded model j that matches by name and type is not a candidate: if the referring
   model i has no matching object, the reference falls through to builtins / Unknown object *)
Lemma imported_not_candidate classes world i j b r p d :
  wf_classes classes = true -> j <> i ->
  Cand classes (nth j world empty_model) (rname r) (rcls r) p d ->
  NoCand classes (nth i world empty_model) (rname r) (rcls r) ->
  (forall q, resolve_in classes world i b r <> Resolved q) /\
  (resolve_in classes world i b r = Builtin (rname r) \/
   resolve_in classes world i b r = ErrUnknown (rname r) (rcls r)).
Proof.
  intros Hwf _ _ Hn. unfold resolve_in.
  pose proof (resolve_ref_cases classes Hwf (nth i world empty_model) b r) as H.
  destruct (resolve_ref classes (nth i world empty_model) b r) as [q|k|n|n t|].
  - exfalso. eapply unique_not_none; eassumption.
  - destruct H as [-> _]. split; [intros q E; discriminate | left; reflexivity].
  - destruct H as [_ Hm]. exfalso. eapply many_not_none; eassumption.
  - destruct H as [-> [-> _]]. split; [intros q E; discriminate | right; reflexivity].
  - contradiction.
Qed.
