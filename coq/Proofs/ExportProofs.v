(* Proofs about the export model: the escape chain as a character-wise map, its safety inside quoted
   strings and record labels, truncation, and soundness of the abstract execution over templates. *)
From TxV Require Import Core.Base Model.ExportDefs Gen.SrcExport Model.Export.

(* ---------------------------------------------------------------- machines *)
Lemma run_app {S : Type} (step : S -> N -> option S) (st : S) (a b : list N) :
  run step st (a ++ b) = match run step st a with Some st' => run step st' b | None => None end.
Proof.
  revert st; induction a as [|c a IH]; intro st; cbn [run app]; [reflexivity|].
  destruct (step st c) as [st'|]; [apply IH | reflexivity].
Qed.

Lemma run_prefix {S : Type} (step : S -> N -> option S) (st : S) (a b : list N) (x : S) :
  run step st (a ++ b) = Some x -> exists y, run step st a = Some y.
Proof.
  rewrite run_app. destruct (run step st a) as [y|]; [intros _; exists y; reflexivity | discriminate].
Qed.

Lemma qrun_app (e : bool) (a b : list N) :
  qrun e (a ++ b) = match qrun e a with Some e' => qrun e' b | None => None end.
Proof.
  revert e; induction a as [|c a IH]; intro e; cbn [qrun app]; [reflexivity|].
  destruct (qstep e c) as [e'|]; [apply IH | reflexivity].
Qed.

Lemma qrun_prefix (e : bool) (a b : list N) (x : bool) :
  qrun e (a ++ b) = Some x -> exists y, qrun e a = Some y.
Proof.
  rewrite qrun_app. destruct (qrun e a) as [y|]; [intros _; exists y; reflexivity | discriminate].
Qed.

(* ---------------------------------------------------------------- the chain is a character-wise map *)
Lemma replace1_app c r a b : replace1 c r (a ++ b) = replace1 c r a ++ replace1 c r b.
Proof. unfold replace1. apply flat_map_app. Qed.

Lemma apply_chain_cons c r chain s :
  apply_chain ((c, r) :: chain) s = apply_chain chain (replace1 c r s).
Proof. reflexivity. Qed.

Lemma apply_chain_app chain a b :
  apply_chain chain (a ++ b) = apply_chain chain a ++ apply_chain chain b.
Proof.
  revert a b; induction chain as [|[c r] chain IH]; intros a b; [reflexivity|].
  rewrite !apply_chain_cons, replace1_app. apply IH.
Qed.

Lemma apply_chain_nil chain : apply_chain chain [] = [].
Proof. induction chain as [|[c r] chain IH]; [reflexivity|]. rewrite apply_chain_cons. exact IH. Qed.

Lemma apply_chain_flat chain s : apply_chain chain s = flat_map (esc1 chain) s.
Proof.
  induction s as [|x s IH]; [apply apply_chain_nil|].
  change (x :: s) with ([x] ++ s). rewrite apply_chain_app, IH. reflexivity.
Qed.

Lemma esc1_other chain x : ~ In x (map fst chain) -> esc1 chain x = [x].
Proof.
  unfold esc1. induction chain as [|[c r] chain IH]; intro Hn; [reflexivity|].
  rewrite apply_chain_cons. cbn [map fst In] in Hn.
  assert (Hc : N.eqb x c = false) by (apply N.eqb_neq; intro E; apply Hn; left; symmetry; exact E).
  unfold replace1. cbn [flat_map]. rewrite Hc. cbn [app].
  apply IH. intro Hin. apply Hn. right. exact Hin.
Qed.

(* ---------------------------------------------------------------- quoted strings *)
Lemma opt_bool_eqb_eq a b : opt_bool_eqb a b = true -> a = b.
Proof.
  destruct a as [x|], b as [y|]; cbn; try discriminate; try reflexivity.
  intro H. apply Bool.eqb_prop in H. congruence.
Qed.

Lemma chain_safe_unit chain :
  chain_safe chain = true -> forall x, qrun false (esc1 chain x) = Some false.
Proof.
  intros Hs x. unfold chain_safe in Hs. rewrite forallb_forall in Hs.
  destruct (in_dec N.eq_dec x (c_quote :: c_bslash :: map fst chain)) as [Hin|Hout].
  - apply opt_bool_eqb_eq. apply Hs. exact Hin.
  - rewrite esc1_other by (intro H; apply Hout; right; right; exact H).
    assert (Hq : N.eqb x c_quote = false) by (apply N.eqb_neq; intro E; apply Hout; left; symmetry; exact E).
    assert (Hb : N.eqb x c_bslash = false) by (apply N.eqb_neq; intro E; apply Hout; right; left; symmetry; exact E).
    cbn [qrun qstep]. rewrite Hq, Hb. reflexivity.
Qed.

Lemma chain_safe_qrun chain :
  chain_safe chain = true -> forall s, qrun false (apply_chain chain s) = Some false.
Proof.
  intros Hs s. rewrite apply_chain_flat.
  induction s as [|x s IH]; [reflexivity|].
  cbn [flat_map]. rewrite qrun_app, (chain_safe_unit chain Hs x). exact IH.
Qed.

Lemma qsplit_through (u : list N) : forall e e' t,
  qrun e u = Some e' ->
  qsplit e (u ++ t) = match qsplit e' t with Some (b, r) => Some (u ++ b, r) | None => None end.
Proof.
  induction u as [|c u IH]; intros e e' t H.
  - cbn in H. inversion H; subst. cbn [app]. destruct (qsplit e' t) as [[b r]|]; reflexivity.
  - cbn [qrun] in H. cbn [app qsplit]. destruct (qstep e c) as [e1|]; [|discriminate].
    rewrite (IH e1 e' t H). destruct (qsplit e' t) as [[b r]|]; reflexivity.
Qed.

Lemma escape_chain_safe : chain_safe escape_chain = true.
Proof. vm_compute. reflexivity. Qed.

Lemma dot_escape_qrun s : qrun false (dot_escape s) = Some false.
Proof. apply chain_safe_qrun. exact escape_chain_safe. Qed.

Lemma escape_quoted s rest :
  lex_qstring ([c_quote] ++ dot_escape s ++ [c_quote] ++ rest) = Some (dot_escape s, rest).
Proof.
  cbn [app lex_qstring]. rewrite N.eqb_refl.
  rewrite (qsplit_through (dot_escape s) false false _ (dot_escape_qrun s)).
  cbn [qsplit qstep]. rewrite N.eqb_refl. rewrite app_nil_r. reflexivity.
Qed.

(* general form, for any chain that passes the decidable check *)
Lemma chain_quoted chain s rest :
  chain_safe chain = true ->
  lex_qstring ([c_quote] ++ apply_chain chain s ++ [c_quote] ++ rest) = Some (apply_chain chain s, rest).
Proof.
  intro Hs. cbn [app lex_qstring]. rewrite N.eqb_refl.
  rewrite (qsplit_through (apply_chain chain s) false false _ (chain_safe_qrun chain Hs s)).
  cbn [qsplit qstep]. rewrite N.eqb_refl. rewrite app_nil_r. reflexivity.
Qed.

Lemma qrun_tail_dots (y : bool) : qrun y [46; 46; 46; 39]%N = Some false.
Proof. destruct y; reflexivity. Qed.

Lemma qrun_tail_quote (y : bool) : y = false -> qrun y [39%N] = Some false.
Proof. intros ->. reflexivity. Qed.

Lemma dot_repr_qrun s : qrun false (dot_repr_str s) = Some false.
Proof.
  unfold dot_repr_str. destruct (Nat.ltb repr_limit (length (dot_escape s))).
  - change ([39%N] ++ firstn repr_limit (dot_escape s) ++ [46; 46; 46; 39]%N)
      with (39%N :: (firstn repr_limit (dot_escape s) ++ [46; 46; 46; 39]%N)).
    cbn [qrun qstep]. change (N.eqb 39 c_quote) with false. change (N.eqb 39 c_bslash) with false. cbv iota.
    rewrite qrun_app.
    destruct (qrun_prefix false (firstn repr_limit (dot_escape s)) (skipn repr_limit (dot_escape s)) false) as [y Hy].
    { rewrite firstn_skipn. apply dot_escape_qrun. }
    rewrite Hy. apply qrun_tail_dots.
  - change ([39%N] ++ dot_escape s ++ [39%N]) with (39%N :: (dot_escape s ++ [39%N])).
    cbn [qrun qstep]. change (N.eqb 39 c_quote) with false. change (N.eqb 39 c_bslash) with false. cbv iota.
    rewrite qrun_app, dot_escape_qrun. reflexivity.
Qed.

Lemma repr_quoted s rest :
  lex_qstring ([c_quote] ++ dot_repr_str s ++ [c_quote] ++ rest) = Some (dot_repr_str s, rest).
Proof.
  cbn [app lex_qstring]. rewrite N.eqb_refl.
  rewrite (qsplit_through (dot_repr_str s) false false _ (dot_repr_qrun s)).
  cbn [qsplit qstep]. rewrite N.eqb_refl. rewrite app_nil_r. reflexivity.
Qed.

(* the in-string machine is the In/Esc part of the document machine *)
Definition dst (e : bool) : dstate := if e then DEsc else DIn.

Lemma qrun_drun (u : list N) : forall e e', qrun e u = Some e' -> drun (dst e) u = Some (dst e').
Proof.
  induction u as [|c u IH]; intros e e' H.
  - cbn in H. inversion H; subst. reflexivity.
  - cbn [qrun] in H. unfold drun. cbn [run].
    destruct e; cbn [qstep] in H; cbn [dst dstep].
    + apply (IH false e' H).
    + destruct (N.eqb c c_quote); [discriminate|].
      destruct (N.eqb c c_bslash); apply (IH _ e' H).
Qed.

(* ---------------------------------------------------------------- character classes *)
Lemma digit_plain c : is_digit c = true -> plain_char c = true.
Proof. intro H. unfold plain_char, word_char. rewrite H. reflexivity. Qed.

Lemma word_plain c : word_char c = true -> plain_char c = true.
Proof. intro H. unfold plain_char. rewrite H. reflexivity. Qed.

Lemma forallb_impl {X : Type} (f g : X -> bool) (l : list X) :
  (forall x, f x = true -> g x = true) -> forallb f l = true -> forallb g l = true.
Proof.
  intros Hfg H. rewrite forallb_forall in *. intros x Hx. apply Hfg, H, Hx.
Qed.

Lemma plain_not (k : N) : plain_char k = false -> forall c, plain_char c = true -> N.eqb c k = false.
Proof.
  intros Hk c Hc. destruct (N.eqb_spec c k) as [->|]; [congruence | reflexivity].
Qed.

(* a machine that ignores plain characters in state st ignores plain text *)
Lemma run_plain {S : Type} (step : S -> N -> option S) (st : S) (w : list N) :
  (forall c, plain_char c = true -> step st c = Some st) ->
  forallb plain_char w = true -> run step st w = Some st.
Proof.
  intros Hst. induction w as [|c w IH]; intro H; [reflexivity|].
  cbn [forallb] in H. apply andb_true_iff in H as [Hc Hw].
  cbn [run]. rewrite (Hst c Hc). apply IH, Hw.
Qed.

Lemma plain_of_kind k w :
  (k = HDigits \/ k = HIdent \/ k = HPlain) -> fills k w -> forallb plain_char w = true.
Proof.
  intros [E|[E|E]] H; subst k; cbn [fills] in H.
  - eapply forallb_impl; [apply digit_plain | exact H].
  - eapply forallb_impl; [apply word_plain | exact H].
  - exact H.
Qed.

(* ---------------------------------------------------------------- abstract execution is sound *)
Section Sound.
  Context {S A : Type} (gamma : A -> S -> Prop).
  Context (eqb : A -> A -> bool) (step : S -> N -> option S) (astep : A -> N -> option A) (ahole : hkind -> A -> option A).
  Hypothesis eqb_eq : forall a b, eqb a b = true -> a = b.
  Hypothesis astep_sound : forall a a' c st, astep a c = Some a' -> gamma a st -> exists st', step st c = Some st' /\ gamma a' st'.
  Hypothesis ahole_sound : forall k a a' w st, ahole k a = Some a' -> fills k w -> gamma a st ->
    exists st', run step st w = Some st' /\ gamma a' st'.

  Lemma run_abs_sound (s : list N) : forall a a' st, run astep a s = Some a' -> gamma a st ->
    exists st', run step st s = Some st' /\ gamma a' st'.
  Proof.
    induction s as [|c s IH]; intros a a' st H G.
    - cbn in H. inversion H; subst. exists st. split; [reflexivity | exact G].
    - cbn [run] in H. destruct (astep a c) as [a1|] eqn:E; [|discriminate].
      destruct (astep_sound a a1 c st E G) as [st1 [H1 G1]].
      destruct (IH a1 a' st1 H G1) as [st' [H2 G2]].
      exists st'. cbn [run]. rewrite H1. split; assumption.
  Qed.

  Notation txr := (tx_run eqb astep ahole).

  Lemma txr_cat_cons t l a : txr (TCat (t :: l)) a = match txr t a with Some a1 => txr (TCat l) a1 | None => None end.
  Proof. reflexivity. Qed.

  Lemma txr_alt_one t a : txr (TAlt [t]) a = txr t a.
  Proof. reflexivity. Qed.

  Lemma txr_alt_more t t2 l a :
    txr (TAlt (t :: t2 :: l)) a =
    match txr t a, txr (TAlt (t2 :: l)) a with
    | Some x, Some y => if eqb x y then Some x else None
    | _, _ => None
    end.
  Proof. reflexivity. Qed.

  Lemma txr_star t a : txr (TStar t) a = match txr t a with Some a1 => if eqb a1 a then Some a else None | None => None end.
  Proof. reflexivity. Qed.

  Theorem tx_run_sound t w : gen t w -> forall a a' st, txr t a = Some a' -> gamma a st ->
    exists st', run step st w = Some st' /\ gamma a' st'.
  Proof.
    induction 1 as [s | k w Hf | | t l w1 w2 H1 IH1 H2 IH2 | t l w H1 IH1 | t l w H1 IH1 | t | t w1 w2 H1 IH1 H2 IH2];
      intros a a' st Hr G.
    - apply (run_abs_sound s a a' st Hr G).
    - apply (ahole_sound k a a' w st Hr Hf G).
    - cbn in Hr. inversion Hr; subst. exists st. split; [reflexivity | exact G].
    - rewrite txr_cat_cons in Hr. destruct (txr t a) as [a1|] eqn:E; [|discriminate].
      destruct (IH1 a a1 st E G) as [st1 [R1 G1]].
      destruct (IH2 a1 a' st1 Hr G1) as [st' [R2 G2]].
      exists st'. rewrite run_app, R1. split; assumption.
    - destruct l as [|t2 l].
      + rewrite txr_alt_one in Hr. apply (IH1 a a' st Hr G).
      + rewrite txr_alt_more in Hr. destruct (txr t a) as [x|] eqn:E; [|discriminate].
        destruct (txr (TAlt (t2 :: l)) a) as [y|]; [|discriminate].
        destruct (eqb x y); [|discriminate]. inversion Hr; subst. apply (IH1 a a' st E G).
    - destruct l as [|t2 l]; [inversion H1|].
      rewrite txr_alt_more in Hr. destruct (txr t a) as [x|]; [|discriminate].
      destruct (txr (TAlt (t2 :: l)) a) as [y|] eqn:E; [|discriminate].
      destruct (eqb x y) eqn:Exy; [|discriminate]. inversion Hr; subst.
      apply eqb_eq in Exy. subst y. apply (IH1 a a' st E G).
    - rewrite txr_star in Hr. destruct (txr t a) as [a1|]; [|discriminate].
      destruct (eqb a1 a); [|discriminate]. inversion Hr; subst.
      exists st. split; [reflexivity | exact G].
    - pose proof Hr as Hr0. rewrite txr_star in Hr. destruct (txr t a) as [a1|] eqn:E; [|discriminate].
      destruct (eqb a1 a) eqn:Ea; [|discriminate]. inversion Hr; subst a'. apply eqb_eq in Ea. subst a1.
      destruct (IH1 a a st E G) as [st1 [R1 G1]].
      destruct (IH2 a a st1 Hr0 G1) as [st' [R2 G2]].
      exists st'. rewrite run_app, R1. split; assumption.
  Qed.
End Sound.

(* ---------------------------------------------------------------- quotes: instance *)
Lemma dstate_eqb_eq a b : dstate_eqb a b = true -> a = b.
Proof.
  destruct a, b; cbn; try discriminate; try reflexivity.
  intro H. apply Nat.eqb_eq in H. congruence.
Qed.

Lemma dstep_plain st c : (st = DOut \/ st = DIn \/ exists n, st = DHtml n) -> plain_char c = true -> dstep st c = Some st.
Proof.
  intros Hst Hc.
  assert (H34 := plain_not 34 eq_refl c Hc). assert (H60 := plain_not 60 eq_refl c Hc).
  assert (H47 := plain_not 47 eq_refl c Hc). assert (H35 := plain_not 35 eq_refl c Hc).
  assert (H92 := plain_not 92 eq_refl c Hc). assert (H62 := plain_not 62 eq_refl c Hc).
  destruct Hst as [->|[->|[n ->]]]; cbn [dstep]; unfold c_quote, c_bslash;
    rewrite ?H34, ?H60, ?H47, ?H35, ?H92, ?H62; reflexivity.
Qed.

Lemma drun_html n w :
  forallb (fun c => negb (N.eqb c 60) && negb (N.eqb c 62)) w = true -> drun (DHtml n) w = Some (DHtml n).
Proof.
  induction w as [|c w IH]; intro H; [reflexivity|].
  cbn [forallb] in H. apply andb_true_iff in H as [Hc Hw]. apply andb_true_iff in Hc as [H1 H2].
  unfold drun. cbn [run dstep]. apply negb_true_iff in H1, H2. rewrite H1, H2. apply IH, Hw.
Qed.

Lemma dhole_sound k a a' w st :
  dhole k a = Some a' -> fills k w -> a = st -> exists st', run dstep st w = Some st' /\ a' = st'.
Proof.
  intros Hh Hf <-.
  destruct k; cbn [dhole] in Hh.
  1-3: (assert (Hp : forallb plain_char w = true) by (eapply plain_of_kind; [|exact Hf]; auto);
        destruct a as [| | |n]; inversion Hh; subst;
        (eexists; split; [apply run_plain; [intros c Hc; apply dstep_plain; eauto | exact Hp] | reflexivity])).
  - destruct a; inversion Hh; subst. destruct Hf as [s ->].
    exists DIn. split; [apply (qrun_drun (dot_escape s) false false (dot_escape_qrun s)) | reflexivity].
  - destruct a; inversion Hh; subst. destruct Hf as [[s ->]|Hp].
    + exists DIn. split; [apply (qrun_drun (dot_repr_str s) false false (dot_repr_qrun s)) | reflexivity].
    + exists DIn. split; [apply run_plain; [intros c Hc; apply dstep_plain; auto | exact Hp] | reflexivity].
  - destruct a as [| | |n]; inversion Hh; subst. exists (DHtml n). split; [apply drun_html, Hf | reflexivity].
  - destruct a; discriminate.
Qed.

Theorem doc_quotes_sound t :
  doc_quotes_ok t = true -> forall w, gen t w -> drun DOut w = Some DOut.
Proof.
  unfold doc_quotes_ok. intros H w Hg.
  destruct (tx_run dstate_eqb dstep dhole t DOut) as [a'|] eqn:E; [|discriminate].
  destruct a'; try discriminate.
  destruct (tx_run_sound (fun a st => a = st) dstate_eqb dstep dstep dhole dstate_eqb_eq) with (t := t) (w := w) (a := DOut) (a' := DOut) (st := DOut)
    as [st' [R G]]; try assumption; try reflexivity.
  - intros a a1 c st Hs <-. exists a1. split; [exact Hs | reflexivity].
  - intros k a a1 w0 st Hh Hf Ha. apply (dhole_sound k a a1 w0 st Hh Hf Ha).
  - subst st'. exact R.
Qed.

(* ---------------------------------------------------------------- record labels *)
Lemma rstate_eqb_eq a b : rstate_eqb a b = true -> a = b.
Proof. destruct a, b; cbn; try discriminate; reflexivity. Qed.

Lemma opt_rstate_eqb_eq a b : opt_rstate_eqb a b = true -> a = b.
Proof.
  destruct a as [x|], b as [y|]; cbn; try discriminate; try reflexivity.
  intro H. apply rstate_eqb_eq in H. congruence.
Qed.

Lemma not_in_ctrl x : ~ In x ctrl_chars -> is_ctrl x = false.
Proof.
  intro H. unfold is_ctrl.
  repeat (apply orb_false_iff; split); apply N.eqb_neq; intro E; apply H; subst x; cbn; tauto.
Qed.

Lemma chain_rsafe_unit chain :
  chain_rsafe chain = true -> forall x, rrun RNorm (esc1 chain x) = Some RNorm.
Proof.
  intros Hs x. unfold chain_rsafe in Hs. rewrite forallb_forall in Hs.
  destruct (in_dec N.eq_dec x (c_bslash :: ctrl_chars ++ map fst chain)) as [Hin|Hout].
  - apply opt_rstate_eqb_eq. apply Hs. exact Hin.
  - rewrite esc1_other by (intro H; apply Hout; right; apply in_or_app; right; exact H).
    assert (Hb : N.eqb x c_bslash = false) by (apply N.eqb_neq; intro E; apply Hout; left; symmetry; exact E).
    assert (Hc : is_ctrl x = false) by (apply not_in_ctrl; intro H; apply Hout; right; apply in_or_app; left; exact H).
    unfold rrun. cbn [run rstep]. rewrite Hc, Hb. reflexivity.
Qed.

Lemma chain_rsafe_rrun chain :
  chain_rsafe chain = true -> forall s, rrun RNorm (apply_chain chain s) = Some RNorm.
Proof.
  intros Hs s. rewrite apply_chain_flat.
  induction s as [|x s IH]; [reflexivity|].
  cbn [flat_map]. unfold rrun in *. rewrite run_app.
  pose proof (chain_rsafe_unit chain Hs x) as Hx. unfold rrun in Hx. rewrite Hx. exact IH.
Qed.

Lemma escape_chain_rsafe : chain_rsafe escape_chain = true.
Proof. vm_compute. reflexivity. Qed.

Lemma dot_escape_rrun s : rrun RNorm (dot_escape s) = Some RNorm.
Proof. apply chain_rsafe_rrun. exact escape_chain_rsafe. Qed.

Lemma rrun_tail_dots (y : rstate) : rrun y [46; 46; 46; 39]%N = Some RNorm.
Proof. destruct y; reflexivity. Qed.

Lemma dot_repr_rrun s : rrun RNorm (dot_repr_str s) = Some RNorm.
Proof.
  unfold dot_repr_str, rrun. destruct (Nat.ltb repr_limit (length (dot_escape s))).
  - change ([39%N] ++ firstn repr_limit (dot_escape s) ++ [46; 46; 46; 39]%N)
      with ([39%N] ++ (firstn repr_limit (dot_escape s) ++ [46; 46; 46; 39]%N)).
    rewrite run_app. change (run rstep RNorm [39%N]) with (Some RNorm). cbv iota.
    rewrite run_app.
    destruct (run_prefix rstep RNorm (firstn repr_limit (dot_escape s)) (skipn repr_limit (dot_escape s)) RNorm) as [y Hy].
    { rewrite firstn_skipn. apply dot_escape_rrun. }
    rewrite Hy. apply rrun_tail_dots.
  - rewrite run_app. change (run rstep RNorm [39%N]) with (Some RNorm). cbv iota.
    rewrite run_app. pose proof (dot_escape_rrun s) as He. unfold rrun in He. rewrite He. reflexivity.
Qed.

Lemma is_ctrl_false c : is_ctrl c = false ->
  N.eqb c 123 = false /\ N.eqb c 125 = false /\ N.eqb c 124 = false /\ N.eqb c 60 = false /\ N.eqb c 62 = false.
Proof.
  unfold is_ctrl. intro H.
  apply orb_false_iff in H as [H H5]. apply orb_false_iff in H as [H H4].
  apply orb_false_iff in H as [H H3]. apply orb_false_iff in H as [H1 H2]. tauto.
Qed.

Lemma rrun_lrun (u : list N) : forall r r', rrun r u = Some r' -> lrun (LIn r) u = Some (LIn r').
Proof.
  induction u as [|c u IH]; intros r r' H.
  - cbn in H. inversion H; subst. reflexivity.
  - unfold rrun in H. cbn [run] in H. unfold lrun. cbn [run].
    destruct r; cbn [rstep] in H; cbn [lstep].
    + destruct (is_ctrl c) eqn:Ec; [discriminate|].
      destruct (is_ctrl_false c Ec) as [H1 [H2 [H3 [H4 H5]]]].
      rewrite H1, H2, H3, H4, H5. cbn [orb].
      destruct (N.eqb c c_bslash); apply (IH _ r' H).
    + apply (IH RNorm r' H).
Qed.

Lemma lstep_plain c : plain_char c = true -> lstep (LIn RNorm) c = Some (LIn RNorm).
Proof.
  intro Hc.
  assert (H123 := plain_not 123 eq_refl c Hc). assert (H125 := plain_not 125 eq_refl c Hc).
  assert (H124 := plain_not 124 eq_refl c Hc). assert (H60 := plain_not 60 eq_refl c Hc).
  assert (H62 := plain_not 62 eq_refl c Hc). assert (H92 := plain_not 92 eq_refl c Hc).
  cbn [lstep]. unfold c_bslash. rewrite H123, H125, H124, H60, H62, H92. reflexivity.
Qed.

Lemma lstate_eqb_eq a b : lstate_eqb a b = true -> a = b.
Proof.
  destruct a as [|x|], b as [|y|]; cbn; try discriminate; try reflexivity.
  intro H. apply rstate_eqb_eq in H. congruence.
Qed.

Lemma lhole_sound k a a' w st :
  lhole k a = Some a' -> fills k w -> a = st -> exists st', run lstep st w = Some st' /\ a' = st'.
Proof.
  intros Hh Hf <-.
  assert (Ha : a = LIn RNorm /\ a' = LIn RNorm /\ k <> HHtml /\ k <> HRaw).
  { destruct k, a as [|[|]|]; cbn in Hh; try discriminate; inversion Hh; subst; repeat split; discriminate. }
  destruct Ha as [-> [-> [Hk1 Hk2]]].
  exists (LIn RNorm). split; [|reflexivity].
  destruct k; try congruence.
  1-3: (apply run_plain; [intros c Hc; apply lstep_plain, Hc | eapply plain_of_kind; [|exact Hf]; auto]).
  - destruct Hf as [s ->]. apply (rrun_lrun (dot_escape s) RNorm RNorm (dot_escape_rrun s)).
  - destruct Hf as [[s ->]|Hp].
    + apply (rrun_lrun (dot_repr_str s) RNorm RNorm (dot_repr_rrun s)).
    + apply run_plain; [intros c Hc; apply lstep_plain, Hc | exact Hp].
Qed.

Theorem label_sound t : label_ok t = true -> forall w, gen t w -> lrun LStart w = Some LDone.
Proof.
  unfold label_ok. intros H w Hg.
  destruct (tx_run lstate_eqb lstep lhole t LStart) as [a'|] eqn:E; [|discriminate].
  destruct a'; try discriminate.
  destruct (tx_run_sound (fun a st => a = st) lstate_eqb lstep lstep lhole lstate_eqb_eq) with (t := t) (w := w) (a := LStart) (a' := LDone) (st := LStart)
    as [st' [R G]]; try assumption; try reflexivity.
  - intros a a1 c st Hs <-. exists a1. split; [exact Hs | reflexivity].
  - intros k a a1 w0 st Hh Hf Ha. apply (lhole_sound k a a1 w0 st Hh Hf Ha).
  - subst st'. exact R.
Qed.

(* ---------------------------------------------------------------- PlantUML braces *)
Lemma bstep_plain d c : plain_char c = true -> bstep d c = Some d.
Proof.
  intro Hc. assert (H123 := plain_not 123 eq_refl c Hc). assert (H125 := plain_not 125 eq_refl c Hc).
  unfold bstep. rewrite H123, H125. reflexivity.
Qed.

Lemma bhole_sound k a a' w st :
  bhole k a = Some a' -> fills k w -> a = st -> exists st', run bstep st w = Some st' /\ a' = st'.
Proof.
  intros Hh Hf <-.
  assert (Hk : (k = HDigits \/ k = HIdent \/ k = HPlain) /\ a' = a).
  { destruct k; cbn in Hh; try discriminate; inversion Hh; auto. }
  destruct Hk as [Hk ->]. exists a. split; [|reflexivity].
  apply run_plain; [intros c Hc; apply bstep_plain, Hc | eapply plain_of_kind; eauto].
Qed.

Theorem braces_sound t : braces_ok t = true -> forall w, gen t w -> brun false w = Some false.
Proof.
  unfold braces_ok. intros H w Hg.
  destruct (tx_run Bool.eqb bstep bhole t false) as [a'|] eqn:E; [|discriminate].
  destruct a'; try discriminate.
  destruct (tx_run_sound (fun a st => a = st) Bool.eqb bstep bstep bhole Bool.eqb_prop) with (t := t) (w := w) (a := false) (a' := false) (st := false)
    as [st' [R G]]; try assumption; try reflexivity.
  - intros a a1 c st Hs <-. exists a1. split; [exact Hs | reflexivity].
  - intros k a a1 w0 st Hh Hf Ha. apply (bhole_sound k a a1 w0 st Hh Hf Ha).
  - subst st'. exact R.
Qed.

(* ---------------------------------------------------------------- blocks *)
Lemma gstate_eqb_eq a b : gstate_eqb a b = true -> a = b.
Proof.
  destruct a as [[l1 d1] [a1 c1]], b as [[l2 d2] [a2 c2]]. cbn [gstate_eqb].
  intro H. apply andb_true_iff in H as [H Hc]. apply andb_true_iff in H as [H Ha]. apply andb_true_iff in H as [Hl Hd].
  apply dstate_eqb_eq in Hl. apply Nat.eqb_eq in Hd. apply Bool.eqb_prop in Ha, Hc. congruence.
Qed.

Lemma gstep_plain_out d a c : plain_char c = true -> gstep (DOut, d, (a, false)) c = Some (DOut, d, (a, false)).
Proof.
  intro Hc.
  assert (H34 := plain_not 34 eq_refl c Hc). assert (H60 := plain_not 60 eq_refl c Hc).
  assert (H47 := plain_not 47 eq_refl c Hc). assert (H35 := plain_not 35 eq_refl c Hc).
  assert (H123 := plain_not 123 eq_refl c Hc). assert (H125 := plain_not 125 eq_refl c Hc).
  assert (H91 := plain_not 91 eq_refl c Hc). assert (H93 := plain_not 93 eq_refl c Hc).
  cbn [gstep]. unfold c_quote. rewrite H34, H60, H47, H35, H123, H125, H91, H93. reflexivity.
Qed.

Lemma gstep_plain_in d ac c : plain_char c = true -> gstep (DIn, d, ac) c = Some (DIn, d, ac).
Proof.
  intro Hc. destruct ac as [a cl]. cbn [gstep]. rewrite (dstep_plain DIn c) by auto. reflexivity.
Qed.

Lemma gstep_plain_html n d ac c : plain_char c = true -> gstep (DHtml n, d, ac) c = Some (DHtml n, d, ac).
Proof.
  intro Hc. destruct ac as [a cl]. cbn [gstep]. rewrite (dstep_plain (DHtml n) c) by eauto. reflexivity.
Qed.

Lemma qrun_grun (u : list N) d ac : forall e e', qrun e u = Some e' -> grun (dst e, d, ac) u = Some (dst e', d, ac).
Proof.
  destruct ac as [a cl].
  induction u as [|c u IH]; intros e e' H.
  - cbn in H. inversion H; subst. reflexivity.
  - cbn [qrun] in H. unfold grun. cbn [run].
    destruct e; cbn [qstep] in H; cbn [dst gstep dstep].
    + apply (IH false e' H).
    + destruct (N.eqb c c_quote); [discriminate|].
      destruct (N.eqb c c_bslash); apply (IH _ e' H).
Qed.

Lemma grun_html n d ac w :
  forallb (fun c => negb (N.eqb c 60) && negb (N.eqb c 62)) w = true -> grun (DHtml n, d, ac) w = Some (DHtml n, d, ac).
Proof.
  destruct ac as [a cl].
  induction w as [|c w IH]; intro H; [reflexivity|].
  cbn [forallb] in H. apply andb_true_iff in H as [Hc Hw]. apply andb_true_iff in Hc as [H1 H2].
  unfold grun. cbn [run gstep dstep]. apply negb_true_iff in H1, H2. rewrite H1, H2. apply IH, Hw.
Qed.

Lemma ghole_sound k a a' w st :
  ghole k a = Some a' -> fills k w -> a = st -> exists st', run gstep st w = Some st' /\ a' = st'.
Proof.
  intros Hh Hf <-. destruct a as [[lx d] [at_ cl]].
  destruct k; cbn [ghole] in Hh.
  1-3: (assert (Hp : forallb plain_char w = true) by (eapply plain_of_kind; [|exact Hf]; auto);
        destruct lx as [| | |n]; try discriminate;
        [ destruct cl; [discriminate|]; inversion Hh; subst; eexists; split; [apply run_plain; [intros c Hc; apply gstep_plain_out, Hc | exact Hp] | reflexivity]
        | inversion Hh; subst; eexists; split; [apply run_plain; [intros c Hc; apply gstep_plain_in, Hc | exact Hp] | reflexivity]
        | inversion Hh; subst; eexists; split; [apply run_plain; [intros c Hc; apply gstep_plain_html, Hc | exact Hp] | reflexivity] ]).
  - destruct lx; try discriminate. inversion Hh; subst. destruct Hf as [s ->].
    eexists. split; [apply (qrun_grun (dot_escape s) d (at_, cl) false false (dot_escape_qrun s)) | reflexivity].
  - destruct lx; try discriminate. inversion Hh; subst. destruct Hf as [[s ->]|Hp].
    + eexists. split; [apply (qrun_grun (dot_repr_str s) d (at_, cl) false false (dot_repr_qrun s)) | reflexivity].
    + eexists. split; [apply run_plain; [intros c Hc; apply gstep_plain_in, Hc | exact Hp] | reflexivity].
  - destruct lx as [| | |n]; try discriminate. inversion Hh; subst.
    eexists. split; [apply (grun_html n d (at_, cl) w Hf) | reflexivity].
  - destruct lx; discriminate.
Qed.

Theorem doc_blocks_sound t :
  doc_blocks_ok t = true -> forall w, gen t w -> grun g_start w = Some g_final.
Proof.
  unfold doc_blocks_ok. intros H w Hg.
  destruct (tx_run gstate_eqb gstep ghole t g_start) as [a'|] eqn:E; [|discriminate].
  apply gstate_eqb_eq in H. subst a'.
  destruct (tx_run_sound (fun a st => a = st) gstate_eqb gstep gstep ghole gstate_eqb_eq) with (t := t) (w := w) (a := g_start) (a' := g_final) (st := g_start)
    as [st' [R G]]; try assumption; try reflexivity.
  - intros a a1 c st Hs <-. exists a1. split; [exact Hs | reflexivity].
  - intros k a a1 w0 st Hh Hf Ha. apply (ghole_sound k a a1 w0 st Hh Hf Ha).
  - subst st'. exact R.
Qed.
