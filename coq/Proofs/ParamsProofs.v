(* Proofs about Model/Params.v (C27). *)
From TxV Require Import Core.Base Gen.SrcParams Model.Params.

(* ---------------------------------------------------------------- check_params *)

Lemma check_params_none declared kw :
  check_params declared kw = None <-> (forall k, In k (keys kw) -> In k declared).
Proof.
  induction kw as [|[k v] r IH]; cbn [check_params keys map fst].
  - split; [intros _ k [] | reflexivity].
  - destruct (mem_str k declared) eqn:E.
    + rewrite IH. apply mem_str_In in E. split.
      * intros H k' [<-|Hk]; [exact E | apply H; exact Hk].
      * intros H k' Hk. apply H. right. exact Hk.
    + split; [discriminate|]. intro H.
      assert (Hin : In k declared) by (apply H; left; reflexivity).
      apply mem_str_In in Hin. congruence.
Qed.

(* the reported key is the first keyword (in call order) that is not declared *)
Lemma check_params_some declared kw k :
  check_params declared kw = Some k <->
  exists pre v post, kw = pre ++ (k, v) :: post /\ ~ In k declared /\ (forall k', In k' (keys pre) -> In k' declared).
Proof.
  revert k. induction kw as [|[k0 v0] r IH]; intro k; cbn [check_params].
  - split; [discriminate|]. intros (pre & v & post & H & _). destruct pre; discriminate.
  - destruct (mem_str k0 declared) eqn:E.
    + rewrite IH. split.
      * intros (pre & v & post & -> & Hn & Hp). exists ((k0, v0) :: pre), v, post. split; [reflexivity|]. split; [exact Hn|].
        intros k' [<-|Hk]; [apply mem_str_In; exact E | apply Hp; exact Hk].
      * intros (pre & v & post & H & Hn & Hp). destruct pre as [|[k1 v1] pre].
        -- cbn in H. injection H as Hk0 Hv0 Hr. subst k0. apply mem_str_In in E. contradiction.
        -- cbn in H. injection H as Hk0 Hv0 Hr. subst k1 r. exists pre, v, post. split; [reflexivity|]. split; [exact Hn|].
           intros k' Hk. apply Hp. right. exact Hk.
    + split.
      * intro H. inversion H; subst. exists [], v0, r. split; [reflexivity|]. split.
        -- intro Hin. apply mem_str_In in Hin. congruence.
        -- intros k' [].
      * intros (pre & v & post & H & Hn & Hp). destruct pre as [|[k1 v1] pre].
        -- cbn in H. injection H as Hk0 Hv0 Hr. subst k0. reflexivity.
        -- cbn in H. injection H as Hk0 Hv0 Hr. subst k1. exfalso.
           assert (Hin : In k0 declared) by (apply Hp; left; reflexivity).
           apply mem_str_In in Hin. congruence.
Qed.

(* ---------------------------------------------------------------- declarations never contain a reserved name *)

Definition no_reserved (store : list (list N)) : Prop := forall k, In k store -> mem_str k reserved_names = false.

Lemma defs_add_no_reserved store name store' :
  no_reserved store -> defs_add store name = Some store' -> no_reserved store'.
Proof.
  unfold defs_add. intros Hs H. destruct (mem_str name reserved_names) eqn:E; [discriminate|].
  inversion H; subst; clear H. destruct (mem_str name store); [exact Hs|].
  intros k Hk. apply in_app_or in Hk as [Hk|[<-|[]]]; [apply Hs; exact Hk | exact E].
Qed.

Lemma declare_no_reserved names : forall store, no_reserved store -> no_reserved (declare store names).
Proof.
  unfold declare. induction names as [|n names IH]; intros store Hs; cbn [fold_left]; [exact Hs|].
  apply IH. destruct (defs_add store n) eqn:E; [eapply defs_add_no_reserved; eassumption | exact Hs].
Qed.

Lemma defs_add_keeps store name store' k : defs_add store name = Some store' -> In k store -> In k store'.
Proof.
  unfold defs_add. destruct (mem_str name reserved_names); [discriminate|]. intros H Hk. inversion H; subst.
  destruct (mem_str name store); [exact Hk | apply in_or_app; left; exact Hk].
Qed.

Lemma declare_keeps names : forall store k, In k store -> In k (declare store names).
Proof.
  unfold declare. induction names as [|n names IH]; intros store k Hk; cbn [fold_left]; [exact Hk|].
  apply IH. destruct (defs_add store n) eqn:E; [eapply defs_add_keeps; eassumption | exact Hk].
Qed.

(* an accepted add makes the name declared; a name is declared only if it was there or was added *)
Lemma declare_adds names : forall store k, In k names -> mem_str k reserved_names = false -> In k (declare store names).
Proof.
  unfold declare. induction names as [|n names IH]; intros store k Hk Hr; [destruct Hk|]. cbn [fold_left].
  destruct Hk as [->|Hk]; [|apply IH; assumption].
  apply declare_keeps. unfold defs_add. rewrite Hr.
  destruct (mem_str k store) eqn:E; [apply mem_str_In; exact E | apply in_or_app; right; left; reflexivity].
Qed.

Lemma declare_only names : forall store k, In k (declare store names) -> In k store \/ In k names.
Proof.
  unfold declare. induction names as [|n names IH]; intros store k Hk; cbn [fold_left] in Hk; [left; exact Hk|].
  apply IH in Hk as [Hk|Hk]; [|right; right; exact Hk].
  unfold defs_add in Hk. destruct (mem_str n reserved_names); [left; exact Hk|].
  destruct (mem_str n store); [left; exact Hk|].
  apply in_app_or in Hk as [Hk|[<-|[]]]; [left; exact Hk | right; left; reflexivity].
Qed.

(* facts about the translated data (re-proved whenever the source changes) *)
Lemma sigs_reserved : forallb (fun k => mem_str k reserved_names) (sig_from_str ++ sig_from_file) = true.
Proof. vm_compute. reflexivity. Qed.

Lemma builtin_not_reserved : forallb (fun k => negb (mem_str k reserved_names)) builtin_params = true.
Proof. vm_compute. reflexivity. Qed.

Lemma project_root_builtin : mem_str project_root_key builtin_store = true.
Proof. vm_compute. reflexivity. Qed.

Lemma sig_in_reserved e k : In k (sig_of e) -> mem_str k reserved_names = true.
Proof.
  intro Hk. pose proof sigs_reserved as H. rewrite forallb_forall in H. apply H.
  apply in_or_app. destruct e; cbn [sig_of] in Hk; [left | left | right]; exact Hk.
Qed.

Lemma in_firstn_in {A} (x : A) n : forall l, In x (firstn n l) -> In x l.
Proof.
  induction n as [|n IH]; intros [|y l] H; cbn [firstn] in H; try contradiction.
  destruct H as [->|H]; [left; reflexivity | right; apply IH; exact H].
Qed.

Lemma pos_bound_sig e k : In k (pos_bound e) -> In k (sig_of e).
Proof. destruct e; cbn [pos_bound sig_of]; apply in_firstn_in. Qed.
