(* Proofs about Model/Params.v (C27). *)
From TxV Require Import Core.Base Gen.SrcParams Model.Params.

(* ---------------------------------------------------------------- check_params *)

Lemma check_params_none declared kw :
  check_params declared kw = None <-> (forall k, In k (keys kw) -> In k declared).
Proof.
  induction kw as [|[k v] r IH]; cbn [check_params keys map fst].
  - split; [intros _ k [] | reflexivity].
  - destruct (mem_str k declared) eqn:E.
    + rewrite IH. apply mem_str_In in E. split.
      * intros H k' [<-|Hk]; [exact E | apply H; exact Hk].
      * intros H k' Hk. apply H. right. exact Hk.
    + split; [discriminate|]. intro H.
      assert (Hin : In k declared) by (apply H; left; reflexivity).
      apply mem_str_In in Hin. congruence.
Qed.

(* the reported key is the first keyword (in call order) that is not declared *)
Lemma check_params_some declared kw k :
  check_params declared kw = Some k <->
  exists pre v post, kw = pre ++ (k, v) :: post /\ ~ In k declared /\ (forall k', In k' (keys pre) -> In k' declared).
Proof.
  revert k. induction kw as [|[k0 v0] r IH]; intro k; cbn [check_params].
  - split; [discriminate|]. intros (pre & v & post & H & _). destruct pre; discriminate.
  - destruct (mem_str k0 declared) eqn:E.
    + rewrite IH. split.
      * intros (pre & v & post & -> & Hn & Hp). exists ((k0, v0) :: pre), v, post. split; [reflexivity|]. split; [exact Hn|].
        intros k' [<-|Hk]; [apply mem_str_In; exact E | apply Hp; exact Hk].
      * intros (pre & v & post & H & Hn & Hp). destruct pre as [|[k1 v1] pre].
        -- cbn in H. injection H as Hk0 Hv0 Hr. subst k0. apply mem_str_In in E. contradiction.
        -- cbn in H. injection H as Hk0 Hv0 Hr. subst k1 r. exists pre, v, post. split; [reflexivity|]. split; [exact Hn|].
           intros k' Hk. apply Hp. right. exact Hk.
    + split.
      * intro H. inversion H; subst. exists [], v0, r. split; [reflexivity|]. split.
        -- intro Hin. apply mem_str_In in Hin. congruence.
        -- intros k' [].
      * intros (pre & v & post & H & Hn & Hp). destruct pre as [|[k1 v1] pre].
        -- cbn in H. injection H as Hk0 Hv0 Hr. subst k0. reflexivity.
        -- cbn in H. injection H as Hk0 Hv0 Hr. subst k1. exfalso.
           assert (Hin : In k0 declared) by (apply Hp; left; reflexivity).
           apply mem_str_In in Hin. congruence.
Qed.

(* ---------------------------------------------------------------- declarations never contain a reserved name *)

Definition no_reserved (store : list (list N)) : Prop := forall k, In k store -> mem_str k reserved_names = false.

Lemma defs_add_no_reserved store name store' :
  no_reserved store -> defs_add store name = Some store' -> no_reserved store'.
Proof.
  unfold defs_add. intros Hs H. destruct (mem_str name reserved_names) eqn:E; [discriminate|].
  inversion H; subst; clear H. destruct (mem_str name store); [exact Hs|].
  intros k Hk. apply in_app_or in Hk as [Hk|[<-|[]]]; [apply Hs; exact Hk | exact E].
Qed.

Lemma declare_no_reserved names : forall store, no_reserved store -> no_reserved (declare store names).
Proof.
  unfold declare. induction names as [|n names IH]; intros store Hs; cbn [fold_left]; [exact Hs|].
  apply IH. destruct (defs_add store n) eqn:E; [eapply defs_add_no_reserved; eassumption | exact Hs].
Qed.

Lemma defs_add_keeps store name store' k : defs_add store name = Some store' -> In k store -> In k store'.
Proof.
  unfold defs_add. destruct (mem_str name reserved_names); [discriminate|]. intros H Hk. inversion H; subst.
  destruct (mem_str name store); [exact Hk | apply in_or_app; left; exact Hk].
Qed.

Lemma declare_keeps names : forall store k, In k store -> In k (declare store names).
Proof.
  unfold declare. induction names as [|n names IH]; intros store k Hk; cbn [fold_left]; [exact Hk|].
  apply IH. destruct (defs_add store n) eqn:E; [eapply defs_add_keeps; eassumption | exact Hk].
Qed.

(* an accepted add makes the name declared; a name is declared only if it was there or was added *)
Lemma declare_adds names : forall store k, In k names -> mem_str k reserved_names = false -> In k (declare store names).
Proof.
  unfold declare. induction names as [|n names IH]; intros store k Hk Hr; [destruct Hk|]. cbn [fold_left].
  destruct Hk as [->|Hk]; [|apply IH; assumption].
  apply declare_keeps. unfold defs_add. rewrite Hr.
  destruct (mem_str k store) eqn:E; [apply mem_str_In; exact E | apply in_or_app; right; left; reflexivity].
Qed.

Lemma declare_only names : forall store k, In k (declare store names) -> In k store \/ In k names.
Proof.
  unfold declare. induction names as [|n names IH]; intros store k Hk; cbn [fold_left] in Hk; [left; exact Hk|].
  apply IH in Hk as [Hk|Hk]; [|right; right; exact Hk].
  unfold defs_add in Hk. destruct (mem_str n reserved_names); [left; exact Hk|].
  destruct (mem_str n store); [left; exact Hk|].
  apply in_app_or in Hk as [Hk|[<-|[]]]; [left; exact Hk | right; left; reflexivity].
Qed.

(* facts about the translated data (re-proved whenever the source changes) *)
Lemma sigs_reserved : forallb (fun k => mem_str k reserved_names) (sig_from_str ++ sig_from_file) = true.
Proof. vm_compute. reflexivity. Qed.

Lemma builtin_not_reserved : forallb (fun k => negb (mem_str k reserved_names)) builtin_params = true.
Proof. vm_compute. reflexivity. Qed.

Lemma project_root_builtin : mem_str project_root_key builtin_store = true.
Proof. vm_compute. reflexivity. Qed.

Lemma sig_in_reserved e k : e <> ERepo -> In k (sig_of e) -> mem_str k reserved_names = true.
Proof.
  intros He Hk. pose proof sigs_reserved as H. rewrite forallb_forall in H. apply H.
  apply in_or_app. destruct e; cbn [sig_of] in Hk; [left | left | right | contradiction]; exact Hk.
Qed.

Lemma in_firstn_in {A} (x : A) n : forall l, In x (firstn n l) -> In x l.
Proof.
  induction n as [|n IH]; intros [|y l] H; cbn [firstn] in H; try contradiction.
  destruct H as [->|H]; [left; reflexivity | right; apply IH; exact H].
Qed.

Lemma pos_bound_sig e k : In k (pos_bound e) -> In k (sig_of e).
Proof. destruct e; cbn [pos_bound sig_of]; apply in_firstn_in. Qed.

(* ---------------------------------------------------------------- binding of declared keywords *)

Lemma bind_kwargs_spec e call_kw kw :
  bind_kwargs e call_kw = Some kw ->
  (forall k, In k (keys call_kw) -> ~ In k (pos_bound e)) /\
  kw = filter (fun kv => negb (mem_str (fst kv) (sig_of e))) call_kw.
Proof.
  unfold bind_kwargs. destruct (existsb _ call_kw) eqn:E; [discriminate|]. intro H. inversion H; subst. split; [|reflexivity].
  intros k Hk Hp. unfold keys in Hk. apply in_map_iff in Hk as [[k' v] [Hf Hin]]. cbn in Hf; subst k'.
  assert (X : existsb (fun kv => mem_str (fst kv) (pos_bound e)) call_kw = true).
  { apply existsb_exists. exists (k, v). split; [exact Hin | apply mem_str_In; exact Hp]. }
  congruence.
Qed.

Lemma bind_kwargs_keys e call_kw kw k :
  bind_kwargs e call_kw = Some kw -> (In k (keys kw) <-> In k (keys call_kw) /\ ~ In k (sig_of e)).
Proof.
  intro H. apply bind_kwargs_spec in H as [_ ->]. unfold keys. rewrite in_map_iff. split.
  - intros [[k' v] [Hf Hin]]. cbn in Hf; subst k'. apply filter_In in Hin as [Hin Hn]. split.
    + apply in_map_iff. exists (k, v). split; [reflexivity | exact Hin].
    + intro Hs. apply mem_str_In in Hs. cbn in Hn. rewrite Hs in Hn. discriminate.
  - intros [Hin Hn]. apply in_map_iff in Hin as [[k' v] [Hf Hin]]. cbn in Hf; subst k'.
    exists (k, v). split; [reflexivity|]. apply filter_In. split; [exact Hin|]. cbn.
    destruct (mem_str k (sig_of e)) eqn:E; [apply mem_str_In in E; contradiction | reflexivity].
Qed.

Lemma filter_all {A} (f : A -> bool) l : (forall x, In x l -> f x = true) -> filter f l = l.
Proof.
  induction l as [|x l IH]; intro H; cbn [filter]; [reflexivity|].
  rewrite (H x (or_introl eq_refl)). f_equal. apply IH. intros y Hy. apply H. right. exact Hy.
Qed.

Lemma existsb_none {A} (f : A -> bool) l : (forall x, In x l -> f x = false) -> existsb f l = false.
Proof.
  induction l as [|x l IH]; intro H; cbn [existsb]; [reflexivity|].
  rewrite (H x (or_introl eq_refl)). apply IH. intros y Hy. apply H. right. exact Hy.
Qed.

(* keywords whose names are not reserved are passed through untouched, whatever the entry point *)
Lemma bind_kwargs_unreserved e call_kw : e <> ERepo ->
  (forall k, In k (keys call_kw) -> mem_str k reserved_names = false) -> bind_kwargs e call_kw = Some call_kw.
Proof.
  intros He H. unfold bind_kwargs.
  assert (Hs : forall kv, In kv call_kw -> mem_str (fst kv) (sig_of e) = false).
  { intros [k v] Hin. cbn. destruct (mem_str k (sig_of e)) eqn:E; [|reflexivity].
    apply mem_str_In, (sig_in_reserved e k He) in E. rewrite H in E; [discriminate|].
    unfold keys. apply in_map_iff. exists (k, v). split; [reflexivity | exact Hin]. }
  rewrite existsb_none.
  - rewrite filter_all; [reflexivity|]. intros kv Hin. rewrite (Hs kv Hin). reflexivity.
  - intros [k v] Hin. cbn. destruct (mem_str k (pos_bound e)) eqn:E; [|reflexivity].
    apply mem_str_In, pos_bound_sig, mem_str_In in E. pose proof (Hs (k, v) Hin) as Hs'. cbn in Hs'. congruence.
Qed.

Lemma builtin_store_no_reserved : no_reserved builtin_store.
Proof. apply declare_no_reserved. intros k []. Qed.

Lemma metamodel_declared_no_reserved names : no_reserved (declare builtin_store names).
Proof. apply declare_no_reserved, builtin_store_no_reserved. Qed.

(* ---------------------------------------------------------------- every model created by a load carries the parameters *)

(* a model object created by operation opn of a load with (bound) keyword arguments kw *)
Definition good (kw : list (list N * N)) (opn : nat) (m : mrec) : Prop :=
  m_op m = opn /\ ((m_prim m = false /\ m_params m = Some kw) \/ (m_prim m = true /\ m_params m = None)).

Definition grows (kw : list (list N * N)) (opn : nat) (s s' : lstate) : Prop :=
  exists added, heap s' = heap s ++ added /\ Forall (good kw opn) added.

Lemma grows_refl kw opn s : grows kw opn s s.
Proof. exists []. split; [rewrite app_nil_r; reflexivity | constructor]. Qed.

Lemma grows_trans kw opn s1 s2 s3 : grows kw opn s1 s2 -> grows kw opn s2 s3 -> grows kw opn s1 s3.
Proof.
  intros (a & Ha & Fa) (b & Hb & Fb). exists (a ++ b). split.
  - rewrite Hb, Ha, app_assoc. reflexivity.
  - apply Forall_app. split; assumption.
Qed.

Lemma grows_same_heap kw opn s s' : heap s' = heap s -> grows kw opn s s'.
Proof. intro H. exists []. split; [rewrite app_nil_r; exact H | constructor]. Qed.

Section LoopsGrow.
  Variable rec : nat -> nat -> file -> lstate -> res.
  Variable w : list file.
  Variable kw : list (list N * N).
  Variable opn : nat.
  Hypothesis rec_grows : forall mm f fr s s', rec mm f fr s = Ok s' -> grows kw opn s s'.

  Lemma load_files_grows fs : forall dflt s s', load_files rec w dflt fs s = Ok s' -> grows kw opn s s'.
  Proof.
    induction fs as [|f fs IH]; intros dflt s s' H; cbn [load_files] in H.
    - inversion H; subst. apply grows_refl.
    - destruct (nth_error w f) as [fr|]; [|discriminate].
      destruct (repo_find f (allm s)); [eapply IH; exact H|].
      destruct (mm_for dflt fr) as [mm|]; [|discriminate].
      destruct (rec mm f fr s) as [s1|e] eqn:E; [|discriminate].
      eapply grows_trans; [eapply rec_grows; exact E | eapply IH; exact H].
  Qed.

  Lemma load_imps_grows prov mm fn id p l : forall s s', load_imps rec w prov mm fn id p l s = Ok s' -> grows kw opn s s'.
  Proof.
    induction l as [|i l IH]; intros s s' H; cbn [load_imps] in H.
    - inversion H; subst. apply grows_refl.
    - assert (X : match resolve i p with
                  | None => Fail EMissing
                  | Some fs => match load_files rec w (Some mm) fs {| heap := heap s; allm := repo_register_main fn id (allm s) |} with
                               | Ok s1 => load_imps rec w prov mm fn id p l s1
                               | Fail e => Fail e end end = Ok s').
      { destruct prov; try exact H; destruct fn; try exact H; discriminate. }
      clear H. destruct (resolve i p) as [fs|]; [|discriminate].
      destruct (load_files rec w (Some mm) fs _) as [s1|e] eqn:E; [|discriminate].
      eapply grows_trans; [|apply IH; exact X].
      eapply grows_trans; [|eapply load_files_grows; exact E].
      apply grows_same_heap. reflexivity.
  Qed.
End LoopsGrow.

Lemma nth_error_snoc {A} (l : list A) x : nth_error (l ++ [x]) (length l) = Some x.
Proof. rewrite nth_error_app2 by lia. rewrite Nat.sub_diag. reflexivity. Qed.

Lemma load_new_grows fuel : forall w prov opn mm fn fr p reg s s',
  load_new fuel w prov opn mm fn fr p reg s = Ok s' -> grows p opn s s'.
Proof.
  induction fuel as [|fuel IH]; intros w prov opn mm fn fr p reg s s' H; cbn [load_new] in H; [discriminate|].
  destruct (f_prim fr) eqn:Ep.
  - destruct (reg || is_loader prov); [discriminate|]. inversion H; subst; clear H.
    eexists. split; [cbn [heap]; reflexivity|]. constructor; [|constructor].
    split; [reflexivity|]. right. split; reflexivity.
  - set (m := {| m_file := fn; m_prim := false; m_params := Some p; m_op := opn; m_mm := mm |}) in *.
    assert (G1 : forall a, grows p opn s {| heap := heap s ++ [m]; allm := a |}).
    { intro a. exists [m]. split; [reflexivity|]. constructor; [|constructor]. split; [reflexivity|]. left. split; reflexivity. }
    destruct (is_loader prov).
    + cbn [heap] in H. rewrite nth_error_snoc in H. cbn [m_params m] in H.
      eapply grows_trans; [apply G1|].
      eapply load_imps_grows; [|exact H].
      intros mm' f fr' s0 s0' H0. eapply IH. exact H0.
    + inversion H; subst. apply G1.
Qed.

(* the operation level *)
Lemma finish_load_loaded c g e prim r g' res n0 repo kw opn :
  finish_load c g e prim r = (g', OLoaded res n0 repo) ->
  (forall s', r = Ok s' -> grows kw opn {| heap := g_heap g; allm := if c_grepo c then g_repo g else [] |} s') ->
  (forall s', r = Ok s' -> heap s' <> g_heap g) ->
  n0 = length (g_heap g) /\ res = n0 /\
  exists added, g_heap g' = g_heap g ++ added /\ Forall (good kw opn) added /\ added <> [].
Proof.
  unfold finish_load. intros H Hg Hne. destruct r as [s'|x]; [|inversion H].
  inversion H; subst; clear H. split; [reflexivity|]. split; [reflexivity|].
  destruct (Hg s' eq_refl) as (added & Ha & Fa). cbn [heap] in Ha. exists added. cbn [g_heap].
  split; [exact Ha|]. split; [exact Fa|]. intro E; subst added. rewrite app_nil_r in Ha. exact (Hne s' eq_refl Ha).
Qed.

Lemma load_new_creates fuel w prov opn mm fn fr p reg s s' :
  load_new fuel w prov opn mm fn fr p reg s = Ok s' -> heap s' <> heap s.
Proof.
  intro H. destruct fuel as [|fuel]; [discriminate|]. cbn [load_new] in H.
  assert (L : forall m a s2, grows p opn {| heap := heap s ++ [m]; allm := a |} s2 -> heap s2 <> heap s).
  { intros m a s2 (added & Ha & _) E. cbn [heap] in Ha. rewrite E in Ha.
    apply (f_equal (@length mrec)) in Ha. rewrite !app_length in Ha. cbn [length] in Ha. lia. }
  destruct (f_prim fr).
  - destruct (reg || is_loader prov); [discriminate|]. inversion H; subst. cbn [heap]. intro E.
    apply (f_equal (@length mrec)) in E. rewrite app_length in E. cbn [length] in E. lia.
  - destruct (is_loader prov).
    + cbn [heap] in H. rewrite nth_error_snoc in H. cbn [m_params] in H.
      eapply L. eapply load_imps_grows; [|exact H]. intros mm' f fr' s0 s0' H0. eapply load_new_grows. exact H0.
    + inversion H; subst. cbn [heap]. intro E.
      apply (f_equal (@length mrec)) in E. rewrite app_length in E. cbn [length] in E. lia.
Qed.

Lemma run_op_loaded w c declared opn g o g' res n0 repo kw :
  run_op w c declared opn g o = (g', OLoaded res n0 repo) ->
  bind_kwargs (o_entry o) (o_kw o) = Some kw ->
  n0 = length (g_heap g) /\
  exists added, g_heap g' = g_heap g ++ added /\ Forall (good kw opn) added /\
    ((added = [] /\ g' = g /\ c_grepo c = true /\ exists f, repo_find f (g_repo g) = Some res) \/ (res = n0 /\ added <> [])).
Proof.
  unfold run_op. intros H Hb. rewrite Hb in H.
  destruct (match o_entry o with ERepo => None | _ => check_params declared kw end); [inversion H|].
  destruct (is_str_entry (o_entry o) && negb (o_is_str o)); [inversion H|].
  assert (Fin : forall e prim fn fr reg,
    finish_load c g e prim (load_new (fuel_for w) w (c_prov c) opn 0 fn fr kw reg
       {| heap := g_heap g; allm := if c_grepo c then g_repo g else [] |}) = (g', OLoaded res n0 repo) ->
    n0 = length (g_heap g) /\
    exists added, g_heap g' = g_heap g ++ added /\ Forall (good kw opn) added /\
      ((added = [] /\ g' = g /\ c_grepo c = true /\ exists f, repo_find f (g_repo g) = Some res) \/ (res = n0 /\ added <> []))).
  { intros e prim fn fr reg HF. eapply finish_load_loaded with (kw := kw) (opn := opn) in HF.
    - destruct HF as (Hn & Hr & added & Ha & Fa & Hne). split; [exact Hn|]. exists added. split; [exact Ha|]. split; [exact Fa|].
      right. split; [exact Hr | exact Hne].
    - intros s' E. eapply load_new_grows. exact E.
    - intros s' E. apply load_new_creates in E. exact E. }
  destruct (o_entry o) as [|f|f|].
  - eapply Fin. exact H.
  - destruct (c_grepo c) eqn:Eg.
    + destruct (repo_find f (g_repo g)) as [id|] eqn:Ef.
      * inversion H; subst. split; [reflexivity|]. exists []. split; [rewrite app_nil_r; reflexivity|]. split; [constructor|].
        left. split; [reflexivity|]. split; [reflexivity|]. split; [reflexivity|]. exists f. exact Ef.
      * eapply Fin. exact H.
    + eapply Fin. exact H.
  - destruct (c_grepo c) eqn:Eg.
    + destruct (repo_find f (g_repo g)) as [id|] eqn:Ef.
      * inversion H; subst. split; [reflexivity|]. exists []. split; [rewrite app_nil_r; reflexivity|]. split; [constructor|].
        left. split; [reflexivity|]. split; [reflexivity|]. split; [reflexivity|]. exists f. exact Ef.
      * destruct (nth_error w f) as [fr|]; [|inversion H]. eapply Fin. exact H.
    + destruct (nth_error w f) as [fr|]; [|inversion H]. eapply Fin. exact H.
  - destruct (c_prov c); try solve [inversion H]. destruct (load_pats _ _ _ _); inversion H.
Qed.

(* load_models_in_model_repo: every model it creates carries the bound keyword arguments; the metamodel's
   repository is not touched *)
Section PatsGrow.
  Variable rec : nat -> nat -> file -> lstate -> res.
  Variable w : list file.
  Variable kw : list (list N * N).
  Variable opn : nat.
  Hypothesis rec_grows : forall mm f fr s s', rec mm f fr s = Ok s' -> grows kw opn s s'.
  Lemma load_pats_grows l : forall s s', load_pats rec w l s = Ok s' -> grows kw opn s s'.
  Proof.
    induction l as [|i l IH]; intros s s' H; cbn [load_pats] in H.
    - inversion H; subst. apply grows_refl.
    - destruct (i_plain i) as [fs|]; [|discriminate].
      destruct (load_files rec w None fs s) as [s1|e] eqn:E; [|discriminate].
      eapply grows_trans; [eapply load_files_grows; eassumption | apply IH; exact H].
  Qed.
End PatsGrow.

Lemma run_op_repo w c declared opn g o g' n0 repo kw :
  run_op w c declared opn g o = (g', ORepo n0 repo) ->
  bind_kwargs (o_entry o) (o_kw o) = Some kw ->
  o_entry o = ERepo /\ n0 = length (g_heap g) /\ g_repo g' = g_repo g /\
  exists added, g_heap g' = g_heap g ++ added /\ Forall (good kw opn) added.
Proof.
  unfold run_op. intros H Hb. rewrite Hb in H.
  destruct (match o_entry o with ERepo => None | _ => check_params declared kw end); [inversion H|].
  destruct (is_str_entry (o_entry o) && negb (o_is_str o)); [inversion H|].
  assert (Fin : forall e prim r, finish_load c g e prim r <> (g', ORepo n0 repo)).
  { intros e prim r. unfold finish_load. destruct r; intro X; inversion X. }
  destruct (o_entry o) as [|f|f|].
  - exfalso. exact (Fin _ _ _ H).
  - destruct (if c_grepo c then repo_find f (g_repo g) else None); [inversion H | exfalso; exact (Fin _ _ _ H)].
  - destruct (if c_grepo c then repo_find f (g_repo g) else None); [inversion H|].
    destruct (nth_error w f); [exfalso; exact (Fin _ _ _ H) | inversion H].
  - destruct (c_prov c); try solve [inversion H].
    destruct (load_pats _ _ _ _) as [s'|x] eqn:E; inversion H; subst; clear H.
    split; [reflexivity|]. split; [reflexivity|]. split; [reflexivity|].
    eapply load_pats_grows with (kw := kw) (opn := opn) in E.
    + destruct E as (added & Ha & Fa). exists added. split; [exact Ha | exact Fa].
    + intros mm f fr s0 s0' H0. eapply load_new_grows. exact H0.
Qed.

Definition is_loaded (out : outcome) : bool := match out with OLoaded _ _ _ | ORepo _ _ => true | _ => false end.

(* a refused or failed operation leaves no trace *)
Lemma run_op_not_loaded w c declared opn g o :
  is_loaded (snd (run_op w c declared opn g o)) = false -> fst (run_op w c declared opn g o) = g.
Proof.
  unfold run_op.
  destruct (bind_kwargs (o_entry o) (o_kw o)) as [kw|]; [|reflexivity].
  destruct (match o_entry o with ERepo => None | _ => check_params declared kw end); [reflexivity|].
  destruct (is_str_entry (o_entry o) && negb (o_is_str o)); [reflexivity|].
  assert (Fin : forall e prim r, is_loaded (snd (finish_load c g e prim r)) = false -> fst (finish_load c g e prim r) = g).
  { intros e prim r. unfold finish_load. destruct r; cbn; [discriminate | reflexivity]. }
  destruct (o_entry o) as [|f|f|].
  - apply Fin.
  - destruct (if c_grepo c then repo_find f (g_repo g) else None); [reflexivity | apply Fin].
  - destruct (if c_grepo c then repo_find f (g_repo g) else None); [reflexivity|].
    destruct (nth_error w f); [apply Fin | reflexivity].
  - destruct (c_prov c); try reflexivity. destruct (load_pats _ _ _ _); cbn; [discriminate | reflexivity].
Qed.

(* rejection happens exactly when a bound keyword is not declared, and names the first such keyword *)
Lemma run_op_rejected w c declared opn g o kw :
  o_entry o <> ERepo ->
  bind_kwargs (o_entry o) (o_kw o) = Some kw ->
  forall k, snd (run_op w c declared opn g o) = ORejected k <-> check_params declared kw = Some k.
Proof.
  intros He Hb k. unfold run_op. rewrite Hb.
  replace (match o_entry o with ERepo => None | _ => check_params declared kw end) with (check_params declared kw)
    by (destruct (o_entry o); try reflexivity; contradiction).
  destruct (check_params declared kw) as [k'|] eqn:E.
  - cbn. split; intro H; inversion H; reflexivity.
  - split; [|discriminate]. intro H. exfalso.
    destruct (is_str_entry (o_entry o) && negb (o_is_str o)); [discriminate|].
    assert (Fin : forall e prim r, snd (finish_load c g e prim r) <> ORejected k).
    { intros e prim r. unfold finish_load. destruct r; cbn; discriminate. }
    destruct (o_entry o) as [|f|f|].
    + exact (Fin _ _ _ H).
    + destruct (if c_grepo c then repo_find f (g_repo g) else None); [discriminate | exact (Fin _ _ _ H)].
    + destruct (if c_grepo c then repo_find f (g_repo g) else None); [discriminate|].
      destruct (nth_error w f); [exact (Fin _ _ _ H) | discriminate].
    + contradiction.
Qed.

(* load_models_in_model_repo never validates *)
Lemma run_op_repo_never_rejects w c declared opn g o k :
  o_entry o = ERepo -> snd (run_op w c declared opn g o) <> ORejected k.
Proof.
  intros He. unfold run_op. rewrite He.
  destruct (bind_kwargs ERepo (o_kw o)) as [kw|]; [|discriminate].
  cbn [is_str_entry andb]. destruct (c_prov c); try discriminate.
  destruct (load_pats _ _ _ _); discriminate.
Qed.

Lemma run_op_typeerror w c declared opn g o :
  snd (run_op w c declared opn g o) = OTypeError <-> bind_kwargs (o_entry o) (o_kw o) = None.
Proof.
  unfold run_op. destruct (bind_kwargs (o_entry o) (o_kw o)) as [kw|]; [|split; reflexivity].
  split; [|discriminate]. intro H. exfalso.
  destruct (match o_entry o with ERepo => None | _ => check_params declared kw end); [discriminate|].
  destruct (is_str_entry (o_entry o) && negb (o_is_str o)); [discriminate|].
  assert (Fin : forall e prim r, snd (finish_load c g e prim r) <> OTypeError).
  { intros e prim r. unfold finish_load. destruct r; cbn; discriminate. }
  destruct (o_entry o) as [|f|f|].
  - exact (Fin _ _ _ H).
  - destruct (if c_grepo c then repo_find f (g_repo g) else None); [discriminate | exact (Fin _ _ _ H)].
  - destruct (if c_grepo c then repo_find f (g_repo g) else None); [discriminate|].
    destruct (nth_error w f); [exact (Fin _ _ _ H) | discriminate].
  - destruct (c_prov c); try discriminate. destruct (load_pats _ _ _ _); discriminate.
Qed.

(* ---------------------------------------------------------------- whole histories *)

(* every model object carries exactly the (bound) keyword arguments of the operation that created it *)
Definition carries (ops : list op) (m : mrec) : Prop :=
  exists o kw, nth_error ops (m_op m) = Some o /\ bind_kwargs (o_entry o) (o_kw o) = Some kw /\ good kw (m_op m) m.

Lemma run_op_step w c declared opn g o :
  fst (run_op w c declared opn g o) = g \/
  exists kw added, bind_kwargs (o_entry o) (o_kw o) = Some kw /\
                   g_heap (fst (run_op w c declared opn g o)) = g_heap g ++ added /\ Forall (good kw opn) added.
Proof.
  destruct (run_op w c declared opn g o) as [g' out] eqn:E. destruct (is_loaded out) eqn:L.
  - right. destruct (bind_kwargs (o_entry o) (o_kw o)) as [kw|] eqn:Hb;
      [|unfold run_op in E; rewrite Hb in E; inversion E; subst; discriminate].
    destruct out as [| | | |res n0 repo|n0 repo]; try discriminate.
    + destruct (run_op_loaded _ _ _ _ _ _ _ _ _ _ _ E Hb) as (_ & added & Ha & Fa & _).
      exists kw, added. split; [reflexivity|]. split; assumption.
    + destruct (run_op_repo _ _ _ _ _ _ _ _ _ _ E Hb) as (_ & _ & _ & added & Ha & Fa).
      exists kw, added. split; [reflexivity|]. split; assumption.
  - left. pose proof (run_op_not_loaded w c declared opn g o) as H. rewrite E in H. apply H. exact L.
Qed.

Lemma end_state_carries w c declared : forall rest pre g,
  Forall (carries (pre ++ rest)) (g_heap g) ->
  Forall (carries (pre ++ rest)) (g_heap (end_state w c declared (length pre) g rest)).
Proof.
  induction rest as [|o rest IH]; intros pre g H; cbn [end_state]; [exact H|].
  assert (E : pre ++ o :: rest = (pre ++ [o]) ++ rest) by (rewrite <- app_assoc; reflexivity).
  replace (S (length pre)) with (length (pre ++ [o])) by (rewrite app_length; cbn; lia).
  rewrite E. apply IH. rewrite <- E.
  destruct (run_op_step w c declared (length pre) g o) as [->|(kw & added & Hb & Ha & Fa)]; [exact H|].
  rewrite Ha. apply Forall_app. split; [exact H|].
  eapply Forall_impl; [|exact Fa]. intros m Hm. exists o, kw.
  destruct Hm as [Hop Hm]. rewrite Hop. split; [|split; [exact Hb | split; [exact Hop|exact Hm]]].
  rewrite nth_error_app2 by lia. rewrite Nat.sub_diag. reflexivity.
Qed.

(* ---------------------------------------------------------------- statements used by Props/C27.v *)

Lemma validated w c declared opn g o kw :
  o_entry o <> ERepo ->
  bind_kwargs (o_entry o) (o_kw o) = Some kw ->
  ((exists k, snd (run_op w c declared opn g o) = ORejected k) <->
   (exists k, In k (keys (o_kw o)) /\ ~ In k (sig_of (o_entry o)) /\ ~ In k declared)).
Proof.
  intros He Hb. split.
  - intros [k H]. apply (run_op_rejected w c declared opn g o kw He Hb) in H.
    apply check_params_some in H as (pre & v & post & Hk & Hn & _). exists k.
    assert (Hin : In k (keys kw)).
    { rewrite Hk. unfold keys. rewrite map_app. apply in_or_app. right. left. reflexivity. }
    apply (bind_kwargs_keys _ _ _ k Hb) in Hin as [H1 H2]. split; [exact H1|]. split; [exact H2 | exact Hn].
  - intros (k & H1 & H2 & H3).
    destruct (check_params declared kw) as [k'|] eqn:E.
    + exists k'. apply (run_op_rejected w c declared opn g o kw He Hb). exact E.
    + exfalso. apply H3. rewrite check_params_none in E. apply E.
      apply (bind_kwargs_keys _ _ _ k Hb). split; assumption.
Qed.

Lemma declared_accepted names e call_kw :
  e <> ERepo ->
  (forall k, In k (keys call_kw) -> In k (declare builtin_store names)) ->
  bind_kwargs e call_kw = Some call_kw /\ check_params (declare builtin_store names) call_kw = None.
Proof.
  intros He H. split.
  - apply bind_kwargs_unreserved; [exact He|]. intros k Hk. apply (metamodel_declared_no_reserved names). apply H. exact Hk.
  - apply check_params_none. exact H.
Qed.

Lemma declared_not_argument names k :
  In k (declare builtin_store names) -> ~ In k (sig_from_str ++ sig_from_file).
Proof.
  intros Hd Hs. apply metamodel_declared_no_reserved in Hd.
  pose proof sigs_reserved as R. rewrite forallb_forall in R. rewrite (R k Hs) in Hd. discriminate.
Qed.

Lemma declared_everywhere w c names opn g o g' res n0 repo :
  (forall k, In k (keys (o_kw o)) -> In k (declare builtin_store names)) ->
  run_op w c (declare builtin_store names) opn g o = (g', OLoaded res n0 repo) ->
  exists added, g_heap g' = g_heap g ++ added /\ Forall (good (o_kw o) opn) added.
Proof.
  intros Hd H.
  assert (He : o_entry o <> ERepo).
  { intro He. unfold run_op in H. rewrite He in H.
    destruct (bind_kwargs ERepo (o_kw o)); [|inversion H]. cbn [is_str_entry andb] in H.
    destruct (c_prov c); try solve [inversion H]. destruct (load_pats _ _ _ _); inversion H. }
  destruct (declared_accepted names (o_entry o) (o_kw o) He Hd) as [Hb _].
  destruct (run_op_loaded _ _ _ _ _ _ _ _ _ _ _ H Hb) as (_ & added & Ha & Fa & _).
  exists added. split; assumption.
Qed.

Lemma history_carries w c declared ops :
  Forall (carries ops) (g_heap (end_state w c declared 0 g_init ops)).
Proof. apply (end_state_carries w c declared ops [] g_init). constructor. Qed.

Lemma declared_exactly names k :
  In k (declare builtin_store names) <->
  (In k builtin_store \/ In k names) /\ mem_str k reserved_names = false.
Proof.
  split.
  - intro H. split; [apply declare_only; exact H | apply (metamodel_declared_no_reserved names); exact H].
  - intros [[H|H] Hr]; [apply declare_keeps; exact H | apply declare_adds; assumption].
Qed.

(* ---------------------------------------------------------------- the fuel of run_op always suffices *)

Definition unregb (a : list (nat * nat)) (f : nat) : bool :=
  match repo_find f a with None => true | Some _ => false end.
(* number of files of the world that have no entry in the repository *)
Definition unreg (w : list file) (a : list (nat * nat)) : nat := length (filter (unregb a) (seq 0 (length w))).

Definition repo_le (a b : list (nat * nat)) : Prop := forall f, repo_find f a <> None -> repo_find f b <> None.

Lemma repo_le_refl a : repo_le a a.
Proof. intros f H. exact H. Qed.

Lemma repo_le_trans a b c : repo_le a b -> repo_le b c -> repo_le a c.
Proof. intros H1 H2 f H. apply H2, H1, H. Qed.

Lemma repo_set_find f id a f' :
  repo_find f' (repo_set f id a) = if Nat.eqb f' f then Some id else repo_find f' a.
Proof.
  induction a as [|[f0 id0] t IH]; cbn [repo_set repo_find].
  - reflexivity.
  - destruct (Nat.eqb_spec f f0) as [->|Hn]; cbn [repo_find].
    + destruct (Nat.eqb f' f0); reflexivity.
    + rewrite IH. destruct (Nat.eqb_spec f' f0) as [->|Hn2]; [|reflexivity].
      destruct (Nat.eqb_spec f0 f) as [E|_]; [congruence | reflexivity].
Qed.

Lemma repo_le_set f id a : repo_le a (repo_set f id a).
Proof. intros f' H. rewrite repo_set_find. destruct (Nat.eqb f' f); [discriminate | exact H]. Qed.

Lemma repo_find_app f a b :
  repo_find f (a ++ b) = match repo_find f a with Some x => Some x | None => repo_find f b end.
Proof.
  induction a as [|[f0 id0] t IH]; cbn [app repo_find]; [reflexivity|].
  destruct (Nat.eqb f f0); [reflexivity | exact IH].
Qed.

Lemma repo_le_register fn id a : repo_le a (repo_register_main fn id a).
Proof.
  unfold repo_register_main. destruct fn as [f|]; [|apply repo_le_refl].
  destruct (repo_find f a); [apply repo_le_refl|].
  intros f' H. rewrite repo_find_app. destruct (repo_find f' a); [discriminate | contradiction].
Qed.

Lemma filter_len_le {A} (f g : A -> bool) l :
  (forall x, In x l -> g x = true -> f x = true) -> length (filter g l) <= length (filter f l).
Proof.
  induction l as [|x l IH]; intro H; cbn [filter]; [lia|].
  assert (IH' : length (filter g l) <= length (filter f l)) by (apply IH; intros y Hy; apply H; right; exact Hy).
  destruct (g x) eqn:Eg.
  - rewrite (H x (or_introl eq_refl) Eg). cbn [length]. lia.
  - destruct (f x); cbn [length]; lia.
Qed.

Lemma filter_len_lt {A} (f g : A -> bool) l x0 :
  (forall x, In x l -> g x = true -> f x = true) -> In x0 l -> f x0 = true -> g x0 = false ->
  length (filter g l) < length (filter f l).
Proof.
  induction l as [|x l IH]; intros H Hin Hf Hg; [destruct Hin|]. cbn [filter].
  assert (Hl : forall y, In y l -> g y = true -> f y = true) by (intros y Hy; apply H; right; exact Hy).
  destruct Hin as [->|Hin].
  - rewrite Hf, Hg. cbn [length]. pose proof (filter_len_le f g l Hl). lia.
  - pose proof (IH Hl Hin Hf Hg) as IH'. destruct (g x) eqn:Eg.
    + rewrite (H x (or_introl eq_refl) Eg). cbn [length]. lia.
    + destruct (f x); cbn [length]; lia.
Qed.

Lemma unregb_mono a b x : repo_le a b -> unregb b x = true -> unregb a x = true.
Proof.
  unfold unregb. intros H Hb. destruct (repo_find x a) eqn:Ea; [|reflexivity].
  assert (X : repo_find x b <> None) by (apply H; rewrite Ea; discriminate).
  destruct (repo_find x b); [discriminate | contradiction].
Qed.

Lemma unreg_mono w a b : repo_le a b -> unreg w b <= unreg w a.
Proof. intro H. unfold unreg. apply filter_len_le. intros x _. apply unregb_mono. exact H. Qed.

Lemma unreg_set_lt w f id a :
  f < length w -> repo_find f a = None -> unreg w (repo_set f id a) < unreg w a.
Proof.
  intros Hf Ha. unfold unreg. apply filter_len_lt with (x0 := f).
  - intros x _. apply unregb_mono. apply repo_le_set.
  - apply in_seq. lia.
  - unfold unregb. rewrite Ha. reflexivity.
  - unfold unregb. rewrite repo_set_find, Nat.eqb_refl. reflexivity.
Qed.

Lemma unreg_le_len w a : unreg w a <= length w.
Proof.
  unfold unreg. rewrite <- (seq_length (length w) 0) at 2.
  generalize (seq 0 (length w)). intro l. induction l as [|x l IH]; cbn [filter length]; [lia|].
  destruct (unregb a x); cbn [length]; lia.
Qed.

Lemma unreg_pos w f a : f < length w -> repo_find f a = None -> 1 <= unreg w a.
Proof.
  intros Hf Ha. unfold unreg.
  assert (Hin : In f (filter (unregb a) (seq 0 (length w)))).
  { apply filter_In. split; [apply in_seq; lia | unfold unregb; rewrite Ha; reflexivity]. }
  destruct (filter (unregb a) (seq 0 (length w))); [destruct Hin | cbn [length]; lia].
Qed.

Definition mono (s s' : lstate) : Prop := repo_le (allm s) (allm s').

Section LoopsFuel.
  Variable rec : nat -> nat -> file -> lstate -> res.
  Variable w : list file.
  Hypothesis rec_mono : forall mm f fr s s', rec mm f fr s = Ok s' -> mono s s'.

  Lemma load_files_mono fs : forall dflt s s', load_files rec w dflt fs s = Ok s' -> mono s s'.
  Proof.
    induction fs as [|f fs IH]; intros dflt s s' H; cbn [load_files] in H.
    - inversion H; subst. apply repo_le_refl.
    - destruct (nth_error w f) as [fr|]; [|discriminate].
      destruct (repo_find f (allm s)); [eapply IH; exact H|].
      destruct (mm_for dflt fr) as [mm|]; [|discriminate].
      destruct (rec mm f fr s) as [s1|e] eqn:E; [|discriminate].
      eapply repo_le_trans; [eapply rec_mono; exact E | eapply IH; exact H].
  Qed.

  Lemma load_imps_step prov mm fn id p i l s :
    load_imps rec w prov mm fn id p (i :: l) s = Fail ENoFile \/
    load_imps rec w prov mm fn id p (i :: l) s =
      match resolve i p with
      | None => Fail EMissing
      | Some fs => match load_files rec w (Some mm) fs {| heap := heap s; allm := repo_register_main fn id (allm s) |} with
                   | Ok s1 => load_imps rec w prov mm fn id p l s1
                   | Fail e => Fail e end end.
  Proof. cbn [load_imps]. destruct prov; try (right; reflexivity). destruct fn; [right; reflexivity | left; reflexivity]. Qed.

  Lemma load_imps_mono prov mm fn id p l : forall s s', load_imps rec w prov mm fn id p l s = Ok s' -> mono s s'.
  Proof.
    induction l as [|i l IH]; intros s s' H.
    - cbn [load_imps] in H. inversion H; subst. apply repo_le_refl.
    - destruct (load_imps_step prov mm fn id p i l s) as [E|E]; rewrite E in H; [discriminate|].
      destruct (resolve i p) as [fs|]; [|discriminate].
      destruct (load_files rec w (Some mm) fs _) as [s1|e] eqn:E1; [|discriminate].
      eapply repo_le_trans; [|apply IH; exact H].
      eapply repo_le_trans; [|eapply load_files_mono; exact E1].
      cbn [allm]. apply repo_le_register.
  Qed.

  Variable bound : nat.
  Hypothesis rec_nofuel : forall mm f fr s,
    repo_find f (allm s) = None -> nth_error w f = Some fr -> unreg w (allm s) <= bound -> rec mm f fr s <> Fail EFuel.

  Lemma load_files_nofuel fs : forall dflt s, unreg w (allm s) <= bound -> load_files rec w dflt fs s <> Fail EFuel.
  Proof.
    induction fs as [|f fs IH]; intros dflt s Hb; cbn [load_files]; [discriminate|].
    destruct (nth_error w f) as [fr|] eqn:En; [|discriminate].
    destruct (repo_find f (allm s)) eqn:Ef; [apply IH; exact Hb|].
    destruct (mm_for dflt fr) as [mm|]; [|discriminate].
    destruct (rec mm f fr s) as [s1|e] eqn:E.
    - apply IH. pose proof (unreg_mono w _ _ (rec_mono _ _ _ _ _ E)). lia.
    - intro X. inversion X; subst. exact (rec_nofuel mm f fr s Ef En Hb E).
  Qed.

  Lemma load_imps_nofuel prov mm fn id p l : forall s, unreg w (allm s) <= bound -> load_imps rec w prov mm fn id p l s <> Fail EFuel.
  Proof.
    induction l as [|i l IH]; intros s Hb.
    - cbn [load_imps]. discriminate.
    - destruct (load_imps_step prov mm fn id p i l s) as [E|E]; rewrite E; [discriminate|].
      destruct (resolve i p) as [fs|]; [|discriminate].
      set (s1 := {| heap := heap s; allm := repo_register_main fn id (allm s) |}).
      assert (Hb1 : unreg w (allm s1) <= bound).
      { pose proof (unreg_mono w _ _ (repo_le_register fn id (allm s))). cbn [allm s1]. lia. }
      destruct (load_files rec w (Some mm) fs s1) as [s2|e] eqn:E1.
      + apply IH. pose proof (unreg_mono w _ _ (load_files_mono _ _ _ _ E1)). lia.
      + intro X. inversion X; subst. exact (load_files_nofuel fs (Some mm) s1 Hb1 E1).
  Qed.

  Lemma load_pats_nofuel l : forall s, unreg w (allm s) <= bound -> load_pats rec w l s <> Fail EFuel.
  Proof.
    induction l as [|i l IH]; intros s Hb; cbn [load_pats]; [discriminate|].
    destruct (i_plain i) as [fs|]; [|discriminate].
    destruct (load_files rec w None fs s) as [s1|e] eqn:E.
    - apply IH. pose proof (unreg_mono w _ _ (load_files_mono _ _ _ _ E)). lia.
    - intro X. inversion X; subst. exact (load_files_nofuel fs None s Hb E).
  Qed.
End LoopsFuel.

Lemma load_new_mono fuel : forall w prov opn mm fn fr p reg s s',
  load_new fuel w prov opn mm fn fr p reg s = Ok s' -> mono s s'.
Proof.
  induction fuel as [|fuel IH]; intros w prov opn mm fn fr p reg s s' H; cbn [load_new] in H; [discriminate|].
  destruct (f_prim fr).
  - destruct (reg || is_loader prov); [discriminate|]. inversion H; subst. apply repo_le_refl.
  - assert (M1 : repo_le (allm s) (if reg then match fn with Some f => repo_set f (length (heap s)) (allm s) | None => allm s end else allm s)).
    { destruct reg; [|apply repo_le_refl]. destruct fn; [apply repo_le_set | apply repo_le_refl]. }
    destruct (is_loader prov).
    + cbn [heap] in H. rewrite nth_error_snoc in H. cbn [m_params] in H.
      eapply repo_le_trans; [exact M1|].
      eapply load_imps_mono in H; [exact H|]. intros mm' f fr' s0 s0' H0. eapply IH. exact H0.
    + inversion H; subst. exact M1.
Qed.

Lemma load_new_import_nofuel fuel : forall w prov opn mm p f fr s,
  repo_find f (allm s) = None -> nth_error w f = Some fr -> unreg w (allm s) <= fuel ->
  load_new fuel w prov opn mm (Some f) fr p true s <> Fail EFuel.
Proof.
  induction fuel as [|fuel IH]; intros w prov opn mm p f fr s Hf Hn Hb.
  - assert (Hlt : f < length w) by (apply nth_error_Some; rewrite Hn; discriminate).
    pose proof (unreg_pos w f (allm s) Hlt Hf). lia.
  - assert (Hlt : f < length w) by (apply nth_error_Some; rewrite Hn; discriminate).
    cbn [load_new]. destruct (f_prim fr); [cbn [orb]; discriminate|].
    destruct (is_loader prov); [|discriminate].
    cbn [heap]. rewrite nth_error_snoc. cbn [m_params].
    apply load_imps_nofuel with (bound := fuel).
    + intros mm' f' fr' s0 s0' H0. eapply load_new_mono. exact H0.
    + intros mm' f' fr' s0 Hf' Hn' Hb'. apply IH; assumption.
    + cbn [allm]. pose proof (unreg_set_lt w f (length (heap s)) (allm s) Hlt Hf). lia.
Qed.

Lemma load_new_top_nofuel fuel w prov opn mm fn fr p reg s :
  length w <= fuel -> load_new (S fuel) w prov opn mm fn fr p reg s <> Fail EFuel.
Proof.
  intro Hl. cbn [load_new]. destruct (f_prim fr); [destruct (reg || is_loader prov); discriminate|].
  destruct (is_loader prov); [|discriminate].
  cbn [heap]. rewrite nth_error_snoc. cbn [m_params].
  apply load_imps_nofuel with (bound := fuel).
  - intros mm' f' fr' s0 s0' H0. eapply load_new_mono. exact H0.
  - intros mm' f' fr' s0 Hf' Hn' Hb'. apply load_new_import_nofuel; assumption.
  - pose proof (unreg_le_len w (allm {| heap := heap s ++ [{| m_file := fn; m_prim := false; m_params := Some p; m_op := opn; m_mm := mm |}];
                                        allm := if reg then match fn with Some f => repo_set f (length (heap s)) (allm s) | None => allm s end else allm s |})). lia.
Qed.

(* the out-of-fuel value of the model is never produced by an operation *)
Lemma run_op_never_out_of_fuel w c declared opn g o : snd (run_op w c declared opn g o) <> OErr EFuel.
Proof.
  unfold run_op.
  destruct (bind_kwargs (o_entry o) (o_kw o)) as [kw|]; [|discriminate].
  destruct (match o_entry o with ERepo => None | _ => check_params declared kw end); [discriminate|].
  destruct (is_str_entry (o_entry o) && negb (o_is_str o)); [discriminate|].
  assert (Fin : forall e prim fn fr reg s0,
    snd (finish_load c g e prim (load_new (fuel_for w) w (c_prov c) opn 0 fn fr kw reg s0)) <> OErr EFuel).
  { intros e prim fn fr reg s0. unfold finish_load.
    destruct (load_new (fuel_for w) w (c_prov c) opn 0 fn fr kw reg s0) as [s'|x] eqn:E; cbn [snd]; [discriminate|].
    intro X. inversion X; subst. revert E. unfold fuel_for. apply load_new_top_nofuel. lia. }
  destruct (o_entry o) as [|f|f|].
  - apply Fin.
  - destruct (if c_grepo c then repo_find f (g_repo g) else None); [discriminate | apply Fin].
  - destruct (if c_grepo c then repo_find f (g_repo g) else None); [discriminate|].
    destruct (nth_error w f); [apply Fin | discriminate].
  - destruct (c_prov c); try discriminate.
    destruct (load_pats _ _ _ _) as [s'|x] eqn:E; cbn [snd]; [discriminate|].
    intro X. inversion X; subst. revert E. apply load_pats_nofuel with (bound := length w).
    + intros mm f fr s0 s0' H0. eapply load_new_mono. exact H0.
    + intros mm f fr s0 Hf Hn Hb. apply load_new_import_nofuel; [assumption | assumption | lia].
    + apply unreg_le_len.
Qed.

(* ---------------------------------------------------------------- repository entries always denote existing model objects *)

Definition repo_ok (h : list mrec) (r : list (nat * nat)) : Prop :=
  forall f id, repo_find f r = Some id -> id < length h.
Definition sok (s : lstate) : Prop := repo_ok (heap s) (allm s).
Definition gok (g : gstate) : Prop := repo_ok (g_heap g) (g_repo g).

Lemma repo_ok_heap h h' r : repo_ok h r -> length h <= length h' -> repo_ok h' r.
Proof. intros H Hl f id Hf. apply H in Hf. lia. Qed.

Lemma repo_ok_set h r f id : repo_ok h r -> id < length h -> repo_ok h (repo_set f id r).
Proof.
  intros H Hid f' id' Hf. rewrite repo_set_find in Hf. destruct (Nat.eqb f' f).
  - inversion Hf; subst. exact Hid.
  - apply (H f' id' Hf).
Qed.

Lemma repo_ok_register h r fn id : repo_ok h r -> id < length h -> repo_ok h (repo_register_main fn id r).
Proof.
  intros H Hid. unfold repo_register_main. destruct fn as [f|]; [|exact H].
  destruct (repo_find f r) eqn:E; [exact H|].
  intros f' id' Hf. rewrite repo_find_app in Hf. destruct (repo_find f' r) eqn:E'.
  - inversion Hf; subst. apply (H f' id' E').
  - cbn [repo_find] in Hf. destruct (Nat.eqb f' f); [inversion Hf; subst; exact Hid | discriminate].
Qed.

Lemma grows_length kw opn s s' : grows kw opn s s' -> length (heap s) <= length (heap s').
Proof. intros (a & Ha & _). rewrite Ha, app_length. lia. Qed.

Section LoopsOk.
  Variable rec : nat -> nat -> file -> lstate -> res.
  Variable w : list file.
  Variable kw : list (list N * N).
  Variable opn : nat.
  Hypothesis rec_grows : forall mm f fr s s', rec mm f fr s = Ok s' -> grows kw opn s s'.
  Hypothesis rec_sok : forall mm f fr s s', sok s -> rec mm f fr s = Ok s' -> sok s'.

  Lemma load_files_sok fs : forall dflt s s', sok s -> load_files rec w dflt fs s = Ok s' -> sok s'.
  Proof.
    induction fs as [|f fs IH]; intros dflt s s' Hs H; cbn [load_files] in H.
    - inversion H; subst. exact Hs.
    - destruct (nth_error w f) as [fr|]; [|discriminate].
      destruct (repo_find f (allm s)); [eapply IH; eassumption|].
      destruct (mm_for dflt fr) as [mm|]; [|discriminate].
      destruct (rec mm f fr s) as [s1|e] eqn:E; [|discriminate].
      eapply IH; [eapply rec_sok; eassumption | exact H].
  Qed.

  Lemma load_imps_sok prov mm fn id p l : forall s s',
    sok s -> id < length (heap s) -> load_imps rec w prov mm fn id p l s = Ok s' -> sok s'.
  Proof.
    induction l as [|i l IH]; intros s s' Hs Hid H.
    - cbn [load_imps] in H. inversion H; subst. exact Hs.
    - destruct (load_imps_step rec w prov mm fn id p i l s) as [E|E]; rewrite E in H; [discriminate|].
      destruct (resolve i p) as [fs|]; [|discriminate].
      set (s1 := {| heap := heap s; allm := repo_register_main fn id (allm s) |}) in *.
      assert (Hs1 : sok s1) by (unfold sok; cbn [heap allm s1]; apply repo_ok_register; assumption).
      destruct (load_files rec w (Some mm) fs s1) as [s2|e] eqn:E1; [|discriminate].
      apply (IH s2 s'); [eapply load_files_sok; eassumption | | exact H].
      pose proof (grows_length _ _ _ _ (load_files_grows rec w kw opn rec_grows fs _ _ _ E1)) as L.
      cbn [heap s1] in L. lia.
  Qed.

  Lemma load_pats_sok l : forall s s', sok s -> load_pats rec w l s = Ok s' -> sok s'.
  Proof.
    induction l as [|i l IH]; intros s s' Hs H; cbn [load_pats] in H.
    - inversion H; subst. exact Hs.
    - destruct (i_plain i) as [fs|]; [|discriminate].
      destruct (load_files rec w None fs s) as [s1|e] eqn:E; [|discriminate].
      eapply IH; [eapply load_files_sok; eassumption | exact H].
  Qed.
End LoopsOk.

Lemma load_new_sok fuel : forall w prov opn mm fn fr p reg s s',
  sok s -> load_new fuel w prov opn mm fn fr p reg s = Ok s' -> sok s'.
Proof.
  induction fuel as [|fuel IH]; intros w prov opn mm fn fr p reg s s' Hs H; cbn [load_new] in H; [discriminate|].
  destruct (f_prim fr).
  - destruct (reg || is_loader prov); [discriminate|]. inversion H; subst.
    unfold sok. cbn [heap allm]. eapply repo_ok_heap; [exact Hs | rewrite app_length; lia].
  - set (m := {| m_file := fn; m_prim := false; m_params := Some p; m_op := opn; m_mm := mm |}) in *.
    assert (Hl : length (heap s) < length (heap s ++ [m])) by (rewrite app_length; cbn [length]; lia).
    assert (H1 : repo_ok (heap s ++ [m])
                   (if reg then match fn with Some f => repo_set f (length (heap s)) (allm s) | None => allm s end else allm s)).
    { assert (H0 : repo_ok (heap s ++ [m]) (allm s)) by (eapply repo_ok_heap; [exact Hs | lia]).
      destruct reg; [|exact H0]. destruct fn; [apply repo_ok_set; assumption | exact H0]. }
    destruct (is_loader prov).
    + cbn [heap] in H. rewrite nth_error_snoc in H. cbn [m_params m] in H.
      eapply load_imps_sok with (kw := p) (opn := opn) in H; [exact H | | | exact H1 | cbn [heap]; exact Hl].
      * intros mm' f fr' s0 s0' H0. eapply load_new_grows. exact H0.
      * intros mm' f fr' s0 s0' Hs0 H0. eapply IH; eassumption.
    + inversion H; subst. exact H1.
Qed.

Lemma run_op_gok w c declared opn g o : gok g -> gok (fst (run_op w c declared opn g o)).
Proof.
  intro Hg. unfold run_op.
  destruct (bind_kwargs (o_entry o) (o_kw o)) as [kw|]; [|exact Hg].
  destruct (match o_entry o with ERepo => None | _ => check_params declared kw end); [exact Hg|].
  destruct (is_str_entry (o_entry o) && negb (o_is_str o)); [exact Hg|].
  assert (Fin : forall e prim fn fr reg,
    gok (fst (finish_load c g e prim (load_new (fuel_for w) w (c_prov c) opn 0 fn fr kw reg
       {| heap := g_heap g; allm := if c_grepo c then g_repo g else [] |})))).
  { intros e prim fn fr reg. unfold finish_load.
    destruct (load_new _ _ _ _ _ _ _ _ _ _) as [s'|x] eqn:E; cbn [fst]; [|exact Hg].
    unfold gok. cbn [g_heap g_repo].
    assert (S0 : sok {| heap := g_heap g; allm := if c_grepo c then g_repo g else [] |}).
    { unfold sok. cbn [heap allm]. destruct (c_grepo c); [exact Hg | intros f id Hf; discriminate]. }
    pose proof (load_new_sok _ _ _ _ _ _ _ _ _ _ _ S0 E) as S1.
    destruct (c_grepo c); [exact S1|].
    eapply repo_ok_heap; [exact Hg|].
    apply load_new_grows in E. apply grows_length in E. exact E. }
  destruct (o_entry o) as [|f|f|].
  - apply Fin.
  - destruct (if c_grepo c then repo_find f (g_repo g) else None); [exact Hg | apply Fin].
  - destruct (if c_grepo c then repo_find f (g_repo g) else None); [exact Hg|].
    destruct (nth_error w f); [apply Fin | exact Hg].
  - destruct (c_prov c); try exact Hg.
    destruct (load_pats _ _ _ _) as [s'|x] eqn:E; cbn [fst]; [|exact Hg].
    unfold gok. cbn [g_heap g_repo]. eapply repo_ok_heap; [exact Hg|].
    eapply load_pats_grows with (kw := kw) (opn := opn) in E.
    + apply grows_length in E. exact E.
    + intros mm f fr s0 s0' H0. eapply load_new_grows. exact H0.
Qed.

Lemma end_state_gok w c declared : forall ops opn g, gok g -> gok (end_state w c declared opn g ops).
Proof.
  induction ops as [|o ops IH]; intros opn g Hg; cbn [end_state]; [exact Hg|].
  apply IH. apply run_op_gok. exact Hg.
Qed.

Lemma g_init_gok : gok g_init.
Proof. intros f id H. discriminate. Qed.

(* after any history: the model returned by a load is either an older object (cached; nothing changes)
   or the first object this load creates *)
Lemma history_result_index w c declared ops o g' res n0 repo :
  run_op w c declared (length ops) (end_state w c declared 0 g_init ops) o = (g', OLoaded res n0 repo) ->
  (res < n0 /\ g' = end_state w c declared 0 g_init ops /\ c_grepo c = true) \/
  (res = n0 /\ n0 < length (g_heap g')).
Proof.
  intro H. set (g := end_state w c declared 0 g_init ops) in *.
  assert (Hg : gok g) by (apply end_state_gok, g_init_gok).
  destruct (bind_kwargs (o_entry o) (o_kw o)) as [kw|] eqn:Hb.
  - destruct (run_op_loaded _ _ _ _ _ _ _ _ _ _ _ H Hb) as (Hn & added & Ha & _ & [(He & Hgg & Hc & f & Hf)|(Hr & Hne)]).
    + left. split; [|split; assumption]. subst n0. apply (Hg f res Hf).
    + right. split; [exact Hr|]. rewrite Ha, app_length, Hn. destruct added; [contradiction | cbn [length]; lia].
  - unfold run_op in H. rewrite Hb in H. inversion H.
Qed.
