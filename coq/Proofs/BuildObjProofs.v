(* Objects built by Model/Build.v carry exactly the span of their rule node. *)
From TxV Require Import Core.Base Model.PegSyntax Model.Peg Model.Build Proofs.BuildProofs.
Require Import Lia.

(* the object under construction keeps its class and span while children are processed *)
Definition same_frame (top top' : option cur) : Prop :=
  match top, top' with
  | None, None => True
  | Some c, Some c' => c_pos c' = c_pos c /\ c_end c' = c_end c /\ c_cls c' = c_cls c /\ c_meta c' = c_meta c
  | _, _ => False
  end.

Lemma same_frame_refl top : same_frame top top.
Proof. destruct top; cbn; auto. Qed.
Lemma same_frame_trans a b c : same_frame a b -> same_frame b c -> same_frame a c.
Proof.
  destruct a, b, c; cbn; try tauto. intros [A1 [A2 [A3 A4]]] [B1 [B2 [B3 B4]]]. repeat split; congruence.
Qed.
Lemma same_frame_set a v c c1 : same_frame (Some c) (Some c1) -> same_frame (Some c) (Some (cur_set a v c1)).
Proof. cbn. tauto. Qed.

Definition frame_ok (rec : tree -> option cur -> bres (value * option cur)) (t : tree) : Prop :=
  forall top v top', rec t top = BOk (v, top') -> same_frame top top'.

Lemma each_frame rec l :
  Forall (frame_ok rec) l -> forall top top', each_loop rec l top = BOk top' -> same_frame top top'.
Proof.
  induction l as [|k l IH]; intros HF top top' H; cbn [each_loop] in H.
  - inversion H; subst. apply same_frame_refl.
  - inversion HF as [|? ? Hk HF']; subst.
    destruct (rec k top) as [[v top1]|e] eqn:E; [|discriminate].
    eapply same_frame_trans; [apply (Hk _ _ _ E) | apply (IH HF' _ _ H)].
Qed.

Lemma lst_frame rec is_sep a refcls l :
  Forall (frame_ok rec) l -> forall top top', lst_loop rec is_sep a refcls l top = BOk top' -> same_frame top top'.
Proof.
  induction l as [|k l IH]; intros HF top top' H; cbn [lst_loop] in H.
  - inversion H; subst. apply same_frame_refl.
  - inversion HF as [|? ? Hk HF']; subst.
    destruct (is_sep k); [apply (IH HF' _ _ H)|].
    destruct (rec k top) as [[v top1]|e] eqn:E; [|discriminate]. cbv zeta in H.
    destruct top1 as [c1|]; [|discriminate].
    pose proof (Hk _ _ _ E) as F1.
    destruct (get_val a (c_vals c1)) as [[]|] eqn:Eg; try discriminate.
    + eapply same_frame_trans; [|apply (IH HF' _ _ H)].
      destruct top as [c|]; [apply same_frame_set; exact F1 | destruct F1].
    + eapply same_frame_trans; [|apply (IH HF' _ _ H)].
      destruct top as [c|]; [apply same_frame_set; exact F1 | destruct F1].
Qed.

Lemma first_nt_frame rec has_cls l top r :
  Forall (frame_ok rec) l -> first_nt rec has_cls l top = Some r ->
  forall v top', r = BOk (v, top') -> same_frame top top'.
Proof.
  induction l as [|k l IH]; intros HF H v top' Er; cbn [first_nt] in H; [discriminate|].
  inversion HF as [|? ? Hk HF']; subst.
  destruct k as [n p len s|xn kids].
  - apply (IH HF' H _ _ eq_refl).
  - inversion H; subst. clear H. destruct (has_cls xn); [|discriminate]. apply (Hk _ _ _ H1).
Qed.

Lemma first_nonmatch_frame rec kind_of l top r :
  Forall (frame_ok rec) l -> first_nonmatch rec kind_of l top = Some r ->
  forall v top', r = BOk (v, top') -> same_frame top top'.
Proof.
  induction l as [|k l IH]; intros HF H v top' Er; cbn [first_nonmatch] in H; [discriminate|].
  inversion HF as [|? ? Hk HF']; subst.
  destruct k as [n p len s|xn kids].
  - apply (IH HF' H _ _ eq_refl).
  - destruct (kind_of xn) as [[|]|].
    + injection H as H1. apply (Hk _ _ _ H1).
    + apply (IH HF' H _ _ eq_refl).
    + discriminate H.
Qed.

Section Frame.
Variable g : grammar.
Variable mm : list ninfo.
Variable input : list N.
Variable grp : nat -> nat -> option (nat * nat).
Variable auto use_grp : bool.
Notation pn := (pnode g mm input grp auto use_grp).

Lemma pnode_frame : forall t, frame_ok pn t.
Proof.
  induction t as [n p l s | n kids IH] using tree_ind2; intros top v top' H.
  - cbn [pnode] in H. destruct (term_value g mm input grp use_grp n p l); inversion H; subst. apply same_frame_refl.
  - cbn [pnode] in H. destruct (info mm n) as [a op|k cls attrs|r gr|] eqn:Ei; try discriminate.
    + (* assignment *)
      destruct top as [c|]; [|discriminate].
      destruct (find_attr a (c_meta c)) as [ma|]; [|discriminate].
      destruct op; try discriminate.
      * (* plain *)
        destruct (get_val a (c_vals c)) as [av|]; [|discriminate].
        destruct (val_truthy av && negb (is_vlist av))%bool; [discriminate|].
        destruct kids as [|k rest]; [discriminate|].
        inversion IH as [|? ? Hk _]; subst.
        destruct (pn k (Some c)) as [[v1 top1]|e] eqn:E; [|discriminate]. cbv zeta in H.
        destruct top1 as [c1|]; [|discriminate].
        pose proof (Hk _ _ _ E) as F1.
        destruct av; inversion H; subst; apply same_frame_set; exact F1.
      * (* optional *) inversion H; subst. apply same_frame_set. apply (same_frame_refl (Some c)).
      * (* list *)
        match type of H with match ?X with _ => _ end = _ => destruct X as [t1|e] eqn:E end; [|discriminate].
        inversion H; subst. apply (lst_frame _ _ _ _ _ IH _ _ E).
    + destruct k.
      * (* common: the enclosing object is untouched *)
        destruct (each_loop pn kids _) as [[c1|]|e]; try discriminate.
        destruct (name_ok (c_vals c1)); [|discriminate]. destruct (many_ok (c_meta c1) (c_vals c1)); inversion H; subst. apply same_frame_refl.
      * (* abstract *)
        destruct kids as [|k rest]; [discriminate|].
        destruct rest as [|k2 rest].
        -- inversion IH as [|? ? Hk _]; subst. apply (Hk _ _ _ H).
        -- destruct (first_nonmatch pn (nonmatch_class mm) (k :: k2 :: rest) top) as [r0|] eqn:E0.
           ++ apply (first_nonmatch_frame _ _ _ _ _ IH E0 _ _ H).
           ++ destruct (first_nt pn (has_class mm) (k :: k2 :: rest) top) as [r|] eqn:E.
              ** apply (first_nt_frame _ _ _ _ _ IH E _ _ H).
              ** inversion H; subst. apply same_frame_refl.
      * (* match *)
        destruct (pmatch g input (NT n kids)); inversion H; subst. apply same_frame_refl.
Qed.

(* every object is created by a common-rule node and carries exactly that node's span *)
Theorem object_span_is_node_span n kids top cls p e attrs top' :
  pn (NT n kids) top = BOk (VObj cls p e attrs, top') ->
  (exists c a, info mm n = IRule RCommon c a) ->
  p = tpos (NT n kids) /\ e = tend (NT n kids).
Proof.
  intros H [c [a Ei]]. cbn [pnode] in H. rewrite Ei in H.
  destruct (each_loop pn kids _) as [[c1|]|er] eqn:E; try discriminate.
  destruct (name_ok (c_vals c1)); [|discriminate]. destruct (many_ok (c_meta c1) (c_vals c1)); [|discriminate]. inversion H; subst.
  assert (F : same_frame (Some (mkCur c a (tpos (NT n kids)) (tend (NT n kids)) (init_attrs auto a))) (Some c1)).
  { apply (each_frame pn kids); [|exact E]. apply Forall_forall. intros k _. apply pnode_frame. }
  cbn in F. destruct F as [F1 [F2 _]]. split; assumption.
Qed.
End Frame.

(* ================================================================ nesting and list order of OBJECTS *)
Definition nxt (lo : nat) (x : value) : nat := match x with VObj _ _ e _ => e | _ => lo end.

(* [good lo hi v]: every object directly in v (v itself, or the members of a list, which must be ordered
   and disjoint) has a non-empty span inside [lo, hi], and recursively the values of its attributes lie
   inside its own span *)
Fixpoint good (lo hi : nat) (v : value) {struct v} : Prop :=
  match v with
  | VObj _ p e attrs =>
    lo <= p /\ p < e /\ e <= hi /\
    (fix ga (l : list (list N * value)) : Prop :=
       match l with [] => True | (_, x) :: l' => good p e x /\ ga l' end) attrs
  | VList l =>
    (fix gl (lo : nat) (l : list value) : Prop :=
       match l with [] => True | x :: l' => good lo hi x /\ gl (nxt lo x) l' end) lo l
  | _ => True
  end.

Definition good_attrs (p e : nat) (attrs : list (list N * value)) : Prop := Forall (fun kv => good p e (snd kv)) attrs.

Lemma good_obj lo hi c p e attrs :
  good lo hi (VObj c p e attrs) <-> lo <= p /\ p < e /\ e <= hi /\ good_attrs p e attrs.
Proof.
  cbn [good]. unfold good_attrs.
  assert (E : (fix ga (l : list (list N * value)) : Prop :=
                 match l with [] => True | (_, x) :: l' => good p e x /\ ga l' end) attrs
              <-> Forall (fun kv => good p e (snd kv)) attrs).
  { induction attrs as [|[k x] l IH]; [split; [constructor | trivial]|].
    split.
    - intros [A B]. constructor; [exact A | apply IH; exact B].
    - intro F. inversion F; subst. split; [assumption | apply IH; assumption]. }
  tauto.
Qed.

Lemma good_vlist_cons lo hi x l : good lo hi (VList (x :: l)) = (good lo hi x /\ good (nxt lo x) hi (VList l)).
Proof. reflexivity. Qed.

Section ValueInd.
Variable P : value -> Prop.
Hypothesis HNone : P VNone.
Hypothesis HBool : forall b, P (VBool b).
Hypothesis HDef : forall t, P (VDefault t).
Hypothesis HStr : forall s, P (VStr s).
Hypothesis HTerm : forall r t, P (VTerm r t).
Hypothesis HJoin : forall r ps, Forall P ps -> P (VJoin r ps).
Hypothesis HConv : forall r v, P v -> P (VConv r v).
Hypothesis HObj : forall c p e attrs, Forall (fun kv => P (snd kv)) attrs -> P (VObj c p e attrs).
Hypothesis HRef : forall nm p c, P nm -> P (VRef nm p c).
Hypothesis HList : forall l, Forall P l -> P (VList l).
Fixpoint value_ind2 (v : value) : P v :=
  match v with
  | VNone => HNone
  | VBool b => HBool b
  | VDefault t => HDef t
  | VStr s => HStr s
  | VTerm r t => HTerm r t
  | VJoin r ps => HJoin r ps ((fix go (l : list value) : Forall P l :=
                                 match l with [] => Forall_nil P | x :: l' => Forall_cons x (value_ind2 x) (go l') end) ps)
  | VConv r x => HConv r x (value_ind2 x)
  | VObj c p e attrs =>
    HObj c p e attrs ((fix go (l : list (list N * value)) : Forall (fun kv => P (snd kv)) l :=
                         match l with
                         | [] => Forall_nil _
                         | kv :: l' => Forall_cons kv (value_ind2 (snd kv)) (go l')
                         end) attrs)
  | VRef nm p c => HRef nm p c (value_ind2 nm)
  | VList l => HList l ((fix go (l : list value) : Forall P l :=
                           match l with [] => Forall_nil P | x :: l' => Forall_cons x (value_ind2 x) (go l') end) l)
  end.
End ValueInd.

Lemma nxt_mono lo lo' x : lo' <= lo -> nxt lo' x <= nxt lo x.
Proof. destruct x; cbn; lia. Qed.

Lemma good_mono v : forall lo hi lo' hi', good lo hi v -> lo' <= lo -> hi <= hi' -> good lo' hi' v.
Proof.
  induction v as [| | | | |r ps IHj|r v IHc|c p e attrs IH|nm q cl IHr|l IH] using value_ind2; intros lo hi lo' hi' H Hl Hh; try exact I.
  - apply good_obj in H. apply good_obj. destruct H as [A [B [C D]]]. repeat split; try lia. exact D.
  - revert lo lo' H Hl. induction l as [|x l IHl]; intros lo lo' H Hl; [exact I|].
    inversion IH as [|? ? Hx Hl']; subst.
    rewrite good_vlist_cons in *. destruct H as [A B]. split.
    + apply (Hx lo hi lo' hi' A Hl Hh).
    + apply (IHl Hl' (nxt lo x) (nxt lo' x) B). apply nxt_mono. exact Hl.
Qed.

Lemma good_nxt_le lo hi x : good lo hi x -> lo <= hi -> nxt lo x <= hi.
Proof. destruct x; cbn [nxt]; try lia. intros H _. apply good_obj in H. lia. Qed.

(* appending an element that lies after everything already in the list *)
Lemma good_snoc l : forall lo hi hi' v,
  good lo hi (VList l) -> lo <= hi -> hi <= hi' -> good hi hi' v -> good lo hi' (VList (l ++ [v])).
Proof.
  induction l as [|x l IH]; intros lo hi hi' v H Hle Hh Hv.
  - cbn [app]. rewrite good_vlist_cons. split; [apply (good_mono v hi hi' lo hi' Hv Hle (le_n _)) | exact I].
  - cbn [app]. rewrite good_vlist_cons in *. destruct H as [A B]. split.
    + apply (good_mono x lo hi lo hi' A (le_n _) Hh).
    + apply (IH (nxt lo x) hi hi' v B (good_nxt_le lo hi x A Hle) Hh Hv).
Qed.

Definition cur_ok (lo hi : nat) (c : cur) : Prop := lo <= hi /\ Forall (fun kv => good lo hi (snd kv)) (c_vals c).

Lemma cur_ok_mono lo hi hi' c : cur_ok lo hi c -> hi <= hi' -> cur_ok lo hi' c.
Proof.
  intros [A B] H. split; [lia|]. eapply Forall_impl; [|exact B]. intros kv G. apply (good_mono _ lo hi lo hi' G (le_n _) H).
Qed.

Lemma set_val_forall (Q : value -> Prop) a v vals :
  Forall (fun kv => Q (snd kv)) vals -> Q v -> Forall (fun kv : list N * value => Q (snd kv)) (set_val a v vals).
Proof.
  induction vals as [|[k w] l IH]; intros F Hv; cbn [set_val].
  - constructor; [exact Hv | constructor].
  - inversion F; subst. destruct (str_eqb a k); constructor; try assumption. apply IH; assumption.
Qed.

Lemma get_val_forall (Q : value -> Prop) a v vals :
  Forall (fun kv => Q (snd kv)) vals -> get_val a vals = Some v -> Q v.
Proof.
  induction vals as [|[k w] l IH]; intros F H; cbn [get_val] in H; [discriminate|].
  inversion F; subst. destruct (str_eqb a k); [inversion H; subst; assumption | apply IH; assumption].
Qed.

Lemma cur_ok_set lo hi a v c : cur_ok lo hi c -> good lo hi v -> cur_ok lo hi (cur_set a v c).
Proof. intros [A B] G. split; [exact A|]. cbn [cur_set c_vals]. apply set_val_forall; assumption. Qed.

Lemma init_attrs_good auto lo hi attrs : Forall (fun kv => good lo hi (snd kv)) (init_attrs auto attrs).
Proof.
  unfold init_attrs. apply Forall_forall. intros kv Hin. apply in_map_iff in Hin as [a [<- _]]. cbn [snd].
  unfold init_attr. destruct (a_mult a); try exact I; destruct (is_base_type (a_cls a)); try exact I;
    destruct auto; try exact I; destruct (a_bool a); exact I.
Qed.

Lemma first_nonmatch_in rec kind_of l top v top' :
  first_nonmatch rec kind_of l top = Some (BOk (v, top')) -> exists x, In x l /\ rec x top = BOk (v, top').
Proof.
  induction l as [|k l IH]; cbn [first_nonmatch]; [discriminate|].
  destruct k as [n p len s|xn kids].
  - intro H. destruct (IH H) as [x [A B]]. exists x. split; [right; exact A | exact B].
  - destruct (kind_of xn) as [[|]|]; intro H.
    + injection H as H. eexists. split; [left; reflexivity | exact H].
    + destruct (IH H) as [x [A B]]. exists x. split; [right; exact A | exact B].
    + discriminate.
Qed.

Lemma first_nt_in rec has_cls l top v top' :
  first_nt rec has_cls l top = Some (BOk (v, top')) -> exists x, In x l /\ rec x top = BOk (v, top').
Proof.
  induction l as [|k l IH]; cbn [first_nt]; [discriminate|].
  destruct k as [n p len s|xn kids].
  - intro H. destruct (IH H) as [x [A B]]. exists x. split; [right; exact A | exact B].
  - intro H. injection H as H. destruct (has_cls xn); [|discriminate]. eexists. split; [left; reflexivity | exact H].
Qed.

Section Objects.
Variable g : grammar.
Variable mm : list ninfo.
Variable input : list N.
Variable grp : nat -> nat -> option (nat * nat).
Variable auto use_grp : bool.
Notation pn := (pnode g mm input grp auto use_grp).

Definition is_asgn (t : tree) : bool :=
  match t with
  | NT nid _ => match info mm nid with IAsgn _ _ => true | _ => false end
  | T _ _ _ _ => false
  end.

Lemma placed_false_not_asgn t : asg_placed mm false t = true -> is_asgn t = false.
Proof.
  destruct t as [|nid kids]; [reflexivity|]. cbn [asg_placed is_asgn]. unfold info.
  destruct (nth nid mm IOther); try reflexivity. cbn. discriminate.
Qed.

Definition obj_ok (rec : tree -> option cur -> bres (value * option cur)) (t : tree) : Prop :=
  forall under top v top', wf_tree t = true -> asg_placed mm under t = true -> rec t top = BOk (v, top') ->
    good (tpos t) (tend t) v /\
    (is_asgn t = false -> top' = top) /\
    (forall c, top = Some c -> exists c', top' = Some c' /\
        forall lo hi, cur_ok lo hi c -> hi <= tpos t -> cur_ok lo (tend t) c').

Lemma each_ok rec under E lo : forall l hi c top',
  Forall (obj_ok rec) l -> Forall (fun k => wf_tree k = true) l -> forallb (asg_placed mm under) l = true ->
  chain hi l -> (forall k, In k l -> tend k <= E) -> hi <= E ->
  each_loop rec l (Some c) = BOk top' -> cur_ok lo hi c ->
  exists c', top' = Some c' /\ cur_ok lo E c'.
Proof.
  induction l as [|k l IH]; intros hi c top' HF Hwf Hpl Hch HE HhE H Hc; cbn [each_loop] in H.
  - inversion H; subst. exists c. split; [reflexivity | apply (cur_ok_mono _ _ _ _ Hc HhE)].
  - inversion HF as [|? ? Hk HF']; subst. inversion Hwf as [|? ? Wk Hwf']; subst.
    cbn [forallb] in Hpl. apply andb_true_iff in Hpl as [Pk Hpl'].
    cbn [chain] in Hch. destruct Hch as [C1 [C2 C3]].
    destruct (rec k (Some c)) as [[v top1]|e] eqn:E1; [|discriminate].
    destruct (Hk under (Some c) v top1 Wk Pk E1) as [_ [_ H3]].
    destruct (H3 c eq_refl) as [c1 [-> Hc1]].
    apply (IH (tend k) c1 top' HF' Hwf' Hpl' C3 (fun x Hx => HE x (or_intror Hx)) (HE k (or_introl eq_refl)) H).
    apply (Hc1 lo hi Hc C1).
Qed.

Lemma lst_ok rec is_sep a refcls E lo : forall l hi c top',
  Forall (obj_ok rec) l -> Forall (fun k => wf_tree k = true) l -> forallb (asg_placed mm false) l = true ->
  chain hi l -> (forall k, In k l -> tend k <= E) -> hi <= E ->
  lst_loop rec is_sep a refcls l (Some c) = BOk top' -> cur_ok lo hi c ->
  exists c', top' = Some c' /\ cur_ok lo E c'.
Proof.
  induction l as [|k l IH]; intros hi c top' HF Hwf Hpl Hch HE HhE H Hc; cbn [lst_loop] in H.
  - inversion H; subst. exists c. split; [reflexivity | apply (cur_ok_mono _ _ _ _ Hc HhE)].
  - inversion HF as [|? ? Hk HF']; subst. inversion Hwf as [|? ? Wk Hwf']; subst.
    cbn [forallb] in Hpl. apply andb_true_iff in Hpl as [Pk Hpl'].
    cbn [chain] in Hch. destruct Hch as [C1 [C2 C3]].
    assert (HEk : tend k <= E) by (apply HE; left; reflexivity).
    destruct (is_sep k).
    + apply (IH hi c top' HF' Hwf' Hpl' (chain_mono (tend k) hi l C3 ltac:(lia)) (fun x Hx => HE x (or_intror Hx)) HhE H Hc).
    + destruct (rec k (Some c)) as [[v0 top1]|e] eqn:E1; [|discriminate].
      destruct (Hk false (Some c) v0 top1 Wk Pk E1) as [Gv0 [Hpure _]].
      rewrite (Hpure (placed_false_not_asgn k Pk)) in H. cbv zeta in H.
      set (v := match refcls with Some cl => VRef v0 (tpos k) cl | None => v0 end) in *.
      assert (Gv : good (tpos k) (tend k) v) by (subst v; destruct refcls; [exact I | exact Gv0]).
      assert (Gv' : good hi (tend k) v) by (apply (good_mono v _ _ _ _ Gv C1 (le_n _))).
      destruct Hc as [Hlo Hvals].
      assert (Hc' : cur_ok lo (tend k) c) by (apply (cur_ok_mono lo hi); [split; assumption | lia]).
      destruct (get_val a (c_vals c)) as [[| | | | | | | | |vs]|] eqn:Eg; try discriminate.
      * (* VNone: a fresh list *)
        apply (IH (tend k) _ top' HF' Hwf' Hpl' C3 (fun x Hx => HE x (or_intror Hx)) HEk H).
        apply cur_ok_set; [exact Hc'|]. rewrite good_vlist_cons. split; [|exact I].
        apply (good_mono v _ _ _ _ Gv'); lia.
      * (* append *)
        apply (IH (tend k) _ top' HF' Hwf' Hpl' C3 (fun x Hx => HE x (or_intror Hx)) HEk H).
        apply cur_ok_set; [exact Hc'|].
        apply (good_snoc vs lo hi (tend k) v); [|exact Hlo | lia | exact Gv'].
        apply (get_val_forall (good lo hi) a _ _ Hvals Eg).
Qed.

Lemma pmatch_good t v lo hi : pmatch g input t = BOk v -> good lo hi v.
Proof.
  destruct t as [n p len s|n kids]; cbn [pmatch]; intro H.
  - inversion H; subst. exact I.
  - destruct (is_base5 (rule_of g n)); [discriminate|].
    destruct kids as [|k rest]; [discriminate|].
    destruct rest as [|k2 rest].
    + destruct (pmatch g input k); inversion H; subst. exact I.
    + match type of H with match ?X with _ => _ end = _ => destruct X end; inversion H; subst. exact I.
Qed.

Lemma pnode_obj_ok : forall t, obj_ok pn t.
Proof.
  induction t as [n p l s | n kids IH] using tree_ind2; intros under top v top' Hwf Hpl H.
  - (* terminal *)
    cbn [pnode] in H.
    assert (Hv : good (tpos (T n p l s)) (tend (T n p l s)) v /\ top' = top).
    { destruct (term_value g mm input grp use_grp n p l) as [v0|e] eqn:Et; [|discriminate].
      inversion H; subst. split; [|reflexivity]. revert Et. unfold term_value.
      repeat match goal with
             | |- context [match ?x with _ => _ end] => destruct x
             end; intro X; inversion X; exact I. }
    destruct Hv as [Gv ->]. split; [exact Gv|]. split; [reflexivity|].
    intros c ->. exists c. split; [reflexivity|]. intros lo hi Hc Hh.
    apply (cur_ok_mono _ _ _ _ Hc). cbn [tpos tend] in *. lia.
  - pose proof (wf_tree_nonempty _ Hwf) as Hne.
    destruct (wf_tree_NT _ _ Hwf) as [Hkne [Hkwf _]].
    destruct kids as [|k0 rest0]; [congruence|].
    pose proof (wf_tree_chain n k0 rest0 Hwf) as Hch.
    assert (Htp : tpos (NT n (k0 :: rest0)) = tpos k0) by reflexivity.
    assert (HE : forall x, In x (k0 :: rest0) -> tend x <= tend (NT n (k0 :: rest0))) by (intros x Hx; apply (wf_tree_nesting n (k0 :: rest0) x Hwf Hx)).
    assert (Hpure_ok : forall c, top = Some c -> top' = top ->
              exists c', top' = Some c' /\ forall lo hi, cur_ok lo hi c -> hi <= tpos (NT n (k0 :: rest0)) -> cur_ok lo (tend (NT n (k0 :: rest0))) c').
    { intros c -> ->. exists c. split; [reflexivity|]. intros lo hi Hc Hh. apply (cur_ok_mono _ _ _ _ Hc). lia. }
    cbn [asg_placed] in Hpl. cbn [pnode] in H. unfold info in H.
    assert (Hasg : is_asgn (NT n (k0 :: rest0)) = match nth n mm IOther with IAsgn _ _ => true | _ => false end) by reflexivity.
    destruct (nth n mm IOther) as [a op|rk cls attrs|r gr|] eqn:Ei; try discriminate.
    + (* assignment *)
      apply andb_true_iff in Hpl as [_ Hpl].
      destruct top as [c|]; [|discriminate].
      destruct (find_attr a (c_meta c)) as [ma|]; [|discriminate].
      destruct op; try discriminate.
      * (* plain *)
        destruct (get_val a (c_vals c)) as [av|] eqn:Eg; [|discriminate].
        destruct (val_truthy av && negb (is_vlist av))%bool; [discriminate|].
        inversion IH as [|? ? Hk _]; subst. inversion Hkwf as [|? ? Wk _]; subst.
        cbn [forallb] in Hpl. apply andb_true_iff in Hpl as [Pk _].
        destruct (pn k0 (Some c)) as [[v0 top1]|e] eqn:E1; [|discriminate].
        destruct (Hk false (Some c) v0 top1 Wk Pk E1) as [Gv0 [Hp _]].
        rewrite (Hp (placed_false_not_asgn k0 Pk)) in H. cbv zeta in H.
        set (v1 := if (a_ref ma && negb (a_cont ma))%bool then VRef v0 (tpos k0) (a_cls ma) else v0) in *.
        assert (Gv : good (tpos k0) (tend k0) v1) by (subst v1; destruct (a_ref ma && negb (a_cont ma))%bool; [exact I | exact Gv0]).
        assert (HEk : tend k0 <= tend (NT n (k0 :: rest0))) by (apply HE; left; reflexivity).
        assert (Hres : forall w, (forall lo hi, cur_ok lo hi c -> hi <= tpos k0 -> good lo (tend (NT n (k0 :: rest0))) w) ->
                  BOk (VNone, Some (cur_set a w c)) = BOk (v, top') ->
                  good (tpos (NT n (k0 :: rest0))) (tend (NT n (k0 :: rest0))) v /\ (is_asgn (NT n (k0 :: rest0)) = false -> top' = Some c) /\
                  (forall c0, Some c = Some c0 -> exists c', top' = Some c' /\
                     forall lo hi, cur_ok lo hi c0 -> hi <= tpos (NT n (k0 :: rest0)) -> cur_ok lo (tend (NT n (k0 :: rest0))) c')).
        { intros w Hw X. inversion X; subst. split; [exact I|]. split; [rewrite Hasg; discriminate|].
          intros c0 Y. inversion Y; subst c0. eexists. split; [reflexivity|]. intros lo hi Hc Hh.
          apply cur_ok_set; [apply (cur_ok_mono _ _ _ _ Hc); lia | apply (Hw lo hi Hc); rewrite <- Htp; exact Hh]. }
        destruct av; (apply Hres in H; [exact H|]); intros lo hi Hc Hh;
          try (apply (good_mono v1 _ _ _ _ Gv); destruct Hc; lia).
        (* list valued: append *)
        destruct Hc as [Hlo Hvals].
        apply (good_mono _ lo (tend k0) lo _); [|lia|exact HEk].
        apply (good_snoc l lo hi (tend k0) v1); [|exact Hlo| pose proof (wf_tree_nonempty _ Wk); lia |].
        -- apply (get_val_forall (good lo hi) a _ _ Hvals Eg).
        -- apply (good_mono v1 _ _ _ _ Gv); lia.
      * (* optional *)
        inversion H; subst. split; [exact I|]. split; [rewrite Hasg; discriminate|].
        intros c0 Y. inversion Y; subst c0. eexists. split; [reflexivity|]. intros lo hi Hc Hh.
        apply cur_ok_set; [apply (cur_ok_mono _ _ _ _ Hc); lia | exact I].
      * (* list *)
        set (rc := if (a_ref ma && negb (a_cont ma))%bool then Some (a_cls ma) else None) in *.
        destruct (lst_loop pn (is_sep_of g n) a rc (k0 :: rest0) (Some c)) as [t1|e] eqn:E1; [|discriminate].
        inversion H; subst. split; [exact I|]. split; [rewrite Hasg; discriminate|].
        intros c0 Y. inversion Y; subst c0.
        assert (X : forall lo hi, cur_ok lo hi c -> hi <= tpos (NT n (k0 :: rest0)) ->
                      exists c', top' = Some c' /\ cur_ok lo (tend (NT n (k0 :: rest0))) c').
        { intros lo hi Hc Hh.
          apply (lst_ok pn (is_sep_of g n) a rc (tend (NT n (k0 :: rest0))) lo (k0 :: rest0) hi c top' IH Hkwf Hpl); try assumption.
          - apply (chain_mono _ _ _ Hch). rewrite <- Htp. exact Hh.
          - lia. }
        (* the resulting object is the same for every frame: take it from the frame (0,0) instance *)
        pose proof (lst_frame pn (is_sep_of g n) a rc (k0 :: rest0)
                              (Forall_impl _ (fun t _ => pnode_frame g mm input grp auto use_grp t) IH) _ _ E1) as F.
        destruct top' as [c'|]; [|destruct F].
        exists c'. split; [reflexivity|]. intros lo hi Hc Hh. destruct (X lo hi Hc Hh) as [c2 [Ec Hc2]].
        inversion Ec; subst. exact Hc2.
    + destruct rk.
      * (* common: a new object *)
        set (c0 := mkCur cls attrs (tpos (NT n (k0 :: rest0))) (tend (NT n (k0 :: rest0))) (init_attrs auto attrs)) in H.
        destruct (each_loop pn (k0 :: rest0) (Some c0)) as [[c1|]|e] eqn:E1; try discriminate.
        destruct (name_ok (c_vals c1)); [|discriminate].
        destruct (many_ok (c_meta c1) (c_vals c1)); [|discriminate].
        inversion H; subst. clear H.
        assert (Hc0 : cur_ok (tpos (NT n (k0 :: rest0))) (tpos (NT n (k0 :: rest0))) c0) by (split; [lia | apply init_attrs_good]).
        destruct (each_ok pn true (tend (NT n (k0 :: rest0))) (tpos (NT n (k0 :: rest0))) (k0 :: rest0) (tpos (NT n (k0 :: rest0))) c0 (Some c1) IH Hkwf Hpl) as [c1' [Ec Hc1]];
          try assumption; try lia.
        inversion Ec; subst c1'.
        pose proof (each_frame pn (k0 :: rest0) (Forall_impl _ (fun t _ => pnode_frame g mm input grp auto use_grp t) IH) _ _ E1) as F.
        unfold c0 in F. cbn [same_frame c_pos c_end c_cls c_meta] in F. destruct F as [F1 [F2 _]]. rewrite F1, F2.
        split.
        -- apply good_obj. split; [lia|]. split; [exact Hne|]. split; [lia|]. destruct Hc1 as [_ Hv]. exact Hv.
        -- split; [reflexivity|]. intros c Hc. apply Hpure_ok; [exact Hc | reflexivity].
      * (* abstract *)
        assert (Hsub : forall x, In x (k0 :: rest0) -> pn x top = BOk (v, top') ->
                  good (tpos (NT n (k0 :: rest0))) (tend (NT n (k0 :: rest0))) v /\ top' = top).
        { intros x Hx Ex. rewrite Forall_forall in IH, Hkwf. rewrite forallb_forall in Hpl.
          destruct (IH x Hx false top v top' (Hkwf x Hx) (Hpl x Hx) Ex) as [Gv [Hp _]].
          split; [|apply Hp; apply placed_false_not_asgn; apply Hpl; exact Hx].
          destruct (wf_tree_nesting n (k0 :: rest0) x Hwf Hx) as [A B]. apply (good_mono v _ _ _ _ Gv A B). }
        assert (Hfin : good (tpos (NT n (k0 :: rest0))) (tend (NT n (k0 :: rest0))) v /\ top' = top).
        { destruct rest0 as [|k2 rest].
          - apply (Hsub k0 (or_introl eq_refl) H).
          - 
            destruct (first_nonmatch pn (nonmatch_class mm) (k0 :: k2 :: rest) top) as [r0|] eqn:E0.
            + subst r0. destruct (first_nonmatch_in _ _ _ _ _ _ E0) as [x [Hx Ex]]. apply (Hsub x Hx Ex).
            + destruct (first_nt pn (has_class mm) (k0 :: k2 :: rest) top) as [r1|] eqn:E2.
              * subst r1. destruct (first_nt_in _ _ _ _ _ _ E2) as [x [Hx Ex]]. apply (Hsub x Hx Ex).
              * inversion H; subst. split; [exact I | reflexivity]. }
        destruct Hfin as [Gv ->]. split; [exact Gv|]. split; [reflexivity|]. intros c Hc. apply Hpure_ok; [exact Hc | reflexivity].
      * (* match *)
        destruct (pmatch g input (NT n (k0 :: rest0))) as [v0|e] eqn:Em; [|discriminate]. inversion H; subst.
        split; [apply (pmatch_good _ _ _ _ Em)|]. split; [reflexivity|]. intros c Hc. apply Hpure_ok; [exact Hc | reflexivity].
Qed.

(* Nesting and list order for OBJECTS: for every grammar / metamodel table, input, oracle and option
   setting, if the parse tree is well formed and assignment nodes sit where the grammar compiler puts
   them, the value built for a node is [good] for the node's span: every object has a non-empty span,
   the objects held by its attributes lie inside it, and the objects of one list attribute are ordered
   and disjoint. *)
Theorem objects_nested_ordered t top v top' under :
  wf_tree t = true -> asg_placed mm under t = true -> pn t top = BOk (v, top') -> good (tpos t) (tend t) v.
Proof. intros Hwf Hpl H. exact (proj1 (pnode_obj_ok t under top v top' Hwf Hpl H)). Qed.

End Objects.

(* ---------------------------------------------------------------- what [good] says, spelled out *)
Lemma good_child lo hi c p e attrs a x : good lo hi (VObj c p e attrs) -> In (a, x) attrs -> good p e x.
Proof.
  intros H Hin. apply good_obj in H. destruct H as [_ [_ [_ F]]]. unfold good_attrs in F.
  rewrite Forall_forall in F. apply (F (a, x) Hin).
Qed.

Lemma good_obj_bounds lo hi c p e attrs : good lo hi (VObj c p e attrs) -> lo <= p /\ p < e /\ e <= hi.
Proof. intro H. apply good_obj in H. tauto. Qed.

Lemma good_nxt_ge lo hi x : good lo hi x -> lo <= nxt lo x.
Proof. destruct x; cbn [nxt]; try lia. intro H. apply good_obj in H. lia. Qed.

Lemma good_list_lower l : forall lo hi c p e a, good lo hi (VList l) -> In (VObj c p e a) l -> lo <= p.
Proof.
  induction l as [|x l IH]; intros lo hi c p e a H Hin; [destruct Hin|].
  rewrite good_vlist_cons in H. destruct H as [A B]. destruct Hin as [->|Hin].
  - apply good_obj in A. lia.
  - pose proof (IH _ _ _ _ _ _ B Hin). pose proof (good_nxt_ge _ _ _ A). lia.
Qed.

Lemma good_list_order l1 : forall lo hi c1 p1 e1 a1 l2 c2 p2 e2 a2 l3,
  good lo hi (VList (l1 ++ VObj c1 p1 e1 a1 :: l2 ++ VObj c2 p2 e2 a2 :: l3)) -> e1 <= p2.
Proof.
  induction l1 as [|x l1 IH]; intros lo hi c1 p1 e1 a1 l2 c2 p2 e2 a2 l3 H.
  - cbn [app] in H. rewrite good_vlist_cons in H. destruct H as [_ B]. cbn [nxt] in B.
    apply (good_list_lower _ e1 hi c2 p2 e2 a2 B). apply in_or_app. right. left. reflexivity.
  - cbn [app] in H. rewrite good_vlist_cons in H. destruct H as [_ B]. apply (IH _ _ _ _ _ _ _ _ _ _ _ _ B).
Qed.
