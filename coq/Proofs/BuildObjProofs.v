(* Objects built by Model/Build.v carry exactly the span of their rule node. *)
From TxV Require Import Core.Base Model.PegSyntax Model.Peg Model.Build Proofs.BuildProofs.
Require Import Lia.

(* the object under construction keeps its class and span while children are processed *)
Definition same_frame (top top' : option cur) : Prop :=
  match top, top' with
  | None, None => True
  | Some c, Some c' => c_pos c' = c_pos c /\ c_end c' = c_end c /\ c_cls c' = c_cls c /\ c_meta c' = c_meta c
  | _, _ => False
  end.

Lemma same_frame_refl top : same_frame top top.
Proof. destruct top; cbn; auto. Qed.
Lemma same_frame_trans a b c : same_frame a b -> same_frame b c -> same_frame a c.
Proof.
  destruct a, b, c; cbn; try tauto. intros [A1 [A2 [A3 A4]]] [B1 [B2 [B3 B4]]]. repeat split; congruence.
Qed.
Lemma same_frame_set a v c c1 : same_frame (Some c) (Some c1) -> same_frame (Some c) (Some (cur_set a v c1)).
Proof. cbn. tauto. Qed.

Definition frame_ok (rec : tree -> option cur -> bres (value * option cur)) (t : tree) : Prop :=
  forall top v top', rec t top = BOk (v, top') -> same_frame top top'.

Lemma each_frame rec l :
  Forall (frame_ok rec) l -> forall top top', each_loop rec l top = BOk top' -> same_frame top top'.
Proof.
  induction l as [|k l IH]; intros HF top top' H; cbn [each_loop] in H.
  - inversion H; subst. apply same_frame_refl.
  - inversion HF as [|? ? Hk HF']; subst.
    destruct (rec k top) as [[v top1]|e] eqn:E; [|discriminate].
    eapply same_frame_trans; [apply (Hk _ _ _ E) | apply (IH HF' _ _ H)].
Qed.

Lemma lst_frame rec is_sep a is_ref l :
  Forall (frame_ok rec) l -> forall top top', lst_loop rec is_sep a is_ref l top = BOk top' -> same_frame top top'.
Proof.
  induction l as [|k l IH]; intros HF top top' H; cbn [lst_loop] in H.
  - inversion H; subst. apply same_frame_refl.
  - inversion HF as [|? ? Hk HF']; subst.
    destruct (is_sep k); [apply (IH HF' _ _ H)|].
    destruct (rec k top) as [[v top1]|e] eqn:E; [|discriminate].
    destruct is_ref; [discriminate|].
    destruct top1 as [c1|]; [|discriminate].
    pose proof (Hk _ _ _ E) as F1.
    destruct (get_val a (c_vals c1)) as [[]|] eqn:Eg; try discriminate.
    + eapply same_frame_trans; [|apply (IH HF' _ _ H)].
      destruct top as [c|]; [apply same_frame_set; exact F1 | destruct F1].
    + eapply same_frame_trans; [|apply (IH HF' _ _ H)].
      destruct top as [c|]; [apply same_frame_set; exact F1 | destruct F1].
Qed.

Lemma first_nt_frame rec has_cls l top r :
  Forall (frame_ok rec) l -> first_nt rec has_cls l top = Some r ->
  forall v top', r = BOk (v, top') -> same_frame top top'.
Proof.
  induction l as [|k l IH]; intros HF H v top' Er; cbn [first_nt] in H; [discriminate|].
  inversion HF as [|? ? Hk HF']; subst.
  destruct k as [n p len s|xn kids].
  - apply (IH HF' H _ _ eq_refl).
  - inversion H; subst. clear H. destruct (has_cls xn); [|discriminate]. apply (Hk _ _ _ H1).
Qed.

Lemma first_nonmatch_frame rec kind_of l top r :
  Forall (frame_ok rec) l -> first_nonmatch rec kind_of l top = Some r ->
  forall v top', r = BOk (v, top') -> same_frame top top'.
Proof.
  induction l as [|k l IH]; intros HF H v top' Er; cbn [first_nonmatch] in H; [discriminate|].
  inversion HF as [|? ? Hk HF']; subst.
  destruct k as [n p len s|xn kids].
  - apply (IH HF' H _ _ eq_refl).
  - destruct (kind_of xn) as [[|]|].
    + injection H as H1. apply (Hk _ _ _ H1).
    + apply (IH HF' H _ _ eq_refl).
    + discriminate H.
Qed.

Section Frame.
Variable g : grammar.
Variable mm : list ninfo.
Variable input : list N.
Variable grp : nat -> nat -> option (nat * nat).
Variable auto use_grp : bool.
Notation pn := (pnode g mm input grp auto use_grp).

Lemma pnode_frame : forall t, frame_ok pn t.
Proof.
  induction t as [n p l s | n kids IH] using tree_ind2; intros top v top' H.
  - cbn [pnode] in H. destruct (term_value g mm input grp use_grp n p l); inversion H; subst. apply same_frame_refl.
  - cbn [pnode] in H. destruct (info mm n) as [a op|k cls attrs|r gr|] eqn:Ei; try discriminate.
    + (* assignment *)
      destruct top as [c|]; [|discriminate].
      destruct (find_attr a (c_meta c)) as [ma|]; [|discriminate].
      destruct op; try discriminate.
      * (* plain *)
        destruct (get_val a (c_vals c)) as [av|]; [|discriminate].
        destruct (val_truthy av && negb (is_vlist av))%bool; [discriminate|].
        destruct kids as [|k rest]; [discriminate|].
        inversion IH as [|? ? Hk _]; subst.
        destruct (pn k (Some c)) as [[v1 top1]|e] eqn:E; [|discriminate].
        destruct (a_ref ma && negb (a_cont ma))%bool; [discriminate|].
        destruct top1 as [c1|]; [|discriminate].
        pose proof (Hk _ _ _ E) as F1.
        destruct av; inversion H; subst; apply same_frame_set; exact F1.
      * (* optional *) inversion H; subst. apply same_frame_set. apply (same_frame_refl (Some c)).
      * (* list *)
        destruct (lst_loop pn (is_sep_of g n) a (a_ref ma && negb (a_cont ma))%bool kids (Some c)) as [t1|e] eqn:E; [|discriminate].
        inversion H; subst. apply (lst_frame _ _ _ _ _ IH _ _ E).
    + destruct k.
      * (* common: the enclosing object is untouched *)
        destruct (each_loop pn kids _) as [[c1|]|e]; try discriminate.
        destruct (name_ok (c_vals c1)); [|discriminate]. destruct (many_ok (c_meta c1) (c_vals c1)); inversion H; subst. apply same_frame_refl.
      * (* abstract *)
        destruct kids as [|k rest]; [discriminate|].
        destruct rest as [|k2 rest].
        -- inversion IH as [|? ? Hk _]; subst. apply (Hk _ _ _ H).
        -- destruct (first_nonmatch pn (nonmatch_class mm) (k :: k2 :: rest) top) as [r0|] eqn:E0.
           ++ apply (first_nonmatch_frame _ _ _ _ _ IH E0 _ _ H).
           ++ destruct (first_nt pn (has_class mm) (k :: k2 :: rest) top) as [r|] eqn:E.
              ** apply (first_nt_frame _ _ _ _ _ IH E _ _ H).
              ** inversion H; subst. apply same_frame_refl.
      * (* match *)
        destruct (pmatch g input (NT n kids)); inversion H; subst. apply same_frame_refl.
Qed.

(* every object is created by a common-rule node and carries exactly that node's span *)
Theorem object_span_is_node_span n kids top cls p e attrs top' :
  pn (NT n kids) top = BOk (VObj cls p e attrs, top') ->
  (exists c a, info mm n = IRule RCommon c a) ->
  p = tpos (NT n kids) /\ e = tend (NT n kids).
Proof.
  intros H [c [a Ei]]. cbn [pnode] in H. rewrite Ei in H.
  destruct (each_loop pn kids _) as [[c1|]|er] eqn:E; try discriminate.
  destruct (name_ok (c_vals c1)); [|discriminate]. destruct (many_ok (c_meta c1) (c_vals c1)); [|discriminate]. inversion H; subst.
  assert (F : same_frame (Some (mkCur c a (tpos (NT n kids)) (tend (NT n kids)) (init_attrs auto a))) (Some c1)).
  { apply (each_frame pn kids); [|exact E]. apply Forall_forall. intros k _. apply pnode_frame. }
  cbn in F. destruct F as [F1 [F2 _]]. split; assumption.
Qed.
End Frame.
