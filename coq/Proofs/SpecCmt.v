(* The refinement theorem for tables with a Comment rule that is a single regex terminal, in the
   mode-constant class (no rule-level ws/skipws, no eolterm) with global skipws on.  comment_positions lets
   the interpreter skip comments by a cache hit where the reference semantics re-parses them, so the
   reference side runs with [length input + 2] more units of fuel.  The unary facts about the comment loop
   (relation CL, soundness of the cache) are the C22 builder's (Proofs/PegCmtSim.v). *)
From TxV Require Import Model.PegWsDefs Proofs.PegWs Proofs.PegWsSim Proofs.PegCmtSim.
From TxV Require Import Core.Base Model.PegSyntax Model.Peg Model.Spec Proofs.SpecProofs Proofs.SpecSepProofs.
Require Import Lia.

Definition mode_free (g : grammar) : bool :=
  forallb (fun nd => opt_none (n_ws nd) && opt_none (n_skipws nd) && negb (n_eolterm nd)) (g_nodes g).
Definition cmt_regex (g : grammar) : option (nat * nat) :=
  match g_comments g with
  | Some cm => match get_node g cm with
               | Some nd => match n_kind nd with KRegex oc => Some (cm, oc) | _ => None end
               | None => None
               end
  | None => None
  end.
(* the class with a Comment rule *)
Definition wfgc (g : grammar) (pf : nat) : bool :=
  (let t := prod_tbl g pf in forallb (node_ok g (fun c => nth c t false)) (g_nodes g)) &&
  mode_free g && match cmt_regex g with Some _ => true | None => false end &&
  Nat.ltb (g_top g) (length (g_nodes g)).

Section Cmt.
Variable g : grammar.
Variable input : list N.
Variable orc : nat -> nat -> option nat.
Variable x0 : sctx.
Variables cm oc : nat.
Variable ndc : node.
Hypothesis Hcm : g_comments g = Some cm.
Hypothesis Hnd : get_node g cm = Some ndc.
Hypothesis Hkd : n_kind ndc = KRegex oc.
Hypothesis Hx_skip : x_skip x0 = true.
Hypothesis Hx_eol : x_eol x0 = false.
Hypothesis Hx_cmt : x_incmt x0 = false.
Hypothesis Hsane : forall p l, orc oc p = Some l -> p + l <= length input.

Notation wset := (x_ws x0).
Notation CLx := (CL input orc wset oc).
Definition CPc (m : list (nat * nat)) : Prop := sound input orc wset oc m.

Lemma sws_sk p : sws input x0 p = sk input wset p.
Proof. unfold sws, sk, eff_ws. rewrite Hx_eol. reflexivity. Qed.

Lemma sk_ge p : p <= sk input wset p.
Proof. unfold sk. apply skip_le. Qed.

Lemma sk_le_len p : p <= length input -> sk input wset p <= length input.
Proof.
  intro H. unfold sk. pose proof (skip_bound wset (skipn p input) p) as B. rewrite skipn_length in B. lia.
Qed.

(* the interpreter: Match.parse before the terminal *)
Lemma pre_peg f s : inv x0 CPc s ->
  match match_pre g input (parse g input orc false f) f s with
  | Ok r s1 => inv x0 CPc s1 /\ CLx (sk input wset (pos s)) (pos s1) /\ pos s <= pos s1
  | Fail _ => False
  | Abort _ => True
  end.
Proof.
  intros [H1 H2 H3 H4 H5 H6]. unfold eff_ws in H1. rewrite Hx_eol in H1. rewrite Hx_skip in H2.
  unfold match_pre. cbv zeta. rewrite (msw_pos input wset s H2 H1). cbn [skipws set_pos pos cpos in_cmt]. rewrite H2.
  assert (CLge : forall q e, CLx q e -> q <= e).
  { induction 1; [lia|]. pose proof (sk_ge (q + S len)). lia. }
  destruct (lookup (sk input wset (pos s)) (cpos s)) as [e|] eqn:EL.
  - pose proof (H4 _ _ EL) as HC. split; [|split; [exact HC|]].
    + constructor; cbn; try assumption; unfold eff_ws; rewrite ?Hx_eol, ?Hx_skip; assumption.
    + cbn [pos set_pos]. pose proof (CLge _ _ HC). pose proof (sk_ge (pos s)). lia.
  - rewrite H3. unfold parse_comments. rewrite Hcm.
    pose proof (cmt_loop_CL g input orc wset cm oc ndc Hnd Hkd f f (set_in_cmt true (set_pos (sk input wset (pos s)) s))
                  eq_refl H2 H1 H4 (sk_idem input wset _)) as HL.
    destruct (cmt_loop input (parse g input orc false f) cm f (set_in_cmt true (set_pos (sk input wset (pos s)) s))) as [r y1|y1|w];
      [|exact HL|exact I].
    destruct HL as [HC (A1 & A2 & A3 & A4 & A5 & A6)]. cbn in A1, A2, A3, A4, A5, A6, HC.
    split; [|split].
    + constructor; cbn; unfold eff_ws; rewrite ?Hx_eol, ?Hx_skip; try congruence.
      rewrite A6. apply sound_upd; assumption.
    + cbn. exact HC.
    + cbn. pose proof (CLge _ _ HC). pose proof (sk_ge (pos s)). lia.
Qed.

(* the reference semantics: (Comment whitespace)* computes the same closure, given enough fuel *)
Lemma spec_cmts tq F : forall q e, CLx q e -> sk input wset q = q ->
  forall k, length input - q < k ->
  skip_cmts input (seval g input orc tq (S F)) cm x0 k q = Some e.
Proof.
  induction 1 as [q Hnone | q len e Hsome Hrest IH]; intros Hq k Hk.
  - destruct k as [|k]; [lia|]. cbn [skip_cmts seval]. rewrite Hnd, Hkd. cbn [is_match_kind].
    unfold skip. cbn [ctx_cmt x_skip x_incmt]. rewrite Hx_skip.
    assert (E : sws input (ctx_cmt x0) q = q) by (rewrite <- Hq at 2; unfold sws, sk, eff_ws, ctx_cmt; cbn; rewrite Hx_eol; reflexivity).
    rewrite E. cbn [term_match]. rewrite Hnone. reflexivity.
  - destruct k as [|k]; [lia|]. cbn [skip_cmts seval]. rewrite Hnd, Hkd. cbn [is_match_kind].
    unfold skip. cbn [ctx_cmt x_skip x_incmt]. rewrite Hx_skip.
    assert (E : sws input (ctx_cmt x0) q = q) by (rewrite <- Hq at 2; unfold sws, sk, eff_ws, ctx_cmt; cbn; rewrite Hx_eol; reflexivity).
    rewrite E. cbn [term_match]. rewrite Hsome.
    replace (match (if n_suppress ndc then [SSup [ST cm q (S len) false]] else [ST cm q (S len) false]) with _ => _ end)
      with (skip_cmts input (seval g input orc tq (S F)) cm x0 k (sws input x0 (q + S len))) by reflexivity.
    rewrite sws_sk. apply IH; [apply sk_idem|].
    pose proof (Hsane _ _ Hsome). pose proof (sk_ge (q + S len)). lia.
Qed.

Lemma spec_skip tq F k p e :
  CLx (sk input wset p) e -> length input < k ->
  skip g input (seval g input orc tq (S F)) k x0 p = Some e.
Proof.
  intros HC Hk. unfold skip. rewrite Hx_skip, Hx_cmt, Hcm. rewrite sws_sk.
  apply spec_cmts; [exact HC | apply sk_idem | lia].
Qed.

(* the pre-terminal step of the simulation, with the reference side [length input + 2] units ahead *)
Lemma pre_cmt : forall f x s, x = x0 -> inv x CPc s ->
  match match_pre g input (parse g input orc false f) f s with
  | Ok r s1 => inv x CPc s1 /\
               skip g input (seval g input orc true (f + (length input + 2))) (f + (length input + 2)) x (pos s) = Some (pos s1) /\
               pos s <= pos s1
  | Fail _ => False
  | Abort _ => True
  end.
Proof.
  intros f x s -> Hinv. pose proof (pre_peg f s Hinv) as HP.
  destruct (match_pre g input (parse g input orc false f) f s) as [r s1|s1|w]; [|exact HP|exact I].
  destruct HP as [Hi [HC Hle]]. split; [exact Hi|]. split; [|exact Hle].
  replace (f + (length input + 2)) with (S (f + (length input + 1))) at 1 by lia.
  apply spec_skip; [exact HC | lia].
Qed.
End Cmt.

Lemma wfgc_parts g pf :
  wfgc g pf = true ->
  (forall nid nd, get_node g nid = Some nd -> node_ok g (prodb g pf) nd = true) /\
  (forall nd, In nd (g_nodes g) -> n_ws nd = None /\ n_skipws nd = None /\ n_eolterm nd = false) /\
  (exists cm oc ndc, g_comments g = Some cm /\ get_node g cm = Some ndc /\ n_kind ndc = KRegex oc) /\
  g_top g < length (g_nodes g).
Proof.
  unfold wfgc. cbv zeta. intro H. apply andb_true_iff in H as [H Htop]. apply andb_true_iff in H as [H Hc].
  apply andb_true_iff in H as [Hall Hmf].
  split; [|split; [|split]].
  - intros nid nd En. rewrite forallb_forall in Hall. unfold get_node in En. apply nth_error_In in En. exact (Hall nd En).
  - intros nd Hin. unfold mode_free in Hmf. rewrite forallb_forall in Hmf. specialize (Hmf nd Hin).
    apply andb_true_iff in Hmf as [Hmf A3]. apply andb_true_iff in Hmf as [A1 A2].
    apply negb_true_iff in A3. destruct (n_ws nd); [discriminate|]. destruct (n_skipws nd); [discriminate|]. tauto.
  - unfold cmt_regex in Hc. destruct (g_comments g) as [cm|]; [|discriminate].
    destruct (get_node g cm) as [nd|] eqn:En; [|discriminate]. destruct (n_kind nd) eqn:Ek; try discriminate.
    exists cm, oid, nd. tauto.
  - apply Nat.ltb_lt. exact Htop.
Qed.

(* the refinement theorem with a Comment rule: the reference side runs with length input + 2 more fuel *)
Theorem refinement_cmt g pf c orc fuel input :
  wfgc g pf = true -> c_skipws c = true -> orc_pos orc ->
  (forall o p l, orc o p = Some l -> p + l <= length input) ->
  let fs := fuel + (length input + 2) in
  match run g c orc false fuel input with
  | Parsed r =>
    exists ts p, spec_run g c orc fs input = SOk ts p /\
                 (nosep g = true -> erase_all ts = flatten r) /\
                 exists tsq, spec_run_q g c orc fs input = SOk tsq p /\ erase_all tsq = flatten r
  | SyntaxErr _ => spec_run g c orc fs input = SFail
  | Aborted _ => True
  end.
Proof.
  intros Hwf Hskip Horc Hsane fs.
  destruct (wfgc_parts g pf Hwf) as [Hnodes [Hmf [[cm [oc [ndc [Hcm [Hnd Hkd]]]]] Htop]]].
  set (x0 := init_ctx c).
  assert (Hinv : inv x0 (CPc input orc x0 oc) (init_st c)).
  { constructor; cbn; try reflexivity. intros q e X. discriminate. }
  assert (HQ : match run g c orc false fuel input with
               | Parsed r => exists tsq p, spec_run_q g c orc fs input = SOk tsq p /\ erase_all tsq = flatten r
               | SyntaxErr _ => spec_run_q g c orc fs input = SFail
               | Aborted _ => True
               end).
  { pose proof (parse_sim g input orc Horc (CPc input orc x0 oc) (length input + 2) (fun x => x = x0)) as PS.
    assert (E1 : forall nd x, In nd (g_nodes g) -> x = x0 -> ctx_enter nd x = x0).
    { intros nd x Hin ->. destruct (Hmf nd Hin) as [A [B _]]. unfold ctx_enter. rewrite A, B. reflexivity. }
    assert (E2 : forall nd x, In nd (g_nodes g) -> x = x0 -> ctx_eol nd x = x0).
    { intros nd x Hin ->. destruct (Hmf nd Hin) as [_ [_ C]]. unfold ctx_eol. rewrite C. reflexivity. }
    assert (E3 : forall nd x, In nd (g_nodes g) -> x = x0 -> n_ws nd = None \/ x_eol x = false).
    { intros nd x Hin _. left. apply (Hmf nd Hin). }
    specialize (PS E1 E2 E3 (pre_cmt g input orc x0 cm oc ndc Hcm Hnd Hkd Hskip eq_refl eq_refl (Hsane oc)) pf Hnodes
                   fuel x0 eq_refl (g_top g) false (init_st c) Hinv Htop).
    unfold run, spec_run_q. cbn [pos init_st] in PS. fold fs in PS.
    destruct (parse g input orc false fuel (g_top g) false (init_st c)) as [r s'|s'|w].
    - destruct PS as [ts [Es [Ee _]]]. exists ts, (pos s'). split; assumption.
    - destruct PS as [Es _]. exact Es.
    - exact I. }
  pose proof (spec_q_acceptance g c orc fs input) as HA.
  destruct (run g c orc false fuel input) as [r|e|w]; [| |exact I].
  - destruct HQ as [tsq [p [Eq Ee]]]. rewrite Eq in HA.
    destruct (spec_run g c orc fs input) as [ts p'| |] eqn:Es; try contradiction. subst p'.
    exists ts, p. split; [reflexivity|]. split.
    + intro Hn. pose proof (spec_q_nosep g c orc fs input Hn) as E. rewrite Eq, Es in E. inversion E; subst. exact Ee.
    + exists tsq. split; [exact Eq | exact Ee].
  - rewrite HQ in HA. destruct (spec_run g c orc fs input); try contradiction. reflexivity.
Qed.

(* Model: 'm' items+=Item; Item: name=ID; Comment: /\/\*.*?\*\//;   on "m a /*c*/ /*d*/b" *)
Definition g_cmt : grammar := (mkGrammar [mkNode KSeq [1;7] None false [77;111;100;101;108]%N true false None None;
  mkNode KSeq [2;3] None false [77;111;100;101;108]%N true false None None;
  mkNode (KStr [109]%N None) [] None false []%N false false None None;
  mkNode KPlus [4] None false [95;95;97;115;103;110;95;111;110;101;111;114;109;111;114;101]%N true false None None;
  mkNode KSeq [5] None false [73;116;101;109]%N true false None None;
  mkNode KSeq [6] None false [95;95;97;115;103;110;95;112;108;97;105;110]%N true false None None;
  mkNode (KRegex 0) [] None false [73;68]%N true false None None;
  mkNode KEOF [] None false [69;79;70]%N false false None None;
  mkNode (KRegex 1) [] None false [67;111;109;109;101;110;116]%N true false None None] 0 (Some 8)).
Definition in_cmt1 : list N := [109;32;97;32;47;42;99;42;47;32;47;42;100;42;47;98]%N.
Definition t_cmt1 := [((0,0),1);((0,2),1);((0,6),1);((0,12),1);((0,15),1);((1,4),5);((1,10),5)].
Definition c_skip : config := mkConfig true [9;10;13;32]%N.
Definition c_noskip : config := mkConfig false [9;10;13;32]%N.

Lemma cmt_in_class :
  wfgc g_cmt 24 = true /\ wfg g_cmt 24 = false /\
  match run g_cmt c_skip (orc_of t_cmt1) false 40 in_cmt1 with Parsed _ => true | _ => false end = true /\
  match spec_run g_cmt c_skip (orc_of t_cmt1) (40 + (16 + 2)) in_cmt1 with SOk _ _ => true | _ => false end = true.
Proof. vm_compute. repeat split. Qed.

(* boundary: with global skipws off Arpeggio still parses comments ("ma/*c*/b"), the documented semantics do not *)
Definition in_cmt2 : list N := [109;97;47;42;99;42;47;98]%N.
Definition t_cmt2 := [((0,0),2);((0,1),1);((0,4),1);((0,7),1);((1,2),5)].
Lemma refuted_cmt_noskipws :
  wfgc g_cmt 24 = true /\ c_skipws c_noskip = false /\
  match run g_cmt c_noskip (orc_of t_cmt2) false 40 in_cmt2 with Parsed _ => true | _ => false end = true /\
  spec_run g_cmt c_noskip (orc_of t_cmt2) (40 + (8 + 2)) in_cmt2 = SFail.
Proof. vm_compute. repeat split. Qed.
