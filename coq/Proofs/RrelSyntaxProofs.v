From TxV Require Import Core.Base Model.RrelSyntax.

(* ---------------- well-formed trees: what the constructors of rrel.py can build *)
Fixpoint wf_elem (e : elem) : Prop :=
  match e with
  | EParent _ => True
  | ENav _ c f => match f with Some _ => c = false | None => True end
  | EDots _ => False                      (* dots occur only at the head of a path *)
  | EBr s => wf_seq s
  | EStar s => wf_seq s
  end
with wf_tail (p : path) : Prop :=
  match p with
  | P1 e => wf_elem e
  | PCons e p' => wf_elem e /\ wf_tail p'
  end
with wf_seq (s : seq) : Prop :=
  match s with
  | S1 p => (match p with
             | P1 (EDots _) => True
             | PCons (EDots _) p' => wf_tail p'
             | _ => wf_tail p
             end)
  | SCons p s' => (match p with
                   | P1 (EDots _) => True
                   | PCons (EDots _) p' => wf_tail p'
                   | _ => wf_tail p
                   end) /\ wf_seq s'
  end.

Definition wf_path (p : path) : Prop :=
  match p with
  | P1 (EDots _) => True
  | PCons (EDots _) p' => wf_tail p'
  | _ => wf_tail p
  end.

Definition follow_x (ts : list tok) : Prop :=
  match ts with [] => True | TDots 1 :: _ => True | TComma :: _ => True | TRP :: _ => True | _ => False end.
Definition follow_path (ts : list tok) : Prop :=
  match ts with [] => True | TComma :: _ => True | TRP :: _ => True | _ => False end.
Definition follow_seq (ts : list tok) : Prop :=
  match ts with [] => True | TRP :: _ => True | _ => False end.

Lemma follow_path_x ts : follow_path ts -> follow_x ts.
Proof. destruct ts as [|[] ?]; simpl; tauto. Qed.
Lemma follow_seq_path ts : follow_seq ts -> follow_path ts.
Proof. destruct ts as [|[] ?]; simpl; tauto. Qed.

(* unfolding equations *)
Lemma p_seq_S f ts : p_seq (S f) ts =
  match p_path f ts with
  | Some (p, TComma :: ts') => match p_seq f ts' with Some (s, ts'') => Some (SCons p s, ts'') | None => None end
  | Some (p, ts') => Some (S1 p, ts')
  | None => None
  end.
Proof. reflexivity. Qed.

Lemma p_path_S f ts : p_path (S f) ts =
  let head := match ts with
              | TCaret :: ts' => Some (caret_elem, ts')
              | TDots n :: ts' => Some (EDots n, ts')
              | _ => None
              end in
  let body := match head with Some (_, ts') => ts' | None => ts end in
  match p_elems f body with
  | Some (p, ts'') => Some (match head with Some (h, _) => PCons h p | None => p end, ts'')
  | None => match head with Some (h, ts') => Some (P1 h, ts') | None => None end
  end.
Proof. reflexivity. Qed.

Lemma p_elems_S f ts : p_elems (S f) ts =
  match p_x f ts with
  | Some (e, TDots 1 :: ts') =>
      match p_elems f ts' with Some (p, ts'') => Some (PCons e p, ts'') | None => None end
  | Some (e, ts') => Some (P1 e, ts')
  | None => None
  end.
Proof. reflexivity. Qed.

Lemma p_x_S f ts : p_x (S f) ts =
  match p_pe f ts with
  | Some (e, TStar :: ts') => Some (star_of e, ts')
  | r => r
  end.
Proof. reflexivity. Qed.

Lemma p_pe_S f ts : p_pe (S f) ts =
  match ts with
  | TId k :: TLP :: TId t :: TRP :: ts' =>
      if str_eqb k kw_parent then Some (EParent t, ts') else Some (ENav k true None, TLP :: TId t :: TRP :: ts')
  | TLP :: ts' => match p_seq f ts' with Some (s, TRP :: ts'') => Some (EBr s, ts'') | _ => None end
  | TTilde :: TId n :: ts' => Some (ENav n false None, ts')
  | TId n :: ts' => Some (ENav n true None, ts')
  | TStr fx _ :: TTilde :: TId n :: ts' => Some (ENav n false (Some fx), ts')
  | _ => None
  end.
Proof. reflexivity. Qed.

Opaque p_seq p_path p_elems p_x p_pe.

(* a consumed name followed by a follow token is a navigation, whatever the name *)
Lemma p_pe_id f n rest : follow_x rest -> p_pe (S f) (TId n :: rest) = Some (ENav n true None, rest).
Proof.
  intro H. rewrite p_pe_S. destruct rest as [|t rest]; [reflexivity|].
  destruct t; simpl in H; try tauto; try reflexivity.
Qed.

(* on the empty input and on closing tokens no element starts *)
Lemma p_x_none f ts : follow_path ts -> p_x f ts = None.
Proof.
  intro H. destruct f as [|f]; [reflexivity|]. rewrite p_x_S.
  destruct f as [|f]; [reflexivity|]. rewrite p_pe_S.
  destruct ts as [|[] ?]; simpl in H; try tauto; reflexivity.
Qed.

Lemma p_elems_none f ts : follow_path ts -> p_elems f ts = None.
Proof.
  intro H. destruct f as [|f]; [reflexivity|]. rewrite p_elems_S, p_x_none by assumption. reflexivity.
Qed.

Definition PE (e : elem) : Prop := forall fuel rest,
  wf_elem e -> follow_x rest -> 3 * length (t_elem e) + 2 <= fuel ->
  p_x fuel (t_elem e ++ rest) = Some (e, rest).
Definition PP (p : path) : Prop :=
  (forall fuel rest, wf_tail p -> follow_path rest -> 3 * length (t_path_tail p) + 3 <= fuel ->
     p_elems fuel (t_path_tail p ++ rest) = Some (p, rest)) /\
  (forall fuel rest, wf_path p -> follow_path rest -> 3 * length (t_path p) + 4 <= fuel ->
     p_path fuel (t_path p ++ rest) = Some (p, rest)).
Definition PS (s : seq) : Prop := forall fuel rest,
  wf_seq s -> follow_seq rest -> 3 * length (t_seq s) + 5 <= fuel ->
  p_seq fuel (t_seq s ++ rest) = Some (s, rest).

Lemma t_seq_S1 p : t_seq (S1 p) = t_path p.
Proof. destruct p as [[]|[] ?]; reflexivity. Qed.
Lemma t_seq_SCons p s : t_seq (SCons p s) = t_path p ++ TComma :: t_seq s.
Proof. destruct p as [[]|[] ?]; reflexivity. Qed.
Lemma wf_seq_S1 p : wf_seq (S1 p) = wf_path p.
Proof. destruct p as [[]|[] ?]; reflexivity. Qed.
Lemma wf_seq_SCons p s : wf_seq (SCons p s) = (wf_path p /\ wf_seq s).
Proof. destruct p as [[]|[] ?]; reflexivity. Qed.

Lemma follow_x_not_star rest : follow_x rest -> forall r, rest <> TStar :: r.
Proof. intros H r E. subst. exact H. Qed.

(* p_x on an element that p_pe parses and that is not followed by '*' *)
Lemma p_x_of_pe f ts e rest : p_pe f ts = Some (e, rest) -> follow_x rest -> p_x (S f) ts = Some (e, rest).
Proof.
  intros H Hf. rewrite p_x_S, H. destruct rest as [|[] ?]; simpl in Hf; try tauto; reflexivity.
Qed.

Lemma elem_case : forall e, (forall s, e = EBr s -> PS s) -> (forall s, e = EStar s -> PS s) -> PE e.
Proof.
  intros e HBr HStar fuel rest Hwf Hfol Hfuel.
  destruct e as [t | n c fx | n | s | s]; cbn [t_elem wf_elem] in *.
  - (* parent *)
    destruct fuel as [|[|f]]; cbn [length] in Hfuel; try lia.
    apply p_x_of_pe; [|assumption]. rewrite p_pe_S. cbn [app]. rewrite str_eqb_refl. reflexivity.
  - (* navigation *)
    destruct fx as [fx|].
    + subst c. destruct fuel as [|[|f]]; cbn [length] in Hfuel; try lia.
      apply p_x_of_pe; [|assumption]. rewrite p_pe_S. reflexivity.
    + destruct c.
      * destruct fuel as [|[|f]]; cbn [length] in Hfuel; try lia.
        apply p_x_of_pe; [|assumption]. apply p_pe_id. assumption.
      * destruct fuel as [|[|f]]; cbn [length] in Hfuel; try lia.
        apply p_x_of_pe; [|assumption]. rewrite p_pe_S. reflexivity.
  - contradiction.
  - (* brackets *)
    destruct fuel as [|[|f]]; cbn [length] in Hfuel; try lia.
    apply p_x_of_pe; [|assumption]. rewrite p_pe_S. cbn [app]. rewrite <- app_assoc. cbn [app].
    rewrite (HBr s eq_refl f (TRP :: rest) Hwf I); [reflexivity|].
    rewrite app_length in Hfuel. cbn [length] in Hfuel. lia.
  - (* star *)
    destruct fuel as [|[|f]]; cbn [length] in Hfuel; try lia.
    rewrite p_x_S, p_pe_S. cbn [app]. rewrite <- app_assoc. cbn [app].
    rewrite (HStar s eq_refl f (TRP :: TStar :: rest) Hwf I); [reflexivity|].
    rewrite app_length in Hfuel. cbn [length] in Hfuel. lia.
Qed.

Lemma t_elem_nonempty e : wf_elem e -> exists t ts, t_elem e = t :: ts /\ t <> TCaret /\ (forall n, t <> TDots n).
Proof.
  destruct e as [t | n c fx | n | s | s]; cbn; intro H; try contradiction.
  - eexists _, _. split; [reflexivity|]. split; [discriminate | intro; discriminate].
  - destruct fx; [|destruct c]; eexists _, _; (split; [reflexivity|]); split; try discriminate; intro; discriminate.
  - eexists _, _. split; [reflexivity|]. split; [discriminate | intro; discriminate].
  - eexists _, _. split; [reflexivity|]. split; [discriminate | intro; discriminate].
Qed.

Lemma t_tail_head p : wf_tail p -> exists t ts, t_path_tail p = t :: ts /\ t <> TCaret /\ (forall n, t <> TDots n).
Proof.
  destruct p as [e|e p']; cbn [t_path_tail wf_tail]; intro H.
  - apply t_elem_nonempty. exact H.
  - destruct H as [He _]. destruct (t_elem_nonempty e He) as [t [ts [E [H1 H2]]]].
    rewrite E. exists t, (ts ++ TDots 1 :: t_path_tail p'). split; [reflexivity | split; assumption].
Qed.

(* a path without a dots/caret head *)
Lemma p_path_nohead fuel p rest :
  (forall fuel rest, wf_tail p -> follow_path rest -> 3 * length (t_path_tail p) + 3 <= fuel ->
     p_elems fuel (t_path_tail p ++ rest) = Some (p, rest)) ->
  wf_tail p -> follow_path rest -> 3 * length (t_path_tail p) + 4 <= fuel ->
  p_path fuel (t_path_tail p ++ rest) = Some (p, rest).
Proof.
  intros IH Hwf Hfol Hfuel. destruct fuel as [|f]; [lia|]. rewrite p_path_S.
  destruct (t_tail_head p Hwf) as [t [ts [E [H1 H2]]]].
  assert (Hh : match (t_path_tail p ++ rest) with
               | TCaret :: ts' => Some (caret_elem, ts')
               | TDots n :: ts' => Some (EDots n, ts')
               | _ => None end = None).
  { rewrite E. cbn [app]. destruct t; try reflexivity; [exfalso; apply (H2 n); reflexivity | congruence]. }
  rewrite Hh. cbv beta iota zeta. rewrite IH; [reflexivity | assumption | assumption | lia].
Qed.

Theorem roundtrip_all : (forall e, PE e) /\ (forall p, PP p) /\ (forall s, PS s).
Proof.
  apply rrel_mutind.
  - intro t. apply elem_case; intros; discriminate.
  - intros n c f. apply elem_case; intros; discriminate.
  - intro n. apply elem_case; intros; discriminate.
  - intros s IH. apply elem_case; intros s' E; inversion E; subst; assumption.
  - intros s IH. apply elem_case; intros s' E; inversion E; subst; assumption.
  - (* P1 e *)
    intros e IHe.
    assert (Htail : forall fuel rest, wf_tail (P1 e) -> follow_path rest -> 3 * length (t_path_tail (P1 e)) + 3 <= fuel ->
              p_elems fuel (t_path_tail (P1 e) ++ rest) = Some (P1 e, rest)).
    { intros fuel rest Hwf Hfol Hfuel. cbn [t_path_tail wf_tail] in *.
      destruct fuel as [|f]; [lia|]. rewrite p_elems_S.
      rewrite (IHe f rest Hwf (follow_path_x _ Hfol)) by lia.
      destruct rest as [|[] ?]; simpl in Hfol; try tauto; reflexivity. }
    split; [exact Htail|].
    intros fuel rest Hwf Hfol Hfuel.
    destruct e as [t | n c fx | n | s | s];
      try (apply (p_path_nohead fuel (P1 _) rest Htail Hwf Hfol Hfuel)).
    (* a path that is only dots *)
    cbn [t_path t_path_tail t_elem app] in *. destruct fuel as [|f]; [lia|]. rewrite p_path_S.
    cbv beta iota zeta. rewrite p_elems_none by assumption. reflexivity.
  - (* PCons e p *)
    intros e IHe p [IHp1 IHp2].
    assert (Htail : forall fuel rest, wf_tail (PCons e p) -> follow_path rest -> 3 * length (t_path_tail (PCons e p)) + 3 <= fuel ->
              p_elems fuel (t_path_tail (PCons e p) ++ rest) = Some (PCons e p, rest)).
    { intros fuel rest [Hwe Hwp] Hfol Hfuel. cbn [t_path_tail] in *.
      rewrite app_length in Hfuel. cbn [length] in Hfuel.
      destruct fuel as [|f]; [lia|]. rewrite p_elems_S. rewrite <- app_assoc. cbn [app].
      rewrite (IHe f (TDots 1 :: t_path_tail p ++ rest) Hwe I) by lia.
      rewrite (IHp1 f rest Hwp Hfol) by lia. reflexivity. }
    split; [exact Htail|].
    intros fuel rest Hwf Hfol Hfuel.
    destruct e as [t | n c fx | n | s | s];
      try (apply (p_path_nohead fuel (PCons _ p) rest Htail Hwf Hfol Hfuel)).
    (* dots head followed by elements *)
    cbn [t_path wf_path] in *. cbn [length] in Hfuel. destruct fuel as [|f]; [lia|]. rewrite p_path_S.
    cbn [app]. cbv beta iota zeta. rewrite (IHp1 f rest Hwf Hfol) by lia. reflexivity.
  - (* S1 p *)
    intros p [_ IHp] fuel rest Hwf Hfol Hfuel.
    rewrite t_seq_S1 in *. rewrite wf_seq_S1 in Hwf.
    destruct fuel as [|f]; [lia|]. rewrite p_seq_S.
    rewrite (IHp f rest Hwf (follow_seq_path _ Hfol)) by lia.
    destruct rest as [|[] ?]; simpl in Hfol; try tauto; reflexivity.
  - (* SCons p s *)
    intros p [_ IHp] s IHs fuel rest Hwf Hfol Hfuel.
    rewrite t_seq_SCons in *. rewrite wf_seq_SCons in Hwf. destruct Hwf as [Hwp Hws].
    rewrite app_length in Hfuel. cbn [length] in Hfuel.
    destruct fuel as [|f]; [lia|]. rewrite p_seq_S. rewrite <- app_assoc. cbn [app].
    rewrite (IHp f (TComma :: t_seq s ++ rest) Hwp I) by lia.
    rewrite (IHs f rest Hws Hfol) by lia. reflexivity.
Qed.

Definition nf (ts : list tok) : Prop := exists t r, ts = t :: r /\ forall f, t <> TFlags f.
Lemma nf_app ts r : nf ts -> nf (ts ++ r).
Proof. intros [t [r' [E H]]]. subst. exists t, (r' ++ r). split; [reflexivity | exact H]. Qed.
Lemma nf_elem e : nf (t_elem e).
Proof.
  destruct e as [t | n c fx | n | s | s]; cbn; try (eexists _, _; split; [reflexivity | intro; discriminate]).
  destruct fx; [|destruct c]; eexists _, _; (split; [reflexivity | intro; discriminate]).
Qed.
Lemma nf_tail p : nf (t_path_tail p).
Proof. destruct p; cbn [t_path_tail]; [apply nf_elem | apply nf_app, nf_elem]. Qed.
Lemma nf_path p : nf (t_path p).
Proof.
  destruct p as [e|e p']; [apply nf_tail|].
  destruct e; try apply nf_tail. cbn. eexists _, _. split; [reflexivity | intro; discriminate].
Qed.
Lemma nf_seq s : nf (t_seq s).
Proof. destruct s; [rewrite t_seq_S1 | rewrite t_seq_SCons; apply nf_app]; apply nf_path. Qed.

Definition wf_expr (e : expr) : Prop := wf_seq (eseq e).

Theorem parse_toks_print : forall e, wf_expr e -> parse_toks (t_expr e) = Some e.
Proof.
  intros [s fl] Hwf. unfold parse_toks, t_expr, wf_expr in *. cbn [eseq eflags] in *.
  destruct roundtrip_all as [_ [_ HS]].
  destruct fl as [|c fl].
  - unfold p_expr.
    assert (Hnf : match t_seq s with TFlags f :: ts' => (f, ts') | _ => ([], t_seq s) end = ([], t_seq s)).
    { destruct (nf_seq s) as [t [r [E H]]]. rewrite E. destruct t; try reflexivity. exfalso. apply (H s0). reflexivity. }
    rewrite Hnf. pose proof (HS s (5 * length (t_seq s) + 5) [] Hwf I) as H.
    rewrite app_nil_r in H. rewrite H by lia. reflexivity.
  - unfold p_expr. cbn [length].
    pose proof (HS s (5 * S (length (t_seq s)) + 5) [] Hwf I) as H.
    rewrite app_nil_r in H. rewrite H by lia. reflexivity.
Qed.
