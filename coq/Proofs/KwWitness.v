(* Concrete parser models (dumped by tools/pegdump.py from the real textX) used as non-vacuity
   examples and refutation witnesses of Props/C20.v and Props/C21.v. *)
From TxV Require Import Core.Base Model.PegSyntax Model.Peg Model.KwDefs Gen.SrcKw Model.Kw
     Proofs.PegCongr Proofs.KwProofs.

Definition cfg_default : config := mkConfig true [9;10;13;32]%N.
Definition accepted (o : outcome) : bool := match o with Parsed _ => true | _ => false end.

(* ---- Model: 'begin' name=ID 'end';   ignore_case=True *)
Definition g_begin : grammar := (mkGrammar [mkNode KSeq [1;6] None false [77;111;100;101;108]%N true false None None;
  mkNode KSeq [2;3;5] None false [77;111;100;101;108]%N true false None None;
  mkNode (KStr [98;101;103;105;110]%N (Some 0)) [] None false []%N false false None None;
  mkNode KSeq [4] None false [95;95;97;115;103;110;95;112;108;97;105;110]%N true false None None;
  mkNode (KRegex 1) [] None false [73;68]%N true false None None;
  mkNode (KStr [101;110;100]%N (Some 2)) [] None false []%N false false None None;
  mkNode KEOF [] None false [69;79;70]%N false false None None] 0 None).
Definition in_begin1 : list N := [98;101;103;105;110;32;120;32;101;110;100]%N.     (* "begin x end" *)
Definition in_begin2 : list N := [66;69;71;73;78;32;120;32;69;110;100]%N.         (* "BEGIN x End" *)
(* Python's answers are the same for both texts *)
Definition tbl_begin := [((0,0),5);((1,0),5);((1,1),4);((1,2),3);((1,3),2);((1,4),1);((1,6),1);((1,8),3);((1,9),2);((1,10),1);((2,8),3)].

Lemma begin_hyps :
  in_begin1 <> in_begin2 /\
  all_str_icase g_begin = true /\
  case_variant ascii_lower in_begin1 in_begin2 /\
  Forall2 (char_ok (ws_universe g_begin cfg_default)) in_begin1 in_begin2 /\
  accepted (run g_begin cfg_default (orc_of tbl_begin) false 50 in_begin1) = true.
Proof.
  split; [discriminate|]. split; [reflexivity|]. split; [reflexivity|]. split; [|reflexivity].
  unfold in_begin1, in_begin2.
  repeat (constructor; [first [left; reflexivity
                              | right; split; (intro H; cbn in H; repeat (destruct H as [H|H]; [discriminate|]); exact H)]|]).
  constructor.
Qed.

(* ---- Model: b=BOOL | 'true' x=ID;   ignore_case=True.  BOOL is a built-in, case sensitive by design *)
Definition g_bool : grammar := (mkGrammar [mkNode KSeq [1;8] None false [77;111;100;101;108]%N true false None None;
  mkNode KChoice [2;4] None false [77;111;100;101;108]%N true false None None;
  mkNode KSeq [3] None false [95;95;97;115;103;110;95;112;108;97;105;110]%N true false None None;
  mkNode (KRegex 0) [] None false [66;79;79;76]%N true false None None;
  mkNode KSeq [5;6] None false []%N false false None None;
  mkNode (KStr [116;114;117;101]%N (Some 1)) [] None false []%N false false None None;
  mkNode KSeq [7] None false [95;95;97;115;103;110;95;112;108;97;105;110]%N true false None None;
  mkNode (KRegex 2) [] None false [73;68]%N true false None None;
  mkNode KEOF [] None false [69;79;70]%N false false None None] 0 None).
Definition in_bool1 : list N := [84;82;85;69;32;97]%N.          (* "TRUE a" *)
Definition in_bool2 : list N := [116;114;117;101;32;97]%N.      (* "true a" *)
Definition tbl_bool1 := [((1,0),4);((2,0),4);((2,1),3);((2,2),2);((2,3),1);((2,5),1)].
Definition tbl_bool2 := [((0,0),4);((1,0),4);((2,0),4);((2,1),3);((2,2),2);((2,3),1);((2,5),1)].

Lemma bool_refuted :
  all_str_icase g_bool = true /\
  case_variant ascii_lower in_bool1 in_bool2 /\
  (* the literal oracle (1) and ID (2) agree on the two texts, BOOL (0) does not *)
  (forall p, orc_of tbl_bool2 1 p = orc_of tbl_bool1 1 p) /\
  (forall p, orc_of tbl_bool2 2 p = orc_of tbl_bool1 2 p) /\
  orc_of tbl_bool2 0 0 <> orc_of tbl_bool1 0 0 /\
  accepted (run g_bool cfg_default (orc_of tbl_bool1) false 50 in_bool1) = true /\
  run g_bool cfg_default (orc_of tbl_bool2) false 50 in_bool2 = SyntaxErr 5.
Proof.
  split; [reflexivity|]. split; [reflexivity|].
  split; [intro p; do 7 (destruct p as [|p]; [reflexivity|]); reflexivity|].
  split; [intro p; do 7 (destruct p as [|p]; [reflexivity|]); reflexivity|].
  split; [discriminate|]. split; vm_compute; reflexivity.
Qed.

(* ---- Model: ('in' x=ID | y=ID) ';';   plain and autokwd=True *)
Definition g_in_plain : grammar := (mkGrammar [mkNode KSeq [1;9] None false [77;111;100;101;108]%N true false None None;
  mkNode KSeq [2;8] None false [77;111;100;101;108]%N true false None None;
  mkNode KChoice [3;7] None false []%N false false None None;
  mkNode KSeq [4;5] None false []%N false false None None;
  mkNode (KStr [105;110]%N None) [] None false []%N false false None None;
  mkNode KSeq [6] None false [95;95;97;115;103;110;95;112;108;97;105;110]%N true false None None;
  mkNode (KRegex 0) [] None false [73;68]%N true false None None;
  mkNode KSeq [6] None false [95;95;97;115;103;110;95;112;108;97;105;110]%N true false None None;
  mkNode (KStr [59]%N None) [] None false []%N false false None None;
  mkNode KEOF [] None false [69;79;70]%N false false None None] 0 None).
Definition g_in_kw : grammar := (mkGrammar [mkNode KSeq [1;9] None false [77;111;100;101;108]%N true false None None;
  mkNode KSeq [2;8] None false [77;111;100;101;108]%N true false None None;
  mkNode KChoice [3;7] None false []%N false false None None;
  mkNode KSeq [4;5] None false []%N false false None None;
  mkNode (KRegex 0) [] None false []%N false false None None;
  mkNode KSeq [6] None false [95;95;97;115;103;110;95;112;108;97;105;110]%N true false None None;
  mkNode (KRegex 1) [] None false [73;68]%N true false None None;
  mkNode KSeq [6] None false [95;95;97;115;103;110;95;112;108;97;105;110]%N true false None None;
  mkNode (KStr [59]%N None) [] None false []%N false false None None;
  mkNode KEOF [] None false [69;79;70]%N false false None None] 0 None).
Definition in_in1 : list N := [105;110;32;120;59]%N.     (* "in x;" *)
Definition in_in2 : list N := [105;110;120;59]%N.        (* "inx;"  *)
Definition tbl_in1_plain := [((0,0),2);((0,1),1);((0,3),1)].
Definition tbl_in1_kw := [((0,0),2);((1,0),2);((1,1),1);((1,3),1)].
Definition tbl_in2_plain := [((0,0),3);((0,1),2);((0,2),1)].
Definition tbl_in2_kw := [((1,0),3);((1,1),2);((1,2),1)].

(* with a glued keyword ("inx;") both settings accept but build different models *)
Lemma in_glued_differs :
  accepted (run g_in_plain cfg_default (orc_of tbl_in2_plain) false 50 in_in2) = true /\
  accepted (run g_in_kw cfg_default (orc_of tbl_in2_kw) false 50 in_in2) = true /\
  run g_in_kw cfg_default (orc_of tbl_in2_kw) false 50 in_in2
  <> foutcome (kw_supf g_in_plain g_in_kw) (run g_in_plain cfg_default (orc_of tbl_in2_plain) false 50 in_in2) /\
  lit_prefix ascii_lower false [105;110]%N in_in2 = true /\ word_at ascii_word in_in2 2 = true.
Proof. vm_compute. repeat split; try reflexivity. discriminate. Qed.

(* without one ("in x;") the decidable instance check passes and the parses coincide *)
Lemma in_unglued_same :
  kw_case_ok ascii_word ascii_digit ascii_lower in_in1 tbl_in1_plain tbl_in1_kw g_in_plain g_in_kw = true /\
  no_glue_ok ascii_word ascii_digit ascii_lower in_in1 g_in_plain = true /\
  accepted (run g_in_plain cfg_default (orc_of tbl_in1_plain) false 50 in_in1) = true /\
  run g_in_kw cfg_default (orc_of tbl_in1_kw) false 50 in_in1
  = foutcome (kw_supf g_in_plain g_in_kw) (run g_in_plain cfg_default (orc_of tbl_in1_plain) false 50 in_in1).
Proof. vm_compute. repeat split; reflexivity. Qed.
