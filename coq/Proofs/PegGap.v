(* C22 - whole-run version of "only the active set is skipped" for grammars without Comment rule
   (memoization off, any rule modifiers): whatever a successful parse moves over is tiled by
   characters of the whitespace sets of the grammar and by matches of terminals of the grammar. *)
From TxV Require Import Core.Base Model.PegSyntax Model.Peg Model.PegWsDefs Proofs.PegWs Proofs.PegWsSim Proofs.PegCmtSim.
Require Import Lia.

Section Gap.
Variable g : grammar.
Variable cfg : config.
Variable input : list N.
Variable orc : nat -> nat -> option nat.
Hypothesis Hnc : g_comments g = None.
Let W := all_ws g cfg.

Definition term_at (p len : nat) : Prop :=
  exists nd, In nd (g_nodes g) /\ is_match_kind (n_kind nd) = true /\ tmatch input orc (n_kind nd) p = Some len.

Inductive covered : nat -> nat -> Prop :=
| cov_nil p : covered p p
| cov_ws p c q : nth_error input p = Some c -> inw W c = true -> covered (S p) q -> covered p q
| cov_tok p len q : term_at p len -> covered (p + len) q -> covered p q.

Lemma cov_trans p q r : covered p q -> covered q r -> covered p r.
Proof. induction 1; intro H2; [exact H2 | eapply cov_ws; eauto | eapply cov_tok; eauto]. Qed.

Definition sub (w : list N) : Prop := forall c, In c w -> inw W c = true.

Lemma sub_strip w : sub w -> sub (strip_eol w).
Proof. intros H c Hc. apply H. unfold strip_eol in Hc. apply filter_In in Hc. apply Hc. Qed.

Lemma inw_In w c : inw w c = true -> In c w.
Proof. unfold inw. rewrite existsb_exists. intros [d [Hd E]]. apply N.eqb_eq in E. subst; exact Hd. Qed.
Lemma In_inw w c : In c w -> inw w c = true.
Proof. intro H. unfold inw. rewrite existsb_exists. exists c. split; [exact H | apply N.eqb_refl]. Qed.

Lemma cov_skip w : sub w -> forall l p, skipn p input = l -> covered p (skip_ws_from w l p).
Proof.
  intros Hw l; induction l as [|c l IH]; intros p E; simpl; [apply cov_nil|].
  destruct (existsb (N.eqb c) w) eqn:Ec; [|apply cov_nil].
  pose proof (skipn_nth input p) as Hn. destruct (nth_error input p) as [d|] eqn:En; rewrite E in Hn; [|discriminate].
  injection Hn as -> El. eapply cov_ws; [exact En | apply Hw, inw_In; exact Ec | apply IH; symmetry; exact El].
Qed.

(* ---------------------------------------------------------------- invariant *)
Definition GI (x : st) : Prop := cpos_id (cpos x) /\ sub (ws x) /\ sub (real_ws x).

Lemma I_ext y x : scf y x -> GI x -> GI y.
Proof. unfold scf, GI. intros (A1 & A2 & A3 & A4 & A5 & A6). rewrite A1, A2, A6. tauto. Qed.
Lemma I_set_pos p x : GI x -> GI (set_pos p x).
Proof. apply I_ext, scf_set_pos. Qed.
Lemma I_reg_fail p x : GI x -> GI (reg_fail p x).
Proof. apply I_ext, scf_reg_fail. Qed.

Definition good (p0 : nat) (o : out) : Prop :=
  match o with
  | Ok _ x1 => GI x1 /\ covered p0 (pos x1)
  | Fail x1 => GI x1
  | Abort _ => True
  end.

Notation parser := (nat -> bool -> st -> out) (only parsing).
Definition recP (rec : parser) : Prop :=
  forall nid psq x p0, GI x -> covered p0 (pos x) -> good p0 (rec nid psq x).

Lemma match_pre_cov rec kf x p0 : GI x -> covered p0 (pos x) ->
  exists x1, match_pre g input rec kf x = Ok RNone x1 /\ GI x1 /\ covered p0 (pos x1).
Proof.
  intros (Hid & Hw & Hr) Hc. unfold match_pre, parse_comments, maybe_skip_ws, do_skip_ws. rewrite Hnc. cbv zeta.
  assert (Hsk : covered p0 (skip_ws_from (ws x) (skipn (pos x) input) (pos x))).
  { eapply cov_trans; [exact Hc | apply cov_skip; [exact Hw | reflexivity]]. }
  destruct (skipws x) eqn:Esk; simpl; rewrite ?Esk.
  - destruct (lookup _ (cpos x)) as [q|] eqn:EL.
    + apply Hid in EL. subst q. eexists; split; [reflexivity|]. simpl. split; [repeat split; assumption | exact Hsk].
    + destruct (in_cmt x); eexists; (split; [reflexivity|]); simpl; (split; [|exact Hsk]); repeat split; try assumption.
      apply cpos_id_upd, Hid.
  - destruct (in_cmt x); eexists; (split; [reflexivity|]); simpl; (split; [|exact Hc]); repeat split; try assumption.
    apply cpos_id_upd, Hid.
Qed.

Lemma term_parse_cov nid nd psq x p0 :
  In nd (g_nodes g) -> is_match_kind (n_kind nd) = true -> GI x -> covered p0 (pos x) ->
  good p0 (term_parse input orc nid (n_kind nd) psq x).
Proof.
  intros Hin EM HI Hc.
  assert (Hadv : forall len, tmatch input orc (n_kind nd) (pos x) = Some len -> covered p0 (pos x + len)).
  { intros len E. eapply cov_trans; [exact Hc|]. apply (cov_tok (pos x) len (pos x + len)); [exists nd; repeat split; assumption | apply cov_nil]. }
  assert (Hf : good p0 (nm_raise (pos x) x)) by (unfold nm_raise; simpl; apply I_reg_fail, HI).
  destruct (n_kind nd) as [| | | | | | | | | |t [o|]|o]; try discriminate; simpl in *.
  - destruct (Nat.eqb (length input) (pos x)); [split; assumption | exact Hf].
  - destruct (orc o (pos x)); [|exact Hf]. split; [apply I_set_pos, HI | apply Hadv; reflexivity].
  - destruct (is_prefix t (skipn (pos x) input)); [|exact Hf]. split; [apply I_set_pos, HI | apply Hadv; reflexivity].
  - destruct (orc o (pos x)) as [len|]; [|exact Hf]. destruct (Nat.eqb len 0).
    + split; assumption.
    + split; [apply I_set_pos, HI | apply Hadv; reflexivity].
Qed.

(* ---------------------------------------------------------------- loops *)
Lemma seq_loop_cov rec psq : recP rec -> forall kids acc x p0,
  GI x -> covered p0 (pos x) -> good p0 (seq_loop rec psq kids acc x).
Proof.
  intros HR kids; induction kids as [|c kids IH]; intros acc x p0 HI Hc; simpl; [split; assumption|].
  pose proof (HR c psq x p0 HI Hc) as H. destruct (rec c psq x) as [r x1|x1|w]; simpl in H; [|exact H|exact I].
  destruct H as [HI1 Hc1]. apply IH; assumption.
Qed.

Lemma choice_loop_cov rec : recP rec -> forall kids cp x p0,
  GI x -> covered p0 (pos x) -> covered p0 cp -> good p0 (choice_loop rec cp kids x).
Proof.
  intros HR kids; induction kids as [|c kids IH]; intros cp x p0 HI Hc Hcp; simpl; [split; assumption|].
  pose proof (HR c false x p0 HI Hc) as H. destruct (rec c false x) as [r x1|x1|w]; simpl in H; [| |exact I].
  - destruct H as [HI1 Hc1]. destruct (is_none r); [apply IH; assumption | split; assumption].
  - apply IH; [apply I_set_pos, H | exact Hcp | exact Hcp].
Qed.

Lemma rep_loop_cov rec e sep plus : recP rec -> forall kf first acc x p0,
  GI x -> covered p0 (pos x) -> good p0 (rep_loop rec e sep plus kf first acc x).
Proof.
  intros HR kf; induction kf as [|kf IH]; intros first acc x p0 HI Hc; simpl; [exact I|].
  assert (Helem : forall acc1 y, GI y -> covered p0 (pos y) ->
    good p0 (match rec e false y with
             | Ok r y2 => if truthy r then rep_loop rec e sep plus kf false (acc1 ++ [r]) y2 else Ok (RList acc1) y2
             | Fail y2 => if (plus && first)%bool then Fail (set_pos (pos x) y2) else Ok (RList acc1) (set_pos (pos x) y2)
             | Abort w => Abort w
             end)).
  { intros acc1 y HIy Hcy. pose proof (HR e false y p0 HIy Hcy) as H.
    destruct (rec e false y) as [r y1|y1|w]; simpl in H; [| |exact I].
    - destruct H as [HI1 Hc1]. destruct (truthy r); [apply IH; assumption | split; assumption].
    - destruct (plus && first)%bool; simpl; [apply I_set_pos, H | split; [apply I_set_pos, H | exact Hc]]. }
  destruct sep as [sp|]; [destruct first|]; try (apply Helem; assumption).
  pose proof (HR sp false x p0 HI Hc) as H. destruct (rec sp false x) as [r x1|x1|w]; simpl in H; [| |exact I].
  - destruct H as [HI1 Hc1]. apply Helem; assumption.
  - rewrite andb_false_r. simpl. split; [apply I_set_pos, H | exact Hc].
Qed.

Definition good_ugr (p0 : nat) (o : ugr) : Prop :=
  match o with
  | UGHit _ _ x1 => GI x1 /\ covered p0 (pos x1)
  | UGNone _ x1 => GI x1
  | UGAbort _ => True
  end.

Lemma ug_try_cov rec sf : recP rec -> forall todo cl mt x p0,
  GI x -> covered p0 (pos x) -> covered p0 cl -> good_ugr p0 (ug_try rec sf cl todo mt x).
Proof.
  intros HR todo; induction todo as [|e rest IH]; intros cl mt x p0 HI Hc Hcl; simpl; [exact HI|].
  pose proof (HR e false x p0 HI Hc) as H. destruct (rec e false x) as [r x1|x1|w]; simpl in H; [| |exact I].
  - destruct H as [HI1 Hc1]. destruct (truthy r).
    + destruct sf; [apply IH; [apply I_set_pos, HI1 | exact Hcl | exact Hcl] | split; assumption].
    + apply IH; assumption.
  - apply IH; [apply I_set_pos, H | exact Hcl | exact Hcl].
Qed.

Definition good_ugo (p0 : nat) (o : ugo) : Prop :=
  match o with
  | UGDone mt _ x1 => GI x1 /\ (mt = true -> covered p0 (pos x1))
  | UGOAbort _ => True
  end.

Lemma ug_loop_cov rec sep : recP rec -> forall nf todo first sr acc x p0,
  GI x -> covered p0 (pos x) -> good_ugo p0 (ug_loop rec sep nf todo first sr acc x).
Proof.
  intros HR nf; induction nf as [|nf IH]; intros todo first sr acc x p0 HI Hc;
    destruct todo as [|t0 todo0]; try (simpl; split; [exact HI | intros _; exact Hc]); [exact I|].
  cbn [ug_loop]. set (todo := t0 :: todo0) in *.
  assert (Hcont : forall sf sr1 y, GI y -> covered p0 (pos y) ->
    good_ugo p0
      (match ug_try rec sf (pos y) todo true y with
       | UGHit e r y2 => ug_loop rec sep nf (remove_first e todo) false sr1
                                 ((if truthy sr1 then acc ++ [sr1] else acc) ++ [r]) y2
       | UGNone mt y2 => UGDone mt acc (set_pos (pos x) y2)
       | UGAbort w => UGOAbort w
       end)).
  { intros sf sr1 y HIy Hcy. pose proof (ug_try_cov rec sf HR todo (pos y) true y p0 HIy Hcy Hcy) as H.
    destruct (ug_try rec sf (pos y) todo true y) as [e r y1|mt y1|w]; simpl in H; [| |exact I].
    - destruct H as [HI1 Hc1]. apply IH; assumption.
    - simpl. split; [apply I_set_pos, H | intros _; exact Hc]. }
  destruct sep as [sp|]; [destruct first|]; try (apply Hcont; assumption).
  pose proof (HR sp false x p0 HI Hc) as H. destruct (rec sp false x) as [r x1|x1|w]; simpl in H; [| |exact I].
  - destruct H as [HI1 Hc1]. apply Hcont; assumption.
  - apply Hcont; [apply I_set_pos, H | exact Hc].
Qed.

(* ---------------------------------------------------------------- modes *)
Lemma sub_node_ws nd w : In nd (g_nodes g) -> n_ws nd = Some w -> sub w.
Proof.
  intros Hin E c Hc. apply In_inw. unfold W, all_ws. apply in_or_app. right.
  apply in_flat_map. exists nd. split; [exact Hin | rewrite E; exact Hc].
Qed.

Lemma I_set_ws w x : sub w -> GI x -> GI (set_ws w x).
Proof.
  intros Hw (A & B & C). unfold GI. simpl. split; [exact A|]. split; [|exact Hw].
  destruct (eolterm x); [apply sub_strip, Hw | exact Hw].
Qed.
Lemma I_set_skipws v x : GI x -> GI (set_skipws v x).
Proof. unfold GI. simpl. tauto. Qed.
Lemma I_set_eolterm v x : GI x -> GI (set_eolterm v x).
Proof.
  intros (A & B & C). unfold GI. simpl. split; [exact A|]. split; [|exact C].
  destruct v; [apply sub_strip, B | exact C].
Qed.

Lemma I_enter_ws nd x : In nd (g_nodes g) -> GI x -> GI (enter_ws nd x).
Proof.
  intros Hin HI. unfold enter_ws.
  assert (H1 : GI (match n_ws nd with Some w => set_ws w x | None => x end)).
  { destruct (n_ws nd) as [w|] eqn:E; [apply I_set_ws; [eapply sub_node_ws; eauto | exact HI] | exact HI]. }
  destruct (n_skipws nd); [apply I_set_skipws, H1 | exact H1].
Qed.
Lemma I_leave_ws nd old x : GI old -> GI x -> GI (leave_ws nd old x).
Proof.
  intros Ho HI. unfold leave_ws.
  assert (H1 : GI (match n_ws nd with Some _ => set_ws (ws old) x | None => x end)).
  { destruct (n_ws nd); [apply I_set_ws; [apply Ho | exact HI] | exact HI]. }
  destruct (n_skipws nd); [apply I_set_skipws, H1 | exact H1].
Qed.
Lemma I_enter_eol nd x : GI x -> GI (enter_eol nd x).
Proof. intro H. unfold enter_eol. destruct (n_eolterm nd); [apply I_set_eolterm, H | exact H]. Qed.
Lemma I_leave_eol nd old x : GI x -> GI (leave_eol nd old x).
Proof. intro H. unfold leave_eol. destruct (n_eolterm nd); [apply I_set_eolterm, H | exact H]. Qed.

(* ---------------------------------------------------------------- body, parse *)
Lemma body_cov rec kf nd : recP rec -> In nd (g_nodes g) -> forall x p0,
  GI x -> covered p0 (pos x) -> good p0 (body rec kf nd x).
Proof.
  intros HR Hin x p0 HI Hc. unfold body. destruct (n_kind nd) eqn:EK; try exact I.
  - pose proof (seq_loop_cov rec true HR (n_kids nd) [] (enter_ws nd x) p0 (I_enter_ws nd x Hin HI)) as H.
    rewrite pos_enter_ws in H. specialize (H Hc).
    destruct (seq_loop rec true (n_kids nd) [] (enter_ws nd x)) as [r x1|x1|w]; simpl in H; [| |exact I].
    + destruct H as [HI1 Hc1].
      destruct r as [|t|[|r0 l]]; simpl; (split; [apply I_leave_ws; assumption | rewrite pos_leave_ws; exact Hc1]).
    + simpl. apply I_leave_ws; [exact HI | apply I_set_pos, H].
  - pose proof (choice_loop_cov rec HR (n_kids nd) (pos x) (enter_ws nd x) p0 (I_enter_ws nd x Hin HI)) as H.
    rewrite pos_enter_ws in H. specialize (H Hc Hc).
    destruct (choice_loop rec (pos x) (n_kids nd) (enter_ws nd x)) as [r x1|x1|w]; simpl in H; [| |exact I].
    + destruct H as [HI1 Hc1]. destruct (is_none r).
      * unfold nm_raise. simpl. apply I_reg_fail, I_leave_ws; assumption.
      * simpl. split; [apply I_leave_ws; assumption | rewrite pos_leave_ws; exact Hc1].
    + exact H.
  - destruct (n_kids nd) as [|e kids]; [exact I|].
    pose proof (HR e false x p0 HI Hc) as H. destruct (rec e false x) as [r x1|x1|w]; simpl in H; [| |exact I].
    + exact H.
    + simpl. split; [apply I_set_pos, H | exact Hc].
  - destruct (n_kids nd) as [|e kids]; [exact I|].
    pose proof (rep_loop_cov rec e (n_sep nd) false HR kf true [] (enter_eol nd x) p0 (I_enter_eol nd x HI)) as H.
    rewrite pos_enter_eol in H. specialize (H Hc).
    destruct (rep_loop rec e (n_sep nd) false kf true [] (enter_eol nd x)) as [r x1|x1|w]; simpl in H; [| |exact I].
    + destruct H as [HI1 Hc1]. simpl. split; [apply I_leave_eol, HI1 | rewrite pos_leave_eol; exact Hc1].
    + simpl. apply I_leave_eol, H.
  - destruct (n_kids nd) as [|e kids]; [exact I|].
    pose proof (rep_loop_cov rec e (n_sep nd) true HR kf true [] (enter_eol nd x) p0 (I_enter_eol nd x HI)) as H.
    rewrite pos_enter_eol in H. specialize (H Hc).
    destruct (rep_loop rec e (n_sep nd) true kf true [] (enter_eol nd x)) as [r x1|x1|w]; simpl in H; [| |exact I].
    + destruct H as [HI1 Hc1]. simpl. split; [apply I_leave_eol, HI1 | rewrite pos_leave_eol; exact Hc1].
    + simpl. apply I_leave_eol, H.
  - destruct (n_kids nd) as [|e0 kids0] eqn:EKids; [exact I|]. rewrite <- EKids.
    pose proof (ug_loop_cov rec (n_sep nd) HR (S (length (n_kids nd))) (n_kids nd) true RNone [] (enter_eol nd x) p0
                            (I_enter_eol nd x HI)) as H.
    rewrite pos_enter_eol in H. specialize (H Hc).
    destruct (ug_loop rec (n_sep nd) (S (length (n_kids nd))) (n_kids nd) true RNone [] (enter_eol nd x)) as [mt acc x1|w];
      simpl in H; [|exact I].
    destruct H as [HI1 Hc1]. destruct mt.
    + simpl. split; [apply I_leave_eol, HI1 | rewrite pos_leave_eol; apply Hc1; reflexivity].
    + unfold nm_raise. simpl. apply I_reg_fail, I_set_pos, I_leave_eol, HI1.
  - pose proof (seq_loop_cov rec false HR (n_kids nd) [] x p0 HI Hc) as H.
    destruct (seq_loop rec false (n_kids nd) [] x) as [r x1|x1|w]; simpl in H; [| |exact I].
    + simpl. split; [apply I_set_pos, H | exact Hc].
    + simpl. apply I_set_pos, H.
  - pose proof (seq_loop_cov rec false HR (n_kids nd) [] x p0 HI Hc) as H.
    destruct (seq_loop rec false (n_kids nd) [] x) as [r x1|x1|w]; simpl in H; [| |exact I].
    + unfold nm_raise. simpl. apply I_reg_fail, I_set_pos, H.
    + simpl. split; [apply I_set_pos, H | exact Hc].
  - simpl. split; assumption.
Qed.

Lemma parse_cov : forall fuel, recP (parse g input orc false fuel).
Proof.
  intro fuel; induction fuel as [|f IH]; intros nid psq x p0 HI Hc; simpl; [exact I|].
  destruct (get_node g nid) as [nd|] eqn:EN; [|exact I].
  assert (Hin : In nd (g_nodes g)) by (unfold get_node in EN; eapply nth_error_In; exact EN).
  destruct (is_match_kind (n_kind nd)) eqn:EM.
  - destruct (match_pre_cov (parse g input orc false f) f x p0 HI Hc) as (x1 & E & HI1 & Hc1). rewrite E.
    pose proof (term_parse_cov nid nd psq x1 p0 Hin EM HI1 Hc1) as H.
    destruct (term_parse input orc nid (n_kind nd) psq x1) as [r x2|x2|w]; simpl in H; [exact H | exact H | exact I].
  - pose proof (body_cov (parse g input orc false f) f nd IH Hin x p0 HI Hc) as H.
    destruct (body (parse g input orc false f) f nd x) as [r x1|x1|w]; simpl in H; [exact H | | exact I].
    simpl. apply I_set_pos, H.
Qed.

End Gap.

Lemma seq_loop_last rec psq c : forall kids acc x r x1,
  seq_loop rec psq (kids ++ [c]) acc x = Ok r x1 -> exists y r0, rec c psq y = Ok r0 x1.
Proof.
  intros kids; induction kids as [|k0 kids IH]; intros acc x r x1; simpl.
  - destruct (rec c psq x) as [r0 y1|y1|w] eqn:E; try discriminate. intro H. injection H as _ <-. eauto.
  - destruct (rec k0 psq x) as [r0 y1|y1|w]; try discriminate. apply IH.
Qed.

Lemma parse_top_end g input orc fuel x r x1 :
  top_eof g = true ->
  parse g input orc false fuel (g_top g) false x = Ok r x1 -> pos x1 = length input.
Proof.
  unfold top_eof. intros Ht E. destruct fuel as [|f]; [discriminate|]. simpl in E.
  destruct (get_node g (g_top g)) as [nd|]; [|discriminate].
  destruct (n_kind nd) eqn:EK; try discriminate. simpl in E. unfold body in E. rewrite EK in E.
  destruct (rev (n_kids nd)) as [|c l] eqn:ER; [discriminate|].
  assert (EKids : n_kids nd = rev l ++ [c]) by (rewrite <- (rev_involutive (n_kids nd)), ER; reflexivity).
  rewrite EKids in E.
  destruct (seq_loop (parse g input orc false f) true (rev l ++ [c]) [] (enter_ws nd x)) as [r1 y1|y1|w] eqn:ES;
    try discriminate.
  assert (Epos : pos x1 = pos y1).
  { destruct r1 as [|t|[|r0 l0]]; injection E as _ <-; apply pos_leave_ws. }
  rewrite Epos. apply seq_loop_last in ES as (y & r0 & EP).
  destruct (get_node g c) as [ndc|] eqn:EC; [|discriminate]. destruct (n_kind ndc) eqn:EKc; try discriminate.
  destruct f as [|f']; [discriminate|]. simpl in EP. rewrite EC, EKc in EP. simpl in EP.
  destruct (match_pre g input (parse g input orc false f') f' y) as [r2 y2|y2|w]; try discriminate.
  simpl in EP. destruct (Nat.eqb (length input) (pos y2)) eqn:EQ; [|discriminate].
  apply Nat.eqb_eq in EQ. destruct (n_suppress ndc); injection EP as _ <-; symmetry; exact EQ.
Qed.

(* an accepted input is tiled, from 0 to its end, by characters of the whitespace sets and matches of
   terminals of the grammar: nothing else is ever skipped *)
Theorem accepted_is_covered g cfg orc fuel input r :
  g_comments g = None -> top_eof g = true ->
  run g cfg orc false fuel input = Parsed r ->
  covered g cfg input orc 0 (length input).
Proof.
  intros Hnc Ht E. unfold run in E.
  assert (HI : GI g cfg (init_st cfg)).
  { unfold GI, init_st; simpl. split; [intros p q H; discriminate H|].
    assert (Hs : sub g cfg (c_ws cfg)).
    { intros c Hc. apply In_inw. unfold all_ws. apply in_or_app. left. exact Hc. }
    split; exact Hs. }
  pose proof (parse_cov g cfg input orc Hnc fuel (g_top g) false (init_st cfg) 0 HI (cov_nil g cfg input orc 0)) as H.
  destruct (parse g input orc false fuel (g_top g) false (init_st cfg)) as [r1 x1|x1|w] eqn:EP; try discriminate.
  rewrite <- (parse_top_end g input orc fuel _ _ _ Ht EP). apply H.
Qed.

(* with a single whitespace mode (no rule-level ws) the tiling uses the configured set only *)
Lemma all_ws_constant g cfg :
  forallb (fun nd => match n_ws nd with None => true | Some _ => false end) (g_nodes g) = true ->
  all_ws g cfg = c_ws cfg.
Proof.
  intro H. unfold all_ws. rewrite forallb_forall in H.
  assert (E : flat_map (fun nd => match n_ws nd with Some w => w | None => [] end) (g_nodes g) = []).
  { induction (g_nodes g) as [|nd l IH]; [reflexivity|]. simpl.
    pose proof (H nd (or_introl eq_refl)) as Hn. destruct (n_ws nd); [discriminate|]. simpl.
    apply IH. intros x Hx. apply H. right. exact Hx. }
  rewrite E. apply app_nil_r.
Qed.

Lemma parse_moves_over_tiles g cfg input orc : g_comments g = None ->
  forall fuel nid psq x p0 r x1,
    GI g cfg x -> covered g cfg input orc p0 (pos x) ->
    parse g input orc false fuel nid psq x = Ok r x1 ->
    GI g cfg x1 /\ covered g cfg input orc p0 (pos x1).
Proof.
  intros Hnc fuel nid psq x p0 r x1 HI Hc E.
  pose proof (parse_cov g cfg input orc Hnc fuel nid psq x p0 HI Hc) as H. rewrite E in H. exact H.
Qed.
