From Coq Require Import Sorting.Sorted Permutation.
From TxV Require Import Core.Base Gen.SrcResolve Model.Resolve.

(* ================================================================ C08: list attributes keep textual order.
   This file depends on exactly two facts of Gen/SrcResolve.v (read from textx/model.py):
     - list_store_by_position: a resolved list reference is inserted by its text position;
     - error_condition: the load fails whenever a reference is left unresolved (only for the
       "every reference is resolved" part of order_preserved).
   Everything is proved directly on step / round / loop of Model/Resolve.v, for ANY value of the
   other facts (at which end Postponed references are re-queued or reported, what counts as
   progress, the loop condition). *)
Lemma fact_list_store : list_store_by_position = true. Proof. reflexivity. Qed.
Lemma fact_error : error_condition = (true, 0). Proof. reflexivity. Qed.

Lemma store_list_eq p t l : store_list p t l = insert_pos p t l.
Proof. unfold store_list. rewrite fact_list_store. reflexivity. Qed.

Lemma carry_perm f x l : Permutation (carry f x l) (x :: l).
Proof. unfold carry. destruct f; [|reflexivity]. symmetry. apply Permutation_cons_append. Qed.

Lemma holds_unresolved u c : holds u c (true, 0) = Nat.ltb 0 u.
Proof. reflexivity. Qed.

(* the proofs below must not look at the other facts: keep their carriers folded *)
Opaque carry counted holds.

Section Order.
  Variable all : list xref.
  Hypothesis ids_unique : NoDup (map xid all).
  Definition inslot (s : nat) (x : xref) : bool := (Nat.eqb (xslot x) s && xmany x)%bool.
  Hypothesis slots_sorted : forall s, StronglySorted lt (map xpos (filter (inslot s) all)).

  Definition resolved (st : state) (x : xref) : bool := is_some (tgt st (xid x)).
  Definition val (st : state) (x : xref) : nat := match tgt st (xid x) with Some t => t | None => 0 end.
  Definition entry (st : state) (x : xref) : nat * nat := (xpos x, val st x).
  Definition expected (st : state) (s : nat) : list (nat * nat) :=
    map (entry st) (filter (fun x => (inslot s x && resolved st x)%bool) all).

  Definition Inv (st : state) (pend : list xref) : Prop :=
    (forall s, lists st s = expected st s) /\
    (forall x, In x pend -> In x all /\ tgt st (xid x) = None) /\
    (forall x, In x all -> tgt st (xid x) = None -> In x pend).

  Lemma Inv_perm st p q : (forall x, In x p <-> In x q) -> Inv st p -> Inv st q.
  Proof.
    intros E [I1 [I2 I3]]. split; [exact I1|]. split.
    - intros x Hx. apply I2. apply E. exact Hx.
    - intros x Hx Ht. apply E. apply I3; assumption.
  Qed.

  Lemma same_id_same_ref x y : In x all -> In y all -> xid x = xid y -> x = y.
  Proof.
    clear slots_sorted. revert ids_unique. induction all as [|a l IH]; intros ND Hx Hy E; [destruct Hx|].
    cbn [map] in ND. inversion ND as [|? ? Hn ND']; subst.
    destruct Hx as [Hx|Hx], Hy as [Hy|Hy]; subst.
    - reflexivity.
    - exfalso. apply Hn. rewrite E. apply in_map. exact Hy.
    - exfalso. apply Hn. rewrite <- E. apply in_map. exact Hx.
    - apply IH; assumption.
  Qed.

  Lemma insert_front p t l : (forall q v, In (q, v) l -> p < q) -> insert_pos p t l = (p, t) :: l.
  Proof.
    destruct l as [|[q v] l]; intro H; [reflexivity|]. cbn [insert_pos].
    assert (p < q) as Hpq by (apply (H q v); left; reflexivity).
    apply Nat.ltb_lt in Hpq. rewrite Hpq. reflexivity.
  Qed.

  (* the heart of C08: inserting the newly resolved reference by position gives exactly the
     resolved references of the slot in textual order *)
  Lemma insert_expected st x t s :
    In x all -> tgt st (xid x) = None -> inslot s x = true ->
    insert_pos (xpos x) t (expected st s) = expected (store x t (bump x st)) s.
  Proof.
    intros Hx Hn Hs. unfold expected.
    set (st1 := store x t (bump x st)).
    assert (Hres : forall y, In y all -> resolved st1 y = (resolved st y || Nat.eqb (xid y) (xid x))%bool).
    { intros y _. unfold resolved, st1. cbn [tgt store bump].
      destruct (Nat.eqb (xid y) (xid x)); [rewrite orb_true_r | rewrite orb_false_r]; reflexivity. }
    assert (Hval : forall y, xid y <> xid x -> entry st1 y = entry st y).
    { intros y Hy. unfold entry, val, st1. cbn [tgt store bump].
      apply Nat.eqb_neq in Hy. rewrite Hy. reflexivity. }
    assert (Hvx : entry st1 x = (xpos x, t)).
    { unfold entry, val, st1. cbn [tgt store bump]. rewrite Nat.eqb_refl. reflexivity. }
    clearbody st1.
    pose proof (slots_sorted s) as Hsort. pose proof ids_unique as ND.
    revert Hx Hsort ND Hres. generalize all as l. induction l as [|y l IH]; intros Hx Hsort ND Hres; [destruct Hx|].
    cbn [map] in ND. inversion ND as [|? ? Hny ND']; subst.
    destruct Hx as [Hx|Hx].
    - (* y = x : not yet resolved, now resolved; everything after it in the slot lies further right *)
      subst y. cbn [filter]. rewrite Hs. cbn [andb].
      assert (Hrx : resolved st x = false) by (unfold resolved; rewrite Hn; reflexivity).
      rewrite Hrx. rewrite (Hres x (or_introl eq_refl)), Nat.eqb_refl, orb_true_r. cbn [map]. rewrite Hvx.
      assert (Hsame : forall z, In z l -> xid z <> xid x).
      { intros z Hz E. apply Hny. rewrite <- E. apply in_map. exact Hz. }
      assert (Hf : filter (fun z => (inslot s z && resolved st1 z)%bool) l = filter (fun z => (inslot s z && resolved st z)%bool) l).
      { apply filter_ext_in. intros z Hz. rewrite (Hres z (or_intror Hz)).
        pose proof (Hsame z Hz) as E. apply Nat.eqb_neq in E. rewrite E, orb_false_r. reflexivity. }
      rewrite Hf.
      assert (Hm : map (entry st1) (filter (fun z => (inslot s z && resolved st z)%bool) l)
                   = map (entry st) (filter (fun z => (inslot s z && resolved st z)%bool) l)).
      { apply map_ext_in. intros z Hz. apply filter_In in Hz as [Hz _]. apply Hval. apply Hsame. exact Hz. }
      rewrite Hm. apply insert_front.
      intros q v Hq. apply in_map_iff in Hq as [z [Ez Hz]]. inversion Ez; subst. apply filter_In in Hz as [Hz Hp].
      apply andb_true_iff in Hp as [Hp _].
      cbn [filter] in Hsort. rewrite Hs in Hsort. cbn [map] in Hsort.
      apply StronglySorted_inv in Hsort as [_ Hall]. rewrite Forall_forall in Hall.
      apply Hall. apply in_map. apply filter_In. split; assumption.
    - (* x is further down *)
      assert (Hyx : xid y <> xid x) by (intro E; apply Hny; rewrite E; apply in_map; exact Hx).
      pose proof Hyx as Hyx'. apply Nat.eqb_neq in Hyx'.
      cbn [filter]. rewrite (Hres y (or_introl eq_refl)), Hyx', orb_false_r.
      assert (Hsort' : StronglySorted lt (map xpos (filter (inslot s) l))).
      { cbn [filter] in Hsort. destruct (inslot s y); [cbn [map] in Hsort; apply StronglySorted_inv in Hsort as [H _]; exact H | exact Hsort]. }
      assert (Hres' : forall z, In z l -> resolved st1 z = (resolved st z || Nat.eqb (xid z) (xid x))%bool).
      { intros z Hz. apply Hres. right. exact Hz. }
      destruct (inslot s y && resolved st y)%bool eqn:Hp.
      + cbn [map insert_pos]. rewrite (Hval y Hyx). unfold entry at 1. cbn [insert_pos].
        assert (Hlt : xpos y < xpos x).
        { apply andb_true_iff in Hp as [Hp _]. cbn [filter] in Hsort. rewrite Hp in Hsort. cbn [map] in Hsort.
          apply StronglySorted_inv in Hsort as [_ Hall]. rewrite Forall_forall in Hall.
          apply Hall. apply in_map. apply filter_In. split; assumption. }
        assert (Hnlt : Nat.ltb (xpos x) (xpos y) = false) by (apply Nat.ltb_ge; lia).
        rewrite Hnlt. f_equal. apply IH; assumption.
      + apply IH; assumption.
  Qed.

  (* a reference of another slot (or a scalar) leaves the list untouched *)
  Lemma other_expected st x t s :
    In x all -> tgt st (xid x) = None -> inslot s x = false ->
    expected st s = expected (store x t (bump x st)) s.
  Proof.
    intros Hx Hn Hs. unfold expected.
    assert (Hf : filter (fun z => (inslot s z && resolved (store x t (bump x st)) z)%bool) all
                 = filter (fun z => (inslot s z && resolved st z)%bool) all).
    { apply filter_ext_in. intros z Hz. unfold resolved. cbn [tgt store bump].
      destruct (Nat.eqb (xid z) (xid x)) eqn:E; [|reflexivity].
      apply Nat.eqb_eq in E. rewrite (same_id_same_ref z x Hz Hx E), Hs. reflexivity. }
    rewrite Hf. apply map_ext_in. intros z Hz. apply filter_In in Hz as [Hz Hp].
    unfold entry, val. cbn [tgt store bump].
    destruct (Nat.eqb (xid z) (xid x)) eqn:E; [|reflexivity].
    apply Nat.eqb_eq in E. rewrite (same_id_same_ref z x Hz Hx E), Hs in Hp. discriminate.
  Qed.

  Lemma Inv_store st x t pend :
    Inv st (x :: pend) -> ~ In x pend -> Inv (store x t (bump x st)) pend.
  Proof.
    intros [I1 [I2 I3]] Hnin.
    destruct (I2 x (or_introl eq_refl)) as [Hx Hn].
    split; [|split].
    - intro s. cbn [lists store bump]. rewrite I1.
      destruct (Nat.eqb s (xslot x) && xmany x)%bool eqn:E.
      + rewrite store_list_eq. apply insert_expected; try assumption. unfold inslot.
        apply andb_true_iff in E as [E1 E2]. apply Nat.eqb_eq in E1. subst s. rewrite Nat.eqb_refl, E2. reflexivity.
      + apply other_expected; try assumption. unfold inslot. rewrite Nat.eqb_sym. exact E.
    - intros y Hy. destruct (I2 y (or_intror Hy)) as [Hya Hyn]. split; [exact Hya|].
      cbn [tgt store bump]. destruct (Nat.eqb (xid y) (xid x)) eqn:E; [|exact Hyn].
      apply Nat.eqb_eq in E. exfalso. apply Hnin. rewrite <- (same_id_same_ref y x Hya Hx E). exact Hy.
    - intros y Hya Hyn. cbn [tgt store bump] in Hyn.
      destruct (Nat.eqb (xid y) (xid x)) eqn:E; [discriminate|].
      destruct (I3 y Hya Hyn) as [Hy|Hy]; [|exact Hy].
      subst y. rewrite Nat.eqb_refl in E. discriminate.
  Qed.

  Lemma Inv_bump st x pend : Inv st pend -> Inv (bump x st) pend.
  Proof. intros [I1 [I2 I3]]. split; [|split]; assumption. Qed.

  (* one pass, whatever the provider answers and wherever Postponed references are put back *)
  Lemma step_Inv ans : forall pend st others st' np d c,
    step ans pend st = Some (st', np, d, c) -> NoDup (pend ++ others) -> Inv st (pend ++ others) ->
    Inv st' (np ++ others) /\ NoDup (np ++ others) /\ Permutation d np.
  Proof.
    induction pend as [|x r IH]; intros st others st' np d c H ND HI; cbn [step] in H.
    - inversion H; subst. split; [exact HI | split; [exact ND | constructor]].
    - cbn [app] in ND. inversion ND as [|? ? Hnin ND']; subst.
      destruct (ans x st) as [t| |]; [| |discriminate].
      + destruct (step ans r _) as [[[[st1 np1] d1] c1]|] eqn:E; [|discriminate].
        injection H as Hst Hnp Hd Hc; subst st' np d c.
        apply (IH _ others _ _ _ _ E ND'). apply Inv_store; assumption.
      + destruct (step ans r _) as [[[[st1 np1] d1] c1]|] eqn:E; [|discriminate].
        injection H as Hst Hnp Hd Hc; subst st' np d c.
        assert (ND3 : NoDup (r ++ x :: others)).
        { apply (Permutation_NoDup (l := x :: r ++ others)); [|exact ND]. apply Permutation_middle. }
        assert (HI3 : Inv (bump x st) (r ++ x :: others)).
        { apply Inv_bump. apply (Inv_perm st ((x :: r) ++ others)); [|exact HI].
          intro y. cbn [app]. rewrite !in_app_iff. cbn [In]. rewrite in_app_iff. tauto. }
        destruct (IH (bump x st) (x :: others) _ _ _ _ E ND3 HI3) as [HI' [ND'' P]].
        assert (Pm : Permutation (np1 ++ x :: others) (carry postponed_requeued_at_front x np1 ++ others)).
        { apply (Permutation_trans (l' := (x :: np1) ++ others)).
          - symmetry. apply Permutation_middle.
          - apply Permutation_app_tail. symmetry. apply carry_perm. }
        split; [|split].
        * apply (Inv_perm st1 (np1 ++ x :: others)); [|exact HI'].
          intro y. split; apply Permutation_in; [exact Pm | symmetry; exact Pm].
        * exact (Permutation_NoDup Pm ND'').
        * apply (Permutation_trans (carry_perm _ x d1)). apply (Permutation_trans (l' := x :: np1)).
          -- apply perm_skip. exact P.
          -- symmetry. apply carry_perm.
  Qed.

  Lemma round_Inv ans : forall models st others st' pends dels c,
    round ans models st = Some (st', pends, dels, c) ->
    NoDup (concat models ++ others) -> Inv st (concat models ++ others) ->
    Inv st' (concat pends ++ others) /\ NoDup (concat pends ++ others) /\ Permutation (concat dels) (concat pends).
  Proof.
    induction models as [|m ms IH]; intros st others st' pends dels c H ND HI; cbn [round] in H.
    - inversion H; subst. split; [exact HI | split; [exact ND | constructor]].
    - destruct (step ans m st) as [[[[st1 np] d] c1]|] eqn:E1; [|discriminate].
      destruct (round ans ms st1) as [[[[st2 nps] ds] c2]|] eqn:E2; [|discriminate].
      injection H as Hst Hnp Hd Hc; subst st' pends dels c.
      cbn [concat] in *. rewrite <- app_assoc in ND, HI.
      destruct (step_Inv ans m st (concat ms ++ others) _ _ _ _ E1 ND HI) as [HI1 [ND1 P1d]].
      assert (P1 : Permutation (np ++ concat ms ++ others) (concat ms ++ np ++ others)).
      { rewrite !app_assoc. apply Permutation_app_tail. apply Permutation_app_comm. }
      destruct (IH st1 (np ++ others) _ _ _ _ E2) as [HI2 [ND2 P2d]].
      + apply (Permutation_NoDup P1 ND1).
      + apply (Inv_perm st1 (np ++ concat ms ++ others)); [|exact HI1].
        intro y. split; apply Permutation_in; [exact P1 | apply Permutation_sym; exact P1].
      + assert (P2 : Permutation (concat nps ++ np ++ others) ((np ++ concat nps) ++ others)).
        { rewrite !app_assoc. apply Permutation_app_tail. apply Permutation_app_comm. }
        split; [|split].
        * apply (Inv_perm st2 (concat nps ++ np ++ others)); [|exact HI2].
          intro y. split; apply Permutation_in; [exact P2 | apply Permutation_sym; exact P2].
        * apply (Permutation_NoDup P2 ND2).
        * apply Permutation_app; assumption.
  Qed.

  Lemma loop_Inv ans : forall fuel models st,
    NoDup (concat models) -> Inv st (concat models) ->
    match loop fuel ans models st with
    | Ok st' => exists rest, Inv st' rest /\ (error_condition = (true, 0) -> rest = [])
    | Unresolvable lf st' => Inv st' (concat lf)
    | _ => True
    end.
  Proof.
    induction fuel as [|f IH]; intros models st ND HI; cbn [loop]; [exact I|].
    destruct (round ans models st) as [[[[st' pends] dels] c]|] eqn:E; [|exact I].
    destruct (round_Inv ans models st [] _ _ _ _ E) as [HI' [ND' P]]; rewrite ?app_nil_r; try assumption.
    rewrite app_nil_r in HI', ND'.
    destruct (forallb (holds (total dels) c) loop_condition).
    - apply IH; assumption.
    - destruct (holds (total dels) c error_condition) eqn:Eh.
      + apply (Inv_perm st' (concat pends)); [|exact HI'].
        intro y. split; apply Permutation_in; [symmetry; exact P | exact P].
      + exists (concat pends). split; [exact HI'|]. intro He. rewrite He, holds_unresolved in Eh.
        apply Nat.ltb_ge in Eh. unfold total in Eh.
        destruct (concat dels) as [|y l] eqn:Ed; [|cbn [length] in Eh; lia].
        apply Permutation_nil in P. exact P.
  Qed.

  Lemma filter_init (l : list xref) s : filter (fun x => (inslot s x && resolved init x)%bool) l = [].
  Proof.
    clear. induction l as [|a l IHl]; [reflexivity|]. cbn [filter]. unfold resolved at 1. cbn [tgt init is_some].
    rewrite andb_false_r. exact IHl.
  Qed.

  Lemma Inv_init models : concat models = all -> Inv init (concat models).
  Proof.
    intro E. rewrite E. split; [|split].
    - intro s. unfold expected. rewrite filter_init. reflexivity.
    - intros x Hx. split; [exact Hx | reflexivity].
    - intros x Hx _. exact Hx.
  Qed.
End Order.

(* the list attributes hold the targets of the references resolved so far, in textual order,
   whenever the load ends (successfully or with the Unresolvable error): needs only
   list_store_by_position *)
Theorem order_always : forall ans models st,
  NoDup (map xid (concat models)) ->
  (forall s, StronglySorted lt (map xpos (filter (inslot s) (concat models)))) ->
  (load ans models = Ok st \/ exists lf, load ans models = Unresolvable lf st) ->
  forall s, lists st s = map (entry st) (filter (fun x => (inslot s x && resolved st x)%bool) (concat models)).
Proof.
  intros ans models st ND Hs H s.
  pose proof (loop_Inv (concat models) ND Hs ans (S (total models)) models init) as L.
  unfold load in H. destruct H as [H|[lf H]]; rewrite H in L.
  - destruct L as [rest [[I1 _] _]]; [apply (NoDup_map_inv _ _ ND) | apply Inv_init; reflexivity |]. apply I1.
  - destruct L as [I1 _]; [apply (NoDup_map_inv _ _ ND) | apply Inv_init; reflexivity |]. apply I1.
Qed.

(* For every provider (every postponement schedule) a successful load leaves in each list
   attribute exactly its references' targets, in the textual order of the references. *)
Theorem order_preserved : forall ans models st,
  NoDup (map xid (concat models)) ->
  (forall s, StronglySorted lt (map xpos (filter (inslot s) (concat models)))) ->
  load ans models = Ok st ->
  (forall x, In x (concat models) -> tgt st (xid x) <> None) /\
  (forall s, lists st s = map (entry st) (filter (inslot s) (concat models))).
Proof.
  intros ans models st ND Hs H.
  pose proof (loop_Inv (concat models) ND Hs ans (S (total models)) models init) as L.
  unfold load in H. rewrite H in L.
  destruct L as [rest [[I1 [I2 I3]] Hrest]]; [apply (NoDup_map_inv _ _ ND) | apply Inv_init; reflexivity |].
  rewrite (Hrest fact_error) in I3.
  assert (Hall : forall x, In x (concat models) -> tgt st (xid x) <> None).
  { intros x Hx Hn. apply (I3 x Hx Hn). }
  split; [exact Hall|].
  intro s. rewrite I1. unfold expected. f_equal. apply filter_ext_in. intros x Hx.
  unfold resolved. specialize (Hall x Hx). destruct (tgt st (xid x)); [|congruence]. cbn. apply andb_true_r.
Qed.

Transparent carry counted holds.
