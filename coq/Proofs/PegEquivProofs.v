(* Soundness of the equivalence checker Model/PegEquiv.v against the interpreter Model/Peg.v
   (memoization off): if every pair of R passes its local check (or is semantically related by
   hypothesis), the two grammars give related outcomes on every input, for every oracle. *)
From TxV Require Import Core.Base Model.PegSyntax Model.Peg Proofs.PegProofs Proofs.PegMemo Model.PegEquiv.

(* ---------------------------------------------------------------- values *)
Definition tt (r : res) : Prop := truthy r = true /\ flatten r <> [].
Definition good (r : res) : Prop := truthy r = true -> flatten r <> [].
Definition fnn (r : res) : Prop := truthy r = false -> r = RNone.
Definition vrel (c : bool) (r1 r2 : res) : Prop :=
  good r1 /\ good r2 /\ truthy r1 = truthy r2 /\ (c = true -> is_none r1 = is_none r2).

Lemma tt_good r : tt r -> good r.
Proof. intros [_ H] _. exact H. Qed.

Lemma tt_not_none r : truthy r = true -> is_none r = false.
Proof. destruct r; simpl; congruence. Qed.

Lemma vrel_tt c r1 r2 : tt r1 -> tt r2 -> vrel c r1 r2.
Proof.
  intros H1 H2. repeat split; try (apply tt_good; assumption).
  - destruct H1 as [H1 _], H2 as [H2 _]. congruence.
  - intros _. destruct H1 as [H1 _], H2 as [H2 _]. rewrite (tt_not_none _ H1), (tt_not_none _ H2). reflexivity.
Qed.

Lemma good_falsy r : truthy r = false -> good r.
Proof. intros H H'. congruence. Qed.

Lemma vrel_none c : vrel c RNone RNone.
Proof. repeat split; try (apply good_falsy; reflexivity). Qed.

Lemma vrel_nil c : vrel c (RList []) (RList []).
Proof. repeat split; try (apply good_falsy; reflexivity). Qed.

Lemma vrel_weaken c r1 r2 : vrel c r1 r2 -> vrel false r1 r2.
Proof. intros (A & B & C & _). repeat split; try assumption. discriminate. Qed.

(* ---------------------------------------------------------------- states *)
Definition eqx (s1 s2 : st) : Prop := set_pos 0 s1 = set_pos 0 s2.

Lemma eqx_refl s : eqx s s.
Proof. reflexivity. Qed.

Lemma eqx_set_pos p s1 s2 : eqx s1 s2 -> set_pos p s1 = set_pos p s2.
Proof. destruct s1, s2. unfold eqx, set_pos. simpl. intro H. inversion H. reflexivity. Qed.

Lemma eqx_set_pos_l p s1 s2 : eqx s1 s2 -> eqx (set_pos p s1) s2.
Proof. destruct s1, s2. unfold eqx, set_pos. simpl. intro H. inversion H. reflexivity. Qed.

Lemma eqx_set_pos_r p s1 s2 : eqx s1 s2 -> eqx s1 (set_pos p s2).
Proof. destruct s1, s2. unfold eqx, set_pos. simpl. intro H. inversion H. reflexivity. Qed.

Lemma eqx_pos_eq s1 s2 : eqx s1 s2 -> pos s1 = pos s2 -> s1 = s2.
Proof. destruct s1, s2. unfold eqx, set_pos. simpl. intros H E. inversion H. subst. reflexivity. Qed.

Lemma eqx_nm s1 s2 : eqx s1 s2 -> nm s1 = nm s2.
Proof. destruct s1, s2. unfold eqx, set_pos. simpl. intro H. inversion H. reflexivity. Qed.

Lemma pos_set_pos p s : pos (set_pos p s) = p.
Proof. reflexivity. Qed.

(* ---------------------------------------------------------------- sequence accumulators *)
Definition accok (a : list res) : Prop := Forall tt a.
Definition accrel (a1 a2 : list res) : Prop := accok a1 /\ accok a2 /\ (a1 = [] <-> a2 = []).

Lemma accrel_nil : accrel [] [].
Proof. repeat split; constructor. Qed.

Lemma accrel_app a1 a2 d1 d2 : accrel a1 a2 -> accrel d1 d2 -> accrel (a1 ++ d1) (a2 ++ d2).
Proof.
  intros (A1 & A2 & A3) (D1 & D2 & D3). repeat split.
  - apply Forall_app; split; assumption.
  - apply Forall_app; split; assumption.
  - intro H. apply app_eq_nil in H as [H1 H2]. apply A3 in H1. apply D3 in H2. subst. reflexivity.
  - intro H. apply app_eq_nil in H as [H1 H2]. apply A3 in H1. apply D3 in H2. subst. reflexivity.
Qed.

Lemma accrel_push r1 r2 c : vrel c r1 r2 ->
  accrel (if truthy r1 then [r1] else []) (if truthy r2 then [r2] else []).
Proof.
  intros (G1 & G2 & T & _). rewrite <- T. destruct (truthy r1) eqn:E.
  - assert (T2 : truthy r2 = true) by congruence.
    split; [|split].
    + constructor; [split; [assumption | apply G1; assumption] | constructor].
    + constructor; [split; [assumption | apply G2; assumption] | constructor].
    + split; discriminate.
  - apply accrel_nil.
Qed.

Lemma push_app (a : list res) r : (if truthy r then a ++ [r] else a) = a ++ (if truthy r then [r] else []).
Proof. destruct (truthy r); [reflexivity | rewrite app_nil_r; reflexivity]. Qed.

Fixpoint flat_list (l : list res) : list tree :=
  match l with [] => [] | x :: l' => flatten x ++ flat_list l' end.

Lemma flatten_RList l : flatten (RList l) = flat_list l.
Proof. induction l as [|x l IH]; simpl; [reflexivity | f_equal; exact IH]. Qed.

Lemma accok_flat a : accok a -> a <> [] -> flatten (RList a) <> [].
Proof.
  intros H N. rewrite flatten_RList. destruct a as [|x a]; [congruence|].
  inversion H as [|? ? [_ Hx] _]; subst. simpl. intro E. apply app_eq_nil in E as [E _]. contradiction.
Qed.

Lemma accok_head_not_none a : accok a -> head_is_none (RList a) = false.
Proof.
  intro H. destruct a as [|x a]; [reflexivity|]. inversion H as [|? ? [Hx _] _]; subst.
  destruct x; simpl in *; try reflexivity. discriminate.
Qed.

(* post on the value of a sequence / repetition body *)
Lemma post_list_tt nid nd a : n_suppress nd = false -> accok a -> a <> [] -> tt (post nid nd (RList a)).
Proof.
  intros S A N. unfold post. rewrite S, (accok_head_not_none a A). cbn [orb]. cbv beta iota zeta.
  assert (T : truthy (RList a) = true) by (destruct a; [congruence | reflexivity]).
  rewrite T. destruct (n_root nd); cbn [andb negb is_ptnode].
  - pose proof (accok_flat a A N) as F. split.
    + cbn [truthy]. destruct (flatten (RList a)) eqn:E; [congruence | reflexivity].
    + cbn [flatten]. discriminate.
  - split; [exact T | apply accok_flat; assumption].
Qed.

Lemma post_none nid nd : post nid nd RNone = RNone.
Proof. unfold post. simpl. destruct (n_suppress nd); simpl; destruct (n_root nd); reflexivity. Qed.

Lemma post_nil nid nd : post nid nd (RList []) = (if n_suppress nd then RNone else RList []).
Proof. unfold post. simpl. destruct (n_suppress nd); simpl; destruct (n_root nd); reflexivity. Qed.

Lemma post_suppress nid nd r : n_suppress nd = true -> post nid nd r = RNone.
Proof. intro S. unfold post. rewrite S. simpl. destruct (n_root nd); reflexivity. Qed.

(* ---------------------------------------------------------------- the interpreter, unfolded one step *)
Section Unfold.
Variable g : grammar.
Variable input : list N.
Variable orc : nat -> nat -> option nat.

Notation P := (parse g input orc false).

Lemma parse_0 i psq s : P 0 i psq s = Abort 0.
Proof. reflexivity. Qed.

Lemma parse_nonmatch f i nd psq s :
  get_node g i = Some nd -> is_match_kind (n_kind nd) = false ->
  P (S f) i psq s =
  match body (P f) f nd s with
  | Ok r s1 => Ok (post i nd r) s1
  | Fail s1 => Fail (set_pos (pos s) s1)
  | Abort w => Abort w
  end.
Proof. intros G M. simpl. rewrite G, M. reflexivity. Qed.

Lemma parse_match f i nd psq s :
  get_node g i = Some nd -> is_match_kind (n_kind nd) = true ->
  P (S f) i psq s =
  match match_pre g input (P f) f s with
  | Ok _ s1 =>
    match term_parse input orc i (n_kind nd) psq s1 with
    | Ok r s2 => Ok (if n_suppress nd then RNone else r) s2
    | o => o
    end
  | o => o
  end.
Proof. intros G M. simpl. rewrite G, M. reflexivity. Qed.

Lemma seq_loop_shape rec psq l a s :
  match seq_loop rec psq l a s with Ok r _ => exists a', r = RList a' | _ => True end.
Proof.
  revert a s. induction l as [|c l IH]; intros a s; simpl.
  - exists a. reflexivity.
  - destruct (rec c psq s); try exact I. apply IH.
Qed.

Lemma seq_loop_app rec psq l l' a s :
  seq_loop rec psq (l ++ l') a s =
  match seq_loop rec psq l a s with
  | Ok (RList a') s' => seq_loop rec psq l' a' s'
  | Ok _ _ => Abort 1
  | Fail s' => Fail s'
  | Abort w => Abort w
  end.
Proof.
  revert a s. induction l as [|c l IH]; intros a s; simpl.
  - reflexivity.
  - destruct (rec c psq s); try reflexivity. apply IH.
Qed.

Lemma body_seq rec k nd s :
  n_kind nd = KSeq -> plain nd = true ->
  body rec k nd s =
  match seq_loop rec true (n_kids nd) [] s with
  | Ok (RList []) s1 => Ok RNone s1
  | Ok r s1 => Ok r s1
  | Fail s1 => Fail (set_pos (pos s) s1)
  | Abort w => Abort w
  end.
Proof.
  intros K Pl. unfold body. rewrite K. unfold plain in Pl.
  destruct (n_ws nd) eqn:W; [discriminate|]. destruct (n_skipws nd) eqn:Sk; [discriminate|].
  unfold enter_ws, leave_ws. rewrite W, Sk.
  destruct (seq_loop rec true (n_kids nd) [] s) as [r s1|s1|w]; try reflexivity.
Qed.

Lemma cmt_loop_no_fail rec cm k s : forall s', cmt_loop input rec cm k s <> Fail s'.
Proof.
  revert s. induction k as [|k IH]; intros s s'; simpl; [discriminate|].
  destruct (rec cm false s); try discriminate. apply IH.
Qed.

Lemma seq_node_cases f y nd psq s :
  get_node g y = Some nd -> n_kind nd = KSeq -> plain nd = true -> n_suppress nd = false ->
  match seq_loop (P f) true (n_kids nd) [] s with
  | Ok (RList d) s1 =>
    P (S f) y psq s = Ok (match d with [] => RNone | _ => post y nd (RList d) end) s1
  | Ok _ _ => True
  | Fail s1 => P (S f) y psq s = Fail (set_pos (pos s) (set_pos (pos s) s1))
  | Abort w => P (S f) y psq s = Abort w
  end.
Proof.
  intros G K Pl Su.
  rewrite (parse_nonmatch f y nd psq s G) by (rewrite K; reflexivity).
  rewrite (body_seq _ _ _ _ K Pl).
  destruct (seq_loop (P f) true (n_kids nd) [] s) as [r s1|s1|w]; try reflexivity.
  destruct r as [| |d]; try exact I. destruct d; [rewrite post_none|]; reflexivity.
Qed.

Lemma body_choice rec k nd s :
  n_kind nd = KChoice -> plain nd = true ->
  body rec k nd s =
  match choice_loop rec (pos s) (n_kids nd) s with
  | Ok r s1 => if is_none r then nm_raise (pos s) s1 else Ok (RList [r]) s1
  | Fail s1 => Fail s1
  | Abort w => Abort w
  end.
Proof.
  intros K Pl. unfold body. rewrite K. unfold plain in Pl.
  destruct (n_ws nd) eqn:W; [discriminate|]. destruct (n_skipws nd) eqn:Sk; [discriminate|].
  unfold enter_ws, leave_ws. rewrite W, Sk. reflexivity.
Qed.

Lemma body_rep rec k nd e s :
  (n_kind nd = KStar \/ n_kind nd = KPlus) -> plain nd = true -> n_kids nd = [e] ->
  body rec k nd s =
  rep_loop rec e (n_sep nd) (match n_kind nd with KPlus => true | _ => false end) k true [] s.
Proof.
  intros K Pl Ki. unfold plain in Pl.
  destruct (n_ws nd); [discriminate|]. destruct (n_skipws nd); [discriminate|].
  assert (E : n_eolterm nd = false) by (destruct (n_eolterm nd); [discriminate | reflexivity]).
  unfold body, enter_eol, leave_eol. rewrite Ki, E.
  destruct K as [K|K]; rewrite K;
    destruct (rep_loop rec e (n_sep nd) _ k true [] s); reflexivity.
Qed.

Definition elemf (rec : nat -> bool -> st -> out) (e : nat) (sep : option nat) (plus : bool) (k' : nat)
           (first : bool) (c_pos : nat) (acc1 : list res) (s1 : st) : out :=
  match rec e false s1 with
  | Ok r s2 => if truthy r then rep_loop rec e sep plus k' false (acc1 ++ [r]) s2 else Ok (RList acc1) s2
  | Fail s2 => if (plus && first)%bool then Fail (set_pos c_pos s2) else Ok (RList acc1) (set_pos c_pos s2)
  | Abort w => Abort w
  end.

Lemma rep_loop_S rec e sep plus k' first acc s :
  rep_loop rec e sep plus (S k') first acc s =
  match sep with
  | Some sp =>
    if first then elemf rec e sep plus k' first (pos s) acc s
    else match rec sp false s with
         | Ok sr s1 => elemf rec e sep plus k' first (pos s) (if truthy sr then acc ++ [sr] else acc) s1
         | Fail s1 => if (plus && first)%bool then Fail (set_pos (pos s) s1) else Ok (RList acc) (set_pos (pos s) s1)
         | Abort w => Abort w
         end
  | None => elemf rec e sep plus k' first (pos s) acc s
  end.
Proof. reflexivity. Qed.

End Unfold.

(* ---------------------------------------------------------------- the simulation *)
Section Sound.
Variables g1 g2 : grammar.
Variable ne : list nat.
Variable R : list (nat * nat * bool).
Variable input : list N.
Variable orc : nat -> nat -> option nat.
(* the oracle hypothesis: the regular expressions listed in [ne] never match the empty string *)
Hypothesis Hne : forall o p, In o ne -> orc o p <> Some 0.

Notation P1 := (parse g1 input orc false).
Notation P2 := (parse g2 input orc false).

(* related outcomes of a pair (i, j); running out of fuel on either side relates to anything *)
Definition orel (i j : nat) (c : bool) (s : st) (o1 o2 : out) : Prop :=
  o1 = Abort 0 \/ o2 = Abort 0 \/
  match o1, o2 with
  | Ok r1 s1, Ok r2 s2 =>
    s1 = s2 /\ vrel c r1 r2 /\ (forall d, efree g1 d i = true -> fnn r1) /\ (forall d, efree g2 d j = true -> fnn r2)
    /\ (forall d, atrue g1 ne d i = true -> truthy r1 = true)
  | Fail s1, Fail s2 =>
    eqx s1 s2 /\ (nonterminal g1 i = true -> pos s1 = pos s) /\ (nonterminal g2 j = true -> pos s2 = pos s)
  | Abort _, Abort _ => True
  | _, _ => False
  end.

Definition sim (fa fb : nat) : Prop :=
  forall i j c, In (i, j, c) R -> forall psq1 psq2 s, orel i j c s (P1 fa i psq1 s) (P2 fb j psq2 s).

Definition sem_ok (p : nat * nat * bool) : Prop :=
  match p with
  | (i, j, c) => forall fa fb psq1 psq2 s, orel i j c s (P1 fa i psq1 s) (P2 fb j psq2 s)
  end.

Hypothesis HR : forall p, In p R -> local_ok g1 g2 ne false [] R p = true \/ sem_ok p.
Hypothesis HF : frame_ok g1 g2 R = true.

Lemma pin_any_In i j : pin_any R i j = true -> exists c, In (i, j, c) R.
Proof.
  unfold pin_any. rewrite existsb_exists. intros [[[a b] c] [H E]].
  apply andb_true_iff in E as [E1 E2]. apply Nat.eqb_eq in E1. apply Nat.eqb_eq in E2. subst. exists c. exact H.
Qed.

Lemma pin_strong_In i j : pin_strong R i j = true -> In (i, j, true) R.
Proof.
  unfold pin_strong. rewrite existsb_exists. intros [[[a b] c] [H E]].
  apply andb_true_iff in E as [E E3]. apply andb_true_iff in E as [E1 E2].
  apply Nat.eqb_eq in E1. apply Nat.eqb_eq in E2. subst. exact H.
Qed.

Lemma orel_weaken i j c s o1 o2 : orel i j c s o1 o2 -> orel i j false s o1 o2.
Proof.
  intros [H|[H|H]]; [left; exact H | right; left; exact H | right; right].
  destruct o1, o2; try exact H. destruct H as (A & B & C & D & E).
  split; [exact A|]. split; [eapply vrel_weaken; exact B|]. split; [exact C|]. split; [exact D | exact E].
Qed.

Section Step.
Variable n : nat.
Hypothesis IH : forall fa fb, fa + fb <= n -> sim fa fb.

Lemma kid_any fa fb i j : fa + fb <= n -> pin_any R i j = true ->
  forall psq1 psq2 s, orel i j false s (P1 fa i psq1 s) (P2 fb j psq2 s).
Proof.
  intros L H psq1 psq2 s. apply pin_any_In in H as [c H]. eapply orel_weaken. apply (IH fa fb L i j c H).
Qed.

Lemma kid_strong fa fb i j : fa + fb <= n -> pin_strong R i j = true ->
  forall psq1 psq2 s, orel i j true s (P1 fa i psq1 s) (P2 fb j psq2 s).
Proof. intros L H psq1 psq2 s. apply pin_strong_In in H. apply (IH fa fb L i j true H). Qed.

(* ---------------- sequences *)
(* Q: a claim that the increment of the first side is not empty *)
Definition srel (a1 a2 : list res) (Q : Prop) (o1 o2 : out) : Prop :=
  o1 = Abort 0 \/ o2 = Abort 0 \/
  match o1, o2 with
  | Ok r1 s1, Ok r2 s2 =>
    s1 = s2 /\ exists d1 d2, r1 = RList (a1 ++ d1) /\ r2 = RList (a2 ++ d2) /\ accrel d1 d2 /\ (Q -> d1 <> [])
  | Fail s1, Fail s2 => eqx s1 s2
  | Abort _, Abort _ => True
  | _, _ => False
  end.

Lemma srel_shift a1 a2 e1 e2 (Q Q' : Prop) o1 o2 :
  accrel e1 e2 -> (Q -> e1 <> [] \/ Q') -> srel (a1 ++ e1) (a2 ++ e2) Q' o1 o2 -> srel a1 a2 Q o1 o2.
Proof.
  intros E HQ [H|[H|H]]; [left; exact H | right; left; exact H | right; right].
  destruct o1, o2; try exact H. destruct H as (A & d1 & d2 & B & C & D & F). split; [exact A|].
  exists (e1 ++ d1), (e2 ++ d2).
  split; [rewrite app_assoc; exact B | split; [rewrite app_assoc; exact C | split; [apply accrel_app; assumption|]]].
  intros q X. apply app_eq_nil in X as [X1 X2]. destruct (HQ q) as [N|N]; [contradiction | apply (F N X2)].
Qed.

Lemma srel_done a1 a2 (Q : Prop) s : ~ Q -> srel a1 a2 Q (Ok (RList a1) s) (Ok (RList a2) s).
Proof.
  intro NQ. right; right. split; [reflexivity|]. exists [], []. rewrite !app_nil_r.
  split; [reflexivity | split; [reflexivity | split; [apply accrel_nil | intro q; contradiction]]].
Qed.

Definition anyT (l : list nat) : Prop := exists d, existsb (atrue g1 ne d) l = true.

Lemma anyT_nil : ~ anyT [].
Proof. intros [d H]. discriminate. Qed.

Lemma anyT_cons x t : anyT (x :: t) -> (exists d, atrue g1 ne d x = true) \/ anyT t.
Proof. intros [d H]. cbn [existsb] in H. apply orb_true_iff in H as [H|H]; [left | right]; exists d; exact H. Qed.

Lemma anyT_app l l' : anyT (l ++ l') -> anyT l \/ anyT l'.
Proof. intros [d H]. rewrite existsb_app in H. apply orb_true_iff in H as [H|H]; [left | right]; exists d; exact H. Qed.

(* one element of a sequence loop, then the continuation *)
Lemma seq_head fa fb x y t1 t2 psq1 psq2 a1 a2 s :
  fa + fb <= n -> pin_any R x y = true ->
  (forall b1 b2 s', srel b1 b2 (anyT t1) (seq_loop (P1 fa) psq1 t1 b1 s') (seq_loop (P2 fb) psq2 t2 b2 s')) ->
  srel a1 a2 (anyT (x :: t1)) (seq_loop (P1 fa) psq1 (x :: t1) a1 s) (seq_loop (P2 fb) psq2 (y :: t2) a2 s).
Proof.
  intros L H K. pose proof (kid_any fa fb x y L H psq1 psq2 s) as O. cbn [seq_loop].
  destruct O as [O|[O|O]]; [rewrite O; left; reflexivity | rewrite O; right; left; reflexivity |].
  destruct (P1 fa x psq1 s) as [r1 s1|s1|w1], (P2 fb y psq2 s) as [r2 s2|s2|w2]; try contradiction.
  - destruct O as (E & V & _ & _ & AT). subst s2. rewrite !push_app.
    eapply srel_shift; [eapply accrel_push; exact V | | apply K].
    intro q. apply anyT_cons in q as [[d q]|q]; [left | right; exact q].
    rewrite (AT d q). discriminate.
  - right; right. apply O.
  - right; right. exact I.
Qed.

Lemma seq_zip l1 : forall l2, zip_in R false l1 l2 = true -> forall fa fb, fa + fb <= n ->
  forall psq1 psq2 a1 a2 s,
  srel a1 a2 (anyT l1) (seq_loop (P1 fa) psq1 l1 a1 s) (seq_loop (P2 fb) psq2 l2 a2 s).
Proof.
  induction l1 as [|x t1 IHl]; intros [|y t2] Z fa fb L psq1 psq2 a1 a2 s; simpl in Z; try discriminate.
  - apply srel_done. apply anyT_nil.
  - apply andb_true_iff in Z as [Z1 Z2]. apply seq_head; try assumption.
    intros b1 b2 s'. apply IHl; assumption.
Qed.

Lemma seq_kids_node g y ks : seq_kids g y = Some ks ->
  exists nd, get_node g y = Some nd /\ n_kind nd = KSeq /\ plain nd = true /\ n_suppress nd = false /\ n_kids nd = ks.
Proof.
  unfold seq_kids. destruct (get_node g y) as [nd|]; [|discriminate].
  destruct (n_kind nd) eqn:K; try discriminate.
  destruct (plain nd) eqn:Pl; simpl; [|discriminate]. destruct (n_suppress nd) eqn:Su; simpl; [discriminate|].
  intro H. inversion H. exists nd. repeat split; assumption.
Qed.

Lemma atrue_seq0 d i a : get_node g1 i = Some a -> n_kind a = KSeq -> atrue g1 ne d i = true -> anyT (n_kids a).
Proof.
  intros G K A. destruct d; simpl in A; rewrite G, K in A; destruct (n_suppress a); try discriminate.
  exists d. exact A.
Qed.

(* ---------------- `x (s x')*` against `e+[t]` *)
Lemma star_sep_node g st s x : star_sep g st = Some (s, x) ->
  exists nd q, get_node g st = Some nd /\ n_kind nd = KStar /\ plain nd = true /\ n_suppress nd = false /\
               n_kids nd = [q] /\ n_sep nd = None /\ seq_kids g q = Some [s; x].
Proof.
  unfold star_sep. destruct (get_node g st) as [nd|]; [|discriminate].
  destruct (n_kind nd) eqn:K; try discriminate. destruct (n_kids nd) as [|q [|? ?]] eqn:Ki; try discriminate.
  destruct (n_sep nd) eqn:Se; [discriminate|].
  destruct (plain nd) eqn:Pl; simpl; [|discriminate]. destruct (n_suppress nd) eqn:Su; simpl; [discriminate|].
  destruct (seq_kids g q) as [[|a [|b [|? ?]]]|] eqn:SK; try discriminate.
  intro H. inversion H; subst. exists nd, q. repeat split; assumption.
Qed.

Lemma plus_sep_node g y e t : plus_sep g y = Some (e, t) ->
  exists nd, get_node g y = Some nd /\ n_kind nd = KPlus /\ plain nd = true /\ n_suppress nd = false /\
             n_kids nd = [e] /\ n_sep nd = Some t.
Proof.
  unfold plus_sep. destruct (get_node g y) as [nd|]; [|discriminate].
  destruct (n_kind nd) eqn:K; try discriminate. destruct (n_kids nd) as [|e' [|? ?]] eqn:Ki; try discriminate.
  destruct (n_sep nd) as [t'|] eqn:Se; [|discriminate].
  destruct (plain nd) eqn:Pl; simpl; [|discriminate]. destruct (n_suppress nd) eqn:Su; simpl; [discriminate|].
  intro H. inversion H; subst. exists nd. repeat split; assumption.
Qed.

Definition lrel (b2 : list res) (o1 o2 : out) : Prop :=
  o1 = Abort 0 \/ o2 = Abort 0 \/
  match o1, o2 with
  | Ok r1 s1, Ok r2 s2 =>
    s1 = s2 /\ exists c1 c2, r1 = RList c1 /\ r2 = RList c2 /\ accok c1 /\ accok c2 /\ (b2 <> [] -> c2 <> [])
  | Abort _, Abort _ => True
  | _, _ => False
  end.

Lemma lrel_mono b2 b2' o1 o2 : b2' <> [] -> lrel b2' o1 o2 -> lrel b2 o1 o2.
Proof.
  intros N [H|[H|H]]; [left; exact H | right; left; exact H | right; right].
  destruct o1, o2; try exact H. destruct H as (A & c1 & c2 & B & C & D & E & F). split; [exact A|].
  exists c1, c2. repeat split; try assumption. intros _. apply F. exact N.
Qed.

Lemma accok_push (b : list res) r c r' : accok b -> vrel c r r' -> accok (if truthy r then b ++ [r] else b).
Proof.
  intros B (G & _ & _). destruct (truthy r) eqn:T; [|exact B].
  apply Forall_app. split; [exact B|]. constructor; [split; [exact T | apply G; exact T] | constructor].
Qed.

Lemma accok_push2 (b : list res) r c r' : accok b -> vrel c r' r -> accok (if truthy r then b ++ [r] else b).
Proof.
  intros B (_ & G & _). destruct (truthy r) eqn:T; [|exact B].
  apply Forall_app. split; [exact B|]. constructor; [split; [exact T | apply G; exact T] | constructor].
Qed.

Lemma sep_loop q qn s x' e t fa1 fb :
  fa1 + fb <= n -> get_node g1 q = Some qn -> n_kind qn = KSeq -> plain qn = true -> n_suppress qn = false ->
  n_kids qn = [s; x'] -> pin_any R s t = true -> pin_any R x' e = true -> atrue g1 ne EDEPTH x' = true ->
  forall k1 k2 f1 b1 b2 s0, accok b1 -> accok b2 ->
  lrel b2 (rep_loop (P1 fa1) q None false k1 f1 b1 s0) (rep_loop (P2 fb) e (Some t) true k2 false b2 s0).
Proof.
  intros L Gq Kq Plq Suq Kiq Hs Hx Hat. induction k1 as [|k1 IHk]; intros k2 f1 b1 b2 s0 B1 B2; [left; reflexivity|].
  destruct k2 as [|k2]; [right; left; reflexivity|].
  rewrite !rep_loop_S. unfold elemf at 1.
  destruct fa1 as [|fa2]; [left; reflexivity|].
  pose proof (seq_node_cases g1 input orc fa2 q qn false s0 Gq Kq Plq Suq) as C. rewrite Kiq in C. cbn [seq_loop] in C.
  assert (L2 : fa2 + fb <= n) by lia.
  pose proof (kid_any fa2 fb s t L2 Hs true false s0) as O.
  destruct O as [O|[O|O]].
  - rewrite O in C. rewrite C. left; reflexivity.
  - rewrite O. right; left; reflexivity.
  - destruct (P1 fa2 s true s0) as [sr1 s1|s1|w1], (P2 fb t false s0) as [sr2 s2|s2|w2]; try contradiction.
    + destruct O as (E & V & _). subst s2. unfold elemf.
      pose proof (kid_any fa2 fb x' e L2 Hx true false s1) as O2.
      destruct O2 as [O2|[O2|O2]].
      * rewrite O2 in C. rewrite C. left; reflexivity.
      * rewrite O2. right; left; reflexivity.
      * destruct (P1 fa2 x' true s1) as [r1 s2|s2|w1'], (P2 fb e false s1) as [r2 s2'|s2'|w2']; try contradiction.
        -- destruct O2 as (E2 & V2 & _ & _ & AT). subst s2'.
           assert (T1 : truthy r1 = true) by (apply (AT EDEPTH Hat)).
           pose proof V2 as (G1 & G2 & TT & _). assert (T2 : truthy r2 = true) by congruence.
           rewrite T1 in C. rewrite T2.
           assert (AQ : accok ((if truthy sr1 then [] ++ [sr1] else []) ++ [r1])).
           { apply Forall_app. split; [apply (accok_push [] sr1 false sr2); [constructor | exact V]|].
             constructor; [split; [exact T1 | apply G1; exact T1] | constructor]. }
           assert (NQ : (if truthy sr1 then [] ++ [sr1] else []) ++ [r1] <> []).
           { intro X. apply app_eq_nil in X as [_ X]. discriminate. }
           pose proof (post_list_tt q qn _ Suq AQ NQ) as TV.
           destruct ((if truthy sr1 then [] ++ [sr1] else []) ++ [r1]) as [|z zs] eqn:EZ; [congruence|].
           rewrite C. destruct TV as [TV1 TV2]. rewrite TV1.
           eapply lrel_mono; [|apply IHk].
           ++ intro X. apply app_eq_nil in X as [_ X]. discriminate.
           ++ apply Forall_app. split; [exact B1 | constructor; [split; assumption | constructor]].
           ++ apply Forall_app. split; [apply (accok_push2 b2 sr2 false sr1); assumption|].
              constructor; [split; [exact T2 | apply G2; exact T2] | constructor].
        -- rewrite C. cbn [andb]. destruct O2 as (E2 & _).
           rewrite (eqx_set_pos (pos s0) (set_pos (pos s0) (set_pos (pos s0) s2)) s2').
           ++ right; right. split; [reflexivity|]. eexists; eexists. split; [reflexivity|]. split; [reflexivity|].
              split; [exact B1|]. split; [apply (accok_push2 b2 sr2 false sr1); assumption|].
              intro N. destruct (truthy sr2); [|exact N]. intro X. apply app_eq_nil in X as [_ X]. discriminate.
           ++ apply eqx_set_pos_l. apply eqx_set_pos_l. exact E2.
        -- rewrite C. right; right. exact I.
    + rewrite C. cbn [andb]. destruct O as (E & _).
      rewrite (eqx_set_pos (pos s0) (set_pos (pos s0) (set_pos (pos s0) s1)) s2).
      * right; right. split; [reflexivity|]. exists b1, b2. repeat split; try assumption. intro N; exact N.
      * apply eqx_set_pos_l. apply eqx_set_pos_l. exact E.
    + rewrite C. right; right. exact I.
Qed.

Definition rrel (a1 : list res) (o1 o2 : out) : Prop :=
  o1 = Abort 0 \/ o2 = Abort 0 \/
  match o1, o2 with
  | Ok r1 s1, Ok r2 s2 =>
    s1 = s2 /\ exists d1 d2, r1 = RList (a1 ++ d1) /\ r2 = RList d2 /\ accok d1 /\ accok d2 /\ d1 <> [] /\ d2 <> []
  | Fail s1, Fail s2 => eqx s1 s2
  | Abort _, Abort _ => True
  | _, _ => False
  end.

Lemma sepform_core x st s x' e t fa fb k2 psq1 a1 s0 :
  fa + fb <= n -> star_sep g1 st = Some (s, x') ->
  pin_any R x e = true -> pin_any R x' e = true -> pin_any R s t = true ->
  atrue g1 ne EDEPTH x = true -> atrue g1 ne EDEPTH x' = true ->
  rrel a1 (seq_loop (P1 fa) psq1 [x; st] a1 s0) (rep_loop (P2 fb) e (Some t) true k2 true [] s0).
Proof.
  intros L SS Hx Hx' Hs Ax Ax'. destruct (star_sep_node g1 st s x' SS) as (stn & q & Gst & Kst & Plst & Sust & Kist & Sest & SK).
  destruct (seq_kids_node g1 q _ SK) as (qn & Gq & Kq & Plq & Suq & Kiq).
  destruct k2 as [|k2]; [right; left; reflexivity|]. rewrite rep_loop_S. unfold elemf. cbn [seq_loop].
  pose proof (kid_any fa fb x e L Hx psq1 false s0) as O.
  destruct O as [O|[O|O]]; [rewrite O; left; reflexivity | rewrite O; right; left; reflexivity |].
  destruct (P1 fa x psq1 s0) as [r1 s1|s1|w1], (P2 fb e false s0) as [r2 s2|s2|w2]; try contradiction.
  - destruct O as (E & V & _ & _ & AT). subst s2. assert (T1 : truthy r1 = true) by (apply (AT EDEPTH Ax)).
    pose proof V as (G1 & G2 & TT & _). assert (T2 : truthy r2 = true) by congruence. rewrite T1, T2.
    destruct fa as [|fa1]; [left; reflexivity|].
    rewrite (parse_nonmatch g1 input orc fa1 st stn psq1 s1 Gst) by (rewrite Kst; reflexivity).
    rewrite (body_rep (P1 fa1) fa1 stn q s1 (or_introl Kst) Plst Kist). rewrite Kst, Sest.
    assert (L1 : fa1 + fb <= n) by lia.
    assert (B2 : accok ([] ++ [r2])) by (constructor; [split; [exact T2 | apply G2; exact T2] | constructor]).
    pose proof (sep_loop q qn s x' e t fa1 fb L1 Gq Kq Plq Suq Kiq Hs Hx' Ax' fa1 k2 true [] ([] ++ [r2]) s1
                         (Forall_nil _) B2) as Z.
    destruct Z as [Z|[Z|Z]]; [rewrite Z; left; reflexivity | rewrite Z; right; left; reflexivity |].
    destruct (rep_loop (P1 fa1) q None false fa1 true [] s1) as [v1 s2|s2|w1'],
             (rep_loop (P2 fb) e (Some t) true k2 false ([] ++ [r2]) s1) as [v2 s2'|s2'|w2']; try contradiction.
    + destruct Z as (E2 & c1 & c2 & E3 & E4 & C1 & C2 & N2). subst s2' v1 v2. right; right.
      split; [reflexivity|].
      assert (A1 : accok [r1]) by (constructor; [split; [exact T1 | apply G1; exact T1] | constructor]).
      destruct c1 as [|z zs].
      * rewrite post_nil, Sust. cbn [truthy]. exists [r1], c2.
        repeat split; try assumption; try discriminate. apply N2. discriminate.
      * pose proof (post_list_tt st stn (z :: zs) Sust C1) as TV. assert (NZ : z :: zs <> []) by discriminate.
        specialize (TV NZ). destruct TV as [TV1 TV2]. rewrite TV1.
        exists ([r1] ++ [post st stn (RList (z :: zs))]), c2. rewrite app_assoc.
        repeat split; try assumption; try discriminate.
        -- constructor; [split; [exact T1 | apply G1; exact T1] | constructor; [split; assumption | constructor]].
        -- apply N2. discriminate.
    + right; right. exact I.
  - cbn [andb]. right; right. apply eqx_set_pos_r. apply O.
  - right; right. exact I.
Qed.

Lemma sepform_seq fa fb x st t1 y t2 psq1 psq2 a1 a2 s :
  fa + fb <= n -> sepform g1 g2 ne R x (st :: t1) y = true ->
  (forall b1 b2 s', srel b1 b2 (anyT t1) (seq_loop (P1 fa) psq1 t1 b1 s') (seq_loop (P2 fb) psq2 t2 b2 s')) ->
  srel a1 a2 (anyT (x :: st :: t1)) (seq_loop (P1 fa) psq1 (x :: st :: t1) a1 s) (seq_loop (P2 fb) psq2 (y :: t2) a2 s).
Proof.
  intros L SF K. unfold sepform in SF.
  destruct (star_sep g1 st) as [[s0 x']|] eqn:SS; [|discriminate].
  destruct (plus_sep g2 y) as [[e t]|] eqn:PS; [|discriminate].
  apply andb_true_iff in SF as [SF Ax']. apply andb_true_iff in SF as [SF Ax].
  apply andb_true_iff in SF as [SF Hs]. apply andb_true_iff in SF as [Hx Hx'].
  destruct (plus_sep_node g2 y e t PS) as (yn & Gy & Ky & Ply & Suy & Kiy & Sey).
  change (x :: st :: t1) with ([x; st] ++ t1) at 2. rewrite seq_loop_app.
  destruct fb as [|fb]; [right; left; reflexivity|].
  set (S1 := seq_loop (P1 fa) psq1 [x; st] a1 s).
  cbn [seq_loop].
  rewrite (parse_nonmatch g2 input orc fb y yn psq2 s Gy) by (rewrite Ky; reflexivity).
  rewrite (body_rep (P2 fb) fb yn e s (or_intror Ky) Ply Kiy). rewrite Ky, Sey.
  unfold S1. clear S1.
  assert (L1 : fa + fb <= n) by lia.
  pose proof (sepform_core x st s0 x' e t fa fb fb psq1 a1 s L1 SS Hx Hx' Hs Ax Ax') as Z.
  destruct Z as [Z|[Z|Z]]; [rewrite Z; left; reflexivity | rewrite Z; right; left; reflexivity |].
  destruct (seq_loop (P1 fa) psq1 [x; st] a1 s) as [r1 s1|s1|w1],
           (rep_loop (P2 fb) e (Some t) true fb true [] s) as [r2 s2|s2|w2]; try contradiction.
  - destruct Z as (E & d1 & d2 & E1 & E2 & D1 & D2 & N1 & N2). subst s2 r1 r2.
    pose proof (post_list_tt y yn d2 Suy D2 N2) as [TV1 TV2]. rewrite TV1.
    eapply srel_shift with (e1 := d1) (e2 := [post y yn (RList d2)]) (Q' := anyT t1).
    + repeat split; try assumption.
      * constructor; [split; assumption | constructor].
      * intro X. contradiction.
      * discriminate.
    + intros _. left. exact N1.
    + apply K.
  - right; right. apply eqx_set_pos_r. exact Z.
  - right; right. exact I.
Qed.


Lemma seq_align_sim m : forall l1 l2 fa fb, fa + fb <= n -> seq_align g1 g2 ne R m l1 l2 = true ->
  forall psq1 psq2 a1 a2 s,
  srel a1 a2 (anyT l1) (seq_loop (P1 fa) psq1 l1 a1 s) (seq_loop (P2 fb) psq2 l2 a2 s).
Proof.
  induction m as [|m IHm]; intros l1 l2 fa fb L A psq1 psq2 a1 a2 s; [discriminate|].
  cbn [seq_align] in A. destruct l1 as [|x t1], l2 as [|y t2]; try discriminate.
  - apply srel_done. apply anyT_nil.
  - apply orb_true_iff in A as [A|A]; [apply orb_true_iff in A as [A|A]; [apply orb_true_iff in A as [A|A]|]|].
    + apply andb_true_iff in A as [A1 A2]. apply seq_head; try assumption.
      intros b1 b2 s'. apply IHm; assumption.
    + apply andb_true_iff in A as [A1 A2]. destruct t1 as [|st t1]; [discriminate A1|]. cbn [tl] in A2.
      apply sepform_seq; try assumption. intros b1 b2 s'. apply IHm; assumption.
    + destruct (seq_kids g2 y) as [ks|] eqn:SK; [|discriminate].
      apply andb_true_iff in A as [A A3]. apply andb_true_iff in A as [A1 A2].
      destruct (seq_kids_node g2 y ks SK) as (nd & G & K & Pl & Su & Ki).
      assert (QS : anyT (x :: t1) -> anyT (firstn (length ks) (x :: t1)) \/ anyT (skipn (length ks) (x :: t1))).
      { intro q. apply anyT_app. rewrite firstn_skipn. exact q. }
      assert (EQ : seq_loop (P1 fa) psq1 (x :: t1) a1 s =
                   seq_loop (P1 fa) psq1 (firstn (length ks) (x :: t1) ++ skipn (length ks) (x :: t1)) a1 s)
        by (rewrite firstn_skipn; reflexivity).
      rewrite EQ. clear EQ. rewrite seq_loop_app.
      cbn [seq_loop]. destruct fb as [|fb]; [right; left; reflexivity|].
      assert (L' : fa + fb <= n) by lia.
      pose proof (seq_zip _ _ A2 fa fb L' psq1 true a1 [] s) as Z.
      pose proof (seq_node_cases g2 input orc fb y nd psq2 s G K Pl Su) as C. rewrite Ki in C.
      destruct Z as [Z|[Z|Z]].
      * rewrite Z. left; reflexivity.
      * rewrite Z in C. rewrite C. right; left; reflexivity.
      * destruct (seq_loop (P1 fa) psq1 (firstn (length ks) (x :: t1)) a1 s) as [r1 s1|s1|w1],
                 (seq_loop (P2 fb) true ks [] s) as [r2 s2|s2|w2]; try contradiction.
        -- destruct Z as (E & d1 & d2 & E1 & E2 & D & F). subst s2 r1 r2. cbn [app] in C. rewrite C.
           assert (L2 : fa + S fb <= n) by lia.
           destruct d2 as [|v d2].
           ++ cbn [truthy]. eapply srel_shift with (e1 := d1) (e2 := []) (Q' := anyT (skipn (length ks) (x :: t1))).
              ** exact D.
              ** intro q. destruct (QS q) as [q1|q2]; [left; apply F; exact q1 | right; exact q2].
              ** rewrite app_nil_r. apply IHm; assumption.
           ++ pose proof (post_list_tt y nd (v :: d2) Su (proj1 (proj2 D))) as T.
              assert (N : v :: d2 <> []) by discriminate. specialize (T N).
              destruct T as [T1 T2]. rewrite T1.
              eapply srel_shift with (e1 := d1) (e2 := [post y nd (RList (v :: d2))])
                                     (Q' := anyT (skipn (length ks) (x :: t1))).
              ** destruct D as (D1 & D2 & D3). repeat split.
                 --- exact D1.
                 --- constructor; [split; assumption | constructor].
                 --- intro H. apply D3 in H. discriminate.
                 --- discriminate.
              ** intro q. destruct (QS q) as [q1|q2]; [left; apply F; exact q1 | right; exact q2].
              ** apply IHm; assumption.
        -- rewrite C. right; right. apply eqx_set_pos_r. apply eqx_set_pos_r. exact Z.
        -- rewrite C. right; right. exact I.
    + (* a plain sequence of the first grammar stands for a segment of the second one's children *)
      destruct (seq_kids g1 x) as [ks|] eqn:SK; [|discriminate].
      apply andb_true_iff in A as [A A3]. apply andb_true_iff in A as [A1 A2].
      destruct (seq_kids_node g1 x ks SK) as (nd & G & K & Pl & Su & Ki).
      assert (EQ : seq_loop (P2 fb) psq2 (y :: t2) a2 s =
                   seq_loop (P2 fb) psq2 (firstn (length ks) (y :: t2) ++ skipn (length ks) (y :: t2)) a2 s)
        by (rewrite firstn_skipn; reflexivity).
      rewrite EQ. clear EQ. rewrite seq_loop_app.
      cbn [seq_loop]. destruct fa as [|fa]; [left; reflexivity|].
      assert (L' : fa + fb <= n) by lia.
      pose proof (seq_zip _ _ A2 fa fb L' true psq2 [] a2 s) as Z.
      pose proof (seq_node_cases g1 input orc fa x nd psq1 s G K Pl Su) as C. rewrite Ki in C.
      assert (QX : anyT (x :: t1) -> anyT ks \/ anyT t1).
      { intro q. apply anyT_cons in q as [[d q]|q]; [left | right; exact q].
        rewrite <- Ki. apply (atrue_seq0 d x nd G K q). }
      destruct Z as [Z|[Z|Z]].
      * rewrite Z in C. rewrite C. left; reflexivity.
      * rewrite Z. right; left; reflexivity.
      * destruct (seq_loop (P1 fa) true ks [] s) as [r1 s1|s1|w1],
                 (seq_loop (P2 fb) psq2 (firstn (length ks) (y :: t2)) a2 s) as [r2 s2|s2|w2]; try contradiction.
        -- destruct Z as (E & d1 & d2 & E1 & E2 & D & F). subst s2 r1 r2. cbn [app] in C. rewrite C.
           assert (L2 : S fa + fb <= n) by lia.
           destruct d1 as [|v d1].
           ++ cbn [truthy]. eapply srel_shift with (e1 := []) (e2 := d2) (Q' := anyT t1).
              ** exact D.
              ** intro q. destruct (QX q) as [q1|q2]; [exfalso; apply (F q1); reflexivity | right; exact q2].
              ** rewrite app_nil_r. apply IHm; assumption.
           ++ pose proof (post_list_tt x nd (v :: d1) Su (proj1 D)) as T.
              assert (N : v :: d1 <> []) by discriminate. specialize (T N).
              destruct T as [T1 T2]. rewrite T1.
              eapply srel_shift with (e1 := [post x nd (RList (v :: d1))]) (e2 := d2) (Q' := anyT t1).
              ** destruct D as (D1 & D2 & D3). repeat split.
                 --- constructor; [split; assumption | constructor].
                 --- exact D2.
                 --- discriminate.
                 --- intro H. apply D3 in H. discriminate.
              ** intros _. left. discriminate.
              ** apply IHm; assumption.
        -- rewrite C. right; right. apply eqx_set_pos_l. apply eqx_set_pos_l. exact Z.
        -- rewrite C. right; right. exact I.
Qed.

(* ---------------- ordered choice *)
Definition crel (o1 o2 : out) : Prop :=
  o1 = Abort 0 \/ o2 = Abort 0 \/
  match o1, o2 with
  | Ok r1 s1, Ok r2 s2 => s1 = s2 /\ ((r1 = RNone /\ r2 = RNone) \/ (tt r1 /\ tt r2))
  | Abort _, Abort _ => True
  | _, _ => False
  end.

Lemma fnn_tt r : fnn r -> good r -> is_none r = false -> tt r.
Proof.
  intros F G Nn. assert (T : truthy r = true).
  { destruct (truthy r) eqn:E; [reflexivity|]. unfold fnn in F. rewrite (F E) in Nn. discriminate. }
  split; [exact T | apply G; exact T].
Qed.

Lemma choice_sim l1 : forall l2, zip_in R true l1 l2 = true ->
  forallb (efree g1 EDEPTH) l1 = true -> forallb (efree g2 EDEPTH) l2 = true ->
  forall fa fb, fa + fb <= n -> forall cp s,
  crel (choice_loop (P1 fa) cp l1 s) (choice_loop (P2 fb) cp l2 s).
Proof.
  induction l1 as [|x t1 IHl]; intros [|y t2] Z F1 F2 fa fb L cp s; simpl in Z; try discriminate.
  - right; right. split; [reflexivity | left; split; reflexivity].
  - apply andb_true_iff in Z as [Z1 Z2]. cbn [forallb] in F1, F2.
    apply andb_true_iff in F1 as [F1 F1']. apply andb_true_iff in F2 as [F2 F2'].
    pose proof (kid_strong fa fb x y L Z1 false false s) as O. cbn [choice_loop].
    destruct O as [O|[O|O]]; [rewrite O; left; reflexivity | rewrite O; right; left; reflexivity |].
    destruct (P1 fa x false s) as [r1 s1|s1|w1], (P2 fb y false s) as [r2 s2|s2|w2]; try contradiction.
    + destruct O as (E & V & N1 & N2 & AT). subst s2. destruct V as (G1 & G2 & T & Nn). specialize (Nn eq_refl).
      rewrite <- Nn. destruct (is_none r1) eqn:I1.
      * apply IHl; assumption.
      * right; right. split; [reflexivity | right]. split; apply fnn_tt; try assumption.
        -- apply (N1 EDEPTH F1). -- apply (N2 EDEPTH F2). -- congruence.
    + destruct O as (E & _). rewrite (eqx_set_pos cp _ _ E). apply IHl; assumption.
    + right; right. exact I.
Qed.

(* ---------------- repetitions *)
Definition sep_rel (sp1 sp2 : option nat) : Prop :=
  match sp1, sp2 with
  | None, None => True
  | Some x, Some y => pin_any R x y = true
  | _, _ => False
  end.

Lemma rep_sim e1 e2 sp1 sp2 plus fa fb : fa + fb <= n -> pin_any R e1 e2 = true -> sep_rel sp1 sp2 ->
  forall k1 k2 first a1 a2 s,
  srel a1 a2 (first = true /\ plus = true /\ exists d, atrue g1 ne d e1 = true)
       (rep_loop (P1 fa) e1 sp1 plus k1 first a1 s) (rep_loop (P2 fb) e2 sp2 plus k2 first a2 s).
Proof.
  intros L He Hs. induction k1 as [|k1 IHk]; intros k2 first a1 a2 s; [left; reflexivity|].
  destruct k2 as [|k2]; [right; left; reflexivity|].
  assert (EL : forall cp b1 b2 s1,
    srel b1 b2 (first = true /\ plus = true /\ exists d, atrue g1 ne d e1 = true)
         (elemf (P1 fa) e1 sp1 plus k1 first cp b1 s1) (elemf (P2 fb) e2 sp2 plus k2 first cp b2 s1)).
  { intros cp b1 b2 s1. unfold elemf.
    pose proof (kid_any fa fb e1 e2 L He false false s1) as O.
    destruct O as [O|[O|O]]; [rewrite O; left; reflexivity | rewrite O; right; left; reflexivity |].
    destruct (P1 fa e1 false s1) as [r1 s2|s2|w1], (P2 fb e2 false s1) as [r2 s2'|s2'|w2]; try contradiction.
    - destruct O as (E & V & _ & _ & AT). subst s2'. pose proof V as (G1 & G2 & T & _). rewrite <- T.
      destruct (truthy r1) eqn:T1.
      + eapply srel_shift with (e1 := [r1]) (e2 := [r2]); [| |apply IHk].
        * pose proof (accrel_push r1 r2 false V) as AP. rewrite <- T, T1 in AP. exact AP.
        * intros _. left. discriminate.
      + apply srel_done. intros (_ & _ & d & q). specialize (AT d q). congruence.
    - destruct O as (E & _). destruct (plus && first)%bool eqn:PF.
      + right; right. apply eqx_set_pos_l. apply eqx_set_pos_r. exact E.
      + rewrite (eqx_set_pos cp _ _ E). apply srel_done. intros (F1 & F2 & _). subst. discriminate.
    - right; right. exact I. }
  rewrite !rep_loop_S. destruct sp1 as [x|], sp2 as [y|]; try contradiction.
  - destruct first; [apply EL|].
    pose proof (kid_any fa fb x y L Hs false false s) as O.
    destruct O as [O|[O|O]]; [rewrite O; left; reflexivity | rewrite O; right; left; reflexivity |].
    destruct (P1 fa x false s) as [r1 s1|s1|w1], (P2 fb y false s) as [r2 s2|s2|w2]; try contradiction.
    + destruct O as (E & V & _). subst s2. rewrite !push_app.
      eapply srel_shift; [eapply accrel_push; exact V | | apply EL].
      intros (F1 & _). discriminate.
    + destruct O as (E & _). cbn [andb]. rewrite andb_false_r. rewrite (eqx_set_pos (pos s) _ _ E).
      apply srel_done. intros (F1 & _). discriminate.
    + right; right. exact I.
  - apply EL.
Qed.

(* ---------------- comments and terminals *)
Definition mrel (o1 o2 : out) : Prop :=
  o1 = Abort 0 \/ o2 = Abort 0 \/
  match o1, o2 with
  | Ok _ s1, Ok _ s2 => s1 = s2
  | Abort _, Abort _ => True
  | _, _ => False
  end.

Lemma cmt_sim cm1 cm2 fa fb : fa + fb <= n -> pin_any R cm1 cm2 = true ->
  nonterminal g1 cm1 = true -> nonterminal g2 cm2 = true ->
  forall k1 k2 s, mrel (cmt_loop input (P1 fa) cm1 k1 s) (cmt_loop input (P2 fb) cm2 k2 s).
Proof.
  intros L H N1 N2. induction k1 as [|k1 IHk]; intros k2 s; [left; reflexivity|].
  destruct k2 as [|k2]; [right; left; reflexivity|]. cbn [cmt_loop].
  pose proof (kid_any fa fb cm1 cm2 L H false false s) as O.
  destruct O as [O|[O|O]]; [rewrite O; left; reflexivity | rewrite O; right; left; reflexivity |].
  destruct (P1 fa cm1 false s) as [r1 s1|s1|w1], (P2 fb cm2 false s) as [r2 s2|s2|w2]; try contradiction.
  - destruct O as (E & _). subst s2. apply IHk.
  - destruct O as (E & Q1 & Q2). right; right. apply eqx_pos_eq; [exact E|]. rewrite (Q1 N1), (Q2 N2). reflexivity.
  - right; right. exact I.
Qed.

Lemma match_pre_sim fa fb k1 k2 s : fa + fb <= n ->
  mrel (match_pre g1 input (P1 fa) k1 s) (match_pre g2 input (P2 fb) k2 s).
Proof.
  intro L. unfold match_pre.
  destruct (if skipws (maybe_skip_ws input s) then lookup (pos (maybe_skip_ws input s)) (cpos (maybe_skip_ws input s)) else None).
  { right; right. reflexivity. }
  destruct (in_cmt (maybe_skip_ws input s)); [right; right; reflexivity|].
  unfold parse_comments. unfold frame_ok in HF. apply andb_true_iff in HF as [_ HC].
  destruct (g_comments g1) as [c1|], (g_comments g2) as [c2|]; try discriminate.
  - apply andb_true_iff in HC as [HC N2]. apply andb_true_iff in HC as [HC N1].
    pose proof (cmt_sim c1 c2 fa fb L HC N1 N2 k1 k2 (set_in_cmt true (maybe_skip_ws input s))) as M.
    destruct M as [M|[M|M]]; [rewrite M; left; reflexivity | rewrite M; right; left; reflexivity |].
    destruct (cmt_loop input (P1 fa) c1 k1 _) as [r1 s1|s1|w1], (cmt_loop input (P2 fb) c2 k2 _) as [r2 s2|s2|w2];
      try contradiction.
    + subst s2. right; right. reflexivity.
    + right; right. exact I.
  - right; right. reflexivity.
Qed.


(* ---------------- whole nodes *)
Definition starlike (nd : node) : Prop := n_kind nd = KStar \/ n_kind nd = KPlus.

(* related outcomes of the two [body] calls of a pair of non-terminal nodes a, b;
   Q: the claim that the first body returns a non-empty list *)
Definition brel (a b : node) (Q : Prop) (o1 o2 : out) : Prop :=
  o1 = Abort 0 \/ o2 = Abort 0 \/
  match o1, o2 with
  | Ok r1 s1, Ok r2 s2 =>
    s1 = s2 /\
    ((r1 = RNone /\ r2 = RNone /\ ~ Q)
     \/ (r1 = RList [RNone] /\ r2 = RList [RNone] /\ ~ Q)
     \/ (r1 = RList [] /\ r2 = RList [] /\ starlike a /\ starlike b /\ ~ Q)
     \/ (exists d1 d2, r1 = RList d1 /\ r2 = RList d2 /\ accok d1 /\ accok d2 /\ d1 <> [] /\ d2 <> []))
  | Fail s1, Fail s2 => eqx s1 s2
  | Abort _, Abort _ => True
  | _, _ => False
  end.

Lemma vrel_any c r1 r2 : vrel true r1 r2 -> vrel c r1 r2.
Proof. intros (A & B & C & D). repeat split; try assumption. intros _. apply D. reflexivity. Qed.

Lemma fnn_none : fnn RNone.
Proof. intros _. reflexivity. Qed.

Lemma fnn_of_tt r : tt r -> fnn r.
Proof. intros [T _] F. congruence. Qed.

Lemma post_optnone nid nd : post nid nd (RList [RNone]) = RNone.
Proof. unfold post. cbn [head_is_none]. rewrite orb_true_r. simpl. destruct (n_root nd); reflexivity. Qed.

Lemma efree_starlike g d i nd : get_node g i = Some nd -> starlike nd -> efree g d i = true -> n_suppress nd = true.
Proof.
  intros G K E. destruct d; simpl in E; rewrite G in E; destruct (n_suppress nd); try reflexivity;
    destruct K as [K|K]; rewrite K in E; discriminate.
Qed.

Lemma nonterminal_of g i nd : get_node g i = Some nd -> is_match_kind (n_kind nd) = false -> nonterminal g i = true.
Proof. intros G M. unfold nonterminal. rewrite G, M. reflexivity. Qed.

Lemma atrue_unsup g d i nd : get_node g i = Some nd -> atrue g ne d i = true -> n_suppress nd = false.
Proof. intros G A. destruct d; simpl in A; rewrite G in A; destruct (n_suppress nd); try reflexivity; discriminate. Qed.

Lemma finish i j c a b (Q : Prop) fa fb psq1 psq2 s :
  get_node g1 i = Some a -> get_node g2 j = Some b ->
  is_match_kind (n_kind a) = false -> is_match_kind (n_kind b) = false ->
  n_suppress a = n_suppress b ->
  ((exists d, atrue g1 ne d i = true) -> Q) ->
  brel a b Q (body (P1 fa) fa a s) (body (P2 fb) fb b s) ->
  orel i j c s (P1 (S fa) i psq1 s) (P2 (S fb) j psq2 s).
Proof.
  intros G1 G2 M1 M2 Su HQ B.
  rewrite (parse_nonmatch g1 input orc fa i a psq1 s G1 M1), (parse_nonmatch g2 input orc fb j b psq2 s G2 M2).
  destruct B as [B|[B|B]]; [rewrite B; left; reflexivity | rewrite B; right; left; reflexivity |].
  destruct (body (P1 fa) fa a s) as [r1 s1|s1|w1], (body (P2 fb) fb b s) as [r2 s2|s2|w2]; try contradiction.
  - right; right. destruct B as (E & B). subst s2. split; [reflexivity|].
    assert (NA : ~ Q -> forall d, atrue g1 ne d i = true -> truthy RNone = true).
    { intros NQ d q. exfalso. apply NQ. apply HQ. exists d. exact q. }
    destruct B as [(E1 & E2 & NQ)|[(E1 & E2 & NQ)|[(E1 & E2 & K1 & K2 & NQ)|(d1 & d2 & E1 & E2 & A1 & A2 & N1 & N2)]]];
      subst r1 r2.
    + rewrite !post_none. split; [apply vrel_none|]. split; [intros; apply fnn_none|]. split; [intros; apply fnn_none|].
      apply NA; exact NQ.
    + rewrite !post_optnone. split; [apply vrel_none|]. split; [intros; apply fnn_none|].
      split; [intros; apply fnn_none|]. apply NA; exact NQ.
    + rewrite !post_nil. rewrite <- Su. destruct (n_suppress a) eqn:Sa.
      * split; [apply vrel_none|]. split; [intros; apply fnn_none|]. split; [intros; apply fnn_none|].
        apply NA; exact NQ.
      * split; [apply vrel_nil|]. split; [|split].
        -- intros d Ef. rewrite (efree_starlike g1 d i a G1 K1 Ef) in Sa. discriminate.
        -- intros d Ef. rewrite (efree_starlike g2 d j b G2 K2 Ef) in Su. discriminate.
        -- intros d q. exfalso. apply NQ. apply HQ. exists d. exact q.
    + destruct (n_suppress a) eqn:Sa.
      * rewrite (post_suppress i a _ Sa), (post_suppress j b _ (eq_sym Su)).
        split; [apply vrel_none|]. split; [intros; apply fnn_none|]. split; [intros; apply fnn_none|].
        intros d q. rewrite (atrue_unsup g1 d i a G1 q) in Sa. discriminate.
      * pose proof (post_list_tt i a d1 Sa A1 N1) as T1.
        pose proof (post_list_tt j b d2 (eq_sym Su) A2 N2) as T2.
        split; [apply vrel_tt; assumption|]. split; [intros; apply fnn_of_tt; assumption|].
        split; [intros; apply fnn_of_tt; assumption|]. intros _ _. apply T1.
  - right; right. split; [apply eqx_set_pos_l; apply eqx_set_pos_r; exact B|].
    split; intros _; apply pos_set_pos.
  - right; right. exact I.
Qed.

Definition trel (o1 o2 : out) : Prop :=
  match o1, o2 with
  | Ok r1 s1, Ok r2 s2 => s1 = s2 /\ ((r1 = RNone /\ r2 = RNone) \/ (tt r1 /\ tt r2))
  | Fail s1, Fail s2 => s1 = s2
  | Abort _, Abort _ => True
  | _, _ => False
  end.

Lemma tt_T nid p len sup : tt (RTree (T nid p len sup)).
Proof. split; [reflexivity | discriminate]. Qed.

Lemma term_rel k i j psq1 psq2 s1 :
  trel (term_parse input orc i k psq1 s1) (term_parse input orc j k psq2 s1).
Proof.
  destruct k; simpl; try exact I.
  - destruct (Nat.eqb (length input) (pos s1)); simpl; [|reflexivity].
    split; [reflexivity | right; split; apply tt_T].
  - destruct (match oid with Some o => match orc o (pos s1) with Some _ => true | None => false end
                           | None => is_prefix s (skipn (pos s1) input) end); simpl; [|reflexivity].
    split; [reflexivity | right; split; apply tt_T].
  - destruct (orc oid (pos s1)) as [len|]; simpl; [|reflexivity].
    destruct (Nat.eqb len 0); simpl.
    + split; [reflexivity | left; split; reflexivity].
    + split; [reflexivity | right; split; apply tt_T].
Qed.

Lemma term_eqb_eq k1 k2 : term_eqb k1 k2 = true -> k1 = k2 /\ is_match_kind k1 = true.
Proof.
  destruct k1, k2; simpl; try discriminate; intro H.
  - split; reflexivity.
  - apply andb_true_iff in H as [H1 H2]. apply str_eqb_eq in H1. subst.
    destruct oid, oid0; simpl in H2; try discriminate.
    + apply Nat.eqb_eq in H2. subst. split; reflexivity.
    + split; reflexivity.
  - apply Nat.eqb_eq in H. subst. split; reflexivity.
Qed.

Lemma term_atrue i a psq s1 : get_node g1 i = Some a ->
  forall d v t, atrue g1 ne d i = true -> term_parse input orc i (n_kind a) psq s1 = Ok v t -> truthy v = true.
Proof.
  intros G d v t A. assert (A' : (if n_suppress a then false else
            match n_kind a with
            | KStr _ _ | KEOF | KChoice => true
            | KRegex o => existsb (Nat.eqb o) ne
            | _ => match n_kind a with KSeq | KPlus => true | _ => false end
            end) = true).
  { destruct d; simpl in A; rewrite G in A; destruct (n_suppress a); try discriminate;
      destruct (n_kind a); try discriminate; try reflexivity; exact A. }
  clear A. destruct (n_suppress a); [discriminate|]. destruct (n_kind a) as [| | | | | | | | | |str oid|o]; simpl; try discriminate.
  - destruct (Nat.eqb (length input) (pos s1)); [|discriminate]. intro H; inversion H; reflexivity.
  - destruct (match oid with Some o => match orc o (pos s1) with Some _ => true | None => false end
                           | None => is_prefix str (skipn (pos s1) input) end); [|discriminate].
    intro H; inversion H; reflexivity.
  - destruct (orc o (pos s1)) as [len|] eqn:O; [|discriminate].
    destruct (Nat.eqb len 0) eqn:Z.
    + apply Nat.eqb_eq in Z. subst len. exfalso. apply existsb_exists in A' as [o' [I E]].
      apply Nat.eqb_eq in E. subst o'. apply (Hne o (pos s1) I O).
    + intro H; inversion H; reflexivity.
Qed.

Lemma step_term i j c a b fa fb psq1 psq2 s :
  fa + fb <= n -> get_node g1 i = Some a -> get_node g2 j = Some b ->
  is_match_kind (n_kind a) = true -> n_kind a = n_kind b -> n_suppress a = n_suppress b ->
  orel i j c s (P1 (S fa) i psq1 s) (P2 (S fb) j psq2 s).
Proof.
  intros L G1 G2 M K Su.
  assert (M2 : is_match_kind (n_kind b) = true) by (rewrite <- K; exact M).
  rewrite (parse_match g1 input orc fa i a psq1 s G1 M), (parse_match g2 input orc fb j b psq2 s G2 M2).
  pose proof (match_pre_sim fa fb fa fb s L) as Z.
  destruct Z as [Z|[Z|Z]]; [rewrite Z; left; reflexivity | rewrite Z; right; left; reflexivity |].
  destruct (match_pre g1 input (P1 fa) fa s) as [r1 s1|s1|w1], (match_pre g2 input (P2 fb) fb s) as [r2 s2|s2|w2];
    try contradiction.
  - subst s2. rewrite <- K. pose proof (term_rel (n_kind a) i j psq1 psq2 s1) as T.
    pose proof (term_atrue i a psq1 s1 G1) as TA.
    destruct (term_parse input orc i (n_kind a) psq1 s1) as [v1 t1|t1|x1],
             (term_parse input orc j (n_kind a) psq2 s1) as [v2 t2|t2|x2]; try contradiction.
    + right; right. destruct T as (E & T). subst t2. split; [reflexivity|]. rewrite <- Su.
      destruct (n_suppress a) eqn:Sa.
      * split; [apply vrel_none|]. split; [intros; apply fnn_none|]. split; [intros; apply fnn_none|].
        intros d q. rewrite (atrue_unsup g1 d i a G1 q) in Sa. discriminate.
      * destruct T as [[E1 E2]|[T1 T2]].
        -- subst. split; [apply vrel_none|]. split; [intros; apply fnn_none|]. split; [intros; apply fnn_none|].
           intros d q. apply (TA d RNone t1 q eq_refl).
        -- split; [apply vrel_tt; assumption|]. split; [intros; apply fnn_of_tt; assumption|].
           split; [intros; apply fnn_of_tt; assumption|]. intros _ _. apply T1.
    + right; right. simpl in T. subst t2. split; [apply eqx_refl|].
      unfold nonterminal. rewrite G1, G2, M, M2. split; discriminate.
    + right; right. exact I.
  - right; right. exact I.
Qed.

Lemma accok1 r : tt r -> accok [r].
Proof. intro T. constructor; [exact T | constructor]. Qed.

Lemma atrue_seq d i a : get_node g1 i = Some a -> n_kind a = KSeq -> atrue g1 ne d i = true -> anyT (n_kids a).
Proof.
  intros G K A. destruct d; simpl in A; rewrite G, K in A; destruct (n_suppress a); try discriminate.
  exists d. exact A.
Qed.

Lemma atrue_kind_false d i a : get_node g1 i = Some a ->
  (n_kind a = KOpt \/ n_kind a = KStar) -> atrue g1 ne d i = true -> False.
Proof.
  intros G K A. destruct d; simpl in A; rewrite G in A; destruct (n_suppress a); try discriminate;
    destruct K as [K|K]; rewrite K in A; discriminate.
Qed.

Lemma atrue_plus d i a x : get_node g1 i = Some a -> n_kind a = KPlus -> n_kids a = [x] ->
  atrue g1 ne d i = true -> exists d', atrue g1 ne d' x = true.
Proof.
  intros G K Ki A. destruct d; simpl in A; rewrite G, K in A; destruct (n_suppress a); try discriminate.
  rewrite Ki in A. exists d. exact A.
Qed.

Lemma step_struct i j c a b fa fb psq1 psq2 s :
  fa + fb <= n -> get_node g1 i = Some a -> get_node g2 j = Some b -> struct_ok g1 g2 ne false [] R a b = true ->
  orel i j c s (P1 (S fa) i psq1 s) (P2 (S fb) j psq2 s).
Proof.
  intros L G1 G2 H. unfold struct_ok in H.
  apply andb_true_iff in H as [H HK]. apply andb_true_iff in H as [H Su]. apply andb_true_iff in H as [Pa Pb].
  apply eqb_prop in Su.
  destruct (n_kind a) eqn:Ka; destruct (n_kind b) eqn:Kb; try discriminate HK.
  - (* KSeq, KSeq *)
    apply (finish i j c a b (anyT (n_kids a)) fa fb psq1 psq2 s G1 G2); try (rewrite ?Ka, ?Kb; reflexivity); try assumption.
    { intros [d q]. apply (atrue_seq d i a G1 Ka q). }
    rewrite (body_seq _ _ _ _ Ka Pa), (body_seq _ _ _ _ Kb Pb).
    pose proof (seq_align_sim _ _ _ fa fb L HK true true [] [] s) as Z.
    destruct Z as [Z|[Z|Z]]; [rewrite Z; left; reflexivity | rewrite Z; right; left; reflexivity |].
    destruct (seq_loop (P1 fa) true (n_kids a) [] s) as [r1 s1|s1|w1],
             (seq_loop (P2 fb) true (n_kids b) [] s) as [r2 s2|s2|w2]; try contradiction.
    + destruct Z as (E & d1 & d2 & E1 & E2 & D & F). cbn [app] in E1, E2. subst s2 r1 r2.
      destruct D as (D1 & D2 & D3). right; right.
      destruct d1 as [|v1 d1], d2 as [|v2 d2].
      * split; [reflexivity | left]. split; [reflexivity|]. split; [reflexivity|]. intro q. apply (F q). reflexivity.
      * exfalso. assert (X : v2 :: d2 = []) by (apply D3; reflexivity). discriminate.
      * exfalso. assert (X : v1 :: d1 = []) by (apply D3; reflexivity). discriminate.
      * split; [reflexivity|]. right; right; right. exists (v1 :: d1), (v2 :: d2).
        repeat split; try assumption; discriminate.
    + right; right. apply eqx_set_pos_l. apply eqx_set_pos_r. exact Z.
    + right; right. exact I.
  - (* KSeq, KPlus: x (s x')* against e+[t] *)
    destruct (n_kids a) as [|x [|st [|? ?]]] eqn:Kia; try discriminate HK.
    destruct (n_kids b) as [|e [|? ?]] eqn:Kib; try discriminate HK.
    destruct (n_sep b) as [t|] eqn:Seb; [|discriminate HK].
    destruct (star_sep g1 st) as [[s0 x']|] eqn:SS; [|discriminate HK].
    apply andb_true_iff in HK as [HK Ax']. apply andb_true_iff in HK as [HK Ax].
    apply andb_true_iff in HK as [HK Hs]. apply andb_true_iff in HK as [Hx Hx'].
    apply (finish i j c a b True fa fb psq1 psq2 s G1 G2); try (rewrite ?Ka, ?Kb; reflexivity); try assumption;
      try (intros _; exact I).
    rewrite (body_seq _ _ _ _ Ka Pa). rewrite (body_rep (P2 fb) fb b e s (or_intror Kb) Pb Kib). rewrite Kia, Kb, Seb.
    pose proof (sepform_core x st s0 x' e t fa fb fb true [] s L SS Hx Hx' Hs Ax Ax') as Z.
    destruct Z as [Z|[Z|Z]]; [rewrite Z; left; reflexivity | rewrite Z; right; left; reflexivity |].
    destruct (seq_loop (P1 fa) true [x; st] [] s) as [r1 s1|s1|w1],
             (rep_loop (P2 fb) e (Some t) true fb true [] s) as [r2 s2|s2|w2]; try contradiction.
    + destruct Z as (E & d1 & d2 & E1 & E2 & D1 & D2 & N1 & N2). cbn [app] in E1. subst s2 r1 r2.
      right; right. destruct d1 as [|v1 d1]; [congruence|].
      split; [reflexivity|]. right; right; right. exists (v1 :: d1), d2. repeat split; try assumption; discriminate.
    + right; right. apply eqx_set_pos_l. exact Z.
    + right; right. exact I.
  - (* KChoice *)
    apply andb_true_iff in HK as [HK C2]. apply andb_true_iff in HK as [HK C1].
    apply (finish i j c a b True fa fb psq1 psq2 s G1 G2); try (rewrite ?Ka, ?Kb; reflexivity); try assumption;
      try (intros _; exact I).
    rewrite (body_choice _ _ _ _ Ka Pa), (body_choice _ _ _ _ Kb Pb).
    pose proof (choice_sim _ _ HK C1 C2 fa fb L (pos s) s) as Z.
    destruct Z as [Z|[Z|Z]]; [rewrite Z; left; reflexivity | rewrite Z; right; left; reflexivity |].
    destruct (choice_loop (P1 fa) (pos s) (n_kids a) s) as [r1 s1|s1|w1],
             (choice_loop (P2 fb) (pos s) (n_kids b) s) as [r2 s2|s2|w2]; try contradiction.
    + destruct Z as (E & [[E1 E2]|[T1 T2]]); subst s2.
      * subst r1 r2. cbn [is_none]. right; right. apply eqx_refl.
      * rewrite (tt_not_none _ (proj1 T1)), (tt_not_none _ (proj1 T2)). right; right.
        split; [reflexivity|]. right; right; right. exists [r1], [r2].
        repeat split; try (apply accok1; assumption); discriminate.
    + right; right. exact I.
  - (* KOpt *)
    destruct (n_kids a) as [|x [|? ?]] eqn:Kia; try discriminate HK.
    destruct (n_kids b) as [|y [|? ?]] eqn:Kib; try discriminate HK.
    apply andb_true_iff in HK as [HK C2]. apply andb_true_iff in HK as [HK C1].
    unfold cho_ok in C1, C2. rewrite Kia in C1. rewrite Kib in C2. cbn [forallb] in C1, C2.
    rewrite andb_true_r in C1, C2.
    apply (finish i j c a b False fa fb psq1 psq2 s G1 G2); try (rewrite ?Ka, ?Kb; reflexivity); try assumption.
    { intros [d q]. apply (atrue_kind_false d i a G1 (or_introl Ka) q). }
    unfold body. rewrite Ka, Kb, Kia, Kib.
    pose proof (kid_strong fa fb x y L HK false false s) as O.
    destruct O as [O|[O|O]]; [rewrite O; left; reflexivity | rewrite O; right; left; reflexivity |].
    destruct (P1 fa x false s) as [r1 s1|s1|w1], (P2 fb y false s) as [r2 s2|s2|w2]; try contradiction.
    + destruct O as (E & V & N1 & N2 & AT). subst s2. destruct V as (Gd1 & Gd2 & T & Nn). specialize (Nn eq_refl).
      right; right. split; [reflexivity|]. destruct (is_none r1) eqn:I1.
      * right; left. destruct r1; try discriminate. destruct r2; try discriminate.
        split; [reflexivity|]. split; [reflexivity|]. intro F; exact F.
      * right; right; right. exists [r1], [r2].
        assert (T1 : tt r1) by (apply fnn_tt; [apply (N1 EDEPTH C1) | assumption | assumption]).
        assert (T2 : tt r2) by (apply fnn_tt; [apply (N2 EDEPTH C2) | assumption | congruence]).
        repeat split; try (apply accok1; assumption); discriminate.
    + destruct O as (E & _). rewrite (eqx_set_pos (pos s) _ _ E). right; right.
      split; [reflexivity | left]. split; [reflexivity|]. split; [reflexivity|]. intro F; exact F.
    + right; right. exact I.
  - (* KStar *)
    destruct (n_kids a) as [|x [|? ?]] eqn:Kia; try discriminate HK.
    destruct (n_kids b) as [|y [|? ?]] eqn:Kib; try discriminate HK.
    apply andb_true_iff in HK as [HK HS].
    apply (finish i j c a b False fa fb psq1 psq2 s G1 G2); try (rewrite ?Ka, ?Kb; reflexivity); try assumption.
    { intros [d q]. apply (atrue_kind_false d i a G1 (or_intror Ka) q). }
    rewrite (body_rep (P1 fa) fa a x s (or_introl Ka) Pa Kia), (body_rep (P2 fb) fb b y s (or_introl Kb) Pb Kib).
    rewrite Ka, Kb.
    assert (SR : sep_rel (n_sep a) (n_sep b)).
    { unfold sep_ok in HS. unfold sep_rel. destruct (n_sep a), (n_sep b); try discriminate; auto. }
    pose proof (rep_sim x y (n_sep a) (n_sep b) false fa fb L HK SR fa fb true [] [] s) as Z.
    destruct Z as [Z|[Z|Z]]; [rewrite Z; left; reflexivity | rewrite Z; right; left; reflexivity |].
    destruct (rep_loop (P1 fa) x (n_sep a) false fa true [] s) as [r1 s1|s1|w1],
             (rep_loop (P2 fb) y (n_sep b) false fb true [] s) as [r2 s2|s2|w2]; try contradiction.
    + destruct Z as (E & d1 & d2 & E1 & E2 & D & _). cbn [app] in E1, E2. subst s2 r1 r2.
      destruct D as (D1 & D2 & D3). right; right. split; [reflexivity|].
      destruct d1 as [|v1 d1], d2 as [|v2 d2].
      * right; right; left. repeat split; try (left; assumption). intro F; exact F.
      * exfalso. assert (X : v2 :: d2 = []) by (apply D3; reflexivity). discriminate.
      * exfalso. assert (X : v1 :: d1 = []) by (apply D3; reflexivity). discriminate.
      * right; right; right. exists (v1 :: d1), (v2 :: d2). repeat split; try assumption; discriminate.
    + right; right. exact Z.
    + right; right. exact I.
  - (* KPlus *)
    destruct (n_kids a) as [|x [|? ?]] eqn:Kia; try discriminate HK.
    destruct (n_kids b) as [|y [|? ?]] eqn:Kib; try discriminate HK.
    apply andb_true_iff in HK as [HK HS].
    apply (finish i j c a b (exists d, atrue g1 ne d x = true) fa fb psq1 psq2 s G1 G2);
      try (rewrite ?Ka, ?Kb; reflexivity); try assumption.
    { intros [d q]. apply (atrue_plus d i a x G1 Ka Kia q). }
    rewrite (body_rep (P1 fa) fa a x s (or_intror Ka) Pa Kia), (body_rep (P2 fb) fb b y s (or_intror Kb) Pb Kib).
    rewrite Ka, Kb.
    assert (SR : sep_rel (n_sep a) (n_sep b)).
    { unfold sep_ok in HS. unfold sep_rel. destruct (n_sep a), (n_sep b); try discriminate; auto. }
    pose proof (rep_sim x y (n_sep a) (n_sep b) true fa fb L HK SR fa fb true [] [] s) as Z.
    destruct Z as [Z|[Z|Z]]; [rewrite Z; left; reflexivity | rewrite Z; right; left; reflexivity |].
    destruct (rep_loop (P1 fa) x (n_sep a) true fa true [] s) as [r1 s1|s1|w1],
             (rep_loop (P2 fb) y (n_sep b) true fb true [] s) as [r2 s2|s2|w2]; try contradiction.
    + destruct Z as (E & d1 & d2 & E1 & E2 & D & F). cbn [app] in E1, E2. subst s2 r1 r2.
      destruct D as (D1 & D2 & D3). right; right. split; [reflexivity|].
      destruct d1 as [|v1 d1], d2 as [|v2 d2].
      * right; right; left. repeat split; try (right; assumption).
        intro q. apply F; [|reflexivity]. split; [reflexivity|]. split; [reflexivity | exact q].
      * exfalso. assert (X : v2 :: d2 = []) by (apply D3; reflexivity). discriminate.
      * exfalso. assert (X : v1 :: d1 = []) by (apply D3; reflexivity). discriminate.
      * right; right; right. exists (v1 :: d1), (v2 :: d2). repeat split; try assumption; discriminate.
    + right; right. exact Z.
    + right; right. exact I.
  - (* KEOF *)
    apply (step_term i j c a b fa fb psq1 psq2 s L G1 G2); try assumption; rewrite ?Ka, ?Kb; reflexivity.
  - (* KStr *)
    destruct (term_eqb_eq _ _ HK) as [E _].
    apply (step_term i j c a b fa fb psq1 psq2 s L G1 G2); try assumption; rewrite ?Ka, ?Kb; try reflexivity; exact E.
  - (* KRegex *)
    destruct (term_eqb_eq _ _ HK) as [E _].
    apply (step_term i j c a b fa fb psq1 psq2 s L G1 G2); try assumption; rewrite ?Ka, ?Kb; try reflexivity; exact E.
Qed.

Lemma step_unwrap i j c y fa fb psq1 psq2 s :
  S fa + fb <= n -> unit_kid g2 j = Some y -> pin_any R i y = true ->
  (negb c || efree g1 EDEPTH i)%bool = true ->
  orel i j c s (P1 (S fa) i psq1 s) (P2 (S fb) j psq2 s).
Proof.
  intros L U H Hc. unfold unit_kid in U. destruct (seq_kids g2 j) as [[|y' [|? ?]]|] eqn:SK; try discriminate.
  inversion U; subst y'. destruct (seq_kids_node g2 j [y] SK) as (nd & G & K & Pl & Su & Ki).
  pose proof (seq_node_cases g2 input orc fb j nd psq2 s G K Pl Su) as C. rewrite Ki in C. cbn [seq_loop] in C.
  pose proof (kid_any (S fa) fb i y L H psq1 true s) as O.
  destruct O as [O|[O|O]]; [left; exact O | rewrite O in C; right; left; exact C |].
  destruct (P1 (S fa) i psq1 s) as [r1 s1|s1|w1], (P2 fb y true s) as [r2 s2|s2|w2]; try contradiction.
  - destruct O as (E & V & N1 & N2 & AT). subst s2. destruct V as (Gd1 & Gd2 & T & _). right; right.
    destruct (truthy r2) eqn:T2; cbn [app] in C; rewrite C.
    + assert (TT : tt (post j nd (RList [r2]))).
      { apply post_list_tt; [exact Su | apply accok1; split; [exact T2 | apply Gd2; exact T2] | discriminate]. }
      split; [reflexivity|]. split.
      * split; [exact Gd1|]. split; [apply tt_good; exact TT|]. split; [destruct TT; congruence|].
        intros _. rewrite (tt_not_none r1 T), (tt_not_none _ (proj1 TT)). reflexivity.
      * split; [exact N1 | split; [intros; apply fnn_of_tt; exact TT | exact AT]].
    + split; [reflexivity|]. split.
      * split; [exact Gd1|]. split; [apply good_falsy; reflexivity|]. split; [exact T|].
        intro Ec. subst c. cbn [negb orb] in Hc. rewrite (N1 EDEPTH Hc T). reflexivity.
      * split; [exact N1 | split; [intros; apply fnn_none | exact AT]].
  - rewrite C. destruct O as (E & Q1 & Q2). right; right.
    split; [apply eqx_set_pos_r; apply eqx_set_pos_r; exact E|]. split; [exact Q1 | intros _; apply pos_set_pos].
  - rewrite C. right; right. exact I.
Qed.

Lemma step_unwrap_l i j c x fa fb psq1 psq2 s :
  fa + S fb <= n -> unit_kid g1 i = Some x -> pin_any R x j = true ->
  (negb c || efree g2 EDEPTH j)%bool = true ->
  orel i j c s (P1 (S fa) i psq1 s) (P2 (S fb) j psq2 s).
Proof.
  intros L U H Hc. unfold unit_kid in U. destruct (seq_kids g1 i) as [[|x' [|? ?]]|] eqn:SK; try discriminate.
  inversion U; subst x'. destruct (seq_kids_node g1 i [x] SK) as (nd & G & K & Pl & Su & Ki).
  pose proof (seq_node_cases g1 input orc fa i nd psq1 s G K Pl Su) as C. rewrite Ki in C. cbn [seq_loop] in C.
  pose proof (kid_any fa (S fb) x j L H true psq2 s) as O.
  destruct O as [O|[O|O]]; [rewrite O in C; left; exact C | right; left; exact O |].
  destruct (P1 fa x true s) as [r1 s1|s1|w1], (P2 (S fb) j psq2 s) as [r2 s2|s2|w2]; try contradiction.
  - destruct O as (E & V & N1 & N2 & AT). subst s2. destruct V as (Gd1 & Gd2 & T & _). right; right.
    destruct (truthy r1) eqn:T1; cbn [app] in C; rewrite C.
    + assert (TT : tt (post i nd (RList [r1]))).
      { apply post_list_tt; [exact Su | apply accok1; split; [exact T1 | apply Gd1; exact T1] | discriminate]. }
      split; [reflexivity|]. split.
      * split; [apply tt_good; exact TT|]. split; [exact Gd2|]. split; [destruct TT; congruence|].
        intros _. rewrite (tt_not_none _ (proj1 TT)), (tt_not_none r2 (eq_sym T)). reflexivity.
      * split; [intros; apply fnn_of_tt; exact TT|]. split; [exact N2 | intros _ _; apply TT].
    + split; [reflexivity|]. split.
      * split; [apply good_falsy; reflexivity|]. split; [exact Gd2|]. split; [exact T|].
        intro Ec. subst c. cbn [negb orb] in Hc. rewrite (N2 EDEPTH Hc (eq_sym T)). reflexivity.
      * split; [intros; apply fnn_none|]. split; [exact N2|].
        intros d q. destruct (atrue_seq0 d i nd G K q) as [d' q']. rewrite Ki in q'. cbn [existsb] in q'.
        rewrite orb_false_r in q'. specialize (AT d' q'). congruence.
  - rewrite C. destruct O as (E & Q1 & Q2). right; right.
    split; [apply eqx_set_pos_l; apply eqx_set_pos_l; exact E|]. split; [intros _; apply pos_set_pos | exact Q2].
  - rewrite C. right; right. exact I.
Qed.

Lemma step fa fb : fa + fb <= S n -> sim fa fb.
Proof.
  intros L i j c HIn psq1 psq2 s. destruct (HR _ HIn) as [Hl|Hs]; [|apply Hs].
  destruct fa as [|fa]; [left; reflexivity|]. destruct fb as [|fb]; [right; left; reflexivity|].
  unfold local_ok in Hl. destruct (get_node g1 i) as [a|] eqn:G1; [|discriminate].
  destruct (get_node g2 j) as [b|] eqn:G2; [|discriminate].
  apply orb_true_iff in Hl as [Hl|Hl]; [apply orb_true_iff in Hl as [Hl|Hl]|].
  - apply (step_struct i j c a b); try assumption. lia.
  - destruct (unit_kid g2 j) as [y|] eqn:U; [|discriminate]. apply andb_true_iff in Hl as [H1 H2].
    apply (step_unwrap i j c y); try assumption. lia.
  - destruct (unit_kid g1 i) as [x|] eqn:U; [|discriminate]. apply andb_true_iff in Hl as [H1 H2].
    apply (step_unwrap_l i j c x); try assumption. lia.
Qed.

End Step.

Lemma sim_all n : forall fa fb, fa + fb <= n -> sim fa fb.
Proof.
  induction n as [|n IHn]; intros fa fb L.
  - assert (fa = 0) by lia. subst. intros i j c _ psq1 psq2 s. left. reflexivity.
  - apply (step n IHn). exact L.
Qed.

(* outcomes of whole runs *)
Definition outcome_rel (o1 o2 : outcome) : Prop :=
  o1 = Aborted 0 \/ o2 = Aborted 0 \/
  match o1, o2 with
  | Parsed _, Parsed _ => True
  | SyntaxErr p, SyntaxErr q => p = q
  | Aborted _, Aborted _ => True
  | _, _ => False
  end.

Lemma run_rel cfg f1 f2 : outcome_rel (run g1 cfg orc false f1 input) (run g2 cfg orc false f2 input).
Proof.
  unfold run. pose proof HF as F. unfold frame_ok in F. apply andb_true_iff in F as [F _].
  apply pin_any_In in F as [c F].
  pose proof (sim_all (f1 + f2) f1 f2 (le_n _) _ _ _ F false false (init_st cfg)) as O.
  destruct O as [O|[O|O]]; [rewrite O; left; reflexivity | rewrite O; right; left; reflexivity |].
  destruct (P1 f1 (g_top g1) false (init_st cfg)) as [r1 s1|s1|w1],
           (P2 f2 (g_top g2) false (init_st cfg)) as [r2 s2|s2|w2]; try contradiction.
  - right; right. exact I.
  - right; right. destruct O as (E & _). unfold nm_pos. rewrite (eqx_nm _ _ E). reflexivity.
  - right; right. exact I.
Qed.

End Sound.

(* ---------------------------------------------------------------- the checker *)
Lemma filter_nil {A} (f : A -> bool) l : filter f l = [] -> forall x, In x l -> f x = false.
Proof.
  induction l as [|y l IH]; intros H x HIn; [contradiction|]. simpl in H.
  destruct (f y) eqn:E; [discriminate|]. destruct HIn as [->|HIn]; [exact E | apply IH; assumption].
Qed.

(* the oracle hypothesis: the listed oracle ids never report an empty match *)
Definition orc_nonempty (ne : list nat) (orc : nat -> nat -> option nat) : Prop :=
  forall o p, In o ne -> orc o p <> Some 0.

Theorem rel_sound g1 g2 ne R input orc :
  orc_nonempty ne orc ->
  frame_ok g1 g2 R = true ->
  (forall p, In p R -> local_ok g1 g2 ne false [] R p = true \/ sem_ok g1 g2 ne input orc p) ->
  forall cfg f1 f2, outcome_rel (run g1 cfg orc false f1 input) (run g2 cfg orc false f2 input).
Proof. intros Hne HF HR cfg f1 f2. apply (run_rel g1 g2 ne R input orc Hne HR HF). Qed.

Theorem diffs_sound ne seeds g1 g2 :
  peg_equiv_diffs ne seeds g1 g2 = [] ->
  forall input orc, orc_nonempty ne orc ->
  forall cfg f1 f2, outcome_rel (run g1 cfg orc false f1 input) (run g2 cfg orc false f2 input).
Proof.
  unfold peg_equiv_diffs, peg_equiv_diffs_gen. intros H input orc Hne cfg f1 f2.
  apply app_eq_nil in H as [H1 H2].
  apply (rel_sound g1 g2 ne (reach_all g1 g2 seeds) input orc Hne).
  - destruct (frame_ok g1 g2 (reach_all g1 g2 seeds)); [reflexivity | discriminate].
  - intros p HIn. left. pose proof (filter_nil _ _ H2 p HIn) as E. cbv beta in E.
    destruct (local_ok g1 g2 ne false [] (reach_all g1 g2 seeds) p); [reflexivity | simpl in E; discriminate].
Qed.

(* acceptance and error position, when neither run ran out of fuel *)
Corollary diffs_sound_accepts ne seeds g1 g2 :
  peg_equiv_diffs ne seeds g1 g2 = [] ->
  forall input orc cfg f1 f2, orc_nonempty ne orc ->
  run g1 cfg orc false f1 input <> Aborted 0 -> run g2 cfg orc false f2 input <> Aborted 0 ->
  accepts (run g1 cfg orc false f1 input) = accepts (run g2 cfg orc false f2 input)
  /\ (forall p, run g1 cfg orc false f1 input = SyntaxErr p <-> run g2 cfg orc false f2 input = SyntaxErr p).
Proof.
  intros H input orc cfg f1 f2 Hne A1 A2. pose proof (diffs_sound ne seeds g1 g2 H input orc Hne cfg f1 f2) as O.
  destruct O as [O|[O|O]]; [contradiction | contradiction |].
  destruct (run g1 cfg orc false f1 input), (run g2 cfg orc false f2 input); try contradiction.
  - split; [reflexivity | intro p; split; discriminate].
  - subst. split; [reflexivity | intro q; split; intro E; exact E].
  - split; [reflexivity | intro p; split; discriminate].
Qed.

Lemma orc_nonempty_nil orc : orc_nonempty [] orc.
Proof. intros o p []. Qed.

(* ---------------------------------------------------------------- small witnesses *)
(* Model: 'a' 'x'* ;  without and with textX-style wrappers around the two parts *)
Definition mk (k : kind) (kids : list nat) (root : bool) : node := mkNode k kids None false [] root false None None.
Definition g_plain : grammar :=
  mkGrammar [mk KSeq [1; 5] true; mk KSeq [2; 3] true; mk (KStr [97]%N None) [] false; mk KStar [4] false;
             mk (KStr [120]%N None) [] false; mk KEOF [] false] 0 None.
Definition g_wrapped : grammar :=
  mkGrammar [mk KSeq [1; 7] true; mk KSeq [2; 3] true; mk KSeq [4] true; mk KStar [5] true;
             mk (KStr [97]%N None) [] false; mk KSeq [6] true; mk (KStr [120]%N None) [] false; mk KEOF [] false] 0 None.
(* the same with 'y' instead of 'x' *)
Definition g_other : grammar :=
  mkGrammar [mk KSeq [1; 7] true; mk KSeq [2; 3] true; mk KSeq [4] true; mk KStar [5] true;
             mk (KStr [97]%N None) [] false; mk KSeq [6] true; mk (KStr [121]%N None) [] false; mk KEOF [] false] 0 None.
Definition cfg0 : config := mkConfig true [9; 10; 13; 32]%N.
Definition no_orc (o p : nat) : option nat := None.

Lemma witness_equal :
  peg_equiv_diffs [] [] g_plain g_wrapped = [] /\
  accepts (run g_plain cfg0 no_orc false 50 [97; 32; 120; 120]%N) = true /\
  accepts (run g_wrapped cfg0 no_orc false 50 [97; 32; 120; 120]%N) = true /\
  accepts (run g_plain cfg0 no_orc false 50 [97; 121]%N) = false /\
  accepts (run g_wrapped cfg0 no_orc false 50 [97; 121]%N) = false.
Proof. vm_compute. repeat split. Qed.

Lemma witness_different :
  peg_equiv_diffs [] [] g_plain g_other <> [] /\
  accepts (run g_plain cfg0 no_orc false 50 [97; 121]%N) = false /\
  accepts (run g_other cfg0 no_orc false 50 [97; 121]%N) = true.
Proof. vm_compute. repeat split. discriminate. Qed.

(* Model: '[' 'x' (',' 'x')* ']'   against   '[' 'x'+[','] ']'  (segment form), and
   Model: 'x' (',' 'x')*           against   'x'+[',']          (whole-node form) *)
Definition g_sep1 : grammar :=
  mkGrammar [mk KSeq [1; 8] true; mk KSeq [2; 3; 4; 7] true; mk (KStr [91]%N None) [] false; mk (KStr [120]%N None) [] false;
             mk KStar [5] false; mk KSeq [6; 3] false; mk (KStr [44]%N None) [] false; mk (KStr [93]%N None) [] false;
             mk KEOF [] false] 0 None.
Definition g_sep2 : grammar :=
  mkGrammar [mk KSeq [1; 7] true; mk KSeq [2; 3; 6] true; mk (KStr [91]%N None) [] false;
             mkNode KPlus [4] (Some 5) false [] true false None None; mk (KStr [120]%N None) [] false;
             mk (KStr [44]%N None) [] false; mk (KStr [93]%N None) [] false; mk KEOF [] false] 0 None.
Definition g_sep3 : grammar :=
  mkGrammar [mk KSeq [1; 6] true; mk KSeq [2; 3] true; mk (KStr [120]%N None) [] false;
             mk KStar [4] false; mk KSeq [5; 2] false; mk (KStr [44]%N None) [] false; mk KEOF [] false] 0 None.
Definition g_sep4 : grammar :=
  mkGrammar [mk KSeq [1; 4] true; mkNode KPlus [2] (Some 3) false [] true false None None; mk (KStr [120]%N None) [] false;
             mk (KStr [44]%N None) [] false; mk KEOF [] false] 0 None.

Lemma witness_sep :
  peg_equiv_diffs [] [] g_sep1 g_sep2 = [] /\ peg_equiv_diffs [] [] g_sep3 g_sep4 = [] /\
  accepts (run g_sep1 cfg0 no_orc false 60 [91; 120; 44; 32; 120; 93]%N) = true /\
  accepts (run g_sep2 cfg0 no_orc false 60 [91; 120; 44; 32; 120; 93]%N) = true /\
  accepts (run g_sep1 cfg0 no_orc false 60 [91; 120; 44; 93]%N) = false /\
  accepts (run g_sep2 cfg0 no_orc false 60 [91; 120; 44; 93]%N) = false /\
  accepts (run g_sep3 cfg0 no_orc false 60 [120; 44; 120; 44; 120]%N) = true /\
  accepts (run g_sep4 cfg0 no_orc false 60 [120; 44; 120; 44; 120]%N) = true.
Proof. vm_compute. repeat split. Qed.

(* ---------------------------------------------------------------- memoization on (through C19's theorem)
   For grammars in the class of Proofs/PegMemo.v (ctx_constant: no rule-level ws/skipws, no eolterm, no
   unordered group, no comment model) the memoized interpreter returns what the un-memoized one returns, so
   the checker is sound for memoization=True as well. *)
Corollary diffs_sound_memo ne seeds g1 g2 :
  ctx_constant g1 = true -> ctx_constant g2 = true ->
  peg_equiv_diffs ne seeds g1 g2 = [] ->
  forall input orc cfg f1 f2, orc_nonempty ne orc ->
  not_aborted (run g1 cfg orc false f1 input) -> not_aborted (run g2 cfg orc false f2 input) ->
  PegEquiv.accepts (run g1 cfg orc true f1 input) = PegEquiv.accepts (run g2 cfg orc true f2 input)
  /\ (forall p, run g1 cfg orc true f1 input = SyntaxErr p <-> run g2 cfg orc true f2 input = SyntaxErr p).
Proof.
  intros C1 C2 H input orc cfg f1 f2 Hne N1 N2.
  rewrite (memo_safe g1 input orc C1 cfg f1 N1), (memo_safe g2 input orc C2 cfg f2 N2).
  apply (diffs_sound_accepts ne seeds g1 g2 H input orc cfg f1 f2 Hne).
  - intro E. rewrite E in N1. exact N1.
  - intro E. rewrite E in N2. exact N2.
Qed.

Lemma witness_memo :
  ctx_constant g_sep1 = true /\ ctx_constant g_sep2 = true /\
  PegEquiv.accepts (run g_sep1 cfg0 no_orc true 60 [91; 120; 44; 32; 120; 93]%N) = true /\
  PegEquiv.accepts (run g_sep2 cfg0 no_orc true 60 [91; 120; 44; 32; 120; 93]%N) = true.
Proof. vm_compute. repeat split. Qed.

(* wrappers and nested sequences on the FIRST grammar *)
Lemma witness_swapped :
  peg_equiv_diffs [] [] g_wrapped g_plain = [] /\ peg_equiv_diffs [] [] g_other g_plain <> [].
Proof. vm_compute. split; [reflexivity | discriminate]. Qed.
