(* Generic lemmas about the list-of-successes regex semantics of Model/Rx.v:
   unfolding equations, the head ("first") of sequences / alternations / options,
   exact characterisation of greedy runs over one-character bodies, emptiness. *)
From TxV Require Import Core.Base Model.Rx.
Require Import Lia.

(* ---------------------------------------------------------------- lists *)
Lemma flat_map_nil {A B} (f : A -> list B) (l : list A) :
  (forall x, In x l -> f x = []) -> flat_map f l = [].
Proof.
  induction l as [|x l IH]; intros H; cbn; [reflexivity|].
  rewrite (H x (or_introl eq_refl)), IH; [reflexivity|].
  intros y Hy. apply H. right. exact Hy.
Qed.

Lemma hd_error_app_cons {A} (x : A) (l l' : list A) : hd_error ((x :: l) ++ l') = Some x.
Proof. reflexivity. Qed.

(* ---------------------------------------------------------------- unfolding *)
Lemma ends_seq E a b st : ends E (RSeq a b) st = flat_map (ends E b) (ends E a st).
Proof. reflexivity. Qed.
Lemma ends_alt E a b st : ends E (RAlt a b) st = ends E a st ++ ends E b st.
Proof. reflexivity. Qed.
Lemma ends_group E n r st : ends E (RGroup n r) st = ends E r st.
Proof. reflexivity. Qed.

Lemma chr_eq_plain E c l : e_ignorecase E = false -> chr_eq E c l = N.eqb c l.
Proof. intros H. unfold chr_eq. rewrite H. cbn. apply orb_false_r. Qed.

Lemma set_mem_plain E c items : e_ignorecase E = false -> set_mem E c items = existsb (item_match E c) items.
Proof. intros H. unfold set_mem. rewrite H. cbn. apply orb_false_r. Qed.

Lemma ends_chr E l pre c t : e_ignorecase E = false ->
  ends E (RChr l) (pre, c :: t) = if N.eqb c l then [(c :: pre, t)] else [].
Proof. intros H. cbn. unfold step1. cbn. rewrite chr_eq_plain by exact H. reflexivity. Qed.

Lemma ends_chr_nil E l pre : ends E (RChr l) (pre, []) = [].
Proof. reflexivity. Qed.

Lemma ends_notchr E l pre c t : e_ignorecase E = false ->
  ends E (RSet true [IChar l]) (pre, c :: t) = if N.eqb c l then [] else [(c :: pre, t)].
Proof.
  intros H. cbn. unfold step1. cbn. rewrite set_mem_plain by exact H. cbn.
  rewrite orb_false_r. destruct (N.eqb c l); reflexivity.
Qed.

Lemma ends_set E neg items pre c t :
  ends E (RSet neg items) (pre, c :: t) = if xorb neg (set_mem E c items) then [(c :: pre, t)] else [].
Proof. reflexivity. Qed.

Lemma ends_set_nil E neg items pre : ends E (RSet neg items) (pre, []) = [].
Proof. reflexivity. Qed.

(* ---------------------------------------------------------------- first *)
Lemma first_seq E a b st st1 st2 :
  rx_first E a st = Some st1 -> rx_first E b st1 = Some st2 -> rx_first E (RSeq a b) st = Some st2.
Proof.
  unfold rx_first. rewrite ends_seq.
  destruct (ends E a st) as [|x l]; cbn; [discriminate|]. intros [= ->].
  destruct (ends E b st1) as [|y l']; cbn; [discriminate|]. intros [= ->]. reflexivity.
Qed.

Lemma first_alt_l E a b st st1 : rx_first E a st = Some st1 -> rx_first E (RAlt a b) st = Some st1.
Proof.
  unfold rx_first. rewrite ends_alt. destruct (ends E a st); cbn; [discriminate|]. intros [= ->]. reflexivity.
Qed.

Lemma first_alt_r E a b st : ends E a st = [] -> rx_first E (RAlt a b) st = rx_first E b st.
Proof. unfold rx_first. rewrite ends_alt. intros ->. reflexivity. Qed.

Lemma first_group E n r st : rx_first E (RGroup n r) st = rx_first E r st.
Proof. reflexivity. Qed.

Lemma ends_seq_nil_l E a b st : ends E a st = [] -> ends E (RSeq a b) st = [].
Proof. rewrite ends_seq. intros ->. reflexivity. Qed.

Lemma ends_alt_nil E a b st : ends E a st = [] -> ends E b st = [] -> ends E (RAlt a b) st = [].
Proof. rewrite ends_alt. intros -> ->. reflexivity. Qed.

Lemma rx_match_first E r pre rest st' :
  rx_first E r (pre, rest) = Some st' -> rx_match E r pre rest = Some (length rest - length (snd st')).
Proof. unfold rx_first, rx_match. destruct (ends E r (pre, rest)); cbn; [discriminate|]. intros [= ->]. reflexivity. Qed.

Lemma rx_match_first_app E r pre lit rest pre' :
  rx_first E r (pre, lit ++ rest) = Some (pre', rest) -> rx_match E r pre (lit ++ rest) = Some (length lit).
Proof.
  intros H. rewrite (rx_match_first _ _ _ _ _ H). cbn [snd]. rewrite app_length. f_equal. lia.
Qed.

Lemma rx_match_nil E r pre rest : ends E r (pre, rest) = [] -> rx_match E r pre rest = None.
Proof. unfold rx_match. intros ->. reflexivity. Qed.

(* ---------------------------------------------------------------- option  r? *)
Lemma ends_opt E r st :
  ends E (RRep true 0 (Some 1) r) st =
  flat_map (fun st' => if Nat.ltb (length (snd st')) (length (snd st)) then [st'] else []) (ends E r st) ++ [st].
Proof.
  cbn [ends rep_loop is_zero_opt pred_opt Nat.add Nat.pred]. f_equal. apply flat_map_ext. intros st'.
  destruct (Nat.ltb (length (snd st')) (length (snd st))) eqn:Hlt; [|reflexivity].
  apply Nat.ltb_lt in Hlt. destruct (length (snd st)) as [|k]; [lia|]. reflexivity.
Qed.

Lemma first_opt_skip E r st : ends E r st = [] -> rx_first E (RRep true 0 (Some 1) r) st = Some st.
Proof. intros H. unfold rx_first. rewrite ends_opt, H. reflexivity. Qed.

Lemma first_opt_take E r st st1 :
  rx_first E r st = Some st1 -> length (snd st1) < length (snd st) ->
  rx_first E (RRep true 0 (Some 1) r) st = Some st1.
Proof.
  unfold rx_first. rewrite ends_opt. destruct (ends E r st) as [|x l]; cbn [hd_error]; [discriminate|].
  intros [= ->] Hlt. apply Nat.ltb_lt in Hlt. cbn [flat_map]. rewrite Hlt. reflexivity.
Qed.

Lemma ends_opt_nil_body E r st : ends E r st = [] -> ends E (RRep true 0 (Some 1) r) st = [st].
Proof. intros H. rewrite ends_opt, H. reflexivity. Qed.

(* ---------------------------------------------------------------- greedy runs over a one-character body *)
Definition stops (ok : N -> bool) (rest : list N) : Prop :=
  match rest with [] => True | c :: _ => ok c = false end.

(* every way a greedy repetition can stop inside `run`, longest first *)
Fixpoint prefix_states (pre run rest : list N) : list (list N * list N) :=
  match run with
  | [] => [(pre, rest)]
  | c :: run' => prefix_states (c :: pre) run' rest ++ [(pre, run ++ rest)]
  end.

Lemma step1_hit ok pre c t : ok c = true -> step1 ok (pre, c :: t) = [(c :: pre, t)].
Proof. intros H. unfold step1. cbn. rewrite H. reflexivity. Qed.

Lemma step1_stop ok pre rest : stops ok rest -> step1 ok (pre, rest) = [].
Proof. unfold step1, stops. cbn. destruct rest; [reflexivity|]. intros ->. reflexivity. Qed.

Lemma rep_star_step1 ok : forall run pre rest fuel,
  forallb ok run = true -> stops ok rest -> length (run ++ rest) < fuel ->
  rep_loop (step1 ok) true 0 None fuel (pre, run ++ rest) = prefix_states pre run rest.
Proof.
  induction run as [|c run IH]; intros pre rest fuel Hall Hstop Hfuel.
  - destruct fuel as [|f]; [cbn in Hfuel; lia|].
    cbn [rep_loop is_zero_opt app]. rewrite step1_stop by exact Hstop. reflexivity.
  - destruct fuel as [|f]; [cbn in Hfuel; lia|].
    cbn [forallb] in Hall. apply andb_true_iff in Hall as [Hc Hall].
    cbn [rep_loop is_zero_opt app]. rewrite step1_hit by exact Hc.
    cbn [flat_map snd length]. rewrite (proj2 (Nat.ltb_lt _ _)) by lia.
    cbn [pred_opt]. rewrite IH; [| exact Hall | exact Hstop | cbn in Hfuel; lia].
    rewrite app_nil_r. reflexivity.
Qed.

Lemma ends_star_set E neg items run pre rest :
  forallb (fun c => xorb neg (set_mem E c items)) run = true ->
  stops (fun c => xorb neg (set_mem E c items)) rest ->
  ends E (RRep true 0 None (RSet neg items)) (pre, run ++ rest) = prefix_states pre run rest.
Proof.
  intros Hall Hstop. cbn [ends snd].
  apply (rep_star_step1 (fun c => xorb neg (set_mem E c items))); [exact Hall | exact Hstop | cbn; lia].
Qed.

Lemma rep_loop_lo step g lo hi f st :
  rep_loop step g (S lo) hi (S f) st = flat_map (rep_loop step g lo (pred_opt hi) f) (step st).
Proof. reflexivity. Qed.

Lemma ends_plus_set E neg items run pre rest :
  forallb (fun c => xorb neg (set_mem E c items)) run = true ->
  stops (fun c => xorb neg (set_mem E c items)) rest ->
  ends E (RRep true 1 None (RSet neg items)) (pre, run ++ rest) =
  match run with [] => [] | c :: run' => prefix_states (c :: pre) run' rest end.
Proof.
  intros Hall Hstop. cbn [ends snd]. rewrite rep_loop_lo. cbn [pred_opt].
  destruct run as [|c run].
  - cbn [app]. rewrite (step1_stop (fun c => xorb neg (set_mem E c items))) by exact Hstop. reflexivity.
  - cbn [forallb] in Hall. apply andb_true_iff in Hall as [Hc Hall].
    cbn [app]. rewrite (step1_hit (fun c => xorb neg (set_mem E c items))) by exact Hc.
    cbn [flat_map]. rewrite app_nil_r.
    apply (rep_star_step1 (fun c => xorb neg (set_mem E c items))); [exact Hall | exact Hstop | cbn; lia].
Qed.

Lemma prefix_states_hd pre run rest :
  exists tl, prefix_states pre run rest = (rev run ++ pre, rest) :: tl.
Proof.
  revert pre. induction run as [|c run IH]; intros pre.
  - exists []. reflexivity.
  - destruct (IH (c :: pre)) as [tl Htl]. cbn [prefix_states]. rewrite Htl.
    eexists. cbn [rev]. rewrite <- app_assoc. cbn [app]. reflexivity.
Qed.

Lemma prefix_states_in pre run rest st' :
  In st' (prefix_states pre run rest) ->
  exists a b, run = a ++ b /\ st' = (rev a ++ pre, b ++ rest).
Proof.
  revert pre. induction run as [|c run IH]; intros pre Hin.
  - cbn in Hin. destruct Hin as [<-|[]]. exists [], []. split; reflexivity.
  - cbn [prefix_states] in Hin. apply in_app_or in Hin as [Hin|Hin].
    + destruct (IH _ Hin) as (a & b & -> & ->). exists (c :: a), b. split; [reflexivity|].
      cbn [rev]. rewrite <- app_assoc. reflexivity.
    + destruct Hin as [<-|[]]. exists [], (c :: run). split; reflexivity.
Qed.

(* the remaining input after any way of stopping inside the run starts with a run character or is `rest` *)
Lemma prefix_states_next ok pre run rest st' :
  forallb ok run = true -> In st' (prefix_states pre run rest) ->
  snd st' = rest \/ exists c t, snd st' = c :: t /\ ok c = true.
Proof.
  intros Hall Hin. destruct (prefix_states_in _ _ _ _ Hin) as (a & b & -> & ->).
  cbn [snd]. destruct b as [|c b]; [left; reflexivity|]. right. exists c, (b ++ rest). split; [reflexivity|].
  rewrite forallb_app in Hall. apply andb_true_iff in Hall as [_ Hb]. cbn in Hb.
  apply andb_true_iff in Hb as [Hc _]. exact Hc.
Qed.

Lemma first_star_set E neg items run pre rest :
  forallb (fun c => xorb neg (set_mem E c items)) run = true ->
  stops (fun c => xorb neg (set_mem E c items)) rest ->
  rx_first E (RRep true 0 None (RSet neg items)) (pre, run ++ rest) = Some (rev run ++ pre, rest).
Proof.
  intros Hall Hstop. unfold rx_first. rewrite ends_star_set by assumption.
  destruct (prefix_states_hd pre run rest) as [tl ->]. reflexivity.
Qed.

Lemma first_plus_set E neg items c run pre rest :
  forallb (fun c => xorb neg (set_mem E c items)) (c :: run) = true ->
  stops (fun c => xorb neg (set_mem E c items)) rest ->
  rx_first E (RRep true 1 None (RSet neg items)) (pre, (c :: run) ++ rest) = Some (rev (c :: run) ++ pre, rest).
Proof.
  intros Hall Hstop. unfold rx_first. rewrite ends_plus_set by assumption.
  destruct (prefix_states_hd (c :: pre) run rest) as [tl ->]. cbn [rev hd_error]. rewrite <- app_assoc. reflexivity.
Qed.

(* a one-or-more repetition cannot start on a character outside the set *)
Lemma ends_plus_set_nil E neg items pre rest :
  stops (fun c => xorb neg (set_mem E c items)) rest ->
  ends E (RRep true 1 None (RSet neg items)) (pre, rest) = [].
Proof.
  intros Hstop. apply (ends_plus_set E neg items [] pre rest); [reflexivity | exact Hstop].
Qed.

(* ---------------------------------------------------------------- look-around, word boundary *)
Lemma ends_lookahead_neg_set E items pre rest :
  stops (fun c => set_mem E c items) rest ->
  ends E (RLookAhead true (RSet false items)) (pre, rest) = [(pre, rest)].
Proof.
  intros Hstop. cbn [ends]. unfold step1. cbn [snd]. destruct rest as [|c t]; [reflexivity|].
  cbn in Hstop. cbn [xorb]. rewrite Hstop. reflexivity.
Qed.

Lemma ends_lookbehind1_set E items c pre rest :
  set_mem E c items = true ->
  ends E (RLookBehind false 1 (RSet false items)) (c :: pre, rest) = [(c :: pre, rest)].
Proof.
  intros Hc. cbn [ends back fst snd]. unfold step1. cbn [snd fst xorb]. rewrite Hc.
  cbn [existsb snd]. rewrite Nat.eqb_refl. reflexivity.
Qed.

(* ---------------------------------------------------------------- fuel: the out-of-fuel branch of rep_loop is never taken *)
Definition shrinks (step : list N * list N -> list (list N * list N)) : Prop :=
  forall st st', In st' (step st) -> length (snd st') <= length (snd st).

Lemma flat_map_ext_in {A B} (f g : A -> list B) l :
  (forall x, In x l -> f x = g x) -> flat_map f l = flat_map g l.
Proof.
  induction l as [|x l IH]; intros H; [reflexivity|]. cbn [flat_map].
  rewrite (H x (or_introl eq_refl)), IH; [reflexivity|]. intros y Hy. apply H. right. exact Hy.
Qed.

Lemma rep_loop_shrinks step g : shrinks step ->
  forall fuel lo hi st st', In st' (rep_loop step g lo hi fuel st) -> length (snd st') <= length (snd st).
Proof.
  intros Hs. induction fuel as [|f IH]; intros lo hi st st' Hin; [destruct Hin|].
  cbn [rep_loop] in Hin. destruct lo as [|lo'].
  - destruct (is_zero_opt hi).
    + destruct Hin as [<-|[]]. apply le_n.
    + assert (Hmore : forall x, In x (flat_map (fun st'0 => if Nat.ltb (length (snd st'0)) (length (snd st))
                                   then rep_loop step g 0 (pred_opt hi) f st'0 else []) (step st)) ->
                                length (snd x) <= length (snd st)).
      { intros x Hx. apply in_flat_map in Hx as (mid & Hmid & Hx).
        destruct (Nat.ltb (length (snd mid)) (length (snd st))) eqn:Hlt; [|destruct Hx].
        apply Nat.ltb_lt in Hlt. specialize (IH _ _ _ _ Hx). lia. }
      destruct g.
      * apply in_app_or in Hin as [Hin | [<-|[]]]; [apply Hmore; exact Hin | apply le_n].
      * destruct Hin as [<- | Hin]; [apply le_n | apply Hmore; exact Hin].
  - apply in_flat_map in Hin as (mid & Hmid & Hin). specialize (IH _ _ _ _ Hin). specialize (Hs _ _ Hmid). lia.
Qed.

Lemma step1_shrinks ok : shrinks (step1 ok).
Proof.
  intros [pre rest] st' Hin. unfold step1 in Hin. cbn [snd fst] in Hin. destruct rest as [|c t]; [destruct Hin|].
  destruct (ok c); [|destruct Hin]. destruct Hin as [<-|[]]. cbn. lia.
Qed.

Lemma ends_shrinks E r : shrinks (ends E r).
Proof.
  induction r; intros st st' Hin; cbn [ends] in Hin;
    try (apply (step1_shrinks _ _ _ Hin)).
  - destruct Hin as [<-|[]]. apply le_n.
  - apply in_flat_map in Hin as (mid & Hmid & Hin). specialize (IHr1 _ _ Hmid). specialize (IHr2 _ _ Hin). lia.
  - apply in_app_or in Hin as [Hin|Hin]; [apply (IHr1 _ _ Hin) | apply (IHr2 _ _ Hin)].
  - apply (rep_loop_shrinks _ _ IHr _ _ _ _ _ Hin).
  - apply (IHr _ _ Hin).
  - destruct (xorb neg (nonempty (ends E r st))); [destruct Hin as [<-|[]]; apply le_n | destruct Hin].
  - destruct (back w st).
    + destruct (xorb neg _); [destruct Hin as [<-|[]]; apply le_n | destruct Hin].
    + destruct neg; [destruct Hin as [<-|[]]; apply le_n | destruct Hin].
  - destruct (xorb neg (word_boundary E st)); [destruct Hin as [<-|[]]; apply le_n | destruct Hin].
  - destruct (at_bol E st); [destruct Hin as [<-|[]]; apply le_n | destruct Hin].
  - destruct (at_eol E st); [destruct Hin as [<-|[]]; apply le_n | destruct Hin].
Qed.

(* any fuel above lo + |rest| gives the same result: the fuel of `ends` is never exhausted *)
Lemma rep_loop_fuel step g : shrinks step ->
  forall f1 lo hi st f2, lo + length (snd st) < f1 -> lo + length (snd st) < f2 ->
  rep_loop step g lo hi f1 st = rep_loop step g lo hi f2 st.
Proof.
  intros Hs. induction f1 as [|f1 IH]; intros lo hi st f2 H1 H2; [lia|]. destruct f2 as [|f2]; [lia|].
  cbn [rep_loop]. destruct lo as [|lo'].
  - destruct (is_zero_opt hi); [reflexivity|].
    assert (Hm : flat_map (fun st' => if Nat.ltb (length (snd st')) (length (snd st))
                                      then rep_loop step g 0 (pred_opt hi) f1 st' else []) (step st)
               = flat_map (fun st' => if Nat.ltb (length (snd st')) (length (snd st))
                                      then rep_loop step g 0 (pred_opt hi) f2 st' else []) (step st)).
    { apply flat_map_ext_in. intros st' Hin.
      destruct (Nat.ltb (length (snd st')) (length (snd st))) eqn:Hlt; [|reflexivity].
      apply Nat.ltb_lt in Hlt. apply IH; lia. }
    rewrite Hm. reflexivity.
  - apply flat_map_ext_in. intros st' Hin. specialize (Hs _ _ Hin). apply IH; lia.
Qed.

Lemma ends_rep_fuel E g lo hi r st fuel : lo + length (snd st) < fuel ->
  ends E (RRep g lo hi r) st = rep_loop (ends E r) g lo hi fuel st.
Proof. intros H. cbn [ends]. apply rep_loop_fuel; [apply ends_shrinks | lia | exact H]. Qed.

(* ---------------------------------------------------------------- invariants of every success *)
(* the text is only traversed: reversed prefix ++ rest is the same text, and rest is a suffix of the rest given *)
Definition same_text (st st' : list N * list N) : Prop := rev (fst st') ++ snd st' = rev (fst st) ++ snd st.

Lemma rep_loop_same_text step g :
  (forall st st', In st' (step st) -> same_text st st') ->
  forall fuel lo hi st st', In st' (rep_loop step g lo hi fuel st) -> same_text st st'.
Proof.
  intros Hs. induction fuel as [|f IH]; intros lo hi st st' Hin; [destruct Hin|].
  cbn [rep_loop] in Hin. destruct lo as [|lo'].
  - destruct (is_zero_opt hi).
    + destruct Hin as [<-|[]]. reflexivity.
    + assert (Hmore : forall x, In x (flat_map (fun st'0 => if Nat.ltb (length (snd st'0)) (length (snd st))
                                   then rep_loop step g 0 (pred_opt hi) f st'0 else []) (step st)) -> same_text st x).
      { intros x Hx. apply in_flat_map in Hx as (mid & Hmid & Hx).
        destruct (Nat.ltb (length (snd mid)) (length (snd st))); [|destruct Hx].
        specialize (IH _ _ _ _ Hx). specialize (Hs _ _ Hmid). unfold same_text in *. congruence. }
      destruct g.
      * apply in_app_or in Hin as [Hin | [<-|[]]]; [apply Hmore; exact Hin | reflexivity].
      * destruct Hin as [<- | Hin]; [reflexivity | apply Hmore; exact Hin].
  - apply in_flat_map in Hin as (mid & Hmid & Hin). specialize (IH _ _ _ _ Hin). specialize (Hs _ _ Hmid).
    unfold same_text in *. congruence.
Qed.

Lemma step1_same_text ok st st' : In st' (step1 ok st) -> same_text st st'.
Proof.
  destruct st as [pre rest]. unfold step1. cbn [snd fst]. destruct rest as [|c t]; [intros []|].
  destruct (ok c); [|intros []]. intros [<-|[]]. unfold same_text. cbn [fst snd rev]. rewrite <- app_assoc. reflexivity.
Qed.

Lemma ends_same_text E r : forall st st', In st' (ends E r st) -> same_text st st'.
Proof.
  induction r; intros st st' Hin; cbn [ends] in Hin;
    try (apply (step1_same_text _ _ _ Hin)).
  - destruct Hin as [<-|[]]. reflexivity.
  - apply in_flat_map in Hin as (mid & Hmid & Hin). specialize (IHr1 _ _ Hmid). specialize (IHr2 _ _ Hin).
    unfold same_text in *. congruence.
  - apply in_app_or in Hin as [Hin|Hin]; [apply (IHr1 _ _ Hin) | apply (IHr2 _ _ Hin)].
  - apply (rep_loop_same_text _ _ IHr _ _ _ _ _ Hin).
  - apply (IHr _ _ Hin).
  - destruct (xorb neg (nonempty (ends E r st))); [destruct Hin as [<-|[]]; reflexivity | destruct Hin].
  - destruct (back w st).
    + destruct (xorb neg _); [destruct Hin as [<-|[]]; reflexivity | destruct Hin].
    + destruct neg; [destruct Hin as [<-|[]]; reflexivity | destruct Hin].
  - destruct (xorb neg (word_boundary E st)); [destruct Hin as [<-|[]]; reflexivity | destruct Hin].
  - destruct (at_bol E st); [destruct Hin as [<-|[]]; reflexivity | destruct Hin].
  - destruct (at_eol E st); [destruct Hin as [<-|[]]; reflexivity | destruct Hin].
Qed.

Lemma suffix_of_app {A} (a b s s' : list A) : a ++ s' = b ++ s -> length s' <= length s -> exists m, s = m ++ s'.
Proof.
  intros Heq Hlen. apply app_eq_app in Heq as [l [[-> Hs] | [-> Hs]]].
  - exists l. exact Hs.
  - assert (l = []).
    { destruct l as [|x l]; [reflexivity|]. subst s'. rewrite app_length in Hlen. cbn in Hlen. lia. }
    subst l. exists []. symmetry. exact Hs.
Qed.

(* every success consumed a prefix `m` of the input: rest = m ++ rest', prefix' = rev m ++ prefix *)
Lemma ends_consumes E r pre rest st' :
  In st' (ends E r (pre, rest)) -> exists m, rest = m ++ snd st' /\ fst st' = rev m ++ pre.
Proof.
  intros Hin. pose proof (ends_same_text E r _ _ Hin) as Ht. pose proof (ends_shrinks E r _ _ Hin) as Hl.
  unfold same_text in Ht. cbn [fst snd] in *.
  destruct (suffix_of_app _ _ _ _ Ht Hl) as [m Hm]. exists m. split; [exact Hm|].
  rewrite Hm in Ht. rewrite app_assoc in Ht. apply app_inv_tail in Ht.
  apply (f_equal (@rev N)) in Ht. rewrite rev_involutive, rev_app_distr, rev_involutive in Ht. exact Ht.
Qed.

(* what rx_match reports is the length of a prefix of the input, and the match is the head success *)
Lemma rx_match_prefix E r pre rest n :
  rx_match E r pre rest = Some n ->
  exists m rest', rest = m ++ rest' /\ length m = n /\ rx_first E r (pre, rest) = Some (rev m ++ pre, rest').
Proof.
  unfold rx_match, rx_first. destruct (ends E r (pre, rest)) as [|st' l] eqn:He; [discriminate|].
  intros [= <-]. destruct (ends_consumes E r pre rest st') as (m & Hm & Hp); [rewrite He; left; reflexivity|].
  exists m, (snd st'). split; [exact Hm|]. split.
  - rewrite Hm at 1. rewrite app_length. lia.
  - cbn [hd_error]. rewrite <- Hp. destruct st'; reflexivity.
Qed.

Lemma ends_seq_in E a b st st' :
  In st' (ends E (RSeq a b) st) -> exists mid, In mid (ends E a st) /\ In st' (ends E b mid).
Proof. rewrite ends_seq. intros H. apply in_flat_map in H. exact H. Qed.

(* a pattern that ends in a negative look-ahead for a character set only succeeds before a character outside it *)
Lemma ends_lookahead_neg_in E items st st' :
  In st' (ends E (RLookAhead true (RSet false items)) st) -> st' = st /\ stops (fun c => set_mem E c items) (snd st).
Proof.
  cbn [ends]. destruct st as [pre rest]. unfold step1. cbn [snd fst]. destruct rest as [|c t].
  - cbn. intros [<-|[]]. split; [reflexivity | exact I].
  - cbn [xorb stops]. destruct (set_mem E c items); cbn; [intros [] | intros [<-|[]]; split; reflexivity].
Qed.
