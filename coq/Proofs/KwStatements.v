(* Proof scripts of the statements of Props/C20.v and Props/C21.v that need more than one step
   (Props files only contain statements closed by [exact]). *)
From TxV Require Import Core.Base Model.PegSyntax Model.Peg Model.Build Model.KwDefs Gen.SrcKw Model.Kw
     Proofs.PegCongr Proofs.PegInv Proofs.KwProofs Proofs.KwCheckProofs Proofs.KwInv Proofs.KwBuild Proofs.KwModel Proofs.KwModel2 Proofs.KwWitness.

Lemma stmt_C20_compile : forall wordc digitc autokwd t pat,
  spec_icase (compile_lit wordc digitc autokwd true t) = true /\
  spec_icase (compile_regex true pat) = true.
Proof.
  intros. split; [apply compile_lit_icase; reflexivity | apply compile_regex_icase; reflexivity].
Qed.

Lemma stmt_C20_literals_case_blind : forall lower wordc t s s' p,
  case_variant lower s s' ->
  str_match lower true t s' p = str_match lower true t s p /\
  (word_lower lower wordc -> kw_match wordc lower true t s' p = kw_match wordc lower true t s p).
Proof.
  intros lower wordc t s s' p H. split; [apply str_match_blind, H | intro Hw; apply kw_match_blind; assumption].
Qed.

Lemma stmt_C20_values_keep_case : forall lower s s' p len,
  case_variant lower s s' ->
  case_variant lower (slice s p len) (slice s' p len) /\
  ((forall i, p <= i < p + len -> nth_error s' i = nth_error s i) -> slice s' p len = slice s p len).
Proof. intros lower s s' p len H. split; [apply slice_case_variant, H | apply slice_unchanged]. Qed.

Lemma stmt_C20_refuted_case_sensitive_builtin :
  exists g cfg tbl tbl' s s',
    all_str_icase g = true /\ case_variant ascii_lower s s' /\
    accepted (run g cfg (orc_of tbl) false 50 s) = true /\
    run g cfg (orc_of tbl') false 50 s' = SyntaxErr 5.
Proof.
  exists g_bool, cfg_default, tbl_bool1, tbl_bool2, in_bool1, in_bool2.
  destruct bool_refuted as [H1 [H2 [_ [_ [_ [H3 H4]]]]]]. repeat split; assumption.
Qed.

Lemma stmt_C20_nonvacuous :
  in_begin1 <> in_begin2 /\
  run g_begin cfg_default (orc_of tbl_begin) false 50 in_begin2
  = run g_begin cfg_default (orc_of tbl_begin) false 50 in_begin1 /\
  accepted (run g_begin cfg_default (orc_of tbl_begin) false 50 in_begin1) = true.
Proof.
  destruct begin_hyps as [Hne [Hall [Hcv [Hws Hacc]]]]. split; [exact Hne|]. split; [|exact Hacc].
  apply (icase_invariant ascii_lower g_begin cfg_default (fun _ => orc_of tbl_begin) false 50 in_begin1 in_begin2 Hall);
    [intros nid nd o _ _ s s' _ p; reflexivity | exact Hcv | exact Hws].
Qed.

Lemma stmt_C20_check_nonvacuous :
  c20_hyp_b ascii_lower g_begin cfg_default tbl_begin tbl_begin in_begin1 in_begin2 = true.
Proof. vm_compute. reflexivity. Qed.

Lemma stmt_C20_literals_nonvacuous :
  str_match ascii_lower true [105;102]%N [73;70;32;120]%N 0 = Some 2 /\
  str_match ascii_lower false [105;102]%N [73;70;32;120]%N 0 = None /\
  kw_match ascii_word ascii_lower true [105;102]%N [73;70;32;120]%N 0 = Some 2 /\
  kw_match ascii_word ascii_lower true [105;102]%N [73;70;120]%N 0 = None.
Proof. vm_compute. repeat split. Qed.

Lemma stmt_C21_source_is_modelled :
  src_kw_pattern = modelled_kw_pattern /\ src_kw_prefix = [] /\ src_kw_suffix = modelled_kw_suffix /\
  src_kw_guard_is_autokwd = true /\ src_kw_full_span = true /\
  src_kw_icase = IcMM /\ src_str_icase = IcMM /\ src_re_icase = IcMM.
Proof. repeat split; reflexivity. Qed.

Lemma stmt_C21_kw_detect : forall wordc digitc icase t,
  compile_lit wordc digitc true icase t =
    (if kw_like wordc digitc t then TRegex (t ++ [92;98]%N) icase t else TStr t icase) /\
  (kw_like wordc digitc t = true <->
   exists c r, t = c :: r /\ digitc c = false /\ wordc c = true /\ forallb wordc r = true).
Proof.
  intros. split; [|apply kw_like_spec].
  rewrite compile_lit_kw by reflexivity. reflexivity.
Qed.

Lemma stmt_C21_boundary : forall wordc digitc lower icase t input p,
  word_ok wordc lower icase -> kw_like wordc digitc t = true ->
  (word_at wordc input (p + length t) = true -> kw_match wordc lower icase t input p = None) /\
  kw_match wordc lower icase t input p =
    (if (lit_prefix lower icase t (skipn p input) && negb (word_at wordc input (p + length t)))%bool
     then Some (length t) else None).
Proof.
  intros wordc digitc lower icase t input p Hw Hk.
  split; [apply (kw_boundary wordc digitc); assumption | apply (kw_match_char wordc digitc); assumption].
Qed.

Lemma stmt_C21_other_literals_identical : forall wordc digitc icase t,
  kw_like wordc digitc t = false ->
  compile_lit wordc digitc true icase t = compile_lit wordc digitc false icase t.
Proof. intros. apply compile_lit_other; [reflexivity | reflexivity | assumption]. Qed.

Lemma stmt_C21_kw_nonvacuous :
  kw_like ascii_word ascii_digit [105;102]%N = true /\            (* if   *)
  kw_like ascii_word ascii_digit [95;97;49]%N = true /\           (* _a1  *)
  kw_like ascii_word ascii_digit [49;97]%N = false /\             (* 1a   *)
  kw_like ascii_word ascii_digit [97;45;98]%N = false /\          (* a-b  *)
  kw_like ascii_word ascii_digit [43]%N = false /\                (* +    *)
  kw_like ascii_word ascii_digit []%N = false /\
  kw_match ascii_word ascii_lower false [105;102]%N [105;102;32;120]%N 0 = Some 2 /\   (* "if x" *)
  kw_match ascii_word ascii_lower false [105;102]%N [105;102;120]%N 0 = None /\        (* "ifx"  *)
  kw_match ascii_word ascii_lower false [105;102]%N [105;102]%N 0 = Some 2 /\          (* "if"   *)
  kw_match ascii_word ascii_lower false [105;102]%N [105;102;40]%N 0 = Some 2.         (* "if("  *)
Proof. vm_compute. repeat split. Qed.


(* non-vacuity of the parse-level boundary theorem: `('in' x=ID | y=ID) ';'` with autokwd on "in x;" *)
Definition kwt_in (nid : nat) : option (list N * bool) :=
  if Nat.eqb nid 4 then Some ([105;110]%N, false) else None.

Lemma stmt_C21_boundary_parse_nonvacuous :
  kw_oracle_spec ascii_word ascii_digit ascii_lower kwt_in g_in_kw in_in1 (orc_of tbl_in1_kw) /\
  exists r, run g_in_kw cfg_default (orc_of tbl_in1_kw) false 50 in_in1 = Parsed r /\
            In (4, 0, 2) (res_terminals r) /\ word_at ascii_word in_in1 (0 + 2) = false.
Proof.
  split.
  - intros nid t ic H. unfold kwt_in in H. destruct (Nat.eqb_spec nid 4) as [->|]; [|discriminate].
    injection H as <- <-. eexists. exists 0. split; [reflexivity|]. split; [reflexivity|]. split; [reflexivity|].
    apply (expected_row_sound _ in_in1); [|vm_compute; reflexivity].
    intros p Hp. unfold kw_match. rewrite lit_prefix_beyond; [reflexivity | discriminate | exact Hp].
  - eexists. split; [vm_compute; reflexivity|]. split; [vm_compute; auto | reflexivity].
Qed.

Lemma stmt_C21_terminal_invariant : forall pt g input orc memo,
  (forall nid nd psq s r s',
      get_node g nid = Some nd -> term_parse input orc nid (n_kind nd) psq s = Ok r s' ->
      res_okb pt r = true) ->
  forall cfg fuel r, run g cfg orc memo fuel input = Parsed r ->
  forall nid p len, In (nid, p, len) (res_terminals r) -> pt nid p len = true.
Proof.
  intros pt g input orc memo Ht cfg fuel r Hrun.
  exact (res_okb_In pt r (run_ok pt g input orc memo Ht cfg fuel r Hrun)).
Qed.

(* ---- model level: metamodel tables dumped by tools/mmdump.py *)
Definition mm_begin : list ninfo := [IOther;
  IRule RCommon [77;111;100;101;108]%N [mkAttr [110;97;109;101]%N M1 true false [73;68]%N false];
  ITerm []%N 0;
  IAsgn [110;97;109;101]%N OpPlain;
  ITerm [73;68]%N 0;
  ITerm []%N 0;
  ITerm [69;79;70]%N 0].
Definition mm_in : list ninfo := [IOther;
  IRule RCommon [77;111;100;101;108]%N [mkAttr [120]%N M1 true false [73;68]%N false;mkAttr [121]%N M1 true false [73;68]%N false];
  IOther;
  IOther;
  ITerm []%N 0;
  IAsgn [120]%N OpPlain;
  ITerm [73;68]%N 0;
  IAsgn [121]%N OpPlain;
  ITerm []%N 0;
  ITerm [69;79;70]%N 0].
Definition no_grp : nat -> nat -> option (nat * nat) := fun _ _ => None.

(* `'begin' name=ID 'end'`, ignore_case: "begin x end" / "BEGIN x End" give the same object *)
Lemma stmt_C20_model_structure_nonvacuous :
  exists r v,
    run g_begin cfg_default (orc_of tbl_begin) false 50 in_begin1 = Parsed r /\
    base_matches_unchanged g_begin in_begin1 in_begin2 r /\
    build g_begin mm_begin in_begin1 no_grp true false r = BOk v /\
    build g_begin mm_begin in_begin2 no_grp true false r = BOk v /\
    v = VObj [77;111;100;101;108]%N 0 11 [([110;97;109;101]%N, VTerm [73;68]%N [120]%N)].
Proof.
  eexists. eexists. split; [vm_compute; reflexivity|]. split.
  - intros nid p len Hin Hb. vm_compute in Hin.
    repeat (destruct Hin as [E|Hin]; [injection E as <- <- <-; first [discriminate Hb | reflexivity]|]). destruct Hin.
  - split; [vm_compute; reflexivity|]. split; vm_compute; reflexivity.
Qed.

(* `('in' x=ID | y=ID) ';'` on "in x;": the plain and the autokwd table build the same object *)
Lemma stmt_C21_same_model_objects_nonvacuous :
  kw_case_ok ascii_word ascii_digit ascii_lower in_in1 tbl_in1_plain tbl_in1_kw g_in_plain g_in_kw = true /\
  no_glue_ok ascii_word ascii_digit ascii_lower in_in1 g_in_plain = true /\
  replaced_are_exact g_in_plain g_in_kw /\
  exists r v,
    run g_in_plain cfg_default (orc_of tbl_in1_plain) false 50 in_in1 = Parsed r /\
    build g_in_plain mm_in in_in1 no_grp true false r = BOk v /\
    build g_in_kw mm_in in_in1 no_grp true false (fr (kw_supf g_in_plain g_in_kw) r) = BOk v /\
    v = VObj [77;111;100;101;108]%N 0 5 [([120]%N, VTerm [73;68]%N [120]%N); ([121]%N, VDefault [73;68]%N)].
Proof.
  split; [vm_compute; reflexivity|]. split; [vm_compute; reflexivity|]. split.
  - intros nid nd nd' t oid o' Hn Hn' Hk Hk'.
    do 10 (destruct nid as [|nid]; [vm_compute in Hn, Hn'; injection Hn as <-; injection Hn' as <-;
                                     cbn in Hk, Hk'; try discriminate; injection Hk as _ <-; reflexivity|]).
    vm_compute in Hn. destruct nid; discriminate.
  - eexists. eexists. split; [vm_compute; reflexivity|]. split; [vm_compute; reflexivity|]. split; vm_compute; reflexivity.
Qed.

(* ---- `Model: k=Kw n=ID; Kw: 'foo'|'bar';` with ignore_case, plain / autokwd, on "FOO x": the extent of the
   known finding icase-keyword-spelling - the two object graphs are related up to case, and differ *)
Definition g_kwv_plain : grammar := (mkGrammar [mkNode KSeq [1;8] None false [77;111;100;101;108]%N true false None None;
  mkNode KSeq [2;6] None false [77;111;100;101;108]%N true false None None;
  mkNode KSeq [3] None false [95;95;97;115;103;110;95;112;108;97;105;110]%N true false None None;
  mkNode KChoice [4;5] None false [75;119]%N true false None None;
  mkNode (KStr [102;111;111]%N (Some 0)) [] None false []%N false false None None;
  mkNode (KStr [98;97;114]%N (Some 1)) [] None false []%N false false None None;
  mkNode KSeq [7] None false [95;95;97;115;103;110;95;112;108;97;105;110]%N true false None None;
  mkNode (KRegex 2) [] None false [73;68]%N true false None None;
  mkNode KEOF [] None false [69;79;70]%N false false None None] 0 None).
Definition g_kwv_kw : grammar := (mkGrammar [mkNode KSeq [1;8] None false [77;111;100;101;108]%N true false None None;
  mkNode KSeq [2;6] None false [77;111;100;101;108]%N true false None None;
  mkNode KSeq [3] None false [95;95;97;115;103;110;95;112;108;97;105;110]%N true false None None;
  mkNode KChoice [4;5] None false [75;119]%N true false None None;
  mkNode (KRegex 0) [] None false []%N false false None None;
  mkNode (KRegex 1) [] None false []%N false false None None;
  mkNode KSeq [7] None false [95;95;97;115;103;110;95;112;108;97;105;110]%N true false None None;
  mkNode (KRegex 2) [] None false [73;68]%N true false None None;
  mkNode KEOF [] None false [69;79;70]%N false false None None] 0 None).
Definition tbl_kwv := [((0,0),3);((2,0),3);((2,1),2);((2,2),1);((2,4),1)].
Definition mm_kwv : list ninfo := [IOther;
  IRule RCommon [77;111;100;101;108]%N [mkAttr [107]%N M1 true false [75;119]%N false;mkAttr [110]%N M1 true false [73;68]%N false];
  IAsgn [107]%N OpPlain;
  IRule RMatch [75;119]%N [];
  ITerm []%N 0;
  ITerm []%N 0;
  IAsgn [110]%N OpPlain;
  ITerm [73;68]%N 0;
  ITerm [69;79;70]%N 0].
Definition in_kwv : list N := [70;79;79;32;120]%N.     (* "FOO x" *)

Lemma stmt_C21_model_objects_related_nonvacuous :
  kw_case_ok ascii_word ascii_digit ascii_lower in_kwv tbl_kwv tbl_kwv g_kwv_plain g_kwv_kw = true /\
  no_glue_ok ascii_word ascii_digit ascii_lower in_kwv g_kwv_plain = true /\
  exists r v v',
    run g_kwv_plain cfg_default (orc_of tbl_kwv) false 50 in_kwv = Parsed r /\
    build g_kwv_plain mm_kwv in_kwv no_grp true true r = BOk v /\
    build g_kwv_kw mm_kwv in_kwv no_grp true true (fr (kw_supf g_kwv_plain g_kwv_kw) r) = BOk v' /\
    vrel ascii_lower v v' /\ v' <> v /\
    v = VObj [77;111;100;101;108]%N 0 5
             [([107]%N, VConv [75;119]%N (VTerm []%N [102;111;111]%N)); ([110]%N, VTerm [73;68]%N [120]%N)] /\
    v' = VObj [77;111;100;101;108]%N 0 5
             [([107]%N, VConv [75;119]%N (VTerm []%N [70;79;79]%N)); ([110]%N, VTerm [73;68]%N [120]%N)].
Proof.
  split; [vm_compute; reflexivity|]. split; [vm_compute; reflexivity|].
  eexists. eexists. eexists. split; [vm_compute; reflexivity|]. split; [vm_compute; reflexivity|].
  split; [vm_compute; reflexivity|]. split.
  - cbn. repeat split; try reflexivity; first [left; reflexivity | right; split; reflexivity].
  - split; [discriminate|]. split; reflexivity.
Qed.
