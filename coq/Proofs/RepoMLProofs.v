(* Proofs about loading across several registered languages (C17/C18): the loader with an external cache
   (load_file_x / load_main_x) and the machine ml_load of Model/Repo.v.  Reuses the invariant Inv and the removal
   lemmas of Proofs/RepoProofs.v; the step relation is weaker than there: entries of models that existed before the
   load may be ADDED to all_models (models taken from another language's repository), never lost. *)
From TxV Require Import Core.Base Model.RepoDefs Gen.SrcRepo Model.Repo Proofs.RepoProofs.
Require Import Lia.

Section CleanX.
  Variable fs : list file.
  Variable c : cfg.
  Variable n0 : nat.
  Variable x : nat -> option nat.
  Notation Inv := (Inv n0).
  Notation ltn0 := (fun y : nat => Nat.ltb y n0).

  Record StepX (s s' : state) : Prop := mkStepX {
    sx_inv : Inv s';
    sx_old : incl (old n0 s) (old n0 s');
    sx_prov : forall kv, In kv (old n0 s') -> In kv (old n0 s) \/ x (fst kv) = Some (snd kv);
    sx_loc : forall y, y < n0 -> local_of y s' = local_of y s;
    sx_heap : forall v mi, nth_error (heap s) v = Some mi -> nth_error (heap s') v = Some mi;
    sx_constr : incl (constr s) (constr s');
    sx_cold : filter ltn0 (constr s') = filter ltn0 (constr s);
    sx_tgt : targets s' = targets s;
    sx_curop : curop s' = curop s }.

  Lemma Step_StepX s s' : Step n0 s s' -> StepX s s'.
  Proof. intros [A B C D E F G H]. constructor; auto; rewrite B; [apply incl_refl | auto]. Qed.
  Lemma StepX_refl s : Inv s -> StepX s s.
  Proof. intro H. apply Step_StepX, Step_refl, H. Qed.
  Lemma StepX_trans s s1 s2 : StepX s s1 -> StepX s1 s2 -> StepX s s2.
  Proof.
    intros [A B P C D E F G H] [A' B' P' C' D' E' F' G' H']. constructor.
    - exact A'.
    - eapply incl_tran; eassumption.
    - intros kv Hin. destruct (P' kv Hin) as [H1|H1]; [apply P; exact H1 | right; exact H1].
    - intros y Hy. rewrite C', C; auto.
    - auto.
    - eapply incl_tran; eassumption.
    - congruence.
    - congruence.
    - congruence.
  Qed.

  (* the external cache hands out models that existed before the load, are complete, and are models of that file *)
  Definition XOK (s : state) : Prop :=
    forall g m', x g = Some m' ->
      m' < n0 /\ ~ In m' (constr s) /\ exists mi, nth_error (heap s) m' = Some mi /\ mfile mi = g.

  Lemma XOK_step s s' : StepX s s' -> XOK s -> XOK s'.
  Proof.
    intros Hst HX g m' Hx. destruct (HX g m' Hx) as [Hlt [Hc [mi [Hh Hf]]]].
    split; [exact Hlt|]. split.
    - intro Hin. apply Hc.
      assert (H : In m' (filter ltn0 (constr s'))) by (apply filter_In; split; [exact Hin | apply Nat.ltb_lt; exact Hlt]).
      rewrite (sx_cold _ _ Hst) in H. apply filter_In in H. tauto.
    - exists mi. split; [apply (sx_heap _ _ Hst); exact Hh | exact Hf].
  Qed.

  Lemma StepX_set_all_ext s g m' :
    Inv s -> XOK s -> dget g (allm s) = None -> x g = Some m' ->
    StepX s (set_all g m' s) /\ Pres s (set_all g m' s) /\ dget g (allm (set_all g m' s)) = Some m'.
  Proof.
    intros HI HX Hg Hx. destruct (HX g m' Hx) as [Hlt [Hc [mi [Hh Hf]]]].
    pose proof HI as HI'. destruct HI as [A B C D E F G H].
    assert (Ea : allm (set_all g m' s) = allm s ++ [(g, m')]) by (autorewrite with st; apply dset_fresh; exact Hg).
    assert (Hv : ~ In m' (map snd (allm s))).
    { intro Hin. apply in_map_iff in Hin as [[k v] [Hv Hin]]. cbn in Hv. subst v.
      destruct (D k m' Hin) as [mi' [H1 H2]]. rewrite Hh in H1. inversion H1; subst mi'.
      apply dget_None_notin in Hg. apply Hg. apply in_map_iff. exists (k, m'). split; [cbn; congruence | exact Hin]. }
    split; [|split].
    - constructor; [constructor|..]; rewrite ?Ea; autorewrite with st; auto using incl_refl.
      + rewrite map_app. apply NoDup_snoc; [exact B | apply dget_None_notin; exact Hg].
      + rewrite map_app. apply NoDup_snoc; [exact C | exact Hv].
      + intros k v Hin. try rewrite Ea in Hin. apply in_app_or in Hin as [Hin|[Hin|[]]]; [apply D; exact Hin|].
        inversion Hin; subst. exists mi. auto.
      + intros k v Hin Hl. try rewrite Ea in Hin. apply in_app_or in Hin as [Hin|[Hin|[]]]; [eapply E; eassumption|]. inversion Hin; subst. exact Hc.
      + intros k v Hin Hge. try rewrite Ea in Hin. apply in_app_or in Hin as [Hin|[Hin|[]]]; [eapply F; eassumption|]. inversion Hin; subst. lia.
      + unfold old. rewrite Ea, filter_app. apply incl_appl, incl_refl.
      + intros kv Hin. unfold old in Hin. rewrite Ea, filter_app in Hin. apply in_app_or in Hin as [Hin|Hin]; [left; exact Hin|].
        right. apply filter_In in Hin as [[Hin|[]] _]. subst kv. exact Hx.
    - intros k v Hk. autorewrite with st. destruct (Nat.eq_dec g k) as [->|Hne]; [congruence | rewrite dget_dset_other; assumption].
    - autorewrite with st. apply dget_dset_same.
  Qed.

  Definition loader_clX (ld : nat -> state -> (err + nat) * state) : Prop :=
    forall g s, Inv s -> XOK s -> dget g (allm s) = None ->
      StepX s (snd (ld g s)) /\
      (forall m, fst (ld g s) = inr m ->
         Pres s (snd (ld g s)) /\
         (dget g (allm (snd (ld g s))) = Some m \/ (snd (ld g s) = s /\ x g = Some m))).

  Lemma m_lt_heap s m (mi : minfo) : nth_error (heap s) m = Some mi -> m < length (heap s).
  Proof. intro H. apply nth_error_Some. congruence. Qed.

  Lemma load_model_clX ld m mi g s r s' :
    loader_clX ld -> Inv s -> XOK s -> n0 <= m -> nth_error (heap s) m = Some mi -> load_model ld m g s = (r, s') ->
    StepX s s' /\ (r = None -> Pres s s').
  Proof.
    intros Hld HI HX Hm Hh. unfold load_model.
    pose proof (m_lt_heap s m mi Hh) as Hml.
    destruct (dhas g (local_of m s)).
    { intro H. inversion H; subst. split; [apply StepX_refl; exact HI | intros _; apply Pres_refl]. }
    destruct (dget g (allm s)) as [m'|] eqn:Eg.
    { intro H. inversion H; subst. split; [|intros _ k v Hk; exact Hk].
      apply Step_StepX, Step_set_local; auto. apply dget_In in Eg. destruct (inv_file n0 s HI g m' Eg) as [mi' [Hmi _]].
      apply nth_error_Some. congruence. }
    destruct (Hld g s HI HX Eg) as [Hst Hok].
    destruct (ld g s) as [[e|m'] s1]; cbn [fst snd] in *.
    - intro H. inversion H; subst. split; [exact Hst | discriminate].
    - intro H. inversion H; subst. destruct (Hok m' eq_refl) as [Hp [Hg1|[Es Hx]]].
      + assert (Hst1 : StepX s (set_all g m' s1)).
        { eapply StepX_trans; [exact Hst|]. apply Step_StepX.
          eapply Step_ext; [apply Step_refl; apply (sx_inv _ _ Hst) | reflexivity | apply set_all_same; exact Hg1 | reflexivity..]. }
        split.
        * eapply StepX_trans; [exact Hst1|]. apply Step_StepX, Step_set_local; [apply (sx_inv _ _ Hst1) | exact Hm | |].
          { autorewrite with st. apply nth_error_Some. rewrite (sx_heap _ _ Hst m mi Hh). discriminate. }
          autorewrite with st. apply dget_In in Hg1. destruct (inv_file n0 s1 (sx_inv _ _ Hst) g m' Hg1) as [mi' [Hmi _]].
          apply nth_error_Some. congruence.
        * intros _ k v Hk. autorewrite with st. rewrite (dset_same g m' (allm s1) Hg1). apply Hp. exact Hk.
      + subst s1. destruct (StepX_set_all_ext s g m' HI HX Eg Hx) as [Hst1 [Hp1 _]].
        split.
        * eapply StepX_trans; [exact Hst1|]. apply Step_StepX, Step_set_local; [apply (sx_inv _ _ Hst1) | exact Hm | |].
          { autorewrite with st. exact Hml. }
          autorewrite with st. destruct (HX g m' Hx) as [Hlt _]. pose proof (inv_n0 n0 s HI). lia.
        * intros _ k v Hk. autorewrite with st. apply Hp1. exact Hk.
  Qed.

  Lemma load_files_clX ld m mi gs : forall s r s',
    loader_clX ld -> Inv s -> XOK s -> n0 <= m -> nth_error (heap s) m = Some mi -> load_files ld m gs s = (r, s') ->
    StepX s s' /\ (r = None -> Pres s s').
  Proof.
    induction gs as [|g gs IH]; intros s r s' Hld HI HX Hm Hh; cbn.
    - intro H. inversion H; subst. split; [apply StepX_refl; exact HI | intros _; apply Pres_refl].
    - destruct (load_model ld m g s) as [r1 s1] eqn:E1.
      destruct (load_model_clX _ _ _ _ _ _ _ Hld HI HX Hm Hh E1) as [Hst1 Hp1].
      destruct r1 as [e|].
      + intro H. inversion H; subst. split; [exact Hst1 | discriminate].
      + intro H. destruct (IH s1 r s' Hld (sx_inv _ _ Hst1) (XOK_step _ _ Hst1 HX) Hm (sx_heap _ _ Hst1 m mi Hh) H) as [Hst2 Hp2].
        split; [eapply StepX_trans; eassumption|]. intro Hr. eapply Pres_trans; [apply Hp1; reflexivity | apply Hp2; exact Hr].
  Qed.

  Lemma load_stmts_clX ld m mf mi stmts : forall s r s',
    loader_clX ld -> Inv s -> XOK s -> n0 <= m -> In m (constr s) -> nth_error (heap s) m = Some mi -> mfile mi = mf ->
    load_stmts ld m mf stmts s = (r, s') ->
    StepX s s' /\ (r = None -> Pres s s').
  Proof.
    induction stmts as [|gs rest IH]; intros s r s' Hld HI HX Hm Hc Hh Hf; cbn.
    - intro H. inversion H; subst. split; [apply StepX_refl; exact HI | intros _; apply Pres_refl].
    - destruct (update_in_repo_cl n0 s m mf mi HI Hm Hc Hh Hf) as [Hst1' Hp1]. pose proof (Step_StepX _ _ Hst1') as Hst1.
      destruct gs as [|g0 gs0].
      + intro H. inversion H; subst. split; [exact Hst1 | discriminate].
      + destruct (load_files ld m (g0 :: gs0) (update_in_repo m mf s)) as [r2 s2] eqn:E2.
        destruct (load_files_clX _ _ _ _ _ _ _ Hld (sx_inv _ _ Hst1) (XOK_step _ _ Hst1 HX) Hm (sx_heap _ _ Hst1 m mi Hh) E2) as [Hst2 Hp2].
        assert (Hst12 : StepX s s2) by (eapply StepX_trans; eassumption).
        destruct r2 as [e|].
        * intro H. inversion H; subst. split; [exact Hst12 | discriminate].
        * intro H.
          destruct (IH s2 r s' Hld (sx_inv _ _ Hst12) (XOK_step _ _ Hst12 HX) Hm (sx_constr _ _ Hst12 m Hc) (sx_heap _ _ Hst12 m mi Hh) Hf H) as [Hst3 Hp3].
          split; [eapply StepX_trans; eassumption|]. intro Hr.
          eapply Pres_trans; [exact Hp1|]. eapply Pres_trans; [apply Hp2; reflexivity | apply Hp3; exact Hr].
  Qed.

  Lemma load_file_x_cl fuel : forall main g s,
    Inv s -> XOK s -> dget g (allm s) = None ->
    StepX s (snd (load_file_x x fs c fuel main g s)) /\
    (forall m, fst (load_file_x x fs c fuel main g s) = inr m ->
       Pres s (snd (load_file_x x fs c fuel main g s)) /\ n0 <= m /\ In m (constr (snd (load_file_x x fs c fuel main g s))) /\
       (main = false -> dget g (allm (snd (load_file_x x fs c fuel main g s))) = Some m)) /\
    (forall e, fst (load_file_x x fs c fuel main g s) = inl e -> main = true ->
       (forall kv, In kv (allm s) -> is_old n0 kv = true) ->
       incl (allm s) (allm (snd (load_file_x x fs c fuel main g s))) /\
       (forall kv, In kv (allm (snd (load_file_x x fs c fuel main g s))) -> is_old n0 kv = true)).
  Proof.
    induction fuel as [|k IH]; intros main g s HI HX Hg.
    { cbn. split; [apply StepX_refl; exact HI|]. split; [discriminate|]. intros e _ _ Ho. split; [apply incl_refl | exact Ho]. }
    cbn [load_file_x].
    destruct (nth_error fs g) as [fc|] eqn:Efc.
    2:{ cbn. split; [apply StepX_refl; exact HI|]. split; [discriminate|]. intros e _ _ Ho. split; [apply incl_refl | exact Ho]. }
    assert (Hst1 : StepX s (with_reads s (reads s ++ [g]))).
    { apply Step_StepX. eapply Step_ext; [apply Step_refl; exact HI | reflexivity..]. }
    destruct (fsyn fc).
    { cbn. split; [exact Hst1|]. split; [discriminate|]. intros e _ _ Ho. split; [apply incl_refl | exact Ho]. }
    rewrite src_register_before.
    set (s1 := with_reads s (reads s ++ [g])) in *.
    set (mid := length (heap s1)).
    set (s2 := alloc g fc s1).
    assert (Hst2 : StepX s s2) by (eapply StepX_trans; [exact Hst1 | apply Step_StepX, Step_alloc; apply (sx_inv _ _ Hst1)]).
    assert (Hmid : n0 <= mid) by (apply (inv_n0 n0 s1 (sx_inv _ _ Hst1))).
    assert (Hc2 : In mid (constr s2)) by (subst s2; autorewrite with st; left; reflexivity).
    assert (Hh2 : nth_error (heap s2) mid = Some (mkMinfo g (curop s1) fc)).
    { subst s2 mid. autorewrite with st. rewrite nth_error_app2 by lia. rewrite Nat.sub_diag. reflexivity. }
    assert (Hv2 : ~ In mid (map snd (allm s2))).
    { intro Hin. apply in_map_iff in Hin as [[k' v] [Hv Hin]]. cbn in Hv. subst v.
      destruct (inv_file n0 s1 (sx_inv _ _ Hst1) k' mid Hin) as [mi' [H1 _]].
      assert (mid < length (heap s1)) by (apply nth_error_Some; congruence). subst mid. lia. }
    set (s3 := if (main && negb (cglobal c))%bool then s2 else set_all g mid s2).
    assert (H3 : StepX s s3 /\ Pres s s3 /\ ((main && negb (cglobal c))%bool = false -> dget g (allm s3) = Some mid)).
    { subst s3. destruct (main && negb (cglobal c))%bool.
      - split; [exact Hst2|]. split; [intros k' v' Hk; exact Hk | discriminate].
      - destruct (Step_set_all_fresh n0 s2 g mid _ (sx_inv _ _ Hst2) Hg Hmid Hc2 Hh2 eq_refl Hv2) as [A [B C]].
        split; [eapply StepX_trans; [exact Hst2 | apply Step_StepX; exact A]|]. split; [exact B | intros _; exact C]. }
    destruct H3 as [Hst3 [Hp3 Hreg3]].
    assert (Hld : loader_clX (with_ext x (load_file_x x fs c k false))).
    { intros g' s' HI' HX' Hg'. unfold with_ext. destruct (x g') as [m0|] eqn:Ex.
      - cbn [fst snd]. split; [apply StepX_refl; exact HI'|]. intros m' Hm'. inversion Hm'; subst m'.
        split; [apply Pres_refl | right; auto].
      - destruct (IH false g' s' HI' HX' Hg') as [A [B _]]. split; [exact A|].
        intros m' Hm'. destruct (B m' Hm') as [B1 [_ [_ B3]]]. split; [exact B1 | left; apply B3; reflexivity]. }
    assert (Hc3 : In mid (constr s3)) by (subst s3; destruct (main && negb (cglobal c))%bool; exact Hc2).
    assert (Hh3 : nth_error (heap s3) mid = Some (mkMinfo g (curop s1) fc)) by (subst s3; destruct (main && negb (cglobal c))%bool; exact Hh2).
    destruct (if (clazy c && is_nil (frefs fc))%bool then (None, s3)
              else load_stmts (with_ext x (load_file_x x fs c k false)) mid g (fimports fc) s3) as [r s4] eqn:E4.
    assert (H4 : StepX s3 s4 /\ (r = None -> Pres s3 s4)).
    { destruct (clazy c && is_nil (frefs fc))%bool.
      - inversion E4; subst. split; [apply StepX_refl; apply (sx_inv _ _ Hst3) | intros _; apply Pres_refl].
      - exact (load_stmts_clX _ _ _ _ _ _ _ _ Hld (sx_inv _ _ Hst3) (XOK_step _ _ Hst3 HX) Hmid Hc3 Hh3 eq_refl E4). }
    destruct H4 as [Hst4 Hp4].
    assert (Hst04 : StepX s s4) by (eapply StepX_trans; eassumption).
    destruct r as [e|].
    { cbn [fst snd]. destruct (handler_clean n0 s4 mid (sx_inv _ _ Hst04) Hmid) as [Hh Ha].
      split; [eapply StepX_trans; [exact Hst04 | apply Step_StepX; exact Hh]|]. split; [discriminate|].
      intros e' _ _ Hold. rewrite Ha. split.
      - intros kv Hin. apply (sx_old _ _ Hst04). unfold old. apply filter_In. split; [exact Hin | apply Hold; exact Hin].
      - intros kv Hin. unfold old in Hin. apply filter_In in Hin. tauto. }
    assert (Hp04 : Pres s s4) by (eapply Pres_trans; [exact Hp3 | apply Hp4; reflexivity]).
    assert (Hg4 : main = false -> dget g (allm s4) = Some mid).
    { intro Hm. apply Hp4; [reflexivity|]. apply Hreg3. subst main. reflexivity. }
    assert (Hc4 : In mid (constr s4)) by (apply (sx_constr _ _ Hst4); exact Hc3).
    destruct main.
    - cbn [fst snd]. split; [exact Hst04|]. split; [|discriminate]. intros m Hm. inversion Hm; subst m. auto.
    - destruct (fmp fc); cbn [fst snd].
      + split; [exact Hst04|]. split; discriminate.
      + split; [exact Hst04|]. split; [|discriminate]. intros m Hm. inversion Hm; subst m. auto.
  Qed.
End CleanX.

(* the three cleanups of a main-model failure, for an arbitrary list `cached` of models that are not counted as
   loaded by the call (own repository before the load ++ the other languages' repositories) *)
Lemma finish_main_clean_gen n0 c f m cached s1 e s' :
  Inv n0 s1 -> n0 <= m -> In m (constr s1) ->
  (forall kv, In kv (old n0 s1) -> In (snd kv) cached) -> (forall v, In v cached -> v < n0) ->
  finish_main c f m cached s1 = (inl e, s') ->
  Inv n0 s' /\ allm s' = old n0 s1 /\ (forall y, y < n0 -> local_of y s' = local_of y s1).
Proof.
  intros HI Hm Hc Hcov Hcached. unfold finish_main. rewrite src_cleanup_inner, src_cleanup_mp.
  set (models := filter (fun x => mem x (constr s1)) (included m s1)).
  assert (Hmm : In m models) by (apply filter_In; split; [apply In_included; auto | apply mem_In; exact Hc]).
  assert (Hne : models <> []) by (intro H; rewrite H in Hmm; destruct Hmm).
  destruct (constr_rem_facts n0 s1 m HI Hm) as [Hk Hr]. fold models in Hk, Hr.
  assert (Hfin : forall s3, heap s3 = heap s1 -> allm s3 = allm s1 -> locals s3 = locals s1 -> incl (constr s3) (constr s1) ->
            Inv n0 (handler m (remove_from_repos models models s3)) /\ allm (handler m (remove_from_repos models models s3)) = old n0 s1 /\
            (forall y, y < n0 -> local_of y (handler m (remove_from_repos models models s3)) = local_of y s1)).
  { intros s3 Eh Ea El Ec. destruct (cleanup_any n0 s1 s3 models models HI Eh Ea El Ec Hne Hk Hr) as [HI3 [Ha3 Hl3]].
    destruct (handler_clean n0 _ m HI3 Hm) as [Hst Ha].
    split; [apply (st_inv _ _ _ Hst)|]. split.
    - rewrite Ha. unfold old at 1. rewrite Ha3. apply old_old.
    - intros y Hy. rewrite (st_loc _ _ _ Hst y Hy). apply Hl3. exact Hy. }
  destruct (resolve_all c models s1) as [e1|s2] eqn:Er.
  { intro H. inversion H; subst. apply Hfin; auto using incl_refl. }
  apply resolve_all_frame in Er. destruct Er as [_ [Ea [Eh [El Ec]]]].
  set (s3 := with_constr s2 (filter (fun x => negb (mem x models)) (constr s2))).
  assert (Ec3 : incl (constr s3) (constr s1)).
  { subst s3. cbn. rewrite Ec. intros y Hy. apply filter_In in Hy. tauto. }
  destruct (first_obj_fail models s3).
  { intro H. inversion H; subst. apply Hfin; auto. }
  set (loaded := filter (fun x => negb (mem x cached)) (included m s3)).
  destruct (flag_of fmp m s3); [|discriminate].
  intro H. inversion H; subst.
  assert (Hinc3 : included m s3 = included m s1) by (unfold included; subst s3; cbn; rewrite Ea; reflexivity).
  assert (Hml : In m loaded).
  { apply filter_In. split; [rewrite Hinc3; apply In_included; auto|]. apply negb_true_iff, mem_false.
    intro Hin. apply Hcached in Hin. lia. }
  assert (Hlne : loaded <> []) by (intro H0; rewrite H0 in Hml; destruct Hml).
  assert (Hlr : forall v, In v loaded -> n0 <= v).
  { intros v Hv. apply filter_In in Hv as [Hi Hnc]. rewrite Hinc3 in Hi. apply negb_true_iff, mem_false in Hnc.
    apply In_included in Hi as [Hi | ->]; [|exact Hm].
    apply in_map_iff in Hi as [[k v'] [<- Hin]]. cbn. destruct (Nat.lt_ge_cases v' n0) as [Hlt|Hge]; [|exact Hge].
    exfalso. apply Hnc. apply (Hcov (k, v')). unfold old. apply filter_In. split; [exact Hin|]. unfold is_old. cbn. apply Nat.ltb_lt. exact Hlt. }
  assert (Hlk : forall kv, In kv (allm s1) -> keep_none loaded kv = is_old n0 kv).
  { intros [k v] Hin. unfold keep_none, is_old. cbn [snd]. destruct (Nat.ltb v n0) eqn:E.
    - apply Nat.ltb_lt in E. apply negb_true_iff, mem_false. intro Hl. apply Hlr in Hl. lia.
    - apply Nat.ltb_ge in E. apply negb_false_iff, mem_In. apply filter_In. split.
      + rewrite Hinc3. apply In_included. left. apply in_map_iff. exists (k, v). auto.
      + apply negb_true_iff, mem_false. intro Hin'. apply Hcached in Hin'. lia. }
  destruct (cleanup_any n0 s1 s3 loaded loaded HI) as [HI' [Ha' Hl']]; auto.
Qed.

(* C18 for a load across languages, on the un-collected function: whatever fails, the importer's all_models loses
   nothing it had, ends up holding only models that existed before the load (its own earlier entries plus, possibly,
   models taken from the other languages' repositories), earlier models' local_models are untouched, state well formed *)
Theorem load_main_x_failure_clean_raw x xvals fs c f s e s' :
  Stable s -> XOK (length (heap s)) x (begin_op c s) ->
  (forall g m', x g = Some m' -> In m' xvals) -> (forall v, In v xvals -> v < length (heap s)) ->
  load_main_x_raw x xvals fs c f s = (inl e, s') ->
  incl (allm (begin_op c s)) (allm s') /\
  (forall k v, In (k, v) (allm s') -> v < length (heap s)) /\
  (forall y, y < length (heap s) -> local_of y s' = local_of y s) /\ Stable s'.
Proof.
  intros HS HX Hxv Hxb. unfold load_main_x_raw. set (s0 := begin_op c s) in *.
  pose proof (Stable_begin_op c s HS) as HS0. fold s0 in HS0.
  destruct (Stable_Inv s0 HS0) as [HI0 Hold0].
  assert (Eh0 : heap s0 = heap s) by (subst s0; unfold begin_op; destruct (cglobal c); reflexivity).
  assert (El0 : forall y, local_of y s0 = local_of y s) by (intro y; subst s0; unfold begin_op; destruct (cglobal c); reflexivity).
  set (n0 := length (heap s0)) in *.
  assert (En : n0 = length (heap s)) by (unfold n0; rewrite Eh0; reflexivity).
  assert (Hallold0 : forall k v, In (k, v) (allm s0) -> v < length (heap s)).
  { intros k v Hin. specialize (Hold0 _ Hin). unfold is_old in Hold0. cbn [snd] in Hold0. apply Nat.ltb_lt in Hold0. rewrite <- Eh0. exact Hold0. }
  destruct (if cglobal c then dget f (allm s0) else None) as [m|] eqn:Ec.
  { destruct (model_processors_on_cached && flag_of fmp m s0)%bool; intro H; inversion H; subst.
    split; [apply incl_refl|]. split; [exact Hallold0|]. split; [intros; apply El0 | exact HS0]. }
  assert (Hg : dget f (allm s0) = None).
  { destruct (cglobal c) eqn:Eg; [exact Ec|]. subst s0. unfold begin_op. rewrite Eg. reflexivity. }
  rewrite <- En in HX.
  destruct (load_file_x_cl fs c n0 x (S (length fs)) true f s0 HI0 HX Hg) as [Hst [Hok Hfail]].
  assert (Hfinal : forall s1, Inv n0 s1 -> (forall kv, In kv (allm s1) -> is_old n0 kv = true) -> Stable s1)
    by (intros s1 A B; exact (Inv_old_Stable n0 s1 A B)).
  destruct (load_file_x x fs c (S (length fs)) true f s0) as [[e1|m] s1] eqn:El; cbn [fst snd] in *.
  - intro H. inversion H; subst. destruct (Hfail e eq_refl eq_refl Hold0) as [Hi Ho].
    split; [exact Hi|]. split.
    { intros k v Hin. pose proof (Ho _ Hin) as Ho1. unfold is_old in Ho1. cbn [snd] in Ho1. apply Nat.ltb_lt in Ho1. lia. }
    split; [|apply Hfinal; [apply (sx_inv _ _ _ _ Hst) | exact Ho]].
    intros y Hy. rewrite (sx_loc _ _ _ _ Hst y); [apply El0 | lia].
  - destruct (Hok m eq_refl) as [Hp [Hm [Hc _]]]. intro H.
    assert (Hcov : forall kv, In kv (old n0 s1) -> In (snd kv) (map snd (allm s0) ++ xvals)).
    { intros [k v] Hin. cbn [snd]. apply in_or_app. destruct (sx_prov _ _ _ _ Hst (k, v) Hin) as [H0|H0].
      - left. unfold old in H0. apply filter_In in H0 as [H0 _]. apply in_map_iff. exists (k, v). auto.
      - right. apply (Hxv k v). exact H0. }
    assert (Hcb : forall v, In v (map snd (allm s0) ++ xvals) -> v < n0).
    { intros v Hin. apply in_app_or in Hin as [Hin|Hin]; [|rewrite En; apply Hxb; exact Hin].
      apply in_map_iff in Hin as [[k v'] [<- Hin]]. rewrite En. eapply Hallold0. exact Hin. }
    destruct (finish_main_clean_gen n0 c f m _ s1 e s' (sx_inv _ _ _ _ Hst) Hm Hc Hcov Hcb H) as [HI' [Ha' Hl']].
    assert (Hallold : forall kv, In kv (allm s') -> is_old n0 kv = true).
    { intros kv Hin. rewrite Ha' in Hin. unfold old in Hin. apply filter_In in Hin. tauto. }
    split.
    { intros kv Hin. rewrite Ha'. apply (sx_old _ _ _ _ Hst). unfold old. apply filter_In. split; [exact Hin | apply Hold0; exact Hin]. }
    split.
    { intros k v Hin. pose proof (Hallold _ Hin) as Ho1. unfold is_old in Ho1. cbn [snd] in Ho1. apply Nat.ltb_lt in Ho1. lia. }
    split; [|apply Hfinal; assumption].
    intros y Hy. assert (Hy0 : y < n0) by lia. rewrite (Hl' y Hy0), (sx_loc _ _ _ _ Hst y Hy0). apply El0.
Qed.

Lemma finish_main_ok_constr c f m cached s1 m' s' :
  finish_main c f m cached s1 = (inr m', s') -> incl (constr s') (constr s1).
Proof.
  unfold finish_main.
  destruct (resolve_all c _ s1) as [e1|s2] eqn:Er; [discriminate|].
  apply resolve_all_frame in Er. destruct Er as [_ [_ [_ [_ Ec]]]].
  destruct (first_obj_fail _ _); [discriminate|]. destruct (flag_of fmp m _); [discriminate|].
  intro H. inversion H; subst. cbn [constr with_constr]. rewrite Ec. intros y Hy. apply filter_In in Hy. tauto.
Qed.

Lemma In_filter_lt n v l : v < n -> In v l -> In v (filter (fun y => Nat.ltb y n) l).
Proof. intros Hv Hin. apply filter_In. split; [exact Hin | apply Nat.ltb_lt; exact Hv]. Qed.

(* what every load across languages (any outcome) leaves of the heap and of the construction marks *)
Lemma load_main_x_raw_frame x xvals fs c f s :
  Stable s -> XOK (length (heap s)) x (begin_op c s) ->
  (forall v mi, nth_error (heap s) v = Some mi -> nth_error (heap (snd (load_main_x_raw x xvals fs c f s))) v = Some mi) /\
  (forall v, v < length (heap s) -> In v (constr (snd (load_main_x_raw x xvals fs c f s))) -> In v (constr s)).
Proof.
  intros HS HX. unfold load_main_x_raw. set (s0 := begin_op c s) in *.
  pose proof (Stable_begin_op c s HS) as HS0. fold s0 in HS0.
  destruct (Stable_Inv s0 HS0) as [HI0 Hold0].
  assert (E0 : heap s0 = heap s /\ constr s0 = constr s) by (subst s0; unfold begin_op; destruct (cglobal c); auto).
  destruct E0 as [Eh0 Ec0].
  set (n0 := length (heap s0)) in *.
  assert (En : n0 = length (heap s)) by (unfold n0; rewrite Eh0; reflexivity).
  destruct (if cglobal c then dget f (allm s0) else None) as [m|] eqn:Ec.
  { destruct (model_processors_on_cached && flag_of fmp m s0)%bool; cbn [snd]; rewrite Eh0, Ec0; auto. }
  assert (Hg : dget f (allm s0) = None).
  { destruct (cglobal c) eqn:Eg; [exact Ec|]. subst s0. unfold begin_op. rewrite Eg. reflexivity. }
  rewrite <- En in HX.
  destruct (load_file_x_cl fs c n0 x (S (length fs)) true f s0 HI0 HX Hg) as [Hst [Hok _]].
  assert (Hload : forall v, v < length (heap s) -> In v (constr (snd (load_file_x x fs c (S (length fs)) true f s0))) -> In v (constr s)).
  { intros v Hv Hin. rewrite <- Ec0. assert (Hv0 : v < n0) by lia.
    pose proof (In_filter_lt n0 v _ Hv0 Hin) as H1. rewrite (sx_cold _ _ _ _ Hst) in H1. apply filter_In in H1. tauto. }
  destruct (load_file_x x fs c (S (length fs)) true f s0) as [[e1|m] s1] eqn:El; cbn [fst snd] in *.
  - split; [intros v mi Hv; apply (sx_heap _ _ _ _ Hst); rewrite Eh0; exact Hv | exact Hload].
  - destruct (Hok m eq_refl) as [_ [Hm [Hc _]]].
    destruct (finish_main c f m (map snd (allm s0) ++ xvals) s1) as [[e|m'] s'] eqn:Ef; cbn [snd].
    + destruct (finish_main_failure_frame n0 c f m _ s1 e s' (sx_inv _ _ _ _ Hst) Hm Ef) as [Fh [Fc _]].
      split; [intros v mi Hv; rewrite Fh; apply (sx_heap _ _ _ _ Hst); rewrite Eh0; exact Hv|].
      intros v Hv Hin. apply Hload; [exact Hv|]. assert (Hv0 : v < n0) by lia.
      pose proof (In_filter_lt n0 v _ Hv0 Hin) as H1. rewrite Fc in H1. apply filter_In in H1. tauto.
    + destruct (finish_main_ok_stable n0 c f m _ s1 m' s' (sx_inv _ _ _ _ Hst) Hc Ef) as [_ [_ [Fh _]]].
      split; [intros v mi Hv; rewrite Fh; apply (sx_heap _ _ _ _ Hst); rewrite Eh0; exact Hv|].
      intros v Hv Hin. apply Hload; [exact Hv|]. apply (finish_main_ok_constr c f m _ s1 m' s' Ef). exact Hin.
Qed.

Theorem load_main_x_stable_raw x xvals fs c f s :
  Stable s -> XOK (length (heap s)) x (begin_op c s) ->
  (forall g m', x g = Some m' -> In m' xvals) -> (forall v, In v xvals -> v < length (heap s)) ->
  Stable (snd (load_main_x_raw x xvals fs c f s)).
Proof.
  intros HS HX Hxv Hxb. destruct (load_main_x_raw x xvals fs c f s) as [[e|m] s'] eqn:E; cbn [snd].
  - destruct (load_main_x_failure_clean_raw x xvals fs c f s e s' HS HX Hxv Hxb E) as [_ [_ [_ H]]]. exact H.
  - revert E. unfold load_main_x_raw. set (s0 := begin_op c s) in *.
    pose proof (Stable_begin_op c s HS) as HS0. fold s0 in HS0.
    destruct (Stable_Inv s0 HS0) as [HI0 Hold0].
    assert (Eh0 : heap s0 = heap s) by (subst s0; unfold begin_op; destruct (cglobal c); reflexivity).
    destruct (if cglobal c then dget f (allm s0) else None) as [m0|] eqn:Ec.
    { destruct (model_processors_on_cached && flag_of fmp m0 s0)%bool; intro H; inversion H; subst. exact HS0. }
    assert (Hg : dget f (allm s0) = None).
    { destruct (cglobal c) eqn:Eg; [exact Ec|]. subst s0. unfold begin_op. rewrite Eg. reflexivity. }
    rewrite <- Eh0 in HX.
    destruct (load_file_x_cl fs c (length (heap s0)) x (S (length fs)) true f s0 HI0 HX Hg) as [Hst [Hok _]].
    destruct (load_file_x x fs c (S (length fs)) true f s0) as [[e1|m1] s1]; cbn [fst snd] in *; [discriminate|].
    destruct (Hok m1 eq_refl) as [_ [_ [Hc _]]]. intro H.
    destruct (finish_main_ok_stable _ c f m1 _ s1 m s' (sx_inv _ _ _ _ Hst) Hc H) as [_ [_ [_ [_ HS']]]]. exact HS'.
Qed.

(* ---- the observed load across languages (with garbage collection) *)
Theorem load_main_x_failure_clean x xvals fs c f s e s' :
  Stable s -> XOK (length (heap s)) x (begin_op c s) ->
  (forall g m', x g = Some m' -> In m' xvals) -> (forall v, In v xvals -> v < length (heap s)) ->
  load_main_x x xvals fs c f s = (inl e, s') ->
  incl (allm (begin_op c s)) (allm s') /\
  (forall k v, In (k, v) (allm s') -> v < length (heap s)) /\
  (forall y, y < length (heap s) -> local_of y s' = local_of y s) /\ Stable s' /\
  heap s' = heap s /\ (forall v, In v (constr s') -> In v (constr s)).
Proof.
  intros HS HX Hxv Hxb. unfold load_main_x, live_bound.
  pose proof (load_main_x_raw_frame x xvals fs c f s HS HX) as [Fh Fc].
  destruct (load_main_x_raw x xvals fs c f s) as [r s1] eqn:E. cbn [fst snd] in *.
  intro H. inversion H; subst r s'. clear H.
  destruct (load_main_x_failure_clean_raw x xvals fs c f s e s1 HS HX Hxv Hxb E) as [Hi [Ho [Hl HS1]]].
  pose proof (prefix_firstn (heap s) (heap s1) Fh) as Hf.
  assert (Hn : length (heap s) <= length (heap s1)).
  { apply (f_equal (@length _)) in Hf. rewrite firstn_length in Hf. lia. }
  split; [exact Hi|]. split; [exact Ho|]. split; [intros y Hy; rewrite local_of_tidy_lt by exact Hy; apply Hl; exact Hy|].
  split; [|split; [exact Hf|]].
  - destruct HS as [_ [_ [_ [_ E5]]]].
    apply Stable_tidy; [exact HS1 | exact Hn | exact Ho |].
    intros y g t Hy Hin. rewrite (Hl y Hy) in Hin. apply (E5 y g t Hin).
  - intros v Hin. cbn [constr tidy] in Hin. apply filter_In in Hin as [Hin Hlt]. apply Nat.ltb_lt in Hlt. apply Fc; assumption.
Qed.

Theorem load_main_x_frame x xvals fs c f s :
  Stable s -> XOK (length (heap s)) x (begin_op c s) ->
  (forall g m', x g = Some m' -> In m' xvals) -> (forall v, In v xvals -> v < length (heap s)) ->
  Stable (snd (load_main_x x xvals fs c f s)) /\
  (forall v mi, nth_error (heap s) v = Some mi -> nth_error (heap (snd (load_main_x x xvals fs c f s))) v = Some mi) /\
  (forall v, v < length (heap s) -> In v (constr (snd (load_main_x x xvals fs c f s))) -> In v (constr s)).
Proof.
  intros HS HX Hxv Hxb.
  destruct (load_main_x x xvals fs c f s) as [[e|m] s'] eqn:E; cbn [snd].
  - destruct (load_main_x_failure_clean x xvals fs c f s e s' HS HX Hxv Hxb E) as [_ [_ [_ [HS' [Eh Hc]]]]].
    split; [exact HS'|]. split; [rewrite Eh; auto | intros v _ Hin; apply Hc; exact Hin].
  - revert E. unfold load_main_x, live_bound.
    pose proof (load_main_x_raw_frame x xvals fs c f s HS HX) as [Fh Fc].
    pose proof (load_main_x_stable_raw x xvals fs c f s HS HX Hxv Hxb) as HS1.
    destruct (load_main_x_raw x xvals fs c f s) as [r s1]. cbn [fst snd] in *. intro H. inversion H; subst r s'.
    pose proof HS1 as HS1'. destruct HS1 as [A [B [C [D E5]]]].
    split; [|split].
    + apply Stable_tidy; [exact HS1' | apply le_n | |].
      * intros k v Hin. destruct (C k v Hin) as [mi [H1 _]]. apply nth_error_Some. congruence.
      * intros y g t _ Hin. apply (E5 y g t Hin).
    + intros v mi Hv. rewrite heap_tidy, firstn_all. apply Fh. exact Hv.
    + intros v Hv Hin. cbn [constr tidy] in Hin. apply filter_In in Hin as [Hin _]. apply Fc; assumption.
Qed.

(* ================================================================== the machine over several languages *)
Notation mstate := (state * list (nat * list (nat * nat)))%type (only parsing).

Definition MStable (ms : mstate) : Prop :=
  NoDup (map fst (snd ms)) /\ Stable (with_allm (fst ms) []) /\
  (forall L a, In (L, a) (snd ms) -> Stable (with_allm (fst ms) a)).

Lemma Stable_allm_ext s s' : heap s' = heap s -> allm s' = allm s -> constr s' = constr s -> locals s' = locals s -> Stable s -> Stable s'.
Proof.
  intros Eh Ea Ec El [A [B [C [D E]]]]. unfold Stable, file_ok in *. rewrite Eh, Ea, Ec.
  split; [exact A|]. split; [exact B|]. split; [exact C|]. split; [exact D|].
  intros y g t. rewrite (local_of_ext s s' y El). apply E.
Qed.

Lemma MStable_repo ms L : MStable ms -> Stable (with_allm (fst ms) (repo_of (snd ms) L)).
Proof.
  intros [_ [H0 H]]. unfold repo_of. destruct (dget L (snd ms)) as [a|] eqn:E; [apply (H L a); apply dget_In; exact E | exact H0].
Qed.

Lemma other_repo_stable s s' a :
  Stable (with_allm s a) ->
  (forall v mi, nth_error (heap s) v = Some mi -> nth_error (heap s') v = Some mi) ->
  (forall v, v < length (heap s) -> In v (constr s') -> In v (constr s)) ->
  (forall y g t, In (g, t) (local_of y s') -> y < length (heap s') /\ t < length (heap s')) ->
  Stable (with_allm s' a).
Proof.
  intros [A [B [C [D _]]]] Hh Hc Hl. unfold Stable, file_ok in *. cbn [allm heap constr with_allm] in *.
  split; [exact A|]. split; [exact B|]. split; [|split].
  - intros k v Hin. destruct (C k v Hin) as [mi [H1 H2]]. exists mi. split; [apply Hh; exact H1 | exact H2].
  - intros v Hin Hc'. apply (D v Hin). apply Hc; [|exact Hc'].
    apply in_map_iff in Hin as [[k v'] [<- Hin]]. destruct (C k v' Hin) as [mi [H1 _]]. cbn. apply nth_error_Some. congruence.
  - intros y g t Hin. apply (Hl y g t). exact Hin.
Qed.

Lemma NoDup_keys_dset {A} k (v : A) l : NoDup (map fst l) -> NoDup (map fst (dset k v l)).
Proof.
  intro H. destruct (keys_dset_cases k v l) as [[_ ->]|[Hn ->]]; [exact H | apply NoDup_snoc; assumption].
Qed.
Lemma In_dset_nodup {A} k (v : A) l k' v' : NoDup (map fst l) ->
  In (k', v') (dset k v l) -> (k' = k /\ v' = v) \/ (k' <> k /\ In (k', v') l).
Proof.
  induction l as [|[a b] l IH]; cbn [dset map fst]; intro Hnd.
  - intros [H|[]]. inversion H. auto.
  - inversion Hnd as [|? ? Hni Hnd']; subst. destruct (Nat.eqb k a) eqn:E.
    + apply Nat.eqb_eq in E. subst a. intros [H|H]; [inversion H; auto|].
      right. split; [|right; exact H]. intro; subst k'. apply Hni. apply in_map_iff. exists (k, v'). auto.
    + apply Nat.eqb_neq in E. intros [H|H].
      * inversion H; subst. right. split; [congruence | left; reflexivity].
      * destruct (IH Hnd' H) as [H1|[H1 H2]]; [left; exact H1 | right; split; [exact H1 | right; exact H2]].
Qed.

Lemma repo_of_dset L a repos K : repo_of (dset L a repos) K = if Nat.eqb L K then a else repo_of repos K.
Proof.
  unfold repo_of. destruct (Nat.eqb L K) eqn:E.
  - apply Nat.eqb_eq in E. subst. rewrite dget_dset_same. reflexivity.
  - apply Nat.eqb_neq in E. rewrite dget_dset_other by exact E. reflexivity.
Qed.

Section Machine.
  Variable fs : list file.
  Variable mc : mlcfg.

  (* the hypotheses of the loader theorems hold for the external cache built from the other repositories *)
  Lemma ml_pre f s repos :
    MStable (s, repos) ->
    let L := lang mc f in
    let c := mkCfg (lglob mc L) false [] false in
    let s0 := with_allm s (if lglob mc L then repo_of repos L else []) in
    let xvals := flat_map (fun Lr => if Nat.eqb (fst Lr) L then [] else map snd (snd Lr)) repos in
    Stable s0 /\ XOK (length (heap s0)) (ext_of mc repos L) (begin_op c s0) /\
    (forall g m', ext_of mc repos L g = Some m' -> In m' xvals) /\ (forall v, In v xvals -> v < length (heap s0)).
  Proof.
    intros HM L c s0 xvals. pose proof HM as [Hnd [H0 Hall]]. cbn [fst snd] in *.
    assert (HS0 : Stable s0).
    { subst s0. destruct (lglob mc L); [apply (MStable_repo (s, repos) L HM) | exact H0]. }
    assert (Hext : forall g m', ext_of mc repos L g = Some m' ->
              exists a, In (lang mc g, a) repos /\ lang mc g <> L /\ In (g, m') a).
    { intros g m'. unfold ext_of. destruct (Nat.eqb (lang mc g) L) eqn:E; [discriminate|]. apply Nat.eqb_neq in E.
      destruct (lglob mc (lang mc g)); [|discriminate]. unfold repo_of. destruct (dget (lang mc g) repos) as [a|] eqn:Ea; [|discriminate].
      intro H. exists a. split; [apply dget_In; exact Ea|]. split; [exact E | apply dget_In; exact H]. }
    split; [exact HS0|]. split; [|split].
    - intros g m' Hx. destruct (Hext g m' Hx) as [a [Hin [_ Hgm]]].
      destruct (Hall _ a Hin) as [_ [_ [C [D _]]]]. cbn [allm heap constr with_allm] in *.
      destruct (C g m' Hgm) as [mi [H1 H2]]. cbn [heap with_allm] in H1.
      assert (Eh : heap (begin_op c s0) = heap s) by (subst s0; unfold begin_op; destruct (cglobal c); reflexivity).
      assert (Ec : constr (begin_op c s0) = constr s) by (subst s0; unfold begin_op; destruct (cglobal c); reflexivity).
      assert (Eh0 : heap s0 = heap s) by reflexivity.
      rewrite Eh, Ec, Eh0. split; [apply nth_error_Some; congruence|]. split.
      + apply D. apply in_map_iff. exists (g, m'). auto.
      + exists mi. auto.
    - intros g m' Hx. destruct (Hext g m' Hx) as [a [Hin [Hne Hgm]]]. subst xvals. apply in_flat_map. exists (lang mc g, a).
      split; [exact Hin|]. cbn [fst snd]. replace (Nat.eqb (lang mc g) L) with false by (symmetry; apply Nat.eqb_neq; exact Hne).
      apply in_map_iff. exists (g, m'). auto.
    - intros v Hv. subst xvals. apply in_flat_map in Hv as [[K a] [Hin Hv]]. cbn [fst snd] in Hv.
      destruct (Nat.eqb K L); [destruct Hv|]. apply in_map_iff in Hv as [[k v'] [<- Hkv]].
      destruct (Hall K a Hin) as [_ [_ [C _]]]. cbn [allm heap with_allm] in *. destruct (C k v' Hkv) as [mi [H1 _]]. cbn [heap with_allm] in H1.
      assert (Eh0 : heap s0 = heap s) by reflexivity. rewrite Eh0. cbn [snd]. apply nth_error_Some. congruence.
  Qed.

  Lemma ml_post f s repos s' :
    MStable (s, repos) ->
    Stable s' ->
    (forall v mi, nth_error (heap s) v = Some mi -> nth_error (heap s') v = Some mi) ->
    (forall v, v < length (heap s) -> In v (constr s') -> In v (constr s)) ->
    MStable (s', if lglob mc (lang mc f) then dset (lang mc f) (allm s') repos else repos).
  Proof.
    intros HM HS' Hh Hc. destruct HM as [Hnd [H0 Hall]]. cbn [fst snd] in *.
    assert (Hl : forall y g t, In (g, t) (local_of y s') -> y < length (heap s') /\ t < length (heap s'))
      by (destruct HS' as [_ [_ [_ [_ E]]]]; exact E).
    assert (Hother : forall a, Stable (with_allm s a) -> Stable (with_allm s' a))
      by (intros a Ha; apply (other_repo_stable s s' a Ha Hh Hc Hl)).
    unfold MStable. cbn [fst snd]. destruct (lglob mc (lang mc f)).
    - split; [apply NoDup_keys_dset; exact Hnd|]. split; [apply Hother; exact H0|].
      intros K a Hin. apply (In_dset_nodup (lang mc f) (allm s') repos K a Hnd) in Hin as [[_ ->]|[_ Hin]].
      + eapply Stable_allm_ext; [| | | |exact HS']; reflexivity.
      + apply Hother. apply (Hall K a Hin).
    - split; [exact Hnd|]. split; [apply Hother; exact H0|]. intros K a Hin. apply Hother. apply (Hall K a Hin).
  Qed.

  (* the well-formedness of the machine state is invariant *)
  Theorem ml_load_stable f ms : MStable ms -> MStable (snd (ml_load fs mc f ms)).
  Proof.
    destruct ms as [s repos]. intro HM. unfold ml_load.
    destruct (ml_pre f s repos HM) as [HS0 [HX [Hxv Hxb]]].
    set (L := lang mc f) in *. set (c := mkCfg (lglob mc L) false [] false) in *.
    set (s0 := with_allm s (if lglob mc L then repo_of repos L else [])) in *.
    set (xvals := flat_map _ repos) in *.
    destruct (load_main_x_frame (ext_of mc repos L) xvals fs c f s0 HS0 HX Hxv Hxb) as [HS' [Fh Fc]].
    cbn [snd]. apply (ml_post f s repos _ HM HS'); [exact Fh | exact Fc].
  Qed.

  (* C18 for several languages, in the form that is true: after a failed load NO repository has lost an entry it
     had, NO repository holds a model created by the failed load (every registered model existed before; the
     importer's repository may have gained models taken from the other languages' repositories), and the machine
     state is well formed again *)
  Theorem ml_load_failure_clean f s repos e s' repos' :
    MStable (s, repos) -> ml_load fs mc f (s, repos) = (inl e, (s', repos')) ->
    (forall K, incl (repo_of repos K) (repo_of repos' K)) /\
    (forall K k v, In (k, v) (repo_of repos' K) -> v < length (heap s)) /\
    heap s' = heap s /\ MStable (s', repos').
  Proof.
    intros HM. pose proof (ml_load_stable f (s, repos) HM) as HM'. revert HM'. unfold ml_load.
    destruct (ml_pre f s repos HM) as [HS0 [HX [Hxv Hxb]]].
    set (L := lang mc f) in *. set (c := mkCfg (lglob mc L) false [] false) in *.
    set (s0 := with_allm s (if lglob mc L then repo_of repos L else [])) in *.
    set (xvals := flat_map _ repos) in *.
    destruct (load_main_x (ext_of mc repos L) xvals fs c f s0) as [r s1] eqn:E. cbn [fst snd].
    intros HM' H. inversion H; subst r s' repos'. clear H.
    destruct (load_main_x_failure_clean (ext_of mc repos L) xvals fs c f s0 e s1 HS0 HX Hxv Hxb E) as [Hi [Ho [_ [_ [Eh _]]]]].
    assert (Hb : allm (begin_op c s0) = if lglob mc L then repo_of repos L else []).
    { subst s0 c. unfold begin_op. cbn [cglobal]. destruct (lglob mc L); reflexivity. }
    rewrite Hb in Hi.
    assert (Hold : forall K k v, In (k, v) (repo_of repos K) -> v < length (heap s)).
    { intros K k v Hin. destruct (MStable_repo (s, repos) K HM) as [_ [_ [C _]]]. cbn [fst snd allm heap with_allm] in C.
      destruct (C k v Hin) as [mi [H1 _]]. cbn [heap with_allm] in H1. apply nth_error_Some. congruence. }
    split; [|split; [|split; [exact Eh | exact HM']]].
    - intros K. destruct (lglob mc L) eqn:Eg; [|apply incl_refl]. rewrite repo_of_dset.
      destruct (Nat.eqb L K) eqn:EK; [apply Nat.eqb_eq in EK; subst K; exact Hi | apply incl_refl].
    - intros K k v Hin. destruct (lglob mc L) eqn:Eg; [|eapply Hold; exact Hin]. rewrite repo_of_dset in Hin.
      destruct (Nat.eqb L K); [apply (Ho k v Hin) | eapply Hold; exact Hin].
  Qed.
End Machine.

Lemma MStable_init : MStable (init_state [], []).
Proof.
  unfold MStable. cbn [fst snd map]. split; [constructor|]. split; [|intros L a []].
  eapply Stable_allm_ext; [| | | |apply (Stable_init [])]; reflexivity.
Qed.

Theorem ml_hist_stable mc ops : forall fs ms, MStable ms -> MStable (ml_hist mc fs ms ops).
Proof.
  induction ops as [|[f|f fc|fc] t IH]; intros fs ms HM; cbn [ml_hist]; [exact HM | | apply IH; exact HM | apply IH; exact HM].
  apply IH. apply ml_load_stable. exact HM.
Qed.

Theorem ml_failure_clean_in_history mc fs0 ops fs f e s' repos' :
  let ms := ml_hist mc fs0 (init_state [], []) ops in
  ml_load fs mc f ms = (inl e, (s', repos')) ->
  (forall K, incl (repo_of (snd ms) K) (repo_of repos' K)) /\
  (forall K k v, In (k, v) (repo_of repos' K) -> v < length (heap (fst ms))) /\
  heap s' = heap (fst ms) /\ MStable (s', repos').
Proof.
  intros ms H. pose proof (ml_hist_stable mc ops fs0 (init_state [], []) MStable_init) as HM. fold ms in HM.
  destruct ms as [s repos]. exact (ml_load_failure_clean fs mc f s repos e s' repos' HM H).
Qed.

(* ================================================================== identity across languages, for the models a load creates *)
Section IdentX.
  Variable fs : list file.
  Variable c : cfg.
  Variable n0 : nat.
  Variable x : nat -> option nat.

  (* every local_models entry of a model created by this load is the all_models entry of its file *)
  Definition LRX (s : state) : Prop :=
    forall y g t, In (g, t) (local_of y s) -> n0 <= y -> dget g (allm s) = Some t.

  Lemma LRX_pres s s' : LRX s -> Pres s s' -> locals s' = locals s -> LRX s'.
  Proof. intros H Hp El y g t Hin Hy. rewrite (local_of_ext s s' y El) in Hin. apply Hp. apply (H y g t Hin Hy). Qed.

  Lemma LRX_set_local s m g v : LRX s -> dget g (allm s) = Some v -> LRX (set_local m g v s).
  Proof.
    intros H Hg y g' t Hin Hy. rewrite allm_set_local in *. unfold set_local in Hin. rewrite local_of_dset in Hin.
    destruct (Nat.eqb m y) eqn:E.
    - apply Nat.eqb_eq in E. subst y. apply In_dset_inv in Hin as [[-> ->]|Hin]; [exact Hg | apply (H m g' t Hin Hy)].
    - apply (H y g' t Hin Hy).
  Qed.

  Definition loader_lrX (ld : nat -> state -> (err + nat) * state) : Prop :=
    forall g s, Inv n0 s -> XOK n0 x s -> LRX s -> dget g (allm s) = None -> forall m, fst (ld g s) = inr m -> LRX (snd (ld g s)).

  Lemma load_model_lrX ld m mi g s s' :
    loader_clX n0 x ld -> loader_lrX ld -> Inv n0 s -> XOK n0 x s -> LRX s -> n0 <= m -> nth_error (heap s) m = Some mi ->
    load_model ld m g s = (None, s') -> LRX s'.
  Proof.
    intros Hcl Hlr HI HX HL Hm Hh. unfold load_model.
    destruct (dhas g (local_of m s)). { intro H; inversion H; subst; exact HL. }
    destruct (dget g (allm s)) as [m'|] eqn:Eg.
    { intro H; inversion H; subst. apply LRX_set_local; assumption. }
    destruct (Hcl g s HI HX Eg) as [Hst Hok]. specialize (Hlr g s HI HX HL Eg).
    destruct (ld g s) as [[e|m'] s1]; cbn [fst snd] in *; [discriminate|].
    intro H; inversion H; subst. destruct (Hok m' eq_refl) as [Hp [Hg1|[Es Hx]]]; specialize (Hlr m' eq_refl).
    - apply LRX_set_local.
      + eapply LRX_pres; [exact Hlr | | reflexivity]. intros k v Hk. autorewrite with st. rewrite (dset_same g m' (allm s1) Hg1). exact Hk.
      + rewrite set_all_same by exact Hg1. exact Hg1.
    - subst s1. destruct (StepX_set_all_ext n0 x s g m' HI HX Eg Hx) as [_ [Hp1 Hg1]].
      apply LRX_set_local; [|exact Hg1]. eapply LRX_pres; [exact HL | exact Hp1 | reflexivity].
  Qed.

  Lemma load_files_lrX ld m mi gs : forall s s',
    loader_clX n0 x ld -> loader_lrX ld -> Inv n0 s -> XOK n0 x s -> LRX s -> n0 <= m -> nth_error (heap s) m = Some mi ->
    load_files ld m gs s = (None, s') -> LRX s'.
  Proof.
    induction gs as [|g gs IH]; intros s s' Hcl Hlr HI HX HL Hm Hh; cbn.
    - intro H; inversion H; subst; exact HL.
    - destruct (load_model ld m g s) as [r1 s1] eqn:E1.
      destruct (load_model_clX n0 x _ _ _ _ _ _ _ Hcl HI HX Hm Hh E1) as [Hst1 _].
      destruct r1 as [e|]; [discriminate|].
      assert (HL1 : LRX s1) by (eapply load_model_lrX; eassumption).
      intro H. exact (IH s1 s' Hcl Hlr (sx_inv _ _ _ _ Hst1) (XOK_step _ _ _ _ Hst1 HX) HL1 Hm (sx_heap _ _ _ _ Hst1 m mi Hh) H).
  Qed.

  Lemma load_stmts_lrX ld m mf mi stmts : forall s s',
    loader_clX n0 x ld -> loader_lrX ld -> Inv n0 s -> XOK n0 x s -> LRX s -> n0 <= m -> In m (constr s) ->
    nth_error (heap s) m = Some mi -> mfile mi = mf ->
    load_stmts ld m mf stmts s = (None, s') -> LRX s'.
  Proof.
    induction stmts as [|gs rest IH]; intros s s' Hcl Hlr HI HX HL Hm Hc Hh Hf; cbn.
    - intro H; inversion H; subst; exact HL.
    - destruct (update_in_repo_cl n0 s m mf mi HI Hm Hc Hh Hf) as [Hst1' Hp1]. pose proof (Step_StepX n0 x _ _ Hst1') as Hst1.
      assert (HL1 : LRX (update_in_repo m mf s)).
      { eapply LRX_pres; [exact HL | exact Hp1|]. unfold update_in_repo. destruct (dhas mf (allm s)); reflexivity. }
      destruct gs as [|g0 gs0]; [discriminate|].
      destruct (load_files ld m (g0 :: gs0) (update_in_repo m mf s)) as [r2 s2] eqn:E2.
      destruct (load_files_clX n0 x _ _ _ _ _ _ _ Hcl (sx_inv _ _ _ _ Hst1) (XOK_step _ _ _ _ Hst1 HX) Hm (sx_heap _ _ _ _ Hst1 m mi Hh) E2) as [Hst2 _].
      destruct r2 as [e|]; [discriminate|].
      assert (HL2 : LRX s2).
      { eapply load_files_lrX; [exact Hcl | exact Hlr | apply (sx_inv _ _ _ _ Hst1) | apply (XOK_step _ _ _ _ Hst1 HX) | exact HL1 | exact Hm | exact (sx_heap _ _ _ _ Hst1 m mi Hh) | exact E2]. }
      pose proof (StepX_trans _ _ _ _ _ Hst1 Hst2) as Hst12.
      intro H. exact (IH s2 s' Hcl Hlr (sx_inv _ _ _ _ Hst12) (XOK_step _ _ _ _ Hst12 HX) HL2 Hm (sx_constr _ _ _ _ Hst12 m Hc) (sx_heap _ _ _ _ Hst12 m mi Hh) Hf H).
  Qed.

  Lemma load_file_x_lr fuel : forall main g s,
    Inv n0 s -> XOK n0 x s -> LRX s -> dget g (allm s) = None ->
    forall m, fst (load_file_x x fs c fuel main g s) = inr m -> LRX (snd (load_file_x x fs c fuel main g s)).
  Proof.
    induction fuel as [|k IH]; intros main g s HI HX HL Hg m; [cbn; discriminate|].
    cbn [load_file_x].
    destruct (nth_error fs g) as [fc|] eqn:Efc; [|cbn; discriminate].
    assert (Hst1 : StepX n0 x s (with_reads s (reads s ++ [g]))).
    { apply Step_StepX. eapply Step_ext; [apply Step_refl; exact HI | reflexivity..]. }
    destruct (fsyn fc); [cbn; discriminate|].
    rewrite src_register_before.
    set (s1 := with_reads s (reads s ++ [g])) in *.
    set (mid := length (heap s1)).
    set (s2 := alloc g fc s1).
    assert (Hst2 : StepX n0 x s s2) by (eapply StepX_trans; [exact Hst1 | apply Step_StepX, Step_alloc; apply (sx_inv _ _ _ _ Hst1)]).
    assert (Hmid : n0 <= mid) by (apply (inv_n0 n0 s1 (sx_inv _ _ _ _ Hst1))).
    assert (Hc2 : In mid (constr s2)) by (subst s2; autorewrite with st; left; reflexivity).
    assert (Hh2 : nth_error (heap s2) mid = Some (mkMinfo g (curop s1) fc)).
    { subst s2 mid. autorewrite with st. rewrite nth_error_app2 by lia. rewrite Nat.sub_diag. reflexivity. }
    assert (Hv2 : ~ In mid (map snd (allm s2))).
    { intro Hin. apply in_map_iff in Hin as [[k' v] [Hv Hin]]. cbn in Hv. subst v.
      destruct (inv_file n0 s1 (sx_inv _ _ _ _ Hst1) k' mid Hin) as [mi' [H1 _]].
      assert (mid < length (heap s1)) by (apply nth_error_Some; congruence). subst mid. lia. }
    assert (HL2 : LRX s2) by (eapply LRX_pres; [exact HL | intros k' v' Hk; exact Hk | reflexivity]).
    set (s3 := if (main && negb (cglobal c))%bool then s2 else set_all g mid s2).
    assert (H3 : StepX n0 x s2 s3 /\ LRX s3).
    { subst s3. destruct (main && negb (cglobal c))%bool.
      - split; [apply StepX_refl; apply (sx_inv _ _ _ _ Hst2) | exact HL2].
      - destruct (Step_set_all_fresh n0 s2 g mid _ (sx_inv _ _ _ _ Hst2) Hg Hmid Hc2 Hh2 eq_refl Hv2) as [A [B _]].
        split; [apply Step_StepX; exact A | eapply LRX_pres; [exact HL2 | exact B | reflexivity]]. }
    destruct H3 as [Hst23 HL3].
    assert (HI3 : Inv n0 s3) by apply (sx_inv _ _ _ _ Hst23).
    assert (HX3 : XOK n0 x s3) by (apply (XOK_step _ _ _ _ Hst23), (XOK_step _ _ _ _ Hst2); exact HX).
    assert (Hcl : loader_clX n0 x (with_ext x (load_file_x x fs c k false))).
    { intros g' s' HI' HX' Hg'. unfold with_ext. destruct (x g') as [m0|] eqn:Ex.
      - cbn [fst snd]. split; [apply StepX_refl; exact HI'|]. intros m' Hm'. inversion Hm'; subst m'.
        split; [apply Pres_refl | right; auto].
      - destruct (load_file_x_cl fs c n0 x k false g' s' HI' HX' Hg') as [A [B _]]. split; [exact A|].
        intros m' Hm'. destruct (B m' Hm') as [B1 [_ [_ B3]]]. split; [exact B1 | left; apply B3; reflexivity]. }
    assert (Hlr : loader_lrX (with_ext x (load_file_x x fs c k false))).
    { intros g' s' HI' HX' HL' Hg' m' Hm'. unfold with_ext in *. destruct (x g'); [cbn [snd]; exact HL' | apply (IH false g' s' HI' HX' HL' Hg' m' Hm')]. }
    assert (Hc3 : In mid (constr s3)) by (subst s3; destruct (main && negb (cglobal c))%bool; exact Hc2).
    assert (Hh3 : nth_error (heap s3) mid = Some (mkMinfo g (curop s1) fc)) by (subst s3; destruct (main && negb (cglobal c))%bool; exact Hh2).
    destruct (if (clazy c && is_nil (frefs fc))%bool then (None, s3)
              else load_stmts (with_ext x (load_file_x x fs c k false)) mid g (fimports fc) s3) as [r s4] eqn:E4.
    assert (HL4 : r = None -> LRX s4).
    { intro Hr. subst r. destruct (clazy c && is_nil (frefs fc))%bool.
      - inversion E4; subst; exact HL3.
      - eapply load_stmts_lrX; [exact Hcl | exact Hlr | exact HI3 | exact HX3 | exact HL3 | exact Hmid | exact Hc3 | exact Hh3 | reflexivity | exact E4]. }
    destruct r as [e|]; [cbn; discriminate|].
    destruct main.
    - cbn [fst snd]. intros _. apply HL4; reflexivity.
    - destruct (fmp fc); cbn [fst snd]; [discriminate|]. intros _. apply HL4; reflexivity.
  Qed.
End IdentX.

(* After a successful load across languages, every local model of a model CREATED by the load is the model
   registered in the load's all_models for that file - whether it was parsed by the load, cached in the importer's
   repository, or taken from another language's repository. *)
Theorem load_main_x_created_registered x xvals fs c f s m s' :
  Stable s -> XOK (length (heap s)) x (begin_op c s) ->
  load_main_x x xvals fs c f s = (inr m, s') ->
  forall y g t, In (g, t) (local_of y s') -> length (heap s) <= y -> dget g (allm s') = Some t.
Proof.
  intros HS HX. unfold load_main_x, live_bound, load_main_x_raw. set (s0 := begin_op c s) in *.
  pose proof (Stable_begin_op c s HS) as HS0. fold s0 in HS0.
  destruct (Stable_Inv s0 HS0) as [HI0 _].
  assert (Eh0 : heap s0 = heap s) by (subst s0; unfold begin_op; destruct (cglobal c); reflexivity).
  set (n0 := length (heap s0)) in *.
  assert (HLR0 : LRX n0 s0).
  { intros y g t Hin Hy. destruct HS0 as [_ [_ [_ [_ E]]]]. destruct (E y g t Hin). unfold n0 in Hy. lia. }
  destruct (if cglobal c then dget f (allm s0) else None) as [m0|] eqn:Ec.
  { destruct (model_processors_on_cached && flag_of fmp m0 s0)%bool; cbn [fst snd]; intro H; inversion H; subst.
    intros y g t Hin Hy. apply In_local_of_tidy in Hin as [Hlt _]. cbn [fst snd] in Hlt.
    destruct (cglobal c); cbn [heap with_allm] in Hlt; lia. }
  assert (Hg : dget f (allm s0) = None).
  { destruct (cglobal c) eqn:Eg; [exact Ec|]. subst s0. unfold begin_op. rewrite Eg. reflexivity. }
  rewrite <- Eh0 in HX. fold n0 in HX.
  destruct (load_file_x_cl fs c n0 x (S (length fs)) true f s0 HI0 HX Hg) as [Hst [Hok _]].
  pose proof (load_file_x_lr fs c n0 x (S (length fs)) true f s0 HI0 HX HLR0 Hg) as Hlr.
  destruct (load_file_x x fs c (S (length fs)) true f s0) as [[e1|m1] s1]; cbn [fst snd] in *; [discriminate|].
  destruct (Hok m1 eq_refl) as [_ [_ [Hc _]]]. specialize (Hlr m1 eq_refl).
  destruct (finish_main c f m1 (map snd (allm s0) ++ xvals) s1) as [[e|m'] s2] eqn:Ef; cbn [fst snd]; [discriminate|].
  intro H. inversion H; subst m' s'.
  destruct (finish_main_ok_stable _ c f m1 _ s1 m s2 (sx_inv _ _ _ _ Hst) Hc Ef) as [_ [Ea [_ [El _]]]].
  intros y g t Hin Hy. rewrite allm_tidy, Ea. apply In_local_of_tidy in Hin as [_ Hin].
  rewrite (local_of_ext s1 s2 y El) in Hin. apply (Hlr y g t Hin). unfold n0. rewrite Eh0. exact Hy.
Qed.

(* C17 identity for several languages: at every point of every history of the machine, after a successful load every
   name looked up from a model CREATED by the load resolves into the model itself or into THE model registered in the
   load's all_models (the importer's repository) for the target's file *)
Theorem ml_identity_created fs mc f s repos m s' repos' y n t i :
  MStable (s, repos) -> ml_load fs mc f (s, repos) = (inr m, (s', repos')) ->
  length (heap s) <= y -> resolve_name (mkCfg (lglob mc (lang mc f)) false [] false) s' y n = Some (t, i) ->
  t = y \/ dget (file_of t s') (allm s') = Some t.
Proof.
  intros HM. unfold ml_load.
  destruct (ml_pre mc f s repos HM) as [HS0 [HX [Hxv Hxb]]].
  set (L := lang mc f) in *. set (c := mkCfg (lglob mc L) false [] false) in *.
  set (s0 := with_allm s (if lglob mc L then repo_of repos L else [])) in *.
  set (xvals := flat_map _ repos) in *.
  destruct (load_main_x_frame (ext_of mc repos L) xvals fs c f s0 HS0 HX Hxv Hxb) as [HS' _].
  destruct (load_main_x (ext_of mc repos L) xvals fs c f s0) as [r s1] eqn:E. cbn [fst snd] in *.
  intro H. inversion H; subst r s' repos'. clear H. intros Hy Hr.
  destruct (resolve_name_in c s1 y n t i Hr) as [[H|[H|H]] _]; [left; exact H | | destruct H].
  right. apply in_map_iff in H as [[g t'] [Ht Hin]]. cbn in Ht. subst t'.
  assert (Hreg : dget g (allm s1) = Some t) by (apply (load_main_x_created_registered _ xvals fs c f s0 m s1 HS0 HX E y g t Hin); exact Hy).
  destruct HS' as [_ [_ [C _]]]. destruct (C g t (dget_In _ _ _ Hreg)) as [mi [H1 H2]].
  unfold file_of. rewrite H1, H2. exact Hreg.
Qed.

(* For a model that existed before (cached in the importer's repository or taken from another language's): its
   local models are what they were; under the hypothesis that each of them is registered in the importer's repository
   or held by the other repositories' cache - the negation is exactly the refuted case - every one of them is
   registered in the result or still held by that cache, with the same model *)
Theorem load_main_x_cached_locals x xvals fs c f s m s' y g t :
  Stable s -> XOK (length (heap s)) x (begin_op c s) ->
  load_main_x x xvals fs c f s = (inr m, s') ->
  y < length (heap s) -> In (g, t) (local_of y s') ->
  (dget g (allm (begin_op c s)) = Some t \/ x g = Some t) ->
  In (g, t) (local_of y s) /\ (dget g (allm s') = Some t \/ x g = Some t).
Proof.
  intros HS HX. unfold load_main_x, live_bound, load_main_x_raw. set (s0 := begin_op c s) in *.
  pose proof (Stable_begin_op c s HS) as HS0. fold s0 in HS0.
  destruct (Stable_Inv s0 HS0) as [HI0 _].
  assert (Eh0 : heap s0 = heap s) by (subst s0; unfold begin_op; destruct (cglobal c); reflexivity).
  assert (El0 : forall z, local_of z s0 = local_of z s) by (intro z; subst s0; unfold begin_op; destruct (cglobal c); reflexivity).
  set (n0 := length (heap s0)) in *.
  destruct (if cglobal c then dget f (allm s0) else None) as [m0|] eqn:Ec.
  { destruct (model_processors_on_cached && flag_of fmp m0 s0)%bool; cbn [fst snd]; intro H; inversion H; subst.
    intros Hy Hin Hyp. apply In_local_of_tidy in Hin as [_ Hin]. rewrite El0 in Hin. split; [exact Hin | exact Hyp]. }
  assert (Hg : dget f (allm s0) = None).
  { destruct (cglobal c) eqn:Eg; [exact Ec|]. subst s0. unfold begin_op. rewrite Eg. reflexivity. }
  rewrite <- Eh0 in HX. fold n0 in HX.
  destruct (load_file_x_cl fs c n0 x (S (length fs)) true f s0 HI0 HX Hg) as [Hst [Hok _]].
  destruct (load_file_x x fs c (S (length fs)) true f s0) as [[e1|m1] s1]; cbn [fst snd] in *; [discriminate|].
  destruct (Hok m1 eq_refl) as [Hp [_ [Hc _]]].
  destruct (finish_main c f m1 (map snd (allm s0) ++ xvals) s1) as [[e|m'] s2] eqn:Ef; cbn [fst snd]; [discriminate|].
  intro H. inversion H; subst m' s'.
  destruct (finish_main_ok_stable _ c f m1 _ s1 m s2 (sx_inv _ _ _ _ Hst) Hc Ef) as [_ [Ea [_ [El _]]]].
  intros Hy Hin Hyp. apply In_local_of_tidy in Hin as [_ Hin]. rewrite (local_of_ext s1 s2 y El) in Hin.
  assert (Hy0 : y < n0) by (unfold n0; rewrite Eh0; exact Hy).
  rewrite (sx_loc _ _ _ _ Hst y Hy0), El0 in Hin. split; [exact Hin|].
  rewrite allm_tidy, Ea. destruct Hyp as [Hyp|Hyp]; [left; apply Hp; exact Hyp | right; exact Hyp].
Qed.
