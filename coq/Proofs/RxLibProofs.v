(* General lemmas about Model/Rx.v for reuse by other properties:
   - literal patterns and keyword patterns `lit\b` (rx_match computed in closed form);
   - IGNORECASE matching is blind to the ASCII case of the input, for EVERY regex of the subset. *)
From TxV Require Import Core.Base Model.Rx Proofs.RxProofs.
Require Import Lia.

(* ================================================================ literals *)
Lemma ends_chr_gen E l pre s :
  ends E (RChr l) (pre, s) = match s with c :: t => if chr_eq E c l then [(c :: pre, t)] else [] | [] => [] end.
Proof. reflexivity. Qed.

Lemma ends_lit_then E r : forall l pre s,
  ends E (rx_lit_then l r) (pre, s) =
  if lit_pre E l s then ends E r (rev (firstn (length l) s) ++ pre, skipn (length l) s) else [].
Proof.
  induction l as [|x l IH]; intros pre s; [reflexivity|].
  cbn [rx_lit_then lit_pre length]. rewrite ends_seq, ends_chr_gen. destruct s as [|c t]; [reflexivity|].
  destruct (chr_eq E c x); [|reflexivity]. cbn [flat_map andb]. rewrite app_nil_r, IH.
  cbn [firstn skipn rev]. rewrite <- app_assoc. reflexivity.
Qed.

Lemma flat_map_singleton {A} (l : list A) : flat_map (fun x => [x]) l = l.
Proof. induction l as [|x l IH]; [reflexivity|]. cbn. rewrite IH. reflexivity. Qed.

Lemma ends_lit_as_then E : forall l st, ends E (rx_lit l) st = ends E (rx_lit_then l REps) st.
Proof.
  induction l as [|x l IH]; intros st; [reflexivity|]. destruct l as [|y l'].
  - cbn [rx_lit rx_lit_then]. rewrite ends_seq. cbn [ends]. rewrite flat_map_singleton. reflexivity.
  - change (rx_lit (x :: y :: l')) with (RSeq (RChr x) (rx_lit (y :: l'))).
    cbn [rx_lit_then]. rewrite !ends_seq. apply flat_map_ext. intros st'. apply IH.
Qed.

Lemma ends_lit E l pre s :
  ends E (rx_lit l) (pre, s) =
  if lit_pre E l s then [(rev (firstn (length l) s) ++ pre, skipn (length l) s)] else [].
Proof. rewrite ends_lit_as_then, ends_lit_then. reflexivity. Qed.

Lemma lit_pre_length E : forall l s, lit_pre E l s = true -> length l <= length s.
Proof.
  induction l as [|x l IH]; intros s H; [cbn; lia|]. destruct s as [|c t]; [discriminate|].
  cbn [lit_pre] in H. apply andb_true_iff in H as [_ H]. specialize (IH _ H). cbn [length]. lia.
Qed.

Lemma skipn_length_sub {A} (n : nat) (s : list A) : n <= length s -> length s - length (skipn n s) = n.
Proof. intros H. rewrite skipn_length. lia. Qed.

(* a literal pattern matches exactly when the input starts with the literal *)
Theorem rx_match_lit E l pre s :
  rx_match E (rx_lit l) pre s = if lit_pre E l s then Some (length l) else None.
Proof.
  unfold rx_match. rewrite ends_lit. destruct (lit_pre E l s) eqn:H; [|reflexivity].
  cbn [snd]. rewrite skipn_length_sub by (apply (lit_pre_length E); exact H). reflexivity.
Qed.

(* the keyword pattern `lit\b`: the literal, then a word boundary between the last consumed character and the next *)
Theorem rx_match_kw E l pre s :
  rx_match E (rx_kw l) pre s =
  if (lit_pre E l s && word_boundary E (rev (firstn (length l) s) ++ pre, skipn (length l) s))%bool
  then Some (length l) else None.
Proof.
  unfold rx_match, rx_kw. rewrite ends_lit_then. destruct (lit_pre E l s) eqn:H; [|reflexivity].
  cbn [ends xorb andb].
  destruct (word_boundary E (rev (firstn (length l) s) ++ pre, skipn (length l) s)); cbn; [|reflexivity].
  rewrite skipn_length_sub by (apply (lit_pre_length E); exact H). reflexivity.
Qed.

(* ---- case folding facts (ASCII) *)
Lemma lower_ascii_cases a b : lower_ascii a = lower_ascii b ->
  a = b \/ (in_range 65 90 a = true /\ b = (a + 32)%N) \/ (in_range 65 90 b = true /\ a = (b + 32)%N).
Proof.
  unfold lower_ascii. destruct (in_range 65 90 a) eqn:Ha, (in_range 65 90 b) eqn:Hb; intros H.
  - left. lia.
  - right. left. split; [reflexivity | symmetry; exact H].
  - right. right. split; [reflexivity | exact H].
  - left. exact H.
Qed.

Lemma upper_range_facts a : in_range 65 90 a = true ->
  (65 <= a <= 90)%N.
Proof. unfold in_range. intros H. apply andb_true_iff in H as [H1 H2]. apply N.leb_le in H1. apply N.leb_le in H2. lia. Qed.

Ltac nleb := repeat match goal with
  | |- context [N.leb ?x ?y] => let H := fresh in destruct (N.leb_spec x y) as [H|H]
  | |- context [N.ltb ?x ?y] => let H := fresh in destruct (N.ltb_spec x y) as [H|H]
  | |- context [N.eqb ?x ?y] => let H := fresh in destruct (N.eqb_spec x y) as [H|H]
  end; cbn [andb orb]; try reflexivity; try lia; try (exfalso; lia).

(* the two cases of a letter: classification, case mapping *)
Lemma case_pair_facts E a : in_range 65 90 a = true ->
  is_word E a = true /\ is_word E (a + 32) = true /\
  lower_ascii a = (a + 32)%N /\ upper_ascii a = a /\ lower_ascii (a + 32) = (a + 32)%N /\ upper_ascii (a + 32) = a /\
  N.eqb a 10 = false /\ N.eqb (a + 32) 10 = false.
Proof.
  intros Ha. pose proof (upper_range_facts a Ha) as Hr.
  unfold is_word, lower_ascii, upper_ascii, in_range. repeat split; nleb.
Qed.

(* matching a literal character is a function of the folded input character *)
Lemma chr_eq_fold E c c' l : e_ignorecase E = true -> lower_ascii c = lower_ascii c' -> chr_eq E c l = chr_eq E c' l.
Proof.
  intros Hic Hcc. unfold chr_eq. rewrite Hic, Hcc. cbn [andb].
  destruct (N.eqb_spec c l) as [->|H1], (N.eqb_spec c' l) as [->|H2]; cbn [orb]; try reflexivity.
  - rewrite <- Hcc. rewrite N.eqb_refl. reflexivity.
  - rewrite N.eqb_refl. reflexivity.
Qed.

Lemma set_mem_fold E c c' items : e_ignorecase E = true -> lower_ascii c = lower_ascii c' ->
  set_mem E c items = set_mem E c' items.
Proof.
  intros Hic Hcc. unfold set_mem. rewrite Hic. cbn [andb].
  destruct (lower_ascii_cases _ _ Hcc) as [-> | [[Ha ->] | [Hb ->]]]; [reflexivity | |].
  - destruct (case_pair_facts E c Ha) as (_ & _ & -> & -> & -> & -> & _).
    destruct (existsb (item_match E c) items), (existsb (item_match E (c + 32)) items); reflexivity.
  - destruct (case_pair_facts E c' Hb) as (_ & _ & -> & -> & -> & -> & _).
    destruct (existsb (item_match E c') items), (existsb (item_match E (c' + 32)) items); reflexivity.
Qed.

Lemma is_word_fold E c c' : lower_ascii c = lower_ascii c' -> is_word E c = is_word E c'.
Proof.
  intros Hcc. destruct (lower_ascii_cases _ _ Hcc) as [-> | [[Ha ->] | [Hb ->]]]; [reflexivity | |].
  - destruct (case_pair_facts E c Ha) as (-> & -> & _). reflexivity.
  - destruct (case_pair_facts E c' Hb) as (-> & -> & _). reflexivity.
Qed.

Lemma eqb10_fold c c' : lower_ascii c = lower_ascii c' -> N.eqb c 10 = N.eqb c' 10.
Proof.
  intros Hcc. destruct (lower_ascii_cases _ _ Hcc) as [-> | [[Ha ->] | [Hb ->]]]; [reflexivity | |].
  - destruct (case_pair_facts (env_ml ascii_only) c Ha) as (_ & _ & _ & _ & _ & _ & -> & ->). reflexivity.
  - destruct (case_pair_facts (env_ml ascii_only) c' Hb) as (_ & _ & _ & _ & _ & _ & -> & ->). reflexivity.
Qed.

(* ================================================================ IGNORECASE: blind to the ASCII case of the input *)
Definition ceqv (a b : N) : Prop := lower_ascii a = lower_ascii b.
Definition steqv (s1 s2 : list N * list N) : Prop :=
  Forall2 ceqv (fst s1) (fst s2) /\ Forall2 ceqv (snd s1) (snd s2).

Lemma Forall2_length {A B} {R : A -> B -> Prop} {l1 l2} : Forall2 R l1 l2 -> length l1 = length l2.
Proof. intros H. induction H; [reflexivity | cbn; congruence]. Qed.

Lemma steqv_len s1 s2 : steqv s1 s2 -> length (snd s1) = length (snd s2).
Proof. intros [_ H]. apply (Forall2_length H). Qed.

Lemma steqv_refl s : steqv s s.
Proof.
  split.
  - induction (fst s); constructor; [reflexivity | assumption].
  - induction (snd s); constructor; [reflexivity | assumption].
Qed.

Lemma Forall2_flat_map {A B} (R : A -> A -> Prop) (Q : B -> B -> Prop) (f g : A -> list B) l1 l2 :
  Forall2 R l1 l2 -> (forall x y, R x y -> Forall2 Q (f x) (g y)) -> Forall2 Q (flat_map f l1) (flat_map g l2).
Proof.
  intros H Hf. induction H as [|x y l1 l2 Hxy Hl IH]; [constructor|].
  cbn [flat_map]. apply Forall2_app; [apply Hf; exact Hxy | exact IH].
Qed.

Lemma step1_fold (ok : N -> bool) s1 s2 :
  (forall c c', ceqv c c' -> ok c = ok c') -> steqv s1 s2 -> Forall2 steqv (step1 ok s1) (step1 ok s2).
Proof.
  intros Hok [Hp Hr]. unfold step1. destruct s1 as [p1 r1], s2 as [p2 r2]. cbn [fst snd] in *.
  destruct Hr as [|c c' t t' Hc Ht]; [constructor|]. rewrite (Hok c c' Hc).
  destruct (ok c'); [|constructor]. constructor; [|constructor]. split; cbn [fst snd]; [constructor; assumption | exact Ht].
Qed.

Lemma rep_loop_fold step g :
  (forall s1 s2, steqv s1 s2 -> Forall2 steqv (step s1) (step s2)) ->
  forall fuel lo hi s1 s2, steqv s1 s2 ->
  Forall2 steqv (rep_loop step g lo hi fuel s1) (rep_loop step g lo hi fuel s2).
Proof.
  intros Hs. induction fuel as [|f IH]; intros lo hi s1 s2 H12; [constructor|].
  cbn [rep_loop]. destruct lo as [|lo'].
  - destruct (is_zero_opt hi); [constructor; [exact H12 | constructor]|].
    assert (Hmore : Forall2 steqv
      (flat_map (fun st' => if Nat.ltb (length (snd st')) (length (snd s1)) then rep_loop step g 0 (pred_opt hi) f st' else []) (step s1))
      (flat_map (fun st' => if Nat.ltb (length (snd st')) (length (snd s2)) then rep_loop step g 0 (pred_opt hi) f st' else []) (step s2))).
    { apply (Forall2_flat_map steqv steqv); [apply Hs; exact H12|]. intros x y Hxy.
      rewrite (steqv_len _ _ Hxy), (steqv_len _ _ H12).
      destruct (Nat.ltb (length (snd y)) (length (snd s2))); [apply IH; exact Hxy | constructor]. }
    destruct g.
    + apply Forall2_app; [exact Hmore | constructor; [exact H12 | constructor]].
    + constructor; [exact H12 | exact Hmore].
  - apply (Forall2_flat_map steqv steqv); [apply Hs; exact H12|]. intros x y Hxy. apply IH. exact Hxy.
Qed.

Lemma back_fold w : forall s1 s2, steqv s1 s2 ->
  match back w s1, back w s2 with
  | Some b1, Some b2 => steqv b1 b2
  | None, None => True
  | _, _ => False
  end.
Proof.
  induction w as [|w IH]; intros s1 s2 H12; [exact H12|].
  cbn [back]. destruct H12 as [Hp Hr]. destruct s1 as [p1 r1], s2 as [p2 r2]. cbn [fst snd] in *.
  destruct Hp as [|c c' t t' Hc Ht]; [exact I|]. apply IH. split; cbn [fst snd]; [exact Ht | constructor; assumption].
Qed.

Lemma existsb_len_fold (l1 l2 : list (list N * list N)) n :
  Forall2 steqv l1 l2 ->
  existsb (fun st' => Nat.eqb (length (snd st')) n) l1 = existsb (fun st' => Nat.eqb (length (snd st')) n) l2.
Proof.
  intros H. induction H as [|x y l1 l2 Hxy Hl IH]; [reflexivity|]. cbn [existsb]. rewrite (steqv_len _ _ Hxy), IH. reflexivity.
Qed.

Lemma nonempty_fold {A} (R : A -> A -> Prop) l1 l2 : Forall2 R l1 l2 -> nonempty l1 = nonempty l2.
Proof. intros H. destruct H; reflexivity. Qed.

Lemma hd_word_fold E l1 l2 : Forall2 ceqv l1 l2 ->
  match l1 with c :: _ => is_word E c | [] => false end = match l2 with c :: _ => is_word E c | [] => false end.
Proof. intros H. destruct H as [|c c' t t' Hc _]; [reflexivity | apply is_word_fold; exact Hc]. Qed.

Lemma word_boundary_fold E s1 s2 : steqv s1 s2 -> word_boundary E s1 = word_boundary E s2.
Proof. intros [Hp Hr]. unfold word_boundary. rewrite (hd_word_fold E _ _ Hp), (hd_word_fold E _ _ Hr). reflexivity. Qed.

Lemma at_bol_fold E s1 s2 : steqv s1 s2 -> at_bol E s1 = at_bol E s2.
Proof.
  intros [Hp _]. unfold at_bol. destruct Hp as [|c c' t t' Hc _]; [reflexivity|]. rewrite (eqb10_fold _ _ Hc). reflexivity.
Qed.

Lemma at_eol_fold E s1 s2 : steqv s1 s2 -> at_eol E s1 = at_eol E s2.
Proof.
  intros [_ Hr]. unfold at_eol. destruct Hr as [|c c' t t' Hc Ht]; [reflexivity|]. rewrite (eqb10_fold _ _ Hc).
  destruct Ht; reflexivity.
Qed.

Lemma single_or_none (b : bool) s1 s2 : steqv s1 s2 -> Forall2 steqv (if b then [s1] else []) (if b then [s2] else []).
Proof. intros H. destruct b; [constructor; [exact H | constructor] | constructor]. Qed.

(* for EVERY regex of the subset: on inputs that differ only in the case of ASCII letters (before and after the
   position) the successes correspond one to one, in the same order, at the same positions *)
Theorem ends_ignorecase E : e_ignorecase E = true ->
  forall r s1 s2, steqv s1 s2 -> Forall2 steqv (ends E r s1) (ends E r s2).
Proof.
  intros Hic. induction r; intros s1 s2 H12; cbn [ends].
  - constructor; [exact H12 | constructor].
  - apply step1_fold; [|exact H12]. intros a b Hab. apply chr_eq_fold; assumption.
  - apply step1_fold; [|exact H12]. intros a b Hab. rewrite (set_mem_fold E a b items Hic Hab). reflexivity.
  - apply step1_fold; [|exact H12]. intros a b Hab. rewrite (eqb10_fold a b Hab). reflexivity.
  - apply (Forall2_flat_map steqv steqv); [apply IHr1; exact H12 | exact IHr2].
  - apply Forall2_app; [apply IHr1 | apply IHr2]; exact H12.
  - rewrite (steqv_len _ _ H12). apply rep_loop_fold; [exact IHr | exact H12].
  - apply IHr. exact H12.
  - rewrite (nonempty_fold steqv _ _ (IHr _ _ H12)). apply single_or_none. exact H12.
  - pose proof (back_fold w _ _ H12) as Hb. destruct (back w s1) as [b1|], (back w s2) as [b2|]; try contradiction.
    + rewrite (steqv_len _ _ H12). rewrite (existsb_len_fold _ _ _ (IHr _ _ Hb)). apply single_or_none. exact H12.
    + apply single_or_none. exact H12.
  - rewrite (word_boundary_fold E _ _ H12). apply single_or_none. exact H12.
  - rewrite (at_bol_fold E _ _ H12). apply single_or_none. exact H12.
  - rewrite (at_eol_fold E _ _ H12). apply single_or_none. exact H12.
Qed.

Theorem rx_match_ignorecase E r pre1 pre2 rest1 rest2 : e_ignorecase E = true ->
  Forall2 ceqv pre1 pre2 -> Forall2 ceqv rest1 rest2 ->
  rx_match E r pre1 rest1 = rx_match E r pre2 rest2.
Proof.
  intros Hic Hp Hr. unfold rx_match.
  pose proof (ends_ignorecase E Hic r (pre1, rest1) (pre2, rest2) (conj Hp Hr)) as H.
  destruct H as [|x y l1 l2 Hxy _]; [reflexivity|].
  rewrite (steqv_len _ _ Hxy), (Forall2_length Hr). reflexivity.
Qed.

Lemma lower_ascii_idem c : lower_ascii (lower_ascii c) = lower_ascii c.
Proof.
  unfold lower_ascii. destruct (in_range 65 90 c) eqn:H; [|rewrite H; reflexivity].
  pose proof (upper_range_facts c H) as Hr. unfold in_range. nleb.
Qed.

Lemma ceqv_map_lower l : Forall2 ceqv (map lower_ascii l) l.
Proof. induction l as [|c l IH]; constructor; [apply lower_ascii_idem | exact IH]. Qed.

(* in particular: lower-casing the whole input does not change any match of an IGNORECASE pattern *)
Corollary rx_match_ignorecase_lower E r pre rest : e_ignorecase E = true ->
  rx_match E r (map lower_ascii pre) (map lower_ascii rest) = rx_match E r pre rest.
Proof. intros Hic. apply rx_match_ignorecase; [exact Hic | apply ceqv_map_lower | apply ceqv_map_lower]. Qed.
