(* Unordered groups without separator whose members are all productive: the interpreter's ug_loop and the
   reference clause sug agree; the refinement theorem for the class wfgu. *)
From TxV Require Import Core.Base Model.PegSyntax Model.Peg Model.Spec Proofs.SpecProofs Proofs.SpecSepProofs.
Require Import Lia.

Lemma remove_first_In x e l : In x (remove_first e l) -> In x l.
Proof.
  induction l as [|y l IH]; cbn [remove_first]; [tauto|]. destruct (Nat.eqb e y); intro H; [right; exact H|].
  destruct H as [->|H]; [left; reflexivity | right; apply IH; exact H].
Qed.
Lemma remove_first_length e l : In e l -> S (length (remove_first e l)) = length l.
Proof.
  induction l as [|y l IH]; intro H; [destruct H|]. cbn [remove_first length].
  destruct (Nat.eqb e y) eqn:E; [reflexivity|]. destruct H as [->|H]; [rewrite Nat.eqb_refl in E; discriminate|].
  cbn [length]. rewrite (IH H). reflexivity.
Qed.

Section Ug.
Variable g : grammar.
Variable x : sctx.
Variable CP : list (nat * nat) -> Prop.
Variable pf : nat.
Variables (rec : nat -> bool -> st -> out) (srec : nat -> bool -> sctx -> nat -> sres).
Hypothesis Hsim : sim g x CP rec srec.

Notation okm := (fun todo => Forall (valid g) todo /\ forall c, In c todo -> prodb g pf c = true).

(* one round: the first remaining member that matches *)
Lemma ug_try_sim : forall todo mt s, inv x CP s -> okm todo ->
  match ug_try rec false (pos s) todo mt s with
  | UGHit e r s2 => exists ts, sug_pick srec x todo (pos s) = Some (Some (e, ts, pos s2)) /\ erase_all ts = flatten r /\
                               clean r /\ truthy r = true /\ flatten r <> [] /\ inv x CP s2 /\ pos s < pos s2 /\ In e todo
  | UGNone mt' s2 => sug_pick srec x todo (pos s) = Some None /\ inv x CP s2 /\ pos s2 = pos s /\
                     (todo <> [] -> mt' = false /\ sug_rest srec x todo (pos s) = SFail) /\ (todo = [] -> mt' = mt)
  | UGAbort _ => True
  end.
Proof.
  induction todo as [|c todo IH]; intros mt s Hinv [Hv Hp]; cbn [ug_try sug_pick sug_rest].
  - split; [reflexivity|]. split; [exact Hinv|]. split; [reflexivity|]. split; [intro X; congruence | reflexivity].
  - inversion Hv as [|? ? Hc Hv']; subst.
    pose proof (Hsim c false s Hinv Hc) as HS.
    destruct (rec c false s) as [r s1|s1|w] eqn:E.
    + destruct HS as [ts [Es [Ee [Hcl [Hinv1 [Hle Hpr]]]]]]. destruct (Hpr pf (Hp c (or_introl eq_refl))) as [Hne Hlt].
      rewrite (clean_truthy _ Hcl Hne). rewrite Es.
      assert (Hb : Nat.ltb (pos s) (pos s1) = true) by (apply Nat.ltb_lt; exact Hlt). rewrite Hb.
      exists ts. split; [reflexivity|]. split; [exact Ee|]. split; [exact Hcl|]. split; [apply clean_truthy; assumption|].
      split; [exact Hne|]. split; [exact Hinv1|]. split; [exact Hlt | left; reflexivity].
    + destruct HS as [Es Hinv1]. rewrite Es.
      assert (Hinv2 : inv x CP (set_pos (pos s) s1)) by (apply inv_set_pos; exact Hinv1).
      specialize (IH false (set_pos (pos s) s1) Hinv2 (conj Hv' (fun c' Hc' => Hp c' (or_intror Hc')))).
      cbn [pos set_pos] in IH.
      destruct (ug_try rec false (pos s) todo false (set_pos (pos s) s1)) as [e r s2|mt' s2|w].
      * destruct IH as [ts [A [B [C [D [E0 [F [G H]]]]]]]]. exists ts. rewrite A.
        split; [reflexivity|]. repeat (split; [assumption|]). right. exact H.
      * destruct IH as [A [B [C [D1 D2]]]]. rewrite A. split; [reflexivity|]. split; [exact B|]. split; [exact C|].
        split; [|intro X; discriminate]. intros _. split; [|reflexivity].
        destruct todo as [|c2 todo']; [apply D2; reflexivity | apply D1; discriminate].
      * exact I.
    + exact I.
Qed.

Lemma ug_loop_sim : forall n todo first acc sacc s,
  inv x CP s -> okm todo -> length todo < n -> erase_all sacc = flatten (RList acc) -> clean (RList acc) ->
  Forall (fun r => truthy r = true) acc ->
  match ug_loop rec None n todo first RNone acc s with
  | UGDone mt acc' s' =>
    if mt then exists ts, sug srec None x n todo first sacc (pos s) = SOk ts (pos s') /\ erase_all ts = flatten (RList acc') /\
                          clean (RList acc') /\ Forall (fun r => truthy r = true) acc' /\ inv x CP s' /\ pos s <= pos s' /\
                          (todo <> [] -> flatten (RList acc') <> []) /\ (todo = [] -> acc' = acc)
    else sug srec None x n todo first sacc (pos s) = SFail /\ inv x CP s'
  | UGOAbort _ => True
  end.
Proof.
  induction n as [|n IH]; intros todo first acc sacc s Hinv Hok Hlen Hea Hcl Htr; [lia|].
  destruct todo as [|t0 todo'] eqn:Et.
  - cbn [ug_loop sug]. exists sacc. split; [reflexivity|]. split; [exact Hea|]. split; [exact Hcl|]. split; [exact Htr|].
    split; [exact Hinv|]. split; [lia|]. split; [intro X; congruence | reflexivity].
  - rewrite <- Et in *. assert (Hne : todo <> []) by (rewrite Et; discriminate).
    assert (E1 : ug_loop rec None (S n) todo first RNone acc s =
                 match ug_try rec false (pos s) todo true s with
                 | UGHit e r s2 => ug_loop rec None n (remove_first e todo) false RNone (acc ++ [r]) s2
                 | UGNone mt s2 => UGDone mt acc (set_pos (pos s) s2)
                 | UGAbort w => UGOAbort w
                 end) by (rewrite Et; reflexivity).
    assert (E2 : sug srec None x (S n) todo first sacc (pos s) =
                 match sug_pick srec x todo (pos s) with
                 | None => SOut
                 | Some None => match sug_rest srec x todo (pos s) with SOk _ _ => SOk sacc (pos s) | r => r end
                 | Some (Some (e, ts, p2)) => sug srec None x n (remove_first e todo) false (sacc ++ [] ++ ts) p2
                 end) by (rewrite Et; reflexivity).
    rewrite E1, E2. clear E1 E2.
    pose proof (ug_try_sim todo true s Hinv Hok) as HT.
    destruct (ug_try rec false (pos s) todo true s) as [e r s2|mt' s2|w].
    + destruct HT as [ts [A [B [C [D [E0 [F [G H]]]]]]]]. rewrite A. cbn [app].
      destruct Hok as [Hv Hp].
      assert (Hok' : okm (remove_first e todo)).
      { split; [apply Forall_forall; intros y Hy; rewrite Forall_forall in Hv; apply Hv; apply (remove_first_In _ _ _ Hy)
               | intros y Hy; apply Hp; apply (remove_first_In _ _ _ Hy)]. }
      pose proof (remove_first_length e todo H) as Hl.
      assert (Hea' : erase_all (sacc ++ ts) = flatten (RList (acc ++ [r]))) by (rewrite erase_all_app, flatten_app, Hea, B; reflexivity).
      assert (Hcl' : clean (RList (acc ++ [r]))) by (apply clean_list_app; assumption).
      assert (Htr' : Forall (fun r => truthy r = true) (acc ++ [r])) by (apply Forall_app; split; [exact Htr | constructor; [exact D | constructor]]).
      specialize (IH (remove_first e todo) false (acc ++ [r]) (sacc ++ ts) s2 F Hok' ltac:(lia) Hea' Hcl' Htr').
      destruct (ug_loop rec None n (remove_first e todo) false RNone (acc ++ [r]) s2) as [mt acc' s'|w]; [|exact I].
      destruct mt.
      * destruct IH as [ts' [A' [B' [C' [D' [F' [G' [H1 H2]]]]]]]]. exists ts'.
        split; [exact A'|]. split; [exact B'|]. split; [exact C'|]. split; [exact D'|]. split; [exact F'|]. split; [lia|].
        split; [|intro X; contradiction]. intros _.
        destruct (remove_first e todo) as [|z zs] eqn:Er.
        -- rewrite (H2 eq_refl). rewrite flatten_app. intro X. apply app_eq_nil in X as [_ X]. contradiction.
        -- apply H1. discriminate.
      * exact IH.
    + destruct HT as [A [B [C [D1 _]]]]. destruct (D1 Hne) as [-> Er]. rewrite A, Er.
      split; [reflexivity | apply inv_set_pos; exact B].
    + exact I.
Qed.
End Ug.

Section RefineU.
Variable g : grammar.
Variable input : list N.
Variable orc : nat -> nat -> option nat.
Hypothesis Horc : orc_pos orc.
Variable CP : list (nat * nat) -> Prop.
Variable dx : nat.
Variable OKX : sctx -> Prop.
Hypothesis HOK_enter : forall nd x, In nd (g_nodes g) -> OKX x -> OKX (ctx_enter nd x).
Hypothesis HOK_eol : forall nd x, In nd (g_nodes g) -> OKX x -> OKX (ctx_eol nd x).
Hypothesis HOK_ws : forall nd x, In nd (g_nodes g) -> OKX x -> n_ws nd = None \/ x_eol x = false.
Hypothesis Hpre : forall f x s, OKX x -> inv x CP s ->
  match match_pre g input (parse g input orc false f) f s with
  | Ok r s1 => inv x CP s1 /\ skip g input (seval g input orc true (f + dx)) (f + dx) x (pos s) = Some (pos s1) /\ pos s <= pos s1
  | Fail _ => False
  | Abort _ => True
  end.
Variable pf : nat.
Hypothesis Hwfu : forall nid nd, get_node g nid = Some nd -> node_ok_u g (prodb g pf) nd = true.

Lemma body_sim_u rec srec k nd x s :
  sim g x CP rec srec -> ug_ok g (prodb g pf) nd = true -> inv x CP s ->
  match body rec k nd s with
  | Ok r s' => exists ts, sbody true srec (k + dx) nd x (pos s) = SOk ts (pos s') /\ body_post g CP x nd s r s' ts
  | Fail s' => sbody true srec (k + dx) nd x (pos s) = SFail /\ inv x CP s'
  | Abort _ => True
  end.
Proof.
  intros Hsim Hok Hinv. unfold ug_ok in Hok. destruct (n_kind nd) eqn:Ek; try discriminate.
  apply andb_true_iff in Hok as [Hok Hpr]. apply andb_true_iff in Hok as [Hok Hne]. apply andb_true_iff in Hok as [Hok Hkids].
  apply andb_true_iff in Hok as [Hok _]. apply andb_true_iff in Hok as [Hok _]. apply andb_true_iff in Hok as [Hsep Heol].
  apply negb_true_iff in Heol. destruct (n_sep nd) eqn:Es0; [discriminate|].
  assert (Hokm : Forall (valid g) (n_kids nd) /\ forall c, In c (n_kids nd) -> prodb g pf c = true).
  { split; [apply Forall_forall; intros c Hc; rewrite forallb_forall in Hkids; specialize (Hkids c Hc); apply Nat.ltb_lt in Hkids; exact Hkids
           | rewrite forallb_forall in Hpr; exact Hpr]. }
  unfold body, sbody. rewrite Ek, Es0. unfold enter_eol, leave_eol, ctx_eol. rewrite Heol.
  destruct (n_kids nd) as [|k0 rest] eqn:Ekids; [discriminate|]. rewrite <- Ekids in *.
  pose proof (ug_loop_sim g x CP pf rec srec Hsim (S (length (n_kids nd))) (n_kids nd) true [] [] s Hinv Hokm (Nat.lt_succ_diag_r _)
                eq_refl (Forall_nil _) (Forall_nil _)) as HU.
  destruct (ug_loop rec None (S (length (n_kids nd))) (n_kids nd) true RNone [] s) as [mt acc' s'|w]; [|exact I].
  destruct mt.
  - destruct HU as [ts [A [B [C [D [E0 [F [G _]]]]]]]].
    assert (Hnn : flatten (RList acc') <> []) by (apply G; rewrite Ekids; discriminate).
    destruct acc' as [|a l]; [exfalso; apply Hnn; reflexivity|].
    exists ts. split; [exact A|]. unfold body_post.
    split; [exact B|]. split; [exact C|]. split; [exact E0|]. split; [exact F|]. split; [reflexivity|].
    rewrite (head_not_none_of_truthy _ D).
    split; [discriminate|]. split; [intros _ X; contradiction|].
    intros j Hj. unfold prod_nd in Hj. rewrite Ek in Hj. rewrite andb_false_r in Hj. discriminate.
  - destruct HU as [A B]. unfold nm_raise. split; [exact A|]. apply inv_reg_fail. apply inv_set_pos. exact B.
Qed.

Lemma parse_sim_u : forall f, sim_all g CP OKX (parse g input orc false f) (seval g input orc true (f + dx)).
Proof.
  induction f as [|f IH]; intros x Hokx nid psq s Hinv Hv.
  - cbn. exact I.
  - change (S f + dx) with (S (f + dx)). cbn [parse seval].
    destruct (get_node g nid) as [nd|] eqn:En.
    2:{ exfalso. unfold get_node in En. apply nth_error_None in En. unfold valid in Hv. lia. }
    pose proof (Hwfu _ _ En) as Hoku.
    destruct (is_match_kind (n_kind nd)) eqn:Em.
    + (* terminals *)
      pose proof (Hpre f x s Hokx Hinv) as HP.
      destruct (match_pre g input (parse g input orc false f) f s) as [r0 s1|s1|w0] eqn:Emp; [|destruct HP|exact I].
      destruct HP as [Hinv1 [Esk Hle1]]. rewrite Esk.
      assert (Hok : node_ok g (prodb g pf) nd = true).
      { unfold node_ok_u in Hoku. apply orb_true_iff in Hoku as [A|A]; [exact A|]. unfold ug_ok in A. destruct (n_kind nd); discriminate. }
      unfold node_ok in Hok. apply andb_true_iff in Hok as [_ Hkind].
      assert (Hne : forall t o, n_kind nd = KStr t o -> t <> []).
      { intros t o E. rewrite E in Hkind. destruct t; [discriminate | discriminate]. }
      pose proof (term_sim input orc x CP Horc nid (n_kind nd) psq s1 Hinv1 Em Hne) as HT.
      destruct (term_parse input orc nid (n_kind nd) psq s1) as [r s2|s2|w] eqn:Et.
      * destruct HT as [ts [Es [Ee [Hcl [Hinv2 [Hle2 Hp]]]]]]. rewrite Es.
        destruct (n_suppress nd) eqn:Hsup.
        -- exists [SSup ts]. split; [reflexivity|]. split; [reflexivity|]. split; [constructor|]. split; [exact Hinv2|]. split; [lia|].
           intros k Hk. destruct k as [|k]; [rewrite prodb_0 in Hk; discriminate|].
           rewrite (prodb_S g k nid nd En) in Hk. unfold prod_nd in Hk. rewrite Hsup in Hk. discriminate.
        -- exists ts. split; [reflexivity|]. split; [exact Ee|]. split; [exact Hcl|]. split; [exact Hinv2|]. split; [lia|].
           intros k Hk. destruct k as [|k]; [rewrite prodb_0 in Hk; discriminate|].
           rewrite (prodb_S g k nid nd En) in Hk. unfold prod_nd in Hk. rewrite Hsup in Hk. cbn [negb andb] in Hk.
           assert (Hke : n_kind nd <> KEOF) by (intro X; rewrite X in Hk; discriminate).
           destruct (Hp Hke) as [A B]. split; [exact A | lia].
      * destruct HT as [Es Hinv2]. rewrite Es. split; [reflexivity | exact Hinv2].
      * exact I.
    + (* non-terminals; memoization is off *)
      cbv iota.
      assert (Hnd : In nd (g_nodes g)) by (unfold get_node in En; apply nth_error_In in En; exact En).
      assert (HB : match body (parse g input orc false f) f nd s with
                   | Ok r s' => exists ts, sbody true (seval g input orc true (f + dx)) (f + dx) nd x (pos s) = SOk ts (pos s') /\ body_post g CP x nd s r s' ts
                   | Fail s' => sbody true (seval g input orc true (f + dx)) (f + dx) nd x (pos s) = SFail /\ inv x CP s'
                   | Abort _ => True
                   end).
      { unfold node_ok_u in Hoku. destruct (node_ok g (prodb g pf) nd) eqn:Hok.
        - apply (body_sim g CP dx OKX HOK_enter HOK_eol HOK_ws _ _ f nd pf x s IH Hokx Hok Hnd Hinv Em).
        - cbn [orb] in Hoku. apply (body_sim_u _ _ f nd x s (IH x Hokx) Hoku Hinv). }
      destruct (body (parse g input orc false f) f nd s) as [r s1|s1|w] eqn:Eb.
      * destruct HB as [ts [Es [Ee [Hcl [Hinv1 [Hle [Hpt [Hhead [Hroot Hprod]]]]]]]]]. rewrite Es.
        unfold post, wrap.
        destruct (n_suppress nd) eqn:Hsup.
        { (* suppressed: nothing is contributed *)
          cbn [orb]. replace (n_root nd && truthy RNone && negb (is_ptnode RNone))%bool with false
            by (cbn; rewrite andb_false_r; reflexivity).
          exists [SSup ts]. split; [reflexivity|]. split; [reflexivity|]. split; [constructor|]. split; [exact Hinv1|].
          split; [exact Hle|].
          intros k Hk. destruct k as [|k]; [rewrite prodb_0 in Hk; discriminate|].
          rewrite (prodb_S g k nid nd En) in Hk. unfold prod_nd in Hk. rewrite Hsup in Hk. discriminate. }
        cbn [orb].
        set (r1 := if head_is_none r then RNone else r).
        assert (Hf1 : flatten r1 = flatten r).
        { subst r1. destruct (head_is_none r) eqn:Eh; [|reflexivity]. rewrite (Hhead eq_refl). reflexivity. }
        assert (Hcl1 : clean r1) by (unfold clean; rewrite Hf1; exact Hcl).
        assert (Hpt1 : is_ptnode r1 = false) by (subst r1; destruct (head_is_none r); [reflexivity | exact Hpt]).
        destruct (n_root nd) eqn:Er.
        -- assert (Hlive : live_root nd = true) by (unfold live_root; rewrite Er, Hsup; reflexivity).
           destruct (flatten r) as [|t0 l0] eqn:Efl.
           ++ destruct (Hroot Hlive eq_refl) as [Htf [Hts Hk]]. fold r1 in Htf. rewrite Htf. cbn [andb]. subst ts.
              exists []. split.
              ** destruct Hk as [-> | ->]; reflexivity.
              ** split; [rewrite Hf1; reflexivity|]. split; [exact Hcl1|]. split; [exact Hinv1|]. split; [exact Hle|].
                 intros k Hk'. destruct k as [|k]; [rewrite prodb_0 in Hk'; discriminate|].
                 rewrite (prodb_S g k nid nd En) in Hk'. destruct (Hprod k Hk') as [A _]. exfalso. apply A. reflexivity.
           ++ assert (Hne : flatten r1 <> []) by (rewrite Hf1; discriminate).
              rewrite (clean_truthy _ Hcl1 Hne), Hpt1. cbn [andb negb].
              assert (Hts : ts <> []) by (intro X; subst ts; cbn in Ee; discriminate).
              exists [SNT nid ts]. split.
              ** destruct ts as [|a b]; [congruence|]. destruct (n_kind nd); reflexivity.
              ** split; [unfold erase_all; cbn [flat_map]; rewrite erase_SNT, app_nil_r, Ee, Hf1; reflexivity|].
                 split; [unfold clean; cbn [flatten]; constructor; [|constructor]; cbn; rewrite Hf1; reflexivity|].
                 split; [exact Hinv1|]. split; [exact Hle|].
                 intros k Hk'. destruct k as [|k]; [rewrite prodb_0 in Hk'; discriminate|].
                 rewrite (prodb_S g k nid nd En) in Hk'. destruct (Hprod k Hk') as [_ B]. split; [discriminate | exact B].
        -- cbn [andb]. exists ts. split; [reflexivity|]. split; [rewrite Hf1; exact Ee|]. split; [exact Hcl1|].
           split; [exact Hinv1|]. split; [exact Hle|].
           intros k Hk'. destruct k as [|k]; [rewrite prodb_0 in Hk'; discriminate|].
           rewrite (prodb_S g k nid nd En) in Hk'. destruct (Hprod k Hk') as [A B]. split; [rewrite Hf1; exact A | exact B].
      * destruct HB as [Es Hinv1]. rewrite Es. split; [reflexivity | apply inv_set_pos; exact Hinv1].
      * exact I.
Qed.

End RefineU.

Lemma wfgu_parts g pf :
  wfgu g pf = true ->
  (forall nid nd, get_node g nid = Some nd -> node_ok_u g (prodb g pf) nd = true) /\
  g_comments g = None /\ g_top g < length (g_nodes g) /\ eol_ws_ok g = true.
Proof.
  unfold wfgu. cbv zeta. intro H. apply andb_true_iff in H as [H He]. apply andb_true_iff in H as [H Htop]. apply andb_true_iff in H as [Hall Hc].
  split; [|split; [|split]].
  - intros nid nd En. rewrite forallb_forall in Hall. unfold get_node in En. apply nth_error_In in En. exact (Hall nd En).
  - destruct (g_comments g); [discriminate | reflexivity].
  - apply Nat.ltb_lt. exact Htop.
  - exact He.
Qed.

(* the refinement theorem for the class with unordered groups (if the interpreter terminates) *)
Theorem refinement_u g pf c orc fuel input :
  wfgu g pf = true -> orc_pos orc ->
  match run g c orc false fuel input with
  | Parsed r =>
    exists ts p, spec_run g c orc fuel input = SOk ts p /\
                 (nosep g = true -> erase_all ts = flatten r) /\
                 exists tsq, spec_run_q g c orc fuel input = SOk tsq p /\ erase_all tsq = flatten r
  | SyntaxErr _ => spec_run g c orc fuel input = SFail
  | Aborted _ => True
  end.
Proof.
  intros Hwf Horc. destruct (wfgu_parts g pf Hwf) as [Hnodes [Hcm [Htop Heol]]].
  assert (Hinv : inv (init_ctx c) cpos_id (init_st c)) by (constructor; cbn; try reflexivity; constructor).
  assert (Hok0 : okx g (init_ctx c)) by (split; [reflexivity | intro X; discriminate]).
  pose proof (parse_sim_u g input orc Horc cpos_id 0 (okx g) (fun nd x _ H => okx_enter g nd x H) (okx_eol_g g Heol) (okx_ws_g g)
                (pre_nocmt g input orc Hcm) pf Hnodes fuel (init_ctx c) Hok0 (g_top g) false (init_st c) Hinv Htop) as HS.
  rewrite Nat.add_0_r in HS. cbn [pos init_st] in HS.
  assert (HQ : match run g c orc false fuel input with
               | Parsed r => exists tsq p, spec_run_q g c orc fuel input = SOk tsq p /\ erase_all tsq = flatten r
               | SyntaxErr _ => spec_run_q g c orc fuel input = SFail
               | Aborted _ => True
               end).
  { unfold run, spec_run_q. destruct (parse g input orc false fuel (g_top g) false (init_st c)) as [r s'|s'|w].
    - destruct HS as [ts [Es [Ee _]]]. exists ts, (pos s'). split; assumption.
    - destruct HS as [Es _]. exact Es.
    - exact I. }
  pose proof (spec_q_acceptance g c orc fuel input) as HA.
  destruct (run g c orc false fuel input) as [r|e|w]; [| |exact I].
  - destruct HQ as [tsq [p [Eq Ee]]]. rewrite Eq in HA.
    destruct (spec_run g c orc fuel input) as [ts p'| |] eqn:Es; try contradiction. subst p'.
    exists ts, p. split; [reflexivity|]. split.
    + intro Hn. pose proof (spec_q_nosep g c orc fuel input Hn) as E. rewrite Eq, Es in E. inversion E; subst. exact Ee.
    + exists tsq. split; [exact Eq | exact Ee].
  - rewrite HQ in HA. destruct (spec_run g c orc fuel input); try contradiction. reflexivity.
Qed.

(* Model: 'm' ('a' 'b' x=INT)#;   on "m b 3 a" *)
Definition g_ug : grammar := (mkGrammar [mkNode KSeq [1;8] None false [77;111;100;101;108]%N true false None None;
  mkNode KSeq [2;3] None false [77;111;100;101;108]%N true false None None;
  mkNode (KStr [109]%N None) [] None false []%N false false None None;
  mkNode KUnord [4;5;6] None false []%N false false None None;
  mkNode (KStr [97]%N None) [] None false []%N false false None None;
  mkNode (KStr [98]%N None) [] None false []%N false false None None;
  mkNode KSeq [7] None false [95;95;97;115;103;110;95;112;108;97;105;110]%N true false None None;
  mkNode (KRegex 0) [] None false [73;78;84]%N true false None None;
  mkNode KEOF [] None false [69;79;70]%N false false None None] 0 None).
Lemma ug_in_class :
  wfgu g_ug 24 = true /\ wfg g_ug 24 = false /\
  accepts (run g_ug c_default (orc_of [((0,4),1)]) false 50 [109;32;98;32;51;32;97]%N) = true /\
  saccepts (spec_run g_ug c_default (orc_of [((0,4),1)]) 50 [109;32;98;32;51;32;97]%N) = true /\
  accepts (run g_ug c_default (orc_of [((0,4),1)]) false 50 [109;32;98;32;97]%N) = false.
Proof. vm_compute. repeat split. Qed.

(* boundary: with a separator the two clauses differ.  Model: ('a' 'b')#[','] 'b'?;  on "a b": after the
   separator is missing the interpreter fails the group (a member is left), the reference clause ends the group
   because the remaining member could still match, and the optional 'b' then takes it *)
Definition g_ugsep : grammar := (mkGrammar [mkNode KSeq [1;8] None false [77;111;100;101;108]%N true false None None;
  mkNode KSeq [2;6] None false [77;111;100;101;108]%N true false None None;
  mkNode KUnord [3;4] (Some 5) false []%N false false None None;
  mkNode (KStr [97]%N None) [] None false []%N false false None None;
  mkNode (KStr [98]%N None) [] None false []%N false false None None;
  mkNode (KStr [44]%N None) [] None false [115;101;112]%N false false None None;
  mkNode KOpt [7] None false []%N false false None None;
  mkNode (KStr [98]%N None) [] None false []%N false false None None;
  mkNode KEOF [] None false [69;79;70]%N false false None None] 0 None).
Lemma refuted_ugsep :
  wfgu g_ugsep 24 = false /\
  saccepts (spec_run g_ugsep c_default (fun _ _ => None) 50 [97;32;98]%N) = true /\
  run g_ugsep c_default (fun _ _ => None) false 50 [97;32;98]%N = SyntaxErr 2.
Proof. vm_compute. repeat split. Qed.
