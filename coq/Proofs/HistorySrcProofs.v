(* The facts translated from the current source satisfy what the invariant needs.
   Re-checked on every run against Gen/SrcHistory.v. *)
From TxV Require Import Core.Base Model.History Gen.SrcHistory Proofs.HistoryProofs.

Lemma src_good : good src_facts = true.
Proof. reflexivity. Qed.

Section Src.
  Variable create_out : cfg -> gview -> cres.
  Variable load_out : cfg -> nat -> view -> lres.
  Variable cls_gram : nat -> nat.

  Definition src_step_inv := step_inv src_facts create_out load_out cls_gram src_good.
  Definition src_final_inv := final_inv src_facts create_out load_out cls_gram src_good.
  Definition src_load_result := load_result src_facts create_out load_out cls_gram.
  Definition src_history_independent := history_independent src_facts create_out load_out cls_gram src_good.
  Definition src_history_independent_repo := history_independent_repo src_facts create_out load_out cls_gram src_good.
  Definition src_nested_provider_inner := nested_provider_inner src_facts create_out load_out cls_gram src_good.
  Definition src_create_independent := create_independent src_facts create_out load_out cls_gram src_good.
End Src.

(* non-vacuity material: a concrete oracle pair satisfying the hypotheses, and a concrete history *)
Lemma wit_transparent : grammar_memo_transparent wit_create.
Proof. intros c b. reflexivity. Qed.

Lemma wit_repo_blind : repo_blind wit_load.
Proof. intros c i v r. destruct i; split; reflexivity. Qed.

Definition wit_repo_cfg : cfg := {| c_gram := 1; c_memo := true; c_debug := false; c_base := true; c_classes := [8; 9]; c_repo := true; c_root_user := true; c_opts := 3 |}.
Definition wit_gram (id : nat) : nat := match id with 7 => 0 | _ => 1 end.
Definition wit_ops : list op := [New 0 wit_cfg; Load 0 0; New 1 wit_repo_cfg; Load 1 5; Load 0 1; New 0 wit_cfg_memo; Load 1 5; Load 0 2].

Lemma wit_ops_wf : Forall (wf_op wit_gram) wit_ops.
Proof.
  unfold wit_ops. repeat constructor; cbn; intros id H; repeat (destruct H as [<-|H]; [reflexivity|]); destruct H.
Qed.

Lemma wit_slots : slots (final src_facts wit_create wit_load wit_ops) 1 <> None /\
                  slots (final src_facts wit_create wit_load wit_ops) 0 <> None.
Proof. split; vm_compute; discriminate. Qed.

Lemma wit_run :
  map (fun o => match o with OLoad r => Some (l_dump r) | _ => None end) (snd (run src_facts wit_create wit_load init wit_ops))
  = [None; Some 0; None; Some 0; Some 0; None; Some 0; Some 0].
Proof. vm_compute. reflexivity. Qed.

Lemma wit_memo_visible :
  let co := fun (_ : cfg) (g : gview) => {| k_kind := COk; k_dump := if gv_memo g then 1 else 0 |} in
  good good_facts = true /\ f_gp_key_memo good_facts = false /\
  co wit_cfg {| gv_memo := negb (c_memo wit_cfg); gv_cache := [] |} <> co wit_cfg {| gv_memo := c_memo wit_cfg; gv_cache := [] |}.
Proof. cbn. repeat split; discriminate. Qed.

(* non-vacuity for the nested-load theorem: an oracle that ignores the counters, two slots, a nested load *)
Definition wit_load_blind (_ : cfg) (i : nat) (v : view) : lres :=
  {| l_kind := LOk; l_dump := i + length (v_caches v); l_leak := []; l_files := [] |}.
Lemma wit_blind : instr_blind wit_load_blind.
Proof. intros c i v l. reflexivity. Qed.
Lemma wit_nested_slots :
  slots (final src_facts wit_create wit_load_blind [New 0 wit_cfg; New 1 wit_repo_cfg; Nested 0 4 PhProvider 1 5; Nested 1 6 PhAfter 0 1]) 0 <> None /\
  slots (final src_facts wit_create wit_load_blind [New 0 wit_cfg; New 1 wit_repo_cfg; Nested 0 4 PhProvider 1 5; Nested 1 6 PhAfter 0 1]) 1 <> None.
Proof. split; vm_compute; discriminate. Qed.
