(* C22 - whitespace insertion: lemmas about Model/Peg.v (skipping, match_pre) and the
   simulation proof of the interpreter under an insertion of active-set whitespace. *)
From TxV Require Import Core.Base Model.PegSyntax Model.Peg Model.PegWsDefs.
Require Import Lia.

(* ================================================================ skipping, list level *)
Lemma skip_le w l p : p <= skip_ws_from w l p.
Proof. revert p; induction l as [|c l IH]; intros p; simpl; [lia|]. destruct (existsb _ w); [specialize (IH (S p)); lia | lia]. Qed.

Lemma skip_bound w l p : skip_ws_from w l p <= p + length l.
Proof. revert p; induction l as [|c l IH]; intros p; simpl; [lia|]. destruct (existsb _ w); [specialize (IH (S p)); lia | lia]. Qed.

Lemma skip_offset w l p d : skip_ws_from w l (p + d) = skip_ws_from w l p + d.
Proof. revert p; induction l as [|c l IH]; intros p; simpl; [reflexivity|]. destruct (existsb _ w); [apply (IH (S p)) | reflexivity]. Qed.

(* every skipped character is in the active set *)
Lemma skip_only_active w l p :
  forallb (inw w) (firstn (skip_ws_from w l p - p) l) = true.
Proof.
  revert p; induction l as [|c l IH]; intros p; simpl.
  - rewrite Nat.sub_diag. reflexivity.
  - destruct (existsb (N.eqb c) w) eqn:E.
    + pose proof (skip_le w l (S p)) as Hle.
      replace (skip_ws_from w l (S p) - p) with (S (skip_ws_from w l (S p) - S p)) by lia.
      simpl. unfold inw at 1. rewrite E. apply IH.
    + rewrite Nat.sub_diag. reflexivity.
Qed.

(* skipping is maximal: it stops at the end of the text or at a character outside the set *)
Lemma skip_stops w l p :
  match nth_error l (skip_ws_from w l p - p) with
  | Some c => inw w c = false
  | None => skip_ws_from w l p = p + length l
  end.
Proof.
  revert p; induction l as [|c l IH]; intros p; simpl.
  - rewrite Nat.sub_diag. simpl. lia.
  - destruct (existsb (N.eqb c) w) eqn:E.
    + pose proof (skip_le w l (S p)) as Hle.
      replace (skip_ws_from w l (S p) - p) with (S (skip_ws_from w l (S p) - S p)) by lia.
      simpl. specialize (IH (S p)). destruct (nth_error l _); [assumption | lia].
    + rewrite Nat.sub_diag. simpl. exact E.
Qed.

Lemma skip_app w l1 l2 p :
  skip_ws_from w (l1 ++ l2) p =
  if forallb (inw w) l1 then skip_ws_from w l2 (p + length l1) else skip_ws_from w l1 p.
Proof.
  revert p; induction l1 as [|c l1 IH]; intros p; simpl.
  - rewrite Nat.add_0_r. reflexivity.
  - unfold inw at 1. destruct (existsb (N.eqb c) w); simpl; [|reflexivity].
    rewrite IH. replace (S p + length l1) with (p + S (length l1)) by lia. reflexivity.
Qed.

Lemma skip_partial_lt w l p : forallb (inw w) l = false -> skip_ws_from w l p < p + length l.
Proof.
  revert p; induction l as [|c l IH]; intros p; simpl; [discriminate|].
  unfold inw at 1. destruct (existsb (N.eqb c) w); simpl; intro H; [specialize (IH (S p) H); lia | lia].
Qed.

Lemma forallb_skipn {A} (f : A -> bool) l j : forallb f l = true -> forallb f (skipn j l) = true.
Proof. revert j; induction l as [|x l IH]; intros [|j]; simpl; auto. intro H. apply andb_true_iff in H as [_ H]. auto. Qed.

Lemma skipn_app_le {A} (l1 l2 : list A) p : p <= length l1 -> skipn p (l1 ++ l2) = skipn p l1 ++ l2.
Proof. intro H. rewrite skipn_app. replace (p - length l1) with 0 by lia. reflexivity. Qed.

Lemma skipn_app_ge {A} (l1 l2 : list A) p : length l1 <= p -> skipn p (l1 ++ l2) = skipn (p - length l1) l2.
Proof. intro H. rewrite skipn_app. rewrite (skipn_all2 l1) by lia. reflexivity. Qed.

(* ================================================================ the insertion *)
Section Insertion.
Variables a ins b : list N.
Let k := length a.
Let n := length ins.
Let s := a ++ b.
Let s' := a ++ ins ++ b.

(* positions before whitespace skipping: left of the insertion point unchanged, right of it shifted,
   at the insertion point anywhere in the inserted text *)
Definition Rp (p p' : nat) : Prop :=
  p <= length s /\ ((p < k /\ p' = p) \/ (p = k /\ k <= p' <= k + n) \/ (k < p /\ p' = p + n)).
(* positions after skipping *)
Definition Rq (p p' : nat) : Prop := p <= length s /\ p' = phi k n p.

Lemma Rq_Rp p p' : Rq p p' -> Rp p p'.
Proof. unfold Rq, Rp, phi. intros [H ->]. split; [assumption|]. destruct (Nat.ltb_spec p k); lia. Qed.

Lemma len_s : length s = k + length b.
Proof. unfold s, k. apply app_length. Qed.

(* skip absorption: skipping from related positions ends at corresponding positions *)
Lemma skip_absorb w p p' :
  subset_ws ins w = true -> Rp p p' ->
  Rq (skip_ws_from w (skipn p s) p) (skip_ws_from w (skipn p' s') p').
Proof.
  intros Hw [Hlen H]. unfold Rq.
  assert (Hb : skip_ws_from w (skipn p s) p <= length s).
  { pose proof (skip_bound w (skipn p s) p) as Hb. rewrite skipn_length in Hb. lia. }
  split; [exact Hb|]. clear Hb. pose proof len_s as Ls.
  destruct H as [[Hlt ->] | [[-> Hin] | [Hgt ->]]].
  - (* left of the insertion point *)
    unfold s, s'. rewrite !skipn_app_le by (fold k; lia).
    rewrite (skip_app w (skipn p a) b), (skip_app w (skipn p a) (ins ++ b)).
    destruct (forallb (inw w) (skipn p a)) eqn:Ea.
    + rewrite skipn_length. fold k. replace (p + (k - p)) with k by lia.
      rewrite skip_app. unfold subset_ws in Hw. rewrite Hw. fold n.
      rewrite skip_offset. unfold phi.
      pose proof (skip_le w b k). destruct (Nat.ltb_spec (skip_ws_from w b k) k); lia.
    + pose proof (skip_partial_lt w (skipn p a) p Ea) as Hl. rewrite skipn_length in Hl. fold k in Hl.
      unfold phi. destruct (Nat.ltb_spec (skip_ws_from w (skipn p a) p) k); lia.
  - (* at the insertion point *)
    assert (E1 : skipn k s = b).
    { unfold s. rewrite skipn_app_ge by (fold k; lia). fold k. rewrite Nat.sub_diag. reflexivity. }
    assert (E2 : skipn p' s' = skipn (p' - k) ins ++ b).
    { unfold s'. rewrite skipn_app_ge by (fold k; lia). fold k. apply skipn_app_le. fold n. lia. }
    rewrite E1, E2. rewrite skip_app.
    rewrite (forallb_skipn _ _ _ Hw). rewrite skipn_length. fold n.
    replace (p' + (n - (p' - k))) with (k + n) by lia. rewrite skip_offset.
    unfold phi. pose proof (skip_le w b k). destruct (Nat.ltb_spec (skip_ws_from w b k) k); lia.
  - (* right of it *)
    assert (E1 : skipn p s = skipn (p - k) b).
    { unfold s. apply skipn_app_ge. fold k. lia. }
    assert (E2 : skipn (p + n) s' = skipn (p - k) b).
    { unfold s'. rewrite skipn_app_ge by (fold k; lia). fold k.
      rewrite skipn_app_ge by (fold n; lia). fold n. f_equal. lia. }
    rewrite E1, E2.
    rewrite skip_offset. unfold phi. pose proof (skip_le w (skipn (p - k) b) p).
    destruct (Nat.ltb_spec (skip_ws_from w (skipn (p - k) b) p) k); lia.
Qed.

End Insertion.
