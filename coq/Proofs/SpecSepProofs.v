(* The trailing-separator variant of the reference semantics (Spec with tsep = true, what the
   interpreter refines) versus the documented semantics (tsep = false): same acceptance and same end
   position for EVERY grammar table; same trees when no repetition has a separator. *)
From TxV Require Import Core.Base Model.PegSyntax Model.Peg Model.Spec.
Require Import Lia.

Definition teq (P : bool) (a b : list stree) : Prop := P = true -> a = b.
Definition rel (P : bool) (a b : sres) : Prop :=
  match a, b with
  | SOk ts p, SOk ts' p' => p = p' /\ teq P ts ts'
  | SFail, SFail => True
  | SOut, SOut => True
  | _, _ => False
  end.

Lemma teq_refl P a : teq P a a.
Proof. intro; reflexivity. Qed.
Lemma teq_app P a a' b b' : teq P a a' -> teq P b b' -> teq P (a ++ b) (a' ++ b').
Proof. intros H1 H2 HP. rewrite (H1 HP), (H2 HP). reflexivity. Qed.

Section Sep.
Variable g : grammar.
Variable input : list N.
Variable orc : nat -> nat -> option nat.
Variable P : bool.

Notation sparser := (nat -> bool -> sctx -> nat -> sres) (only parsing).
Definition rrel (rec rec' : sparser) : Prop := forall nid psq x p, rel P (rec nid psq x p) (rec' nid psq x p).

Ltac step Hr c q x p :=
  let H := fresh "H" in
  pose proof (Hr c q x p) as H;
  destruct (_ c q x p) as [?ts ?p1| |] in H |- *; destruct (_ c q x p) as [?ts' ?p1'| |] in H |- *;
  cbn [rel] in H; try contradiction.

Lemma skip_cmts_rel rec rec' cm x : rrel rec rec' -> forall k p, skip_cmts input rec cm x k p = skip_cmts input rec' cm x k p.
Proof.
  intros Hr. induction k as [|k IH]; intro p; [reflexivity|]. cbn [skip_cmts].
  pose proof (Hr cm false (ctx_cmt x) p) as H.
  destruct (rec cm false (ctx_cmt x) p), (rec' cm false (ctx_cmt x) p); cbn [rel] in H; try contradiction; try reflexivity.
  destruct H as [<- _]. apply IH.
Qed.

Lemma skip_rel rec rec' k x p : rrel rec rec' -> skip g input rec k x p = skip g input rec' k x p.
Proof.
  intro Hr. unfold skip. destruct (x_skip x); [|reflexivity]. destruct (x_incmt x); [reflexivity|].
  destruct (g_comments g); [|reflexivity]. apply skip_cmts_rel. exact Hr.
Qed.

Lemma sseq_rel rec rec' psq x kids : rrel rec rec' ->
  forall acc acc' p, teq P acc acc' -> rel P (sseq rec psq x kids acc p) (sseq rec' psq x kids acc' p).
Proof.
  intro Hr. induction kids as [|c kids IH]; intros acc acc' p Ha; cbn [sseq].
  - cbn. split; [reflexivity | exact Ha].
  - pose proof (Hr c psq x p) as H.
    destruct (rec c psq x p), (rec' c psq x p); cbn [rel] in H; try contradiction; try exact I.
    destruct H as [<- Ht]. apply IH. apply teq_app; assumption.
Qed.

Lemma schoice_rel rec rec' x kids p : rrel rec rec' -> rel P (schoice rec x kids p) (schoice rec' x kids p).
Proof.
  intro Hr. induction kids as [|c kids IH]; cbn [schoice]; [exact I|].
  pose proof (Hr c false x p) as H.
  destruct (rec c false x p), (rec' c false x p); cbn [rel] in H; try contradiction; try exact I.
  - exact H.
  - exact IH.
Qed.

(* the only place where the two variants differ *)
Lemma srep_rel rec rec' e sep plus x : rrel rec rec' -> (P = true -> sep = None) ->
  forall k first acc acc' p, teq P acc acc' ->
  rel P (srep true rec e sep plus x k first acc p) (srep false rec' e sep plus x k first acc' p).
Proof.
  intros Hr Hsep. induction k as [|k IH]; intros first acc acc' p Ha; [exact I|].
  cbn [srep].
  assert (Hstop : rel P (if (plus && first)%bool then SFail else SOk acc p) (if (plus && first)%bool then SFail else SOk acc' p)).
  { destruct (plus && first)%bool; [exact I|]. split; [reflexivity | exact Ha]. }
  assert (Helem : forall sts sts' p1, teq P sts sts' -> (P = true -> sts = []) ->
            rel P (match rec e false x p1 with
                   | SOk ts p2 => if Nat.ltb p p2 then srep true rec e sep plus x k false (acc ++ sts ++ ts) p2
                                  else if (plus && first)%bool then SOk (acc ++ sts ++ ts) p2
                                  else if (plus && first)%bool then SFail else SOk acc p
                   | SFail => if (plus && first)%bool then SFail else SOk (acc ++ sts) p
                   | SOut => SOut end)
                  (match rec' e false x p1 with
                   | SOk ts p2 => if Nat.ltb p p2 then srep false rec' e sep plus x k false (acc' ++ sts' ++ ts) p2
                                  else if (plus && first)%bool then SOk (acc' ++ sts' ++ ts) p2
                                  else if (plus && first)%bool then SFail else SOk acc' p
                   | SFail => if (plus && first)%bool then SFail else SOk acc' p
                   | SOut => SOut end)).
  { intros sts sts' p1 Hs Hnil. pose proof (Hr e false x p1) as H.
    destruct (rec e false x p1), (rec' e false x p1); cbn [rel] in H; try contradiction; try exact I.
    - destruct H as [<- Ht]. destruct (Nat.ltb p p0).
      + apply IH. apply teq_app; [exact Ha|]. apply teq_app; assumption.
      + destruct (plus && first)%bool.
        * split; [reflexivity|]. apply teq_app; [exact Ha|]. apply teq_app; assumption.
        * split; [reflexivity | exact Ha].
    - destruct (plus && first)%bool; [exact I|]. split; [reflexivity|].
      intro HP. rewrite (Hnil HP), app_nil_r. exact (Ha HP). }
  destruct sep as [sp|].
  - destruct first.
    + apply (Helem [] [] p (teq_refl P []) (fun _ => eq_refl)).
    + pose proof (Hr sp false x p) as H.
      destruct (rec sp false x p), (rec' sp false x p); cbn [rel] in H; try contradiction; try exact I.
      * destruct H as [<- Ht]. apply Helem; [exact Ht|]. intro HP. specialize (Hsep HP). discriminate.
      * exact Hstop.
  - apply (Helem [] [] p (teq_refl P []) (fun _ => eq_refl)).
Qed.

Lemma sug_pick_rel rec rec' x todo p : rrel rec rec' ->
  match sug_pick rec x todo p, sug_pick rec' x todo p with
  | None, None => True
  | Some None, Some None => True
  | Some (Some (e, ts, p1)), Some (Some (e', ts', p1')) => e = e' /\ p1 = p1' /\ teq P ts ts'
  | _, _ => False
  end.
Proof.
  intro Hr. induction todo as [|e rest IH]; cbn [sug_pick]; [exact I|].
  pose proof (Hr e false x p) as H.
  destruct (rec e false x p), (rec' e false x p); cbn [rel] in H; try contradiction; try exact I.
  - destruct H as [<- Ht]. destruct (Nat.ltb p p0); [|exact IH]. split; [reflexivity|]. split; [reflexivity | exact Ht].
  - exact IH.
Qed.

Lemma sug_rest_rel rec rec' x todo p : rrel rec rec' ->
  rel P (sug_rest rec x todo p) (sug_rest rec' x todo p).
Proof.
  intro Hr. induction todo as [|e rest IH]; cbn [sug_rest]; [split; [reflexivity | apply teq_refl]|].
  pose proof (Hr e false x p) as H.
  destruct (rec e false x p), (rec' e false x p); cbn [rel] in H; try contradiction; try exact I.
  exact IH.
Qed.

Lemma sug_rel rec rec' sep x : rrel rec rec' ->
  forall n todo first acc acc' p, teq P acc acc' ->
  rel P (sug rec sep x n todo first acc p) (sug rec' sep x n todo first acc' p).
Proof.
  intro Hr. induction n as [|n IH]; intros todo first acc acc' p Ha; [exact I|].
  cbn [sug].
  destruct todo as [|t0 todo']; [split; [reflexivity | exact Ha]|].
  set (todo := t0 :: todo').
  assert (Hfin : rel P (match sug_rest rec x todo p with SOk _ _ => SOk acc p | r => r end)
                       (match sug_rest rec' x todo p with SOk _ _ => SOk acc' p | r => r end)).
  { pose proof (sug_rest_rel rec rec' x todo p Hr) as H.
    destruct (sug_rest rec x todo p), (sug_rest rec' x todo p); cbn [rel] in H; try contradiction; try exact I.
    split; [reflexivity | exact Ha]. }
  assert (Hgo : forall sts sts' p1, teq P sts sts' ->
            rel P (match sug_pick rec x todo p1 with
                   | None => SOut
                   | Some None => match sug_rest rec x todo p with SOk _ _ => SOk acc p | r => r end
                   | Some (Some (e, ts, p2)) => sug rec sep x n (remove_first e todo) false (acc ++ sts ++ ts) p2
                   end)
                  (match sug_pick rec' x todo p1 with
                   | None => SOut
                   | Some None => match sug_rest rec' x todo p with SOk _ _ => SOk acc' p | r => r end
                   | Some (Some (e, ts, p2)) => sug rec' sep x n (remove_first e todo) false (acc' ++ sts' ++ ts) p2
                   end)).
  { intros sts sts' p1 Hs. pose proof (sug_pick_rel rec rec' x todo p1 Hr) as H.
    destruct (sug_pick rec x todo p1) as [[[[e ts] p2]|]|], (sug_pick rec' x todo p1) as [[[[e' ts'] p2']|]|]; try contradiction; try exact I.
    - destruct H as [<- [<- Ht]]. apply IH. apply teq_app; [exact Ha|]. apply teq_app; assumption.
    - exact Hfin. }
  destruct sep as [sp|].
  - destruct first.
    + apply (Hgo [] [] p (teq_refl P [])).
    + pose proof (Hr sp false x p) as H.
      destruct (rec sp false x p), (rec' sp false x p); cbn [rel] in H; try contradiction; try exact I.
      * destruct H as [<- Ht]. apply Hgo. exact Ht.
      * exact Hfin.
  - apply (Hgo [] [] p (teq_refl P [])).
Qed.

Lemma sbody_rel rec rec' k nd x p : rrel rec rec' -> (P = true -> n_sep nd = None) ->
  rel P (sbody true rec k nd x p) (sbody false rec' k nd x p).
Proof.
  intros Hr Hsep. unfold sbody. destruct (n_kind nd).
  - apply sseq_rel; [exact Hr | apply teq_refl].
  - apply schoice_rel; exact Hr.
  - destruct (n_kids nd) as [|e rest]; [exact I|].
    pose proof (Hr e false x p) as H.
    destruct (rec e false x p), (rec' e false x p); cbn [rel] in H; try contradiction; try exact I.
    + exact H.
    + split; [reflexivity | apply teq_refl].
  - destruct (n_kids nd) as [|e rest]; [exact I|]. apply srep_rel; [exact Hr | exact Hsep | apply teq_refl].
  - destruct (n_kids nd) as [|e rest]; [exact I|]. apply srep_rel; [exact Hr | exact Hsep | apply teq_refl].
  - destruct (n_kids nd) as [|e rest]; [exact I|]. apply sug_rel; [exact Hr | apply teq_refl].
  - pose proof (sseq_rel rec rec' false x (n_kids nd) Hr [] [] p (teq_refl P [])) as H.
    destruct (sseq rec false x (n_kids nd) [] p), (sseq rec' false x (n_kids nd) [] p); cbn [rel] in H; try contradiction; try exact I.
    split; [reflexivity | apply teq_refl].
  - pose proof (sseq_rel rec rec' false x (n_kids nd) Hr [] [] p (teq_refl P [])) as H.
    destruct (sseq rec false x (n_kids nd) [] p), (sseq rec' false x (n_kids nd) [] p); cbn [rel] in H; try contradiction; try exact I.
    split; [reflexivity | apply teq_refl].
  - split; [reflexivity | apply teq_refl].
  - exact I.
  - exact I.
  - exact I.
Qed.

Hypothesis Hnosep : P = true -> forall nid nd, get_node g nid = Some nd -> n_sep nd = None.

Lemma seval_rel : forall f, rrel (seval g input orc true f) (seval g input orc false f).
Proof.
  induction f as [|f IH]; intros nid psq x p; [exact I|].
  cbn [seval]. destruct (get_node g nid) as [nd|] eqn:En; [|exact I].
  destruct (is_match_kind (n_kind nd)).
  - rewrite (skip_rel _ _ f x p IH). destruct (skip g input (seval g input orc false f) f x p); [|exact I].
    destruct (term_match input orc nid (n_kind nd) psq n); try exact I. split; [reflexivity | apply teq_refl].
  - pose proof (sbody_rel _ _ f nd x p IH (fun HP => Hnosep HP nid nd En)) as H.
    destruct (sbody true (seval g input orc true f) f nd x p), (sbody false (seval g input orc false f) f nd x p);
      cbn [rel] in H; try contradiction; try exact I.
    destruct H as [<- Ht]. split; [reflexivity|]. intro HP. rewrite (Ht HP). reflexivity.
Qed.
End Sep.

(* acceptance and end position: for every grammar table *)
Theorem spec_q_acceptance g c orc fuel input :
  match spec_run_q g c orc fuel input, spec_run g c orc fuel input with
  | SOk _ p, SOk _ p' => p = p'
  | SFail, SFail => True
  | SOut, SOut => True
  | _, _ => False
  end.
Proof.
  pose proof (seval_rel g input orc false (fun X => False_ind _ (Bool.diff_false_true X)) fuel (g_top g) false (init_ctx c) 0) as H.
  unfold spec_run_q, spec_run.
  destruct (seval g input orc true fuel (g_top g) false (init_ctx c) 0), (seval g input orc false fuel (g_top g) false (init_ctx c) 0);
    cbn [rel] in H; try contradiction; try exact I. destruct H as [H _]. exact H.
Qed.

Definition nosep (g : grammar) : bool := forallb (fun nd => opt_none (n_sep nd)) (g_nodes g).

(* without separators the two variants are the same function *)
Theorem spec_q_nosep g c orc fuel input :
  nosep g = true -> spec_run_q g c orc fuel input = spec_run g c orc fuel input.
Proof.
  intro Hn.
  assert (Hns : true = true -> forall nid nd, get_node g nid = Some nd -> n_sep nd = None).
  { intros _ nid nd En. unfold nosep in Hn. rewrite forallb_forall in Hn. unfold get_node in En. apply nth_error_In in En.
    specialize (Hn nd En). destruct (n_sep nd); [discriminate | reflexivity]. }
  pose proof (seval_rel g input orc true Hns fuel (g_top g) false (init_ctx c) 0) as H.
  unfold spec_run_q, spec_run.
  destruct (seval g input orc true fuel (g_top g) false (init_ctx c) 0), (seval g input orc false fuel (g_top g) false (init_ctx c) 0);
    cbn [rel] in H; try contradiction; try reflexivity. destruct H as [<- Ht]. rewrite (Ht eq_refl). reflexivity.
Qed.

(* ================================================================ the refinement theorem against the documented semantics *)
From TxV Require Import Proofs.SpecProofs.

Theorem refinement g pf c orc fuel input :
  wfg g pf = true -> orc_pos orc ->
  match run g c orc false fuel input with
  | Parsed r =>
    exists ts p, spec_run g c orc fuel input = SOk ts p /\
                 (nosep g = true -> erase_all ts = flatten r) /\
                 exists tsq, spec_run_q g c orc fuel input = SOk tsq p /\ erase_all tsq = flatten r
  | SyntaxErr _ => spec_run g c orc fuel input = SFail
  | Aborted _ => True
  end.
Proof.
  intros Hwf Horc. pose proof (refinement_q g pf c orc fuel input Hwf Horc) as HQ.
  pose proof (spec_q_acceptance g c orc fuel input) as HA.
  destruct (run g c orc false fuel input) as [r|e|w]; [| |exact I].
  - destruct HQ as [tsq [p [Eq Ee]]]. rewrite Eq in HA.
    destruct (spec_run g c orc fuel input) as [ts p'| |] eqn:Es; try contradiction. subst p'.
    exists ts, p. split; [reflexivity|]. split.
    + intro Hn. pose proof (spec_q_nosep g c orc fuel input Hn) as E. rewrite Eq, Es in E. inversion E; subst. exact Ee.
    + exists tsq. split; [exact Eq | exact Ee].
  - rewrite HQ in HA. destruct (spec_run g c orc fuel input); try contradiction. reflexivity.
Qed.

(* one sufficient fuel: the outcome at any fuel on which the interpreter does not run out is the outcome
   at every larger fuel (Proofs/PegFuel.v), so the statement transfers *)
From TxV Require Import Proofs.PegFuel.
Corollary refinement_fuel g pf c orc f f' input :
  wfg g pf = true -> orc_pos orc -> f <= f' -> run g c orc false f input <> Aborted 0 ->
  run g c orc false f' input = run g c orc false f input /\
  match run g c orc false f input with
  | Parsed r => exists ts p, spec_run g c orc f' input = SOk ts p /\ (nosep g = true -> erase_all ts = flatten r)
  | SyntaxErr _ => spec_run g c orc f' input = SFail
  | Aborted _ => True
  end.
Proof.
  intros Hwf Horc L NA. pose proof (run_fuel_mono g c orc false f f' input L NA) as E. split; [exact E|].
  pose proof (refinement g pf c orc f' input Hwf Horc) as H. rewrite E in H.
  destruct (run g c orc false f input); [| exact H | exact I].
  destruct H as [ts [p [Es [Hn _]]]]. exists ts, p. split; assumption.
Qed.

(* ================================================================ model equality *)
From TxV Require Import Model.Build.

Definition root_top (g : grammar) : bool :=
  match get_node g (g_top g) with
  | Some nd => n_root nd && negb (is_match_kind (n_kind nd))
  | None => false
  end.

Lemma post_shape nid nd r : n_root nd = true -> truthy (post nid nd r) = true -> exists t, post nid nd r = RTree t.
Proof.
  intros Hr. unfold post.
  set (r1 := if (n_suppress nd || head_is_none r)%bool then RNone else r).
  rewrite Hr. cbn [andb].
  destruct (truthy r1 && negb (is_ptnode r1))%bool eqn:C.
  - intros _. eexists. reflexivity.
  - intro Ht. rewrite Ht in C. cbn [andb] in C. apply negb_false_iff in C.
    destruct r1; try discriminate. eexists. reflexivity.
Qed.

Lemma run_shape g c orc fuel input r :
  root_top g = true -> run g c orc false fuel input = Parsed r -> truthy r = true -> exists t, r = RTree t.
Proof.
  unfold root_top, run. intros Hrt H.
  destruct fuel as [|f]; [discriminate|]. cbn [parse] in H.
  destruct (get_node g (g_top g)) as [nd|]; [|discriminate].
  apply andb_true_iff in Hrt as [Hroot Hm]. apply negb_true_iff in Hm. rewrite Hm in H. cbv iota in H.
  destruct (body (parse g input orc false f) f nd (init_st c)) as [r0 s1|s1|w]; try discriminate.
  inversion H; subst. apply post_shape. exact Hroot.
Qed.

Lemma build_flat_flatten g mm input grp auto ug r :
  (truthy r = true -> exists t, r = RTree t) ->
  build g mm input grp auto ug r = build_flat g mm input grp auto ug (flatten r).
Proof.
  intro Hs. destruct r as [|t|l].
  - reflexivity.
  - cbn [flatten]. destruct t as [n p len s|n kids]; [reflexivity|]. destruct kids; reflexivity.
  - destruct l as [|a l]; [reflexivity|]. destruct (Hs eq_refl) as [t E]. discriminate.
Qed.

(* For grammars in the class the model textX builds from the interpreter's tree is the model built from
   the reference tree: objects, classes, attribute values, defaults, positions - Build is applied to
   equal trees.  (With separators: the tree of the trailing-separator variant.) *)
Theorem model_equality g mm pf c orc fuel input grp auto ug r :
  wfg g pf = true -> orc_pos orc -> root_top g = true ->
  run g c orc false fuel input = Parsed r ->
  exists tsq p, spec_run_q g c orc fuel input = SOk tsq p /\
    build g mm input grp auto ug r = build_flat g mm input grp auto ug (erase_all tsq) /\
    (nosep g = true -> exists ts, spec_run g c orc fuel input = SOk ts p /\
                                  build g mm input grp auto ug r = build_flat g mm input grp auto ug (erase_all ts)).
Proof.
  intros Hwf Horc Hrt Hrun. pose proof (refinement g pf c orc fuel input Hwf Horc) as H. rewrite Hrun in H.
  destruct H as [ts [p [Es [Hn [tsq [Eq Ee]]]]]].
  pose proof (build_flat_flatten g mm input grp auto ug r (run_shape g c orc fuel input r Hrt Hrun)) as HB.
  exists tsq, p. split; [exact Eq|]. split; [rewrite Ee; exact HB|].
  intro Hns. exists ts. split; [exact Es|]. rewrite (Hn Hns). exact HB.
Qed.

(* a grammar with suppression, a separator, predicates and a rule modifier inside the class
   (Model: 'm'- items+=Item[','] !'z' &';' ';';  Item[noskipws]: name=ID ('=' v=INT)?;  on "ma=1,b ;") *)
Definition g_rich : grammar := (mkGrammar [mkNode KSeq [1;18] None false [77;111;100;101;108]%N true false None None;
  mkNode KSeq [2;3;13;15;17] None false [77;111;100;101;108]%N true false None None;
  mkNode (KStr [109]%N None) [] None false []%N false true None None;
  mkNode KPlus [4] (Some 12) false [95;95;97;115;103;110;95;111;110;101;111;114;109;111;114;101]%N true false None None;
  mkNode KSeq [5;7] None false [73;116;101;109]%N true false None (Some false);
  mkNode KSeq [6] None false [95;95;97;115;103;110;95;112;108;97;105;110]%N true false None None;
  mkNode (KRegex 0) [] None false [73;68]%N true false None None;
  mkNode KOpt [8] None false []%N false false None None;
  mkNode KSeq [9;10] None false []%N false false None None;
  mkNode (KStr [61]%N None) [] None false []%N false false None None;
  mkNode KSeq [11] None false [95;95;97;115;103;110;95;112;108;97;105;110]%N true false None None;
  mkNode (KRegex 1) [] None false [73;78;84]%N true false None None;
  mkNode (KStr [44]%N None) [] None false [115;101;112]%N false false None None;
  mkNode KNot [14] None false []%N false false None None;
  mkNode (KStr [122]%N None) [] None false []%N false false None None;
  mkNode KAnd [16] None false []%N false false None None;
  mkNode (KStr [59]%N None) [] None false []%N false false None None;
  mkNode (KStr [59]%N None) [] None false []%N false false None None;
  mkNode KEOF [] None false [69;79;70]%N false false None None] 0 None).
Definition in_rich : list N := [109;97;61;49;44;98;32;59]%N.
Definition t_rich := [((0,0),2);((0,1),1);((0,5),1);((1,3),1)].

Lemma rich_in_class :
  wfg g_rich 24 = true /\ nosep g_rich = false /\ root_top g_rich = true /\
  accepts (run g_rich c_default (orc_of t_rich) false 60 in_rich) = true /\
  saccepts (spec_run g_rich c_default (orc_of t_rich) 60 in_rich) = true /\
  accepts (run g_rich c_default (orc_of t_rich) false 60 [109;32;97]%N) = false.
Proof. vm_compute. repeat split. Qed.

