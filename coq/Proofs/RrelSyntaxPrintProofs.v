(* The printer instantiated by the translated __repr__ bodies (print_src) prints exactly the
   rendering of the token sequence of the token-level model:  print_src e = render (t_expr e).
   This is the obligation an edit of a __repr__ method breaks. *)
From TxV Require Import Core.Base Model.Rx Model.RrelSyntaxLib Gen.SrcRrelSyntax Model.RrelSyntax Model.RrelSyntaxText.
Require Import Lia.

Lemma srep1 c n : srep [c] n = repeat c n.
Proof. unfold srep. induction n as [|n IH]; cbn [repeat concat app]; [reflexivity | f_equal; exact IH]. Qed.

Lemma sin1 c s : sin [c] s = has c s.
Proof.
  unfold has. induction s as [|x s IH]; [reflexivity|].
  cbn [sin is_prefix existsb]. rewrite IH, andb_true_r. reflexivity.
Qed.

(* "q" in f.replace("\\q", "")  is  "f has an unescaped q" *)
Lemma has_sreplace_fuel q : N.eqb q 92 = false -> forall n f fuel, length f <= n -> length f < fuel ->
  has q (sreplace_fuel fuel [92%N; q] [] f) = unesc q f.
Proof.
  intros Hq. induction n as [|n IH]; intros f fuel Hn Hfuel.
  - destruct f; [|cbn in Hn; lia]. destruct fuel; [lia|]. reflexivity.
  - destruct fuel as [|fu]; [lia|]. destruct f as [|c f']; [reflexivity|].
    cbn [length] in Hn, Hfuel. cbn [sreplace_fuel is_prefix unesc]. unfold c_bslash.
    rewrite (N.eqb_sym 92 c).
    destruct (N.eqb c 92) eqn:Hc.
    + apply N.eqb_eq in Hc. subst c. rewrite (N.eqb_sym 92 q), Hq. cbn [andb].
      destruct f' as [|c2 f'']; [cbn [andb app has existsb sreplace_fuel]; destruct fu; cbn [has existsb sreplace_fuel]; rewrite Hq; reflexivity|].
      rewrite (N.eqb_sym q c2). destruct (N.eqb c2 q) eqn:Hc2; cbn [andb app length skipn].
      * cbn [length] in Hn, Hfuel. apply IH; lia.
      * unfold has. cbn [existsb]. rewrite Hq. cbn [orb]. apply IH; lia.
    + cbn [andb]. unfold has. cbn [existsb]. rewrite (N.eqb_sym q c).
      destruct (N.eqb c q); [reflexivity|]. cbn [orb]. apply IH; lia.
Qed.

Lemma has_sreplace q f : N.eqb q 92 = false -> has q (sreplace [92%N; q] [] f) = unesc q f.
Proof. intro Hq. unfold sreplace. apply (has_sreplace_fuel q Hq (length f)); lia. Qed.

Lemma sjoin_cons sep x y l : sjoin sep (x :: y :: l) = x ++ sep ++ sjoin sep (y :: l).
Proof. reflexivity. Qed.

Lemma render_app a b : render (a ++ b) = render a ++ render b.
Proof. apply flat_map_app. Qed.
Lemma render_cons t ts : render (t :: ts) = r_tok t ++ render ts.
Proof. reflexivity. Qed.
Lemma render_nil : render [] = [].
Proof. reflexivity. Qed.

Lemma ps_pstrs_cons p : exists x l, ps_pstrs p = x :: l.
Proof. destruct p; cbn [ps_pstrs]; eexists _, _; reflexivity. Qed.
Lemma ps_sstrs_cons s : exists x l, ps_sstrs s = x :: l.
Proof. destruct s; cbn [ps_sstrs]; eexists _, _; reflexivity. Qed.

Definition QE (e : elem) : Prop := ps_elem e = render (t_elem e).
Definition QP (p : path) : Prop :=
  sjoin [46%N] (ps_pstrs p) = render (t_path_tail p) /\ ps_path p = render (t_path p).
Definition QS (s : seq) : Prop := ps_seq s = render (t_seq s).

Lemma path_of_tail p :
  sjoin [46%N] (ps_pstrs p) = render (t_path_tail p) ->
  (forall e p', p = PCons e p' -> sjoin [46%N] (ps_pstrs p') = render (t_path_tail p')) ->
  ps_path p = render (t_path p).
Proof.
  intros Htail Hsub. unfold ps_path, repr_RRELPath.
  destruct p as [e|e p'].
  - destruct e; cbn [head_is_dots t_path]; try exact Htail.
    cbn [ps_pstrs shd hd tl sjoin t_path_tail t_elem]. cbn [ps_pstrs sjoin t_path_tail t_elem] in Htail.
    rewrite ?app_nil_r. exact Htail.
  - destruct e; cbn [head_is_dots t_path]; try exact Htail.
    cbn [ps_pstrs shd hd tl]. rewrite (Hsub _ _ eq_refl).
    rewrite render_cons. cbn [ps_elem r_tok]. unfold repr_RRELDots. rewrite srep1. reflexivity.
Qed.

Theorem print_src_all : (forall e, QE e) /\ (forall p, QP p) /\ (forall s, QS s).
Proof.
  apply rrel_mutind; unfold QE, QP, QS.
  - (* parent *)
    intro t. cbn [ps_elem t_elem]. unfold repr_RRELParent, render. cbn [flat_map r_tok kw_parent app].
    rewrite ?app_nil_r. reflexivity.
  - (* navigation *)
    intros n c f. cbn [ps_elem t_elem]. unfold repr_RRELNavigation.
    destruct f as [fx|].
    + rewrite sin1, has_sreplace by reflexivity. unfold quote_for, c_squote, c_dquote, render. cbn [flat_map r_tok].
      destruct (unesc 39%N fx); cbn [app]; rewrite <- !app_assoc; cbn [app]; rewrite ?app_nil_r; reflexivity.
    + destruct c; unfold render; cbn [flat_map r_tok app]; rewrite ?app_nil_r; reflexivity.
  - (* dots *)
    intro n. cbn [ps_elem t_elem]. unfold repr_RRELDots, render. cbn [flat_map r_tok]. rewrite srep1, ?app_nil_r. reflexivity.
  - (* brackets *)
    intros s IH. cbn [ps_elem t_elem]. unfold repr_RRELBrackets. fold (ps_seq s). rewrite IH.
    rewrite render_cons, render_app. cbn [r_tok app]. rewrite <- ?app_assoc. reflexivity.
  - (* star *)
    intros s IH. cbn [ps_elem t_elem]. unfold repr_RRELZeroOrMore, repr_RRELBrackets. fold (ps_seq s). rewrite IH.
    rewrite render_cons, render_app. cbn [r_tok app]. rewrite <- ?app_assoc. reflexivity.
  - (* P1 *)
    intros e IHe.
    assert (Htail : sjoin [46%N] (ps_pstrs (P1 e)) = render (t_path_tail (P1 e))).
    { cbn [ps_pstrs sjoin t_path_tail]. exact IHe. }
    split; [exact Htail|]. apply path_of_tail; [exact Htail | intros; discriminate].
  - (* PCons *)
    intros e IHe p [IHp _].
    assert (Htail : sjoin [46%N] (ps_pstrs (PCons e p)) = render (t_path_tail (PCons e p))).
    { cbn [ps_pstrs t_path_tail]. destruct (ps_pstrs_cons p) as [x [l E]]. rewrite E in *.
      rewrite sjoin_cons, IHe, IHp, render_app, render_cons. reflexivity. }
    split; [exact Htail|]. apply path_of_tail; [exact Htail|].
    intros e0 p0 E. inversion E; subst. exact IHp.
  - (* S1 *)
    intros p [_ IHp]. unfold ps_seq, repr_RRELSequence. cbn [ps_sstrs sjoin]. fold (ps_path p).
    rewrite IHp. destruct p as [[]|[] ?]; reflexivity.
  - (* SCons *)
    intros p [_ IHp] s IHs. unfold ps_seq, repr_RRELSequence in *. cbn [ps_sstrs]. fold (ps_path p).
    destruct (ps_sstrs_cons s) as [x [l E]]. rewrite E in *. rewrite sjoin_cons, IHp, IHs.
    transitivity (render (t_path p ++ TComma :: t_seq s)).
    + rewrite render_app, render_cons. reflexivity.
    + destruct p as [[]|[] ?]; reflexivity.
Qed.

Theorem print_src_render e : print_src e = render (t_expr e).
Proof.
  destruct print_src_all as [_ [_ HS]]. unfold print_src, repr_RRELExpression, t_expr.
  rewrite (HS (eseq e)). destruct (eflags e) as [|c fl]; cbn [struth]; [reflexivity|].
  rewrite render_cons. cbn [r_tok app]. rewrite <- !app_assoc. reflexivity.
Qed.
