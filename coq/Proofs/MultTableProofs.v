(* C02 — the end-to-end theorem with hypotheses on the table and the oracle only: Build.asg_placed is derived from
   the table by the C01/C06 builder's Proofs/BuildPlaced.v (table_asg_ok, asg_placed_of_run_tree). *)
From TxV Require Import Core.Base Model.PegSyntax Model.Peg Model.Build Proofs.BuildProofs Model.MultBuild Proofs.MultBuildProofs
     Proofs.MultEndProofs.
From TxV Require Model.MultBase Gen.SrcMult Model.Mult Model.MultPeg Model.Spec Proofs.BuildPlaced Proofs.PegProofs Proofs.PegMemo.

Lemma placed_any_under mm t u u' : not_asg mm t = true -> asg_placed mm u t = asg_placed mm u' t.
Proof.
  destruct t as [|nid ks]; [reflexivity|]. cbn [not_asg asg_placed]. unfold info.
  destruct (nth nid mm IOther); try reflexivity. discriminate.
Qed.

Lemma built_not_asg g mm input grp auto use_grp t v top' :
  pnode g mm input grp auto use_grp t None = BOk (v, top') -> not_asg mm t = true.
Proof.
  destruct t as [|nid ks]; [reflexivity|]. cbn [pnode not_asg]. destruct (info mm nid); try reflexivity. discriminate.
Qed.

Theorem run_object_values_table g mm input grp auto use_grp attr_id orc :
  asg_table_okb g mm = true ->
  forall pf K memo b nid cfg fuel r cls attrs cls' p e vals,
  Spec.wfg g pf = true -> Spec.orc_pos orc -> BuildPlaced.table_asg_ok g mm K = true ->
  (memo = true -> PegProofs.ctx_constant g = true /\ PegMemo.not_aborted (run g cfg orc false fuel input)) ->
  MultPeg.den g mm attr_id true b nid = true -> Mult.grammar_ok b = true -> top_okb g nid = true ->
  info mm nid = IRule RCommon cls attrs -> mult_agreesb attr_id b attrs = true ->
  run g cfg orc memo fuel input = Parsed r ->
  build g mm input grp auto use_grp r = BOk (VObj cls' p e vals) ->
  exists kids tp rest, r = RTree (NT tp (NT nid kids :: rest)) /\
  forall ma, find_attr (a_name ma) attrs = Some ma ->
    get_val (a_name ma) vals = Some (expected_val auto ma (tvals g mm input grp auto use_grp ma kids))
    /\ (is_many (a_mult ma) = true <-> 2 <= Mult.maxcount (attr_id (a_name ma)) b)
    /\ (is_many (a_mult ma) = false -> length (tvals g mm input grp auto use_grp ma kids) <= 1).
Proof.
  intros Htab pf K memo b nid cfg fuel r cls attrs cls' p e vals Hwf Horc Hta Hmemo Hd Hg Htop Hi Hmu Hrun Hb.
  assert (Hrun0 : run g cfg orc false fuel input = Parsed r).
  { destruct memo; [|exact Hrun]. destruct (Hmemo eq_refl) as [Hc Hna].
    rewrite <- (PegMemo.memo_safe g input orc Hc cfg fuel Hna). exact Hrun. }
  eapply (run_object_values g mm input grp auto use_grp attr_id orc Htab false); try eassumption; [discriminate|].
  intros tp t rest Er. subst r.
  pose proof (BuildPlaced.asg_placed_of_run_tree g pf mm K cfg orc fuel input tp t rest Hwf Horc Hta Hrun0) as Hpl.
  unfold build in Hb. destruct (pnode g mm input grp auto use_grp t None) as [[v top']|er] eqn:Ep; [|discriminate].
  rewrite (placed_any_under mm t false (BuildPlaced.commonb mm tp) (built_not_asg _ _ _ _ _ _ _ _ _ Ep)). exact Hpl.
Qed.
