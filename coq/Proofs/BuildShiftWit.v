(* C22 - witness for the model-level theorems (dumped by tools/pegdump.py + tools/mmdump.py):
   Model: 'm' items+=Item; Item: name=ID v=INT;     "m a 1 b 2" -> "m a 1 \n b 2" *)
From TxV Require Import Core.Base Model.PegSyntax Model.Peg Model.Build Model.PegWsDefs Model.BuildShiftDefs Proofs.BuildShift.
Definition g_obj : grammar := (mkGrammar [mkNode KSeq [1;9] None false [77;111;100;101;108]%N true false None None;
  mkNode KSeq [2;3] None false [77;111;100;101;108]%N true false None None;
  mkNode (KStr [109]%N None) [] None false []%N false false None None;
  mkNode KPlus [4] None false [95;95;97;115;103;110;95;111;110;101;111;114;109;111;114;101]%N true false None None;
  mkNode KSeq [5;7] None false [73;116;101;109]%N true false None None;
  mkNode KSeq [6] None false [95;95;97;115;103;110;95;112;108;97;105;110]%N true false None None;
  mkNode (KRegex 0) [] None false [73;68]%N true false None None;
  mkNode KSeq [8] None false [95;95;97;115;103;110;95;112;108;97;105;110]%N true false None None;
  mkNode (KRegex 1) [] None false [73;78;84]%N true false None None;
  mkNode KEOF [] None false [69;79;70]%N false false None None] 0 None).
Definition mm_obj : list ninfo := [IOther;
  IRule RCommon [77;111;100;101;108]%N [mkAttr [105;116;101;109;115]%N MPlus true true [73;116;101;109]%N false];
  ITerm []%N 0;
  IAsgn [105;116;101;109;115]%N OpList;
  IRule RCommon [73;116;101;109]%N [mkAttr [110;97;109;101]%N M1 true false [73;68]%N false;mkAttr [118]%N M1 true false [73;78;84]%N false];
  IAsgn [110;97;109;101]%N OpPlain;
  ITerm [73;68]%N 0;
  IAsgn [118]%N OpPlain;
  ITerm [73;78;84]%N 0;
  ITerm [69;79;70]%N 0].
Definition in_obj : list N := [109;32;97;32;49;32;98;32;50]%N.
Definition tbl_obj := [((0,0),1);((0,2),1);((0,6),1);((1,4),1);((1,8),1)].
Definition in_obj' : list N := [109;32;97;32;49;32;10;32;98;32;50]%N.
Definition tbl_obj' := [((0,0),1);((0,2),1);((0,8),1);((1,4),1);((1,10),1)].
Definition c_obj : config := mkConfig true [9;10;13;32]%N.
Definition no_grp : nat -> nat -> option (nat * nat) := fun _ _ => None.
Definition is_obj (m : bres value) : bool := match m with BOk (VObj _ _ _ _) => true | _ => false end.

Lemma obj_nonvacuous :
  ins_wf g_obj c_obj [10;32]%N = true /\
  shift_okb g_obj ([109;32;97;32;49;32] ++ [98;32;50])%N (orc_of tbl_obj)
            ([109;32;97;32;49;32] ++ [10;32] ++ [98;32;50])%N (orc_of tbl_obj') 6 2 = true /\
  exists r, run g_obj c_obj (orc_of tbl_obj) false 60 ([109;32;97;32;49;32] ++ [98;32;50])%N = Parsed r /\
            fits_res 6 r = true /\
            is_obj (build g_obj mm_obj ([109;32;97;32;49;32] ++ [98;32;50])%N no_grp true false r) = true.
Proof.
  split; [vm_compute; reflexivity|]. split; [vm_compute; reflexivity|].
  eexists. split; [vm_compute; reflexivity|]. split; vm_compute; reflexivity.
Qed.

Lemma obj_table_nonvacuous :
  no_empty_lit g_obj = true /\ ([109;32;97;32;49;32]%N <> []) /\ ([98;32;50]%N <> []) /\
  PegWsDefs.accepts (run g_obj c_obj (orc_of tbl_obj) false 60 ([109;32;97;32;49;32] ++ [98;32;50])%N) = true.
Proof. split; [vm_compute; reflexivity|]. split; [discriminate|]. split; [discriminate | vm_compute; reflexivity]. Qed.
