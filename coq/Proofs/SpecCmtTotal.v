(* The unconditional form of the refinement theorem for tables with a (single regex terminal) Comment rule. *)
From TxV Require Import Proofs.PegFuel Proofs.PegTerm.
From TxV Require Import Core.Base Model.PegSyntax Model.Peg Model.Spec Model.Build
     Proofs.SpecProofs Proofs.SpecSepProofs Proofs.SpecTotal Proofs.SpecCmt.
Require Import Lia.

Section NoCrashC.
Variable g : grammar.
Variable input : list N.
Variable orc : nat -> nat -> option nat.
Variable pf : nat.
Variable cm : nat.
Hypothesis Hcm : g_comments g = Some cm.
Hypothesis Hcmv : valid g cm.
Hypothesis Hwf : forall nid nd, get_node g nid = Some nd -> node_ok g (prodb g pf) nd = true.

Notation parser := (nat -> bool -> st -> out) (only parsing).
Definition nocrash (rec : parser) : Prop := forall nid psq s w, valid g nid -> rec nid psq s = Abort w -> w = 0.

Lemma seq_loop_ncc rec psq kids : nocrash rec -> Forall (valid g) kids ->
  forall acc s w, seq_loop rec psq kids acc s = Abort w -> w = 0.
Proof.
  intros Hr. induction kids as [|c kids IH]; intros Hv acc s w H; cbn [seq_loop] in H; [discriminate|].
  inversion Hv as [|? ? Hc Hv']; subst.
  destruct (rec c psq s) as [r s1|s1|w1] eqn:E; try discriminate.
  - apply (IH Hv' _ _ _ H).
  - inversion H; subst. apply (Hr c psq s w Hc E).
Qed.

Lemma choice_loop_ncc rec cp kids : nocrash rec -> Forall (valid g) kids ->
  forall s w, choice_loop rec cp kids s = Abort w -> w = 0.
Proof.
  intros Hr. induction kids as [|c kids IH]; intros Hv s w H; cbn [choice_loop] in H; [discriminate|].
  inversion Hv as [|? ? Hc Hv']; subst.
  destruct (rec c false s) as [r s1|s1|w1] eqn:E.
  - destruct (is_none r); [apply (IH Hv' _ _ H) | discriminate].
  - apply (IH Hv' _ _ H).
  - inversion H; subst. apply (Hr c false s w Hc E).
Qed.

Lemma rep_loop_ncc rec e sep plus : nocrash rec -> valid g e -> (forall sp, sep = Some sp -> valid g sp) ->
  forall k first acc s w, rep_loop rec e sep plus k first acc s = Abort w -> w = 0.
Proof.
  intros Hr He Hs. induction k as [|k IH]; intros first acc s w H; [inversion H; reflexivity|].
  rewrite rep_loop_S in H.
  assert (Hel : forall c acc1 s1, rep_elem rec e sep plus k first c acc1 s1 = Abort w -> w = 0).
  { intros c acc1 s1 X. unfold rep_elem in X. destruct (rec e false s1) as [r s2|s2|w1] eqn:E.
    - destruct (truthy r); [apply (IH _ _ _ _ X) | discriminate].
    - destruct (plus && first)%bool; discriminate.
    - inversion X; subst. apply (Hr e false s1 w He E). }
  destruct sep as [sp|]; [|apply (Hel _ _ _ H)].
  destruct first; [apply (Hel _ _ _ H)|].
  destruct (rec sp false s) as [sr s1|s1|w1] eqn:E.
  - apply (Hel _ _ _ H).
  - destruct (plus && false)%bool; discriminate.
  - inversion H; subst. apply (Hr sp false s w (Hs sp eq_refl) E).
Qed.

Lemma parse_ncc : forall f, nocrash (parse g input orc false f).
Proof.
  induction f as [|f IH]; intros nid psq s w Hv H; [inversion H; reflexivity|].
  cbn [parse] in H. destruct (get_node g nid) as [nd|] eqn:En.
  2:{ exfalso. unfold get_node in En. apply nth_error_None in En. unfold valid in Hv. lia. }
  pose proof (Hwf _ _ En) as Hok. unfold node_ok in Hok.
  apply andb_true_iff in Hok as [Hok Hkind]. apply andb_true_iff in Hok as [Hok Hkids].
  apply andb_true_iff in Hok as [Hok _]. apply andb_true_iff in Hok as [Hsepok _].
  assert (Hval : Forall (valid g) (n_kids nd)).
  { apply Forall_forall. intros c Hc. rewrite forallb_forall in Hkids. specialize (Hkids c Hc). apply Nat.ltb_lt in Hkids. exact Hkids. }
  destruct (is_match_kind (n_kind nd)) eqn:Em.
  - assert (HT : forall s0 w0, match term_parse input orc nid (n_kind nd) psq s0 with
                               | Ok r s2 => Ok (if n_suppress nd then RNone else r) s2
                               | o => o end = Abort w0 -> False).
    { intros s0 w0 X. destruct (n_kind nd) as [| | | | | | | | | |t o|o]; try discriminate; cbn [term_parse] in X.
      - destruct (Nat.eqb (length input) (pos s0)); discriminate.
      - destruct o as [o|]; [destruct (orc o (pos s0))|]; try discriminate.
        destruct (is_prefix t (skipn (pos s0) input)); discriminate.
      - destruct (orc o (pos s0)) as [l|]; [destruct (Nat.eqb l 0)|]; discriminate. }
    assert (HC : forall k s0 w0, cmt_loop input (parse g input orc false f) cm k s0 = Abort w0 -> w0 = 0).
    { induction k as [|k IHk]; intros s0 w0 X; [inversion X; reflexivity|]. cbn [cmt_loop] in X.
      destruct (parse g input orc false f cm false s0) as [r1 s1|s1|w1] eqn:E1; try discriminate.
      - apply (IHk _ _ X).
      - inversion X; subst. apply (IH cm false s0 w0 Hcmv E1). }
    unfold match_pre, parse_comments in H. rewrite Hcm in H. cbv zeta in H.
    destruct (if skipws (maybe_skip_ws input s) then lookup (pos (maybe_skip_ws input s)) (cpos (maybe_skip_ws input s)) else None) as [q|].
    + exfalso. apply (HT _ _ H).
    + destruct (in_cmt (maybe_skip_ws input s)); [exfalso; apply (HT _ _ H)|].
      destruct (cmt_loop input (parse g input orc false f) cm f (set_in_cmt true (maybe_skip_ws input s))) as [r1 s1|s1|w1] eqn:E1.
      * exfalso. apply (HT _ _ H).
      * discriminate.
      * inversion H; subst. apply (HC _ _ _ E1).
  - cbv iota in H.
    assert (HB : forall w0, body (parse g input orc false f) f nd s = Abort w0 -> w0 = 0).
    { intros w0 X. unfold body in X. destruct (n_kind nd) eqn:Ek; try discriminate.
      - destruct (seq_loop (parse g input orc false f) true (n_kids nd) [] (enter_ws nd s)) as [r s1|s1|w1] eqn:E; try discriminate.
        + destruct r as [| |[|]]; discriminate.
        + inversion X; subst. apply (seq_loop_ncc _ _ _ IH Hval _ _ _ E).
      - destruct (choice_loop (parse g input orc false f) (pos s) (n_kids nd) (enter_ws nd s)) as [r s1|s1|w1] eqn:E; try discriminate.
        + destruct (is_none r); discriminate.
        + inversion X; subst. apply (choice_loop_ncc _ _ _ IH Hval _ _ E).
      - destruct (n_kids nd) as [|e rest]; [discriminate|]. inversion Hval; subst.
        destruct (parse g input orc false f e false s) as [r s1|s1|w1] eqn:E; try discriminate.
        inversion X; subst. apply (IH e false s w0); assumption.
      - destruct (n_kids nd) as [|e rest]; [discriminate|]. inversion Hval; subst.
        destruct (rep_loop (parse g input orc false f) e (n_sep nd) false f true [] (enter_eol nd s)) as [r s1|s1|w1] eqn:E; try discriminate.
        inversion X; subst. apply (rep_loop_ncc _ e (n_sep nd) false IH) in E; [exact E | assumption|].
        intros sp Es. unfold sep_ok in Hsepok. rewrite Es, Ek in Hsepok. apply Nat.ltb_lt in Hsepok. exact Hsepok.
      - destruct (n_kids nd) as [|e rest]; [discriminate|]. inversion Hval; subst.
        destruct (rep_loop (parse g input orc false f) e (n_sep nd) true f true [] (enter_eol nd s)) as [r s1|s1|w1] eqn:E; try discriminate.
        inversion X; subst. apply (rep_loop_ncc _ e (n_sep nd) true IH) in E; [exact E | assumption|].
        intros sp Es. unfold sep_ok in Hsepok. rewrite Es, Ek in Hsepok. apply Nat.ltb_lt in Hsepok. exact Hsepok.
      - destruct (seq_loop (parse g input orc false f) false (n_kids nd) [] s) as [r s1|s1|w1] eqn:E; try discriminate.
        inversion X; subst. apply (seq_loop_ncc _ _ _ IH Hval _ _ _ E).
      - destruct (seq_loop (parse g input orc false f) false (n_kids nd) [] s) as [r s1|s1|w1] eqn:E; try discriminate.
        inversion X; subst. apply (seq_loop_ncc _ _ _ IH Hval _ _ _ E). }
    destruct (body (parse g input orc false f) f nd s) as [r s1|s1|w1] eqn:Eb; try discriminate.
    inversion H; subst. apply HB. reflexivity.
Qed.
End NoCrashC.


Lemma wfgc_no_crash g pf c orc fuel input w :
  wfgc g pf = true -> run g c orc false fuel input = Aborted w -> w = 0.
Proof.
  intros Hwf H. destruct (wfgc_parts g pf Hwf) as [Hnodes [_ [[cm [oc [ndc [Hcm [Hnd _]]]]] Htop]]].
  assert (Hcmv : valid g cm).
  { unfold valid. unfold get_node in Hnd. assert (X : nth_error (g_nodes g) cm <> None) by congruence. apply nth_error_Some in X. exact X. }
  unfold run in H. destruct (parse g input orc false fuel (g_top g) false (init_st c)) as [r s|s|w1] eqn:E; try discriminate.
  inversion H; subst. apply (parse_ncc g input orc pf cm Hcm Hcmv Hnodes fuel (g_top g) false (init_st c) w Htop E).
Qed.

Theorem refinement_cmt_total g pf c orc input f :
  wfgc g pf = true -> c_skipws c = true -> terminating none_nullable g = true ->
  orc_sane g input orc -> Spec.orc_pos orc -> fuel_bound none_nullable g input <= f ->
  let fs := f + (length input + 2) in
  (exists r ts p, run g c orc false f input = Parsed r /\ spec_run g c orc fs input = SOk ts p /\
                  (nosep g = true -> erase_all ts = flatten r) /\
                  exists tsq, spec_run_q g c orc fs input = SOk tsq p /\ erase_all tsq = flatten r) \/
  (exists e, run g c orc false f input = SyntaxErr e /\ spec_run g c orc fs input = SFail).
Proof.
  intros Hwf Hsk Ht Hs Hp L fs.
  pose proof (run_terminates_pos g c orc false input f Ht Hs Hp L) as NA.
  pose proof (refinement_cmt g pf c orc f input Hwf Hsk Hp (proj1 Hs)) as HR. cbv zeta in HR. fold fs in HR.
  destruct (run g c orc false f input) as [r|e|w] eqn:E.
  - left. destruct HR as [ts [p [Es [Hn Hq]]]]. exists r, ts, p. repeat split; assumption.
  - right. exists e. split; [reflexivity | exact HR].
  - exfalso. apply NA. f_equal. apply (wfgc_no_crash g pf c orc f input w Hwf E).
Qed.

Lemma cmt_orc_facts : orc_sane g_cmt in_cmt1 (orc_of t_cmt1) /\ Spec.orc_pos (orc_of t_cmt1).
Proof.
  assert (H : forall o p l, orc_of t_cmt1 o p = Some l -> p + l <= 16 /\ 0 < l).
  { intros o p l E. unfold orc_of, t_cmt1 in E.
    repeat match type of E with
           | (if ?b then _ else _) = _ => destruct b eqn:?
           end; try discriminate;
    inversion E; subst;
    repeat match goal with
           | X : (_ && _)%bool = true |- _ => apply andb_true_iff in X as [? ?]
           | X : Nat.eqb _ _ = true |- _ => apply Nat.eqb_eq in X; subst
           end; lia. }
  split; [split|].
  - intros o p l E. apply (H o p l E).
  - intros nid nd t o p x Hn Hk.
    do 9 (destruct nid as [|nid]; [cbn in Hn; inversion Hn; subst; discriminate|]).
    unfold get_node in Hn. cbn in Hn. destruct nid; discriminate.
  - intros o p l E. apply (H o p l E).
Qed.

Lemma cmt_total_nonvacuous :
  wfgc g_cmt 24 = true /\ c_skipws c_skip = true /\ terminating none_nullable g_cmt = true /\
  orc_sane g_cmt in_cmt1 (orc_of t_cmt1) /\ Spec.orc_pos (orc_of t_cmt1) /\
  fuel_bound none_nullable g_cmt in_cmt1 = 194 /\
  accepts (run g_cmt c_skip (orc_of t_cmt1) false 194 in_cmt1) = true.
Proof.
  destruct cmt_orc_facts as [A B].
  split; [vm_compute; reflexivity|]. split; [reflexivity|]. split; [vm_compute; reflexivity|].
  split; [exact A|]. split; [exact B|]. split; vm_compute; reflexivity.
Qed.
