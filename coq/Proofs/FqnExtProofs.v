(* Proofs for Model/FqnExt.v: walked-attribute specification (no well-formedness of attributes needed),
   search across models, scope redirection. *)
From TxV Require Import Core.Base Model.FqnDefs Gen.SrcFqn Model.Fqn Model.FqnExt Proofs.FqnProofs.

(* ------------------------------------------------------------------ what the filter walks *)
Lemma src_walked_meaning (a : attr) : src_walked a = walked_meaning a.
Proof.
  unfold src_walked, walked_meaning, public_name, dunder, txpre, parent_name.
  destruct (a_decl a), (a_cont a), (a_call a), (is_prefix [95; 95]%N (a_name a)),
    (is_prefix [95; 116; 120; 95]%N (a_name a)), (str_eqb (a_name a) [112; 97; 114; 101; 110; 116]%N);
    reflexivity.
Qed.

Lemma import_order_documented : import_order = [POwn; PLocal; PBuiltin].
Proof. reflexivity. Qed.

Lemma search_starts_eq (r : nat) (locals builtins : list nat) : search_starts r locals builtins = r :: locals ++ builtins.
Proof. unfold search_starts. rewrite import_order_documented. cbn. rewrite app_nil_r. reflexivity. Qed.

(* ------------------------------------------------------------------ generic outward search *)
Section GenOutward.
  Variable m : list obj.
  Variable F : nat -> option nat.
  Variable G : nat -> nat -> Prop.
  Hypothesis Hpar : forall p q, parent_of m p = Some q -> q < p.

  Fixpoint outward (fuel : nat) (p : nat) : result :=
    match F p with
    | Some t => Found t
    | None => match parent_of m p with
              | None => Unknown
              | Some q => match fuel with 0 => OutOfFuel | S f => outward f q end
              end
    end.

  Lemma outward_eq (fuel p : nat) :
    outward fuel p = match F p with
                     | Some t => Found t
                     | None => match parent_of m p with
                               | None => Unknown
                               | Some q => match fuel with 0 => OutOfFuel | S f => outward f q end
                               end
                     end.
  Proof. destruct fuel; reflexivity. Qed.

  Lemma outward_total : forall p fuel, p <= fuel -> outward fuel p <> OutOfFuel.
  Proof.
    intro p. induction p as [p IH] using lt_wf_ind. intros fuel Hle. rewrite outward_eq.
    destruct (F p); [discriminate|]. destruct (parent_of m p) as [q|] eqn:P; [|discriminate].
    pose proof (Hpar p q P) as Hq. destruct fuel as [|f]; [lia|]. apply IH; lia.
  Qed.

  Hypothesis F_sound : forall s t, F s = Some t -> G s t.

  Lemma outward_sound : forall fuel p t, outward fuel p = Found t -> exists i s, scope_at m p i s /\ G s t.
  Proof.
    induction fuel as [|f IH]; intros p t; rewrite outward_eq; destruct (F p) as [t0|] eqn:E.
    - intro H; inversion H; subst t0. exists 0, p. split; [constructor | apply F_sound; exact E].
    - destruct (parent_of m p); discriminate.
    - intro H; inversion H; subst t0. exists 0, p. split; [constructor | apply F_sound; exact E].
    - destruct (parent_of m p) as [q|] eqn:P; [|discriminate].
      intro H. destruct (IH q t H) as (i & s & Hs & Hg). exists (S i), s. split; [econstructor; eassumption | exact Hg].
  Qed.

  Hypothesis F_complete : forall s t, G s t -> F s = Some t.

  Lemma outward_found : forall p fuel, p <= fuel -> forall t, outward fuel p = Found t <-> resolves_g m G p t.
  Proof.
    intro p. induction p as [p IH] using lt_wf_ind. intros fuel Hle t. rewrite outward_eq.
    destruct (F p) as [t0|] eqn:E.
    - pose proof (F_sound p t0 E) as Hg0. split.
      + intro H; inversion H; subst t0. exists 0, p. split; [constructor|]. split; [exact Hg0|]. intros j s' t' Hj. lia.
      + intros (i & s & Hs & Hg & Hmin). destruct i as [|i].
        * apply scope_at_0 in Hs. subst s. rewrite (F_complete p t Hg) in E. inversion E. reflexivity.
        * exfalso. apply (Hmin 0 p t0); [lia | constructor | exact Hg0].
    - assert (forall t', ~ G p t') as Hnone by (intros t' Hg; rewrite (F_complete p t' Hg) in E; discriminate).
      destruct (parent_of m p) as [q|] eqn:P.
      + pose proof (Hpar p q P) as Hq. destruct fuel as [|f]; [lia|].
        assert (q <= f) as Hqf by lia. pose proof (IH q Hq f Hqf t) as IHq. split.
        * intro H. apply IHq in H. destruct H as (i & s & Hs & Hg & Hmin).
          exists (S i), s. split; [econstructor; eassumption|]. split; [exact Hg|].
          intros j s' t' Hj Hs' Hg'. destruct j as [|j].
          { apply scope_at_0 in Hs'. subst s'. exact (Hnone t' Hg'). }
          { apply scope_at_S in Hs' as (q' & P' & Hs''). rewrite P in P'. inversion P'; subst q'.
            apply (Hmin j s' t'); [lia | exact Hs'' | exact Hg']. }
        * intros (i & s & Hs & Hg & Hmin). destruct i as [|i].
          { apply scope_at_0 in Hs. subst s. exfalso. exact (Hnone t Hg). }
          apply scope_at_S in Hs as (q' & P' & Hs'). rewrite P in P'. inversion P'; subst q'.
          apply IHq. exists i, s. split; [exact Hs'|]. split; [exact Hg|].
          intros j s' t' Hj Hs'' Hg'. apply (Hmin (S j) s' t'); [lia | econstructor; eassumption | exact Hg'].
      + split; [discriminate|]. intros (i & s & Hs & Hg & _). exfalso. destruct i as [|i].
        * apply scope_at_0 in Hs. subst s. exact (Hnone t Hg).
        * apply scope_at_S in Hs as (q' & P' & _). rewrite P in P'. discriminate.
  Qed.

  Lemma outward_unknown : forall p fuel, p <= fuel -> outward fuel p = Unknown <-> unresolvable_g m G p.
  Proof.
    intro p. induction p as [p IH] using lt_wf_ind. intros fuel Hle. rewrite outward_eq.
    destruct (F p) as [t0|] eqn:E.
    - pose proof (F_sound p t0 E) as Hg0. split; [discriminate|].
      intro U. exfalso. apply (U 0 p t0); [constructor | exact Hg0].
    - assert (forall t', ~ G p t') as Hnone by (intros t' Hg; rewrite (F_complete p t' Hg) in E; discriminate).
      destruct (parent_of m p) as [q|] eqn:P.
      + pose proof (Hpar p q P) as Hq. destruct fuel as [|f]; [lia|].
        assert (q <= f) as Hqf by lia. pose proof (IH q Hq f Hqf) as IHq. split.
        * intro H. apply IHq in H. intros i s t Hs. destruct i as [|i].
          { apply scope_at_0 in Hs. subst s. exact (Hnone t). }
          { apply scope_at_S in Hs as (q' & P' & Hs'). rewrite P in P'. inversion P'; subst q'. exact (H i s t Hs'). }
        * intro U. apply IHq. intros i s t Hs. apply (U (S i) s t). econstructor; eassumption.
      + split; [|reflexivity]. intros _ i s t Hs. destruct i as [|i].
        * apply scope_at_0 in Hs. subst s. exact (Hnone t).
        * apply scope_at_S in Hs as (q' & P' & _). rewrite P in P'. discriminate.
  Qed.
End GenOutward.

Lemma find_referenced_outward (walked : attr -> bool) conf (m : list obj) (parts : list (list N)) (T : nat) :
  forall fuel p, find_referenced walked conf fuel m p parts T
                 = outward m (fun s => find_obj_fqn walked conf m s parts T) fuel p.
Proof.
  induction fuel as [|f IH]; intro p; rewrite find_referenced_eq, outward_eq.
  - reflexivity.
  - destruct (find_obj_fqn walked conf m p parts T); [reflexivity|]. destruct (parent_of m p); [apply IH | reflexivity].
Qed.

Lemma parents_decrease_spec (m : list obj) (p q : nat) : parents_decrease m = true -> parent_of m p = Some q -> q < p.
Proof.
  unfold parents_decrease. intros H P. rewrite forallb_forall in H.
  assert (p < length m) as Hlt.
  { unfold parent_of in P. destruct (get m p) as [o|] eqn:G; [exact (get_lt m p o G) | discriminate]. }
  assert (In p (seq 0 (length m))) as Hin by (apply in_seq; lia).
  pose proof (H p Hin) as Hp. rewrite P in Hp. apply Nat.ltb_lt. exact Hp.
Qed.

(* ------------------------------------------------------------------ walked-attribute specification *)
Lemma find_obj_sound_w (m : list obj) (p : nat) (nm : list N) (c : nat) :
  find_obj src_walked m p nm = Some c -> contains_w m p c /\ name_of m c = Some nm.
Proof.
  unfold find_obj. destruct (get m p) as [o|] eqn:G; [|discriminate].
  intro H. apply first_some_some in H as [a [Hin Hf]]. apply filter_In in Hin as [Hin Hw].
  destruct (attr_find_sound m nm a c Hf) as [Hv Hn].
  split; [|exact Hn]. exists o, a. repeat split; assumption.
Qed.

Lemma find_obj_complete_w (m : list obj) (p : nat) (nm : list N) (c : nat) :
  contains_w m p c -> name_of m c = Some nm ->
  (forall c1 c2, contains_w m p c1 -> contains_w m p c2 -> name_of m c1 = Some nm -> name_of m c2 = Some nm -> c1 = c2) ->
  find_obj src_walked m p nm = Some c.
Proof.
  intros Hc Hn Hu. pose proof Hc as Hc0. destruct Hc as (o & a & G & Hin & Hw & Hv).
  destruct (attr_find_complete m nm a c Hv Hn) as [c' Hf].
  assert (In a (filter src_walked (o_attrs o))) as Hin' by (apply filter_In; split; assumption).
  destruct (first_some_ex (attr_find m nm) _ a c' Hin' Hf) as [y Hy].
  assert (find_obj src_walked m p nm = Some y) as Hfo by (unfold find_obj; rewrite G; exact Hy).
  destruct (find_obj_sound_w m p nm y Hfo) as [Hcy Hny].
  rewrite Hfo. f_equal. exact (Hu y c Hcy Hc0 Hny Hn).
Qed.

Lemma find_path_sound_w (m : list obj) (parts : list (list N)) :
  forall p t, find_path src_walked m p parts = Some t -> chain_w m p parts t.
Proof.
  induction parts as [|nm rest IH]; intros p t; cbn [find_path].
  - intro H; inversion H; subst t. constructor.
  - destruct (find_obj src_walked m p nm) as [c|] eqn:F; [|discriminate].
    intro H. destruct (find_obj_sound_w m p nm c F) as [Hc Hn].
    econstructor; [exact Hc | exact Hn | exact (IH c t H)].
Qed.

Lemma find_path_complete_w (m : list obj) :
  forall p parts t, chain_w m p parts t -> unique_on_w m parts -> find_path src_walked m p parts = Some t.
Proof.
  intros p parts t Hch. induction Hch as [o | o c nm rest t Hc Hn Hch IH]; intro Hu; cbn [find_path].
  - reflexivity.
  - assert (find_obj src_walked m o nm = Some c) as F.
    { apply find_obj_complete_w; try assumption. intros c1 c2. apply Hu. left. reflexivity. }
    rewrite F. apply IH. intros o' c1 c2 n Hin. apply Hu. right. exact Hin.
Qed.

Lemma find_obj_fqn_sound_w conf (m : list obj) (parts : list (list N)) (T s t : nat) :
  find_obj_fqn src_walked conf m s parts T = Some t -> good_w conf m parts T s t.
Proof.
  unfold find_obj_fqn, good_w. destruct (find_path src_walked m s parts) as [t0|] eqn:F; [|discriminate].
  destruct (conforms conf m t0 T) eqn:C; [|discriminate].
  intro H; inversion H; subst t0. split; [apply find_path_sound_w; assumption | exact C].
Qed.

Lemma find_obj_fqn_complete_w conf (m : list obj) (parts : list (list N)) (T s t : nat) :
  unique_on_w m parts -> good_w conf m parts T s t -> find_obj_fqn src_walked conf m s parts T = Some t.
Proof.
  intros Hu [Hch C]. unfold find_obj_fqn. rewrite (find_path_complete_w m s parts t Hch Hu), C. reflexivity.
Qed.

Lemma fqn_resolves_w conf (m : list obj) (r : nat) (text : list N) (T t : nat) :
  parents_decrease m = true -> r < length m -> unique_on_w m (split_dots text) ->
  (fqn_resolve conf m r text T = Found t <-> resolves_g m (good_w conf m (split_dots text) T) r t).
Proof.
  intros Hp Hr Hu. unfold fqn_resolve, fqn_resolve_with. rewrite find_referenced_outward.
  apply outward_found.
  - intros p q. apply parents_decrease_spec. exact Hp.
  - intros s t0. apply find_obj_fqn_sound_w.
  - intros s t0. apply find_obj_fqn_complete_w. exact Hu.
  - lia.
Qed.

Lemma fqn_unknown_w conf (m : list obj) (r : nat) (text : list N) (T : nat) :
  parents_decrease m = true -> r < length m -> unique_on_w m (split_dots text) ->
  (fqn_resolve conf m r text T = Unknown <-> unresolvable_g m (good_w conf m (split_dots text) T) r).
Proof.
  intros Hp Hr Hu. unfold fqn_resolve, fqn_resolve_with. rewrite find_referenced_outward.
  apply outward_unknown.
  - intros p q. apply parents_decrease_spec. exact Hp.
  - intros s t0. apply find_obj_fqn_sound_w.
  - intros s t0. apply find_obj_fqn_complete_w. exact Hu.
  - lia.
Qed.

Lemma fqn_total_w conf (m : list obj) (r : nat) (text : list N) (T : nat) :
  parents_decrease m = true -> r < length m -> fqn_resolve conf m r text T <> OutOfFuel.
Proof.
  intros Hp Hr. unfold fqn_resolve, fqn_resolve_with. rewrite find_referenced_outward.
  apply outward_total; [|lia]. intros p q. apply parents_decrease_spec. exact Hp.
Qed.

Lemma fqn_genuine_w conf (m : list obj) (r : nat) (text : list N) (T t : nat) :
  fqn_resolve conf m r text T = Found t ->
  exists i s, scope_at m r i s /\ chain_w m s (split_dots text) t /\ conforms conf m t T = true.
Proof.
  unfold fqn_resolve, fqn_resolve_with. rewrite find_referenced_outward. intro H.
  destruct (outward_sound m _ (good_w conf m (split_dots text) T)
              (fun s t0 => find_obj_fqn_sound_w conf m (split_dots text) T s t0) _ _ _ H) as (i & s & Hs & Hch & Hc).
  exists i, s. repeat split; assumption.
Qed.

(* for textX objects the walked attributes are exactly the containment attributes *)
Lemma contains_w_wf (m : list obj) (o c : nat) : wf_model m = true -> (contains_w m o c <-> contains m o c).
Proof.
  intro Hwf. split.
  - intros (ob & a & G & Hin & Hw & Hv). pose proof (wf_model_attrs m o ob a Hwf G Hin) as Hwa.
    destruct (src_walked_containment a Hwa Hw) as [Hd Hc]. exists ob, a. repeat split; assumption.
  - intros (ob & a & G & Hin & Hd & Hc & Hv). pose proof (wf_model_attrs m o ob a Hwf G Hin) as Hwa.
    exists ob, a. repeat split; try assumption. apply src_walked_complete; assumption.
Qed.

(* ------------------------------------------------------------------ search across models *)
Section Multi.
  Variable f : nat -> result.
  Variable R : nat -> nat -> Prop.
  Variable U : nat -> Prop.

  Lemma first_found_found (starts : list nat) :
    (forall s, In s starts -> (forall t, f s = Found t <-> R s t) /\ (f s = Unknown <-> U s) /\ f s <> OutOfFuel) ->
    forall t, first_found f starts = Found t <-> multi_resolves R U starts t.
  Proof.
    induction starts as [|s rest IH]; intros H t; cbn [first_found].
    - split; [discriminate|]. intros (k & s & Hn & _). destruct k; discriminate.
    - assert (forall x, In x rest -> (forall t, f x = Found t <-> R x t) /\ (f x = Unknown <-> U x) /\ f x <> OutOfFuel) as Hrest
        by (intros x Hx; apply H; right; exact Hx).
      destruct (f s) as [t0| |] eqn:E; destruct (H s (or_introl eq_refl)) as (HR & HU & HO).
      + split.
        * intro Heq; inversion Heq; subst t0. exists 0, s. split; [reflexivity|]. split; [apply HR; exact E|]. intros j s' Hj; lia.
        * intros (k & s1 & Hn & Hr & Hmin). destruct k as [|k].
          { cbn in Hn. inversion Hn; subst s1. apply HR in Hr. rewrite Hr in E. inversion E. reflexivity. }
          { exfalso. assert (U s) as Hu by (apply (Hmin 0 s); [lia | reflexivity]).
            apply HU in Hu. rewrite Hu in E. discriminate. }
      + rewrite (IH Hrest t). assert (U s) as Hus by (apply HU; exact E). split.
        * intros (k & s1 & Hn & Hr & Hmin). exists (S k), s1. split; [exact Hn|]. split; [exact Hr|].
          intros j s' Hj Hn'. destruct j as [|j]; [cbn in Hn'; inversion Hn'; subst s'; exact Hus|].
          apply (Hmin j s'); [lia | exact Hn'].
        * intros (k & s1 & Hn & Hr & Hmin). destruct k as [|k].
          { cbn in Hn. inversion Hn; subst s1. apply HR in Hr. rewrite Hr in E. discriminate. }
          exists k, s1. split; [exact Hn|]. split; [exact Hr|].
          intros j s' Hj Hn'. apply (Hmin (S j) s'); [lia | exact Hn'].
      + exfalso. apply HO. exact E.
  Qed.

  Lemma first_found_unknown (starts : list nat) :
    (forall s, In s starts -> (f s = Unknown <-> U s) /\ f s <> OutOfFuel) ->
    first_found f starts = Unknown <-> multi_unresolvable U starts.
  Proof.
    induction starts as [|s rest IH]; intro H; cbn [first_found].
    - split; [intros _ s []|reflexivity].
    - assert (forall x, In x rest -> (f x = Unknown <-> U x) /\ f x <> OutOfFuel) as Hrest by (intros x Hx; apply H; right; exact Hx).
      destruct (f s) as [t0| |] eqn:E; destruct (H s (or_introl eq_refl)) as (HU & HO).
      + split; [discriminate|]. intro M. assert (U s) as Hu by (apply M; left; reflexivity). apply HU in Hu. rewrite Hu in E. discriminate.
      + rewrite (IH Hrest). split.
        * intros M x [Hx|Hx]; [subst x; apply HU; exact E | apply M; exact Hx].
        * intros M x Hx. apply M. right. exact Hx.
      + exfalso. apply HO. exact E.
  Qed.
End Multi.

Lemma fqn_import_resolves conf (m : list obj) (r : nat) (locals builtins : list nat) (text : list N) (T t : nat) :
  wf_model m = true -> Forall (fun s => s < length m) (r :: locals ++ builtins) -> siblings_unique m ->
  (fqn_import_resolve conf m r locals builtins text T = Found t <->
   multi_resolves (fun s t => resolves_to conf m s (split_dots text) T t)
                  (fun s => unresolvable conf m s (split_dots text) T) (r :: locals ++ builtins) t).
Proof.
  intros Hwf Hall Hu. unfold fqn_import_resolve. rewrite search_starts_eq.
  apply first_found_found. intros s Hs. rewrite Forall_forall in Hall. pose proof (Hall s Hs) as Hlt.
  pose proof (siblings_unique_on m (split_dots text) Hu) as Huo.
  split; [intro t0; apply fqn_resolves_on; assumption|].
  split; [apply fqn_unknown_on; assumption | apply fqn_total; assumption].
Qed.

Lemma fqn_import_unknown conf (m : list obj) (r : nat) (locals builtins : list nat) (text : list N) (T : nat) :
  wf_model m = true -> Forall (fun s => s < length m) (r :: locals ++ builtins) -> siblings_unique m ->
  (fqn_import_resolve conf m r locals builtins text T = Unknown <->
   multi_unresolvable (fun s => unresolvable conf m s (split_dots text) T) (r :: locals ++ builtins)).
Proof.
  intros Hwf Hall Hu. unfold fqn_import_resolve. rewrite search_starts_eq.
  apply first_found_unknown. intros s Hs. rewrite Forall_forall in Hall. pose proof (Hall s Hs) as Hlt.
  pose proof (siblings_unique_on m (split_dots text) Hu) as Huo.
  split; [apply fqn_unknown_on; assumption | apply fqn_total; assumption].
Qed.

(* ------------------------------------------------------------------ scope redirection *)
Lemma first_fo_obj (f : nat -> fo) (l : list nat) (c : nat) :
  first_fo f l = FObj c -> exists x, In x l /\ f x = FObj c.
Proof.
  induction l as [|x l IH]; cbn [first_fo]; [discriminate|].
  destruct (f x) as [|c0| |] eqn:E; try discriminate.
  - intro H. destruct (IH H) as [y [Hy Hf]]. exists y. split; [right; exact Hy | exact Hf].
  - intro H; inversion H; subst c0. exists x. split; [left; reflexivity | exact E].
Qed.

Section RedirectProofs.
  Variable conf : nat -> nat -> bool.
  Variable redir : nat -> rres.

  Lemma own_sound (m : list obj) (p : nat) (nm : list N) (c : nat) :
    own src_walked m p nm = FObj c -> contains_w m p c /\ name_of m c = Some nm.
  Proof.
    unfold own. destruct (find_obj src_walked m p nm) as [c0|] eqn:F; [|discriminate].
    intro H; inversion H; subst c0. apply find_obj_sound_w. exact F.
  Qed.

  Lemma find_obj_r_sound (cur : nat) (m : list obj) (nm : list N) :
    forall fuel p c, find_obj_r src_walked redir cur fuel m p nm = FObj c ->
                     reach redir cur m p c /\ name_of m c = Some nm.
  Proof.
    induction fuel as [|f IH]; intros p c; cbn [find_obj_r]; [discriminate|].
    destruct (Nat.eqb p cur) eqn:Ecur.
    - intro H. destruct (own_sound m p nm c H) as [Hc Hn]. split; [apply reach_own; exact Hc | exact Hn].
    - destruct (redir p) as [l|] eqn:Er; [|discriminate].
      destruct (first_fo (fun x => find_obj_r src_walked redir cur f m x nm) l) as [|c0| |] eqn:Ef; try discriminate.
      + intro H. destruct (own_sound m p nm c H) as [Hc Hn]. split; [apply reach_own; exact Hc | exact Hn].
      + intro H; inversion H; subst c0. apply first_fo_obj in Ef as [x [Hx Hfx]].
        destruct (IH x c Hfx) as [Hr Hn]. split; [|exact Hn]. eapply reach_red; eassumption.
  Qed.

  Lemma find_path_r_sound (cur rf : nat) (m : list obj) (parts : list (list N)) :
    forall p t, find_path_r src_walked redir cur rf m p parts = FObj t -> chain_r redir cur m p parts t.
  Proof.
    induction parts as [|nm rest IH]; intros p t; cbn [find_path_r].
    - intro H; inversion H; subst t. constructor.
    - destruct (find_obj_r src_walked redir cur rf m p nm) as [|c| |] eqn:F; try discriminate.
      intro H. destruct (find_obj_r_sound cur m nm rf p c F) as [Hr Hn].
      econstructor; [exact Hr | exact Hn | exact (IH c t H)].
  Qed.

  Lemma find_referenced_r_eq (cur fuel rf : nat) (m : list obj) (p : nat) (parts : list (list N)) (T : nat) :
    find_referenced_r src_walked conf redir cur fuel rf m p parts T =
    match find_obj_fqn_r src_walked conf redir cur rf m p parts T with
    | FObj t => XFound t
    | FPost => XPostponed
    | FOut => XOutOfFuel
    | FNone => match parent_of m p with
               | None => XUnknown
               | Some q => match fuel with 0 => XOutOfFuel | S f => find_referenced_r src_walked conf redir cur f rf m q parts T end
               end
    end.
  Proof. destruct fuel; reflexivity. Qed.

  (* whatever is found with redirection ends a chain of named objects each reached from the previous one
     by containment (walked attributes) or through the objects standing in for it *)
  Lemma find_referenced_r_sound (cur rf : nat) (m : list obj) (parts : list (list N)) (T : nat) :
    forall fuel p t, find_referenced_r src_walked conf redir cur fuel rf m p parts T = XFound t ->
    exists i s, scope_at m p i s /\ chain_r redir cur m s parts t /\ conforms conf m t T = true.
  Proof.
    assert (forall p t, find_obj_fqn_r src_walked conf redir cur rf m p parts T = FObj t ->
                        chain_r redir cur m p parts t /\ conforms conf m t T = true) as Hfqn.
    { intros p t. unfold find_obj_fqn_r.
      destruct (find_path_r src_walked redir cur rf m p parts) as [|t0| |] eqn:F; try discriminate.
      destruct (conforms conf m t0 T) eqn:C; [|discriminate].
      intro H; inversion H; subst t0. split; [apply (find_path_r_sound cur rf); exact F | exact C]. }
    induction fuel as [|f IH]; intros p t; rewrite find_referenced_r_eq;
      destruct (find_obj_fqn_r src_walked conf redir cur rf m p parts T) as [|t0| |] eqn:F; try discriminate.
    - destruct (parent_of m p); discriminate.
    - intro H; inversion H; subst t0. exists 0, p. split; [constructor | apply Hfqn; exact F].
    - destruct (parent_of m p) as [q|] eqn:P; [|discriminate].
      intro H. destruct (IH q t H) as (i & s & Hs & Hg). exists (S i), s. split; [econstructor; eassumption | exact Hg].
    - intro H; inversion H; subst t0. exists 0, p. split; [constructor | apply Hfqn; exact F].
  Qed.

  (* a redirection callback that always answers [] changes nothing *)
  Hypothesis Hempty : forall p, redir p = RList [].

  Lemma find_obj_r_empty (cur f : nat) (m : list obj) (p : nat) (nm : list N) :
    find_obj_r src_walked redir cur (S f) m p nm = own src_walked m p nm.
  Proof. cbn [find_obj_r]. destruct (Nat.eqb p cur); [reflexivity|]. rewrite Hempty. reflexivity. Qed.

  Lemma find_path_r_empty (cur f : nat) (m : list obj) (parts : list (list N)) :
    forall p, find_path_r src_walked redir cur (S f) m p parts
              = match find_path src_walked m p parts with Some t => FObj t | None => FNone end.
  Proof.
    induction parts as [|nm rest IH]; intro p; cbn [find_path_r find_path]; [reflexivity|].
    rewrite find_obj_r_empty. unfold own. destruct (find_obj src_walked m p nm); [apply IH | reflexivity].
  Qed.

  Lemma find_referenced_r_empty (cur f : nat) (m : list obj) (parts : list (list N)) (T : nat) :
    forall fuel p, find_referenced_r src_walked conf redir cur fuel (S f) m p parts T
                   = lift_result (find_referenced src_walked conf fuel m p parts T).
  Proof.
    induction fuel as [|fu IH]; intro p; rewrite find_referenced_r_eq, find_referenced_eq;
      unfold find_obj_fqn_r, find_obj_fqn; rewrite find_path_r_empty;
      destruct (find_path src_walked m p parts) as [t|]; try (destruct (conforms conf m t T)); try reflexivity;
      destruct (parent_of m p); try reflexivity; apply IH.
  Qed.
End RedirectProofs.

Lemma fqn_resolve_r_conservative conf redir (f : nat) (m : list obj) (r : nat) (text : list N) (T : nat) :
  (forall p, redir p = RList []) ->
  fqn_resolve_r conf redir (S f) m r text T = lift_result (fqn_resolve conf m r text T).
Proof. intro H. unfold fqn_resolve_r, fqn_resolve, fqn_resolve_with. apply find_referenced_r_empty. exact H. Qed.

Lemma fqn_resolve_r_genuine conf redir (rf : nat) (m : list obj) (r : nat) (text : list N) (T t : nat) :
  fqn_resolve_r conf redir rf m r text T = XFound t ->
  exists i s, scope_at m r i s /\ chain_r redir r m s (split_dots text) t /\ conforms conf m t T = true.
Proof. unfold fqn_resolve_r. apply find_referenced_r_sound. Qed.

(* ------------------------------------------------------------------ redirection: exactness for flat callbacks *)
Lemma own_none (m : list obj) (p : nat) (nm : list N) :
  own src_walked m p nm = FNone -> forall c, contains_w m p c -> name_of m c = Some nm -> False.
Proof.
  unfold own. destruct (find_obj src_walked m p nm) as [c0|] eqn:F; [discriminate|]. intros _ c Hc Hn.
  destruct Hc as (o & a & G & Hin & Hw & Hv). unfold find_obj in F. rewrite G in F.
  destruct (attr_find_complete m nm a c Hv Hn) as [c' Hf].
  assert (In a (filter src_walked (o_attrs o))) as Hin' by (apply filter_In; split; assumption).
  destruct (first_some_ex (attr_find m nm) _ a c' Hin' Hf) as [y Hy]. rewrite Hy in F. discriminate.
Qed.

Lemma own_cases (m : list obj) (p : nat) (nm : list N) :
  own src_walked m p nm = FNone \/ exists c, own src_walked m p nm = FObj c.
Proof. unfold own. destruct (find_obj src_walked m p nm) as [c|]; [right; exists c; reflexivity | left; reflexivity]. Qed.

Lemma first_fo_ext (f g : nat -> fo) (l : list nat) : (forall x, In x l -> f x = g x) -> first_fo f l = first_fo g l.
Proof.
  induction l as [|x l IH]; intro H; cbn [first_fo]; [reflexivity|].
  rewrite (H x (or_introl eq_refl)), IH; [reflexivity|]. intros y Hy. apply H. right. exact Hy.
Qed.

Lemma first_fo_none (f : nat -> fo) (l : list nat) : first_fo f l = FNone -> forall x, In x l -> f x = FNone.
Proof.
  induction l as [|x l IH]; cbn [first_fo]; [intros _ y []|].
  destruct (f x) eqn:E; try discriminate. intros H y [Hy|Hy]; [subst y; exact E | exact (IH H y Hy)].
Qed.

Lemma first_fo_own_cases (m : list obj) (nm : list N) (l : list nat) :
  first_fo (fun x => own src_walked m x nm) l = FNone \/ exists c, first_fo (fun x => own src_walked m x nm) l = FObj c.
Proof.
  induction l as [|x l IH]; cbn [first_fo]; [left; reflexivity|].
  destruct (own_cases m x nm) as [E|[c E]]; rewrite E; [exact IH | right; exists c; reflexivity].
Qed.

Section RedirectExact.
  Variable conf : nat -> nat -> bool.
  Variable redir : nat -> rres.
  Variable cur : nat.
  Variable m : list obj.
  Hypothesis Hlist : forall p, exists l, redir p = RList l.
  Hypothesis Hflat : forall p l x, redir p = RList l -> In x l -> redir x = RList [].

  Lemma find_obj_r_flat (f x : nat) (nm : list N) : redir x = RList [] ->
    find_obj_r src_walked redir cur (S f) m x nm = own src_walked m x nm.
  Proof. intro H. cbn [find_obj_r]. destruct (Nat.eqb x cur); [reflexivity|]. rewrite H. reflexivity. Qed.

  Lemma find_obj_r_two (f p : nat) (nm : list N) :
    find_obj_r src_walked redir cur (S (S f)) m p nm =
    if Nat.eqb p cur then own src_walked m p nm
    else match redir p with
         | RPost => FPost
         | RList l => match first_fo (fun x => own src_walked m x nm) l with FNone => own src_walked m p nm | r => r end
         end.
  Proof.
    cbn [find_obj_r]. destruct (Nat.eqb p cur); [reflexivity|]. destruct (redir p) as [l|] eqn:E; [|reflexivity].
    rewrite (first_fo_ext _ (fun x => own src_walked m x nm) l); [reflexivity|].
    intros x Hx. change (find_obj_r src_walked redir cur (S f) m x nm = own src_walked m x nm).
    apply find_obj_r_flat. exact (Hflat p l x E Hx).
  Qed.

  Lemma find_obj_r_cases (f p : nat) (nm : list N) :
    find_obj_r src_walked redir cur (S (S f)) m p nm = FNone \/
    exists c, find_obj_r src_walked redir cur (S (S f)) m p nm = FObj c.
  Proof.
    rewrite find_obj_r_two. destruct (Nat.eqb p cur); [apply own_cases|].
    destruct (Hlist p) as [l E]. rewrite E.
    destruct (first_fo_own_cases m nm l) as [E1|[c E1]]; rewrite E1; [apply own_cases | right; exists c; reflexivity].
  Qed.

  Lemma reach_flat (x c : nat) : redir x = RList [] -> reach redir cur m x c -> contains_w m x c.
  Proof. intros H R. inversion R as [o c0 Hc | o l y c0 He Hr Hin Hry]; subst; [exact Hc|]. rewrite H in Hr. inversion Hr; subst l. destruct Hin. Qed.

  Section AtName.
    Variable nm : list N.
    Hypothesis Hu : forall o c1 c2, reach redir cur m o c1 -> reach redir cur m o c2 ->
                                    name_of m c1 = Some nm -> name_of m c2 = Some nm -> c1 = c2.

    Lemma own_complete_r (p c : nat) : contains_w m p c -> name_of m c = Some nm -> own src_walked m p nm = FObj c.
    Proof.
      intros Hc Hn. unfold own. rewrite (find_obj_complete_w m p nm c Hc Hn); [reflexivity|].
      intros c1 c2 H1 H2 N1 N2. exact (Hu p c1 c2 (reach_own redir cur m p c1 H1) (reach_own redir cur m p c2 H2) N1 N2).
    Qed.

    Lemma find_obj_r_complete (f p c : nat) :
      reach redir cur m p c -> name_of m c = Some nm -> find_obj_r src_walked redir cur (S (S f)) m p nm = FObj c.
    Proof.
      intros R Hn. rewrite find_obj_r_two. destruct (Nat.eqb p cur) eqn:Ecur.
      - inversion R as [o c0 Hc | o l y c0 He Hr Hin Hry]; subst; [apply own_complete_r; assumption|].
        rewrite Ecur in He. discriminate.
      - destruct (Hlist p) as [l E]. rewrite E.
        destruct (first_fo_own_cases m nm l) as [E1|[c' E1]]; rewrite E1.
        + inversion R as [o c0 Hc | o l' y c0 He Hr Hin Hry]; subst; [apply own_complete_r; assumption|].
          exfalso. rewrite E in Hr. inversion Hr; subst l'.
          pose proof (first_fo_none _ l E1 y Hin) as Hy. cbn beta in Hy.
          apply (own_none m y nm Hy c); [|exact Hn]. apply reach_flat; [exact (Hflat p l y E Hin) | exact Hry].
        + f_equal. apply first_fo_obj in E1 as [x [Hx Hox]]. destruct (own_sound m x nm c' Hox) as [Hc' Hn'].
          apply (Hu p); [eapply reach_red; [exact Ecur | exact E | exact Hx | apply reach_own; exact Hc'] | exact R | exact Hn' | exact Hn].
    Qed.
  End AtName.

  Variable T : nat.
  Local Notation good_r := (Model.FqnExt.good_r conf redir cur m T).
  Local Notation unique_on_r := (Model.FqnExt.unique_on_r redir cur m).

  Lemma find_path_r_complete (f : nat) : forall p parts t, chain_r redir cur m p parts t -> unique_on_r parts ->
    find_path_r src_walked redir cur (S (S f)) m p parts = FObj t.
  Proof.
    intros p parts t Hch. induction Hch as [o | o c nm rest t Hc Hn Hch IH]; intro Hu; cbn [find_path_r]; [reflexivity|].
    rewrite (find_obj_r_complete nm (fun o' c1 c2 => Hu o' c1 c2 nm (or_introl eq_refl)) f o c Hc Hn).
    apply IH. intros o' c1 c2 n Hin. apply Hu. right. exact Hin.
  Qed.

  Lemma find_path_r_cases (f : nat) : forall parts p,
    find_path_r src_walked redir cur (S (S f)) m p parts = FNone \/
    exists t, find_path_r src_walked redir cur (S (S f)) m p parts = FObj t.
  Proof.
    induction parts as [|nm rest IH]; intro p; cbn [find_path_r]; [right; exists p; reflexivity|].
    destruct (find_obj_r_cases f p nm) as [E|[c E]]; rewrite E; [left; reflexivity | apply IH].
  Qed.

  Variable parts : list (list N).
  Hypothesis Hu : unique_on_r parts.
  Hypothesis Hpar : parents_decrease m = true.

  Definition F_r (f : nat) (s : nat) : option nat :=
    match find_obj_fqn_r src_walked conf redir cur (S (S f)) m s parts T with FObj t => Some t | _ => None end.

  Lemma F_r_sound (f s t : nat) : F_r f s = Some t -> good_r parts s t.
  Proof.
    unfold F_r, find_obj_fqn_r, Model.FqnExt.good_r.
    destruct (find_path_r src_walked redir cur (S (S f)) m s parts) as [|t0| |] eqn:E; try discriminate.
    destruct (conforms conf m t0 T) eqn:C; [|discriminate]. intro H; inversion H; subst t0.
    split; [apply (find_path_r_sound redir cur (S (S f))); exact E | exact C].
  Qed.

  Lemma F_r_complete (f s t : nat) : good_r parts s t -> F_r f s = Some t.
  Proof.
    intros [Hch C]. unfold F_r, find_obj_fqn_r. rewrite (find_path_r_complete f s parts t Hch Hu), C. reflexivity.
  Qed.

  Lemma find_referenced_r_outward (f : nat) : forall fuel p,
    find_referenced_r src_walked conf redir cur fuel (S (S f)) m p parts T = lift_result (outward m (F_r f) fuel p).
  Proof.
    induction fuel as [|fu IH]; intro p; rewrite find_referenced_r_eq, outward_eq; unfold F_r, find_obj_fqn_r;
      destruct (find_path_r_cases f parts p) as [E|[t E]]; rewrite E; try (destruct (conforms conf m t T));
      try reflexivity; destruct (parent_of m p); try reflexivity; apply IH.
  Qed.
End RedirectExact.

Lemma fqn_resolve_r_exact conf redir (f : nat) (m : list obj) (r : nat) (text : list N) (T : nat) :
  parents_decrease m = true -> r < length m ->
  (forall p, exists l, redir p = RList l) -> (forall p l x, redir p = RList l -> In x l -> redir x = RList []) ->
  unique_on_r redir r m (split_dots text) ->
  (forall t, fqn_resolve_r conf redir (S (S f)) m r text T = XFound t <->
             resolves_g m (good_r conf redir r m T (split_dots text)) r t) /\
  (fqn_resolve_r conf redir (S (S f)) m r text T = XUnknown <->
   unresolvable_g m (good_r conf redir r m T (split_dots text)) r) /\
  fqn_resolve_r conf redir (S (S f)) m r text T <> XOutOfFuel /\
  fqn_resolve_r conf redir (S (S f)) m r text T <> XPostponed.
Proof.
  intros Hp Hr Hlist Hflat Hu. unfold fqn_resolve_r.
  rewrite (find_referenced_r_outward conf redir r m Hlist Hflat T (split_dots text) f).
  pose proof (fun p q => parents_decrease_spec m p q Hp) as Hpar.
  pose proof (outward_found m (F_r conf redir r m T (split_dots text) f) (good_r conf redir r m T (split_dots text)) Hpar
                (F_r_sound conf redir r m T (split_dots text) f)
                (F_r_complete conf redir r m Hlist Hflat T (split_dots text) Hu f) r (length m) (Nat.lt_le_incl _ _ Hr)) as Hf.
  pose proof (outward_unknown m (F_r conf redir r m T (split_dots text) f) (good_r conf redir r m T (split_dots text)) Hpar
                (F_r_sound conf redir r m T (split_dots text) f)
                (F_r_complete conf redir r m Hlist Hflat T (split_dots text) Hu f) r (length m) (Nat.lt_le_incl _ _ Hr)) as Hk.
  pose proof (outward_total m (F_r conf redir r m T (split_dots text) f) Hpar r (length m) (Nat.lt_le_incl _ _ Hr)) as Ht.
  destruct (outward m (F_r conf redir r m T (split_dots text) f) (length m) r) as [t0| |] eqn:E; cbn [lift_result].
  - split; [intro t; rewrite <- Hf; split; intro H; inversion H; reflexivity|].
    split; [rewrite <- Hk; split; discriminate|]. split; discriminate.
  - split; [intro t; rewrite <- Hf; split; discriminate|].
    split; [rewrite <- Hk; split; reflexivity|]. split; discriminate.
  - exfalso. apply Ht. reflexivity.
Qed.

From TxV Require Import Model.FqnWitness.
Lemma w_redir_flat :
  parents_decrease w3 = true /\ (forall p, exists l, w_redir p = RList l) /\
  (forall p l x, w_redir p = RList l -> In x l -> w_redir x = RList []).
Proof.
  split; [vm_compute; reflexivity|]. split.
  - intro p. unfold w_redir. destruct (Nat.eqb p 2); eexists; reflexivity.
  - intros p l x H Hin. unfold w_redir in H. destruct (Nat.eqb p 2).
    + inversion H; subst l. destruct Hin as [Hx|[]]. subst x. reflexivity.
    + inversion H; subst l. destruct Hin.
Qed.
