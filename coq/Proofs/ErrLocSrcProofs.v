(* Error records built with the location facts translated from the current source (Gen/SrcLoc.v).
   Every lemma here is re-proved whenever the translated facts change. *)
From TxV Require Import Core.Base Model.ErrLoc Gen.SrcLoc Proofs.ErrLocProofs.
Require Import Lia.

(* the location a loading error must carry: file of the offending text, line/col of its offset there *)
Definition located_at (fs : list src) (m pos : nat) : errrec :=
  let lc := linecol_spec (s_text (file_at fs m)) pos in
  {| r_file := s_name (file_at fs m); r_line := Some (fst lc); r_col := Some (snd lc); r_nchar := None |}.

Definition in_text (fs : list src) (m pos : nat) : Prop := pos <= length (s_text (file_at fs m)).

Lemma locate_ref : forall fs main m searched pos, in_text fs m pos ->
  locate fs {| d_parser := OfRef; d_file := OfRef |} main m searched pos = located_at fs m pos.
Proof.
  intros fs main m searched pos H. unfold locate, located_at, pick. cbn [d_parser d_file option_map].
  rewrite (pos_to_linecol_exact _ _ H). reflexivity.
Qed.

Lemma syntax_located : forall fs m pos, in_text fs m pos ->
  syntax_error syntax_desc fs m pos = located_at fs m pos.
Proof. intros. unfold syntax_error. change syntax_desc with {| d_parser := OfRef; d_file := OfRef |}. apply locate_ref; assumption. Qed.

Lemma unknown_located : forall fs m pos, in_text fs m pos ->
  unknown_error unknown_desc fs m pos = located_at fs m pos.
Proof. intros. unfold unknown_error. change unknown_desc with {| d_parser := OfRef; d_file := OfRef |}. apply locate_ref; assumption. Qed.

Lemma fold_last_some : forall {A B} (f : A -> B) (l : list A) (a : A) (acc : option B),
  fold_left (fun (_ : option B) x => Some (f x)) (l ++ [a]) acc = Some (f a).
Proof. intros. rewrite fold_left_app. reflexivity. Qed.

Lemma unresolvable_located : forall fs delayed last_m last_pos front,
  delayed = front ++ [(last_m, last_pos)] ->
  Forall (fun x => in_text fs (fst x) (snd x)) delayed ->
  unresolvable_error unresolvable_desc fs delayed =
  (Some (located_at fs last_m last_pos),
   map (fun x => let r := located_at fs (fst x) (snd x) in (r_line r, r_col r)) delayed).
Proof.
  intros fs delayed lm lp front E F. unfold unresolvable_error.
  change unresolvable_desc with {| d_parser := OfRef; d_file := OfRef |}.
  f_equal.
  - subst delayed. rewrite fold_last_some. cbn [fst snd]. f_equal. apply locate_ref.
    rewrite Forall_forall in F. apply (F (lm, lp)). apply in_or_app. right. left. reflexivity.
  - apply map_ext_in. intros x Hx. rewrite Forall_forall in F. rewrite locate_ref by (apply F; exact Hx). reflexivity.
Qed.

Lemma nonunique_located : forall fs m searched pos via_import,
  in_text fs m pos -> (via_import = false -> searched = m) ->
  nonunique_error nonunique_desc importuri_relocates fs m searched pos via_import = located_at fs m pos.
Proof.
  intros fs m searched pos via H Hs. unfold nonunique_error.
  change importuri_relocates with true. rewrite andb_true_r.
  destruct via.
  - apply locate_ref; assumption.
  - rewrite (Hs eq_refl). change nonunique_desc with {| d_parser := OfSearched; d_file := OfSearched |}.
    unfold locate, located_at, pick. cbn [d_parser d_file option_map].
    rewrite (pos_to_linecol_exact _ _ H). reflexivity.
Qed.

(* ------------------------------------------------------------------ C33 *)
Definition obj_location (fs : list src) (m pos pos_end : nat) : errrec :=
  let lc := linecol_spec (s_text (file_at fs m)) pos in
  {| r_file := s_name (file_at fs m); r_line := Some (fst lc); r_col := Some (snd lc); r_nchar := Some (pos_end - pos) |}.

(* every field the processor supplied is kept, every other field comes from loc *)
Definition completed (e loc : errrec) : errrec :=
  {| r_file := orelse (r_file e) (r_file loc); r_line := orelse (r_line e) (r_line loc);
     r_col := orelse (r_col e) (r_col loc); r_nchar := orelse (r_nchar e) (r_nchar loc) |}.

Lemma get_location_spec : forall fs m pos pos_end, in_text fs m pos ->
  get_location fs m pos pos_end = obj_location fs m pos pos_end.
Proof. intros fs m pos pe H. unfold get_location, obj_location. rewrite (pos_to_linecol_exact _ _ H). reflexivity. Qed.

Lemma select_all : forall loc, select location_keys loc = loc.
Proof. intros [f l c n]. reflexivity. Qed.

Lemma fill_all : forall kw e, fill process_fills kw e = completed e kw.
Proof. intros kw e. reflexivity. Qed.

Lemma obj_textx_error : forall fs m pos pos_end wrapped e, in_text fs m pos ->
  obj_dispatch process_fills location_keys fs m pos pos_end wrapped (RaisesTx e)
  = Fails (completed e (obj_location fs m pos pos_end)).
Proof.
  intros fs m pos pe w e H. unfold obj_dispatch. rewrite select_all, (get_location_spec _ _ _ _ H).
  destruct w; cbn [wrap mm_process]; rewrite fill_all; reflexivity.
Qed.

Lemma completed_self : forall loc, completed loc loc = loc.
Proof. intros [[f|] [l|] [c|] [n|]]; reflexivity. Qed.

Lemma obj_wrapped_other : forall fs m pos pos_end, in_text fs m pos ->
  obj_dispatch process_fills location_keys fs m pos pos_end true RaisesOther
  = Fails (obj_location fs m pos pos_end).
Proof.
  intros fs m pos pe H. unfold obj_dispatch. rewrite select_all, (get_location_spec _ _ _ _ H).
  cbn [wrap mm_process]. rewrite fill_all, completed_self. reflexivity.
Qed.

Lemma obj_unwrapped_other : forall fs m pos pos_end,
  obj_dispatch process_fills location_keys fs m pos pos_end false RaisesOther = Propagates.
Proof. reflexivity. Qed.

Lemma obj_returns : forall fs m pos pos_end wrapped,
  obj_dispatch process_fills location_keys fs m pos pos_end wrapped Returns = Loaded.
Proof. intros; destruct wrapped; reflexivity. Qed.

Lemma match_textx_error : forall fs m pos wrapped e, in_text fs m pos ->
  match_dispatch process_fills match_keys fs m pos wrapped (RaisesTx e)
  = Fails (completed e (located_at fs m pos)).
Proof.
  intros fs m pos w e H. unfold match_dispatch, located_at. rewrite (pos_to_linecol_exact _ _ H).
  destruct w; reflexivity.
Qed.

Lemma match_wrapped_other : forall fs m pos, in_text fs m pos ->
  match_dispatch process_fills match_keys fs m pos true RaisesOther = Fails (located_at fs m pos).
Proof.
  intros fs m pos H. unfold match_dispatch, located_at. rewrite (pos_to_linecol_exact _ _ H).
  cbn [wrap mm_process]. unfold fill, select, no_loc. cbn. reflexivity.
Qed.

Lemma obj_unlocated : forall fs m pos pos_end wrapped, in_text fs m pos ->
  obj_dispatch process_fills location_keys fs m pos pos_end wrapped (RaisesTx no_loc)
  = Fails (obj_location fs m pos pos_end).
Proof. intros. rewrite obj_textx_error by assumption. reflexivity. Qed.

Lemma supplied_kept : forall e loc,
  (forall x, r_line e = Some x -> r_line (completed e loc) = Some x) /\
  (forall x, r_col e = Some x -> r_col (completed e loc) = Some x) /\
  (forall x, r_nchar e = Some x -> r_nchar (completed e loc) = Some x) /\
  (forall x, r_file e = Some x -> r_file (completed e loc) = Some x).
Proof. intros e loc. repeat split; intros x H; cbn; rewrite H; reflexivity. Qed.

Lemma other_outcomes : forall fs m pos pos_end wrapped,
  obj_dispatch process_fills location_keys fs m pos pos_end wrapped Returns = Loaded /\
  obj_dispatch process_fills location_keys fs m pos pos_end false RaisesOther = Propagates.
Proof. intros. split; [apply obj_returns | apply obj_unwrapped_other]. Qed.
