(* C19: for context-constant grammars the memoized interpreter returns what the un-memoized one
   returns.  Three layers, each proved per helper of Model/Peg.v with the recursive parser
   abstracted, then tied by induction on the fuel:
     A0 (good)    a run only extends nm / comment_positions and keeps context and cache;
     A  (rerun)   re-running a node at the same position from any later state (dom) reproduces
                  the result and changes nothing but the position;
     S  (sim)     simulation memo / no-memo with the invariant "every cache entry is what the
                  un-memoized interpreter returns at that position". *)
From TxV Require Import Core.Base Model.PegSyntax Model.Peg Proofs.PegProofs Proofs.PegFuel.

Section Memo.
Variable g : grammar.
Variable input : list N.
Variable orc : nat -> nat -> option nat.
Hypothesis H : ctx_constant g = true.

Notation parser := (nat -> bool -> st -> out) (only parsing).

Lemma comment_node cm :
  g_comments g = Some cm -> exists nd, get_node g cm = Some nd /\ is_match_kind (n_kind nd) = true.
Proof.
  intro E. unfold ctx_constant in H. apply andb_true_iff in H as [_ H2]. unfold comments_ok in H2.
  rewrite E in H2. destruct (get_node g cm) as [nd|]; [|discriminate]. exists nd. auto.
Qed.

Lemma node_free nid nd :
  get_node g nid = Some nd -> n_ws nd = None /\ n_skipws nd = None /\ n_eolterm nd = false.
Proof.
  intro Hn. unfold ctx_constant in H. apply andb_true_iff in H as [H1 _].
  rewrite forallb_forall in H1. unfold get_node in Hn. apply nth_error_In in Hn.
  specialize (H1 _ Hn). unfold node_ctx_free in H1.
  destruct (n_ws nd); [discriminate|]. destruct (n_skipws nd); [discriminate|].
  destruct (n_eolterm nd); [discriminate|]. auto.
Qed.

(* the Comment rule is a single terminal: tried in comment mode it is a function of the state that
   does not involve the recursive parser (and is never memoized) *)
Definition cjump (s1 : st) : st :=
  match (if skipws s1 then lookup (pos s1) (cpos s1) else None) with
  | Some p' => set_pos p' s1
  | None => s1
  end.
Definition cterm (cm : nat) (s : st) : out :=
  match get_node g cm with
  | None => Abort 1
  | Some nd =>
    match term_parse input orc cm (n_kind nd) false (cjump (maybe_skip_ws input s)) with
    | Ok r s3 => Ok (if n_suppress nd then RNone else r) s3
    | o => o
    end
  end.
Fixpoint cloop (cm k : nat) (s : st) : out :=
  match k with
  | 0 => Abort 0
  | S k' =>
    match cterm cm s with
    | Ok _ s1 => cloop cm k' (maybe_skip_ws input s1)
    | Fail s1 => Ok RNone s1
    | Abort w => Abort w
    end
  end.


(* [v] is the position at which the comment loop started at [k] ends (whitespace skipping off), whatever
   the fuel and the rest of the state *)
Definition CV (cm k v : nat) : Prop :=
  forall f s r s2, in_cmt s = true -> skipws s = false -> pos s = k -> cloop cm f s = Ok r s2 -> pos s2 = v.

(* state invariant of main-mode parsing: not inside comment parsing, and comment_positions entries are
   never overwritten with a different value: with skipws they are written only when absent; without
   skipws every entry is what re-computation gives (k |-> k without a comment model, the end of the
   comment loop started at k otherwise) *)
Definition cpos_ok (c : list (nat * nat)) : Prop :=
  match g_comments g with
  | None => cpos_id c
  | Some cm => forall k v, lookup k c = Some v -> CV cm k v
  end.
Definition sinv (s : st) : Prop :=
  in_cmt s = false /\ (skipws s = true \/ cpos_ok (cpos s)).

Lemma skipws_reg_fail p s : skipws (reg_fail p s) = skipws s.
Proof. unfold reg_fail. destruct (nm s); [destruct (in_cmt s); [|destruct (Nat.ltb _ _)]|]; reflexivity. Qed.
Lemma sinv_reg_fail p s : sinv s -> sinv (reg_fail p s).
Proof. unfold sinv. now rewrite in_cmt_reg_fail, skipws_reg_fail, cpos_reg_fail. Qed.

Definition is_abort (o : out) : bool := match o with Abort _ => true | _ => false end.
Definition ostate (d : st) (o : out) : st := match o with Ok _ s | Fail s => s | Abort _ => d end.
Definition omap (f : st -> st) (o : out) : out :=
  match o with Ok r s => Ok r (f s) | Fail s => Fail (f s) | Abort w => Abort w end.

(* ================================================================ terminals *)
Definition good (s : st) (o : out) : Prop :=
  match o with
  | Ok _ s1 | Fail s1 => dom s s1 /\ sinv s1
  | Abort _ => True
  end.

Lemma good_trans s s1 o : dom s s1 -> good s1 o -> good s o.
Proof. intros D G. destruct o; cbn in *; auto; destruct G; split; eauto using dom_trans. Qed.
Lemma good_omap_pos s o (f : st -> nat) :
  good s o -> good s (omap (fun s1 => set_pos (f s1) s1) o).
Proof. destruct o; cbn; auto; intros [D C]; split; auto using dom_set_pos_r. Qed.
Lemma good_pos_l p s o : good s o -> good (set_pos p s) o.
Proof. destruct o; cbn; auto; intros [D C]; split; auto using dom_set_pos_l. Qed.
Lemma good_pos_l_inv p s o : good (set_pos p s) o -> good s o.
Proof. destruct o; cbn; auto; intros [D C]; split; eauto using dom_set_pos_l_inv. Qed.

Ltac dm := match goal with |- context [match ?x with _ => _ end] => destruct x eqn:? end.

Lemma good_ok s r p : sinv s -> good s (Ok r (set_pos p s)).
Proof. intro C. split; [apply dom_set_pos_r, dom_refl | exact C]. Qed.
Lemma good_ok0 s r : sinv s -> good s (Ok r s).
Proof. intro C. split; [apply dom_refl | exact C]. Qed.
Lemma good_raise s p : sinv s -> good s (nm_raise p s).
Proof. intro C. split; [apply dom_reg_fail | now apply sinv_reg_fail]. Qed.

Lemma term_good nid k psq s : sinv s -> good s (term_parse input orc nid k psq s).
Proof.
  intro C. unfold term_parse. destruct k; try exact I; repeat dm;
    auto using good_ok, good_ok0, good_raise.
Qed.

Lemma raise_rerun p s s' :
  dom (reg_fail p s) s' -> pos s' = pos s ->
  nm_raise p s' = omap (fun s1 => set_pos (pos s1) s') (nm_raise p s).
Proof.
  intros D P. unfold nm_raise. cbn. rewrite (reg_fail_saturated _ _ _ D), pos_reg_fail, <- P.
  now rewrite set_pos_same.
Qed.

Lemma term_rerun nid k psq s s' :
  is_abort (term_parse input orc nid k psq s) = false ->
  dom (ostate s (term_parse input orc nid k psq s)) s' -> pos s' = pos s ->
  term_parse input orc nid k psq s' = omap (fun s1 => set_pos (pos s1) s') (term_parse input orc nid k psq s).
Proof.
  intros NA D P. unfold term_parse in *. rewrite P.
  destruct k; try discriminate NA; repeat dm; cbn in D |- *;
    try reflexivity; try (apply raise_rerun; assumption);
    rewrite <- P; now rewrite set_pos_same.
Qed.

Lemma reg_fail_cache c p s : reg_fail p (set_cache c s) = set_cache c (reg_fail p s).
Proof.
  destruct s as [p0 w rw sk eo ic n cp ca]. unfold reg_fail. cbn.
  repeat dm; reflexivity.
Qed.

Lemma term_cache c nid k psq s :
  term_parse input orc nid k psq (set_cache c s) = omap (set_cache c) (term_parse input orc nid k psq s).
Proof.
  unfold term_parse, nm_raise. cbn [pos set_cache].
  destruct k; try reflexivity; repeat dm; cbn; try reflexivity; now rewrite reg_fail_cache.
Qed.

(* ================================================================ Match.parse prefix *)
Lemma msw_dom s : dom s (maybe_skip_ws input s).
Proof. unfold maybe_skip_ws, do_skip_ws. destruct (skipws s); [apply dom_set_pos_r|]; apply dom_refl. Qed.
Lemma msw_cpos s : cpos (maybe_skip_ws input s) = cpos s.
Proof. unfold maybe_skip_ws, do_skip_ws. destruct (skipws s); reflexivity. Qed.
Lemma msw_rerun s s' :
  dom s s' -> pos s' = pos s ->
  maybe_skip_ws input s' = set_pos (pos (maybe_skip_ws input s)) s'.
Proof.
  intros D P. unfold maybe_skip_ws, do_skip_ws. rewrite (d_skip _ _ D), (d_ws _ _ D), P.
  destruct (skipws s); [reflexivity|]. rewrite <- P. symmetry. apply set_pos_same.
Qed.
Lemma msw_cache c s : maybe_skip_ws input (set_cache c s) = set_cache c (maybe_skip_ws input s).
Proof. unfold maybe_skip_ws, do_skip_ws. cbn. destruct (skipws s); reflexivity. Qed.
Lemma set_cpos_same s : set_cpos (cpos s) s = s.
Proof. destruct s; reflexivity. Qed.

Definition cgood (s : st) (o : out) : Prop :=
  match o with Ok _ s1 | Fail s1 => dom s s1 /\ cpos s1 = cpos s | Abort _ => True end.

Lemma cjump_dom s : dom s (cjump s) /\ cpos (cjump s) = cpos s.
Proof.
  unfold cjump. destruct (if skipws s then lookup (pos s) (cpos s) else None);
    split; auto using dom_set_pos_r, dom_refl.
Qed.

Lemma term_cgood nid k psq s : cgood s (term_parse input orc nid k psq s).
Proof.
  unfold term_parse, nm_raise. destruct k; try exact I; repeat dm; cbn;
    auto using dom_set_pos_r, dom_refl, dom_reg_fail, cpos_reg_fail.
Qed.

Lemma cterm_good cm s : cgood s (cterm cm s).
Proof.
  unfold cterm. destruct (get_node g cm) as [nd|]; [|exact I].
  destruct (cjump_dom (maybe_skip_ws input s)) as [D1 C1].
  pose proof (term_cgood cm (n_kind nd) false (cjump (maybe_skip_ws input s))) as G.
  destruct (term_parse input orc cm (n_kind nd) false (cjump (maybe_skip_ws input s))); cbn in G |- *; auto;
    destruct G as [D2 C2]; (split; [eapply dom_trans; [apply msw_dom|]; eapply dom_trans; eassumption|]);
    now rewrite C2, C1, msw_cpos.
Qed.

Lemma cloop_good cm k : forall s,
  match cloop cm k s with Ok _ s1 => dom s s1 /\ cpos s1 = cpos s | Fail _ => False | Abort _ => True end.
Proof.
  induction k as [|k IH]; intro s; cbn [cloop]; [exact I|].
  pose proof (cterm_good cm s) as G. destruct (cterm cm s) as [r s1|s1|w]; cbn in G; auto.
  destruct G as [D1 C1]. specialize (IH (maybe_skip_ws input s1)).
  destruct (cloop cm k (maybe_skip_ws input s1)); auto. destruct IH as [D2 C2].
  split; [eapply dom_trans; [exact D1|]; eapply dom_trans; [apply msw_dom | exact D2]|].
  now rewrite C2, msw_cpos.
Qed.

Lemma parse_cterm m f cm s :
  g_comments g = Some cm -> in_cmt s = true ->
  parse g input orc m (S f) cm false s = cterm cm s.
Proof.
  intros E IC. destruct (comment_node cm E) as (nd & Hn & MK).
  cbn [parse]. unfold cterm. rewrite Hn, MK. unfold match_pre, cjump.
  assert (IC1 : in_cmt (maybe_skip_ws input s) = true) by (rewrite (d_cmt _ _ (msw_dom s)); exact IC).
  destruct (if skipws (maybe_skip_ws input s) then _ else None); [reflexivity|].
  rewrite IC1. reflexivity.
Qed.

Lemma cmt_loop_eq m f cm : g_comments g = Some cm -> forall k s, in_cmt s = true ->
  cmt_loop input (parse g input orc m (S f)) cm k s = cloop cm k s.
Proof.
  intros E. induction k as [|k IH]; intros s IC; cbn [cmt_loop cloop]; [reflexivity|].
  rewrite (parse_cterm m f cm s E IC).
  pose proof (cterm_good cm s) as G. destruct (cterm cm s) as [r s1|s1|w]; cbn in G; auto.
  destruct G as [D1 _]. apply IH.
  rewrite (d_cmt _ _ (msw_dom s1)), (d_cmt _ _ D1). exact IC.
Qed.

Definition mprec (f : nat) (s : st) : out :=
  let s1 := maybe_skip_ws input s in
  match (if skipws s1 then lookup (pos s1) (cpos s1) else None) with
  | Some p' => Ok RNone (set_pos p' s1)
  | None =>
    if in_cmt s1 then Ok RNone s1
    else match g_comments g with
         | None => Ok RNone (set_cpos (upd (pos s1) (pos s1) (cpos s1)) s1)
         | Some cm =>
           match cloop cm f (set_in_cmt true s1) with
           | Ok _ s2 => Ok RNone (set_cpos (upd (pos s1) (pos s2) (cpos s2)) (set_in_cmt false s2))
           | Fail s2 => Fail s2
           | Abort w => Abort w
           end
         end
  end.

Lemma match_pre_eq m f s : match_pre g input (parse g input orc m f) f s = mprec f s.
Proof.
  unfold match_pre, mprec, parse_comments.
  set (s1 := maybe_skip_ws input s).
  destruct (if skipws s1 then lookup (pos s1) (cpos s1) else None); [reflexivity|].
  destruct (in_cmt s1) eqn:C; [reflexivity|].
  destruct (g_comments g) as [cm|] eqn:E.
  - destruct f as [|f]; [reflexivity|].
    rewrite (cmt_loop_eq m f cm E (S f) (set_in_cmt true s1) eq_refl).
    destruct (cloop cm (S f) (set_in_cmt true s1)); reflexivity.
  - f_equal. destruct s1; cbn in *; subst; reflexivity.
Qed.

Lemma cpos_le_upd_absent k v c : lookup k c = None -> cpos_le c (upd k v c).
Proof.
  intros L k2 v2 L2. destruct (Nat.eq_dec k2 k) as [->|Hne]; [congruence|]. now rewrite lookup_upd_other.
Qed.

Definition rerun_ok (o : out) (s' : st) (o' : out) : Prop :=
  is_abort o' = true \/ o' = omap (fun s1 => set_pos (pos s1) s') o.

(* ---- the comment loop without whitespace skipping: a function of the position *)
Lemma msw_nosk s : skipws s = false -> maybe_skip_ws input s = s.
Proof. intro SK. unfold maybe_skip_ws. now rewrite SK. Qed.
Lemma cjump_nosk s : skipws s = false -> cjump s = s.
Proof. intro SK. unfold cjump. now rewrite SK. Qed.

Definition same_shape (o o' : out) : Prop :=
  match o, o' with
  | Ok r s1, Ok r' s1' => r = r' /\ pos s1 = pos s1'
  | Fail s1, Fail s1' => pos s1 = pos s1'
  | Abort w, Abort w' => w = w'
  | _, _ => False
  end.

Lemma term_shape nid k psq s s' : pos s = pos s' ->
  same_shape (term_parse input orc nid k psq s) (term_parse input orc nid k psq s').
Proof.
  intro P. unfold term_parse, nm_raise. rewrite <- P.
  destruct k; cbn; auto; repeat dm; cbn; auto; now rewrite !pos_reg_fail.
Qed.

Lemma cterm_shape cm s s' : skipws s = false -> skipws s' = false -> pos s = pos s' ->
  same_shape (cterm cm s) (cterm cm s').
Proof.
  intros SK SK' P. unfold cterm. destruct (get_node g cm) as [nd|]; [|reflexivity].
  rewrite !msw_nosk, !cjump_nosk by assumption.
  pose proof (term_shape cm (n_kind nd) false s s' P) as T.
  destruct (term_parse input orc cm (n_kind nd) false s), (term_parse input orc cm (n_kind nd) false s');
    cbn in T |- *; auto. destruct T as [-> T]. auto.
Qed.

Lemma cloop_pos_det cm f : forall f' s s' r s2 r' s2',
  skipws s = false -> skipws s' = false -> pos s = pos s' ->
  cloop cm f s = Ok r s2 -> cloop cm f' s' = Ok r' s2' -> pos s2 = pos s2'.
Proof.
  induction f as [|f IH]; intros f' s s' r s2 r' s2' SK SK' P E E'; cbn [cloop] in E; [discriminate|].
  destruct f' as [|f']; cbn [cloop] in E'; [discriminate|].
  pose proof (cterm_shape cm s s' SK SK' P) as T.
  pose proof (cterm_good cm s) as G. pose proof (cterm_good cm s') as G'.
  destruct (cterm cm s) as [r1 s1|s1|w], (cterm cm s') as [r1' s1'|s1'|w']; cbn in T; try contradiction;
    try discriminate.
  - destruct T as [_ T]. destruct G as [D _], G' as [D' _].
    assert (SK1 : skipws s1 = false) by (rewrite (d_skip _ _ D); exact SK).
    assert (SK1' : skipws s1' = false) by (rewrite (d_skip _ _ D'); exact SK').
    rewrite msw_nosk in E by assumption. rewrite msw_nosk in E' by assumption.
    exact (IH f' s1 s1' r s2 r' s2' SK1 SK1' T E E').
  - injection E as _ <-. injection E' as _ <-. exact T.
Qed.

Lemma CV_of_run cm f s r s2 :
  in_cmt s = true -> skipws s = false -> cloop cm f s = Ok r s2 -> CV cm (pos s) (pos s2).
Proof.
  intros IC SK E f' s' r' s2' IC' SK' P E'. symmetry.
  eapply cloop_pos_det; [exact SK | exact SK' | symmetry; exact P | exact E | exact E'].
Qed.

Lemma reg_fail_cmt p s : in_cmt s = true -> nm s <> None -> reg_fail p s = s.
Proof. intros IC N. unfold reg_fail. destruct (nm s); [now rewrite IC | contradiction]. Qed.

Lemma term_saturated nid k psq s : in_cmt s = true -> nm s <> None ->
  match term_parse input orc nid k psq s with
  | Ok _ s1 | Fail s1 => s1 = set_pos (pos s1) s
  | Abort _ => True
  end.
Proof.
  intros IC N. unfold term_parse, nm_raise. cbv zeta. rewrite ?(reg_fail_cmt (pos s) s IC N).
  destruct k; auto.
  - destruct (length input =? pos s); cbn; now rewrite set_pos_same.
  - destruct (match oid with Some o => match orc o (pos s) with Some _ => true | None => false end
                        | None => is_prefix s0 (skipn (pos s) input) end); cbn; auto.
    now rewrite set_pos_same.
  - destruct (orc oid (pos s)) as [len|]; [destruct (len =? 0)|]; cbn; auto; now rewrite set_pos_same.
Qed.

Lemma cloop_saturated cm f : forall s r s2,
  in_cmt s = true -> skipws s = false -> nm s <> None ->
  cloop cm f s = Ok r s2 -> s2 = set_pos (pos s2) s.
Proof.
  induction f as [|f IH]; intros s r s2 IC SK N E; cbn [cloop] in E; [discriminate|].
  unfold cterm in E. destruct (get_node g cm) as [nd|]; [|discriminate].
  rewrite msw_nosk, cjump_nosk in E by assumption.
  pose proof (term_saturated cm (n_kind nd) false s IC N) as T.
  destruct (term_parse input orc cm (n_kind nd) false s) as [r1 s1|s1|w]; try discriminate.
  - assert (SK1 : skipws s1 = false) by (rewrite T; exact SK).
    rewrite msw_nosk in E by assumption.
    assert (E2 : s2 = set_pos (pos s2) s1).
    { eapply IH; [| |  | exact E]; rewrite T; cbn; assumption. }
    rewrite E2, T. cbn. now rewrite set_pos_set_pos.
  - injection E as _ <-. exact T.
Qed.

Lemma term_fail_nm nid k psq s s1 : term_parse input orc nid k psq s = Fail s1 -> nm s1 <> None.
Proof.
  unfold term_parse, nm_raise. cbv zeta. intro E.
  assert (F : s1 = reg_fail (pos s) s).
  { destruct k; try discriminate E.
    - destruct (length input =? pos s); [discriminate E | now injection E].
    - destruct (match oid with Some o => match orc o (pos s) with Some _ => true | None => false end
                          | None => is_prefix s0 (skipn (pos s) input) end); [discriminate E | now injection E].
    - destruct (orc oid (pos s)) as [len|]; [destruct (len =? 0); discriminate E | now injection E]. }
  subst s1. destruct (nm_reg_fail (pos s) s) as [q [Hq _]]. congruence.
Qed.

Lemma cloop_nm cm f : forall s r s2, cloop cm f s = Ok r s2 -> nm s2 <> None.
Proof.
  induction f as [|f IH]; intros s r s2 E; cbn [cloop] in E; [discriminate|].
  destruct (cterm cm s) as [r1 s1|s1|w] eqn:EC; try discriminate.
  - eapply IH; exact E.
  - injection E as _ <-. unfold cterm in EC. destruct (get_node g cm) as [nd|]; [|discriminate].
    destruct (term_parse input orc cm (n_kind nd) false (cjump (maybe_skip_ws input s))) as [r2 s3|s3|w] eqn:ET;
      try discriminate. injection EC as <-. eapply term_fail_nm; exact ET.
Qed.

Lemma cpos_le_refl c : cpos_le c c.
Proof. intros k v L; exact L. Qed.

Lemma mprec_good f s : sinv s -> good s (mprec f s).
Proof.
  intros [IC SK]. unfold mprec. pose proof (msw_dom s) as D. pose proof (msw_cpos s) as C.
  set (s1 := maybe_skip_ws input s) in *.
  assert (IC1 : in_cmt s1 = false) by (rewrite (d_cmt _ _ D); exact IC).
  assert (SK1 : skipws s1 = skipws s) by apply (d_skip _ _ D).
  assert (S1 : sinv s1) by (split; [exact IC1 | now rewrite SK1, C]).
  destruct (if skipws s1 then lookup (pos s1) (cpos s1) else None) eqn:L.
  - split; [now apply dom_set_pos_r | exact S1].
  - rewrite IC1. unfold sinv, cpos_ok in *. destruct (g_comments g) as [cm|] eqn:E.
    + pose proof (cloop_good cm f (set_in_cmt true s1)) as G.
      destruct (cloop cm f (set_in_cmt true s1)) as [r s2|s2|w] eqn:EL; try exact I; [|contradiction].
      destruct G as [D2 C2]. cbn in C2.
      assert (SK2 : skipws s2 = skipws s) by (rewrite (d_skip _ _ D2); cbn; exact SK1).
      destruct SK as [SK|SK].
      * (* skipws: the key is absent *)
        rewrite SK1, SK in L. split.
        -- eapply dom_trans; [exact D|]. destruct D2. constructor; cbn in *; auto.
           rewrite C2. now apply cpos_le_upd_absent.
        -- split; [reflexivity | left]. cbn. now rewrite SK2.
      * destruct (skipws s) eqn:SKv.
        { rewrite SK1 in L. split.
          - eapply dom_trans; [exact D|]. destruct D2. constructor; cbn in *; auto.
            rewrite C2. now apply cpos_le_upd_absent.
          - split; [reflexivity | left]. cbn. exact SK2. }
        (* no skipws: an existing entry already has this value *)
        assert (CVn : CV cm (pos s1) (pos s2)).
        { apply (CV_of_run cm f (set_in_cmt true s1) r s2); [reflexivity | cbn; now rewrite SK1 | exact EL]. }
        assert (Hc : cpos_le (cpos s1) (upd (pos s1) (pos s2) (cpos s2)) /\
                     (forall k v, lookup k (upd (pos s1) (pos s2) (cpos s2)) = Some v -> CV cm k v)).
        { rewrite C2. split.
          - destruct (lookup (pos s1) (cpos s1)) as [v0|] eqn:L0.
            + rewrite C in L0. pose proof (SK _ _ L0) as CV0.
              assert (v0 = pos s2).
              { symmetry. apply (CV0 f (set_in_cmt true s1) r s2); [reflexivity | cbn; now rewrite SK1 | reflexivity | exact EL]. }
              subst v0. rewrite <- C in L0. rewrite (upd_idem _ _ _ L0). apply cpos_le_refl.
            + now apply cpos_le_upd_absent.
          - intros k v Lk. destruct (Nat.eq_dec k (pos s1)) as [->|Hne].
            + rewrite lookup_upd_same in Lk. injection Lk as <-. exact CVn.
            + rewrite lookup_upd_other in Lk by assumption. rewrite C in Lk. now apply SK. }
        destruct Hc as [Hle Hcv]. split.
        -- eapply dom_trans; [exact D|]. destruct D2. constructor; cbn in *; auto.
        -- split; [reflexivity | right]. cbn. unfold cpos_ok. rewrite E. exact Hcv.
    + split.
      * eapply dom_trans; [exact D|]. constructor; try reflexivity; [apply nm_le_refl|]. cbn.
        destruct SK as [SK|SK].
        -- rewrite SK1, SK in L. now apply cpos_le_upd_absent.
        -- apply cpos_le_upd. now rewrite C.
      * split; [exact IC1|]. cbn. destruct SK as [SK|SK]; [left; now rewrite SK1 | right].
        unfold cpos_ok. rewrite E. apply cpos_id_upd. now rewrite C.
Qed.

Lemma mprec_rerun f f' s s' :
  sinv s -> sinv s' -> is_abort (mprec f s) = false ->
  dom (ostate s (mprec f s)) s' -> pos s' = pos s ->
  rerun_ok (mprec f s) s' (mprec f' s').
Proof.
  intros [IC SK] [IC' SK'] NA D P.
  assert (D0 : dom s s').
  { pose proof (mprec_good f s (conj IC SK)) as G. destruct (mprec f s); try discriminate NA;
      destruct G as [G _]; eapply dom_trans; eassumption. }
  unfold mprec in *. rewrite (msw_rerun s s' D0 P).
  pose proof (msw_cpos s) as C. pose proof (msw_dom s) as Dm.
  set (s1 := maybe_skip_ws input s) in *.
  assert (IC1 : in_cmt s1 = false) by (rewrite (d_cmt _ _ Dm); exact IC).
  assert (SK1 : skipws s1 = skipws s) by apply (d_skip _ _ Dm).
  cbn [skipws pos cpos set_pos in_cmt]. rewrite (d_skip _ _ D0), IC', <- SK1.
  rewrite IC1 in *.
  destruct (skipws s1) eqn:SKv.
  - right. destruct (lookup (pos s1) (cpos s1)) as [p'|] eqn:L.
    + rewrite (d_cpos _ _ D0 (pos s1) p') by (rewrite <- C; exact L).
      cbn. now rewrite set_pos_set_pos.
    + destruct (g_comments g) as [cm|] eqn:E.
      * destruct (cloop cm f (set_in_cmt true s1)) as [r s2|s2|w] eqn:EL; try discriminate NA.
        -- cbn in D.
           assert (L' : lookup (pos s1) (cpos s') = Some (pos s2)).
           { apply (d_cpos _ _ D). cbn. apply lookup_upd_same. }
           rewrite L'. cbn. now rewrite set_pos_set_pos.
        -- exfalso. pose proof (cloop_good cm f (set_in_cmt true s1)) as G. rewrite EL in G. exact G.
      * cbn in D.
        assert (L' : lookup (pos s1) (cpos s') = Some (pos s1)).
        { apply (d_cpos _ _ D). cbn. apply lookup_upd_same. }
        rewrite L'. cbn. now rewrite set_pos_set_pos.
  - destruct (g_comments g) as [cm|] eqn:E.
    + (* no skipws, Comment rule: the loop is run again and reproduces the entry *)
      destruct (cloop cm f (set_in_cmt true s1)) as [r s2|s2|w] eqn:EL; try discriminate NA;
        [|exfalso; pose proof (cloop_good cm f (set_in_cmt true s1)) as G; rewrite EL in G; exact G].
      cbn in D.
      assert (L' : lookup (pos s1) (cpos s') = Some (pos s2)).
      { apply (d_cpos _ _ D). cbn. apply lookup_upd_same. }
      set (t := set_in_cmt true (set_pos (pos s1) s')).
      destruct (cloop cm f' t) as [r' s2'|s2'|w'] eqn:EL';
        [| exfalso; pose proof (cloop_good cm f' t) as G; rewrite EL' in G; exact G | now left].
      right. cbn [omap].
      assert (SKt : skipws t = false) by (cbn; rewrite (d_skip _ _ D0); now rewrite <- SK1).
      assert (Nt : nm t <> None).
      { cbn. pose proof (cloop_nm cm f _ _ _ EL) as N2. pose proof (d_nm _ _ D) as Hn. cbn in Hn.
        destruct (nm s2); [|contradiction]. destruct (nm s'); [discriminate | contradiction]. }
      pose proof (cloop_saturated cm f' t r' s2' eq_refl SKt Nt EL') as Sat.
      assert (Pv : pos s2' = pos s2).
      { eapply (cloop_pos_det cm f' f t (set_in_cmt true s1)); [exact SKt | cbn; exact SKv | reflexivity | exact EL' | exact EL]. }
      rewrite Sat, Pv. cbn. rewrite (upd_idem _ _ _ L'). f_equal.
      destruct s'; cbn in *; subst; reflexivity.
    + right. cbn in D.
      assert (L' : lookup (pos s1) (cpos s') = Some (pos s1)).
      { apply (d_cpos _ _ D). cbn. apply lookup_upd_same. }
      cbn. rewrite (upd_idem _ _ _ L'). destruct s'; reflexivity.
Qed.

Lemma cterm_cache c cm s : cterm cm (set_cache c s) = omap (set_cache c) (cterm cm s).
Proof.
  unfold cterm. destruct (get_node g cm) as [nd|]; [|reflexivity].
  rewrite msw_cache.
  assert (J : cjump (set_cache c (maybe_skip_ws input s)) = set_cache c (cjump (maybe_skip_ws input s))).
  { unfold cjump. cbn. destruct (if skipws (maybe_skip_ws input s) then _ else None); reflexivity. }
  rewrite J, term_cache.
  destruct (term_parse input orc cm (n_kind nd) false (cjump (maybe_skip_ws input s))); reflexivity.
Qed.

Lemma cloop_cache c cm k : forall s, cloop cm k (set_cache c s) = omap (set_cache c) (cloop cm k s).
Proof.
  induction k as [|k IH]; intro s; cbn [cloop]; [reflexivity|].
  rewrite cterm_cache. destruct (cterm cm s) as [r s1|s1|w]; cbn [omap]; try reflexivity.
  rewrite msw_cache. apply IH.
Qed.

Lemma mprec_cache c f s : mprec f (set_cache c s) = omap (set_cache c) (mprec f s).
Proof.
  unfold mprec. rewrite msw_cache. set (s1 := maybe_skip_ws input s).
  cbn [skipws pos cpos set_cache in_cmt].
  destruct (if skipws s1 then lookup (pos s1) (cpos s1) else None); [reflexivity|].
  destruct (in_cmt s1); [reflexivity|].
  destruct (g_comments g) as [cm|]; [|reflexivity].
  change (set_in_cmt true (set_cache c s1)) with (set_cache c (set_in_cmt true s1)).
  rewrite cloop_cache. destruct (cloop cm f (set_in_cmt true s1)); reflexivity.
Qed.


(* ================================================================ A0: runs only extend *)
Definition rec_good (rec : parser) : Prop :=
  forall c psq s, sinv s -> good s (rec c psq s).

Section A0.
Variable rec : parser.
Hypothesis Hrec : rec_good rec.

Lemma seq_loop_good psq kids : forall acc s, sinv s -> good s (seq_loop rec psq kids acc s).
Proof.
  induction kids as [|c kids IH]; intros acc s C; cbn [seq_loop].
  - now apply good_ok0.
  - pose proof (Hrec c psq s C) as G. destruct (rec c psq s) as [r s1|s1|w]; cbn in G; auto.
    destruct G as [D C1]. eapply good_trans; [exact D | apply IH; exact C1].
Qed.

Lemma choice_loop_good cp kids : forall s, sinv s -> good s (choice_loop rec cp kids s).
Proof.
  induction kids as [|c kids IH]; intros s C; cbn [choice_loop].
  - now apply good_ok0.
  - pose proof (Hrec c false s C) as G. destruct (rec c false s) as [r s1|s1|w]; cbn in G; auto.
    + destruct G as [D C1]. destruct (is_none r).
      * eapply good_trans; [exact D | apply IH; exact C1].
      * split; assumption.
    + destruct G as [D C1]. eapply good_trans; [exact D|]. apply good_pos_l_inv with (p := cp).
      apply IH. exact C1.
Qed.

Lemma rep_loop_good e sep plus k : forall first acc s,
  sinv s -> good s (rep_loop rec e sep plus k first acc s).
Proof.
  induction k as [|k IH]; intros first acc s C; cbn [rep_loop]; [exact I|].
  assert (Helem : forall acc1 s1, dom s s1 -> sinv s1 ->
            good s (match rec e false s1 with
                    | Ok r s2 => if truthy r then rep_loop rec e sep plus k false (acc1 ++ [r]) s2
                                 else Ok (RList acc1) s2
                    | Fail s2 => if (plus && first)%bool then Fail (set_pos (pos s) s2)
                                 else Ok (RList acc1) (set_pos (pos s) s2)
                    | Abort w => Abort w end)).
  { intros acc1 s1 D1 C1. pose proof (Hrec e false s1 C1) as G.
    destruct (rec e false s1) as [r s2|s2|w]; cbn in G; auto; destruct G as [D2 C2].
    - destruct (truthy r).
      + eapply good_trans; [eapply dom_trans; eassumption | apply IH; exact C2].
      + split; [eapply dom_trans; eassumption | exact C2].
    - destruct (plus && first)%bool; (split; [apply dom_set_pos_r; eapply dom_trans; eassumption | exact C2]). }
  destruct sep as [sp|]; [|apply Helem; [apply dom_refl | exact C]].
  destruct first; [apply Helem; [apply dom_refl | exact C]|].
  pose proof (Hrec sp false s C) as G. destruct (rec sp false s) as [sr s1|s1|w]; cbn in G; auto.
  - destruct G as [D1 C1]. apply Helem; assumption.
  - destruct G as [D1 C1]. rewrite andb_false_r. split; [now apply dom_set_pos_r | exact C1].
Qed.

Definition ugr_good (s : st) (o : ugr) : Prop :=
  match o with UGHit _ _ s1 | UGNone _ s1 => dom s s1 /\ sinv s1 | UGAbort _ => True end.

Lemma ug_try_good sf cl todo : forall mt s, sinv s -> ugr_good s (ug_try rec sf cl todo mt s).
Proof.
  induction todo as [|e todo IH]; intros mt s C; cbn [ug_try].
  - split; [apply dom_refl | exact C].
  - pose proof (Hrec e false s C) as G. destruct (rec e false s) as [r s1|s1|w]; cbn in G; auto;
      destruct G as [D1 C1].
    + assert (T : forall o, ugr_good s1 o -> ugr_good s o).
      { intros o. destruct o; cbn; auto; intros [D2 C2]; split; eauto using dom_trans. }
      destruct (truthy r); [destruct sf|].
      * apply T. specialize (IH false (set_pos cl s1) C1).
        destruct (ug_try rec true cl todo false (set_pos cl s1)); cbn in *; auto;
          destruct IH; split; eauto using dom_set_pos_l_inv.
      * split; assumption.
      * apply T, IH, C1.
    + specialize (IH false (set_pos cl s1) C1).
      destruct (ug_try rec sf cl todo false (set_pos cl s1)); cbn in *; auto;
        destruct IH as [D2 C2]; split; eauto using dom_trans, dom_set_pos_l_inv.
Qed.

Definition ugo_good (s : st) (o : ugo) : Prop :=
  match o with UGDone _ _ s1 => dom s s1 /\ sinv s1 | UGOAbort _ => True end.

Lemma ug_loop_good sep n : forall todo first sr acc s,
  sinv s -> ugo_good s (ug_loop rec sep n todo first sr acc s).
Proof.
  induction n as [|n IH]; intros todo first sr acc s C; destruct todo as [|t0 todo];
    cbn [ug_loop]; try (split; [apply dom_refl | exact C]); try exact I.
  assert (T : forall s1 o, dom s s1 -> ugo_good s1 o -> ugo_good s o).
  { intros s1 o D1. destruct o; cbn; auto; intros [D2 C2]; split; eauto using dom_trans. }
  assert (Hcont : forall sf sr1 s1, dom s s1 -> sinv s1 ->
            ugo_good s (match ug_try rec sf (pos s1) (t0 :: todo) true s1 with
                        | UGHit e r s2 => ug_loop rec sep n (remove_first e (t0 :: todo)) false sr1
                                            ((if truthy sr1 then acc ++ [sr1] else acc) ++ [r]) s2
                        | UGNone mt s2 => UGDone mt acc (set_pos (pos s) s2)
                        | UGAbort w => UGOAbort w end)).
  { intros sf sr1 s1 D1 C1. pose proof (ug_try_good sf (pos s1) (t0 :: todo) true s1 C1) as G.
    destruct (ug_try rec sf (pos s1) (t0 :: todo) true s1); cbn in G; auto; destruct G as [D2 C2].
    - eapply T; [eapply dom_trans; eassumption | apply IH; exact C2].
    - split; [apply dom_set_pos_r; eapply dom_trans; eassumption | exact C2]. }
  destruct sep as [sp|]; [|apply Hcont; [apply dom_refl | exact C]].
  destruct first; [apply Hcont; [apply dom_refl | exact C]|].
  pose proof (Hrec sp false s C) as G. destruct (rec sp false s) as [sr1 s1|s1|w]; cbn in G; auto;
    destruct G as [D1 C1].
  - apply Hcont; assumption.
  - specialize (Hcont true sr (set_pos (pos s) s1) (dom_set_pos_r _ _ _ D1) C1). exact Hcont.
Qed.

End A0.


Lemma enter_ws_id nd s : n_ws nd = None -> n_skipws nd = None -> enter_ws nd s = s.
Proof. intros A B. unfold enter_ws. now rewrite A, B. Qed.
Lemma leave_ws_id nd old s : n_ws nd = None -> n_skipws nd = None -> leave_ws nd old s = s.
Proof. intros A B. unfold leave_ws. now rewrite A, B. Qed.
Lemma enter_eol_id nd s : n_eolterm nd = false -> enter_eol nd s = s.
Proof. intros A. unfold enter_eol. now rewrite A. Qed.
Lemma leave_eol_id nd old s : n_eolterm nd = false -> leave_eol nd old s = s.
Proof. intros A. unfold leave_eol. now rewrite A. Qed.

(* body with the context bookkeeping removed (valid for context-constant grammars) *)
Definition body0 (rec : parser) (k : nat) (nd : node) (s : st) : out :=
  let c_pos := pos s in
  match n_kind nd with
  | KSeq =>
    match seq_loop rec true (n_kids nd) [] s with
    | Ok (RList []) s1 => Ok RNone s1
    | Ok r s1 => Ok r s1
    | Fail s1 => Fail (set_pos c_pos s1)
    | Abort w => Abort w
    end
  | KChoice =>
    match choice_loop rec c_pos (n_kids nd) s with
    | Ok r s1 => if is_none r then nm_raise c_pos s1 else Ok (RList [r]) s1
    | Fail s1 => Fail s1
    | Abort w => Abort w
    end
  | KOpt =>
    match n_kids nd with
    | e :: _ =>
      match rec e false s with
      | Ok r s1 => Ok (RList [r]) s1
      | Fail s1 => Ok RNone (set_pos c_pos s1)
      | Abort w => Abort w
      end
    | [] => Abort 1
    end
  | KStar =>
    match n_kids nd with
    | e :: _ => rep_loop rec e (n_sep nd) false k true [] s
    | [] => Abort 1
    end
  | KPlus =>
    match n_kids nd with
    | e :: _ => rep_loop rec e (n_sep nd) true k true [] s
    | [] => Abort 1
    end
  | KUnord =>
    match n_kids nd with
    | [] => Abort 1
    | _ :: _ =>
      match ug_loop rec (n_sep nd) (S (length (n_kids nd))) (n_kids nd) true RNone [] s with
      | UGDone mt acc s1 =>
        if mt then Ok (match acc with [] => RNone | _ => RList acc end) s1
        else nm_raise c_pos (set_pos c_pos s1)
      | UGOAbort w => Abort w
      end
    end
  | KAnd =>
    match seq_loop rec false (n_kids nd) [] s with
    | Ok _ s1 => Ok RNone (set_pos c_pos s1)
    | Fail s1 => Fail (set_pos c_pos s1)
    | Abort w => Abort w
    end
  | KNot =>
    match seq_loop rec false (n_kids nd) [] s with
    | Ok _ s1 => nm_raise c_pos (set_pos c_pos s1)
    | Fail s1 => Ok RNone (set_pos c_pos s1)
    | Abort w => Abort w
    end
  | KEmpty => Ok RNone s
  | _ => Abort 1
  end.

Lemma body_eq rec k nid nd s : get_node g nid = Some nd -> body rec k nd s = body0 rec k nd s.
Proof.
  intro Hn. destruct (node_free _ _ Hn) as (A & B & C). unfold body, body0.
  rewrite !enter_ws_id, !enter_eol_id by assumption.
  destruct (n_kind nd); try reflexivity.
  - destruct (seq_loop rec true (n_kids nd) [] s) as [r s1|s1|w]; try reflexivity;
      rewrite !leave_ws_id by assumption; reflexivity.
  - destruct (choice_loop rec (pos s) (n_kids nd) s) as [r s1|s1|w]; try reflexivity;
      rewrite !leave_ws_id by assumption; reflexivity.
  - destruct (n_kids nd); [reflexivity|].
    destruct (rep_loop rec n (n_sep nd) false k true [] s); try reflexivity;
      rewrite !leave_eol_id by assumption; reflexivity.
  - destruct (n_kids nd); [reflexivity|].
    destruct (rep_loop rec n (n_sep nd) true k true [] s); try reflexivity;
      rewrite !leave_eol_id by assumption; reflexivity.
  - destruct (n_kids nd) eqn:E; [reflexivity|]. rewrite <- E.
    destruct (ug_loop rec (n_sep nd) (S (length (n_kids nd))) (n_kids nd) true RNone [] s); try reflexivity.
    rewrite !leave_eol_id by assumption. reflexivity.
Qed.

Lemma body0_good rec k nd s : rec_good rec -> sinv s -> good s (body0 rec k nd s).
Proof.
  intros Hrec C. unfold body0. destruct (n_kind nd); try exact I.
  - pose proof (seq_loop_good rec Hrec true (n_kids nd) [] s C) as G.
    destruct (seq_loop rec true (n_kids nd) [] s) as [r s1|s1|w]; cbn in G; auto; destruct G as [D1 C1].
    + destruct r as [|t|[|x l]]; split; assumption.
    + split; [now apply dom_set_pos_r | assumption].
  - pose proof (choice_loop_good rec Hrec (pos s) (n_kids nd) s C) as G.
    destruct (choice_loop rec (pos s) (n_kids nd) s) as [r s1|s1|w]; cbn in G; auto; destruct G as [D1 C1].
    destruct (is_none r); [eapply good_trans; [exact D1 | now apply good_raise] | split; assumption].
  - destruct (n_kids nd) as [|e l]; [exact I|].
    pose proof (Hrec e false s C) as G. destruct (rec e false s) as [r s1|s1|w]; cbn in G; auto;
      destruct G as [D1 C1]; split; auto using dom_set_pos_r.
  - destruct (n_kids nd) as [|e l]; [exact I|]. now apply rep_loop_good.
  - destruct (n_kids nd) as [|e l]; [exact I|]. now apply rep_loop_good.
  - destruct (n_kids nd) as [|e l] eqn:E; [exact I|]. rewrite <- E.
    pose proof (ug_loop_good rec Hrec (n_sep nd) (S (length (n_kids nd))) (n_kids nd) true RNone [] s C) as G.
    destruct (ug_loop rec (n_sep nd) (S (length (n_kids nd))) (n_kids nd) true RNone [] s); cbn in G; auto.
    destruct G as [D1 C1]. destruct mt; [split; assumption|].
    eapply good_trans; [apply dom_set_pos_r; exact D1 | now apply good_raise].
  - pose proof (seq_loop_good rec Hrec false (n_kids nd) [] s C) as G.
    destruct (seq_loop rec false (n_kids nd) [] s) as [r s1|s1|w]; cbn in G; auto; destruct G as [D1 C1];
      split; auto using dom_set_pos_r.
  - pose proof (seq_loop_good rec Hrec false (n_kids nd) [] s C) as G.
    destruct (seq_loop rec false (n_kids nd) [] s) as [r s1|s1|w]; cbn in G; auto; destruct G as [D1 C1].
    + eapply good_trans; [apply dom_set_pos_r; exact D1 | now apply good_raise].
    + split; auto using dom_set_pos_r.
  - now apply good_ok0.
Qed.

Lemma parse_good fuel : rec_good (parse g input orc false fuel).
Proof.
  induction fuel as [|f IH]; intros nid psq s C; cbn [parse]; [exact I|].
  destruct (get_node g nid) as [nd|] eqn:Hn; [|exact I].
  destruct (is_match_kind (n_kind nd)).
  - rewrite match_pre_eq. pose proof (mprec_good f s C) as G0.
    destruct (mprec f s) as [r0 s0|s0|w0]; cbn in G0 |- *; auto. destruct G0 as [D1 C1].
    pose proof (term_good nid (n_kind nd) psq s0 C1) as G.
    destruct (term_parse input orc nid (n_kind nd) psq s0); cbn in G |- *; auto;
      destruct G as [D2 C2]; split; eauto using dom_trans.
  - cbn. rewrite (body_eq _ _ _ _ _ Hn).
    pose proof (body0_good (parse g input orc false f) f nd s IH C) as G.
    destruct (body0 (parse g input orc false f) f nd s); cbn in G |- *; auto;
      destruct G as [D1 C1]; split; auto using dom_set_pos_r.
Qed.


(* ================================================================ A: re-running is idempotent *)

Definition rec_rerun (rec rec' : parser) : Prop :=
  forall c psq s s', sinv s -> sinv s' ->
    is_abort (rec c psq s) = false -> dom (ostate s (rec c psq s)) s' -> pos s' = pos s ->
    rerun_ok (rec c psq s) s' (rec' c psq s').

Lemma na_ostate d d' o : is_abort o = false -> ostate d o = ostate d' o.
Proof. destruct o; cbn; congruence. Qed.
Lemma good_na s o d : good s o -> is_abort o = false -> dom s (ostate d o) /\ sinv (ostate d o).
Proof. destruct o; cbn; auto; discriminate. Qed.
Lemma rerun_ok_pos p o s' o' : rerun_ok o (set_pos p s') o' -> rerun_ok o s' o'.
Proof.
  intros [A|E]; [left; exact A | right]. rewrite E. destruct o; cbn; now rewrite ?set_pos_set_pos.
Qed.
Lemma rerun_same o s : pos s = pos (ostate s o) -> rerun_ok o s (omap (fun _ => s) o).
Proof. intro P. right. destruct o; cbn in *; try reflexivity; now rewrite <- P, set_pos_same. Qed.

Ltac ab A := match type of A with is_abort ?x = true => destruct x; try discriminate A; now left end.

Section A1.
Variables rec rec' : parser.
Hypothesis Hg : rec_good rec.
Hypothesis Hrr : rec_rerun rec rec'.

(* one child call: either the re-run aborts, or it returns the same result with only the position moved *)
Lemma call_rerun c psq s s' sf :
  sinv s -> sinv s' -> pos s' = pos s ->
  is_abort (rec c psq s) = false ->
  dom (ostate s (rec c psq s)) sf -> dom sf s' ->
  is_abort (rec' c psq s') = true \/
  rec' c psq s' = omap (fun s1 => set_pos (pos s1) s') (rec c psq s).
Proof.
  intros C C' P NA D1 D2. apply Hrr; auto. eapply dom_trans; eassumption.
Qed.

Lemma seq_loop_rerun psq kids : forall acc s s',
  sinv s -> sinv s' ->
  is_abort (seq_loop rec psq kids acc s) = false ->
  dom (ostate s (seq_loop rec psq kids acc s)) s' -> pos s' = pos s ->
  rerun_ok (seq_loop rec psq kids acc s) s' (seq_loop rec' psq kids acc s').
Proof.
  induction kids as [|c kids IH]; intros acc s s' C C' NA D P; cbn [seq_loop] in *.
  - right. cbn. now rewrite <- P, set_pos_same.
  - pose proof (Hg c psq s C) as G.
    destruct (rec c psq s) as [r s1|s1|w] eqn:E; try discriminate NA.
    + destruct G as [D1 C1].
      set (acc' := if truthy r then acc ++ [r] else acc) in *.
      pose proof (seq_loop_good rec Hg psq kids acc' s1 C1) as G2.
      destruct (good_na _ _ s1 G2 NA) as [D2 _].
      rewrite (na_ostate s s1) in D by exact NA.
      destruct (call_rerun c psq s s' s1 C C' P) as [A|Eq]; rewrite ?E; cbn; auto using dom_refl.
      { eapply dom_trans; eassumption. }
      { destruct (rec' c psq s'); try discriminate A. now left. }
      rewrite E in Eq. cbn in Eq. rewrite Eq. fold acc'.
      apply rerun_ok_pos with (p := pos s1). apply IH; auto using dom_set_pos_r.
    + destruct (call_rerun c psq s s' s1 C C' P) as [A|Eq]; rewrite ?E; cbn; auto using dom_refl.
      { destruct (rec' c psq s'); try discriminate A. now left. }
      rewrite E in Eq. cbn in Eq. rewrite Eq. now right.
Qed.


Lemma call_ok c psq s s' r s1 :
  rec c psq s = Ok r s1 -> sinv s -> sinv s' -> pos s' = pos s -> dom s1 s' ->
  is_abort (rec' c psq s') = true \/ rec' c psq s' = Ok r (set_pos (pos s1) s').
Proof.
  intros E C C' P D. pose proof (Hrr c psq s s' C C') as R. rewrite E in R. cbn in R. now apply R.
Qed.
Lemma call_fail c psq s s' s1 :
  rec c psq s = Fail s1 -> sinv s -> sinv s' -> pos s' = pos s -> dom s1 s' ->
  is_abort (rec' c psq s') = true \/ rec' c psq s' = Fail (set_pos (pos s1) s').
Proof.
  intros E C C' P D. pose proof (Hrr c psq s s' C C') as R. rewrite E in R. cbn in R. now apply R.
Qed.


Lemma choice_loop_rerun cp kids : forall s s',
  sinv s -> sinv s' ->
  is_abort (choice_loop rec cp kids s) = false ->
  dom (ostate s (choice_loop rec cp kids s)) s' -> pos s' = pos s ->
  rerun_ok (choice_loop rec cp kids s) s' (choice_loop rec' cp kids s').
Proof.
  induction kids as [|c kids IH]; intros s s' C C' NA D P; cbn [choice_loop] in *.
  - right. cbn. now rewrite <- P, set_pos_same.
  - pose proof (Hg c false s C) as G.
    destruct (rec c false s) as [r s1|s1|w] eqn:E; try discriminate NA; destruct G as [D1 C1].
    + destruct (is_none r) eqn:N.
      * pose proof (choice_loop_good rec Hg cp kids s1 C1) as G2.
        destruct (good_na _ _ s1 G2 NA) as [D2 _].
        rewrite (na_ostate s s1) in D by exact NA.
        destruct (call_ok c false s s' r s1 E C C' P) as [A|Eq]; [eapply dom_trans; eassumption | ab A |].
        rewrite Eq, N. apply rerun_ok_pos with (p := pos s1). apply IH; auto using dom_set_pos_r.
      * cbn in D. destruct (call_ok c false s s' r s1 E C C' P D) as [A|Eq]; [ab A|].
        rewrite Eq, N. now right.
    + pose proof (choice_loop_good rec Hg cp kids (set_pos cp s1) C1) as G2.
      destruct (good_na _ _ s1 G2 NA) as [D2 _]. apply dom_set_pos_l_inv in D2.
      rewrite (na_ostate s s1) in D by exact NA.
      destruct (call_fail c false s s' s1 E C C' P) as [A|Eq]; [eapply dom_trans; eassumption | ab A |].
      rewrite Eq, set_pos_set_pos. apply rerun_ok_pos with (p := cp).
      apply IH; auto using dom_set_pos_r.
      rewrite (na_ostate _ s1) by exact NA. now apply dom_set_pos_r.
Qed.

Lemma rep_loop_rerun e sep plus k : forall k' first acc s s',
  sinv s -> sinv s' ->
  is_abort (rep_loop rec e sep plus k first acc s) = false ->
  dom (ostate s (rep_loop rec e sep plus k first acc s)) s' -> pos s' = pos s ->
  rerun_ok (rep_loop rec e sep plus k first acc s) s' (rep_loop rec' e sep plus k' first acc s').
Proof.
  induction k as [|k IH]; intros k' first acc s s' C C' NA D P; cbn [rep_loop] in *; [discriminate NA|].
  destruct k' as [|k']; [now left|]. cbn [rep_loop]. rewrite P.
  set (elem := fun (rc : parser) (kk : nat) (acc1 : list res) (s1 : st) =>
        match rc e false s1 with
        | Ok r s2 => if truthy r then rep_loop rc e sep plus kk false (acc1 ++ [r]) s2
                     else Ok (RList acc1) s2
        | Fail s2 => if (plus && first)%bool then Fail (set_pos (pos s) s2)
                     else Ok (RList acc1) (set_pos (pos s) s2)
        | Abort w => Abort w
        end).
  assert (Helem : forall acc1 s1 s1', sinv s1 -> sinv s1' -> pos s1' = pos s1 ->
            is_abort (elem rec k acc1 s1) = false -> dom (ostate s1 (elem rec k acc1 s1)) s1' ->
            rerun_ok (elem rec k acc1 s1) s1' (elem rec' k' acc1 s1')).
  { intros acc1 s1 s1' C1 C1' P1 NA1 D1. unfold elem in *.
    pose proof (Hg e false s1 C1) as G.
    destruct (rec e false s1) as [r s2|s2|w] eqn:E; try discriminate NA1; destruct G as [D2 C2].
    - destruct (truthy r) eqn:T.
      + pose proof (rep_loop_good rec Hg e sep plus k false (acc1 ++ [r]) s2 C2) as G2.
        destruct (good_na _ _ s2 G2 NA1) as [D3 _].
        rewrite (na_ostate s1 s2) in D1 by exact NA1.
        destruct (call_ok e false s1 s1' r s2 E C1 C1' P1) as [A|Eq]; [eapply dom_trans; eassumption | ab A |].
        rewrite Eq, T. apply rerun_ok_pos with (p := pos s2). apply IH; auto using dom_set_pos_r.
      + cbn in D1. destruct (call_ok e false s1 s1' r s2 E C1 C1' P1 D1) as [A|Eq]; [ab A|].
        rewrite Eq, T. now right.
    - assert (Ds : dom s2 s1').
      { destruct (plus && first)%bool; cbn in D1; now apply dom_set_pos_l_inv in D1. }
      destruct (call_fail e false s1 s1' s2 E C1 C1' P1 Ds) as [A|Eq]; [ab A|].
      rewrite Eq. destruct (plus && first)%bool; right; cbn; now rewrite set_pos_set_pos. }
  fold (elem rec k) in NA, D |- *. fold (elem rec' k').
  destruct sep as [sp|]; [|now apply Helem].
  destruct first; [now apply Helem|].
  pose proof (Hg sp false s C) as G.
  destruct (rec sp false s) as [sr s1|s1|w] eqn:E; try discriminate NA; destruct G as [D1 C1].
  - set (acc1 := if truthy sr then acc ++ [sr] else acc) in *.
    assert (G2 : good s1 (elem rec k acc1 s1)).
    { unfold elem. pose proof (Hg e false s1 C1) as G3.
      destruct (rec e false s1) as [r s2|s2|w]; cbn in G3 |- *; auto; destruct G3 as [D3 C3].
      - destruct (truthy r); [|split; assumption].
        eapply good_trans; [exact D3 | now apply rep_loop_good].
      - destruct (plus && false)%bool; split; auto using dom_set_pos_r. }
    destruct (good_na _ _ s1 G2 NA) as [D2 _].
    rewrite (na_ostate s s1) in D by exact NA.
    destruct (call_ok sp false s s' sr s1 E C C' P) as [A|Eq]; [eapply dom_trans; eassumption | ab A |].
    rewrite Eq. fold acc1. apply rerun_ok_pos with (p := pos s1).
    apply Helem; auto using dom_set_pos_r.
  - rewrite andb_false_r in *. cbn in D. apply dom_set_pos_l_inv in D.
    destruct (call_fail sp false s s' s1 E C C' P D) as [A|Eq]; [ab A|].
    rewrite Eq. right. cbn. now rewrite set_pos_set_pos.
Qed.



Definition ugr_abort (o : ugr) : bool := match o with UGAbort _ => true | _ => false end.
Definition ugr_state (d : st) (o : ugr) : st := match o with UGHit _ _ s | UGNone _ s => s | UGAbort _ => d end.
Definition ugr_map (f : st -> st) (o : ugr) : ugr :=
  match o with UGHit e r s => UGHit e r (f s) | UGNone mt s => UGNone mt (f s) | UGAbort w => UGAbort w end.
Definition ugr_rerun_ok (o : ugr) (s' : st) (o' : ugr) : Prop :=
  ugr_abort o' = true \/ o' = ugr_map (fun s1 => set_pos (pos s1) s') o.
Lemma ugr_rerun_ok_pos p o s' o' : ugr_rerun_ok o (set_pos p s') o' -> ugr_rerun_ok o s' o'.
Proof.
  intros [A|E]; [left; exact A | right]. rewrite E. destruct o; cbn; now rewrite ?set_pos_set_pos.
Qed.
Lemma ugr_good_na s o d : ugr_good s o -> ugr_abort o = false ->
  dom s (ugr_state d o) /\ sinv (ugr_state d o).
Proof. destruct o; cbn; auto; discriminate. Qed.
Lemma ugr_na_state d d' o : ugr_abort o = false -> ugr_state d o = ugr_state d' o.
Proof. destruct o; cbn; congruence. Qed.

Ltac abu A := match type of A with is_abort ?x = true => destruct x; try discriminate A; now left end.

Lemma ug_try_rerun sf cl todo : forall mt s s',
  sinv s -> sinv s' ->
  ugr_abort (ug_try rec sf cl todo mt s) = false ->
  dom (ugr_state s (ug_try rec sf cl todo mt s)) s' -> pos s' = pos s ->
  ugr_rerun_ok (ug_try rec sf cl todo mt s) s' (ug_try rec' sf cl todo mt s').
Proof.
  induction todo as [|e todo IH]; intros mt s s' C C' NA D P; cbn [ug_try] in *.
  - right. cbn. now rewrite <- P, set_pos_same.
  - pose proof (Hg e false s C) as G.
    destruct (rec e false s) as [r s1|s1|w] eqn:E; try discriminate NA; destruct G as [D1 C1].
    + destruct (truthy r) eqn:T; [destruct sf|].
      * pose proof (ug_try_good rec Hg true cl todo false (set_pos cl s1) C1) as G2.
        destruct (ugr_good_na _ _ s1 G2 NA) as [D2 _]. apply dom_set_pos_l_inv in D2.
        rewrite (ugr_na_state s s1) in D by exact NA.
        destruct (call_ok e false s s' r s1 E C C' P) as [A|Eq]; [eapply dom_trans; eassumption | abu A |].
        rewrite Eq, T, set_pos_set_pos. apply ugr_rerun_ok_pos with (p := cl).
        apply IH; auto using dom_set_pos_r.
        rewrite (ugr_na_state _ s1) by exact NA. now apply dom_set_pos_r.
      * cbn in D. destruct (call_ok e false s s' r s1 E C C' P D) as [A|Eq]; [abu A|].
        rewrite Eq, T. now right.
      * pose proof (ug_try_good rec Hg sf cl todo mt s1 C1) as G2.
        destruct (ugr_good_na _ _ s1 G2 NA) as [D2 _].
        rewrite (ugr_na_state s s1) in D by exact NA.
        destruct (call_ok e false s s' r s1 E C C' P) as [A|Eq]; [eapply dom_trans; eassumption | abu A |].
        rewrite Eq, T. apply ugr_rerun_ok_pos with (p := pos s1). apply IH; auto using dom_set_pos_r.
    + pose proof (ug_try_good rec Hg sf cl todo false (set_pos cl s1) C1) as G2.
      destruct (ugr_good_na _ _ s1 G2 NA) as [D2 _]. apply dom_set_pos_l_inv in D2.
      rewrite (ugr_na_state s s1) in D by exact NA.
      destruct (call_fail e false s s' s1 E C C' P) as [A|Eq]; [eapply dom_trans; eassumption | abu A |].
      rewrite Eq, set_pos_set_pos. apply ugr_rerun_ok_pos with (p := cl).
      apply IH; auto using dom_set_pos_r.
      rewrite (ugr_na_state _ s1) by exact NA. now apply dom_set_pos_r.
Qed.

Definition ugo_abort (o : ugo) : bool := match o with UGOAbort _ => true | _ => false end.
Definition ugo_state (d : st) (o : ugo) : st := match o with UGDone _ _ s => s | UGOAbort _ => d end.
Definition ugo_map (f : st -> st) (o : ugo) : ugo :=
  match o with UGDone mt acc s => UGDone mt acc (f s) | UGOAbort w => UGOAbort w end.
Definition ugo_rerun_ok (o : ugo) (s' : st) (o' : ugo) : Prop :=
  ugo_abort o' = true \/ o' = ugo_map (fun s1 => set_pos (pos s1) s') o.
Lemma ugo_rerun_ok_pos p o s' o' : ugo_rerun_ok o (set_pos p s') o' -> ugo_rerun_ok o s' o'.
Proof.
  intros [A|E]; [left; exact A | right]. rewrite E. destruct o; cbn; now rewrite ?set_pos_set_pos.
Qed.
Lemma ugo_good_na s o d : ugo_good s o -> ugo_abort o = false ->
  dom s (ugo_state d o) /\ sinv (ugo_state d o).
Proof. destruct o; cbn; auto; discriminate. Qed.
Lemma ugo_good_trans s s1 o : dom s s1 -> ugo_good s1 o -> ugo_good s o.
Proof. intros D. destruct o; cbn; auto; intros [D2 C2]; split; eauto using dom_trans. Qed.
Lemma ugo_na_state d d' o : ugo_abort o = false -> ugo_state d o = ugo_state d' o.
Proof. destruct o; cbn; congruence. Qed.

Lemma ug_loop_rerun sep n : forall todo first sr acc s s',
  sinv s -> sinv s' ->
  ugo_abort (ug_loop rec sep n todo first sr acc s) = false ->
  dom (ugo_state s (ug_loop rec sep n todo first sr acc s)) s' -> pos s' = pos s ->
  ugo_rerun_ok (ug_loop rec sep n todo first sr acc s) s' (ug_loop rec' sep n todo first sr acc s').
Proof.
  induction n as [|n IH]; intros todo first sr acc s s' C C' NA D P; destruct todo as [|t0 todo];
    cbn [ug_loop] in *; try discriminate NA; try (right; cbn; now rewrite <- P, set_pos_same).
  set (cont := fun (rc : parser) (cs : nat) (sf : bool) (sr1 : res) (s1 : st) =>
        match ug_try rc sf (pos s1) (t0 :: todo) true s1 with
        | UGHit e r s2 => ug_loop rc sep n (remove_first e (t0 :: todo)) false sr1
                            ((if truthy sr1 then acc ++ [sr1] else acc) ++ [r]) s2
        | UGNone mt s2 => UGDone mt acc (set_pos cs s2)
        | UGAbort w => UGOAbort w
        end).
  assert (Gcont : forall cs sf sr1 s1, sinv s1 -> ugo_good s1 (cont rec cs sf sr1 s1)).
  { intros cs sf sr1 s1 C1. unfold cont.
    pose proof (ug_try_good rec Hg sf (pos s1) (t0 :: todo) true s1 C1) as G.
    destruct (ug_try rec sf (pos s1) (t0 :: todo) true s1) as [e r s2|mt s2|w]; cbn in G |- *; auto;
      destruct G as [D2 C2].
    - eapply ugo_good_trans; [exact D2 | now apply ug_loop_good].
    - split; auto using dom_set_pos_r. }
  assert (Hcont : forall cs sf sr1 s1 s1', sinv s1 -> sinv s1' -> pos s1' = pos s1 ->
            ugo_abort (cont rec cs sf sr1 s1) = false -> dom (ugo_state s1 (cont rec cs sf sr1 s1)) s1' ->
            ugo_rerun_ok (cont rec cs sf sr1 s1) s1' (cont rec' cs sf sr1 s1')).
  { intros cs sf sr1 s1 s1' C1 C1' P1 NA1 D1. unfold cont in *. rewrite P1.
    pose proof (ug_try_rerun sf (pos s1) (t0 :: todo) true s1 s1' C1 C1') as R.
    pose proof (ug_try_good rec Hg sf (pos s1) (t0 :: todo) true s1 C1) as G.
    destruct (ug_try rec sf (pos s1) (t0 :: todo) true s1) as [e r s2|mt s2|w] eqn:E; try discriminate NA1;
      destruct G as [D2 C2].
    - pose proof (ug_loop_good rec Hg sep n (remove_first e (t0 :: todo)) false sr1
                    ((if truthy sr1 then acc ++ [sr1] else acc) ++ [r]) s2 C2) as G3.
      destruct (ugo_good_na _ _ s2 G3 NA1) as [D3 _].
      rewrite (ugo_na_state s1 s2) in D1 by exact NA1.
      destruct (R eq_refl (dom_trans _ _ _ D3 D1) P1) as [A|Eq].
      { destruct (ug_try rec' sf (pos s1) (t0 :: todo) true s1'); try discriminate A. now left. }
      rewrite Eq. cbn [ugr_map]. apply ugo_rerun_ok_pos with (p := pos s2).
      apply IH; auto using dom_set_pos_r.
    - cbn in D1. apply dom_set_pos_l_inv in D1.
      destruct (R eq_refl D1 P1) as [A|Eq].
      { destruct (ug_try rec' sf (pos s1) (t0 :: todo) true s1'); try discriminate A. now left. }
      rewrite Eq. cbn [ugr_map]. right. cbn. now rewrite set_pos_set_pos. }
  assert (Hplain : ugo_abort (cont rec (pos s) false sr s) = false ->
                   dom (ugo_state s (cont rec (pos s) false sr s)) s' ->
                   ugo_rerun_ok (cont rec (pos s) false sr s) s' (cont rec' (pos s') false sr s')).
  { intros NA0 D0. rewrite P. now apply Hcont. }
  destruct sep as [sp|]; [|exact (Hplain NA D)].
  destruct first; [exact (Hplain NA D)|].
  pose proof (Hg sp false s C) as G.
  destruct (rec sp false s) as [sr1 s1|s1|w] eqn:E; try discriminate NA; destruct G as [D1 C1].
  - change (ugo_abort (cont rec (pos s) false sr1 s1) = false) in NA.
    change (dom (ugo_state s (cont rec (pos s) false sr1 s1)) s') in D.
    destruct (ugo_good_na _ _ s1 (Gcont (pos s) false sr1 s1 C1) NA) as [D2 _].
    rewrite (ugo_na_state s s1) in D by exact NA.
    destruct (call_ok sp false s s' sr1 s1 E C C' P) as [A|Eq]; [eapply dom_trans; eassumption | |].
    { destruct (rec' sp false s'); try discriminate A. now left. }
    rewrite Eq. change (ugo_rerun_ok (cont rec (pos s) false sr1 s1) s' (cont rec' (pos s') false sr1 (set_pos (pos s1) s'))).
    rewrite P. apply ugo_rerun_ok_pos with (p := pos s1). apply Hcont; auto using dom_set_pos_r.
  - change (ugo_abort (cont rec (pos s) true sr (set_pos (pos s) s1)) = false) in NA.
    change (dom (ugo_state s (cont rec (pos s) true sr (set_pos (pos s) s1))) s') in D.
    destruct (ugo_good_na _ _ s1 (Gcont (pos s) true sr (set_pos (pos s) s1) C1) NA) as [D2 _].
    apply dom_set_pos_l_inv in D2.
    rewrite (ugo_na_state s s1) in D by exact NA.
    destruct (call_fail sp false s s' s1 E C C' P) as [A|Eq]; [eapply dom_trans; eassumption | |].
    { destruct (rec' sp false s'); try discriminate A. now left. }
    rewrite Eq.
    change (ugo_rerun_ok (cont rec (pos s) true sr (set_pos (pos s) s1)) s'
              (cont rec' (pos s') true sr (set_pos (pos s') (set_pos (pos s1) s')))).
    rewrite P, set_pos_set_pos. apply ugo_rerun_ok_pos with (p := pos s).
    apply Hcont; auto using dom_set_pos_r.
    rewrite (ugo_na_state _ s1) by exact NA. now apply dom_set_pos_r.
Qed.

Lemma body0_rerun k k' nd :
  (forall kk kk' first acc s s' e sep plus, sinv s -> sinv s' ->
     is_abort (rep_loop rec e sep plus kk first acc s) = false ->
     dom (ostate s (rep_loop rec e sep plus kk first acc s)) s' -> pos s' = pos s ->
     rerun_ok (rep_loop rec e sep plus kk first acc s) s' (rep_loop rec' e sep plus kk' first acc s')) ->
  forall s s', sinv s -> sinv s' ->
  is_abort (body0 rec k nd s) = false ->
  dom (ostate s (body0 rec k nd s)) s' -> pos s' = pos s ->
  rerun_ok (body0 rec k nd s) s' (body0 rec' k' nd s').
Proof.
  intros Hrep s s' C C' NA D P. unfold body0 in *. rewrite P.
  destruct (n_kind nd); try discriminate NA.
  - (* Sequence *)
    pose proof (seq_loop_rerun true (n_kids nd) [] s s' C C') as R.
    destruct (seq_loop rec true (n_kids nd) [] s) as [r s1|s1|w] eqn:E; try discriminate NA.
    + assert (D1 : dom s1 s') by (destruct r as [|t|[|x l]]; exact D).
      destruct (R eq_refl D1 P) as [A|Eq]; [ab A|]. rewrite Eq. cbn.
      right. destruct r as [|t|[|x l]]; reflexivity.
    + cbn in D. apply dom_set_pos_l_inv in D.
      destruct (R eq_refl D P) as [A|Eq]; [ab A|]. rewrite Eq. cbn. right. cbn.
      now rewrite set_pos_set_pos.
  - (* OrderedChoice *)
    pose proof (choice_loop_rerun (pos s) (n_kids nd) s s' C C') as R.
    pose proof (choice_loop_good rec Hg (pos s) (n_kids nd) s C) as G.
    destruct (choice_loop rec (pos s) (n_kids nd) s) as [r s1|s1|w] eqn:E; try discriminate NA.
    + destruct G as [D0 C1]. destruct (is_none r) eqn:N.
      * cbn in D. assert (D1 : dom s1 s') by (eapply dom_trans; [apply dom_reg_fail | exact D]).
        destruct (R eq_refl D1 P) as [A|Eq]; [ab A|]. rewrite Eq. cbn. rewrite N.
        right. unfold nm_raise. cbn.
        assert (D2 : dom (reg_fail (pos s) s1) (set_pos (pos s1) s')) by now apply dom_set_pos_r.
        rewrite (reg_fail_saturated _ _ _ D2). now rewrite pos_reg_fail.
      * cbn in D. destruct (R eq_refl D P) as [A|Eq]; [ab A|]. rewrite Eq. cbn. rewrite N. now right.
    + cbn in D. destruct (R eq_refl D P) as [A|Eq]; [ab A|]. rewrite Eq. now right.
  - (* Optional *)
    destruct (n_kids nd) as [|e l]; [discriminate NA|].
    destruct (rec e false s) as [r s1|s1|w] eqn:E; try discriminate NA.
    + cbn in D. destruct (call_ok e false s s' r s1 E C C' P D) as [A|Eq]; [ab A|]. rewrite Eq. now right.
    + cbn in D. apply dom_set_pos_l_inv in D.
      destruct (call_fail e false s s' s1 E C C' P D) as [A|Eq]; [ab A|]. rewrite Eq. right. cbn.
      now rewrite set_pos_set_pos.
  - destruct (n_kids nd) as [|e l]; [discriminate NA|]. now apply Hrep.
  - destruct (n_kids nd) as [|e l]; [discriminate NA|]. now apply Hrep.
  - (* UnorderedGroup *)
    destruct (n_kids nd) as [|e l] eqn:K; [discriminate NA|]. rewrite <- K in *.
    pose proof (ug_loop_rerun (n_sep nd) (S (length (n_kids nd))) (n_kids nd) true RNone [] s s' C C') as R.
    destruct (ug_loop rec (n_sep nd) (S (length (n_kids nd))) (n_kids nd) true RNone [] s) as [mt acc s1|w] eqn:E;
      try discriminate NA.
    destruct mt.
    + cbn in D. destruct (R eq_refl D P) as [A|Eq].
      { destruct (ug_loop rec' _ _ _ _ _ _ s'); try discriminate A. now left. }
      rewrite Eq. now right.
    + cbn in D. assert (D1 : dom s1 s').
      { eapply dom_trans; [|exact D]. eapply dom_trans; [|apply dom_reg_fail]. apply dom_set_pos_r, dom_refl. }
      destruct (R eq_refl D1 P) as [A|Eq].
      { destruct (ug_loop rec' _ _ _ _ _ _ s'); try discriminate A. now left. }
      rewrite Eq. cbn. right. unfold nm_raise. cbn. rewrite set_pos_set_pos.
      assert (D2 : dom (reg_fail (pos s) (set_pos (pos s) s1)) (set_pos (pos s) s')) by now apply dom_set_pos_r.
      rewrite (reg_fail_saturated _ _ _ D2). now rewrite pos_reg_fail.
  - (* And *)
    pose proof (seq_loop_rerun false (n_kids nd) [] s s' C C') as R.
    destruct (seq_loop rec false (n_kids nd) [] s) as [r s1|s1|w] eqn:E; try discriminate NA;
      cbn in D; apply dom_set_pos_l_inv in D;
      (destruct (R eq_refl D P) as [A|Eq]; [ab A|]); rewrite Eq; cbn; right; cbn;
      now rewrite set_pos_set_pos.
  - (* Not *)
    pose proof (seq_loop_rerun false (n_kids nd) [] s s' C C') as R.
    destruct (seq_loop rec false (n_kids nd) [] s) as [r s1|s1|w] eqn:E; try discriminate NA.
    + cbn in D. assert (D1 : dom s1 s').
      { eapply dom_trans; [|exact D]. eapply dom_trans; [|apply dom_reg_fail]. apply dom_set_pos_r, dom_refl. }
      destruct (R eq_refl D1 P) as [A|Eq]; [ab A|]. rewrite Eq. cbn. right. unfold nm_raise. cbn.
      rewrite set_pos_set_pos.
      assert (D2 : dom (reg_fail (pos s) (set_pos (pos s) s1)) (set_pos (pos s) s')) by now apply dom_set_pos_r.
      rewrite (reg_fail_saturated _ _ _ D2). now rewrite pos_reg_fail.
    + cbn in D. apply dom_set_pos_l_inv in D.
      destruct (R eq_refl D P) as [A|Eq]; [ab A|]. rewrite Eq. cbn. right. cbn. now rewrite set_pos_set_pos.
  - right. cbn. now rewrite <- P, set_pos_same.
Qed.

End A1.


Lemma parse_rerun f : forall f', rec_rerun (parse g input orc false f) (parse g input orc false f').
Proof.
  induction f as [|f IH]; intros f' nid psq s s' C C' NA D P; cbn [parse] in *; [discriminate NA|].
  destruct f' as [|f']; [now left|]. cbn [parse].
  destruct (get_node g nid) as [nd|] eqn:Hn; [|discriminate NA].
  destruct (is_match_kind (n_kind nd)) eqn:MK.
  - rewrite !match_pre_eq in *.
    pose proof (mprec_good f s C) as G0. pose proof (mprec_rerun f f' s s' C C') as R0.
    destruct (mprec f s) as [r0 s0|s0|w0] eqn:E0; try discriminate NA.
    + destruct G0 as [D1 C1].
      pose proof (term_good nid (n_kind nd) psq s0 C1) as G.
      pose proof (term_rerun nid (n_kind nd) psq s0 (set_pos (pos s0) s')) as R.
      destruct (term_parse input orc nid (n_kind nd) psq s0) as [r s1|s1|w] eqn:E;
        try discriminate NA; destruct G as [D2 C2]; cbn in D;
        (assert (Dm : dom s0 s') by (eapply dom_trans; eassumption));
        (destruct (R0 eq_refl Dm P) as [A0|Eq0]; [ab A0|]); rewrite Eq0; cbn [omap];
        rewrite (R eq_refl (dom_set_pos_r _ _ _ D) eq_refl); cbn; right; cbn; now rewrite set_pos_set_pos.
    + cbn in D. destruct (R0 eq_refl D P) as [A0|Eq0]; [ab A0|]. rewrite Eq0. now right.
  - cbn in *.
    rewrite !(body_eq _ _ _ _ _ Hn) in *. rewrite P.
    pose proof (body0_rerun (parse g input orc false f) (parse g input orc false f') (parse_good f) (IH f') f f' nd) as R.
    assert (Hrep : forall kk kk' first acc s s' e sep plus, sinv s -> sinv s' ->
       is_abort (rep_loop (parse g input orc false f) e sep plus kk first acc s) = false ->
       dom (ostate s (rep_loop (parse g input orc false f) e sep plus kk first acc s)) s' -> pos s' = pos s ->
       rerun_ok (rep_loop (parse g input orc false f) e sep plus kk first acc s) s'
                (rep_loop (parse g input orc false f') e sep plus kk' first acc s')).
    { intros. apply rep_loop_rerun; auto using parse_good. }
    specialize (R Hrep s s' C C').
    destruct (body0 (parse g input orc false f) f nd s) as [r s1|s1|w] eqn:E; try discriminate NA; cbn in D.
    + destruct (R eq_refl D P) as [A|Eq]; [ab A|]. rewrite Eq. now right.
    + apply dom_set_pos_l_inv in D.
      destruct (R eq_refl D P) as [A|Eq]; [ab A|]. rewrite Eq. right. cbn. now rewrite set_pos_set_pos.
Qed.


(* ================================================================ S: simulation memo / no-memo *)
Notation cache_t := (list ((nat * nat) * (cres * nat))) (only parsing).

Definition expected (cr : cres) (np : nat) (s' : st) : out :=
  match cr with CNoMatch => Fail (set_pos np s') | CRes r => Ok r (set_pos np s') end.

(* a cache entry is what the un-memoized interpreter returns at that position, from any later state *)
Definition valid (nid p : nat) (cr : cres) (np : nat) (s : st) : Prop :=
  forall fuel psq s', sinv s' -> dom s s' -> pos s' = p ->
    is_abort (parse g input orc false fuel nid psq s') = true \/
    parse g input orc false fuel nid psq s' = expected cr np s'.

Definition INV (c : cache_t) (s : st) : Prop :=
  forall nid p cr np, clookup nid p c = Some (cr, np) -> valid nid p cr np s.

Lemma INV_mono c s s2 : dom s s2 -> INV c s -> INV c s2.
Proof.
  intros D I nid p cr np L fuel psq s' C' D' P'. apply (I nid p cr np L); auto. eapply dom_trans; eassumption.
Qed.

Definition rec_sim (recN recM : parser) : Prop :=
  forall c psq (cch : cache_t) sn, sinv sn -> INV cch sn ->
    is_abort (recN c psq sn) = false ->
    exists cch', recM c psq (set_cache cch sn) = omap (set_cache cch') (recN c psq sn)
                 /\ INV cch' (ostate sn (recN c psq sn)).

Section S1.
Variables recN recM : parser.
Hypothesis Hg : rec_good recN.
Hypothesis Hs : rec_sim recN recM.

Lemma sim_ok c psq (cch : cache_t) s r s1 :
  recN c psq s = Ok r s1 -> sinv s -> INV cch s ->
  exists cch', recM c psq (set_cache cch s) = Ok r (set_cache cch' s1) /\ INV cch' s1 /\ sinv s1 /\ dom s s1.
Proof.
  intros E C I. pose proof (Hs c psq cch s C I) as R. pose proof (Hg c psq s C) as G.
  rewrite E in R, G. destruct (R eq_refl) as (cch' & Eq & I'). destruct G. exists cch'. auto.
Qed.
Lemma sim_fail c psq (cch : cache_t) s s1 :
  recN c psq s = Fail s1 -> sinv s -> INV cch s ->
  exists cch', recM c psq (set_cache cch s) = Fail (set_cache cch' s1) /\ INV cch' s1 /\ sinv s1 /\ dom s s1.
Proof.
  intros E C I. pose proof (Hs c psq cch s C I) as R. pose proof (Hg c psq s C) as G.
  rewrite E in R, G. destruct (R eq_refl) as (cch' & Eq & I'). destruct G. exists cch'. auto.
Qed.

Definition sim_goal (oN : out) (oM : out) (s : st) : Prop :=
  exists cch' : cache_t, oM = omap (set_cache cch') oN /\ INV cch' (ostate s oN).

Lemma seq_loop_sim psq kids : forall acc (cch : cache_t) s,
  sinv s -> INV cch s -> is_abort (seq_loop recN psq kids acc s) = false ->
  sim_goal (seq_loop recN psq kids acc s) (seq_loop recM psq kids acc (set_cache cch s)) s.
Proof.
  induction kids as [|c kids IH]; intros acc cch s C I NA; cbn [seq_loop] in *.
  - exists cch. auto.
  - destruct (recN c psq s) as [r s1|s1|w] eqn:E; try discriminate NA.
    + destruct (sim_ok c psq cch s r s1 E C I) as (cch1 & Eq & I1 & C1 & D1). rewrite Eq.
      destruct (IH (if truthy r then acc ++ [r] else acc) cch1 s1 C1 I1 NA) as (cch2 & Eq2 & I2).
      exists cch2. split; [exact Eq2|]. now rewrite (na_ostate s s1).
    + destruct (sim_fail c psq cch s s1 E C I) as (cch1 & Eq & I1 & C1 & D1). rewrite Eq.
      exists cch1. auto.
Qed.

Lemma choice_loop_sim cp kids : forall (cch : cache_t) s,
  sinv s -> INV cch s -> is_abort (choice_loop recN cp kids s) = false ->
  sim_goal (choice_loop recN cp kids s) (choice_loop recM cp kids (set_cache cch s)) s.
Proof.
  induction kids as [|c kids IH]; intros cch s C I NA; cbn [choice_loop] in *.
  - exists cch. auto.
  - destruct (recN c false s) as [r s1|s1|w] eqn:E; try discriminate NA.
    + destruct (sim_ok c false cch s r s1 E C I) as (cch1 & Eq & I1 & C1 & D1). rewrite Eq.
      destruct (is_none r).
      * destruct (IH cch1 s1 C1 I1 NA) as (cch2 & Eq2 & I2).
        exists cch2. split; [exact Eq2|]. now rewrite (na_ostate s s1).
      * exists cch1. auto.
    + destruct (sim_fail c false cch s s1 E C I) as (cch1 & Eq & I1 & C1 & D1). rewrite Eq.
      assert (I1' : INV cch1 (set_pos cp s1)) by (eapply INV_mono; [apply dom_set_pos_r, dom_refl | exact I1]).
      destruct (IH cch1 (set_pos cp s1) C1 I1' NA) as (cch2 & Eq2 & I2).
      exists cch2. split; [exact Eq2|]. now rewrite (na_ostate s (set_pos cp s1)).
Qed.

Lemma rep_loop_sim e sep plus k : forall first acc (cch : cache_t) s,
  sinv s -> INV cch s -> is_abort (rep_loop recN e sep plus k first acc s) = false ->
  sim_goal (rep_loop recN e sep plus k first acc s) (rep_loop recM e sep plus k first acc (set_cache cch s)) s.
Proof.
  induction k as [|k IH]; intros first acc cch s C I NA; cbn [rep_loop] in *; [discriminate NA|].
  cbn [pos set_cache].
  set (elem := fun (rc : parser) (acc1 : list res) (s1 : st) =>
        match rc e false s1 with
        | Ok r s2 => if truthy r then rep_loop rc e sep plus k false (acc1 ++ [r]) s2
                     else Ok (RList acc1) s2
        | Fail s2 => if (plus && first)%bool then Fail (set_pos (pos s) s2)
                     else Ok (RList acc1) (set_pos (pos s) s2)
        | Abort w => Abort w
        end).
  assert (Helem : forall acc1 (cch1 : cache_t) s1, sinv s1 -> INV cch1 s1 ->
            is_abort (elem recN acc1 s1) = false ->
            sim_goal (elem recN acc1 s1) (elem recM acc1 (set_cache cch1 s1)) s1).
  { intros acc1 cch1 s1 C1 I1 NA1. unfold elem in *.
    destruct (recN e false s1) as [r s2|s2|w] eqn:E; try discriminate NA1.
    - destruct (sim_ok e false cch1 s1 r s2 E C1 I1) as (cch2 & Eq & I2 & C2 & D2). rewrite Eq.
      destruct (truthy r).
      + destruct (IH false (acc1 ++ [r]) cch2 s2 C2 I2 NA1) as (cch3 & Eq3 & I3).
        exists cch3. split; [exact Eq3|]. now rewrite (na_ostate s1 s2).
      + exists cch2. auto.
    - destruct (sim_fail e false cch1 s1 s2 E C1 I1) as (cch2 & Eq & I2 & C2 & D2). rewrite Eq.
      exists cch2. destruct (plus && first)%bool; (split; [reflexivity|]); cbn;
        (eapply INV_mono; [apply dom_set_pos_r, dom_refl | exact I2]). }
  fold (elem recN) in NA |- *. fold (elem recM).
  destruct sep as [sp|]; [|now apply Helem].
  destruct first; [now apply Helem|].
  destruct (recN sp false s) as [sr s1|s1|w] eqn:E; try discriminate NA.
  - destruct (sim_ok sp false cch s sr s1 E C I) as (cch1 & Eq & I1 & C1 & D1). rewrite Eq.
    destruct (Helem (if truthy sr then acc ++ [sr] else acc) cch1 s1 C1 I1 NA) as (cch2 & Eq2 & I2).
    exists cch2. split; [exact Eq2|]. now rewrite (na_ostate s s1).
  - destruct (sim_fail sp false cch s s1 E C I) as (cch1 & Eq & I1 & C1 & D1). rewrite Eq.
    rewrite andb_false_r in *. exists cch1. split; [reflexivity|]. cbn.
    eapply INV_mono; [apply dom_set_pos_r, dom_refl | exact I1].
Qed.

Lemma raise_sim p (cch : cache_t) s : INV cch s ->
  sim_goal (nm_raise p s) (nm_raise p (set_cache cch s)) s.
Proof.
  intro I. exists cch. unfold nm_raise. rewrite reg_fail_cache. split; [reflexivity|]. cbn.
  eapply INV_mono; [apply dom_reg_fail | exact I].
Qed.

Definition ugr_sim_goal (oN oM : ugr) (s : st) : Prop :=
  exists cch' : cache_t, oM = ugr_map (set_cache cch') oN /\ INV cch' (ugr_state s oN).
Definition ugo_sim_goal (oN oM : ugo) (s : st) : Prop :=
  exists cch' : cache_t, oM = ugo_map (set_cache cch') oN /\ INV cch' (ugo_state s oN).

Lemma ug_try_sim sf cl todo : forall mt (cch : cache_t) s,
  sinv s -> INV cch s -> ugr_abort (ug_try recN sf cl todo mt s) = false ->
  ugr_sim_goal (ug_try recN sf cl todo mt s) (ug_try recM sf cl todo mt (set_cache cch s)) s.
Proof.
  induction todo as [|e todo IH]; intros mt cch s C I NA; cbn [ug_try] in *.
  - exists cch. auto.
  - destruct (recN e false s) as [r s1|s1|w] eqn:E; try discriminate NA.
    + destruct (sim_ok e false cch s r s1 E C I) as (cch1 & Eq & I1 & C1 & D1). rewrite Eq.
      destruct (truthy r); [destruct sf|].
      * assert (I1' : INV cch1 (set_pos cl s1)) by (eapply INV_mono; [apply dom_set_pos_r, dom_refl | exact I1]).
        destruct (IH false cch1 (set_pos cl s1) C1 I1' NA) as (cch2 & Eq2 & I2).
        exists cch2. split; [exact Eq2|]. now rewrite (ugr_na_state s (set_pos cl s1)).
      * exists cch1. auto.
      * destruct (IH mt cch1 s1 C1 I1 NA) as (cch2 & Eq2 & I2).
        exists cch2. split; [exact Eq2|]. now rewrite (ugr_na_state s s1).
    + destruct (sim_fail e false cch s s1 E C I) as (cch1 & Eq & I1 & C1 & D1). rewrite Eq.
      assert (I1' : INV cch1 (set_pos cl s1)) by (eapply INV_mono; [apply dom_set_pos_r, dom_refl | exact I1]).
      destruct (IH false cch1 (set_pos cl s1) C1 I1' NA) as (cch2 & Eq2 & I2).
      exists cch2. split; [exact Eq2|]. now rewrite (ugr_na_state s (set_pos cl s1)).
Qed.

Lemma ug_loop_sim sep n : forall todo first sr acc (cch : cache_t) s,
  sinv s -> INV cch s -> ugo_abort (ug_loop recN sep n todo first sr acc s) = false ->
  ugo_sim_goal (ug_loop recN sep n todo first sr acc s) (ug_loop recM sep n todo first sr acc (set_cache cch s)) s.
Proof.
  induction n as [|n IH]; intros todo first sr acc cch s C I NA; destruct todo as [|t0 todo];
    cbn [ug_loop] in *; try discriminate NA; try (exists cch; now auto).
  cbn [pos set_cache].
  set (cont := fun (rc : parser) (sf : bool) (sr1 : res) (s1 : st) =>
        match ug_try rc sf (pos s1) (t0 :: todo) true s1 with
        | UGHit e r s2 => ug_loop rc sep n (remove_first e (t0 :: todo)) false sr1
                            ((if truthy sr1 then acc ++ [sr1] else acc) ++ [r]) s2
        | UGNone mt s2 => UGDone mt acc (set_pos (pos s) s2)
        | UGAbort w => UGOAbort w
        end).
  assert (Hcont : forall sf sr1 (cch1 : cache_t) s1, sinv s1 -> INV cch1 s1 ->
            ugo_abort (cont recN sf sr1 s1) = false ->
            ugo_sim_goal (cont recN sf sr1 s1) (cont recM sf sr1 (set_cache cch1 s1)) s1).
  { intros sf sr1 cch1 s1 C1 I1 NA1. unfold cont in *. cbn [pos set_cache].
    pose proof (ug_try_sim sf (pos s1) (t0 :: todo) true cch1 s1 C1 I1) as R.
    pose proof (ug_try_good recN Hg sf (pos s1) (t0 :: todo) true s1 C1) as G.
    destruct (ug_try recN sf (pos s1) (t0 :: todo) true s1) as [e r s2|mt s2|w] eqn:E; try discriminate NA1;
      destruct G as [D2 C2]; destruct (R eq_refl) as (cch2 & Eq & I2); rewrite Eq; cbn [ugr_map].
    - destruct (IH (remove_first e (t0 :: todo)) false sr1 ((if truthy sr1 then acc ++ [sr1] else acc) ++ [r])
                   cch2 s2 C2 I2 NA1) as (cch3 & Eq3 & I3).
      exists cch3. split; [exact Eq3|]. now rewrite (ugo_na_state s1 s2).
    - exists cch2. split; [reflexivity|]. cbn. eapply INV_mono; [apply dom_set_pos_r, dom_refl | exact I2]. }
  destruct sep as [sp|]; [|exact (Hcont false sr cch s C I NA)].
  destruct first; [exact (Hcont false sr cch s C I NA)|].
  destruct (recN sp false s) as [sr1 s1|s1|w] eqn:E; try discriminate NA.
  - destruct (sim_ok sp false cch s sr1 s1 E C I) as (cch1 & Eq & I1 & C1 & D1). rewrite Eq.
    destruct (Hcont false sr1 cch1 s1 C1 I1 NA) as (cch2 & Eq2 & I2).
    exists cch2. split; [exact Eq2|]. now rewrite (ugo_na_state s s1).
  - destruct (sim_fail sp false cch s s1 E C I) as (cch1 & Eq & I1 & C1 & D1). rewrite Eq.
    assert (I1' : INV cch1 (set_pos (pos s) s1)) by (eapply INV_mono; [apply dom_set_pos_r, dom_refl | exact I1]).
    destruct (Hcont true sr cch1 (set_pos (pos s) s1) C1 I1' NA) as (cch2 & Eq2 & I2).
    exists cch2. split; [exact Eq2|]. now rewrite (ugo_na_state s (set_pos (pos s) s1)).
Qed.

Lemma body0_sim k nd : forall (cch : cache_t) s,
  sinv s -> INV cch s -> is_abort (body0 recN k nd s) = false ->
  sim_goal (body0 recN k nd s) (body0 recM k nd (set_cache cch s)) s.
Proof.
  intros cch s C I NA. unfold body0 in *. cbn [pos set_cache].
  destruct (n_kind nd); try discriminate NA.
  - pose proof (seq_loop_sim true (n_kids nd) [] cch s C I) as R.
    destruct (seq_loop recN true (n_kids nd) [] s) as [r s1|s1|w] eqn:E; try discriminate NA;
      destruct (R eq_refl) as (cch1 & Eq & I1); rewrite Eq; cbn; exists cch1.
    + split; [destruct r as [|t|[|x l]]; reflexivity|]. destruct r as [|t|[|x l]]; exact I1.
    + split; [reflexivity|]. cbn. eapply INV_mono; [apply dom_set_pos_r, dom_refl | exact I1].
  - pose proof (choice_loop_sim (pos s) (n_kids nd) cch s C I) as R.
    destruct (choice_loop recN (pos s) (n_kids nd) s) as [r s1|s1|w] eqn:E; try discriminate NA;
      destruct (R eq_refl) as (cch1 & Eq & I1); rewrite Eq; cbn.
    + destruct (is_none r).
      * destruct (raise_sim (pos s) cch1 s1 I1) as (cch2 & Eq2 & I2). exists cch2. split; [exact Eq2|].
        cbn in I2 |- *. exact I2.
      * exists cch1. auto.
    + exists cch1. auto.
  - destruct (n_kids nd) as [|e l]; [discriminate NA|].
    destruct (recN e false s) as [r s1|s1|w] eqn:E; try discriminate NA.
    + destruct (sim_ok e false cch s r s1 E C I) as (cch1 & Eq & I1 & C1 & D1). rewrite Eq. exists cch1. auto.
    + destruct (sim_fail e false cch s s1 E C I) as (cch1 & Eq & I1 & C1 & D1). rewrite Eq. exists cch1.
      split; [reflexivity|]. cbn. eapply INV_mono; [apply dom_set_pos_r, dom_refl | exact I1].
  - destruct (n_kids nd) as [|e l]; [discriminate NA|]. now apply rep_loop_sim.
  - destruct (n_kids nd) as [|e l]; [discriminate NA|]. now apply rep_loop_sim.
  - destruct (n_kids nd) as [|e l] eqn:K; [discriminate NA|]. rewrite <- K in *.
    pose proof (ug_loop_sim (n_sep nd) (S (length (n_kids nd))) (n_kids nd) true RNone [] cch s C I) as R.
    destruct (ug_loop recN (n_sep nd) (S (length (n_kids nd))) (n_kids nd) true RNone [] s) as [mt acc s1|w] eqn:E;
      try discriminate NA.
    destruct (R eq_refl) as (cch1 & Eq & I1). rewrite Eq. cbn [ugo_map]. cbn in I1.
    destruct mt.
    + exists cch1. auto.
    + assert (I1' : INV cch1 (set_pos (pos s) s1)) by (eapply INV_mono; [apply dom_set_pos_r, dom_refl | exact I1]).
      destruct (raise_sim (pos s) cch1 (set_pos (pos s) s1) I1') as (cch2 & Eq2 & I2).
      exists cch2. split; [exact Eq2|]. cbn in I2 |- *. exact I2.
  - pose proof (seq_loop_sim false (n_kids nd) [] cch s C I) as R.
    destruct (seq_loop recN false (n_kids nd) [] s) as [r s1|s1|w] eqn:E; try discriminate NA;
      destruct (R eq_refl) as (cch1 & Eq & I1); rewrite Eq; cbn; exists cch1;
      (split; [reflexivity|]); cbn; (eapply INV_mono; [apply dom_set_pos_r, dom_refl | exact I1]).
  - pose proof (seq_loop_sim false (n_kids nd) [] cch s C I) as R.
    destruct (seq_loop recN false (n_kids nd) [] s) as [r s1|s1|w] eqn:E; try discriminate NA;
      destruct (R eq_refl) as (cch1 & Eq & I1); rewrite Eq; cbn.
    + assert (I1' : INV cch1 (set_pos (pos s) s1)) by (eapply INV_mono; [apply dom_set_pos_r, dom_refl | exact I1]).
      destruct (raise_sim (pos s) cch1 (set_pos (pos s) s1) I1') as (cch2 & Eq2 & I2).
      exists cch2. split; [exact Eq2|]. cbn in I2 |- *. exact I2.
    + exists cch1. split; [reflexivity|]. cbn. eapply INV_mono; [apply dom_set_pos_r, dom_refl | exact I1].
  - exists cch. auto.
Qed.

End S1.


Lemma parse_S m f nid psq s :
  parse g input orc m (S f) nid psq s =
  match get_node g nid with
  | None => Abort 1
  | Some nd =>
    if is_match_kind (n_kind nd) then
      match match_pre g input (parse g input orc m f) f s with
      | Ok _ s1 =>
        match term_parse input orc nid (n_kind nd) psq s1 with
        | Ok r s2 => Ok (if n_suppress nd then RNone else r) s2
        | o => o
        end
      | o => o
      end
    else
      let c_pos := pos s in
      match (if m then clookup nid c_pos (cache s) else None) with
      | Some (CNoMatch, np) => Fail (set_pos np s)
      | Some (CRes r, np) => Ok r (set_pos np s)
      | None =>
        match body (parse g input orc m f) f nd s with
        | Ok r s1 =>
          let r' := post nid nd r in
          Ok r' (if m then cput nid c_pos (CRes r', pos s1) s1 else s1)
        | Fail s1 =>
          let s2 := set_pos c_pos s1 in
          Fail (if m then cput nid c_pos (CNoMatch, c_pos) s2 else s2)
        | Abort w => Abort w
        end
      end
  end.
Proof. reflexivity. Qed.

Lemma parse_psq m f nid nd psq psq' s :
  get_node g nid = Some nd -> is_match_kind (n_kind nd) = false ->
  parse g input orc m f nid psq s = parse g input orc m f nid psq' s.
Proof. intros Hn MK. destruct f; [reflexivity|]. rewrite !parse_S, Hn, MK. reflexivity. Qed.

Lemma parse_sim f : rec_sim (parse g input orc false f) (parse g input orc true f).
Proof.
  induction f as [|f IH]; intros nid psq cch sn C I NA; [discriminate NA|].
  pose proof (parse_rerun (S f)) as RR. pose proof (parse_good (S f) nid psq sn C) as GG.
  rewrite (parse_S true). rewrite (parse_S false) in NA.
  destruct (get_node g nid) as [nd|] eqn:Hn; [|discriminate NA].
  destruct (is_match_kind (n_kind nd)) eqn:MK.
  - (* terminals are not memoized *)
    rewrite (parse_S false), Hn, MK. rewrite !match_pre_eq in *. rewrite mprec_cache.
    rewrite (parse_S false), Hn, MK, match_pre_eq in GG.
    exists cch. destruct (mprec f sn) as [r0 s0|s0|w0] eqn:E0; try discriminate NA; cbn [omap].
    + rewrite term_cache.
      destruct (term_parse input orc nid (n_kind nd) psq s0) as [r s1|s1|w] eqn:E;
        try discriminate NA; (split; [reflexivity|]); cbn; destruct GG as [D1 _];
        (eapply INV_mono; [exact D1 | exact I]).
    + split; [reflexivity|]. cbn. destruct GG as [D1 _]. eapply INV_mono; [exact D1 | exact I].
  - cbn [pos set_cache cache].
    destruct (clookup nid (pos sn) cch) as [[cr np]|] eqn:L.
    + (* cache hit *)
      destruct (I nid (pos sn) cr np L (S f) psq sn C (dom_refl sn) eq_refl) as [A|Eq].
      * rewrite (parse_S false), Hn, MK in A. cbn in A, NA. congruence.
      * rewrite Eq. exists cch. destruct cr; (split; [reflexivity|]); cbn;
          (eapply INV_mono; [apply dom_set_pos_r, dom_refl | exact I]).
    + (* cache miss *)
      cbn in NA. rewrite (body_eq _ _ _ _ _ Hn) in NA. rewrite (body_eq _ _ _ _ _ Hn).
      pose proof (body0_sim _ _ (parse_good f) IH f nd cch sn C I) as R.
      assert (Hnm : parse g input orc false (S f) nid psq sn =
                    match body0 (parse g input orc false f) f nd sn with
                    | Ok r s1 => Ok (post nid nd r) s1
                    | Fail s1 => Fail (set_pos (pos sn) s1)
                    | Abort w => Abort w end).
      { rewrite (parse_S false), Hn, MK. cbn. now rewrite (body_eq _ _ _ _ _ Hn). }
      rewrite Hnm in *.
      destruct (body0 (parse g input orc false f) f nd sn) as [r s1|s1|w] eqn:E; try discriminate NA;
        destruct (R eq_refl) as (cch1 & Eq & I1); rewrite Eq; cbn [omap].
      * exists (((nid, pos sn), (CRes (post nid nd r), pos s1)) :: cch1). split; [reflexivity|].
        cbn [omap ostate] in *. intros nid2 p2 cr2 np2 L2. cbn [clookup] in L2.
        destruct (Nat.eqb nid2 nid && Nat.eqb p2 (pos sn))%bool eqn:K; [|exact (I1 _ _ _ _ L2)].
        apply andb_true_iff in K as [K1 K2]. apply Nat.eqb_eq in K1, K2. subst nid2 p2.
        injection L2 as <- <-. intros fuel' psq' s' C' D' P'.
        pose proof (RR fuel' nid psq sn s' C C') as R2. rewrite Hnm in R2. cbn in R2.
        rewrite (parse_psq false fuel' nid nd psq' psq s' Hn MK).
        destruct (R2 eq_refl D' P') as [A|Eq2]; [now left | right; exact Eq2].
      * exists (((nid, pos sn), (CNoMatch, pos sn)) :: cch1). split; [reflexivity|].
        cbn [omap ostate] in *.
        assert (I1' : INV cch1 (set_pos (pos sn) s1)) by (eapply INV_mono; [apply dom_set_pos_r, dom_refl | exact I1]).
        intros nid2 p2 cr2 np2 L2. cbn [clookup] in L2.
        destruct (Nat.eqb nid2 nid && Nat.eqb p2 (pos sn))%bool eqn:K; [|exact (I1' _ _ _ _ L2)].
        apply andb_true_iff in K as [K1 K2]. apply Nat.eqb_eq in K1, K2. subst nid2 p2.
        injection L2 as <- <-. intros fuel' psq' s' C' D' P'.
        pose proof (RR fuel' nid psq sn s' C C') as R2. rewrite Hnm in R2. cbn in R2.
        rewrite (parse_psq false fuel' nid nd psq' psq s' Hn MK).
        destruct (R2 eq_refl D' P') as [A|Eq2]; [now left | right].
        rewrite Eq2. cbn. try rewrite set_pos_set_pos. reflexivity.
Qed.

(* ================================================================ the theorem *)
Definition not_aborted (o : outcome) : Prop := match o with Aborted _ => False | _ => True end.

Theorem memo_safe c fuel :
  not_aborted (run g c orc false fuel input) ->
  run g c orc true fuel input = run g c orc false fuel input.
Proof.
  unfold run. intros NA.
  assert (C0 : sinv (init_st c)).
  { split; [reflexivity|]. right. unfold cpos_ok. destruct (g_comments g); intros k v L; discriminate L. }
  assert (I0 : INV [] (init_st c)) by (intros nid p cr np L; discriminate L).
  pose proof (parse_sim fuel (g_top g) false [] (init_st c) C0 I0) as R.
  change (set_cache [] (init_st c)) with (init_st c) in R.
  destruct (parse g input orc false fuel (g_top g) false (init_st c)) as [r s1|s1|w] eqn:E;
    try contradiction; destruct (R eq_refl) as (cch' & Eq & _); rewrite Eq; reflexivity.
Qed.

End Memo.

(* memo_safe with two different (sufficient) fuels, by fuel monotonicity *)
Theorem memo_safe_any_fuel :
  forall g cfg orc f f' input,
    ctx_constant g = true ->
    not_aborted (run g cfg orc false f input) -> f <= f' ->
    run g cfg orc true f' input = run g cfg orc false f input.
Proof.
  intros g cfg orc f f' input Hc Hn L.
  pose proof (memo_safe g input orc Hc cfg f Hn) as E.
  rewrite <- E. apply run_fuel_mono; [exact L|]. rewrite E.
  destruct (run g cfg orc false f input); try discriminate. contradiction.
Qed.
