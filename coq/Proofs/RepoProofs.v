(* Proofs about the multi-file loading model (C17/C18). *)
From TxV Require Import Core.Base Model.RepoDefs Gen.SrcRepo Model.Repo.
Require Import Lia.

Lemma cached_load_returns_cached fs c f s m :
  cglobal c = true -> dget f (allm s) = Some m -> flag_of fmp m s = false ->
  fst (load_main fs c f s) = inr m /\ reads (snd (load_main fs c f s)) = [] /\ allm (snd (load_main fs c f s)) = allm s.
Proof.
  intros Hg Hc Hmp. unfold load_main, begin_op. rewrite Hg. cbn [allm with_reads].
  rewrite Hc. unfold flag_of, cont_of in *. cbn [heap with_reads] in *. rewrite Hmp. cbn. auto.
Qed.
