(* Proofs about the multi-file loading model (C17/C18). *)
From TxV Require Import Core.Base Model.RepoDefs Gen.SrcRepo Model.Repo.
Require Import Lia.

(* ------------------------------------------------------------------ facts from the source (Gen/SrcRepo.v) *)
Lemma src_register_before : register_before_imports = true. Proof. reflexivity. Qed.
Lemma src_cleanup_outer : cleanup_construction_failure = true. Proof. reflexivity. Qed.
Lemma src_cleanup_inner : cleanup_resolution_failure = true. Proof. reflexivity. Qed.
Lemma src_cleanup_mp : cleanup_model_processor_failure = true. Proof. reflexivity. Qed.
Lemma src_lookup_order : lookup_order = [SOwn; SLocal; SBuiltin]. Proof. reflexivity. Qed.

(* ------------------------------------------------------------------ dictionaries *)
Notation keys s := (map fst (allm s)).
Notation vals s := (map snd (allm s)).

Lemma mem_In x l : mem x l = true <-> In x l.
Proof.
  unfold mem. rewrite existsb_exists. split.
  - intros [y [Hy E]]. apply Nat.eqb_eq in E. subst. exact Hy.
  - intro H. exists x. split; [exact H | apply Nat.eqb_refl].
Qed.
Lemma mem_false x l : mem x l = false <-> ~ In x l.
Proof.
  rewrite <- mem_In. destruct (mem x l); split; intro H; try reflexivity; try discriminate.
  exfalso; apply H; reflexivity.
Qed.

Section Dict.
  Context {A : Type}.
  Implicit Types (l : list (nat * A)).

  Lemma dget_dset_same k v l : dget k (dset k v l) = Some v.
  Proof.
    induction l as [|[k' v'] t IH]; cbn.
    - rewrite Nat.eqb_refl. reflexivity.
    - destruct (Nat.eqb k k') eqn:E; cbn; rewrite ?Nat.eqb_refl, ?E; auto.
  Qed.
  Lemma dget_dset_other k k' v l : k <> k' -> dget k' (dset k v l) = dget k' l.
  Proof.
    intro Hn. induction l as [|[k2 v2] t IH]; cbn.
    - destruct (Nat.eqb k' k) eqn:E; [apply Nat.eqb_eq in E; congruence | reflexivity].
    - destruct (Nat.eqb k k2) eqn:E; cbn.
      + apply Nat.eqb_eq in E. subst k2.
        destruct (Nat.eqb k' k) eqn:E2; [apply Nat.eqb_eq in E2; congruence | reflexivity].
      + destruct (Nat.eqb k' k2); auto.
  Qed.
  Lemma dget_None_notin k l : dget k l = None <-> ~ In k (map fst l).
  Proof.
    induction l as [|[k' v'] t IH]; cbn; [tauto|].
    destruct (Nat.eqb k k') eqn:E.
    - apply Nat.eqb_eq in E. subst. split; [discriminate | intro H; exfalso; apply H; auto].
    - apply Nat.eqb_neq in E. rewrite IH. split; intro H; [intros [H1|H1]; [congruence | tauto] | tauto].
  Qed.
  Lemma dget_In k v l : dget k l = Some v -> In (k, v) l.
  Proof.
    induction l as [|[k' v'] t IH]; cbn; [discriminate|].
    destruct (Nat.eqb k k') eqn:E.
    - apply Nat.eqb_eq in E. intro H. inversion H. subst. auto.
    - auto.
  Qed.
  Lemma In_dget k v l : NoDup (map fst l) -> In (k, v) l -> dget k l = Some v.
  Proof.
    induction l as [|[k' v'] t IH]; cbn; [tauto|]. intros Hnd [H|H].
    - inversion H. subst. rewrite Nat.eqb_refl. reflexivity.
    - inversion Hnd as [|? ? Hni Hnd']. subst. destruct (Nat.eqb k k') eqn:E.
      + apply Nat.eqb_eq in E. subst. exfalso. apply Hni. apply in_map_iff. exists (k', v). auto.
      + auto.
  Qed.
  Lemma dhas_true k l : dhas k l = true <-> In k (map fst l).
  Proof.
    unfold dhas. destruct (dget k l) eqn:E.
    - split; [|reflexivity]. intros _. apply dget_In in E. apply in_map_iff. exists (k, a). auto.
    - split; [discriminate|]. intro H. apply dget_None_notin in E. tauto.
  Qed.
  Lemma dhas_false k l : dhas k l = false <-> ~ In k (map fst l).
  Proof.
    rewrite <- dhas_true. destruct (dhas k l); split; intro H; try reflexivity; try discriminate.
    exfalso; apply H; reflexivity.
  Qed.
  Lemma dset_same k v l : dget k l = Some v -> dset k v l = l.
  Proof.
    induction l as [|[k' v'] t IH]; cbn; [discriminate|].
    destruct (Nat.eqb k k') eqn:E.
    - apply Nat.eqb_eq in E. intro H. inversion H. subst. reflexivity.
    - intro H. rewrite IH; auto.
  Qed.
  Lemma dset_fresh k v l : dget k l = None -> dset k v l = l ++ [(k, v)].
  Proof.
    induction l as [|[k' v'] t IH]; cbn; [reflexivity|].
    destruct (Nat.eqb k k'); [discriminate|]. intro H. rewrite IH; auto.
  Qed.
  Lemma keys_dset_in k v l : In k (map fst l) -> map fst (dset k v l) = map fst l.
  Proof.
    induction l as [|[k' v'] t IH]; cbn; [tauto|]. intros H.
    destruct (Nat.eqb k k') eqn:E; cbn.
    - apply Nat.eqb_eq in E. subst. reflexivity.
    - apply Nat.eqb_neq in E. destruct H as [H|H]; [congruence|]. rewrite IH; auto.
  Qed.
  Lemma keys_dset_notin k v l : ~ In k (map fst l) -> map fst (dset k v l) = map fst l ++ [k].
  Proof. intro H. apply dget_None_notin in H. rewrite dset_fresh by exact H. rewrite map_app. reflexivity. Qed.
  Lemma keys_dset_cases k v l :
    (In k (map fst l) /\ map fst (dset k v l) = map fst l) \/ (~ In k (map fst l) /\ map fst (dset k v l) = map fst l ++ [k]).
  Proof.
    destruct (in_dec Nat.eq_dec k (map fst l)) as [H|H]; [left | right]; split; auto using keys_dset_in, keys_dset_notin.
  Qed.
  Lemma In_ddel kv k l : In kv (ddel k l) -> In kv l.
  Proof.
    induction l as [|[k' v'] t IH]; cbn; [tauto|]. destruct (Nat.eqb k k'); cbn; intuition.
  Qed.
End Dict.

Lemma NoDup_snoc {A} (l : list A) x : NoDup l -> ~ In x l -> NoDup (l ++ [x]).
Proof.
  intros Hnd Hni. induction l as [|a t IH]; cbn.
  - constructor; [tauto | constructor].
  - inversion Hnd; subst. constructor.
    + rewrite in_app_iff. cbn. intros [H|[H|[]]]; [tauto | subst; apply Hni; left; reflexivity].
    + apply IH; [assumption | intro H; apply Hni; right; exact H].
Qed.

(* ------------------------------------------------------------------ projections of the state updates *)
Lemma allm_set_local m g v s : allm (set_local m g v s) = allm s. Proof. reflexivity. Qed.
Lemma reads_set_local m g v s : reads (set_local m g v s) = reads s. Proof. reflexivity. Qed.
Lemma heap_set_local m g v s : heap (set_local m g v s) = heap s. Proof. reflexivity. Qed.
Lemma constr_set_local m g v s : constr (set_local m g v s) = constr s. Proof. reflexivity. Qed.
Lemma allm_set_all g v s : allm (set_all g v s) = dset g v (allm s). Proof. reflexivity. Qed.
Lemma reads_set_all g v s : reads (set_all g v s) = reads s. Proof. reflexivity. Qed.
Lemma heap_set_all g v s : heap (set_all g v s) = heap s. Proof. reflexivity. Qed.
Lemma constr_set_all g v s : constr (set_all g v s) = constr s. Proof. reflexivity. Qed.
Lemma locals_set_all g v s : locals (set_all g v s) = locals s. Proof. reflexivity. Qed.
Lemma allm_alloc g fc s : allm (alloc g fc s) = allm s. Proof. reflexivity. Qed.
Lemma reads_alloc g fc s : reads (alloc g fc s) = reads s. Proof. reflexivity. Qed.
Lemma heap_alloc g fc s : heap (alloc g fc s) = heap s ++ [mkMinfo g (curop s) fc]. Proof. reflexivity. Qed.
Lemma constr_alloc g fc s : constr (alloc g fc s) = length (heap s) :: constr s. Proof. reflexivity. Qed.
Lemma locals_alloc g fc s : locals (alloc g fc s) = locals s. Proof. reflexivity. Qed.
Lemma allm_with_reads s r : allm (with_reads s r) = allm s. Proof. reflexivity. Qed.
Lemma reads_with_reads s r : reads (with_reads s r) = r. Proof. reflexivity. Qed.
Lemma heap_with_reads s r : heap (with_reads s r) = heap s. Proof. reflexivity. Qed.
Lemma constr_with_reads s r : constr (with_reads s r) = constr s. Proof. reflexivity. Qed.
Lemma locals_with_reads s r : locals (with_reads s r) = locals s. Proof. reflexivity. Qed.
Global Hint Rewrite allm_set_local reads_set_local heap_set_local constr_set_local allm_set_all reads_set_all heap_set_all
  constr_set_all locals_set_all allm_alloc reads_alloc heap_alloc constr_alloc locals_alloc allm_with_reads reads_with_reads
  heap_with_reads constr_with_reads locals_with_reads : st.

Lemma reads_remove_from_repos models rem s : reads (remove_from_repos models rem s) = reads s.
Proof. unfold remove_from_repos. revert s. induction models as [|x t IH]; intro s; cbn; [reflexivity|]. rewrite IH. reflexivity. Qed.
Lemma heap_remove_from_repos models rem s : heap (remove_from_repos models rem s) = heap s.
Proof. unfold remove_from_repos. revert s. induction models as [|x t IH]; intro s; cbn; [reflexivity|]. rewrite IH. reflexivity. Qed.
Lemma constr_remove_from_repos models rem s : constr (remove_from_repos models rem s) = constr s.
Proof. unfold remove_from_repos. revert s. induction models as [|x t IH]; intro s; cbn; [reflexivity|]. rewrite IH. reflexivity. Qed.
Lemma reads_handler m s : reads (handler m s) = reads s.
Proof. unfold handler. destruct cleanup_construction_failure; [apply reads_remove_from_repos | reflexivity]. Qed.
Lemma heap_handler m s : heap (handler m s) = heap s.
Proof. unfold handler. destruct cleanup_construction_failure; [apply heap_remove_from_repos | reflexivity]. Qed.
Lemma constr_handler m s : constr (handler m s) = constr s.
Proof. unfold handler. destruct cleanup_construction_failure; [apply constr_remove_from_repos | reflexivity]. Qed.

Lemma reads_update_in_repo m mf s : reads (update_in_repo m mf s) = reads s.
Proof. unfold update_in_repo. destruct (dhas mf (allm s)); reflexivity. Qed.
Lemma keys_update_in_repo m mf s :
  In mf (keys (update_in_repo m mf s)) /\ incl (keys s) (keys (update_in_repo m mf s)) /\
  (keys (update_in_repo m mf s) = keys s \/ (~ In mf (keys s) /\ keys (update_in_repo m mf s) = keys s ++ [mf])).
Proof.
  unfold update_in_repo. destruct (dhas mf (allm s)) eqn:E.
  - apply dhas_true in E. repeat split; auto using incl_refl.
  - apply dhas_false in E. autorewrite with st. rewrite keys_dset_notin by exact E. repeat split.
    + apply in_or_app. right. left. reflexivity.
    + apply incl_appl, incl_refl.
    + right. auto.
Qed.

(* ================================================================== 1. fuel bound and "each file is read once" *)
Section Once.
  Variable fs : list file.
  Variable c : cfg.
  Let n := length fs.

  (* the key set of all_models is duplicate free and consists of existing files *)
  Definition K (s : state) : Prop := NoDup (keys s) /\ (forall k, In k (keys s) -> k < n).

  Lemma K_length s : K s -> length (keys s) <= n.
  Proof.
    intros [Hnd Hb]. rewrite <- (seq_length n 0). apply NoDup_incl_length; [exact Hnd|].
    intros k Hk. apply in_seq. specialize (Hb k Hk). lia.
  Qed.
  Lemma K_fresh_length s g : K s -> g < n -> ~ In g (keys s) -> length (keys s) + 1 <= n.
  Proof.
    intros [Hnd Hb] Hg Hni.
    assert (H : length (g :: keys s) <= n).
    { rewrite <- (seq_length n 0). apply NoDup_incl_length; [constructor; assumption|].
      intros k [Hk|Hk]; apply in_seq; [subst; lia | specialize (Hb k Hk); lia]. }
    cbn in H. lia.
  Qed.
  Lemma K_dset s g v : K s -> g < n -> K (set_all g v s).
  Proof.
    intros [Hnd Hb] Hg. unfold K. autorewrite with st.
    destruct (keys_dset_cases g v (allm s)) as [[Hin ->]|[Hni ->]]; [split; assumption|].
    split; [apply NoDup_snoc; assumption|]. intros k Hk. apply in_app_or in Hk as [Hk|[Hk|[]]]; [auto | subst; exact Hg].
  Qed.
  Lemma K_update s m mf : K s -> mf < n -> K (update_in_repo m mf s).
  Proof. intros HK Hm. unfold update_in_repo. destruct (dhas mf (allm s)); [exact HK | apply K_dset; assumption]. Qed.

  (* specification of a loader for imported files, at a given fuel *)
  Definition loader_ok (k : nat) (ld : nat -> state -> (err + nat) * state) : Prop :=
    forall g s, K s -> ~ In g (keys s) -> n + 1 <= k + length (keys s) ->
      NoDup (reads s) -> incl (reads s) (keys s) ->
      fst (ld g s) <> inl EFuel /\ NoDup (reads (snd (ld g s))) /\
      (forall m, fst (ld g s) = inr m ->
         K (snd (ld g s)) /\ incl (keys s) (keys (snd (ld g s))) /\ In g (keys (snd (ld g s))) /\
         incl (reads (snd (ld g s))) (keys (snd (ld g s)))).

  Lemma load_model_once k ld m g s r s' :
    loader_ok k ld -> K s -> n + 1 <= k + length (keys s) -> NoDup (reads s) -> incl (reads s) (keys s) ->
    load_model ld m g s = (r, s') ->
    r <> Some EFuel /\ NoDup (reads s') /\
    (r = None -> K s' /\ incl (keys s) (keys s') /\ incl (reads s') (keys s')).
  Proof.
    intros Hld HK Hf Hnd Hinc. unfold load_model.
    destruct (dhas g (local_of m s)).
    { intro H. inversion H; subst. split; [discriminate|]. split; [exact Hnd|]. intros _.
      split; [exact HK|]. split; [apply incl_refl | exact Hinc]. }
    destruct (dget g (allm s)) as [m'|] eqn:Eg.
    { intro H. inversion H; subst. autorewrite with st. split; [discriminate|]. split; [exact Hnd|]. intros _.
      split; [exact HK|]. split; [apply incl_refl | exact Hinc]. }
    apply dget_None_notin in Eg.
    destruct (Hld g s HK Eg Hf Hnd Hinc) as [Hnf [Hnd' Hok]].
    destruct (ld g s) as [[e|m'] s1] eqn:El; cbn [fst snd] in *.
    - intro H. inversion H; subst. split; [congruence|]. split; [exact Hnd' | discriminate].
    - intro H. inversion H; subst. destruct (Hok m' eq_refl) as [HK1 [Hi1 [Hg1 Hr1]]].
      unfold K. autorewrite with st. rewrite (keys_dset_in g m' (allm s1) Hg1).
      split; [discriminate|]. split; [exact Hnd'|]. intros _. split; [exact HK1|]. split; assumption.
  Qed.

  Lemma load_files_once k ld m gs : forall s r s',
    loader_ok k ld -> K s -> n + 1 <= k + length (keys s) -> NoDup (reads s) -> incl (reads s) (keys s) ->
    load_files ld m gs s = (r, s') ->
    r <> Some EFuel /\ NoDup (reads s') /\
    (r = None -> K s' /\ incl (keys s) (keys s') /\ incl (reads s') (keys s')).
  Proof.
    induction gs as [|g gs IH]; intros s r s' Hld HK Hf Hnd Hinc; cbn.
    - intro H. inversion H; subst. split; [discriminate|]. split; [exact Hnd|]. intros _.
      split; [exact HK|]. split; [apply incl_refl | exact Hinc].
    - destruct (load_model ld m g s) as [r1 s1] eqn:E1.
      destruct (load_model_once _ _ _ _ _ _ _ Hld HK Hf Hnd Hinc E1) as [Hnf [Hnd1 Hok]].
      destruct r1 as [e|].
      + intro H. inversion H; subst. split; [exact Hnf|]. split; [exact Hnd1 | discriminate].
      + destruct (Hok eq_refl) as [HK1 [Hi1 Hr1]]. intro H.
        assert (Hlen : length (keys s) <= length (keys s1)) by (apply NoDup_incl_length; [destruct HK; assumption | exact Hi1]).
        destruct (IH s1 r s' Hld HK1 ltac:(lia) Hnd1 Hr1 H) as [Hnf2 [Hnd2 Hok2]].
        split; [exact Hnf2|]. split; [exact Hnd2|]. intro Hr. destruct (Hok2 Hr) as [HK2 [Hi2 Hr2]].
        split; [exact HK2|]. split; [eapply incl_tran; eassumption | exact Hr2].
  Qed.

  Lemma load_stmts_once k ld m mf stmts : forall s r s',
    loader_ok k ld -> K s -> mf < n ->
    n + 1 <= k + length (keys (update_in_repo m mf s)) ->
    NoDup (reads s) -> (forall x, In x (reads s) -> In x (keys s) \/ x = mf) ->
    load_stmts ld m mf stmts s = (r, s') ->
    r <> Some EFuel /\ NoDup (reads s') /\
    (r = None -> K s' /\ incl (keys s) (keys s') /\ (forall x, In x (reads s') -> In x (keys s') \/ x = mf)).
  Proof.
    induction stmts as [|gs rest IH]; intros s r s' Hld HK Hmf Hf Hnd Hinc; cbn.
    - intro H. inversion H; subst. split; [discriminate|]. split; [exact Hnd|]. intros _.
      split; [exact HK|]. split; [apply incl_refl | exact Hinc].
    - pose proof (K_update s m mf HK Hmf) as HK1.
      destruct (keys_update_in_repo m mf s) as [Hin1 [Hi1 _]].
      assert (Hr1 : incl (reads (update_in_repo m mf s)) (keys (update_in_repo m mf s))).
      { rewrite reads_update_in_repo. intros x Hx. destruct (Hinc x Hx) as [H|H]; [apply Hi1; exact H | subst; exact Hin1]. }
      assert (Hnd1 : NoDup (reads (update_in_repo m mf s))) by (rewrite reads_update_in_repo; exact Hnd).
      destruct gs as [|g0 gs0].
      + intro H. inversion H; subst. split; [discriminate|]. split; [exact Hnd1 | discriminate].
      + destruct (load_files ld m (g0 :: gs0) (update_in_repo m mf s)) as [r2 s2] eqn:E2.
        destruct (load_files_once _ _ _ _ _ _ _ Hld HK1 Hf Hnd1 Hr1 E2) as [Hnf2 [Hnd2 Hok2]].
        destruct r2 as [e|].
        * intro H. inversion H; subst. split; [exact Hnf2|]. split; [exact Hnd2 | discriminate].
        * destruct (Hok2 eq_refl) as [HK2 [Hi2 Hr2]]. intro H.
          assert (Hlen : length (keys (update_in_repo m mf s)) <= length (keys s2))
            by (apply NoDup_incl_length; [destruct HK1; assumption | exact Hi2]).
          assert (Hin2 : In mf (keys s2)) by (apply Hi2; exact Hin1).
          assert (Hf2 : n + 1 <= k + length (keys (update_in_repo m mf s2))).
          { destruct (keys_update_in_repo m mf s2) as [_ [Hi3 _]].
            assert (length (keys s2) <= length (keys (update_in_repo m mf s2)))
              by (apply NoDup_incl_length; [destruct HK2; assumption | exact Hi3]). lia. }
          destruct (IH s2 r s' Hld HK2 Hmf Hf2 Hnd2 ltac:(intros x Hx; left; apply Hr2; exact Hx) H) as [Hnf3 [Hnd3 Hok3]].
          split; [exact Hnf3|]. split; [exact Hnd3|]. intro Hr. destruct (Hok3 Hr) as [HK3 [Hi3 Hr3]].
          split; [exact HK3|]. split; [|exact Hr3]. eapply incl_tran; [exact Hi1|]. eapply incl_tran; eassumption.
  Qed.

  (* load_file: the fuel never runs out as long as fuel + |registered files| exceeds the number of files *)
  Lemma load_file_once fuel : forall main g s,
    K s -> ~ In g (keys s) -> n + 1 <= fuel + length (keys s) ->
    NoDup (reads s) -> incl (reads s) (keys s) ->
    fst (load_file fs c fuel main g s) <> inl EFuel /\ NoDup (reads (snd (load_file fs c fuel main g s))) /\
    (forall m, fst (load_file fs c fuel main g s) = inr m ->
       K (snd (load_file fs c fuel main g s)) /\ incl (keys s) (keys (snd (load_file fs c fuel main g s))) /\
       (main = false -> In g (keys (snd (load_file fs c fuel main g s))) /\
                        incl (reads (snd (load_file fs c fuel main g s))) (keys (snd (load_file fs c fuel main g s))))).
  Proof.
    induction fuel as [|k IH]; intros main g s HK Hg Hf Hnd Hinc.
    { exfalso. pose proof (K_length s HK). cbn in Hf.
      (* fuel 0: n + 1 <= |keys| <= n *) lia. }
    cbn [load_file].
    destruct (nth_error fs g) as [fc|] eqn:Efc.
    2:{ cbn. split; [discriminate|]. split; [exact Hnd | discriminate]. }
    assert (Hgn : g < n) by (apply nth_error_Some; congruence).
    assert (Hfresh : ~ In g (reads s)) by (intro H; apply Hg, Hinc, H).
    assert (Hnd1 : NoDup (reads s ++ [g])) by (apply NoDup_snoc; assumption).
    destruct (fsyn fc).
    { cbn. split; [discriminate|]. split; [exact Hnd1 | discriminate]. }
    rewrite src_register_before.
    set (s1 := with_reads s (reads s ++ [g])).
    set (mid := length (heap s1)).
    set (s2 := alloc g fc s1).
    set (s3 := if (main && negb (cglobal c))%bool then s2 else set_all g mid s2).
    assert (HK3 : K s3).
    { subst s3. destruct (main && negb (cglobal c))%bool; [exact HK | apply K_dset; [exact HK | exact Hgn]]. }
    assert (Hkeys3 : (keys s3 = keys s /\ (main && negb (cglobal c))%bool = true) \/
                     (keys s3 = keys s ++ [g] /\ (main && negb (cglobal c))%bool = false)).
    { subst s3. destruct (main && negb (cglobal c))%bool; [left; split; reflexivity|]. right. split; [|reflexivity].
      autorewrite with st. apply keys_dset_notin. exact Hg. }
    assert (Hreads3 : reads s3 = reads s ++ [g]).
    { subst s3. destruct (main && negb (cglobal c))%bool; reflexivity. }
    assert (Hld : loader_ok k (load_file fs c k false)).
    { intros g' s' HK' Hg' Hf' Hnd' Hinc'. destruct (IH false g' s' HK' Hg' Hf' Hnd' Hinc') as [A [B C]].
      split; [exact A|]. split; [exact B|]. intros m Hm. destruct (C m Hm) as [C1 [C2 C3]]. destruct (C3 eq_refl). auto. }
    assert (Hpre3 : forall x, In x (reads s3) -> In x (keys s3) \/ x = g).
    { rewrite Hreads3. intros x Hx. apply in_app_or in Hx as [Hx|[Hx|[]]]; [left|right; auto].
      destruct Hkeys3 as [[-> _]|[-> _]]; [apply Hinc, Hx | apply in_or_app; left; apply Hinc, Hx]. }
    assert (Hf3 : n + 1 <= k + length (keys (update_in_repo mid g s3))).
    { destruct (keys_update_in_repo mid g s3) as [Hin [Hi Hc]].
      destruct Hkeys3 as [[E _]|[E _]].
      - destruct Hc as [Hc|[Hni Hc]].
        + exfalso. rewrite Hc, E in Hin. tauto.
        + rewrite Hc, E, app_length. change (length [g]) with 1. lia.
      - assert (length (keys s3) <= length (keys (update_in_repo mid g s3)))
          by (apply NoDup_incl_length; [destruct HK3; assumption | exact Hi]).
        rewrite E, app_length in H. change (length [g]) with 1 in H. lia. }
    assert (Hnd3 : NoDup (reads s3)) by (rewrite Hreads3; exact Hnd1).
    destruct (if (clazy c && is_nil (frefs fc))%bool then (None, s3)
              else load_stmts (load_file fs c k false) mid g (fimports fc) s3) as [r s4] eqn:E4.
    assert (Hres : r <> Some EFuel /\ NoDup (reads s4) /\
                   (r = None -> K s4 /\ incl (keys s3) (keys s4) /\ (forall x, In x (reads s4) -> In x (keys s4) \/ x = g))).
    { destruct (clazy c && is_nil (frefs fc))%bool.
      - inversion E4; subst. split; [discriminate|]. split; [exact Hnd3|]. intros _. split; [exact HK3|]. split; [apply incl_refl | exact Hpre3].
      - exact (load_stmts_once _ _ _ _ _ _ _ _ Hld HK3 Hgn Hf3 Hnd3 Hpre3 E4). }
    destruct Hres as [Hnf [Hnd4 Hok]].
    destruct r as [e|].
    { cbn [fst snd]. split; [congruence|]. split; [rewrite reads_handler; exact Hnd4 | discriminate]. }
    destruct (Hok eq_refl) as [HK4 [Hi4 Hr4]].
    assert (Hincl : incl (keys s) (keys s4)).
    { eapply incl_tran; [|exact Hi4]. destruct Hkeys3 as [[-> _]|[-> _]]; [apply incl_refl | apply incl_appl, incl_refl]. }
    assert (Hmainfalse : main = false -> In g (keys s4) /\ incl (reads s4) (keys s4)).
    { intro Hm. subst main. destruct Hkeys3 as [[_ E]|[E _]].
      - discriminate E.
      - assert (Hg4 : In g (keys s4)) by (apply Hi4; rewrite E; apply in_or_app; right; left; reflexivity).
        split; [exact Hg4|]. intros x Hx. destruct (Hr4 x Hx) as [H|H]; [exact H | subst; exact Hg4]. }
    destruct main.
    - cbn [fst snd]. split; [discriminate|]. split; [exact Hnd4|]. intros m _. split; [exact HK4|]. split; [exact Hincl | discriminate].
    - destruct (fmp fc); cbn [fst snd].
      + split; [discriminate|]. split; [exact Hnd4 | discriminate].
      + split; [discriminate|]. split; [exact Hnd4|]. intros m _. split; [exact HK4|]. split; [exact Hincl | exact Hmainfalse].
  Qed.
End Once.

(* resolution does not touch the repositories *)
Lemma resolve_all_frame c models : forall s s', resolve_all c models s = inr s' ->
  reads s' = reads s /\ allm s' = allm s /\ heap s' = heap s /\ locals s' = locals s /\ constr s' = constr s.
Proof.
  induction models as [|x t IH]; intros s s'; cbn.
  - intro H. inversion H. auto.
  - destruct (resolve_refs c s x (refs_of x s)); [|discriminate]. intro H. apply IH in H. cbn in H. exact H.
Qed.

Lemma reads_finish_main c f m cached s : reads (snd (finish_main c f m cached s)) = reads s.
Proof.
  unfold finish_main.
  destruct (resolve_all c _ s) as [e|s2] eqn:E.
  - cbn [fst snd]. rewrite reads_handler. destruct cleanup_resolution_failure; [apply reads_remove_from_repos | reflexivity].
  - apply resolve_all_frame in E. destruct E as [Er _].
    destruct (first_obj_fail _ _).
    + cbn [fst snd]. rewrite reads_handler. destruct cleanup_resolution_failure; [rewrite reads_remove_from_repos|]; exact Er.
    + destruct (flag_of fmp m _); cbn [fst snd]; [|exact Er].
      destruct cleanup_model_processor_failure; [rewrite reads_remove_from_repos|]; exact Er.
Qed.
Lemma fst_finish_main_nofuel c f m cached s : fst (finish_main c f m cached s) <> inl EFuel.
Proof.
  unfold finish_main. destruct (resolve_all c _ s) as [e|s2] eqn:E.
  - cbn. revert E. generalize (filter (fun x => mem x (constr s)) (included m s)). intros l. revert s.
    induction l as [|x t IH]; intros s; cbn; [discriminate|].
    destruct (resolve_refs c s x (refs_of x s)); [apply IH|]. intro H. inversion H. discriminate.
  - destruct (first_obj_fail _ _) as [e|] eqn:Eo.
    + cbn. revert Eo. generalize (filter (fun x => mem x (constr s)) (included m s)). intros l.
      generalize (with_constr s2 (filter (fun x => negb (mem x l)) (constr s2))). intros s3.
      induction l as [|x t IH]; cbn; [discriminate|]. destruct (flag_of fobj x s3); [|exact IH].
      intro H. inversion H. discriminate.
    + destruct (flag_of fmp m _); cbn; discriminate.
Qed.

(* C17, first part: a top-level load never runs out of its fuel |files|+1, and opens no file twice. *)
Theorem load_main_once fs c f s :
  K fs (begin_op c s) ->
  fst (load_main fs c f s) <> inl EFuel /\ NoDup (reads (snd (load_main fs c f s))).
Proof.
  intro HK. unfold load_main.
  set (s0 := begin_op c s) in *.
  assert (Hr0 : reads s0 = []) by reflexivity.
  destruct (if cglobal c then dget f (allm s0) else None) as [m|] eqn:Ec.
  { destruct (flag_of fmp m s0); cbn [fst snd]; rewrite Hr0; split; try discriminate; constructor. }
  assert (Hf : ~ In f (keys s0)).
  { destruct (cglobal c) eqn:Eg; [apply dget_None_notin; exact Ec|]. subst s0. unfold begin_op. rewrite Eg. cbn. tauto. }
  destruct (load_file_once fs c (S (length fs)) true f s0 HK Hf ltac:(lia)
              ltac:(rewrite Hr0; constructor) ltac:(rewrite Hr0; intros x [])) as [A [B _]].
  destruct (load_file fs c (S (length fs)) true f s0) as [[e|m] s1]; cbn [fst snd] in *.
  - split; assumption.
  - split; [apply fst_finish_main_nofuel | rewrite reads_finish_main; exact B].
Qed.
