(* Proofs about the multi-file loading model (C17/C18). *)
From TxV Require Import Core.Base Model.RepoDefs Gen.SrcRepo Model.Repo.
Require Import Lia.

(* ------------------------------------------------------------------ facts from the source (Gen/SrcRepo.v) *)
Lemma src_register_before : register_before_imports = true. Proof. reflexivity. Qed.
Lemma src_cleanup_outer : cleanup_construction_failure = true. Proof. reflexivity. Qed.
Lemma src_cleanup_inner : cleanup_resolution_failure = true. Proof. reflexivity. Qed.
Lemma src_mp_on_cached : model_processors_on_cached = false. Proof. reflexivity. Qed.
Lemma src_cleanup_mp : cleanup_model_processor_failure = true. Proof. reflexivity. Qed.
Lemma src_lookup_order : lookup_order = [SOwn; SLocal; SBuiltin]. Proof. reflexivity. Qed.

(* ------------------------------------------------------------------ dictionaries *)
Notation keys s := (map fst (allm s)).
Notation vals s := (map snd (allm s)).

Lemma mem_In x l : mem x l = true <-> In x l.
Proof.
  unfold mem. rewrite existsb_exists. split.
  - intros [y [Hy E]]. apply Nat.eqb_eq in E. subst. exact Hy.
  - intro H. exists x. split; [exact H | apply Nat.eqb_refl].
Qed.
Lemma mem_false x l : mem x l = false <-> ~ In x l.
Proof.
  rewrite <- mem_In. destruct (mem x l); split; intro H; try reflexivity; try discriminate.
  exfalso; apply H; reflexivity.
Qed.

Section Dict.
  Context {A : Type}.
  Implicit Types (l : list (nat * A)).

  Lemma dget_dset_same k v l : dget k (dset k v l) = Some v.
  Proof.
    induction l as [|[k' v'] t IH]; cbn.
    - rewrite Nat.eqb_refl. reflexivity.
    - destruct (Nat.eqb k k') eqn:E; cbn; rewrite ?Nat.eqb_refl, ?E; auto.
  Qed.
  Lemma dget_dset_other k k' v l : k <> k' -> dget k' (dset k v l) = dget k' l.
  Proof.
    intro Hn. induction l as [|[k2 v2] t IH]; cbn.
    - destruct (Nat.eqb k' k) eqn:E; [apply Nat.eqb_eq in E; congruence | reflexivity].
    - destruct (Nat.eqb k k2) eqn:E; cbn.
      + apply Nat.eqb_eq in E. subst k2.
        destruct (Nat.eqb k' k) eqn:E2; [apply Nat.eqb_eq in E2; congruence | reflexivity].
      + destruct (Nat.eqb k' k2); auto.
  Qed.
  Lemma dget_None_notin k l : dget k l = None <-> ~ In k (map fst l).
  Proof.
    induction l as [|[k' v'] t IH]; cbn; [tauto|].
    destruct (Nat.eqb k k') eqn:E.
    - apply Nat.eqb_eq in E. subst. split; [discriminate | intro H; exfalso; apply H; auto].
    - apply Nat.eqb_neq in E. rewrite IH. split; intro H; [intros [H1|H1]; [congruence | tauto] | tauto].
  Qed.
  Lemma dget_In k v l : dget k l = Some v -> In (k, v) l.
  Proof.
    induction l as [|[k' v'] t IH]; cbn; [discriminate|].
    destruct (Nat.eqb k k') eqn:E.
    - apply Nat.eqb_eq in E. intro H. inversion H. subst. auto.
    - auto.
  Qed.
  Lemma In_dget k v l : NoDup (map fst l) -> In (k, v) l -> dget k l = Some v.
  Proof.
    induction l as [|[k' v'] t IH]; cbn; [tauto|]. intros Hnd [H|H].
    - inversion H. subst. rewrite Nat.eqb_refl. reflexivity.
    - inversion Hnd as [|? ? Hni Hnd']. subst. destruct (Nat.eqb k k') eqn:E.
      + apply Nat.eqb_eq in E. subst. exfalso. apply Hni. apply in_map_iff. exists (k', v). auto.
      + auto.
  Qed.
  Lemma dhas_true k l : dhas k l = true <-> In k (map fst l).
  Proof.
    unfold dhas. destruct (dget k l) eqn:E.
    - split; [|reflexivity]. intros _. apply dget_In in E. apply in_map_iff. exists (k, a). auto.
    - split; [discriminate|]. intro H. apply dget_None_notin in E. tauto.
  Qed.
  Lemma dhas_false k l : dhas k l = false <-> ~ In k (map fst l).
  Proof.
    rewrite <- dhas_true. destruct (dhas k l); split; intro H; try reflexivity; try discriminate.
    exfalso; apply H; reflexivity.
  Qed.
  Lemma dset_same k v l : dget k l = Some v -> dset k v l = l.
  Proof.
    induction l as [|[k' v'] t IH]; cbn; [discriminate|].
    destruct (Nat.eqb k k') eqn:E.
    - apply Nat.eqb_eq in E. intro H. inversion H. subst. reflexivity.
    - intro H. rewrite IH; auto.
  Qed.
  Lemma dset_fresh k v l : dget k l = None -> dset k v l = l ++ [(k, v)].
  Proof.
    induction l as [|[k' v'] t IH]; cbn; [reflexivity|].
    destruct (Nat.eqb k k'); [discriminate|]. intro H. rewrite IH; auto.
  Qed.
  Lemma keys_dset_in k v l : In k (map fst l) -> map fst (dset k v l) = map fst l.
  Proof.
    induction l as [|[k' v'] t IH]; cbn; [tauto|]. intros H.
    destruct (Nat.eqb k k') eqn:E; cbn.
    - apply Nat.eqb_eq in E. subst. reflexivity.
    - apply Nat.eqb_neq in E. destruct H as [H|H]; [congruence|]. rewrite IH; auto.
  Qed.
  Lemma keys_dset_notin k v l : ~ In k (map fst l) -> map fst (dset k v l) = map fst l ++ [k].
  Proof. intro H. apply dget_None_notin in H. rewrite dset_fresh by exact H. rewrite map_app. reflexivity. Qed.
  Lemma keys_dset_cases k v l :
    (In k (map fst l) /\ map fst (dset k v l) = map fst l) \/ (~ In k (map fst l) /\ map fst (dset k v l) = map fst l ++ [k]).
  Proof.
    destruct (in_dec Nat.eq_dec k (map fst l)) as [H|H]; [left | right]; split; auto using keys_dset_in, keys_dset_notin.
  Qed.
  Lemma In_ddel kv k l : In kv (ddel k l) -> In kv l.
  Proof.
    induction l as [|[k' v'] t IH]; cbn; [tauto|]. destruct (Nat.eqb k k'); cbn; intuition.
  Qed.
End Dict.

Lemma NoDup_snoc {A} (l : list A) x : NoDup l -> ~ In x l -> NoDup (l ++ [x]).
Proof.
  intros Hnd Hni. induction l as [|a t IH]; cbn.
  - constructor; [tauto | constructor].
  - inversion Hnd; subst. constructor.
    + rewrite in_app_iff. cbn. intros [H|[H|[]]]; [tauto | subst; apply Hni; left; reflexivity].
    + apply IH; [assumption | intro H; apply Hni; right; exact H].
Qed.

(* ------------------------------------------------------------------ projections of the state updates *)
Lemma allm_set_local m g v s : allm (set_local m g v s) = allm s. Proof. reflexivity. Qed.
Lemma reads_set_local m g v s : reads (set_local m g v s) = reads s. Proof. reflexivity. Qed.
Lemma heap_set_local m g v s : heap (set_local m g v s) = heap s. Proof. reflexivity. Qed.
Lemma constr_set_local m g v s : constr (set_local m g v s) = constr s. Proof. reflexivity. Qed.
Lemma allm_set_all g v s : allm (set_all g v s) = dset g v (allm s). Proof. reflexivity. Qed.
Lemma reads_set_all g v s : reads (set_all g v s) = reads s. Proof. reflexivity. Qed.
Lemma heap_set_all g v s : heap (set_all g v s) = heap s. Proof. reflexivity. Qed.
Lemma constr_set_all g v s : constr (set_all g v s) = constr s. Proof. reflexivity. Qed.
Lemma locals_set_all g v s : locals (set_all g v s) = locals s. Proof. reflexivity. Qed.
Lemma allm_alloc g fc s : allm (alloc g fc s) = allm s. Proof. reflexivity. Qed.
Lemma reads_alloc g fc s : reads (alloc g fc s) = reads s. Proof. reflexivity. Qed.
Lemma heap_alloc g fc s : heap (alloc g fc s) = heap s ++ [mkMinfo g (curop s) fc]. Proof. reflexivity. Qed.
Lemma constr_alloc g fc s : constr (alloc g fc s) = length (heap s) :: constr s. Proof. reflexivity. Qed.
Lemma locals_alloc g fc s : locals (alloc g fc s) = locals s. Proof. reflexivity. Qed.
Lemma allm_with_reads s r : allm (with_reads s r) = allm s. Proof. reflexivity. Qed.
Lemma reads_with_reads s r : reads (with_reads s r) = r. Proof. reflexivity. Qed.
Lemma heap_with_reads s r : heap (with_reads s r) = heap s. Proof. reflexivity. Qed.
Lemma constr_with_reads s r : constr (with_reads s r) = constr s. Proof. reflexivity. Qed.
Lemma locals_with_reads s r : locals (with_reads s r) = locals s. Proof. reflexivity. Qed.
Global Hint Rewrite allm_set_local reads_set_local heap_set_local constr_set_local allm_set_all reads_set_all heap_set_all
  constr_set_all locals_set_all allm_alloc reads_alloc heap_alloc constr_alloc locals_alloc allm_with_reads reads_with_reads
  heap_with_reads constr_with_reads locals_with_reads : st.

Lemma reads_remove_from_repos models rem s : reads (remove_from_repos models rem s) = reads s.
Proof. unfold remove_from_repos. revert s. induction models as [|x t IH]; intro s; cbn; [reflexivity|]. rewrite IH. reflexivity. Qed.
Lemma heap_remove_from_repos models rem s : heap (remove_from_repos models rem s) = heap s.
Proof. unfold remove_from_repos. revert s. induction models as [|x t IH]; intro s; cbn; [reflexivity|]. rewrite IH. reflexivity. Qed.
Lemma constr_remove_from_repos models rem s : constr (remove_from_repos models rem s) = constr s.
Proof. unfold remove_from_repos. revert s. induction models as [|x t IH]; intro s; cbn; [reflexivity|]. rewrite IH. reflexivity. Qed.
Lemma targets_remove_from_repos models rem s : targets (remove_from_repos models rem s) = targets s.
Proof. unfold remove_from_repos. revert s. induction models as [|x t IH]; intro s; cbn; [reflexivity|]. rewrite IH. reflexivity. Qed.
Lemma curop_remove_from_repos models rem s : curop (remove_from_repos models rem s) = curop s.
Proof. unfold remove_from_repos. revert s. induction models as [|x t IH]; intro s; cbn; [reflexivity|]. rewrite IH. reflexivity. Qed.
Lemma reads_handler m s : reads (handler m s) = reads s.
Proof. unfold handler. destruct cleanup_construction_failure; [apply reads_remove_from_repos | reflexivity]. Qed.
Lemma heap_handler m s : heap (handler m s) = heap s.
Proof. unfold handler. destruct cleanup_construction_failure; [apply heap_remove_from_repos | reflexivity]. Qed.
Lemma constr_handler m s : constr (handler m s) = constr s.
Proof. unfold handler. destruct cleanup_construction_failure; [apply constr_remove_from_repos | reflexivity]. Qed.

Lemma reads_update_in_repo m mf s : reads (update_in_repo m mf s) = reads s.
Proof. unfold update_in_repo. destruct (dhas mf (allm s)); reflexivity. Qed.
Lemma keys_update_in_repo m mf s :
  In mf (keys (update_in_repo m mf s)) /\ incl (keys s) (keys (update_in_repo m mf s)) /\
  (keys (update_in_repo m mf s) = keys s \/ (~ In mf (keys s) /\ keys (update_in_repo m mf s) = keys s ++ [mf])).
Proof.
  unfold update_in_repo. destruct (dhas mf (allm s)) eqn:E.
  - apply dhas_true in E. repeat split; auto using incl_refl.
  - apply dhas_false in E. autorewrite with st. rewrite keys_dset_notin by exact E. repeat split.
    + apply in_or_app. right. left. reflexivity.
    + apply incl_appl, incl_refl.
    + right. auto.
Qed.


Lemma cached_load_returns_cached_raw fs c f s m :
  cglobal c = true -> dget f (allm s) = Some m ->
  fst (load_main_raw fs c f s) = inr m /\ reads (snd (load_main_raw fs c f s)) = [] /\ allm (snd (load_main_raw fs c f s)) = allm s.
Proof.
  intros Hg Hc. unfold load_main_raw, begin_op. rewrite Hg. cbn [allm with_reads].
  rewrite Hc, src_mp_on_cached. cbn. auto.
Qed.

(* ================================================================== 1. fuel bound and "each file is read once" *)
Section Once.
  Variable fs : list file.
  Variable c : cfg.
  Let n := length fs.

  (* the key set of all_models is duplicate free; fk counts the registered FILES (keys below |files|; the invented
     names of string-loaded models are above) *)
  Definition K (s : state) : Prop := NoDup (keys s).
  Definition fk (s : state) : nat := length (filter (fun x => Nat.ltb x n) (keys s)).

  Lemma filter_lt_incl_seq l : incl (filter (fun x => Nat.ltb x n) l) (seq 0 n).
  Proof. intros k Hk. apply filter_In in Hk as [_ Hk]. apply Nat.ltb_lt in Hk. apply in_seq. lia. Qed.
  Lemma K_length s : K s -> fk s <= n.
  Proof.
    intros Hnd. unfold fk.
    pose proof (NoDup_incl_length (NoDup_filter (fun x => Nat.ltb x n) Hnd) (filter_lt_incl_seq (keys s))) as H.
    rewrite seq_length in H. exact H.
  Qed.
  Lemma K_fresh_length s g : K s -> g < n -> ~ In g (keys s) -> fk s + 1 <= n.
  Proof.
    intros Hnd Hg Hni. unfold fk.
    assert (H : length (g :: filter (fun x => Nat.ltb x n) (keys s)) <= length (seq 0 n)).
    { apply NoDup_incl_length.
      - constructor; [intro H; apply filter_In in H; tauto | apply NoDup_filter; exact Hnd].
      - intros k [Hk|Hk]; [subst; apply in_seq; lia | apply filter_lt_incl_seq in Hk; exact Hk]. }
    rewrite seq_length in H. cbn [length] in H. lia.
  Qed.
  Lemma fk_mono s s' : K s -> incl (keys s) (keys s') -> fk s <= fk s'.
  Proof.
    intros Hnd Hi. unfold fk. apply NoDup_incl_length; [apply NoDup_filter; exact Hnd|].
    intros k Hk. apply filter_In in Hk as [Hk1 Hk2]. apply filter_In. split; [apply Hi; exact Hk1 | exact Hk2].
  Qed.
  Lemma fk_snoc_file l g : g < n ->
    length (filter (fun x => Nat.ltb x n) (l ++ [g])) = length (filter (fun x => Nat.ltb x n) l) + 1.
  Proof.
    intro Hg. rewrite filter_app, app_length. cbn [filter]. apply Nat.ltb_lt in Hg. rewrite Hg. reflexivity.
  Qed.
  Lemma K_dset s g v : K s -> K (set_all g v s).
  Proof.
    intros Hnd. unfold K. autorewrite with st.
    destruct (keys_dset_cases g v (allm s)) as [[Hin ->]|[Hni ->]]; [exact Hnd | apply NoDup_snoc; assumption].
  Qed.
  Lemma K_update s m mf : K s -> K (update_in_repo m mf s).
  Proof. intros HK. unfold update_in_repo. destruct (dhas mf (allm s)); [exact HK | apply K_dset; assumption]. Qed.

  (* specification of a loader for imported files, at a given fuel *)
  Definition loader_ok (k : nat) (ld : nat -> state -> (err + nat) * state) : Prop :=
    forall g s, K s -> ~ In g (keys s) -> n + 1 <= k + fk s ->
      NoDup (reads s) -> incl (reads s) (keys s) ->
      fst (ld g s) <> inl EFuel /\ NoDup (reads (snd (ld g s))) /\
      (forall m, fst (ld g s) = inr m ->
         K (snd (ld g s)) /\ incl (keys s) (keys (snd (ld g s))) /\
         incl (reads (snd (ld g s))) (keys (snd (ld g s)))).

  Lemma load_model_once k ld m g s r s' :
    loader_ok k ld -> K s -> n + 1 <= k + fk s -> NoDup (reads s) -> incl (reads s) (keys s) ->
    load_model ld m g s = (r, s') ->
    r <> Some EFuel /\ NoDup (reads s') /\
    (r = None -> K s' /\ incl (keys s) (keys s') /\ incl (reads s') (keys s')).
  Proof.
    intros Hld HK Hf Hnd Hinc. unfold load_model.
    destruct (dhas g (local_of m s)).
    { intro H. inversion H; subst. split; [discriminate|]. split; [exact Hnd|]. intros _.
      split; [exact HK|]. split; [apply incl_refl | exact Hinc]. }
    destruct (dget g (allm s)) as [m'|] eqn:Eg.
    { intro H. inversion H; subst. autorewrite with st. split; [discriminate|]. split; [exact Hnd|]. intros _.
      split; [exact HK|]. split; [apply incl_refl | exact Hinc]. }
    apply dget_None_notin in Eg.
    destruct (Hld g s HK Eg Hf Hnd Hinc) as [Hnf [Hnd' Hok]].
    destruct (ld g s) as [[e|m'] s1] eqn:El; cbn [fst snd] in *.
    - intro H. inversion H; subst. split; [congruence|]. split; [exact Hnd' | discriminate].
    - intro H. inversion H; subst. destruct (Hok m' eq_refl) as [HK1 [Hi1 Hr1]].
      split; [discriminate|]. split; [autorewrite with st; exact Hnd'|]. intros _.
      split; [apply K_dset; exact HK1|]. autorewrite with st.
      destruct (keys_dset_cases g m' (allm s1)) as [[_ ->]|[_ ->]]; [split; assumption|].
      split; [apply incl_appl; exact Hi1 | apply incl_appl; exact Hr1].
  Qed.

  Lemma load_files_once k ld m gs : forall s r s',
    loader_ok k ld -> K s -> n + 1 <= k + fk s -> NoDup (reads s) -> incl (reads s) (keys s) ->
    load_files ld m gs s = (r, s') ->
    r <> Some EFuel /\ NoDup (reads s') /\
    (r = None -> K s' /\ incl (keys s) (keys s') /\ incl (reads s') (keys s')).
  Proof.
    induction gs as [|g gs IH]; intros s r s' Hld HK Hf Hnd Hinc; cbn.
    - intro H. inversion H; subst. split; [discriminate|]. split; [exact Hnd|]. intros _.
      split; [exact HK|]. split; [apply incl_refl | exact Hinc].
    - destruct (load_model ld m g s) as [r1 s1] eqn:E1.
      destruct (load_model_once _ _ _ _ _ _ _ Hld HK Hf Hnd Hinc E1) as [Hnf [Hnd1 Hok]].
      destruct r1 as [e|].
      + intro H. inversion H; subst. split; [exact Hnf|]. split; [exact Hnd1 | discriminate].
      + destruct (Hok eq_refl) as [HK1 [Hi1 Hr1]]. intro H.
        assert (Hlen : fk s <= fk s1) by (apply fk_mono; assumption).
        destruct (IH s1 r s' Hld HK1 ltac:(lia) Hnd1 Hr1 H) as [Hnf2 [Hnd2 Hok2]].
        split; [exact Hnf2|]. split; [exact Hnd2|]. intro Hr. destruct (Hok2 Hr) as [HK2 [Hi2 Hr2]].
        split; [exact HK2|]. split; [eapply incl_tran; eassumption | exact Hr2].
  Qed.

  Lemma load_stmts_once k ld m mf stmts : forall s r s',
    loader_ok k ld -> K s ->
    n + 1 <= k + fk (update_in_repo m mf s) ->
    NoDup (reads s) -> (forall x, In x (reads s) -> In x (keys s) \/ x = mf) ->
    load_stmts ld m mf stmts s = (r, s') ->
    r <> Some EFuel /\ NoDup (reads s') /\
    (r = None -> K s' /\ incl (keys s) (keys s') /\ (forall x, In x (reads s') -> In x (keys s') \/ x = mf)).
  Proof.
    induction stmts as [|gs rest IH]; intros s r s' Hld HK Hf Hnd Hinc; cbn.
    - intro H. inversion H; subst. split; [discriminate|]. split; [exact Hnd|]. intros _.
      split; [exact HK|]. split; [apply incl_refl | exact Hinc].
    - pose proof (K_update s m mf HK) as HK1.
      destruct (keys_update_in_repo m mf s) as [Hin1 [Hi1 _]].
      assert (Hr1 : incl (reads (update_in_repo m mf s)) (keys (update_in_repo m mf s))).
      { rewrite reads_update_in_repo. intros x Hx. destruct (Hinc x Hx) as [H|H]; [apply Hi1; exact H | subst; exact Hin1]. }
      assert (Hnd1 : NoDup (reads (update_in_repo m mf s))) by (rewrite reads_update_in_repo; exact Hnd).
      destruct gs as [|g0 gs0].
      + intro H. inversion H; subst. split; [discriminate|]. split; [exact Hnd1 | discriminate].
      + destruct (load_files ld m (g0 :: gs0) (update_in_repo m mf s)) as [r2 s2] eqn:E2.
        destruct (load_files_once _ _ _ _ _ _ _ Hld HK1 Hf Hnd1 Hr1 E2) as [Hnf2 [Hnd2 Hok2]].
        destruct r2 as [e|].
        * intro H. inversion H; subst. split; [exact Hnf2|]. split; [exact Hnd2 | discriminate].
        * destruct (Hok2 eq_refl) as [HK2 [Hi2 Hr2]]. intro H.
          assert (Hlen : fk (update_in_repo m mf s) <= fk s2) by (apply fk_mono; assumption).
          assert (Hin2 : In mf (keys s2)) by (apply Hi2; exact Hin1).
          assert (Hf2 : n + 1 <= k + fk (update_in_repo m mf s2)).
          { destruct (keys_update_in_repo m mf s2) as [_ [Hi3 _]].
            assert (fk s2 <= fk (update_in_repo m mf s2)) by (apply fk_mono; assumption). lia. }
          destruct (IH s2 r s' Hld HK2 Hf2 Hnd2 ltac:(intros x Hx; left; apply Hr2; exact Hx) H) as [Hnf3 [Hnd3 Hok3]].
          split; [exact Hnf3|]. split; [exact Hnd3|]. intro Hr. destruct (Hok3 Hr) as [HK3 [Hi3 Hr3]].
          split; [exact HK3|]. split; [|exact Hr3]. eapply incl_tran; [exact Hi1|]. eapply incl_tran; eassumption.
  Qed.

  (* load_file: the fuel never runs out as long as fuel + |registered files| exceeds the number of files *)
  Lemma load_file_once fuel : forall main g s,
    K s -> ~ In g (keys s) -> n + 1 <= fuel + fk s ->
    NoDup (reads s) -> incl (reads s) (keys s) ->
    fst (load_file fs c fuel main g s) <> inl EFuel /\ NoDup (reads (snd (load_file fs c fuel main g s))) /\
    (forall m, fst (load_file fs c fuel main g s) = inr m ->
       K (snd (load_file fs c fuel main g s)) /\ incl (keys s) (keys (snd (load_file fs c fuel main g s))) /\
       (main = false -> In g (keys (snd (load_file fs c fuel main g s))) /\
                        incl (reads (snd (load_file fs c fuel main g s))) (keys (snd (load_file fs c fuel main g s))))).
  Proof.
    induction fuel as [|k IH]; intros main g s HK Hg Hf Hnd Hinc.
    { exfalso. pose proof (K_length s HK). (* fuel 0: n + 1 <= fk <= n *) lia. }
    cbn [load_file].
    destruct (nth_error fs g) as [fc|] eqn:Efc.
    2:{ cbn. split; [discriminate|]. split; [exact Hnd | discriminate]. }
    assert (Hgn : g < n) by (apply nth_error_Some; congruence).
    assert (Hfresh : ~ In g (reads s)) by (intro H; apply Hg, Hinc, H).
    assert (Hnd1 : NoDup (reads s ++ [g])) by (apply NoDup_snoc; assumption).
    destruct (fsyn fc).
    { cbn. split; [discriminate|]. split; [exact Hnd1 | discriminate]. }
    rewrite src_register_before.
    set (s1 := with_reads s (reads s ++ [g])).
    set (mid := length (heap s1)).
    set (s2 := alloc g fc s1).
    set (s3 := if (main && negb (cglobal c))%bool then s2 else set_all g mid s2).
    assert (HK3 : K s3).
    { subst s3. destruct (main && negb (cglobal c))%bool; [exact HK | apply K_dset; exact HK]. }
    assert (Hkeys3 : (keys s3 = keys s /\ (main && negb (cglobal c))%bool = true) \/
                     (keys s3 = keys s ++ [g] /\ (main && negb (cglobal c))%bool = false)).
    { subst s3. destruct (main && negb (cglobal c))%bool; [left; split; reflexivity|]. right. split; [|reflexivity].
      autorewrite with st. apply keys_dset_notin. exact Hg. }
    assert (Hreads3 : reads s3 = reads s ++ [g]).
    { subst s3. destruct (main && negb (cglobal c))%bool; reflexivity. }
    assert (Hld : loader_ok k (load_file fs c k false)).
    { intros g' s' HK' Hg' Hf' Hnd' Hinc'. destruct (IH false g' s' HK' Hg' Hf' Hnd' Hinc') as [A [B C]].
      split; [exact A|]. split; [exact B|]. intros m Hm. destruct (C m Hm) as [C1 [C2 C3]]. destruct (C3 eq_refl) as [_ D2]. auto. }
    assert (Hpre3 : forall x, In x (reads s3) -> In x (keys s3) \/ x = g).
    { rewrite Hreads3. intros x Hx. apply in_app_or in Hx as [Hx|[Hx|[]]]; [left|right; auto].
      destruct Hkeys3 as [[-> _]|[-> _]]; [apply Hinc, Hx | apply in_or_app; left; apply Hinc, Hx]. }
    assert (Hf3 : n + 1 <= k + fk (update_in_repo mid g s3)).
    { destruct (keys_update_in_repo mid g s3) as [Hin [Hi Hc]].
      destruct Hkeys3 as [[E _]|[E _]].
      - destruct Hc as [Hc|[Hni Hc]].
        + exfalso. rewrite Hc, E in Hin. tauto.
        + unfold fk in *. rewrite Hc, E, fk_snoc_file by exact Hgn. lia.
      - assert (H : fk s3 <= fk (update_in_repo mid g s3)) by (apply fk_mono; assumption).
        unfold fk in *. rewrite E, fk_snoc_file in H by exact Hgn. lia. }
    assert (Hnd3 : NoDup (reads s3)) by (rewrite Hreads3; exact Hnd1).
    destruct (if (clazy c && is_nil (frefs fc))%bool then (None, s3)
              else load_stmts (load_file fs c k false) mid g (fimports fc) s3) as [r s4] eqn:E4.
    assert (Hres : r <> Some EFuel /\ NoDup (reads s4) /\
                   (r = None -> K s4 /\ incl (keys s3) (keys s4) /\ (forall x, In x (reads s4) -> In x (keys s4) \/ x = g))).
    { destruct (clazy c && is_nil (frefs fc))%bool.
      - inversion E4; subst. split; [discriminate|]. split; [exact Hnd3|]. intros _. split; [exact HK3|]. split; [apply incl_refl | exact Hpre3].
      - exact (load_stmts_once _ _ _ _ _ _ _ _ Hld HK3 Hf3 Hnd3 Hpre3 E4). }
    destruct Hres as [Hnf [Hnd4 Hok]].
    destruct r as [e|].
    { cbn [fst snd]. split; [congruence|]. split; [rewrite reads_handler; exact Hnd4 | discriminate]. }
    destruct (Hok eq_refl) as [HK4 [Hi4 Hr4]].
    assert (Hincl : incl (keys s) (keys s4)).
    { eapply incl_tran; [|exact Hi4]. destruct Hkeys3 as [[-> _]|[-> _]]; [apply incl_refl | apply incl_appl, incl_refl]. }
    assert (Hmainfalse : main = false -> In g (keys s4) /\ incl (reads s4) (keys s4)).
    { intro Hm. subst main. destruct Hkeys3 as [[_ E]|[E _]].
      - discriminate E.
      - assert (Hg4 : In g (keys s4)) by (apply Hi4; rewrite E; apply in_or_app; right; left; reflexivity).
        split; [exact Hg4|]. intros x Hx. destruct (Hr4 x Hx) as [H|H]; [exact H | subst; exact Hg4]. }
    destruct main.
    - cbn [fst snd]. split; [discriminate|]. split; [exact Hnd4|]. intros m _. split; [exact HK4|]. split; [exact Hincl | discriminate].
    - destruct (fmp fc); cbn [fst snd].
      + split; [discriminate|]. split; [exact Hnd4 | discriminate].
      + split; [discriminate|]. split; [exact Hnd4|]. intros m _. split; [exact HK4|]. split; [exact Hincl | exact Hmainfalse].
  Qed.
  (* the same with an external cache (imports across languages): the fuel never runs out as long as fuel + |registered files| exceeds the number of files *)
  Lemma load_file_x_once xc fuel : forall main g s,
    K s -> ~ In g (keys s) -> n + 1 <= fuel + fk s ->
    NoDup (reads s) -> incl (reads s) (keys s) ->
    fst (load_file_x xc fs c fuel main g s) <> inl EFuel /\ NoDup (reads (snd (load_file_x xc fs c fuel main g s))) /\
    (forall m, fst (load_file_x xc fs c fuel main g s) = inr m ->
       K (snd (load_file_x xc fs c fuel main g s)) /\ incl (keys s) (keys (snd (load_file_x xc fs c fuel main g s))) /\
       (main = false -> In g (keys (snd (load_file_x xc fs c fuel main g s))) /\
                        incl (reads (snd (load_file_x xc fs c fuel main g s))) (keys (snd (load_file_x xc fs c fuel main g s))))).
  Proof.
    induction fuel as [|k IH]; intros main g s HK Hg Hf Hnd Hinc.
    { exfalso. pose proof (K_length s HK). (* fuel 0: n + 1 <= fk <= n *) lia. }
    cbn [load_file_x].
    destruct (nth_error fs g) as [fc|] eqn:Efc.
    2:{ cbn. split; [discriminate|]. split; [exact Hnd | discriminate]. }
    assert (Hgn : g < n) by (apply nth_error_Some; congruence).
    assert (Hfresh : ~ In g (reads s)) by (intro H; apply Hg, Hinc, H).
    assert (Hnd1 : NoDup (reads s ++ [g])) by (apply NoDup_snoc; assumption).
    destruct (fsyn fc).
    { cbn. split; [discriminate|]. split; [exact Hnd1 | discriminate]. }
    rewrite src_register_before.
    set (s1 := with_reads s (reads s ++ [g])).
    set (mid := length (heap s1)).
    set (s2 := alloc g fc s1).
    set (s3 := if (main && negb (cglobal c))%bool then s2 else set_all g mid s2).
    assert (HK3 : K s3).
    { subst s3. destruct (main && negb (cglobal c))%bool; [exact HK | apply K_dset; exact HK]. }
    assert (Hkeys3 : (keys s3 = keys s /\ (main && negb (cglobal c))%bool = true) \/
                     (keys s3 = keys s ++ [g] /\ (main && negb (cglobal c))%bool = false)).
    { subst s3. destruct (main && negb (cglobal c))%bool; [left; split; reflexivity|]. right. split; [|reflexivity].
      autorewrite with st. apply keys_dset_notin. exact Hg. }
    assert (Hreads3 : reads s3 = reads s ++ [g]).
    { subst s3. destruct (main && negb (cglobal c))%bool; reflexivity. }
    assert (Hld : loader_ok k (with_ext xc (load_file_x xc fs c k false))).
    { intros g' s' HK' Hg' Hf' Hnd' Hinc'. unfold with_ext. destruct (xc g').
      { cbn [fst snd]. split; [discriminate|]. split; [exact Hnd'|]. intros m0 _. split; [exact HK'|]. split; [apply incl_refl | exact Hinc']. }
      destruct (IH false g' s' HK' Hg' Hf' Hnd' Hinc') as [A [B C]].
      split; [exact A|]. split; [exact B|]. intros m Hm. destruct (C m Hm) as [C1 [C2 C3]]. destruct (C3 eq_refl) as [_ D2]. auto. }
    assert (Hpre3 : forall x, In x (reads s3) -> In x (keys s3) \/ x = g).
    { rewrite Hreads3. intros x Hx. apply in_app_or in Hx as [Hx|[Hx|[]]]; [left|right; auto].
      destruct Hkeys3 as [[-> _]|[-> _]]; [apply Hinc, Hx | apply in_or_app; left; apply Hinc, Hx]. }
    assert (Hf3 : n + 1 <= k + fk (update_in_repo mid g s3)).
    { destruct (keys_update_in_repo mid g s3) as [Hin [Hi Hc]].
      destruct Hkeys3 as [[E _]|[E _]].
      - destruct Hc as [Hc|[Hni Hc]].
        + exfalso. rewrite Hc, E in Hin. tauto.
        + unfold fk in *. rewrite Hc, E, fk_snoc_file by exact Hgn. lia.
      - assert (H : fk s3 <= fk (update_in_repo mid g s3)) by (apply fk_mono; assumption).
        unfold fk in *. rewrite E, fk_snoc_file in H by exact Hgn. lia. }
    assert (Hnd3 : NoDup (reads s3)) by (rewrite Hreads3; exact Hnd1).
    destruct (if (clazy c && is_nil (frefs fc))%bool then (None, s3)
              else load_stmts (with_ext xc (load_file_x xc fs c k false)) mid g (fimports fc) s3) as [r s4] eqn:E4.
    assert (Hres : r <> Some EFuel /\ NoDup (reads s4) /\
                   (r = None -> K s4 /\ incl (keys s3) (keys s4) /\ (forall x, In x (reads s4) -> In x (keys s4) \/ x = g))).
    { destruct (clazy c && is_nil (frefs fc))%bool.
      - inversion E4; subst. split; [discriminate|]. split; [exact Hnd3|]. intros _. split; [exact HK3|]. split; [apply incl_refl | exact Hpre3].
      - exact (load_stmts_once _ _ _ _ _ _ _ _ Hld HK3 Hf3 Hnd3 Hpre3 E4). }
    destruct Hres as [Hnf [Hnd4 Hok]].
    destruct r as [e|].
    { cbn [fst snd]. split; [congruence|]. split; [rewrite reads_handler; exact Hnd4 | discriminate]. }
    destruct (Hok eq_refl) as [HK4 [Hi4 Hr4]].
    assert (Hincl : incl (keys s) (keys s4)).
    { eapply incl_tran; [|exact Hi4]. destruct Hkeys3 as [[-> _]|[-> _]]; [apply incl_refl | apply incl_appl, incl_refl]. }
    assert (Hmainfalse : main = false -> In g (keys s4) /\ incl (reads s4) (keys s4)).
    { intro Hm. subst main. destruct Hkeys3 as [[_ E]|[E _]].
      - discriminate E.
      - assert (Hg4 : In g (keys s4)) by (apply Hi4; rewrite E; apply in_or_app; right; left; reflexivity).
        split; [exact Hg4|]. intros x Hx. destruct (Hr4 x Hx) as [H|H]; [exact H | subst; exact Hg4]. }
    destruct main.
    - cbn [fst snd]. split; [discriminate|]. split; [exact Hnd4|]. intros m _. split; [exact HK4|]. split; [exact Hincl | discriminate].
    - destruct (fmp fc); cbn [fst snd].
      + split; [discriminate|]. split; [exact Hnd4 | discriminate].
      + split; [discriminate|]. split; [exact Hnd4|]. intros m _. split; [exact HK4|]. split; [exact Hincl | exact Hmainfalse].
  Qed.
End Once.

(* resolution does not touch the repositories *)
Lemma resolve_all_frame c models : forall s s', resolve_all c models s = inr s' ->
  reads s' = reads s /\ allm s' = allm s /\ heap s' = heap s /\ locals s' = locals s /\ constr s' = constr s.
Proof.
  induction models as [|x t IH]; intros s s'; cbn.
  - intro H. inversion H. auto.
  - destruct (resolve_refs c s x (refs_of x s)); [|discriminate]. intro H. apply IH in H. cbn in H. exact H.
Qed.

Lemma reads_finish_main c f m cached s : reads (snd (finish_main c f m cached s)) = reads s.
Proof.
  unfold finish_main.
  destruct (resolve_all c _ s) as [e|s2] eqn:E.
  - cbn [fst snd]. rewrite reads_handler. destruct cleanup_resolution_failure; [apply reads_remove_from_repos | reflexivity].
  - apply resolve_all_frame in E. destruct E as [Er _].
    destruct (first_obj_fail _ _).
    + cbn [fst snd]. rewrite reads_handler. destruct cleanup_resolution_failure; [rewrite reads_remove_from_repos|]; exact Er.
    + destruct (flag_of fmp m _); cbn [fst snd]; [|exact Er].
      destruct cleanup_model_processor_failure; [rewrite reads_remove_from_repos|]; exact Er.
Qed.
Lemma fst_finish_main_nofuel c f m cached s : fst (finish_main c f m cached s) <> inl EFuel.
Proof.
  unfold finish_main. destruct (resolve_all c _ s) as [e|s2] eqn:E.
  - cbn. revert E. generalize (filter (fun x => mem x (constr s)) (included m s)). intros l. revert s.
    induction l as [|x t IH]; intros s; cbn; [discriminate|].
    destruct (resolve_refs c s x (refs_of x s)); [apply IH|]. intro H. inversion H. discriminate.
  - destruct (first_obj_fail _ _) as [e|] eqn:Eo.
    + cbn. revert Eo. generalize (filter (fun x => mem x (constr s)) (included m s)). intros l.
      generalize (with_constr s2 (filter (fun x => negb (mem x l)) (constr s2))). intros s3.
      induction l as [|x t IH]; cbn; [discriminate|]. destruct (flag_of fobj x s3); [|exact IH].
      intro H. inversion H. discriminate.
    + destruct (flag_of fmp m _); cbn; discriminate.
Qed.

(* C17, first part: a top-level load never runs out of its fuel |files|+1, and opens no file twice. *)
Theorem load_main_once_raw fs c f s :
  K (begin_op c s) ->
  fst (load_main_raw fs c f s) <> inl EFuel /\ NoDup (reads (snd (load_main_raw fs c f s))).
Proof.
  intro HK. unfold load_main_raw.
  set (s0 := begin_op c s) in *.
  assert (Hr0 : reads s0 = []) by reflexivity.
  destruct (if cglobal c then dget f (allm s0) else None) as [m|] eqn:Ec.
  { destruct (model_processors_on_cached && flag_of fmp m s0)%bool; cbn [fst snd]; rewrite Hr0; split; try discriminate; constructor. }
  assert (Hf : ~ In f (keys s0)).
  { destruct (cglobal c) eqn:Eg; [apply dget_None_notin; exact Ec|]. subst s0. unfold begin_op. rewrite Eg. cbn. tauto. }
  destruct (load_file_once fs c (S (length fs)) true f s0 HK Hf ltac:(lia)
              ltac:(rewrite Hr0; constructor) ltac:(rewrite Hr0; intros x [])) as [A [B _]].
  destruct (load_file fs c (S (length fs)) true f s0) as [[e|m] s1]; cbn [fst snd] in *.
  - split; assumption.
  - split; [apply fst_finish_main_nofuel | rewrite reads_finish_main; exact B].
Qed.

(* ================================================================== 2. removal from the repositories *)
Lemma last_key_of_None v l : ~ In v (map snd l) -> last_key_of v l = None.
Proof.
  induction l as [|[k v'] t IH]; cbn; [reflexivity|]. intro H.
  rewrite IH by tauto. destruct (Nat.eqb v' v) eqn:E; [apply Nat.eqb_eq in E; subst; tauto | reflexivity].
Qed.
Lemma last_key_of_In v l k : last_key_of v l = Some k -> In k (map fst l).
Proof.
  induction l as [|[k' v'] t IH]; cbn; [discriminate|].
  destruct (last_key_of v t) as [k2|].
  - intro H. inversion H. subst. right. apply IH. reflexivity.
  - destruct (Nat.eqb v' v); [|discriminate]. intro H. inversion H. auto.
Qed.
Lemma last_key_of_val v l k : last_key_of v l = Some k -> In v (map snd l).
Proof.
  revert k. induction l as [|[k' v'] t IH]; intros k; cbn; [discriminate|].
  destruct (last_key_of v t) as [k2|].
  - intros _. right. eapply IH. reflexivity.
  - destruct (Nat.eqb v' v) eqn:E; [|discriminate]. apply Nat.eqb_eq in E. auto.
Qed.
Lemma filter_id {A} (f : A -> bool) l : (forall x, In x l -> f x = true) -> filter f l = l.
Proof.
  induction l as [|a t IH]; cbn; [reflexivity|]. intro H. rewrite (H a (or_introl eq_refl)). rewrite IH; auto.
Qed.
Definition keep_not (v : nat) (kv : nat * nat) : bool := negb (Nat.eqb (snd kv) v).
Definition keep_none (rem : list nat) (kv : nat * nat) : bool := negb (mem (snd kv) rem).

Lemma remove_model_absent v l : ~ In v (map snd l) -> remove_model v l = l.
Proof. intro H. unfold remove_model. rewrite last_key_of_None by exact H. reflexivity. Qed.

Lemma remove_model_filter v l : NoDup (map fst l) -> NoDup (map snd l) -> remove_model v l = filter (keep_not v) l.
Proof.
  induction l as [|[k v'] t IH]; [reflexivity|]. cbn [map fst snd]. intros Hk Hv.
  inversion Hk as [|? ? Hkn Hk']; inversion Hv as [|? ? Hvn Hv']; subst.
  unfold remove_model. cbn [last_key_of filter]. unfold keep_not at 1. cbn [snd].
  destruct (last_key_of v t) as [k2|] eqn:El.
  - assert (Hk2 : In k2 (map fst t)) by (eapply last_key_of_In; eassumption).
    assert (Hne : v' <> v).
    { intro; subst v'. apply Hvn. eapply last_key_of_val. eassumption. }
    apply Nat.eqb_neq in Hne. rewrite Hne. cbn [negb ddel].
    destruct (Nat.eqb k2 k) eqn:E; [apply Nat.eqb_eq in E; subst; tauto|].
    f_equal. specialize (IH Hk' Hv'). unfold remove_model in IH. rewrite El in IH. exact IH.
  - destruct (Nat.eqb v' v) eqn:E; cbn [negb].
    + cbn [ddel]. rewrite Nat.eqb_refl. apply Nat.eqb_eq in E. subst v'.
      symmetry. apply filter_id. intros [a b] Hin. unfold keep_not. cbn [snd].
      destruct (Nat.eqb b v) eqn:E2; [|reflexivity]. apply Nat.eqb_eq in E2. subst. exfalso. apply Hvn.
      apply in_map_iff. exists (a, v). auto.
    + f_equal. specialize (IH Hk' Hv'). unfold remove_model in IH. rewrite El in IH. exact IH.
Qed.

Lemma NoDup_map_filter {A B} (g : A -> B) (f : A -> bool) l : NoDup (map g l) -> NoDup (map g (filter f l)).
Proof.
  induction l as [|a t IH]; cbn; [auto|]. intro H. inversion H; subst. destruct (f a); cbn; [|auto].
  constructor; [|auto]. intro Hin. apply H2. apply in_map_iff in Hin as [x [Hx Hin]]. apply filter_In in Hin as [Hin _].
  apply in_map_iff. exists x. auto.
Qed.

Lemma remove_models_filter rem : forall l, NoDup (map fst l) -> NoDup (map snd l) ->
  remove_models rem l = filter (keep_none rem) l.
Proof.
  unfold remove_models. induction rem as [|v rem IH]; intros l Hk Hv; cbn [fold_left].
  - symmetry. apply filter_id. intros; reflexivity.
  - rewrite remove_model_filter by assumption. rewrite IH by (apply NoDup_map_filter; assumption).
    clear. induction l as [|[a b] t IHl]; [reflexivity|]. cbn [filter]. unfold keep_not at 1, keep_none at 2. cbn [snd mem existsb].
    rewrite (Nat.eqb_sym b v). destruct (Nat.eqb v b) eqn:E; cbn [negb orb].
    + exact IHl.
    + cbn [filter]. unfold keep_none at 1. cbn [snd]. fold (mem b rem). destruct (mem b rem); cbn [negb]; [exact IHl | f_equal; exact IHl].
Qed.
Lemma remove_models_absent rem : forall l, (forall v, In v rem -> ~ In v (map snd l)) -> remove_models rem l = l.
Proof.
  unfold remove_models. induction rem as [|v rem IH]; intros l H; cbn [fold_left]; [reflexivity|].
  rewrite remove_model_absent by (apply H; left; reflexivity). apply IH. intros; apply H; right; assumption.
Qed.
Lemma filter_filter_same {A} (f : A -> bool) l : filter f (filter f l) = filter f l.
Proof. apply filter_id. intros x Hx. apply filter_In in Hx. tauto. Qed.

Lemma local_of_dset x y l s : local_of x (with_locals s (dset y l (locals s))) = if Nat.eqb y x then l else local_of x s.
Proof.
  unfold local_of. cbn [locals with_locals]. destruct (Nat.eqb y x) eqn:E.
  - apply Nat.eqb_eq in E. subst. rewrite dget_dset_same. reflexivity.
  - apply Nat.eqb_neq in E. rewrite dget_dset_other by exact E. reflexivity.
Qed.

(* remove_models_from_repositories on a well-formed all_models *)
Lemma remove_from_repos_allm models rem : forall s, NoDup (keys s) -> NoDup (vals s) -> models <> [] ->
  allm (remove_from_repos models rem s) = filter (keep_none rem) (allm s).
Proof.
  unfold remove_from_repos. induction models as [|x t IH]; intros s Hk Hv Hne; [congruence|]. cbn [fold_left].
  set (s1 := with_locals _ _).
  assert (E1 : allm s1 = filter (keep_none rem) (allm s)) by (subst s1; cbn; apply remove_models_filter; assumption).
  destruct t as [|y t']; [exact E1|].
  rewrite IH; [|rewrite E1; apply NoDup_map_filter; assumption | rewrite E1; apply NoDup_map_filter; assumption | discriminate].
  rewrite E1. apply filter_filter_same.
Qed.
Lemma remove_from_repos_local models rem x : forall s,
  (forall v, In v rem -> ~ In v (map snd (local_of x s))) ->
  local_of x (remove_from_repos models rem s) = local_of x s.
Proof.
  unfold remove_from_repos. induction models as [|y t IH]; intros s H; [reflexivity|]. cbn [fold_left].
  set (s1 := with_locals _ _).
  assert (E1 : local_of x s1 = local_of x s).
  { subst s1. rewrite (local_of_dset x y _ (with_allm s (remove_models rem (allm s)))).
    destruct (Nat.eqb y x) eqn:E; [|reflexivity]. apply Nat.eqb_eq in E. subst y.
    apply remove_models_absent. exact H. }
  rewrite IH; [exact E1 | rewrite E1; exact H].
Qed.

Lemma In_remove_models rem : forall l kv, In kv (remove_models rem l) -> In kv l.
Proof.
  unfold remove_models. induction rem as [|v rem IH]; intros l kv; cbn [fold_left]; [auto|].
  intro H. apply IH in H. unfold remove_model in H. destruct (last_key_of v l); [eapply In_ddel; eassumption | exact H].
Qed.

(* ================================================================== 3. the invariant of a load in progress, cleanup *)
Section Clean.
  Variable fs : list file.
  Variable c : cfg.
  Variable n0 : nat.     (* number of model objects that existed when the top-level load began *)

  Definition is_old (kv : nat * nat) : bool := Nat.ltb (snd kv) n0.
  Definition old (s : state) : list (nat * nat) := filter is_old (allm s).
  Definition file_ok (s : state) : Prop :=
    forall k v, In (k, v) (allm s) -> exists mi, nth_error (heap s) v = Some mi /\ mfile mi = k.

  Record Inv (s : state) : Prop := mkInv {
    inv_n0 : n0 <= length (heap s);
    inv_keys : NoDup (keys s);
    inv_vals : NoDup (vals s);
    inv_file : file_ok s;
    inv_old : forall k v, In (k, v) (allm s) -> v < n0 -> ~ In v (constr s);
    inv_new : forall k v, In (k, v) (allm s) -> n0 <= v -> In v (constr s);
    inv_oldloc : forall x g t, x < n0 -> In (g, t) (local_of x s) -> t < n0;
    inv_loc : forall x g t, In (g, t) (local_of x s) -> x < length (heap s) /\ t < length (heap s) }.

  Record Step (s s' : state) : Prop := mkStep {
    st_inv : Inv s';
    st_old : old s' = old s;
    st_loc : forall x, x < n0 -> local_of x s' = local_of x s;
    st_heap : forall v mi, nth_error (heap s) v = Some mi -> nth_error (heap s') v = Some mi;
    st_constr : incl (constr s) (constr s');
    st_cold : filter (fun x => Nat.ltb x n0) (constr s') = filter (fun x => Nat.ltb x n0) (constr s);
    st_tgt : targets s' = targets s;
    st_curop : curop s' = curop s }.
  Definition Pres (s s' : state) : Prop := forall k v, dget k (allm s) = Some v -> dget k (allm s') = Some v.

  Lemma local_of_ext s s' x : locals s' = locals s -> local_of x s' = local_of x s.
  Proof. unfold local_of. intros ->. reflexivity. Qed.

  Lemma Inv_ext s s' : heap s' = heap s -> allm s' = allm s -> constr s' = constr s -> locals s' = locals s -> Inv s -> Inv s'.
  Proof.
    intros Eh Ea Ec El [A B C D E F G H]. constructor; unfold file_ok in *; rewrite ?Eh, ?Ea, ?Ec; auto.
    - intros x g t. rewrite (local_of_ext s s' x El). apply G.
    - intros x g t. rewrite (local_of_ext s s' x El). apply H.
  Qed.
  Lemma Step_refl s : Inv s -> Step s s.
  Proof. intro H. constructor; auto using incl_refl. Qed.
  Lemma Step_trans s s1 s2 : Step s s1 -> Step s1 s2 -> Step s s2.
  Proof.
    intros [A B C D E F G H] [A' B' C' D' E' F' G' H']. constructor.
    - exact A'.
    - congruence.
    - intros x Hx. rewrite C', C; auto.
    - auto.
    - eapply incl_tran; eassumption.
    - congruence.
    - congruence.
    - congruence.
  Qed.
  Lemma Step_ext s s1 s2 : Step s s1 -> heap s2 = heap s1 -> allm s2 = allm s1 -> constr s2 = constr s1 -> locals s2 = locals s1 ->
    targets s2 = targets s1 -> curop s2 = curop s1 -> Step s s2.
  Proof.
    intros [A B C D E F G H] Eh Ea Ec El Et Eo. constructor.
    - eapply Inv_ext; eassumption.
    - unfold old. rewrite Ea. exact B.
    - intros x Hx. rewrite (local_of_ext s1 s2 x El). auto.
    - rewrite Eh. exact D.
    - rewrite Ec. exact E.
    - rewrite Ec. exact F.
    - rewrite Et. exact G.
    - rewrite Eo. exact H.
  Qed.
  Lemma Pres_refl s : Pres s s. Proof. intros k v H; exact H. Qed.
  Lemma Pres_trans s s1 s2 : Pres s s1 -> Pres s1 s2 -> Pres s s2. Proof. intros A B k v H. auto. Qed.

  Lemma Step_set_local s m g v : Inv s -> n0 <= m -> m < length (heap s) -> v < length (heap s) -> Step s (set_local m g v s).
  Proof.
    intros HI Hm Hml Hv.
    assert (Hloc : forall x, x <> m -> local_of x (set_local m g v s) = local_of x s).
    { intros x Hx. unfold set_local. rewrite local_of_dset. destruct (Nat.eqb m x) eqn:E; [apply Nat.eqb_eq in E; congruence | reflexivity]. }
    assert (Hlm : forall g' t, In (g', t) (local_of m (set_local m g v s)) -> In (g', t) (local_of m s) \/ t = v).
    { intros g' t. unfold set_local. rewrite local_of_dset, Nat.eqb_refl. generalize (local_of m s). intro l.
      induction l as [|[a b] l IH]; cbn.
      - intros [H|[]]. inversion H. auto.
      - destruct (Nat.eqb g a); cbn; intros [H|H]; auto. inversion H; auto. destruct (IH H); auto. }
    destruct HI as [A B C D E F G H].
    constructor; [constructor; auto| reflexivity | | auto | apply incl_refl | reflexivity | reflexivity | reflexivity].
    - intros x g' t Hx. rewrite Hloc by lia. apply G. exact Hx.
    - intros x g' t. destruct (Nat.eq_dec x m) as [->|Hne].
      + intro Hin. apply Hlm in Hin as [Hin| ->]; [eapply H; eassumption | split; [exact Hml | exact Hv]].
      + rewrite Hloc by exact Hne. apply H.
    - intros x Hx. apply Hloc. lia.
  Qed.

  Lemma Step_alloc s g fc : Inv s -> Step s (alloc g fc s).
  Proof.
    intros [A B C D E F G H].
    assert (Hh : forall v mi, nth_error (heap s) v = Some mi -> nth_error (heap s ++ [mkMinfo g (curop s) fc]) v = Some mi).
    { intros v mi Hv. rewrite nth_error_app1; [exact Hv | apply nth_error_Some; congruence]. }
    constructor; [constructor| reflexivity | reflexivity | exact Hh | | | reflexivity | reflexivity]; autorewrite with st.
    - rewrite app_length. lia.
    - exact B.
    - exact C.
    - intros k v Hin. destruct (D k v Hin) as [mi [H1 H2]]. exists mi. split; [apply Hh; exact H1 | exact H2].
    - intros k v Hin Hv [Hc|Hc]; [lia | eapply E; eassumption].
    - intros k v Hin Hv. right. eapply F; eassumption.
    - exact G.
    - intros x g' t Hin. rewrite app_length. destruct (H x g' t Hin). split; lia.
    - apply incl_tl, incl_refl.
    - cbn [filter]. replace (Nat.ltb (length (heap s)) n0) with false; [reflexivity|]. symmetry. apply Nat.ltb_ge. exact A.
  Qed.

  Lemma old_app s l : (forall kv, In kv l -> is_old kv = false) -> filter is_old (allm s ++ l) = old s.
  Proof.
    intro H. rewrite filter_app. unfold old. replace (filter is_old l) with (@nil (nat * nat)); [apply app_nil_r|].
    symmetry. induction l as [|a t IH]; [reflexivity|]. cbn [filter]. rewrite (H a (or_introl eq_refl)). apply IH. intros; apply H; right; assumption.
  Qed.

  Lemma Step_set_all_fresh s g m mi :
    Inv s -> dget g (allm s) = None -> n0 <= m -> In m (constr s) ->
    nth_error (heap s) m = Some mi -> mfile mi = g -> ~ In m (vals s) ->
    Step s (set_all g m s) /\ Pres s (set_all g m s) /\ dget g (allm (set_all g m s)) = Some m.
  Proof.
    intros [A B C D E F G H] Hg Hm Hc Hh Hf Hv.
    assert (Ea : allm (set_all g m s) = allm s ++ [(g, m)]) by (autorewrite with st; apply dset_fresh; exact Hg).
    split; [|split].
    - constructor; [constructor|..]; rewrite ?Ea; autorewrite with st; auto using incl_refl.
      + rewrite map_app. apply NoDup_snoc; [exact B | apply dget_None_notin; exact Hg].
      + rewrite map_app. apply NoDup_snoc; [exact C | exact Hv].
      + intros k v Hin. try rewrite Ea in Hin. apply in_app_or in Hin as [Hin|[Hin|[]]]; [apply D; exact Hin|].
        inversion Hin; subst. exists mi. auto.
      + intros k v Hin Hlt. try rewrite Ea in Hin. apply in_app_or in Hin as [Hin|[Hin|[]]]; [eapply E; eassumption|]. inversion Hin; subst. lia.
      + intros k v Hin Hge. try rewrite Ea in Hin. apply in_app_or in Hin as [Hin|[Hin|[]]]; [eapply F; eassumption|]. inversion Hin; subst. exact Hc.
      + unfold old at 1. rewrite Ea. apply old_app. intros kv [<-|[]]. unfold is_old. cbn. apply Nat.ltb_ge. exact Hm.
    - intros k v Hk. autorewrite with st. destruct (Nat.eq_dec g k) as [->|Hne]; [congruence | rewrite dget_dset_other; assumption].
    - autorewrite with st. apply dget_dset_same.
  Qed.

  (* the handlers' removal, stated on the facts it needs *)
  Lemma cleanup_spec s models rem :
    NoDup (keys s) -> NoDup (vals s) -> models <> [] ->
    (forall kv, In kv (allm s) -> keep_none rem kv = is_old kv) ->
    (forall x v, x < n0 -> In v rem -> ~ In v (map snd (local_of x s))) ->
    allm (remove_from_repos models rem s) = old s /\
    (forall x, x < n0 -> local_of x (remove_from_repos models rem s) = local_of x s).
  Proof.
    intros Hk Hv Hne Hf Hl. split.
    - rewrite remove_from_repos_allm by assumption. unfold old. apply filter_ext_in. exact Hf.
    - intros x Hx. apply remove_from_repos_local. intros v Hin. apply Hl; assumption.
  Qed.

  Lemma remove_from_repos_loc_sub models rem : forall s x g t,
    In (g, t) (local_of x (remove_from_repos models rem s)) -> In (g, t) (local_of x s).
  Proof.
    unfold remove_from_repos. induction models as [|y ys IH]; intros s x g t; cbn [fold_left]; [auto|].
    intro H. apply IH in H. rewrite (local_of_dset x y _ (with_allm s (remove_models rem (allm s)))) in H.
    destruct (Nat.eqb y x) eqn:E; [|exact H]. apply Nat.eqb_eq in E. subst y. eapply In_remove_models. exact H.
  Qed.

  Lemma included_nonempty m s : included m s <> [].
  Proof.
    unfold included. destruct (mem m (vals s)) eqn:E.
    - apply mem_In in E. intro H. rewrite H in E. destruct E.
    - intro H. apply app_eq_nil in H as [_ H]. discriminate.
  Qed.
  Lemma In_included x m s : In x (included m s) <-> In x (vals s) \/ x = m.
  Proof.
    unfold included. destruct (mem m (vals s)) eqn:E.
    - apply mem_In in E. split; [auto|]. intros [H | ->]; assumption.
    - rewrite in_app_iff. cbn. intuition.
  Qed.

  (* _remove_all_affected_models_in_construction during a load: exactly the earlier models stay *)
  Lemma handler_clean s m : Inv s -> n0 <= m ->
    Step s (handler m s) /\ allm (handler m s) = old s.
  Proof.
    intros HI Hm. unfold handler. rewrite src_cleanup_outer.
    set (rem := filter (fun x => mem x (constr s)) (included m s)).
    assert (Hrem : forall v, In v rem -> n0 <= v).
    { intros v Hv. apply filter_In in Hv as [Hi Hc]. apply mem_In in Hc. apply In_included in Hi as [Hi | ->]; [|exact Hm].
      apply in_map_iff in Hi as [[k v'] [<- Hin]]. cbn. destruct (Nat.lt_ge_cases v' n0) as [Hlt|Hge]; [|exact Hge].
      exfalso. eapply (inv_old s HI); eassumption. }
    destruct (cleanup_spec s (included m s) rem (inv_keys s HI) (inv_vals s HI) (included_nonempty m s)) as [Ha Hl].
    { intros [k v] Hin. unfold keep_none, is_old. cbn [snd]. destruct (Nat.ltb v n0) eqn:E.
      - apply Nat.ltb_lt in E. apply negb_true_iff, mem_false. intro Hr. apply Hrem in Hr. lia.
      - apply Nat.ltb_ge in E. apply negb_false_iff, mem_In. apply filter_In. split.
        + apply In_included. left. apply in_map_iff. exists (k, v). auto.
        + apply mem_In. eapply (inv_new s HI); eassumption. }
    { intros x v Hx Hr Hin. apply in_map_iff in Hin as [[g t] [<- Hin]]. apply Hrem in Hr. cbn in Hr.
      pose proof (inv_oldloc s HI x g t Hx Hin). lia. }
    split; [|exact Ha].
    assert (Hsub : forall kv, In kv (allm (remove_from_repos (included m s) rem s)) -> In kv (allm s) /\ is_old kv = true).
    { intros kv. rewrite Ha. unfold old. intro H. apply filter_In in H. exact H. }
    constructor; [constructor|..]; rewrite ?heap_remove_from_repos, ?constr_remove_from_repos, ?targets_remove_from_repos, ?curop_remove_from_repos; auto using incl_refl.
    - apply (inv_n0 s HI).
    - rewrite Ha. apply NoDup_map_filter. apply (inv_keys s HI).
    - rewrite Ha. apply NoDup_map_filter. apply (inv_vals s HI).
    - intros k v Hin. apply Hsub in Hin as [Hin _]. destruct (inv_file s HI k v Hin) as [mi Hmi]. exists mi.
      rewrite heap_remove_from_repos. exact Hmi.
    - intros k v Hin Hlt. apply Hsub in Hin as [Hin _]. eapply (inv_old s HI); eassumption.
    - intros k v Hin Hge. apply Hsub in Hin as [_ Ho]. unfold is_old in Ho. cbn in Ho. apply Nat.ltb_lt in Ho. lia.
    - intros x g t Hx Hin. rewrite Hl in Hin by exact Hx. eapply (inv_oldloc s HI); eassumption.
    - intros x g t Hin. apply remove_from_repos_loc_sub in Hin. eapply (inv_loc s HI); eassumption.
    - unfold old at 1. rewrite Ha. unfold old. apply filter_filter_same.
  Qed.
End Clean.

Section CleanLoad.
  Variable fs : list file.
  Variable c : cfg.
  Variable n0 : nat.
  Notation Inv := (Inv n0). Notation Step := (Step n0).

  Definition loader_cl (ld : nat -> state -> (err + nat) * state) : Prop :=
    forall g s, Inv s -> dget g (allm s) = None ->
      Step s (snd (ld g s)) /\
      (forall m, fst (ld g s) = inr m -> Pres s (snd (ld g s)) /\ dget g (allm (snd (ld g s))) = Some m).

  Lemma set_all_same g m s : dget g (allm s) = Some m -> allm (set_all g m s) = allm s.
  Proof. intro H. autorewrite with st. apply dset_same. exact H. Qed.

  Lemma load_model_cl ld m mi g s r s' :
    loader_cl ld -> Inv s -> n0 <= m -> nth_error (heap s) m = Some mi -> load_model ld m g s = (r, s') ->
    Step s s' /\ (r = None -> Pres s s').
  Proof.
    intros Hld HI Hm Hh. unfold load_model.
    assert (Hml : m < length (heap s)) by (apply nth_error_Some; congruence).
    destruct (dhas g (local_of m s)).
    { intro H. inversion H; subst. split; [apply Step_refl; exact HI | intros _; apply Pres_refl]. }
    destruct (dget g (allm s)) as [m'|] eqn:Eg.
    { intro H. inversion H; subst. split; [|intros _ k v Hk; exact Hk].
      apply Step_set_local; auto. apply dget_In in Eg. destruct (inv_file n0 s HI g m' Eg) as [mi' [Hmi _]].
      apply nth_error_Some. congruence. }
    destruct (Hld g s HI Eg) as [Hst Hok].
    destruct (ld g s) as [[e|m'] s1]; cbn [fst snd] in *.
    - intro H. inversion H; subst. split; [exact Hst | discriminate].
    - intro H. inversion H; subst. destruct (Hok m' eq_refl) as [Hp Hg1].
      assert (Hst1 : Step s (set_all g m' s1)).
      { eapply Step_ext; [exact Hst | reflexivity | apply set_all_same; exact Hg1 | reflexivity | reflexivity | reflexivity | reflexivity]. }
      split.
      + eapply Step_trans; [exact Hst1|]. apply Step_set_local; [apply (st_inv _ _ _ Hst1) | exact Hm | |].
        { autorewrite with st. apply nth_error_Some. rewrite (st_heap _ _ _ Hst m mi Hh). discriminate. }
        autorewrite with st. apply dget_In in Hg1. destruct (inv_file n0 s1 (st_inv _ _ _ Hst) g m' Hg1) as [mi' [Hmi _]].
        apply nth_error_Some. congruence.
      + intros _ k v Hk. autorewrite with st. rewrite (dset_same g m' (allm s1) Hg1). apply Hp. exact Hk.
  Qed.

  Lemma load_files_cl ld m mi gs : forall s r s',
    loader_cl ld -> Inv s -> n0 <= m -> nth_error (heap s) m = Some mi -> load_files ld m gs s = (r, s') ->
    Step s s' /\ (r = None -> Pres s s').
  Proof.
    induction gs as [|g gs IH]; intros s r s' Hld HI Hm Hh; cbn.
    - intro H. inversion H; subst. split; [apply Step_refl; exact HI | intros _; apply Pres_refl].
    - destruct (load_model ld m g s) as [r1 s1] eqn:E1.
      destruct (load_model_cl _ _ _ _ _ _ _ Hld HI Hm Hh E1) as [Hst1 Hp1].
      destruct r1 as [e|].
      + intro H. inversion H; subst. split; [exact Hst1 | discriminate].
      + intro H. destruct (IH s1 r s' Hld (st_inv _ _ _ Hst1) Hm (st_heap _ _ _ Hst1 m mi Hh) H) as [Hst2 Hp2].
        split; [eapply Step_trans; eassumption|]. intro Hr. eapply Pres_trans; [apply Hp1; reflexivity | apply Hp2; exact Hr].
  Qed.

  Lemma update_in_repo_cl s m mf mi :
    Inv s -> n0 <= m -> In m (constr s) -> nth_error (heap s) m = Some mi -> mfile mi = mf ->
    Step s (update_in_repo m mf s) /\ Pres s (update_in_repo m mf s).
  Proof.
    intros HI Hm Hc Hh Hf. unfold update_in_repo. destruct (dhas mf (allm s)) eqn:E.
    - split; [apply Step_refl; exact HI | apply Pres_refl].
    - assert (Hg : dget mf (allm s) = None) by (unfold dhas in E; destruct (dget mf (allm s)); [discriminate | reflexivity]).
      assert (Hv : ~ In m (vals s)).
      { intro Hin. apply in_map_iff in Hin as [[k v] [Hv Hin]]. cbn in Hv. subst v.
        destruct (inv_file n0 s HI k m Hin) as [mi' [H1 H2]]. rewrite Hh in H1. inversion H1; subst mi'.
        apply dget_None_notin in Hg. apply Hg. apply in_map_iff. exists (k, m). split; [cbn; congruence | exact Hin]. }
      destruct (Step_set_all_fresh n0 s mf m mi HI Hg Hm Hc Hh Hf Hv) as [A [B _]]. auto.
  Qed.

  Lemma load_stmts_cl ld m mf mi stmts : forall s r s',
    loader_cl ld -> Inv s -> n0 <= m -> In m (constr s) -> nth_error (heap s) m = Some mi -> mfile mi = mf ->
    load_stmts ld m mf stmts s = (r, s') ->
    Step s s' /\ (r = None -> Pres s s').
  Proof.
    induction stmts as [|gs rest IH]; intros s r s' Hld HI Hm Hc Hh Hf; cbn.
    - intro H. inversion H; subst. split; [apply Step_refl; exact HI | intros _; apply Pres_refl].
    - destruct (update_in_repo_cl s m mf mi HI Hm Hc Hh Hf) as [Hst1 Hp1].
      destruct gs as [|g0 gs0].
      + intro H. inversion H; subst. split; [exact Hst1 | discriminate].
      + destruct (load_files ld m (g0 :: gs0) (update_in_repo m mf s)) as [r2 s2] eqn:E2.
        destruct (load_files_cl _ _ _ _ _ _ _ Hld (st_inv _ _ _ Hst1) Hm (st_heap _ _ _ Hst1 m mi Hh) E2) as [Hst2 Hp2].
        assert (Hst12 : Step s s2) by (eapply Step_trans; eassumption).
        destruct r2 as [e|].
        * intro H. inversion H; subst. split; [exact Hst12 | discriminate].
        * intro H.
          destruct (IH s2 r s' Hld (st_inv _ _ _ Hst12) Hm (st_constr _ _ _ Hst12 m Hc) (st_heap _ _ _ Hst12 m mi Hh) Hf H) as [Hst3 Hp3].
          split; [eapply Step_trans; eassumption|]. intro Hr.
          eapply Pres_trans; [exact Hp1|]. eapply Pres_trans; [apply Hp2; reflexivity | apply Hp3; exact Hr].
  Qed.

  Lemma load_file_cl fuel : forall main g s,
    Inv s -> dget g (allm s) = None ->
    Step s (snd (load_file fs c fuel main g s)) /\
    (forall m, fst (load_file fs c fuel main g s) = inr m ->
       Pres s (snd (load_file fs c fuel main g s)) /\ n0 <= m /\ In m (constr (snd (load_file fs c fuel main g s))) /\
       (main = false -> dget g (allm (snd (load_file fs c fuel main g s))) = Some m)) /\
    (forall e, fst (load_file fs c fuel main g s) = inl e -> main = true ->
       (forall kv, In kv (allm s) -> is_old n0 kv = true) -> allm (snd (load_file fs c fuel main g s)) = allm s).
  Proof.
    induction fuel as [|k IH]; intros main g s HI Hg.
    { cbn. split; [apply Step_refl; exact HI|]. split; [discriminate | reflexivity]. }
    cbn [load_file].
    destruct (nth_error fs g) as [fc|] eqn:Efc.
    2:{ cbn. split; [apply Step_refl; exact HI|]. split; [discriminate | reflexivity]. }
    assert (Hst1 : Step s (with_reads s (reads s ++ [g]))).
    { eapply Step_ext; [apply Step_refl; exact HI | reflexivity..]. }
    destruct (fsyn fc).
    { cbn. split; [exact Hst1|]. split; [discriminate | reflexivity]. }
    rewrite src_register_before.
    set (s1 := with_reads s (reads s ++ [g])) in *.
    set (mid := length (heap s1)).
    set (s2 := alloc g fc s1).
    assert (Hst2 : Step s s2) by (eapply Step_trans; [exact Hst1 | apply Step_alloc; apply (st_inv _ _ _ Hst1)]).
    assert (Hmid : n0 <= mid) by (apply (inv_n0 n0 s1 (st_inv _ _ _ Hst1))).
    assert (Hc2 : In mid (constr s2)) by (subst s2; autorewrite with st; left; reflexivity).
    assert (Hh2 : nth_error (heap s2) mid = Some (mkMinfo g (curop s1) fc)).
    { subst s2 mid. autorewrite with st. rewrite nth_error_app2 by lia. rewrite Nat.sub_diag. reflexivity. }
    assert (Hv2 : ~ In mid (vals s2)).
    { intro Hin. apply in_map_iff in Hin as [[k' v] [Hv Hin]]. cbn in Hv. subst v.
      destruct (inv_file n0 s1 (st_inv _ _ _ Hst1) k' mid Hin) as [mi' [H1 _]].
      assert (mid < length (heap s1)) by (apply nth_error_Some; congruence). subst mid. lia. }
    set (s3 := if (main && negb (cglobal c))%bool then s2 else set_all g mid s2).
    assert (H3 : Step s s3 /\ Pres s s3 /\ ((main && negb (cglobal c))%bool = false -> dget g (allm s3) = Some mid) /\
                 ((main && negb (cglobal c))%bool = true -> allm s3 = allm s)).
    { subst s3. destruct (main && negb (cglobal c))%bool.
      - split; [exact Hst2|]. split; [intros k' v' Hk; exact Hk|]. split; [discriminate | reflexivity].
      - destruct (Step_set_all_fresh n0 s2 g mid _ (st_inv _ _ _ Hst2) Hg Hmid Hc2 Hh2 eq_refl Hv2) as [A [B C]].
        split; [eapply Step_trans; eassumption|]. split; [exact B|]. split; [intros _; exact C | discriminate]. }
    destruct H3 as [Hst3 [Hp3 [Hreg3 Hsame3]]].
    assert (Hld : loader_cl (load_file fs c k false)).
    { intros g' s' HI' Hg'. destruct (IH false g' s' HI' Hg') as [A [B _]]. split; [exact A|].
      intros m Hm'. destruct (B m Hm') as [B1 [_ [_ B3]]]. split; [exact B1 | apply B3; reflexivity]. }
    assert (Hc3 : In mid (constr s3)) by (subst s3; destruct (main && negb (cglobal c))%bool; exact Hc2).
    assert (Hh3 : nth_error (heap s3) mid = Some (mkMinfo g (curop s1) fc)) by (subst s3; destruct (main && negb (cglobal c))%bool; exact Hh2).
    destruct (if (clazy c && is_nil (frefs fc))%bool then (None, s3)
              else load_stmts (load_file fs c k false) mid g (fimports fc) s3) as [r s4] eqn:E4.
    assert (H4 : Step s3 s4 /\ (r = None -> Pres s3 s4)).
    { destruct (clazy c && is_nil (frefs fc))%bool.
      - inversion E4; subst. split; [apply Step_refl; apply (st_inv _ _ _ Hst3) | intros _; apply Pres_refl].
      - exact (load_stmts_cl _ _ _ _ _ _ _ _ Hld (st_inv _ _ _ Hst3) Hmid Hc3 Hh3 eq_refl E4). }
    destruct H4 as [Hst4 Hp4].
    assert (Hst04 : Step s s4) by (eapply Step_trans; eassumption).
    destruct r as [e|].
    { cbn [fst snd]. destruct (handler_clean n0 s4 mid (st_inv _ _ _ Hst04) Hmid) as [Hh Ha].
      split; [eapply Step_trans; eassumption|]. split; [discriminate|].
      intros e' _ _ Hold. rewrite Ha. rewrite (st_old _ _ _ Hst04). unfold old. apply filter_id. exact Hold. }
    assert (Hp04 : Pres s s4) by (eapply Pres_trans; [exact Hp3 | apply Hp4; reflexivity]).
    assert (Hg4 : main = false -> dget g (allm s4) = Some mid).
    { intro Hm. apply Hp4; [reflexivity|]. apply Hreg3. subst main. reflexivity. }
    assert (Hc4 : In mid (constr s4)) by (apply (st_constr _ _ _ Hst4); exact Hc3).
    destruct main.
    - cbn [fst snd]. split; [exact Hst04|]. split; [|discriminate]. intros m Hm. inversion Hm; subst m. auto.
    - destruct (fmp fc); cbn [fst snd].
      + split; [exact Hst04|]. split; discriminate.
      + split; [exact Hst04|]. split; [|discriminate]. intros m Hm. inversion Hm; subst m. auto.
  Qed.
End CleanLoad.

(* ================================================================== 4. the state between two loads; C18 *)
Definition Stable (s : state) : Prop :=
  NoDup (keys s) /\ NoDup (vals s) /\ file_ok s /\ (forall v, In v (vals s) -> ~ In v (constr s)) /\
  (forall x g t, In (g, t) (local_of x s) -> x < length (heap s) /\ t < length (heap s)).

Lemma Stable_Inv s : Stable s ->
  Inv (length (heap s)) s /\ (forall kv, In kv (allm s) -> is_old (length (heap s)) kv = true).
Proof.
  intros [A [B [C [D E]]]].
  assert (Hlt : forall k v, In (k, v) (allm s) -> v < length (heap s)).
  { intros k v Hin. destruct (C k v Hin) as [mi [H _]]. apply nth_error_Some. congruence. }
  split.
  - constructor; auto.
    + intros k v Hin _. apply D. apply in_map_iff. exists (k, v). auto.
    + intros k v Hin Hge. specialize (Hlt k v Hin). lia.
    + intros x g t _ Hin. apply (E x g t Hin).
  - intros [k v] Hin. unfold is_old. cbn. apply Nat.ltb_lt. eapply Hlt. exact Hin.
Qed.

Lemma Inv_old_Stable n0 s : Inv n0 s -> (forall kv, In kv (allm s) -> is_old n0 kv = true) -> Stable s.
Proof.
  intros HI Ho. split; [apply (inv_keys _ _ HI)|]. split; [apply (inv_vals _ _ HI)|]. split; [apply (inv_file _ _ HI)|].
  split; [|apply (inv_loc _ _ HI)].
  intros v Hin. apply in_map_iff in Hin as [[k v'] [<- Hin]]. cbn. eapply (inv_old _ _ HI); [exact Hin|].
  specialize (Ho _ Hin). unfold is_old in Ho. cbn in Ho. apply Nat.ltb_lt. exact Ho.
Qed.

Lemma Stable_begin_op c s : Stable s -> Stable (begin_op c s).
Proof.
  intros [A [B [C [D E]]]]. unfold begin_op. destruct (cglobal c).
  - split; [exact A|]. split; [exact B|]. split; [exact C|]. split; [exact D | exact E].
  - split; [constructor|]. split; [constructor|]. split; [intros k v []|]. split; [intros v []|]. exact E.
Qed.

Section CleanMain.
  Variable n0 : nat.
  Notation Inv := (Inv n0). Notation Step := (Step n0).

  (* any of the three cleanups of a main-model failure, applied to a state that differs from a
     load-phase state only in the construction marks *)
  Lemma cleanup_any s1 s3 mods rem :
    Inv s1 -> heap s3 = heap s1 -> allm s3 = allm s1 -> locals s3 = locals s1 -> incl (constr s3) (constr s1) ->
    mods <> [] -> (forall kv, In kv (allm s1) -> keep_none rem kv = is_old n0 kv) -> (forall v, In v rem -> n0 <= v) ->
    Inv (remove_from_repos mods rem s3) /\ allm (remove_from_repos mods rem s3) = old n0 s1 /\
    (forall x, x < n0 -> local_of x (remove_from_repos mods rem s3) = local_of x s1).
  Proof.
    intros HI Eh Ea El Ec Hne Hk Hr.
    assert (Hloc3 : forall x, local_of x s3 = local_of x s1) by (intro x; apply local_of_ext; exact El).
    destruct (cleanup_spec n0 s3 mods rem) as [Ha Hl].
    { rewrite Ea. apply (inv_keys _ _ HI). } { rewrite Ea. apply (inv_vals _ _ HI). } { exact Hne. }
    { rewrite Ea. exact Hk. }
    { intros x v Hx Hv Hin. rewrite Hloc3 in Hin. apply in_map_iff in Hin as [[g t] [<- Hin]]. apply Hr in Hv. cbn in Hv.
      pose proof (inv_oldloc _ _ HI x g t Hx Hin). lia. }
    assert (Ha' : allm (remove_from_repos mods rem s3) = old n0 s1) by (rewrite Ha; unfold old; rewrite Ea; reflexivity).
    assert (Hsub : forall kv, In kv (allm (remove_from_repos mods rem s3)) -> In kv (allm s1) /\ is_old n0 kv = true).
    { intros kv. rewrite Ha'. unfold old. intro H. apply filter_In in H. exact H. }
    split; [|split; [exact Ha'|]].
    - constructor; rewrite ?heap_remove_from_repos, ?constr_remove_from_repos, ?Eh.
      + apply (inv_n0 _ _ HI).
      + rewrite Ha'. apply NoDup_map_filter. apply (inv_keys _ _ HI).
      + rewrite Ha'. apply NoDup_map_filter. apply (inv_vals _ _ HI).
      + intros k v Hin. apply Hsub in Hin as [Hin _]. destruct (inv_file _ _ HI k v Hin) as [mi Hmi]. exists mi.
        rewrite heap_remove_from_repos, Eh. exact Hmi.
      + intros k v Hin Hlt Hc. apply Hsub in Hin as [Hin _]. apply Ec in Hc. eapply (inv_old _ _ HI); eassumption.
      + intros k v Hin Hge. apply Hsub in Hin as [_ Ho]. unfold is_old in Ho. cbn in Ho. apply Nat.ltb_lt in Ho. lia.
      + intros x g t Hx Hin. rewrite Hl, Hloc3 in Hin by exact Hx. eapply (inv_oldloc _ _ HI); eassumption.
      + intros x g t Hin. apply remove_from_repos_loc_sub in Hin. rewrite Hloc3 in Hin. eapply (inv_loc _ _ HI); eassumption.
    - intros x Hx. rewrite Hl by exact Hx. apply Hloc3.
  Qed.

  Lemma old_old s : filter (is_old n0) (old n0 s) = old n0 s.
  Proof. unfold old. apply filter_filter_same. Qed.

  Lemma constr_rem_facts s1 m : Inv s1 -> n0 <= m ->
    let rem := filter (fun x => mem x (constr s1)) (included m s1) in
    (forall kv, In kv (allm s1) -> keep_none rem kv = is_old n0 kv) /\ (forall v, In v rem -> n0 <= v).
  Proof.
    intros HI Hm rem.
    assert (Hrem : forall v, In v rem -> n0 <= v).
    { intros v Hv. apply filter_In in Hv as [Hi Hc]. apply mem_In in Hc. apply In_included in Hi as [Hi | ->]; [|exact Hm].
      apply in_map_iff in Hi as [[k v'] [<- Hin]]. cbn. destruct (Nat.lt_ge_cases v' n0) as [Hlt|Hge]; [|exact Hge].
      exfalso. eapply (inv_old _ _ HI); eassumption. }
    split; [|exact Hrem].
    intros [k v] Hin. unfold keep_none, is_old. cbn [snd]. destruct (Nat.ltb v n0) eqn:E.
    - apply Nat.ltb_lt in E. apply negb_true_iff, mem_false. intro Hr. apply Hrem in Hr. lia.
    - apply Nat.ltb_ge in E. apply negb_false_iff, mem_In. apply filter_In. split.
      + apply In_included. left. apply in_map_iff. exists (k, v). auto.
      + apply mem_In. eapply (inv_new _ _ HI); eassumption.
  Qed.

  (* finish_main after a successful load phase: every failure leaves exactly the earlier models *)
  Lemma finish_main_clean c f m s0 s1 e s' :
    Inv s1 -> n0 <= m -> In m (constr s1) -> old n0 s1 = allm s0 ->
    (forall v, In v (vals s0) -> v < n0) ->
    finish_main c f m (vals s0) s1 = (inl e, s') ->
    Inv s' /\ allm s' = allm s0 /\ (forall x, x < n0 -> local_of x s' = local_of x s1).
  Proof.
    intros HI Hm Hc Hold Hcached. unfold finish_main. rewrite src_cleanup_inner, src_cleanup_mp.
    set (models := filter (fun x => mem x (constr s1)) (included m s1)).
    assert (Hmm : In m models) by (apply filter_In; split; [apply In_included; auto | apply mem_In; exact Hc]).
    assert (Hne : models <> []) by (intro H; rewrite H in Hmm; destruct Hmm).
    destruct (constr_rem_facts s1 m HI Hm) as [Hk Hr]. fold models in Hk, Hr.
    assert (Hfin : forall s3, heap s3 = heap s1 -> allm s3 = allm s1 -> locals s3 = locals s1 -> incl (constr s3) (constr s1) ->
              Inv (handler m (remove_from_repos models models s3)) /\ allm (handler m (remove_from_repos models models s3)) = allm s0 /\
              (forall x, x < n0 -> local_of x (handler m (remove_from_repos models models s3)) = local_of x s1)).
    { intros s3 Eh Ea El Ec. destruct (cleanup_any s1 s3 models models HI Eh Ea El Ec Hne Hk Hr) as [HI3 [Ha3 Hl3]].
      destruct (handler_clean n0 _ m HI3 Hm) as [Hst Ha].
      split; [apply (st_inv _ _ _ Hst)|]. split.
      - rewrite Ha. unfold old at 1. rewrite Ha3. rewrite old_old. exact Hold.
      - intros x Hx. rewrite (st_loc _ _ _ Hst x Hx). apply Hl3. exact Hx. }
    destruct (resolve_all c models s1) as [e1|s2] eqn:Er.
    { intro H. inversion H; subst. apply Hfin; auto using incl_refl. }
    apply resolve_all_frame in Er. destruct Er as [_ [Ea [Eh [El Ec]]]].
    set (s3 := with_constr s2 (filter (fun x => negb (mem x models)) (constr s2))).
    assert (Ec3 : incl (constr s3) (constr s1)).
    { subst s3. cbn. rewrite Ec. intros x Hx. apply filter_In in Hx. tauto. }
    destruct (first_obj_fail models s3).
    { intro H. inversion H; subst. apply Hfin; auto. }
    set (loaded := filter (fun x => negb (mem x (vals s0))) (included m s3)).
    destruct (flag_of fmp m s3); [|discriminate].
    intro H. inversion H; subst.
    assert (Hinc3 : included m s3 = included m s1) by (unfold included; subst s3; cbn; rewrite Ea; reflexivity).
    assert (Hml : In m loaded).
    { apply filter_In. split; [rewrite Hinc3; apply In_included; auto|]. apply negb_true_iff, mem_false.
      intro Hin. apply Hcached in Hin. lia. }
    assert (Hlne : loaded <> []) by (intro H0; rewrite H0 in Hml; destruct Hml).
    assert (Hlr : forall v, In v loaded -> n0 <= v).
    { intros v Hv. apply filter_In in Hv as [Hi Hnc]. rewrite Hinc3 in Hi. apply negb_true_iff, mem_false in Hnc.
      apply In_included in Hi as [Hi | ->]; [|exact Hm].
      apply in_map_iff in Hi as [[k v'] [<- Hin]]. cbn. destruct (Nat.lt_ge_cases v' n0) as [Hlt|Hge]; [|exact Hge].
      exfalso. apply Hnc. cbn. rewrite <- Hold. apply in_map_iff. exists (k, v'). split; [reflexivity|].
      apply filter_In. split; [exact Hin|]. unfold is_old. cbn. apply Nat.ltb_lt. exact Hlt. }
    assert (Hlk : forall kv, In kv (allm s1) -> keep_none loaded kv = is_old n0 kv).
    { intros [k v] Hin. unfold keep_none, is_old. cbn [snd]. destruct (Nat.ltb v n0) eqn:E.
      - apply Nat.ltb_lt in E. apply negb_true_iff, mem_false. intro Hl. apply Hlr in Hl. lia.
      - apply Nat.ltb_ge in E. apply negb_false_iff, mem_In. apply filter_In. split.
        + rewrite Hinc3. apply In_included. left. apply in_map_iff. exists (k, v). auto.
        + apply negb_true_iff, mem_false. intro Hin'. apply Hcached in Hin'. lia. }
    destruct (cleanup_any s1 s3 loaded loaded HI) as [HI' [Ha' Hl']]; auto.
    split; [exact HI'|]. split; [rewrite Ha'; exact Hold | exact Hl'].
  Qed.
End CleanMain.

(* C18: a failing top-level load restores the repository exactly and leaves a state from which
   loading behaves as specified (Stable is the invariant all C17/C18 theorems assume) *)
Theorem load_main_failure_clean_raw fs c f s e s' :
  Stable s -> load_main_raw fs c f s = (inl e, s') ->
  allm s' = allm (begin_op c s) /\ (forall x, x < length (heap s) -> local_of x s' = local_of x s) /\ Stable s'.
Proof.
  intros HS. unfold load_main_raw. set (s0 := begin_op c s).
  pose proof (Stable_begin_op c s HS) as HS0. fold s0 in HS0.
  destruct (Stable_Inv s0 HS0) as [HI0 Hold0].
  assert (Eh0 : heap s0 = heap s) by (subst s0; unfold begin_op; destruct (cglobal c); reflexivity).
  assert (El0 : forall x, local_of x s0 = local_of x s) by (intro x; subst s0; unfold begin_op; destruct (cglobal c); reflexivity).
  set (n0 := length (heap s0)) in *.
  destruct (if cglobal c then dget f (allm s0) else None) as [m|] eqn:Ec.
  { destruct (model_processors_on_cached && flag_of fmp m s0)%bool; intro H; inversion H; subst.
    split; [reflexivity|]. split; [intros; apply El0 | exact HS0]. }
  assert (Hg : dget f (allm s0) = None).
  { destruct (cglobal c) eqn:Eg; [exact Ec|]. subst s0. unfold begin_op. rewrite Eg. reflexivity. }
  destruct (load_file_cl fs c n0 (S (length fs)) true f s0 HI0 Hg) as [Hst [Hok Hfail]].
  destruct (load_file fs c (S (length fs)) true f s0) as [[e1|m] s1] eqn:El; cbn [fst snd] in *.
  - intro H. inversion H; subst. specialize (Hfail e eq_refl eq_refl Hold0).
    split; [exact Hfail|]. split.
    + intros x Hx. rewrite (st_loc _ _ _ Hst x); [apply El0 | unfold n0; rewrite Eh0; exact Hx].
    + apply (Inv_old_Stable n0); [apply (st_inv _ _ _ Hst) | rewrite Hfail; exact Hold0].
  - destruct (Hok m eq_refl) as [Hp [Hm [Hc _]]]. intro H.
    assert (Hold : old n0 s1 = allm s0).
    { rewrite (st_old _ _ _ Hst). unfold old. apply filter_id. exact Hold0. }
    assert (Hcached : forall v, In v (vals s0) -> v < n0).
    { intros v Hin. apply in_map_iff in Hin as [[k v'] [<- Hin]]. specialize (Hold0 _ Hin). unfold is_old in Hold0. cbn in *.
      apply Nat.ltb_lt. exact Hold0. }
    destruct (finish_main_clean n0 c f m s0 s1 e s' (st_inv _ _ _ Hst) Hm Hc Hold Hcached H) as [HI' [Ha' Hl']].
    split; [exact Ha'|]. split.
    + intros x Hx. assert (Hx0 : x < n0) by (unfold n0; rewrite Eh0; exact Hx).
      rewrite (Hl' x Hx0), (st_loc _ _ _ Hst x Hx0). apply El0.
    + apply (Inv_old_Stable n0); [exact HI' | rewrite Ha'; exact Hold0].
Qed.

(* ================================================================== 5. success keeps the state well formed; histories *)
Lemma finish_main_ok_stable n0 c f m cached s1 m' s' :
  Inv n0 s1 -> In m (constr s1) -> finish_main c f m cached s1 = (inr m', s') ->
  m' = m /\ allm s' = allm s1 /\ heap s' = heap s1 /\ locals s' = locals s1 /\ Stable s'.
Proof.
  intros HI Hc. unfold finish_main.
  set (models := filter (fun x => mem x (constr s1)) (included m s1)).
  destruct (resolve_all c models s1) as [e1|s2] eqn:Er; [discriminate|].
  apply resolve_all_frame in Er. destruct Er as [_ [Ea [Eh [El Ec]]]].
  set (s3 := with_constr s2 (filter (fun x => negb (mem x models)) (constr s2))).
  destruct (first_obj_fail models s3); [discriminate|].
  destruct (flag_of fmp m s3); [discriminate|].
  intro H. inversion H; subst m' s'. split; [reflexivity|]. split; [exact Ea|]. split; [exact Eh|]. split; [exact El|].
  assert (Ea3 : allm s3 = allm s1) by exact Ea.
  assert (Eh3 : heap s3 = heap s1) by exact Eh.
  assert (Ec3 : constr s3 = filter (fun x => negb (mem x models)) (constr s1)) by (subst s3; cbn; rewrite Ec; reflexivity).
  assert (El3 : forall x, local_of x s3 = local_of x s1) by (intro x; apply local_of_ext; exact El).
  unfold Stable, file_ok. rewrite Ea3, Eh3, Ec3.
  split; [apply (inv_keys _ _ HI)|]. split; [apply (inv_vals _ _ HI)|]. split; [apply (inv_file _ _ HI)|]. split.
  - intros v Hin Hf. apply filter_In in Hf as [Hf Hnm]. apply negb_true_iff, mem_false in Hnm. apply Hnm.
    apply filter_In. split; [apply In_included; left; exact Hin | apply mem_In; exact Hf].
  - intros x g t. rewrite El3. apply (inv_loc _ _ HI).
Qed.

Theorem load_main_stable_raw fs c f s : Stable s -> Stable (snd (load_main_raw fs c f s)).
Proof.
  intro HS. destruct (load_main_raw fs c f s) as [[e|m] s'] eqn:E; cbn [snd].
  - destruct (load_main_failure_clean_raw fs c f s e s' HS E) as [_ [_ H]]. exact H.
  - revert E. unfold load_main_raw. set (s0 := begin_op c s).
    pose proof (Stable_begin_op c s HS) as HS0. fold s0 in HS0.
    destruct (Stable_Inv s0 HS0) as [HI0 Hold0].
    destruct (if cglobal c then dget f (allm s0) else None) as [m0|] eqn:Ec.
    { destruct (model_processors_on_cached && flag_of fmp m0 s0)%bool; intro H; inversion H; subst. exact HS0. }
    assert (Hg : dget f (allm s0) = None).
    { destruct (cglobal c) eqn:Eg; [exact Ec|]. subst s0. unfold begin_op. rewrite Eg. reflexivity. }
    destruct (load_file_cl fs c (length (heap s0)) (S (length fs)) true f s0 HI0 Hg) as [Hst [Hok _]].
    destruct (load_file fs c (S (length fs)) true f s0) as [[e1|m1] s1]; cbn [fst snd] in *; [discriminate|].
    destruct (Hok m1 eq_refl) as [_ [_ [Hc _]]]. intro H.
    destruct (finish_main_ok_stable _ c f m1 _ s1 m s' (st_inv _ _ _ Hst) Hc H) as [_ [_ [_ [_ HS']]]]. exact HS'.
Qed.

Lemma Stable_init b : Stable (init_state b).
Proof. unfold Stable, init_state, file_ok, local_of. cbn. repeat split; try constructor; try tauto. Qed.


(* ================================================================== 6. lookup order *)
Lemma first_some_app {A B} (f : A -> option B) l1 l2 :
  first_some f (l1 ++ l2) = match first_some f l1 with Some b => Some b | None => first_some f l2 end.
Proof. induction l1 as [|a t IH]; cbn; [reflexivity|]. destruct (f a); [reflexivity | exact IH]. Qed.
Lemma first_some_none {A B} (f : A -> option B) l : (forall a, In a l -> f a = None) -> first_some f l = None.
Proof. induction l as [|a t IH]; cbn; [reflexivity|]. intro H. rewrite (H a (or_introl eq_refl)). apply IH. intros; apply H; right; assumption. Qed.

Lemma resolve_name_order c s x n :
  resolve_name c s x n = first_some (lookup_in s n) ([x] ++ map snd (local_of x s) ++ cbuiltins c).
Proof. unfold resolve_name, search_list. rewrite src_lookup_order. cbn [flat_map scope_models]. rewrite app_nil_r. reflexivity. Qed.

Lemma lookup_own c s x n t : lookup_in s n x = Some t -> resolve_name c s x n = Some t.
Proof. intro H. rewrite resolve_name_order. cbn. rewrite H. reflexivity. Qed.
Lemma lookup_local c s x n l1 y l2 t :
  lookup_in s n x = None -> map snd (local_of x s) = l1 ++ y :: l2 ->
  (forall z, In z l1 -> lookup_in s n z = None) -> lookup_in s n y = Some t ->
  resolve_name c s x n = Some t.
Proof.
  intros Hx El Hl1 Hy. rewrite resolve_name_order. cbn [app first_some]. rewrite Hx, El.
  rewrite <- app_assoc. rewrite first_some_app, (first_some_none _ l1 Hl1). cbn. rewrite Hy. reflexivity.
Qed.
Lemma lookup_builtin c s x n :
  lookup_in s n x = None -> (forall z, In z (map snd (local_of x s)) -> lookup_in s n z = None) ->
  resolve_name c s x n = first_some (lookup_in s n) (cbuiltins c).
Proof.
  intros Hx Hl. rewrite resolve_name_order. cbn [app first_some]. rewrite Hx.
  rewrite first_some_app, (first_some_none _ _ Hl). reflexivity.
Qed.

Lemma first_some_in {A B} (f : A -> option B) l b : first_some f l = Some b -> exists a, In a l /\ f a = Some b.
Proof.
  induction l as [|a t IH]; cbn; [discriminate|]. destruct (f a) eqn:E.
  - intro H. inversion H; subst. exists a. auto.
  - intro H. destruct (IH H) as [a' [H1 H2]]. exists a'. auto.
Qed.
Lemma resolve_name_in c s x n t i : resolve_name c s x n = Some (t, i) ->
  (t = x \/ In t (map snd (local_of x s)) \/ In t (cbuiltins c)) /\
  exists fc, cont_of t s = Some fc /\ nth_error (felems fc) i = Some n.
Proof.
  rewrite resolve_name_order. intro H. apply first_some_in in H as [a [Hin Hl]].
  unfold lookup_in in Hl. destruct (cont_of a s) as [fc|] eqn:Ec; [|discriminate].
  destruct (find_elem n (felems fc)) as [j|] eqn:Ef; [|discriminate]. cbn in Hl. inversion Hl; subst a j.
  split.
  - cbn in Hin. destruct Hin as [Hin|Hin]; [left; auto|]. apply in_app_or in Hin. tauto.
  - exists fc. split; [exact Ec|]. clear -Ef. revert i Ef. induction (felems fc) as [|e l IH]; intros i; cbn; [discriminate|].
    destruct (N.eqb e n) eqn:E.
    + intro H. inversion H; subst. apply N.eqb_eq in E. subst. reflexivity.
    + destruct (find_elem n l) as [j|]; [|discriminate]. cbn. intro H. inversion H; subst. cbn. apply IH. reflexivity.
Qed.




(* ================================================================== 7. local models are the registered models (identity) *)
Lemma In_dset_inv {A} (g : nat) (v : A) l g' t : In (g', t) (dset g v l) -> (g' = g /\ t = v) \/ In (g', t) l.
Proof.
  induction l as [|[a b] l IH]; cbn.
  - intros [H|[]]. inversion H. auto.
  - destruct (Nat.eqb g a); cbn.
    + intros [H|H]; [inversion H; auto | right; right; exact H].
    + intros [H|H]; [right; left; exact H|]. destruct (IH H) as [H1|H1]; [left; exact H1 | right; right; exact H1].
Qed.

Section Ident.
  Variable fs : list file.
  Variable c : cfg.
  Variable n0 : nat.
  Notation Inv := (Inv n0). Notation Step := (Step n0).

  (* every local_models entry of a model of this load, or of a registered model, is the all_models entry of its file *)
  Definition LR (s : state) : Prop :=
    forall x g t, In (g, t) (local_of x s) -> (n0 <= x \/ In x (vals s)) -> dget g (allm s) = Some t.

  Lemma LR_ext s s' : allm s' = allm s -> locals s' = locals s -> LR s -> LR s'.
  Proof. intros Ea El H x g t. rewrite (local_of_ext s s' x El), Ea. apply H. Qed.

  Lemma LR_set_all s g m : LR s -> dget g (allm s) = None -> n0 <= m -> LR (set_all g m s).
  Proof.
    intros H Hg Hm x g' t Hin Hx.
    assert (Hin' : In (g', t) (local_of x s)) by exact Hin.
    assert (Hx' : n0 <= x \/ In x (vals s)).
    { destruct Hx as [Hx|Hx]; [left; exact Hx|]. autorewrite with st in Hx. rewrite (dset_fresh g m (allm s) Hg), map_app in Hx.
      apply in_app_or in Hx as [Hx|[Hx|[]]]; [right; exact Hx | left; cbn in Hx; subst; exact Hm]. }
    specialize (H x g' t Hin' Hx'). autorewrite with st.
    destruct (Nat.eq_dec g g') as [->|Hne]; [congruence|]. rewrite dget_dset_other by exact Hne. exact H.
  Qed.

  Lemma LR_set_local s m g v : LR s -> dget g (allm s) = Some v -> LR (set_local m g v s).
  Proof.
    intros H Hg x g' t Hin Hx. rewrite allm_set_local in *. unfold set_local in Hin. rewrite local_of_dset in Hin.
    destruct (Nat.eqb m x) eqn:E.
    - apply Nat.eqb_eq in E. subst x. apply In_dset_inv in Hin as [[-> ->]|Hin]; [exact Hg | apply (H m g' t Hin Hx)].
    - apply (H x g' t Hin Hx).
  Qed.

  Definition loader_lr (ld : nat -> state -> (err + nat) * state) : Prop :=
    forall g s, Inv s -> LR s -> dget g (allm s) = None -> forall m, fst (ld g s) = inr m -> LR (snd (ld g s)).

  Lemma load_model_lr ld m mi g s s' :
    loader_cl n0 ld -> loader_lr ld -> Inv s -> LR s -> n0 <= m -> nth_error (heap s) m = Some mi ->
    load_model ld m g s = (None, s') -> LR s'.
  Proof.
    intros Hcl Hlr HI HL Hm Hh. unfold load_model.
    destruct (dhas g (local_of m s)). { intro H; inversion H; subst; exact HL. }
    destruct (dget g (allm s)) as [m'|] eqn:Eg.
    { intro H; inversion H; subst. apply LR_set_local; assumption. }
    destruct (Hcl g s HI Eg) as [Hst Hok]. specialize (Hlr g s HI HL Eg).
    destruct (ld g s) as [[e|m'] s1]; cbn [fst snd] in *; [discriminate|].
    intro H; inversion H; subst. destruct (Hok m' eq_refl) as [Hp Hg1]. specialize (Hlr m' eq_refl).
    apply LR_set_local.
    - eapply LR_ext; [apply set_all_same; exact Hg1 | reflexivity | exact Hlr].
    - rewrite set_all_same by exact Hg1. exact Hg1.
  Qed.

  Lemma load_files_lr ld m mi gs : forall s s',
    loader_cl n0 ld -> loader_lr ld -> Inv s -> LR s -> n0 <= m -> nth_error (heap s) m = Some mi ->
    load_files ld m gs s = (None, s') -> LR s'.
  Proof.
    induction gs as [|g gs IH]; intros s s' Hcl Hlr HI HL Hm Hh; cbn.
    - intro H; inversion H; subst; exact HL.
    - destruct (load_model ld m g s) as [r1 s1] eqn:E1.
      destruct (load_model_cl n0 _ _ _ _ _ _ _ Hcl HI Hm Hh E1) as [Hst1 _].
      destruct r1 as [e|]; [discriminate|].
      assert (HL1 : LR s1) by (eapply load_model_lr; eassumption).
      intro H. exact (IH s1 s' Hcl Hlr (st_inv _ _ _ Hst1) HL1 Hm (st_heap _ _ _ Hst1 m mi Hh) H).
  Qed.

  Lemma load_stmts_lr ld m mf mi stmts : forall s s',
    loader_cl n0 ld -> loader_lr ld -> Inv s -> LR s -> n0 <= m -> In m (constr s) ->
    nth_error (heap s) m = Some mi -> mfile mi = mf ->
    load_stmts ld m mf stmts s = (None, s') -> LR s'.
  Proof.
    induction stmts as [|gs rest IH]; intros s s' Hcl Hlr HI HL Hm Hc Hh Hf; cbn.
    - intro H; inversion H; subst; exact HL.
    - destruct (update_in_repo_cl n0 s m mf mi HI Hm Hc Hh Hf) as [Hst1 _].
      assert (HL1 : LR (update_in_repo m mf s)).
      { unfold update_in_repo. destruct (dhas mf (allm s)) eqn:E; [exact HL|]. apply LR_set_all; [exact HL | | exact Hm].
        unfold dhas in E. destruct (dget mf (allm s)); [discriminate | reflexivity]. }
      destruct gs as [|g0 gs0]; [discriminate|].
      destruct (load_files ld m (g0 :: gs0) (update_in_repo m mf s)) as [r2 s2] eqn:E2.
      destruct (load_files_cl n0 _ _ _ _ _ _ _ Hcl (st_inv _ _ _ Hst1) Hm (st_heap _ _ _ Hst1 m mi Hh) E2) as [Hst2 _].
      destruct r2 as [e|]; [discriminate|].
      assert (HL2 : LR s2).
      { eapply load_files_lr; [exact Hcl | exact Hlr | apply (st_inv _ _ _ Hst1) | exact HL1 | exact Hm | exact (st_heap _ _ _ Hst1 m mi Hh) | exact E2]. }
      pose proof (Step_trans _ _ _ _ Hst1 Hst2) as Hst12.
      intro H. exact (IH s2 s' Hcl Hlr (st_inv _ _ _ Hst12) HL2 Hm (st_constr _ _ _ Hst12 m Hc) (st_heap _ _ _ Hst12 m mi Hh) Hf H).
  Qed.

  Lemma load_file_lr fuel : forall main g s,
    Inv s -> LR s -> dget g (allm s) = None ->
    forall m, fst (load_file fs c fuel main g s) = inr m -> LR (snd (load_file fs c fuel main g s)).
  Proof.
    induction fuel as [|k IH]; intros main g s HI HL Hg m; [cbn; discriminate|].
    cbn [load_file].
    destruct (nth_error fs g) as [fc|] eqn:Efc; [|cbn; discriminate].
    assert (Hst1 : Step s (with_reads s (reads s ++ [g]))) by (eapply Step_ext; [apply Step_refl; exact HI | reflexivity..]).
    destruct (fsyn fc); [cbn; discriminate|].
    rewrite src_register_before.
    set (s1 := with_reads s (reads s ++ [g])) in *.
    set (mid := length (heap s1)).
    set (s2 := alloc g fc s1).
    assert (Hst2 : Step s s2) by (eapply Step_trans; [exact Hst1 | apply Step_alloc; apply (st_inv _ _ _ Hst1)]).
    assert (Hmid : n0 <= mid) by (apply (inv_n0 n0 s1 (st_inv _ _ _ Hst1))).
    assert (Hc2 : In mid (constr s2)) by (subst s2; autorewrite with st; left; reflexivity).
    assert (Hh2 : nth_error (heap s2) mid = Some (mkMinfo g (curop s1) fc)).
    { subst s2 mid. autorewrite with st. rewrite nth_error_app2 by lia. rewrite Nat.sub_diag. reflexivity. }
    assert (Hv2 : ~ In mid (vals s2)).
    { intro Hin. apply in_map_iff in Hin as [[k' v] [Hv Hin]]. cbn in Hv. subst v.
      destruct (inv_file n0 s1 (st_inv _ _ _ Hst1) k' mid Hin) as [mi' [H1 _]].
      assert (mid < length (heap s1)) by (apply nth_error_Some; congruence). subst mid. lia. }
    assert (HL2 : LR s2) by (eapply LR_ext; [| |exact HL]; reflexivity).
    set (s3 := if (main && negb (cglobal c))%bool then s2 else set_all g mid s2).
    assert (H3 : Step s2 s3 /\ LR s3).
    { subst s3. destruct (main && negb (cglobal c))%bool.
      - split; [apply Step_refl; apply (st_inv _ _ _ Hst2) | exact HL2].
      - destruct (Step_set_all_fresh n0 s2 g mid _ (st_inv _ _ _ Hst2) Hg Hmid Hc2 Hh2 eq_refl Hv2) as [A _].
        split; [exact A | apply LR_set_all; [exact HL2 | exact Hg | exact Hmid]]. }
    destruct H3 as [Hst23 HL3].
    assert (HI3 : Inv s3) by apply (st_inv _ _ _ Hst23).
    assert (Hcl : loader_cl n0 (load_file fs c k false)).
    { intros g' s' HI' Hg'. destruct (load_file_cl fs c n0 k false g' s' HI' Hg') as [A [B _]]. split; [exact A|].
      intros m' Hm'. destruct (B m' Hm') as [B1 [_ [_ B3]]]. split; [exact B1 | apply B3; reflexivity]. }
    assert (Hlr : loader_lr (load_file fs c k false)) by (intros g' s' HI' HL' Hg' m' Hm'; apply (IH false g' s' HI' HL' Hg' m' Hm')).
    assert (Hc3 : In mid (constr s3)) by (subst s3; destruct (main && negb (cglobal c))%bool; exact Hc2).
    assert (Hh3 : nth_error (heap s3) mid = Some (mkMinfo g (curop s1) fc)) by (subst s3; destruct (main && negb (cglobal c))%bool; exact Hh2).
    destruct (if (clazy c && is_nil (frefs fc))%bool then (None, s3)
              else load_stmts (load_file fs c k false) mid g (fimports fc) s3) as [r s4] eqn:E4.
    assert (HL4 : r = None -> LR s4).
    { intro Hr. subst r. destruct (clazy c && is_nil (frefs fc))%bool.
      - inversion E4; subst; exact HL3.
      - eapply load_stmts_lr; [exact Hcl | exact Hlr | exact HI3 | exact HL3 | exact Hmid | exact Hc3 | exact Hh3 | reflexivity | exact E4]. }
    destruct r as [e|]; [cbn; discriminate|].
    destruct main.
    - cbn [fst snd]. intros _. apply HL4; reflexivity.
    - destruct (fmp fc); cbn [fst snd]; [discriminate|]. intros _. apply HL4; reflexivity.
  Qed.
End Ident.

(* between two loads: the local models of every registered model are registered models *)
Definition LocReg (s : state) : Prop :=
  forall x g t, In (g, t) (local_of x s) -> In x (vals s) -> dget g (allm s) = Some t.

Lemma LocReg_init b : LocReg (init_state b).
Proof. intros x g t _ []. Qed.

Theorem load_main_ok_registered_raw fs c f s m s' :
  Stable s -> LocReg s -> load_main_raw fs c f s = (inr m, s') ->
  forall x g t, In (g, t) (local_of x s') -> (In x (vals s') \/ x = m) -> dget g (allm s') = Some t.
Proof.
  intros HS HL. unfold load_main_raw. set (s0 := begin_op c s).
  pose proof (Stable_begin_op c s HS) as HS0. fold s0 in HS0.
  destruct (Stable_Inv s0 HS0) as [HI0 Hold0].
  assert (HL0 : LocReg s0).
  { subst s0. unfold begin_op. destruct (cglobal c); [exact HL|]. intros x g t _ []. }
  destruct (if cglobal c then dget f (allm s0) else None) as [m0|] eqn:Ec.
  { destruct (model_processors_on_cached && flag_of fmp m0 s0)%bool; intro H; inversion H; subst. intros x g t Hin Hx. apply (HL0 x g t Hin).
    destruct Hx as [Hx | ->]; [exact Hx|]. destruct (cglobal c); [|discriminate]. apply dget_In in Ec.
    apply in_map_iff. exists (f, m). auto. }
  assert (Hg : dget f (allm s0) = None).
  { destruct (cglobal c) eqn:Eg; [exact Ec|]. subst s0. unfold begin_op. rewrite Eg. reflexivity. }
  set (n0 := length (heap s0)) in *.
  assert (HLR0 : LR n0 s0).
  { intros x g t Hin [Hx|Hx]; [|apply (HL0 x g t Hin Hx)]. destruct HS0 as [_ [_ [_ [_ E]]]]. destruct (E x g t Hin). unfold n0 in Hx. lia. }
  destruct (load_file_cl fs c n0 (S (length fs)) true f s0 HI0 Hg) as [Hst [Hok _]].
  pose proof (load_file_lr fs c n0 (S (length fs)) true f s0 HI0 HLR0 Hg) as Hlr.
  destruct (load_file fs c (S (length fs)) true f s0) as [[e1|m1] s1]; cbn [fst snd] in *; [discriminate|].
  destruct (Hok m1 eq_refl) as [_ [Hm1 [Hc _]]]. specialize (Hlr m1 eq_refl). intro H.
  destruct (finish_main_ok_stable n0 c f m1 _ s1 m s' (st_inv _ _ _ Hst) Hc H) as [-> [Ea [_ [El _]]]].
  intros x g t Hin Hx. rewrite Ea. rewrite (local_of_ext s1 s' x El) in Hin. apply (Hlr x g t Hin).
  destruct Hx as [Hx | ->]; [right; rewrite <- Ea; exact Hx | left; exact Hm1].
Qed.



(* C17 identity: after a successful load, every name looked up from a model of the result resolves into the
   model itself, a builtin model, or THE model registered in all_models for the target's file *)


Lemma registered_same_file_same_model s t1 t2 :
  dget (file_of t1 s) (allm s) = Some t1 -> dget (file_of t2 s) (allm s) = Some t2 -> file_of t1 s = file_of t2 s -> t1 = t2.
Proof. intros H1 H2 E. rewrite E in H1. congruence. Qed.

(* ================================================================== 8. the load as observed: garbage collection (tidy) *)
Notation ltn n := (fun x : nat => Nat.ltb x n).
Notation keyltn n := (fun kv : nat * list (option (nat * nat)) => Nat.ltb (fst kv) n).

Lemma targets_handler m s : targets (handler m s) = targets s.
Proof. unfold handler. destruct cleanup_construction_failure; [apply targets_remove_from_repos | reflexivity]. Qed.
Lemma curop_handler m s : curop (handler m s) = curop s.
Proof. unfold handler. destruct cleanup_construction_failure; [apply curop_remove_from_repos | reflexivity]. Qed.

Lemma filter_dset_high {A} n x (v : A) l : n <= x ->
  filter (fun kv => Nat.ltb (fst kv) n) (dset x v l) = filter (fun kv => Nat.ltb (fst kv) n) l.
Proof.
  intro Hx. assert (Hf : Nat.ltb x n = false) by (apply Nat.ltb_ge; exact Hx).
  induction l as [|[k w] l IH]; cbn [dset filter fst].
  - rewrite Hf. reflexivity.
  - destruct (Nat.eqb x k) eqn:E; cbn [filter fst].
    + apply Nat.eqb_eq in E. subst k. rewrite Hf. reflexivity.
    + rewrite IH. reflexivity.
Qed.

Lemma resolve_all_old c n models : forall s s', (forall x, In x models -> n <= x) -> resolve_all c models s = inr s' ->
  filter (keyltn n) (targets s') = filter (keyltn n) (targets s) /\ curop s' = curop s.
Proof.
  induction models as [|x t IH]; intros s s' Hm; cbn.
  - intro H. inversion H. auto.
  - destruct (resolve_refs c s x (refs_of x s)) as [tg|]; [|discriminate]. intro H.
    apply IH in H; [|intros y Hy; apply Hm; right; exact Hy]. destruct H as [H1 H2]. split; [|exact H2].
    etransitivity; [exact H1|]. cbn [targets with_targets]. apply filter_dset_high. apply Hm. left. reflexivity.
Qed.

Lemma filter_filter_low n (p : nat -> bool) l : (forall x, x < n -> p x = true) -> filter (ltn n) (filter p l) = filter (ltn n) l.
Proof.
  intro H. induction l as [|a l IH]; cbn [filter]; [reflexivity|].
  destruct (Nat.ltb a n) eqn:E.
  - pose proof E as E'. apply Nat.ltb_lt in E'. rewrite (H a E'). cbn [filter]. rewrite E, IH. reflexivity.
  - destruct (p a); cbn [filter]; rewrite ?E; exact IH.
Qed.

Lemma finish_main_failure_frame n0 c f m cached s1 e s' :
  Inv n0 s1 -> n0 <= m -> finish_main c f m cached s1 = (inl e, s') ->
  heap s' = heap s1 /\ filter (ltn n0) (constr s') = filter (ltn n0) (constr s1) /\
  filter (keyltn n0) (targets s') = filter (keyltn n0) (targets s1) /\ curop s' = curop s1.
Proof.
  intros HI Hm. unfold finish_main. rewrite src_cleanup_inner, src_cleanup_mp.
  set (models := filter (fun x => mem x (constr s1)) (included m s1)).
  destruct (constr_rem_facts n0 s1 m HI Hm) as [_ Hr]. fold models in Hr.
  destruct (resolve_all c models s1) as [e1|s2] eqn:Er.
  { intro H. inversion H; subst.
    rewrite heap_handler, constr_handler, targets_handler, curop_handler,
      heap_remove_from_repos, constr_remove_from_repos, targets_remove_from_repos, curop_remove_from_repos. auto. }
  destruct (resolve_all_old c n0 models s1 s2 Hr Er) as [Et Eo].
  apply resolve_all_frame in Er. destruct Er as [_ [Ea [Eh [El Ec]]]].
  set (s3 := with_constr s2 (filter (fun x => negb (mem x models)) (constr s2))).
  assert (Hc3 : filter (ltn n0) (constr s3) = filter (ltn n0) (constr s1)).
  { subst s3. cbn [constr with_constr]. rewrite Ec. apply filter_filter_low. intros x Hx.
    apply negb_true_iff, mem_false. intro Hin. apply Hr in Hin. lia. }
  destruct (first_obj_fail models s3).
  { intro H. inversion H; subst.
    rewrite heap_handler, constr_handler, targets_handler, curop_handler,
      heap_remove_from_repos, constr_remove_from_repos, targets_remove_from_repos, curop_remove_from_repos.
    repeat split; [exact Eh | exact Hc3 | exact Et | exact Eo]. }
  destruct (flag_of fmp m s3); [|discriminate].
  intro H. inversion H; subst.
  rewrite heap_remove_from_repos, constr_remove_from_repos, targets_remove_from_repos, curop_remove_from_repos.
  repeat split; [exact Eh | exact Hc3 | exact Et | exact Eo].
Qed.

Lemma prefix_firstn {A} (l l' : list A) :
  (forall v a, nth_error l v = Some a -> nth_error l' v = Some a) -> firstn (length l) l' = l.
Proof.
  revert l'. induction l as [|a l IH]; intros l' H; [reflexivity|].
  destruct l' as [|b l']; [specialize (H 0 a eq_refl); discriminate|].
  pose proof (H 0 a eq_refl) as H0. cbn in H0. inversion H0; subst b. cbn. f_equal.
  apply IH. intros v x Hv. exact (H (S v) x Hv).
Qed.

(* what a failing raw load leaves of the earlier state, beyond C18_clean *)
Lemma load_main_raw_failure_frame fs c f s e s1 :
  Stable s -> load_main_raw fs c f s = (inl e, s1) ->
  firstn (length (heap s)) (heap s1) = heap s /\
  filter (ltn (length (heap s))) (constr s1) = filter (ltn (length (heap s))) (constr s) /\
  filter (keyltn (length (heap s))) (targets s1) = filter (keyltn (length (heap s))) (targets s) /\
  curop s1 = curop s.
Proof.
  intros HS. unfold load_main_raw. set (s0 := begin_op c s).
  pose proof (Stable_begin_op c s HS) as HS0. fold s0 in HS0.
  destruct (Stable_Inv s0 HS0) as [HI0 Hold0].
  assert (E0 : heap s0 = heap s /\ constr s0 = constr s /\ targets s0 = targets s /\ curop s0 = curop s)
    by (subst s0; unfold begin_op; destruct (cglobal c); auto).
  destruct E0 as [Eh0 [Ec0 [Et0 Eo0]]].
  set (n0 := length (heap s0)) in *.
  assert (En : n0 = length (heap s)) by (unfold n0; rewrite Eh0; reflexivity).
  destruct (if cglobal c then dget f (allm s0) else None) as [m|] eqn:Ec.
  { destruct (model_processors_on_cached && flag_of fmp m s0)%bool; intro H; inversion H; subst s1.
    rewrite Eh0, Ec0, Et0, Eo0. split; [apply firstn_all | auto]. }
  assert (Hg : dget f (allm s0) = None).
  { destruct (cglobal c) eqn:Eg; [exact Ec|]. subst s0. unfold begin_op. rewrite Eg. reflexivity. }
  destruct (load_file_cl fs c n0 (S (length fs)) true f s0 HI0 Hg) as [Hst [Hok _]].
  destruct (load_file fs c (S (length fs)) true f s0) as [[e1|m] s1'] eqn:El; cbn [fst snd] in *.
  - intro H. inversion H; subst. rewrite <- En, <- Eh0, <- Ec0, <- Et0, <- Eo0. fold n0.
    split; [apply prefix_firstn; apply (st_heap _ _ _ Hst)|]. split; [apply (st_cold _ _ _ Hst)|].
    split; [rewrite (st_tgt _ _ _ Hst); reflexivity | apply (st_curop _ _ _ Hst)].
  - destruct (Hok m eq_refl) as [_ [Hm _]]. intro H.
    destruct (finish_main_failure_frame n0 c f m _ s1' e s1 (st_inv _ _ _ Hst) Hm H) as [Fh [Fc [Ft Fo]]].
    rewrite <- En, <- Eh0, <- Ec0, <- Et0, <- Eo0. fold n0. rewrite Fh, Fc, Ft, Fo.
    split; [apply prefix_firstn; apply (st_heap _ _ _ Hst)|]. split; [apply (st_cold _ _ _ Hst)|].
    split; [rewrite (st_tgt _ _ _ Hst); reflexivity | apply (st_curop _ _ _ Hst)].
Qed.

(* ---- projections of tidy *)
Lemma allm_tidy n s : allm (tidy n s) = allm s. Proof. reflexivity. Qed.
Lemma reads_tidy n s : reads (tidy n s) = reads s. Proof. reflexivity. Qed.
Lemma heap_tidy n s : heap (tidy n s) = firstn n (heap s). Proof. reflexivity. Qed.
Lemma length_heap_tidy n s : n <= length (heap s) -> length (heap (tidy n s)) = n.
Proof. intro H. rewrite heap_tidy, firstn_length. lia. Qed.

Lemma nth_error_firstn_lt {A} n (l : list A) v : v < n -> nth_error (firstn n l) v = nth_error l v.
Proof.
  revert l v. induction n as [|n IH]; intros l v Hv; [lia|].
  destruct l as [|a l]; [destruct v; reflexivity|]. destruct v as [|v]; [reflexivity|]. cbn. apply IH. lia.
Qed.

Lemma dget_tab (F : nat -> list (nat * nat)) k : forall a x,
  dget x (filter nonempty_entry (map (fun y => (y, F y)) (seq a k))) =
  if (Nat.leb a x && Nat.ltb x (a + k) && negb (is_nil (F x)))%bool then Some (F x) else None.
Proof.
  induction k as [|k IH]; intros a x; cbn [seq map filter].
  - cbn [dget]. rewrite Nat.add_0_r.
    destruct (Nat.leb a x) eqn:E1; [|reflexivity]. apply Nat.leb_le in E1.
    replace (Nat.ltb x a) with false by (symmetry; apply Nat.ltb_ge; exact E1). reflexivity.
  - unfold nonempty_entry at 1. cbn [snd].
    destruct (Nat.eq_dec x a) as [->|Hne].
    + replace (Nat.leb a a) with true by (symmetry; apply Nat.leb_refl).
      replace (Nat.ltb a (a + S k)) with true by (symmetry; apply Nat.ltb_lt; lia). cbn [andb].
      destruct (is_nil (F a)) eqn:En; cbn [negb].
      * rewrite IH. replace (Nat.leb (S a) a) with false by (symmetry; apply Nat.leb_gt; lia). reflexivity.
      * cbn [dget]. rewrite Nat.eqb_refl. reflexivity.
    + assert (Hrest : dget x (filter nonempty_entry (map (fun y => (y, F y)) (seq (S a) k))) =
                      if (Nat.leb a x && Nat.ltb x (a + S k) && negb (is_nil (F x)))%bool then Some (F x) else None).
      { rewrite IH. replace (Nat.ltb x (S a + k)) with (Nat.ltb x (a + S k)) by (f_equal; lia).
        replace (Nat.leb (S a) x) with (Nat.leb a x); [reflexivity|].
        destruct (Nat.leb a x) eqn:E1; symmetry; [apply Nat.leb_le; apply Nat.leb_le in E1; lia | apply Nat.leb_gt; apply Nat.leb_gt in E1; lia]. }
      destruct (negb (is_nil (F a))); [|exact Hrest].
      cbn [dget]. replace (Nat.eqb x a) with false by (symmetry; apply Nat.eqb_neq; exact Hne). exact Hrest.
Qed.

Lemma local_of_tidy n s x : local_of x (tidy n s) = if Nat.ltb x n then local_of x s else [].
Proof.
  unfold local_of at 1. cbn [locals tidy]. unfold norm_locals. rewrite (dget_tab (fun y => local_of y s) n 0 x).
  cbn [Nat.leb andb plus]. destruct (Nat.ltb x n); [|reflexivity].
  cbn [andb]. destruct (local_of x s) eqn:E; reflexivity.
Qed.
Lemma local_of_tidy_lt n s x : x < n -> local_of x (tidy n s) = local_of x s.
Proof. intro H. rewrite local_of_tidy. apply Nat.ltb_lt in H. rewrite H. reflexivity. Qed.
Lemma In_local_of_tidy n s x g t : In (g, t) (local_of x (tidy n s)) -> x < n /\ In (g, t) (local_of x s).
Proof. rewrite local_of_tidy. destruct (Nat.ltb x n) eqn:E; [apply Nat.ltb_lt in E; auto | intros []]. Qed.

Lemma Stable_tidy n s : Stable s -> n <= length (heap s) ->
  (forall k v, In (k, v) (allm s) -> v < n) ->
  (forall x g t, x < n -> In (g, t) (local_of x s) -> t < n) ->
  Stable (tidy n s).
Proof.
  intros [A [B [C [D E]]]] Hn Hv Hl. unfold Stable, file_ok. rewrite allm_tidy, (length_heap_tidy n s Hn).
  split; [exact A|]. split; [exact B|]. split; [|split].
  - intros k v Hin. destruct (C k v Hin) as [mi [H1 H2]]. exists mi. split; [|exact H2].
    rewrite heap_tidy, nth_error_firstn_lt; [exact H1 | eapply Hv; exact Hin].
  - intros v Hin Hc. cbn [constr tidy] in Hc. apply filter_In in Hc as [Hc _]. eapply D; eassumption.
  - intros x g t Hin. apply In_local_of_tidy in Hin as [Hx Hin]. split; [exact Hx | eapply Hl; eassumption].
Qed.

(* ---- the theorems about the raw load carry over to the load as observed *)
Theorem load_main_once fs c f s :
  K (begin_op c s) ->
  fst (load_main fs c f s) <> inl EFuel /\ NoDup (reads (snd (load_main fs c f s))).
Proof. intro H. unfold load_main. cbn [fst snd]. rewrite reads_tidy. apply load_main_once_raw. exact H. Qed.

Lemma cached_load_returns_cached fs c f s m :
  cglobal c = true -> dget f (allm s) = Some m ->
  fst (load_main fs c f s) = inr m /\ reads (snd (load_main fs c f s)) = [] /\ allm (snd (load_main fs c f s)) = allm s.
Proof.
  intros Hg Hc. unfold load_main. cbn [fst snd]. rewrite reads_tidy, allm_tidy. apply cached_load_returns_cached_raw; assumption.
Qed.

Theorem load_main_failure_clean fs c f s e s' :
  Stable s -> load_main fs c f s = (inl e, s') ->
  allm s' = allm (begin_op c s) /\ (forall x, x < length (heap s) -> local_of x s' = local_of x s) /\ Stable s'.
Proof.
  intros HS. unfold load_main, live_bound. destruct (load_main_raw fs c f s) as [r s1] eqn:E. cbn [fst snd].
  intro H. inversion H; subst r s'. clear H.
  destruct (load_main_failure_clean_raw fs c f s e s1 HS E) as [Ha [Hl HS1]].
  destruct (load_main_raw_failure_frame fs c f s e s1 HS E) as [Hf _].
  assert (Hn : length (heap s) <= length (heap s1)).
  { apply (f_equal (@length _)) in Hf. rewrite firstn_length in Hf. lia. }
  split; [exact Ha|]. split; [intros x Hx; rewrite local_of_tidy_lt by exact Hx; apply Hl; exact Hx|].
  destruct HS as [_ [_ [C [_ E5]]]].
  apply Stable_tidy; [exact HS1 | exact Hn | |].
  - intros k v Hin. rewrite Ha in Hin. unfold begin_op in Hin. destruct (cglobal c); cbn in Hin; [|destruct Hin].
    destruct (C k v Hin) as [mi [H1 _]]. apply nth_error_Some. congruence.
  - intros x g t Hx Hin. rewrite (Hl x Hx) in Hin. apply (E5 x g t Hin).
Qed.

Theorem load_main_stable fs c f s : Stable s -> Stable (snd (load_main fs c f s)).
Proof.
  intro HS. destruct (load_main fs c f s) as [[e|m] s'] eqn:E; cbn [snd].
  - destruct (load_main_failure_clean fs c f s e s' HS E) as [_ [_ H]]. exact H.
  - revert E. unfold load_main, live_bound. pose proof (load_main_stable_raw fs c f s HS) as HS1.
    destruct (load_main_raw fs c f s) as [r s1]. cbn [fst snd] in *. intro H. inversion H; subst r s'.
    pose proof HS1 as HS1'. destruct HS1 as [A [B [C [D E5]]]].
    apply Stable_tidy; [exact HS1' | apply le_n | |].
    + intros k v Hin. destruct (C k v Hin) as [mi [H1 _]]. apply nth_error_Some. congruence.
    + intros x g t _ Hin. apply (E5 x g t Hin).
Qed.

Theorem load_main_ok_registered fs c f s m s' :
  Stable s -> LocReg s -> load_main fs c f s = (inr m, s') ->
  forall x g t, In (g, t) (local_of x s') -> (In x (vals s') \/ x = m) -> dget g (allm s') = Some t.
Proof.
  intros HS HL. unfold load_main, live_bound. destruct (load_main_raw fs c f s) as [r s1] eqn:E. cbn [fst snd].
  intro H. inversion H; subst r s'. intros x g t Hin Hx. rewrite allm_tidy in *.
  apply In_local_of_tidy in Hin as [_ Hin]. eapply (load_main_ok_registered_raw fs c f s m s1 HS HL E); eassumption.
Qed.

(* ---- the observed state is in normal form; a failed load restores the state exactly *)
Definition Tidy (s : state) : Prop :=
  (forall x, In x (constr s) -> x < length (heap s)) /\
  (forall kv, In kv (targets s) -> fst kv < length (heap s)) /\
  locals s = norm_locals (length (heap s)) s.

Lemma norm_locals_ext n s s' : (forall x, x < n -> local_of x s' = local_of x s) -> norm_locals n s' = norm_locals n s.
Proof.
  intro H. unfold norm_locals. f_equal. apply map_ext_in. intros x Hx. apply in_seq in Hx. rewrite H by lia. reflexivity.
Qed.

Lemma tidy_Tidy n s : n <= length (heap s) -> Tidy (tidy n s).
Proof.
  intro Hn. unfold Tidy. rewrite (length_heap_tidy n s Hn). split; [|split].
  - intros x Hx. cbn [constr tidy] in Hx. apply filter_In in Hx as [_ Hx]. apply Nat.ltb_lt. exact Hx.
  - intros kv Hk. cbn [targets tidy] in Hk. apply filter_In in Hk as [_ Hk]. apply Nat.ltb_lt. exact Hk.
  - cbn [locals tidy]. symmetry. apply norm_locals_ext. intros x Hx. apply local_of_tidy_lt. exact Hx.
Qed.

Lemma Tidy_init b : Tidy (init_state b).
Proof.
  unfold Tidy, init_state. cbn [constr targets locals heap]. split; [intros x []|]. split; [intros kv []|].
  unfold norm_locals. symmetry. generalize (length (map (fun fc => mkMinfo 0 0 fc) b)). intro n. generalize 0.
  induction n as [|n IH]; intro a; cbn; [reflexivity|]. apply IH.
Qed.

Theorem load_main_Tidy fs c f s : Stable s -> Tidy (snd (load_main fs c f s)).
Proof.
  intro HS. unfold load_main, live_bound. destruct (load_main_raw fs c f s) as [[e|m] s1] eqn:E; cbn [fst snd]; apply tidy_Tidy; [|apply le_n].
  destruct (load_main_raw_failure_frame fs c f s e s1 HS E) as [Hf _].
  apply (f_equal (@length _)) in Hf. rewrite firstn_length in Hf. lia.
Qed.

Theorem failed_load_restores_state fs c f s e s' :
  Stable s -> Tidy s -> load_main fs c f s = (inl e, s') ->
  heap s' = heap s /\ allm s' = allm (begin_op c s) /\ locals s' = locals s /\ constr s' = constr s /\
  targets s' = targets s /\ curop s' = curop s.
Proof.
  intros HS [T1 [T2 T3]] H.
  destruct (load_main_failure_clean fs c f s e s' HS H) as [Ha _].
  revert H. unfold load_main, live_bound. destruct (load_main_raw fs c f s) as [r s1] eqn:E. cbn [fst snd].
  intro H. inversion H; subst r s'. clear H.
  destruct (load_main_failure_clean_raw fs c f s e s1 HS E) as [_ [Hl _]].
  destruct (load_main_raw_failure_frame fs c f s e s1 HS E) as [Fh [Fc [Ft Fo]]].
  split; [exact Fh|]. split; [exact Ha|]. split; [|split; [|split]].
  - cbn [locals tidy]. rewrite T3. apply norm_locals_ext. exact Hl.
  - cbn [constr tidy]. rewrite Fc. apply filter_id. intros x Hx. apply Nat.ltb_lt. apply T1. exact Hx.
  - cbn [targets tidy]. rewrite Ft. apply filter_id. intros kv Hk. apply Nat.ltb_lt. apply T2. exact Hk.
  - exact Fo.
Qed.

Lemma load_main_begin_op fs c f a b :
  begin_op c a = begin_op c b -> length (heap a) = length (heap b) -> load_main fs c f a = load_main fs c f b.
Proof.
  intros H Hl. unfold load_main, live_bound, load_main_raw. rewrite H, Hl. reflexivity.
Qed.

(* C18, last clause: after a failed load, EVERY following load - on whatever the files have been rewritten to -
   is literally the load that would have happened had the failed attempt never taken place: same outcome, same
   file-open trace, same resulting state (repositories, local models, reference targets, model identities). *)
Theorem reload_as_if_never_failed fs c f s e s' :
  Stable s -> Tidy s -> load_main fs c f s = (inl e, s') ->
  forall fs' f', load_main fs' c f' s' = load_main fs' c f' s.
Proof.
  intros HS HT H fs' f'. destruct (failed_load_restores_state fs c f s e s' HS HT H) as [Eh [Ea [El [Ec [Et Eo]]]]].
  apply load_main_begin_op; [|rewrite Eh; reflexivity].
  unfold begin_op in *. destruct s as [h a l co t r o], s' as [h' a' l' co' t' r' o']. cbn in *. subst.
  destruct (cglobal c); cbn in *; subst; reflexivity.
Qed.

(* ================================================================== 9. main models loaded from a string *)
Section StrPhase.
  Variable fs : list file.
  Variable c : cfg.

  (* the load phase of a string main model, from the state s0 after begin_op *)
  Lemma load_str_phase s0 k fc r s4 :
    let n0 := length (heap s0) in
    Inv n0 s0 ->
    (if (clazy c && is_nil (frefs fc))%bool then (None, alloc k fc s0)
     else load_stmts (load_file fs c (S (length fs)) false) (length (heap s0)) k (fimports fc) (alloc k fc s0)) = (r, s4) ->
    Step n0 s0 s4 /\ In (length (heap s0)) (constr s4) /\ (LR n0 s0 -> r = None -> LR n0 s4).
  Proof.
    intros n0 HI E.
    set (m := length (heap s0)) in *. set (s2 := alloc k fc s0) in *.
    assert (Hst2 : Step n0 s0 s2) by (apply Step_alloc; exact HI).
    assert (Hc2 : In m (constr s2)) by (subst s2; autorewrite with st; left; reflexivity).
    assert (Hh2 : nth_error (heap s2) m = Some (mkMinfo k (curop s0) fc)).
    { subst s2 m. autorewrite with st. rewrite nth_error_app2 by lia. rewrite Nat.sub_diag. reflexivity. }
    assert (Hcl : loader_cl n0 (load_file fs c (S (length fs)) false)).
    { intros g' s' HI' Hg'. destruct (load_file_cl fs c n0 (S (length fs)) false g' s' HI' Hg') as [A [B _]]. split; [exact A|].
      intros m' Hm'. destruct (B m' Hm') as [B1 [_ [_ B3]]]. split; [exact B1 | apply B3; reflexivity]. }
    assert (Hlr : loader_lr n0 (load_file fs c (S (length fs)) false))
      by (intros g' s' HI' HL' Hg' m' Hm'; apply (load_file_lr fs c n0 (S (length fs)) false g' s' HI' HL' Hg' m' Hm')).
    destruct (clazy c && is_nil (frefs fc))%bool.
    - inversion E; subst. split; [exact Hst2|]. split; [exact Hc2|]. intros HL _. eapply LR_ext; [| |exact HL]; reflexivity.
    - destruct (load_stmts_cl n0 _ _ _ _ _ _ _ _ Hcl (st_inv _ _ _ Hst2) (le_n _) Hc2 Hh2 eq_refl E) as [Hst4 _].
      split; [eapply Step_trans; eassumption|]. split; [apply (st_constr _ _ _ Hst4); exact Hc2|].
      intros HL Hr. subst r. eapply load_stmts_lr; [exact Hcl | exact Hlr | apply (st_inv _ _ _ Hst2) | | apply le_n | exact Hc2 | exact Hh2 | reflexivity | exact E].
      eapply LR_ext; [| |exact HL]; reflexivity.
  Qed.
End StrPhase.

Lemma Stable_LR s : Stable s -> LocReg s -> LR (length (heap s)) s.
Proof.
  intros HS HL x g t Hin [Hx|Hx]; [|apply (HL x g t Hin Hx)]. destruct HS as [_ [_ [_ [_ E]]]]. destruct (E x g t Hin). lia.
Qed.
Lemma LocReg_begin_op c s : LocReg s -> LocReg (begin_op c s).
Proof. intro HL. unfold begin_op. destruct (cglobal c); [exact HL|]. intros x g t _ []. Qed.

Theorem load_str_failure_clean_raw fs c fc s e s' :
  Stable s -> load_str_raw fs c fc s = (inl e, s') ->
  allm s' = allm (begin_op c s) /\ (forall x, x < length (heap s) -> local_of x s' = local_of x s) /\ Stable s'.
Proof.
  intros HS. unfold load_str_raw. set (s0 := begin_op c s).
  pose proof (Stable_begin_op c s HS) as HS0. fold s0 in HS0.
  destruct (Stable_Inv s0 HS0) as [HI0 Hold0].
  assert (Eh0 : heap s0 = heap s) by (subst s0; unfold begin_op; destruct (cglobal c); reflexivity).
  assert (El0 : forall x, local_of x s0 = local_of x s) by (intro x; subst s0; unfold begin_op; destruct (cglobal c); reflexivity).
  set (n0 := length (heap s0)) in *.
  destruct (fsyn fc).
  { intro H. inversion H; subst. split; [reflexivity|]. split; [intros; apply El0 | exact HS0]. }
  destruct (if (clazy c && is_nil (frefs fc))%bool then _ else _) as [r s4] eqn:E4.
  destruct (load_str_phase fs c s0 (anon_key fs s0) fc r s4 HI0 E4) as [Hst [Hc _]]. fold n0 in Hst.
  assert (Hold : old n0 s4 = allm s0) by (rewrite (st_old _ _ _ Hst); unfold old; apply filter_id; exact Hold0).
  assert (Hloc : forall s'', (forall x, x < n0 -> local_of x s'' = local_of x s4) -> forall x, x < length (heap s) -> local_of x s'' = local_of x s).
  { intros s'' H x Hx. assert (Hx0 : x < n0) by (unfold n0; rewrite Eh0; exact Hx). rewrite (H x Hx0), (st_loc _ _ _ Hst x Hx0). apply El0. }
  destruct r as [e1|].
  - intro H. inversion H; subst. destruct (handler_clean n0 s4 n0 (st_inv _ _ _ Hst) (le_n _)) as [Hh Ha].
    split; [rewrite Ha; exact Hold|]. split; [apply Hloc; intros x Hx; apply (st_loc _ _ _ Hh x Hx)|].
    apply (Inv_old_Stable n0); [apply (st_inv _ _ _ Hh) | rewrite Ha, Hold; exact Hold0].
  - intro H.
    assert (Hcached : forall v, In v (vals s0) -> v < n0).
    { intros v Hin. apply in_map_iff in Hin as [[k' v'] [<- Hin]]. specialize (Hold0 _ Hin). unfold is_old in Hold0. cbn in *.
      apply Nat.ltb_lt. exact Hold0. }
    destruct (finish_main_clean n0 c _ n0 s0 s4 e s' (st_inv _ _ _ Hst) (le_n _) Hc Hold Hcached H) as [HI' [Ha' Hl']].
    split; [exact Ha'|]. split; [apply Hloc; exact Hl'|]. apply (Inv_old_Stable n0); [exact HI' | rewrite Ha'; exact Hold0].
Qed.

Lemma load_str_raw_failure_frame fs c fc s e s1 :
  Stable s -> load_str_raw fs c fc s = (inl e, s1) ->
  firstn (length (heap s)) (heap s1) = heap s /\
  filter (ltn (length (heap s))) (constr s1) = filter (ltn (length (heap s))) (constr s) /\
  filter (keyltn (length (heap s))) (targets s1) = filter (keyltn (length (heap s))) (targets s) /\
  curop s1 = curop s.
Proof.
  intros HS. unfold load_str_raw. set (s0 := begin_op c s).
  pose proof (Stable_begin_op c s HS) as HS0. fold s0 in HS0.
  destruct (Stable_Inv s0 HS0) as [HI0 Hold0].
  assert (E0 : heap s0 = heap s /\ constr s0 = constr s /\ targets s0 = targets s /\ curop s0 = curop s)
    by (subst s0; unfold begin_op; destruct (cglobal c); auto).
  destruct E0 as [Eh0 [Ec0 [Et0 Eo0]]].
  set (n0 := length (heap s0)) in *.
  assert (En : n0 = length (heap s)) by (unfold n0; rewrite Eh0; reflexivity).
  destruct (fsyn fc).
  { intro H. inversion H; subst s1. rewrite Eh0, Ec0, Et0, Eo0. split; [apply firstn_all | auto]. }
  destruct (if (clazy c && is_nil (frefs fc))%bool then _ else _) as [r s4] eqn:E4.
  destruct (load_str_phase fs c s0 (anon_key fs s0) fc r s4 HI0 E4) as [Hst [Hc _]]. fold n0 in Hst.
  destruct r as [e1|].
  - intro H. inversion H; subst. rewrite heap_handler, constr_handler, targets_handler, curop_handler.
    rewrite <- En, <- Eh0, <- Ec0, <- Et0, <- Eo0. fold n0.
    split; [apply prefix_firstn; apply (st_heap _ _ _ Hst)|]. split; [apply (st_cold _ _ _ Hst)|].
    split; [rewrite (st_tgt _ _ _ Hst); reflexivity | apply (st_curop _ _ _ Hst)].
  - intro H. destruct (finish_main_failure_frame n0 c _ n0 _ s4 e s1 (st_inv _ _ _ Hst) (le_n _) H) as [Fh [Fc [Ft Fo]]].
    rewrite <- En, <- Eh0, <- Ec0, <- Et0, <- Eo0. fold n0. rewrite Fh, Fc, Ft, Fo.
    split; [apply prefix_firstn; apply (st_heap _ _ _ Hst)|]. split; [apply (st_cold _ _ _ Hst)|].
    split; [rewrite (st_tgt _ _ _ Hst); reflexivity | apply (st_curop _ _ _ Hst)].
Qed.

Theorem load_str_stable_raw fs c fc s : Stable s -> Stable (snd (load_str_raw fs c fc s)).
Proof.
  intro HS. destruct (load_str_raw fs c fc s) as [[e|m] s'] eqn:E; cbn [snd].
  - destruct (load_str_failure_clean_raw fs c fc s e s' HS E) as [_ [_ H]]. exact H.
  - revert E. unfold load_str_raw. set (s0 := begin_op c s).
    pose proof (Stable_begin_op c s HS) as HS0. fold s0 in HS0.
    destruct (Stable_Inv s0 HS0) as [HI0 _].
    destruct (fsyn fc); [discriminate|].
    destruct (if (clazy c && is_nil (frefs fc))%bool then _ else _) as [r s4] eqn:E4.
    destruct (load_str_phase fs c s0 (anon_key fs s0) fc r s4 HI0 E4) as [Hst [Hc _]].
    destruct r as [e1|]; [discriminate|]. intro H.
    destruct (finish_main_ok_stable _ c _ _ _ s4 m s' (st_inv _ _ _ Hst) Hc H) as [_ [_ [_ [_ HS']]]]. exact HS'.
Qed.

Theorem load_str_ok_registered_raw fs c fc s m s' :
  Stable s -> LocReg s -> load_str_raw fs c fc s = (inr m, s') ->
  forall x g t, In (g, t) (local_of x s') -> (In x (vals s') \/ x = m) -> dget g (allm s') = Some t.
Proof.
  intros HS HL. unfold load_str_raw. set (s0 := begin_op c s).
  pose proof (Stable_begin_op c s HS) as HS0. fold s0 in HS0.
  destruct (Stable_Inv s0 HS0) as [HI0 _].
  pose proof (Stable_LR s0 HS0 (LocReg_begin_op c s HL)) as HLR0. fold s0 in HLR0.
  destruct (fsyn fc); [discriminate|].
  destruct (if (clazy c && is_nil (frefs fc))%bool then _ else _) as [r s4] eqn:E4.
  destruct (load_str_phase fs c s0 (anon_key fs s0) fc r s4 HI0 E4) as [Hst [Hc Hlr]].
  destruct r as [e1|]; [discriminate|]. specialize (Hlr HLR0 eq_refl). intro H.
  destruct (finish_main_ok_stable _ c _ _ _ s4 m s' (st_inv _ _ _ Hst) Hc H) as [-> [Ea [_ [El _]]]].
  intros x g t Hin Hx. rewrite Ea. rewrite (local_of_ext s4 s' x El) in Hin. apply (Hlr x g t Hin).
  destruct Hx as [Hx | ->]; [right; rewrite <- Ea; exact Hx | left; apply le_n].
Qed.

(* ---- the observed string load (with garbage collection) *)
Theorem load_str_failure_clean fs c fc s e s' :
  Stable s -> load_str fs c fc s = (inl e, s') ->
  allm s' = allm (begin_op c s) /\ (forall x, x < length (heap s) -> local_of x s' = local_of x s) /\ Stable s'.
Proof.
  intros HS. unfold load_str, live_bound. destruct (load_str_raw fs c fc s) as [r s1] eqn:E. cbn [fst snd].
  intro H. inversion H; subst r s'. clear H.
  destruct (load_str_failure_clean_raw fs c fc s e s1 HS E) as [Ha [Hl HS1]].
  destruct (load_str_raw_failure_frame fs c fc s e s1 HS E) as [Hf _].
  assert (Hn : length (heap s) <= length (heap s1)).
  { apply (f_equal (@length _)) in Hf. rewrite firstn_length in Hf. lia. }
  split; [exact Ha|]. split; [intros x Hx; rewrite local_of_tidy_lt by exact Hx; apply Hl; exact Hx|].
  destruct HS as [_ [_ [C [_ E5]]]].
  apply Stable_tidy; [exact HS1 | exact Hn | |].
  - intros k v Hin. rewrite Ha in Hin. unfold begin_op in Hin. destruct (cglobal c); cbn in Hin; [|destruct Hin].
    destruct (C k v Hin) as [mi [H1 _]]. apply nth_error_Some. congruence.
  - intros x g t Hx Hin. rewrite (Hl x Hx) in Hin. apply (E5 x g t Hin).
Qed.

Theorem load_str_stable fs c fc s : Stable s -> Stable (snd (load_str fs c fc s)).
Proof.
  intro HS. destruct (load_str fs c fc s) as [[e|m] s'] eqn:E; cbn [snd].
  - destruct (load_str_failure_clean fs c fc s e s' HS E) as [_ [_ H]]. exact H.
  - revert E. unfold load_str, live_bound. pose proof (load_str_stable_raw fs c fc s HS) as HS1.
    destruct (load_str_raw fs c fc s) as [r s1]. cbn [fst snd] in *. intro H. inversion H; subst r s'.
    pose proof HS1 as HS1'. destruct HS1 as [A [B [C [D E5]]]].
    apply Stable_tidy; [exact HS1' | apply le_n | |].
    + intros k v Hin. destruct (C k v Hin) as [mi [H1 _]]. apply nth_error_Some. congruence.
    + intros x g t _ Hin. apply (E5 x g t Hin).
Qed.

Theorem load_str_ok_registered fs c fc s m s' :
  Stable s -> LocReg s -> load_str fs c fc s = (inr m, s') ->
  forall x g t, In (g, t) (local_of x s') -> (In x (vals s') \/ x = m) -> dget g (allm s') = Some t.
Proof.
  intros HS HL. unfold load_str, live_bound. destruct (load_str_raw fs c fc s) as [r s1] eqn:E. cbn [fst snd].
  intro H. inversion H; subst r s'. intros x g t Hin Hx. rewrite allm_tidy in *.
  apply In_local_of_tidy in Hin as [_ Hin]. eapply (load_str_ok_registered_raw fs c fc s m s1 HS HL E); eassumption.
Qed.

Theorem load_str_locreg fs c fc s : Stable s -> LocReg s -> LocReg (snd (load_str fs c fc s)).
Proof.
  intros HS HL. destruct (load_str fs c fc s) as [[e|m] s'] eqn:E; cbn [snd].
  - destruct (load_str_failure_clean fs c fc s e s' HS E) as [Ha [Hl _]].
    intros x g t Hin Hx. rewrite Ha in *. unfold begin_op in *. destruct (cglobal c); cbn [allm with_reads with_allm map] in *; [|destruct Hx].
    assert (Hlt : x < length (heap s)).
    { apply in_map_iff in Hx as [[k v] [<- Hx]]. destruct HS as [_ [_ [C _]]]. destruct (C k v Hx) as [mi [H _]]. apply nth_error_Some. cbn. congruence. }
    rewrite (Hl x Hlt) in Hin. apply (HL x g t Hin Hx).
  - intros x g t Hin Hx. eapply (load_str_ok_registered fs c fc s m s' HS HL E); [exact Hin | left; exact Hx].
Qed.

Theorem load_str_Tidy fs c fc s : Stable s -> Tidy (snd (load_str fs c fc s)).
Proof.
  intro HS. unfold load_str, live_bound. destruct (load_str_raw fs c fc s) as [[e|m] s1] eqn:E; cbn [fst snd]; apply tidy_Tidy; [|apply le_n].
  destruct (load_str_raw_failure_frame fs c fc s e s1 HS E) as [Hf _].
  apply (f_equal (@length _)) in Hf. rewrite firstn_length in Hf. lia.
Qed.

Theorem failed_load_str_restores_state fs c fc s e s' :
  Stable s -> Tidy s -> load_str fs c fc s = (inl e, s') ->
  heap s' = heap s /\ allm s' = allm (begin_op c s) /\ locals s' = locals s /\ constr s' = constr s /\
  targets s' = targets s /\ curop s' = curop s.
Proof.
  intros HS [T1 [T2 T3]] H.
  destruct (load_str_failure_clean fs c fc s e s' HS H) as [Ha _].
  revert H. unfold load_str, live_bound. destruct (load_str_raw fs c fc s) as [r s1] eqn:E. cbn [fst snd].
  intro H. inversion H; subst r s'. clear H.
  destruct (load_str_failure_clean_raw fs c fc s e s1 HS E) as [_ [Hl _]].
  destruct (load_str_raw_failure_frame fs c fc s e s1 HS E) as [Fh [Fc [Ft Fo]]].
  split; [exact Fh|]. split; [exact Ha|]. split; [|split; [|split]].
  - cbn [locals tidy]. rewrite T3. apply norm_locals_ext. exact Hl.
  - cbn [constr tidy]. rewrite Fc. apply filter_id. intros x Hx. apply Nat.ltb_lt. apply T1. exact Hx.
  - cbn [targets tidy]. rewrite Ft. apply filter_id. intros kv Hk. apply Nat.ltb_lt. apply T2. exact Hk.
  - exact Fo.
Qed.

Lemma load_str_begin_op fs c fc a b :
  begin_op c a = begin_op c b -> length (heap a) = length (heap b) -> load_str fs c fc a = load_str fs c fc b.
Proof. intros H Hl. unfold load_str, live_bound, load_str_raw. rewrite H, Hl. reflexivity. Qed.

(* whatever failed (a file load or a string load), whatever follows (a file load or a string load) is literally
   what it would have been without the failed attempt *)
Lemma restored_state_same_loads c s s' :
  heap s' = heap s /\ allm s' = allm (begin_op c s) /\ locals s' = locals s /\ constr s' = constr s /\
  targets s' = targets s /\ curop s' = curop s ->
  (forall fs' f', load_main fs' c f' s' = load_main fs' c f' s) /\
  (forall fs' fc', load_str fs' c fc' s' = load_str fs' c fc' s).
Proof.
  intros [Eh [Ea [El [Ec [Et Eo]]]]].
  assert (Eb : begin_op c s' = begin_op c s).
  { unfold begin_op in *. destruct s as [h a l co t r o], s' as [h' a' l' co' t' r' o']. cbn in *. subst.
    destruct (cglobal c); cbn in *; subst; reflexivity. }
  split; intros; [apply load_main_begin_op | apply load_str_begin_op]; try exact Eb; rewrite Eh; reflexivity.
Qed.

Theorem next_load_as_if_never_failed c s s' :
  Stable s -> Tidy s ->
  (exists fs f e, load_main fs c f s = (inl e, s')) \/ (exists fs fc e, load_str fs c fc s = (inl e, s')) ->
  (forall fs' f', load_main fs' c f' s' = load_main fs' c f' s) /\
  (forall fs' fc', load_str fs' c fc' s' = load_str fs' c fc' s).
Proof.
  intros HS HT [[fs [f [e H]]]|[fs [fc [e H]]]]; apply restored_state_same_loads.
  - exact (failed_load_restores_state fs c f s e s' HS HT H).
  - exact (failed_load_str_restores_state fs c fc s e s' HS HT H).
Qed.

Theorem run_hist_stable_tidy c ops : forall fs s, Stable s -> Tidy s -> Stable (run_hist c fs s ops) /\ Tidy (run_hist c fs s ops).
Proof.
  induction ops as [|[f|f fc|fc] t IH]; intros fs s HS HT; cbn; [auto | | apply IH; assumption | ].
  - apply IH; [apply load_main_stable; exact HS | apply load_main_Tidy; exact HS].
  - apply IH; [apply load_str_stable; exact HS | apply load_str_Tidy; exact HS].
Qed.

(* a failing load can be dropped from a history: what follows is unchanged *)
Theorem failing_load_is_invisible c fs f s e s' ops fs' f' :
  Stable s -> Tidy s -> load_main fs c f s = (inl e, s') ->
  run_hist c fs' s' (OLoad f' :: ops) = run_hist c fs' s (OLoad f' :: ops).
Proof.
  intros HS HT H. cbn [run_hist]. rewrite (reload_as_if_never_failed fs c f s e s' HS HT H fs' f'). reflexivity.
Qed.

Theorem reload_in_history c b fs0 ops fs f e s' :
  let s := run_hist c fs0 (init_state b) ops in
  load_main fs c f s = (inl e, s') -> forall fs' f', load_main fs' c f' s' = load_main fs' c f' s.
Proof.
  intros s H. destruct (run_hist_stable_tidy c ops fs0 (init_state b) (Stable_init b) (Tidy_init b)) as [HS HT].
  exact (reload_as_if_never_failed fs c f s e s' HS HT H).
Qed.

Theorem run_hist_stable c ops : forall fs s, Stable s -> Stable (run_hist c fs s ops).
Proof.
  induction ops as [|[f|f fc|fc] t IH]; intros fs s HS; cbn; [exact HS | | apply IH; exact HS | ].
  - apply IH. apply load_main_stable. exact HS.
  - apply IH. apply load_str_stable. exact HS.
Qed.

(* history-level corollaries *)
Theorem hist_single_model_per_file c b fs ops :
  let s := run_hist c fs (init_state b) ops in
  NoDup (keys s) /\ NoDup (vals s) /\
  (forall k v, In (k, v) (allm s) -> exists mi, nth_error (heap s) v = Some mi /\ mfile mi = k).
Proof.
  intro s. destruct (run_hist_stable c ops fs (init_state b) (Stable_init b)) as [A [B [C _]]]. auto.
Qed.

Theorem failure_leaves_only_earlier_models fs c f s e s' :
  Stable s -> load_main fs c f s = (inl e, s') ->
  (forall k v, In (k, v) (allm s') -> v < length (heap s) /\ In (k, v) (allm s)) /\
  (cglobal c = true -> allm s' = allm s).
Proof.
  intros HS E. destruct (load_main_failure_clean fs c f s e s' HS E) as [Ha _].
  assert (Hb : cglobal c = true -> allm (begin_op c s) = allm s) by (intro Hg; unfold begin_op; rewrite Hg; reflexivity).
  split; [|intro Hg; rewrite Ha; apply Hb; exact Hg].
  intros k v Hin. rewrite Ha in Hin. unfold begin_op in Hin. destruct (cglobal c); cbn in Hin; [|destruct Hin].
  split; [|exact Hin]. destruct HS as [_ [_ [C _]]]. destruct (C k v Hin) as [mi [H _]]. apply nth_error_Some. congruence.
Qed.

Theorem after_failure_cache_serves fs fs' c f s e s' k v :
  Stable s -> load_main fs c f s = (inl e, s') -> cglobal c = true ->
  dget k (allm s) = Some v ->
  fst (load_main fs' c k s') = inr v /\ reads (snd (load_main fs' c k s')) = [].
Proof.
  intros HS E Hg Hk. destruct (failure_leaves_only_earlier_models fs c f s e s' HS E) as [_ Ha].
  specialize (Ha Hg). destruct (cached_load_returns_cached fs' c k s' v Hg ltac:(rewrite Ha; exact Hk)) as [A [B _]]. auto.
Qed.

Theorem load_main_locreg fs c f s : Stable s -> LocReg s -> LocReg (snd (load_main fs c f s)).
Proof.
  intros HS HL. destruct (load_main fs c f s) as [[e|m] s'] eqn:E; cbn [snd].
  - destruct (load_main_failure_clean fs c f s e s' HS E) as [Ha [Hl _]].
    intros x g t Hin Hx. rewrite Ha in *. unfold begin_op in *. destruct (cglobal c); cbn [allm with_reads with_allm map] in *; [|destruct Hx].
    assert (Hlt : x < length (heap s)).
    { apply in_map_iff in Hx as [[k v] [<- Hx]]. destruct HS as [_ [_ [C _]]]. destruct (C k v Hx) as [mi [H _]]. apply nth_error_Some. cbn. congruence. }
    rewrite (Hl x Hlt) in Hin. apply (HL x g t Hin Hx).
  - intros x g t Hin Hx. eapply (load_main_ok_registered fs c f s m s' HS HL E); [exact Hin | left; exact Hx].
Qed.

Theorem run_hist_locreg c ops : forall fs s, Stable s -> LocReg s -> LocReg (run_hist c fs s ops).
Proof.
  induction ops as [|[f|f fc|fc] t IH]; intros fs s HS HL; cbn; [exact HL | | apply IH; assumption | ].
  - apply IH; [apply load_main_stable; exact HS | apply load_main_locreg; assumption].
  - apply IH; [apply load_str_stable; exact HS | apply load_str_locreg; assumption].
Qed.

Theorem identity_after_load fs c f s m s' x n t i :
  Stable s -> LocReg s -> load_main fs c f s = (inr m, s') ->
  In x (included m s') -> resolve_name c s' x n = Some (t, i) ->
  t = x \/ In t (cbuiltins c) \/ (dget (file_of t s') (allm s') = Some t).
Proof.
  intros HS HL E Hx Hr. destruct (resolve_name_in c s' x n t i Hr) as [[H|[H|H]] _]; [left; exact H | | right; left; exact H].
  right. right. apply in_map_iff in H as [[g t'] [Ht Hin]]. cbn in Ht. subst t'.
  assert (Hreg : dget g (allm s') = Some t).
  { apply (load_main_ok_registered fs c f s m s' HS HL E x g t Hin). apply In_included in Hx. exact Hx. }
  pose proof (load_main_stable fs c f s HS) as HS'. rewrite E in HS'. cbn in HS'.
  destruct HS' as [_ [_ [C _]]]. destruct (C g t (dget_In _ _ _ Hreg)) as [mi [H1 H2]].
  unfold file_of. rewrite H1, H2. exact Hreg.
Qed.

Theorem identity_in_history c b fs0 ops fs f m s' x n t i :
  let s := run_hist c fs0 (init_state b) ops in
  load_main fs c f s = (inr m, s') -> In x (included m s') -> resolve_name c s' x n = Some (t, i) ->
  (t = x \/ In t (cbuiltins c) \/ dget (file_of t s') (allm s') = Some t) /\
  exists fc, cont_of t s' = Some fc /\ nth_error (felems fc) i = Some n.
Proof.
  intros s E Hx Hr. split; [|apply (resolve_name_in c s' x n t i Hr)].
  eapply (identity_after_load fs c f s m s' x n t i); try eassumption.
  - apply run_hist_stable, Stable_init.
  - apply run_hist_locreg; [apply Stable_init | apply LocReg_init].
Qed.

Theorem identity_after_load_str fs c fc s m s' x n t i :
  Stable s -> LocReg s -> load_str fs c fc s = (inr m, s') ->
  In x (included m s') -> resolve_name c s' x n = Some (t, i) ->
  t = x \/ In t (cbuiltins c) \/ (dget (file_of t s') (allm s') = Some t).
Proof.
  intros HS HL E Hx Hr. destruct (resolve_name_in c s' x n t i Hr) as [[H|[H|H]] _]; [left; exact H | | right; left; exact H].
  right. right. apply in_map_iff in H as [[g t'] [Ht Hin]]. cbn in Ht. subst t'.
  assert (Hreg : dget g (allm s') = Some t).
  { apply (load_str_ok_registered fs c fc s m s' HS HL E x g t Hin). apply In_included in Hx. exact Hx. }
  pose proof (load_str_stable fs c fc s HS) as HS'. rewrite E in HS'. cbn in HS'.
  destruct HS' as [_ [_ [C _]]]. destruct (C g t (dget_In _ _ _ Hreg)) as [mi [H1 H2]].
  unfold file_of. rewrite H1, H2. exact Hreg.
Qed.

Theorem identity_in_history_str c b fs0 ops fs fc m s' x n t i :
  let s := run_hist c fs0 (init_state b) ops in
  load_str fs c fc s = (inr m, s') -> In x (included m s') -> resolve_name c s' x n = Some (t, i) ->
  t = x \/ In t (cbuiltins c) \/ dget (file_of t s') (allm s') = Some t.
Proof.
  intros s E Hx Hr. eapply (identity_after_load_str fs c fc s m s' x n t i); try eassumption.
  - apply run_hist_stable, Stable_init.
  - apply run_hist_locreg; [apply Stable_init | apply LocReg_init].
Qed.

Theorem next_load_in_history c b fs0 ops s' :
  let s := run_hist c fs0 (init_state b) ops in
  (exists fs f e, load_main fs c f s = (inl e, s')) \/ (exists fs fc e, load_str fs c fc s = (inl e, s')) ->
  (forall fs' f', load_main fs' c f' s' = load_main fs' c f' s) /\
  (forall fs' fc', load_str fs' c fc' s' = load_str fs' c fc' s).
Proof.
  intros s H. destruct (run_hist_stable_tidy c ops fs0 (init_state b) (Stable_init b) (Tidy_init b)) as [HS HT].
  exact (next_load_as_if_never_failed c s s' HS HT H).
Qed.

(* a string load never runs out of fuel either and opens no file twice *)
Theorem load_str_once_raw fs c fc s :
  K (begin_op c s) ->
  fst (load_str_raw fs c fc s) <> inl EFuel /\ NoDup (reads (snd (load_str_raw fs c fc s))).
Proof.
  intro HK. unfold load_str_raw. set (s0 := begin_op c s) in *.
  assert (Hr0 : reads s0 = []) by reflexivity.
  destruct (fsyn fc). { cbn [fst snd]. rewrite Hr0. split; [discriminate | constructor]. }
  set (k := anon_key fs s0). set (m := length (heap s0)). set (s2 := alloc k fc s0).
  assert (HK2 : K s2) by exact HK.
  assert (Hr2 : reads s2 = []) by reflexivity.
  assert (Hld : loader_ok fs (S (length fs)) (load_file fs c (S (length fs)) false)).
  { intros g' s' HK' Hg' Hf' Hnd' Hinc'. destruct (load_file_once fs c (S (length fs)) false g' s' HK' Hg' Hf' Hnd' Hinc') as [A [B C]].
    split; [exact A|]. split; [exact B|]. intros m' Hm. destruct (C m' Hm) as [C1 [C2 C3]]. destruct (C3 eq_refl) as [_ D2]. auto. }
  destruct (if (clazy c && is_nil (frefs fc))%bool then (None, s2)
            else load_stmts (load_file fs c (S (length fs)) false) m k (fimports fc) s2) as [r s4] eqn:E4.
  assert (Hres : r <> Some EFuel /\ NoDup (reads s4)).
  { destruct (clazy c && is_nil (frefs fc))%bool.
    - inversion E4; subst. split; [discriminate|]. rewrite Hr2. constructor.
    - destruct (load_stmts_once fs _ _ _ _ _ _ _ _ Hld HK2 ltac:(lia) ltac:(rewrite Hr2; constructor)
                  ltac:(rewrite Hr2; intros x []) E4) as [A [B _]]. split; assumption. }
  destruct Hres as [Hnf Hnd4].
  destruct r as [e|].
  - cbn [fst snd]. split; [congruence | rewrite reads_handler; exact Hnd4].
  - split; [apply fst_finish_main_nofuel | rewrite reads_finish_main; exact Hnd4].
Qed.

Theorem load_str_once fs c fc s :
  K (begin_op c s) ->
  fst (load_str fs c fc s) <> inl EFuel /\ NoDup (reads (snd (load_str fs c fc s))).
Proof. intro H. unfold load_str. cbn [fst snd]. rewrite reads_tidy. apply load_str_once_raw. exact H. Qed.

(* in every history (file loads, string loads, rewrites) the next load reads every file at most once *)
Theorem once_in_history c b fs0 ops :
  let s := run_hist c fs0 (init_state b) ops in
  (forall fs f, fst (load_main fs c f s) <> inl EFuel /\ NoDup (reads (snd (load_main fs c f s)))) /\
  (forall fs fc, fst (load_str fs c fc s) <> inl EFuel /\ NoDup (reads (snd (load_str fs c fc s)))).
Proof.
  intros s. assert (HK : K (begin_op c s)).
  { destruct (Stable_begin_op c s (run_hist_stable c ops fs0 (init_state b) (Stable_init b))) as [A _]. exact A. }
  split; intros; [apply load_main_once | apply load_str_once]; exact HK.
Qed.

(* ================================================================== 10. imports across languages (external cache) *)
Theorem load_main_x_once_raw x xvals fs c f s :
  K (begin_op c s) ->
  fst (load_main_x_raw x xvals fs c f s) <> inl EFuel /\ NoDup (reads (snd (load_main_x_raw x xvals fs c f s))).
Proof.
  intro HK. unfold load_main_x_raw.
  set (s0 := begin_op c s) in *.
  assert (Hr0 : reads s0 = []) by reflexivity.
  destruct (if cglobal c then dget f (allm s0) else None) as [m|] eqn:Ec.
  { destruct (model_processors_on_cached && flag_of fmp m s0)%bool; cbn [fst snd]; rewrite Hr0; split; try discriminate; constructor. }
  assert (Hf : ~ In f (keys s0)).
  { destruct (cglobal c) eqn:Eg; [apply dget_None_notin; exact Ec|]. subst s0. unfold begin_op. rewrite Eg. cbn. tauto. }
  destruct (load_file_x_once fs c x (S (length fs)) true f s0 HK Hf ltac:(lia)
              ltac:(rewrite Hr0; constructor) ltac:(rewrite Hr0; intros y [])) as [A [B _]].
  destruct (load_file_x x fs c (S (length fs)) true f s0) as [[e|m] s1]; cbn [fst snd] in *.
  - split; assumption.
  - split; [apply fst_finish_main_nofuel | rewrite reads_finish_main; exact B].
Qed.

Theorem load_main_x_once x xvals fs c f s :
  K (begin_op c s) ->
  fst (load_main_x x xvals fs c f s) <> inl EFuel /\ NoDup (reads (snd (load_main_x x xvals fs c f s))).
Proof. intro H. unfold load_main_x. cbn [fst snd]. rewrite reads_tidy. apply load_main_x_once_raw. exact H. Qed.

Lemma load_model_cong ld1 ld2 m g s : (forall g' s', ld1 g' s' = ld2 g' s') -> load_model ld1 m g s = load_model ld2 m g s.
Proof. intro H. unfold load_model. rewrite H. reflexivity. Qed.
Lemma load_files_cong ld1 ld2 m gs : (forall g' s', ld1 g' s' = ld2 g' s') -> forall s, load_files ld1 m gs s = load_files ld2 m gs s.
Proof.
  intro H. induction gs as [|g gs IH]; intro s; cbn [load_files]; [reflexivity|].
  rewrite (load_model_cong ld1 ld2 m g s H). destruct (load_model ld2 m g s) as [[e|] s1]; [reflexivity | apply IH].
Qed.
Lemma load_stmts_cong ld1 ld2 m mf stmts : (forall g' s', ld1 g' s' = ld2 g' s') -> forall s, load_stmts ld1 m mf stmts s = load_stmts ld2 m mf stmts s.
Proof.
  intro H. induction stmts as [|gs rest IH]; intro s; cbn [load_stmts]; [reflexivity|].
  destruct gs as [|g0 gs0]; [reflexivity|].
  rewrite (load_files_cong ld1 ld2 m (g0 :: gs0) H). destruct (load_files ld2 m (g0 :: gs0) _) as [[e|] s2]; [reflexivity | apply IH].
Qed.

Lemma load_file_x_none fs c fuel : forall main g s,
  load_file_x (fun _ => None) fs c fuel main g s = load_file fs c fuel main g s.
Proof.
  induction fuel as [|k IH]; intros main g s; [reflexivity|]. cbn [load_file_x load_file].
  destruct (nth_error fs g) as [fc|]; [|reflexivity]. destruct (fsyn fc); [reflexivity|].
  rewrite (load_stmts_cong (with_ext (fun _ => None) (load_file_x (fun _ => None) fs c k false)) (load_file fs c k false));
    [reflexivity|]. intros g' s'. unfold with_ext. apply IH.
Qed.

Theorem load_main_x_none fs c f s : load_main_x (fun _ => None) [] fs c f s = load_main fs c f s.
Proof.
  unfold load_main_x, load_main, load_main_x_raw, load_main_raw. rewrite load_file_x_none, app_nil_r. reflexivity.
Qed.

Lemma load_model_ext_hit x ld m g s m' :
  dhas g (local_of m s) = false -> dget g (allm s) = None -> x g = Some m' ->
  load_model (with_ext x ld) m g s = (None, set_local m g m' (set_all g m' s)).
Proof. intros H1 H2 H3. unfold load_model, with_ext. rewrite H1, H2, H3. reflexivity. Qed.

(* ================================================================== 11. names defined twice in one file *)
Lemma resolve_refs_duplicate_refused c s x n ns t i :
  cunique c = true -> resolve_name c s x n = Some (t, i) -> dup_in s n t = true -> resolve_refs c s x (n :: ns) = None.
Proof. intros Hu Hr Hd. cbn [resolve_refs]. rewrite Hr. cbn [fst]. rewrite Hu, Hd. reflexivity. Qed.

Lemma resolve_refs_first_taken c s x n ns tg :
  (cunique c = false \/ dup_in s n (fst tg) = false) -> resolve_name c s x n = Some tg ->
  resolve_refs c s x (n :: ns) = option_map (cons (Some tg)) (resolve_refs c s x ns).
Proof.
  intros H Hr. cbn [resolve_refs]. rewrite Hr. destruct H as [H|H]; rewrite H; [reflexivity|]. rewrite andb_false_r. reflexivity.
Qed.

Lemma find_elem_first n es i : find_elem n es = Some i ->
  nth_error es i = Some n /\ forall j, j < i -> nth_error es j <> Some n.
Proof.
  revert i. induction es as [|e l IH]; intros i; cbn [find_elem]; [discriminate|].
  destruct (N.eqb e n) eqn:E.
  - intro H. inversion H; subst. apply N.eqb_eq in E. subst. split; [reflexivity | intros j Hj; lia].
  - destruct (find_elem n l) as [k|]; [|discriminate]. cbn. intro H. inversion H; subst.
    destruct (IH k eq_refl) as [H1 H2]. split; [exact H1|]. intros [|j] Hj; cbn.
    + intro H0. inversion H0; subst. rewrite N.eqb_refl in E. discriminate.
    + apply H2. lia.
Qed.

Lemma resolve_name_first_occurrence c s x n t i : resolve_name c s x n = Some (t, i) ->
  exists fc, cont_of t s = Some fc /\ nth_error (felems fc) i = Some n /\ forall j, j < i -> nth_error (felems fc) j <> Some n.
Proof.
  rewrite resolve_name_order. intro H. apply first_some_in in H as [a [_ Hl]].
  unfold lookup_in in Hl. destruct (cont_of a s) as [fc|] eqn:Ec; [|discriminate].
  destruct (find_elem n (felems fc)) as [k|] eqn:Ef; [|discriminate]. cbn in Hl. inversion Hl; subst a k.
  exists fc. split; [exact Ec | apply find_elem_first; exact Ef].
Qed.
